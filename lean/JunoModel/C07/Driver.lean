import JunoModel.Common.Proto
import JunoModel.C07.Model
import JunoModel.C07.ModelBlob
import JunoModel.C07.ModelVal
import JunoModel.C07.Tables
import JunoModel.C07.ModelAccess
import JunoModel.C07.ModelBin
import JunoModel.C07.ModelChain
import JunoModel.C07.ModelPrune
import JunoModel.C07.ModelLayout
import JunoModel.C07.ModelCasm
/-! Line-protocol driver for the C07 model (`lake build c07drv`).

Requests (hex = lower-case hex, `-` = empty byte string):
  dec <hex>                 decode exactly one CBOR item and re-encode it     → `ok <hex>` | `err`
  first <hex>               decode the first item, report how many bytes it took → `ok <n>` | `err`
  build <n> <m> <hex>*      lay out n transactions then m receipts (already encoded items) and
                            marshal the blob                                  → `ok <hex>`
  blob <hex>                unmarshal a stored blob                           → `ok t=<i,..> r=<i,..> d=<len>` | `err`
  tx <hex> <i> / rc <hex> <i>   bytes of item i of a stored blob              → `ok <hex>` | `notfound` | `err` | `panic`
  alltx <hex> / allrc <hex>     all item byte strings                         → `ok <hex>,<hex>..` | …
  type <Name>               description of the model's type table             → `ok <desc>`
  enc <Name> <value…>       encode a Go value (value syntax below) with the table → `ok <hex>` | `err`
  decv <Name> <strict|lenient> <hex>   decode bytes into a value of the table's type → `ok <value…>` | `err`
  acc <accessor> <strict|lenient> <hex>  a partial-decoder accessor on one stored record → `ok <value…>` | `err`
  utf8 <hex>                is the byte string valid UTF-8                    → `true` | `false`
  fsh <n>                   header felt.Slice.MarshalCBOR writes for n elements → `ok <hex>`
  unfsh <hex>               decodeCBORArrayHeader                              → `ok <n> <consumed>` | `none`
  key num <bucket> <n> | key bt <n>     database key of a block number            → `ok <hex>`
  numidx <n> <i>            BlockNumIndexKey bytes                             → `ok <hex>`
  declared <at> <hex>       stored bytes of a DeclaredClassDefinition (class item given) → `ok <hex>`
  casm <declaredAt> <v2 hex> <migratedAt> <v1 hex | n>   ClassCasmHashMetadata.MarshalBinary → `ok <hex>`
  uncasm <hex>              ClassCasmHashMetadata.UnmarshalBinary              → `ok <declaredAt> <v2> <migratedAt> <v1|n>` | `err`
  lim <maxArray> <maxMap> <maxNest> <hex>   does the limited decoder accept the item → `ok` | `rejected` | `err`

Round 4 — extractors on a stored blob (u = decimal uint64 index):
  txat <hex> <u> / rcat <hex> <u>   item bytes through `int(index)`           → `ok <hex>` | `notfound` | `err` | `panic`
  pairat <hex> <u>          extractTransactionAndReceipt                       → `ok <txhex> <rchex>` | …
  allpair <hex>             extractAllTransactionsAndReceipts                  → `ok <n> <m> <hex>*` | …
  hashes <mode> <hex>       extractAllTransactionHashes                        → `ok <value>*` | `err <first failing index>` | `panic`
  events <mode> <hex>       extractAllTransactionEvents                        → `ok <n> (<events value> <hash value>)*` | …
  statusat <mode> <hex> <u> extractExecutionStatus                             → `ok <value> <value>` | …
  into <mode> <hex1> <hex2> decode record 1, then record 2 INTO THE SAME (Reverted, RevertReason) value → `ok <value> <value>` | `err`
  fbytes <a>,<b>,<c>,<d>    felt.Marshal of Montgomery limbs (hex)             → `ok <hex32>`
Round 4 — the store (the driver keeps a key/value store between requests):
  s.reset                                                                      → `ok`
  s.put <key> <val> / s.del <key>                                              → `ok`
  s.write <mode> <num> <hdr> <blob> <su> <comm> <m> (<txhash> <msghash>)*m
                            writeBlockContent of the record DERIVED from the stored bytes → `ok <blockhash> <ntx> <nl1>` | `err`
  s.deltx <mode> <num> <m> (<txhash> <msghash>)*m   DeleteTransactionsAndReceipts → `ok` | `notfound` | `err` | `panic`
  s.revert <mode> <m> (<txhash> <msghash>)*m        RevertHead (block records)  → `ok` | `notfound` | `err` | `panic`
  s.prune <end>             pruner.PruneBlockDataUpto (byte-range deletes between encoded keys) → `ok`
  s.hpmigrate <mode> <floor> <height> <m> (<txhash> <msghash>)*m
                            history-pruner migration on the block-record buckets (prune, wipe the
                            reverse lookups, seed floor-1, restorer for floor..height)  → `ok` | `notfound` | `err` | `panic`
  s.digest                  every live key, sorted: `<key>:<len>:<checksum>`    → `ok <n> <entry>,…`
  s.get <key>                                                                  → `ok <hex>` | `none`
  s.height                                                                     → `ok <n>` | `none`
  s.block <n> / s.blockbyhash <hash> / s.head       header bytes + item bytes  → `ok <hdr> <n> <m> <hex>*` | …
  s.txbyhash <hash>         GetTransactionByHash (item bytes)                  → `ok <hex>` | …
  s.rcbyhash <mode> <hash>  Blockchain.Receipt: item bytes, block hash, number → `ok <hex> <hash> <n>` | …
  s.hdrbyhash <hash> / s.subyhash <hash> / s.l1 <msghash>                      → `ok <hex>` | `none`

Round 5 — prefix scans, the per-transaction layout of earlier binaries, the block-transactions migration:
  ub <hex>                  dbutils.UpperBound                                 → `ok <hex>` | `none`
  s.scan <prefix>           PrefixedBucket.scan: live entries under the prefix, in key order → `ok <n> <key>:<len>:<cksum>,…`
  s.old.items <bucket> <n>  values of Prefix().Add(n).Scan (bucket 10 / 11)    → `ok <k> <hex>*`
  s.old.get <bucket> <n> <i>  TransactionLayoutPerTx.…ByBlockAndIndex (stored bytes) → `ok <hex>` | `none`
  s.putold <mode> <num> <ntx> <nrc> <hex>*   TransactionLayoutPerTx.WriteTransactionsAndReceipts (hash index derived
                            from the transactions)                             → `ok` | `err` | `panic`
  s.btmigrate <mode> <fuel> blocktransactions.Migrator.Migrate on the block-record buckets → `ok` | `notfound` | `err` | `panic`

Round 6 — the CASM-hash record of a declared class (core/class.go) and what a block does to it:
  casmq <declaredAt> <v2> <migratedAt> <v1|n> <h>*   CasmHash, CasmHashV2, IsDeclaredWithV2, IsMigrated, then per height
                            CasmHashAt / IsMigratedAt     → `ok <hex> <hex> <T|F> <T|F> (<hex|notfound> <T|F>)*`
  casmops <declaredAt> <v2> <v1|n> <op>*   ops m<at> (Migrate) | u (Unmigrate) | r (MarshalBinary + UnmarshalBinary), a
                            refused op leaves the record   → `<ok|err:class>* | <declaredAt> <v2> <migratedAt> <v1|n>`
  s.casm.store <0|1 isV2> <n> <k> (<classhash> <casm> <0|1 defOk> <v2computed>)*k <classhash>*
                            storeCasmHashMetadata (reads and writes the driver's store) → `ok` | `err:<class>`
  s.casm.revert <k> <classhash>*k <classhash>*   revertCasmHashMetadata           → `ok` | `err:<class>`
  s.casm.read <classhash> <h>*   CompiledClassHash, CompiledClassHashV2, CompiledClassHashAt per height
                                                           → `ok <hex> <hex> <hex|notfound>*` | `missing` | `err`

Value syntax (prefix form, space separated):
  n | _ | u<dec> | T | F | s<hex> | b<hex> | f<hex>,<hex>,<hex>,<hex> | r<hex of the item's CBOR>
  L<k> v*k | S<k> v*k | M<k> (key value)*k | I<idx> v
-/
open Juno.Proto Juno.C07

def showNats (xs : List Nat) : String := ",".intercalate (xs.map toString)

def showRes {α : Type} (f : α → String) : Res α → String
  | .ok a => "ok " ++ f a
  | .notFound => "notfound"
  | .decodeErr => "err"
  | .panic => "panic"

def hexAll? : List String → Option (List Bytes)
  | [] => some []
  | w :: ws => do
    let b ← hexToBytes? w
    let bs ← hexAll? ws
    pure (b :: bs)

def raw : Bytes → Option Bytes := some

/-! ### value syntax -/

def hexNat? (s : String) : Option Nat := hexToNat? s

mutual
def parseVal : Nat → List String → Option (GoVal × List String)
  | 0, _ => none
  | _ + 1, [] => none
  | fuel + 1, tok :: rest =>
    match tok.toList with
    | ['n'] => some (.nil, rest)
    | ['_'] => some (.unit, rest)
    | ['T'] => some (.bool true, rest)
    | ['F'] => some (.bool false, rest)
    | 'u' :: ds => (String.ofList ds).toNat?.map (fun n => (GoVal.uint n, rest))
    | 's' :: hs => (hexToBytes? (String.ofList hs)).map (fun b => (GoVal.str b, rest))
    | 'b' :: hs => (hexToBytes? (String.ofList hs)).map (fun b => (GoVal.bytes b, rest))
    | 'r' :: hs =>
      match hexToBytes? (String.ofList hs) with
      | some b => (decodeAll b).map (fun c => (GoVal.raw c, rest))
      | none => none
    | 'f' :: hs =>
      match (String.ofList hs).splitOn "," with
      | [a, b, c, d] =>
        match hexNat? a, hexNat? b, hexNat? c, hexNat? d with
        | some a, some b, some c, some d => some (.felt a b c d, rest)
        | _, _, _, _ => none
      | _ => none
    | 'L' :: ds =>
      match (String.ofList ds).toNat? with
      | some k => (parseVals fuel k rest).map (fun (xs, r) => (GoVal.list xs, r))
      | none => none
    | 'S' :: ds =>
      match (String.ofList ds).toNat? with
      | some k => (parseVals fuel k rest).map (fun (xs, r) => (GoVal.struct xs, r))
      | none => none
    | 'M' :: ds =>
      match (String.ofList ds).toNat? with
      | some k => (parsePairs fuel k rest).map (fun (xs, r) => (GoVal.map xs, r))
      | none => none
    | 'I' :: ds =>
      match (String.ofList ds).toNat? with
      | some i => (parseVal fuel rest).map (fun (v, r) => (GoVal.iface i v, r))
      | none => none
    | _ => none
def parseVals : Nat → Nat → List String → Option (List GoVal × List String)
  | _, 0, toks => some ([], toks)
  | 0, _ + 1, _ => none
  | fuel + 1, k + 1, toks =>
    match parseVal fuel toks with
    | some (v, r) =>
      match parseVals fuel k r with
      | some (vs, r') => some (v :: vs, r')
      | none => none
    | none => none
def parsePairs : Nat → Nat → List String → Option (List (GoVal × GoVal) × List String)
  | _, 0, toks => some ([], toks)
  | 0, _ + 1, _ => none
  | fuel + 1, k + 1, toks =>
    match parseVal fuel toks with
    | some (a, r) =>
      match parseVal fuel r with
      | some (b, r') =>
        match parsePairs fuel k r' with
        | some (ps, r'') => some ((a, b) :: ps, r'')
        | none => none
      | none => none
    | none => none
end

def parseValue (toks : List String) : Option GoVal :=
  match parseVal (2 * toks.length + 2) toks with
  | some (v, []) => some v
  | _ => none

mutual
def showVal : GoVal → List String
  | .nil => ["n"]
  | .unit => ["_"]
  | .uint n => ["u" ++ toString n]
  | .bool b => [if b then "T" else "F"]
  | .str s => ["s" ++ bytesToHex s]
  | .bytes b => ["b" ++ bytesToHex b]
  | .felt a b c d => ["f" ++ natToHex a ++ "," ++ natToHex b ++ "," ++ natToHex c ++ "," ++ natToHex d]
  | .raw c => ["r" ++ bytesToHex c.encode]
  | .list xs => ("L" ++ toString xs.length) :: showVals xs
  | .struct vs => ("S" ++ toString vs.length) :: showVals vs
  | .map kvs => ("M" ++ toString kvs.length) :: showPairs kvs
  | .iface i v => ("I" ++ toString i) :: showVal v
def showVals : List GoVal → List String
  | [] => []
  | v :: vs => showVal v ++ showVals vs
def showPairs : List (GoVal × GoVal) → List String
  | [] => []
  | (a, b) :: ps => showVal a ++ (showVal b ++ showPairs ps)
end

def showValue (v : GoVal) : String := " ".intercalate (showVal v)

def cfgOf? : String → Option DecCfg
  | "strict" => some ⟨true⟩
  | "lenient" => some ⟨false⟩
  | _ => none

def showOpt (r : Option GoVal) : String :=
  match r with
  | some v => "ok " ++ showValue v
  | none => "err"

def showOpt2 (r : Option (GoVal × GoVal)) : String :=
  match r with
  | some (a, b) => "ok " ++ showValue a ++ " " ++ showValue b
  | none => "err"

def accessor (name : String) (cfg : DecCfg) (bs : Bytes) : Option String :=
  match name with
  | "GetBlockHeaderHashByNumber" => some (showOpt (getBlockHeaderHash cfg bs))
  | "GetGlobalStateRootByBlockNumber" => some (showOpt (getGlobalStateRoot cfg bs))
  | "GetBlockTransactionCountByNumber" => some (showOpt (getBlockTransactionCount cfg bs))
  | "GetBlockHeaderTimestampByNumber" => some (showOpt (getBlockHeaderTimestamp cfg bs))
  | "GetBlockHeaderEventsBloomByNumber" => some (showOpt (getBlockHeaderEventsBloom cfg bs))
  | "ExecutionStatus" => some (showOpt2 (getExecutionStatus cfg bs))
  | "TransactionEvents" => some (showOpt2 (getTransactionEvents cfg bs))
  | "TransactionHash" => some (showOpt (getTransactionHash cfg bs))
  | _ => none


/-! ### round 4: store helpers -/

def cksum (bs : Bytes) : Nat := bs.foldl (fun h b => (h * 257 + b.toNat + 1) % 36028797018963913) 7

def bytesLe (a b : Bytes) : Bool := !(bytesLt b a)

/-- Live keys (most recent write wins), sorted bytewise. -/
def liveKeys (s : Store) : List Bytes :=
  let ks := s.foldr (fun e acc => if acc.contains e.1 then acc else e.1 :: acc) []
  ks.mergeSort bytesLe

def digest (s : Store) : String :=
  let ks := liveKeys s
  let ents := ks.filterMap (fun k => (s.get k).map (fun v => bytesToHex k ++ ":" ++ toString v.length ++ ":" ++ toString (cksum v)))
  "ok " ++ toString ents.length ++ " " ++ ",".intercalate ents

def parseL1 : List String → Option (List (Bytes × Bytes))
  | [] => some []
  | [_] => none
  | a :: b :: rest => do
    let x ← hexToBytes? a
    let y ← hexToBytes? b
    let tl ← parseL1 rest
    pure ((x, y) :: tl)

def showStoreRes : Res Store → Store → Store × String
  | .ok s', _ => (s', "ok")
  | .notFound, s => (s, "notfound")
  | .decodeErr, s => (s, "err")
  | .panic, s => (s, "panic")

def showBlock (r : Res (Bytes × List Bytes × List Bytes)) : String :=
  showRes (fun (x : Bytes × List Bytes × List Bytes) =>
    " ".intercalate ([bytesToHex x.1, toString x.2.1.length, toString x.2.2.length] ++ (x.2.1 ++ x.2.2).map bytesToHex)) r

def showValList (vs : List GoVal) : String := " ".intercalate (vs.map showValue)

/-- `tx.Hash()` of every stored transaction (by-value hash projection), as 32-byte keys. -/
def hashesOf (cfg : DecCfg) : List Bytes → Option (List Bytes)
  | [] => some []
  | b :: bs =>
    match getTransactionHash cfg b, hashesOf cfg bs with
    | some (.felt x y z w), some hs => some (feltBytes x y z w :: hs)
    | _, _ => none

def casmErrName : CasmErr → String
  | .v2Declared => "v2-declared"
  | .beforeDeclared => "before-declared"
  | .alreadyMigrated => "already-migrated"
  | .notMigrated => "not-migrated"
  | .metaMissing => "metadata-missing"
  | .readFails => "read-fails"
  | .noDefinition => "no-definition"

def tf (b : Bool) : String := if b then "T" else "F"

def optHex? (x : String) : Option (Option Bytes) := if x == "n" then some none else (hexToBytes? x).map some

def showCasmMeta (m : CasmMeta) : String :=
  s!"{m.declaredAt} {bytesToHex m.v2} {m.migratedAt} " ++ (match m.v1 with | some h => bytesToHex h | none => "n")

def natAll? : List String → Option (List Nat)
  | [] => some []
  | x :: xs => do
    let a ← x.toNat?
    let r ← natAll? xs
    pure (a :: r)

def parseCasmOp (x : String) : Option CasmOp :=
  if x == "u" then some .unmigrate
  else if x == "r" then some .reload
  else if x.startsWith "m" then (x.drop 1).toNat?.map .migrate
  else none

def casmOpsAll? : List String → Option (List CasmOp)
  | [] => some []
  | x :: xs => do
    let a ← parseCasmOp x
    let r ← casmOpsAll? xs
    pure (a :: r)

/-- Runs the operations, recording each outcome; a refused operation leaves the record (`CasmMeta.apply`). -/
def runCasmOps (m : CasmMeta) : List CasmOp → List String × CasmMeta
  | [] => ([], m)
  | o :: os =>
    let out : String := match o with
      | .migrate a => (match m.migrate a with | .ok _ => "ok" | .error e => "err:" ++ casmErrName e)
      | .unmigrate => (match m.unmigrate with | .ok _ => "ok" | .error e => "err:" ++ casmErrName e)
      | .reload => (match CasmMeta.unmarshal m.marshal with | some _ => "ok" | none => "err:read-fails")
    let r := runCasmOps (m.apply o) os
    (out :: r.1, r.2)

def parseCasmDecls : Nat → List String → Option (List CasmDecl × List String)
  | 0, rest => some ([], rest)
  | k + 1, c :: h :: d :: v :: rest => do
    let c ← hexToBytes? c
    let h ← hexToBytes? h
    let v ← hexToBytes? v
    let (es, rest') ← parseCasmDecls k rest
    pure (⟨c, h, d == "1", v⟩ :: es, rest')
  | _, _ => none

def takeHex : Nat → List String → Option (List Bytes × List String)
  | 0, rest => some ([], rest)
  | k + 1, c :: rest => do
    let c ← hexToBytes? c
    let (es, rest') ← takeHex k rest
    pure (c :: es, rest')
  | _, _ => none

def step (s : Store) (line : String) : Store × String :=
  match words line with
  | ["s.reset"] => ([], "ok")
  | "casmq" :: d :: v2 :: mg :: v1 :: hs =>
    match d.toNat?, hexToBytes? v2, mg.toNat?, optHex? v1, natAll? hs with
    | some d, some v2, some mg, some v1, some hs =>
      let m : CasmMeta := ⟨d, v2, mg, v1⟩
      let per := hs.map (fun h => (match m.casmHashAt h with | some x => bytesToHex x | none => "notfound") ++ " " ++ tf (m.isMigratedAt h))
      (s, " ".intercalate (["ok", bytesToHex m.casmHash, bytesToHex m.v2, tf m.isDeclaredWithV2, tf m.isMigrated] ++ per))
    | _, _, _, _, _ => (s, "bad-op")
  | "casmops" :: d :: v2 :: v1 :: ops =>
    match d.toNat?, hexToBytes? v2, optHex? v1, casmOpsAll? ops with
    | some d, some v2, some v1, some ops =>
      let r := runCasmOps ⟨d, v2, 0, v1⟩ ops
      (s, " ".intercalate (r.1 ++ ["|", showCasmMeta r.2]))
    | _, _, _, _ => (s, "bad-op")
  | "s.casm.store" :: isV2 :: n :: k :: rest =>
    match n.toNat?, k.toNat? with
    | some n, some k =>
      match parseCasmDecls k rest with
      | some (decls, rest') =>
        match hexAll? rest' with
        | some mig =>
          if isV2 != "0" && isV2 != "1" then (s, "bad-op") else
          match storeCasm (isV2 == "1") s s n ⟨decls, mig⟩ with
          | .ok s' => (s', "ok")
          | .error e => (s, "err:" ++ casmErrName e)
        | none => (s, "bad-op")
      | none => (s, "bad-op")
    | _, _ => (s, "bad-op")
  | "s.casm.revert" :: k :: rest =>
    match k.toNat? with
    | some k =>
      match takeHex k rest with
      | some (decls, rest') =>
        match hexAll? rest' with
        | some mig =>
          match revertCasm s s ⟨decls.map (fun c => ⟨c, [], true, []⟩), mig⟩ with
          | .ok s' => (s', "ok")
          | .error e => (s, "err:" ++ casmErrName e)
        | none => (s, "bad-op")
      | none => (s, "bad-op")
    | none => (s, "bad-op")
  | "s.casm.read" :: c :: hs =>
    match hexToBytes? c, natAll? hs with
    | some c, some hs =>
      match getCasmMeta s c with
      | .ok m =>
        (s, " ".intercalate (["ok", bytesToHex m.casmHash, bytesToHex m.v2] ++
          hs.map (fun h => match compiledClassHashAt s c h with | some x => bytesToHex x | none => "notfound")))
      | .error .metaMissing => (s, "missing")
      | .error _ => (s, "err")
    | _, _ => (s, "bad-op")
  | ["s.put", k, v] =>
    match hexToBytes? k, hexToBytes? v with
    | some k, some v => (s.put k v, "ok")
    | _, _ => (s, "bad-op")
  | ["s.del", k] =>
    match hexToBytes? k with
    | some k => (s.del k, "ok")
    | none => (s, "bad-op")
  | "s.write" :: mode :: num :: hdr :: blob :: su :: comm :: _m :: l1 =>
    match cfgOf? mode, num.toNat?, hexToBytes? hdr, hexToBytes? blob, hexToBytes? su, hexToBytes? comm, parseL1 l1 with
    | some cfg, some n, some hdr, some blob, some su, some comm, some l1 =>
      match BlockRec.ofStored cfg l1 n hdr blob su comm with
      | some b => (writeBlock s b, s!"ok {bytesToHex b.hash} {b.txHashes.length} {b.l1.length}")
      | none => (s, "err")
    | _, _, _, _, _, _, _ => (s, "bad-op")
  | "s.deltx" :: mode :: num :: _m :: l1 =>
    match cfgOf? mode, num.toNat?, parseL1 l1 with
    | some cfg, some n, some l1 => showStoreRes (deleteTxsAndReceipts (txKeysTyped cfg l1) s n) s
    | _, _, _ => (s, "bad-op")
  | "s.revert" :: mode :: _m :: l1 =>
    match cfgOf? mode, parseL1 l1 with
    | some cfg, some l1 => showStoreRes (revertHead (hashOfHeader cfg) (txKeysTyped cfg l1) s) s
    | _, _ => (s, "bad-op")
  | ["s.prune", e] =>
    match e.toNat? with
    | some e => (pruneBlockDataUpto s e, "ok")
    | none => (s, "bad-op")
  | "s.hpmigrate" :: mode :: fl :: ht :: _m :: l1 =>
    match cfgOf? mode, fl.toNat?, ht.toNat?, parseL1 l1 with
    | some cfg, some fl, some ht, some l1 =>
      showStoreRes (hpMigrate (fullHeaderHash cfg) (stateUpdateHash cfg) (txKeysTyped cfg l1) s fl ht) s
    | _, _, _, _ => (s, "bad-op")
  | ["ub", h] =>
    match hexToBytes? h with
    | some p => (s, match upperBound p with | some u => "ok " ++ bytesToHex u | none => "none")
    | none => (s, "bad-op")
  | ["s.scan", h] =>
    match hexToBytes? h with
    | some p =>
      let es := s.scan p
      (s, "ok " ++ toString es.length ++ " " ++ ",".intercalate (es.map (fun e =>
        bytesToHex e.1 ++ ":" ++ toString e.2.length ++ ":" ++ toString (cksum e.2))))
    | none => (s, "bad-op")
  | ["s.old.items", b, n] =>
    match b.toNat?, n.toNat? with
    | some b, some n =>
      let vs := scanBlockValues s b n
      (s, " ".intercalate (["ok", toString vs.length] ++ vs.map bytesToHex))
    | _, _ => (s, "bad-op")
  | ["s.old.get", b, n, i] =>
    match b.toNat?, n.toNat?, i.toNat? with
    | some b, some n, some i => (s, match getPerTxItem s b n i with | some v => "ok " ++ bytesToHex v | none => "none")
    | _, _, _ => (s, "bad-op")
  | "s.putold" :: mode :: num :: ntx :: nrc :: items =>
    match cfgOf? mode, num.toNat?, ntx.toNat?, nrc.toNat?, hexAll? items with
    | some cfg, some n, some nt, some nr, some bs =>
      if bs.length = nt + nr then
        match hashesOf cfg (bs.take nt) with
        | some hs => showStoreRes (writePerTx s n hs (bs.take nt) (bs.drop nt)) s
        | none => (s, "err")
      else (s, "bad-op")
    | _, _, _, _, _ => (s, "bad-op")
  | ["s.btmigrate", mode, fuel] =>
    match cfgOf? mode, fuel.toNat? with
    | some cfg, some fuel => showStoreRes (btMigrate (fullHeaderTxCount cfg) (projHeaderTxCount cfg) s fuel) s
    | _, _ => (s, "bad-op")
  | ["s.digest"] => (s, digest s)
  | ["s.get", k] =>
    match hexToBytes? k with
    | some k => (s, match s.get k with | some v => "ok " ++ bytesToHex v | none => "none")
    | none => (s, "bad-op")
  | ["s.height"] => (s, match getChainHeight s with | some n => s!"ok {n}" | none => "none")
  | ["s.block", n] =>
    match n.toNat? with
    | some n => (s, showBlock (getBlockByNumber raw raw raw s n))
    | none => (s, "bad-op")
  | ["s.blockbyhash", h] =>
    match hexToBytes? h with
    | some h => (s, showBlock (getBlockByHash raw raw raw s h))
    | none => (s, "bad-op")
  | ["s.head"] => (s, showBlock (getHead raw raw raw s))
  | ["s.txbyhash", h] =>
    match hexToBytes? h with
    | some h => (s, showRes bytesToHex (getTxByHashAt raw s h))
    | none => (s, "bad-op")
  | ["s.rcbyhash", mode, h] =>
    match cfgOf? mode, hexToBytes? h with
    | some cfg, some h =>
      (s, showRes (fun (x : Bytes × Bytes × Nat) => s!"{bytesToHex x.1} {bytesToHex x.2.1} {x.2.2}")
        (getReceiptByHash raw (hashOfHeader cfg) s h))
    | _, _ => (s, "bad-op")
  | ["s.hdrbyhash", h] =>
    match hexToBytes? h with
    | some h => (s, match getHeaderByHash s h with | some v => "ok " ++ bytesToHex v | none => "none")
    | none => (s, "bad-op")
  | ["s.subyhash", h] =>
    match hexToBytes? h with
    | some h => (s, match getStateUpdateByHash s h with | some v => "ok " ++ bytesToHex v | none => "none")
    | none => (s, "bad-op")
  | ["s.l1", m] =>
    match hexToBytes? m with
    | some m => (s, match getL1TxHash s m with | some v => "ok " ++ bytesToHex v | none => "none")
    | none => (s, "bad-op")
  | ["into", mode, h1, h2] =>
    match cfgOf? mode, hexToBytes? h1, hexToBytes? h2 with
    | some cfg, some b1, some b2 =>
      match (statusInto cfg [.bool false, .str []] b1).bind (fun v => statusInto cfg v b2) with
      | some [a, b] => (s, "ok " ++ showValue a ++ " " ++ showValue b)
      | _ => (s, "err")
    | _, _, _ => (s, "bad-op")
  | ["fbytes", f] =>
    match f.splitOn "," with
    | [a, b, c, d] =>
      match hexNat? a, hexNat? b, hexNat? c, hexNat? d with
      | some a, some b, some c, some d => (s, "ok " ++ bytesToHex (feltBytes a b c d))
      | _, _, _, _ => (s, "bad-op")
    | _ => (s, "bad-op")
  | ["txat", h, u] =>
    match hexToBytes? h, u.toNat? with
    | some bs, some u => (s, showRes bytesToHex (readBlob bs (fun b => b.getTxAt raw u)))
    | _, _ => (s, "bad-op")
  | ["rcat", h, u] =>
    match hexToBytes? h, u.toNat? with
    | some bs, some u => (s, showRes bytesToHex (readBlob bs (fun b => b.getRcAt raw u)))
    | _, _ => (s, "bad-op")
  | ["pairat", h, u] =>
    match hexToBytes? h, u.toNat? with
    | some bs, some u =>
      (s, showRes (fun (x : Bytes × Bytes) => bytesToHex x.1 ++ " " ++ bytesToHex x.2)
        (readBlob bs (fun b => b.getTxAndRcAt raw raw u)))
    | _, _ => (s, "bad-op")
  | ["allpair", h] =>
    match hexToBytes? h with
    | some bs =>
      (s, showRes (fun (x : List Bytes × List Bytes) =>
        " ".intercalate ([toString x.1.length, toString x.2.length] ++ (x.1 ++ x.2).map bytesToHex))
        (readBlob bs (fun b => b.allTxAndRc raw raw)))
    | none => (s, "bad-op")
  | ["hashes", mode, h] =>
    match cfgOf? mode, hexToBytes? h with
    | some cfg, some bs =>
      match readBlob bs (fun b => b.allTxHashes cfg) with
      | .ok vs => (s, "ok " ++ toString vs.length ++ " " ++ showValList vs)
      | .decodeErr =>
        match Blob.unmarshal bs with
        | some b => (s, match b.allTxHashesFailAt cfg with | some i => s!"err {i}" | none => "err")
        | none => (s, "err")
      | .notFound => (s, "notfound")
      | .panic => (s, "panic")
    | _, _ => (s, "bad-op")
  | ["events", mode, h] =>
    match cfgOf? mode, hexToBytes? h with
    | some cfg, some bs =>
      (s, showRes (fun (es : List (GoVal × GoVal)) =>
        toString es.length ++ " " ++ " ".intercalate (es.map (fun e => showValue e.1 ++ " " ++ showValue e.2)))
        (readBlob bs (fun b => b.allEvents cfg)))
    | _, _ => (s, "bad-op")
  | ["statusat", mode, h, u] =>
    match cfgOf? mode, hexToBytes? h, u.toNat? with
    | some cfg, some bs, some u =>
      (s, showRes (fun (x : GoVal × GoVal) => showValue x.1 ++ " " ++ showValue x.2)
        (readBlob bs (fun b => b.executionStatusAt cfg u)))
    | _, _, _ => (s, "bad-op")
  | ["type", name] =>
    match tableByName name with
    | some t => (s, "ok " ++ descType t)
    | none => (s, "bad-op")
  | "enc" :: name :: toks =>
    match tableByName name, parseValue toks with
    | some t, some v =>
      match marshalVal t v with
      | some bs => (s, "ok " ++ bytesToHex bs)
      | none => (s, "err")
    | _, _ => (s, "bad-op")
  | ["decv", name, mode, h] =>
    match tableByName name, cfgOf? mode, hexToBytes? h with
    | some t, some cfg, some bs => (s, showOpt (unmarshalVal cfg t bs))
    | _, _, _ => (s, "bad-op")
  | ["acc", name, mode, h] =>
    match cfgOf? mode, hexToBytes? h with
    | some cfg, some bs =>
      match accessor name cfg bs with
      | some out => (s, out)
      | none => (s, "bad-op")
    | _, _ => (s, "bad-op")
  | ["fsh", n] =>
    match n.toNat? with
    | some n => (s, "ok " ++ bytesToHex (sliceHeader n))
    | none => (s, "bad-op")
  | ["unfsh", h] =>
    match hexToBytes? h with
    | some bs =>
      match decSliceHeader bs with
      | some (n, k) => (s, s!"ok {n} {k}")
      | none => (s, "none")
    | none => (s, "bad-op")
  | ["key", "num", b, n] =>
    match b.toNat?, n.toNat? with
    | some b, some n => (s, "ok " ++ bytesToHex (keyByNumber b n))
    | _, _ => (s, "bad-op")
  | ["key", "bt", n] =>
    match n.toNat? with
    | some n => (s, "ok " ++ bytesToHex (keyBlockTransactions n))
    | none => (s, "bad-op")
  | ["numidx", n, i] =>
    match n.toNat?, i.toNat? with
    | some n, some i => (s, "ok " ++ bytesToHex (encNumIndex n i))
    | _, _ => (s, "bad-op")
  | ["declared", a, h] =>
    match a.toNat?, hexToBytes? h with
    | some a, some cls => (s, "ok " ++ bytesToHex (encDeclared a cls).encode)
    | _, _ => (s, "bad-op")
  | ["casm", d, v2, m, v1] =>
    match d.toNat?, hexToBytes? v2, m.toNat?, (if v1 == "n" then some none else (hexToBytes? v1).map some) with
    | some d, some v2, some m, some v1 => (s, "ok " ++ bytesToHex (CasmMeta.marshal ⟨d, v2, m, v1⟩))
    | _, _, _, _ => (s, "bad-op")
  | ["uncasm", h] =>
    match hexToBytes? h with
    | some bs =>
      match CasmMeta.unmarshal bs with
      | some m => (s, s!"ok {m.declaredAt} {bytesToHex m.v2} {m.migratedAt} " ++
          (match m.v1 with | some h => bytesToHex h | none => "n"))
      | none => (s, "err")
    | none => (s, "bad-op")
  | ["lim", a, m, n, h] =>
    match a.toNat?, m.toNat?, n.toNat?, hexToBytes? h with
    | some a, some m, some n, some bs =>
      match decodeAll bs with
      | some _ => (s, if (decodeAllLimited ⟨a, m, n⟩ bs).isSome then "ok" else "rejected")
      | none => (s, "err")
    | _, _, _, _ => (s, "bad-op")
  | ["utf8", h] =>
    match hexToBytes? h with
    | some bs => (s, toString (utf8Valid bs))
    | none => (s, "bad-op")
  | ["dec", h] =>
    match hexToBytes? h with
    | some bs =>
      match decodeAll bs with
      | some v => (s, "ok " ++ bytesToHex v.encode)
      | none => (s, "err")
    | none => (s, "bad-op")
  | ["first", h] =>
    match hexToBytes? h with
    | some bs =>
      match decodeFirst bs with
      | some (_, rest) => (s, "ok " ++ toString (bs.length - rest.length))
      | none => (s, "err")
    | none => (s, "bad-op")
  | "build" :: n :: m :: items =>
    match n.toNat?, m.toNat?, hexAll? items with
    | some n, some m, some bs =>
      if bs.length = n + m then
        let b := Blob.build id id (bs.take n) (bs.drop n)
        (s, "ok " ++ bytesToHex b.marshal)
      else (s, "bad-op")
    | _, _, _ => (s, "bad-op")
  | ["blob", h] =>
    match hexToBytes? h with
    | some bs =>
      match Blob.unmarshal bs with
      | some b => (s, s!"ok t={showNats b.txIdx} r={showNats b.rcIdx} d={b.data.length}")
      | none => (s, "err")
    | none => (s, "bad-op")
  | [op, h, i] =>
    match hexToBytes? h, i.toNat? with
    | some bs, some i =>
      if op == "tx" then (s, showRes bytesToHex (readBlob bs (fun b => b.getTx raw i)))
      else if op == "rc" then (s, showRes bytesToHex (readBlob bs (fun b => b.getRc raw i)))
      else (s, "bad-op")
    | _, _ => (s, "bad-op")
  | [op, h] =>
    match hexToBytes? h with
    | some bs =>
      let showAll := fun (xs : List Bytes) => ",".intercalate (xs.map bytesToHex)
      if op == "alltx" then (s, showRes showAll (readBlob bs (fun b => b.allTx raw)))
      else if op == "allrc" then (s, showRes showAll (readBlob bs (fun b => b.allRc raw)))
      else (s, "bad-op")
    | none => (s, "bad-op")
  | _ => (s, "bad-op")

def main : IO Unit := loop step []
