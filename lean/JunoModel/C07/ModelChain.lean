import JunoModel.C07.ModelStore
import JunoModel.C07.ModelAccess
/-
C07 — model, part 8 (round 4): the glue between the modelled core (blob, projections, store) and
the public API — transcribed from

  core/block_transaction_serializer.go   extractTransactionAndReceipt, extractAllTransactionsAndReceipts,
                                         extractAllTransactionHashes, extractAllTransactionEvents,
                                         extractExecutionStatus
  core/indexed/lazy_slice.go             Get (signed index), AllMapped / Iter (ONE value reused for all
                                         elements, reset before each)
  core/accessors.go                      Get…ByBlockAndIndex (`int(index)` of a `uint64`), GetBlockByNumber,
                                         GetChainHeight, DeleteTransactionsAndReceipts (driven by the STORED
                                         blob), WriteTransactionsAndReceipts (index entries derived from the
                                         transactions)
  blockchain/blockchain.go               BlockByHash, Head, HeadsHeader, Receipt
  blockchain/statebackend                deleteBlockContent (hash read from the STORED header), RevertHead
                                         (height, state update and header must be present), the chain-height
                                         bookkeeping (rewritten to n-1, deleted for genesis)

Core Lean only (linked into `c07drv`).
-/
namespace Juno.C07

/-! ## Result plumbing -/

def Res.map {α β : Type} (f : α → β) : Res α → Res β
  | .ok a => .ok (f a)
  | .notFound => .notFound
  | .decodeErr => .decodeErr
  | .panic => .panic

def Res.bind {α β : Type} (r : Res α) (f : α → Res β) : Res β :=
  match r with
  | .ok a => f a
  | .notFound => .notFound
  | .decodeErr => .decodeErr
  | .panic => .panic

/-! ## `int(index)`: the by-index accessors take a `uint64` and convert it to Go's `int` -/

def twoP63 : Nat := 9223372036854775808
def twoP64 : Nat := 18446744073709551616

/-- `int(u)` for a `uint64` on a 64-bit platform (two's complement reinterpretation). -/
def intOfU64 (u : Nat) : Int :=
  if u % twoP64 < twoP63 then ((u % twoP64 : Nat) : Int) else ((u % twoP64 : Nat) : Int) - (twoP64 : Int)

/-- `LazySlice.Get(index int)`: `index < 0 || index >= len(indexes)` is `db.ErrKeyNotFound`. -/
def sliceGetInt {α : Type} (dec : Bytes → Option α) (idx : List Nat) (data : Bytes) (i : Int) : Res α :=
  if i < 0 then .notFound else sliceGet dec idx data i.toNat

/-- `GetTransactionByBlockAndIndex` below the bucket: `b.Transactions().Get(int(index))`. -/
def Blob.getTxAt {α : Type} (dec : Bytes → Option α) (b : Blob) (u : Nat) : Res α :=
  match b.txSection with
  | some sec => sliceGetInt dec b.txIdx sec (intOfU64 u)
  | none => .panic

/-- `GetReceiptByBlockAndIndex` / `GetTransactionExecutionStatusByBlockAndIndex` below the bucket. -/
def Blob.getRcAt {β : Type} (dec : Bytes → Option β) (b : Blob) (u : Nat) : Res β :=
  sliceGetInt dec b.rcIdx b.data (intOfU64 u)

/-- `extractTransactionAndReceipt`: the transaction first, then the receipt; the first failure is
returned (wrapped with `%w`: `errors.Is(err, db.ErrKeyNotFound)` still holds). -/
def Blob.getTxAndRcAt {α β : Type} (decT : Bytes → Option α) (decR : Bytes → Option β) (b : Blob) (u : Nat) :
    Res (α × β) :=
  (b.getTxAt decT u).bind fun t => (b.getRcAt decR u).map fun r => (t, r)

/-- `extractAllTransactionsAndReceipts`: all transactions, then all receipts. -/
def Blob.allTxAndRc {α β : Type} (decT : Bytes → Option α) (decR : Bytes → Option β) (b : Blob) :
    Res (List α × List β) :=
  (b.allTx decT).bind fun ts => (b.allRc decR).map fun rs => (ts, rs)

/-! ## `AllMapped` / `Iter`: one value decoded into for every element

`decInto cur bytes` is `encoder.Unmarshal(bytes, &value)` with `value = cur` on entry: the CBOR
library MERGES into an existing value (a struct field whose key is absent keeps what it held).
The code therefore resets `value = *new(T)` before every element; `reset = false` is the code
without that line (the negation witness lives in Props). `f i v` is `extract(i, value)`. -/

def sliceAllReuseFrom {σ ρ : Type} (decInto : σ → Bytes → Option σ) (zero : σ) (reset : Bool)
    (f : Nat → σ → Option ρ) (idx : List Nat) (data : Bytes) : σ → Nat → Nat → Res (List ρ)
  | _, _, 0 => .ok []
  | cur, i, k + 1 =>
    match sliceGet (decInto (if reset then zero else cur)) idx data i with
    | .ok v =>
      match f i v with
      | some r => (sliceAllReuseFrom decInto zero reset f idx data v (i + 1) k).map (r :: ·)
      | none => .decodeErr
    | .notFound => .notFound
    | .decodeErr => .decodeErr
    | .panic => .panic

/-- `indexed.AllMapped(l, extract)` as written (with the reset). -/
def sliceAllMapped {σ ρ : Type} (decInto : σ → Bytes → Option σ) (zero : σ) (f : Nat → σ → Option ρ)
    (idx : List Nat) (data : Bytes) : Res (List ρ) :=
  sliceAllReuseFrom decInto zero true f idx data zero 0 idx.length

/-- The specification `AllMapped` is meant to meet: every element decoded FRESH, then mapped. -/
def sliceMapFrom {α ρ : Type} (dec : Bytes → Option α) (f : Nat → α → Option ρ) (idx : List Nat) (data : Bytes) :
    Nat → Nat → Res (List ρ)
  | _, 0 => .ok []
  | i, k + 1 =>
    match sliceGet dec idx data i with
    | .ok v =>
      match f i v with
      | some r => (sliceMapFrom dec f idx data (i + 1) k).map (r :: ·)
      | none => .decodeErr
    | .notFound => .notFound
    | .decodeErr => .decodeErr
    | .panic => .panic

def sliceMap {α ρ : Type} (dec : Bytes → Option α) (f : Nat → α → Option ρ) (idx : List Nat) (data : Bytes) :
    Res (List ρ) :=
  sliceMapFrom dec f idx data 0 idx.length

/-- Index of the first element whose decoding or extraction fails (what the error message of
`AllMapped` / `extractAllTransactionHashes` names), if any. -/
def sliceMapFailAt {α ρ : Type} (dec : Bytes → Option α) (f : Nat → α → Option ρ) (idx : List Nat) (data : Bytes) :
    Nat → Nat → Option Nat
  | _, 0 => none
  | i, k + 1 =>
    match sliceGet dec idx data i with
    | .ok v =>
      match f i v with
      | some _ => sliceMapFailAt dec f idx data (i + 1) k
      | none => some i
    | _ => some i

/-- `extract` of `extractAllTransactionHashes`: a zero hash is "missing TransactionHash". -/
def nonZeroHash (_ : Nat) (v : GoVal) : Option GoVal :=
  match v with
  | .felt 0 0 0 0 => none
  | w => some w

/-- `extractAllTransactionHashes` on a blob (typed: the by-value hash projection per element). -/
def Blob.allTxHashes (cfg : DecCfg) (b : Blob) : Res (List GoVal) :=
  match b.txSection with
  | some sec => sliceMap (projField cfg pTransactionHash kTransactionHash) nonZeroHash b.txIdx sec
  | none => .panic

def Blob.allTxHashesFailAt (cfg : DecCfg) (b : Blob) : Option Nat :=
  match b.txSection with
  | some sec => sliceMapFailAt (projField cfg pTransactionHash kTransactionHash) nonZeroHash b.txIdx sec 0 b.txIdx.length
  | none => none

/-- `extractAllTransactionEvents`: (Events, TransactionHash) of every receipt. -/
def Blob.allEvents (cfg : DecCfg) (b : Blob) : Res (List (GoVal × GoVal)) :=
  sliceMap (getTransactionEvents cfg) (fun _ v => some v) b.rcIdx b.data

/-- `extractExecutionStatus`. -/
def Blob.executionStatusAt (cfg : DecCfg) (b : Blob) (u : Nat) : Res (GoVal × GoVal) :=
  b.getRcAt (getExecutionStatus cfg) u

/-! ## Decode-into-an-existing-value, for flat structs of scalars (what `AllMapped` would do without its reset) -/

/-- Field types whose decode-into-existing-value semantics are modelled: scalars (a value is
overwritten as a whole) and discards. -/
def scalarType : GoType → Bool
  | .bool => true
  | .str => true
  | .uint _ => true
  | .discard => true
  | _ => false

/-- `encoder.Unmarshal(bytes, &value)` into an EXISTING struct value whose fields are scalars: a key
that is absent leaves the field as it was, and so does `null` / `undefined` (the library's `fillNil`
resets only slices, maps, pointers and interfaces); any other item overwrites the field. -/
def decodeFieldsInto (cfg : DecCfg) : List (Bytes × Bool × GoType) → List GoVal → List (Cbor × Cbor) → Option (List GoVal)
  | [], _, _ => some []
  | (key, _, t) :: fs, p :: ps, kvs =>
    if scalarType t then
      match (match mapLookup (.text key) kvs with
             | none => some p
             | some (.simple 22) => some p
             | some (.simple 23) => some p
             | some c => decodeVal cfg t c),
            decodeFieldsInto cfg fs ps kvs with
      | some v, some vs => some (v :: vs)
      | _, _ => none
    else none
  | _ :: _, [], _ => none

def statusFields : List (Bytes × Bool × GoType) := [(kReverted, false, .bool), (kRevertReason, false, .str)]

/-- Decode one stored receipt into an existing (Reverted, RevertReason) value. -/
def statusInto (cfg : DecCfg) (prev : List GoVal) (bs : Bytes) : Option (List GoVal) :=
  match decodeAll bs with
  | some (.map kvs) => decodeFieldsInto cfg statusFields prev kvs
  | some (.simple 22) => some prev
  | some (.simple 23) => some prev
  | _ => none

/-! ## Readers over the store -/

/-- `GetChainHeight`. -/
def getChainHeight (s : Store) : Option Nat := (s.get (dbKey bChainHeight [])).bind decNumber

/-- `GetBlockByNumber`: the header (full decoder), then transactions and receipts in one read of
the blob. A missing header is reported before the blob is looked at. -/
def getBlockByNumber {γ α β : Type} (decH : Bytes → Option γ) (decT : Bytes → Option α) (decR : Bytes → Option β)
    (s : Store) (n : Nat) : Res (γ × List α × List β) :=
  match getHeaderByNumber s n with
  | none => .notFound
  | some hb =>
    match decH hb with
    | none => .decodeErr
    | some h =>
      match getBlobByNumber s n with
      | none => .notFound
      | some blob => (readBlob blob (fun b => b.allTxAndRc decT decR)).map fun tr => (h, tr.1, tr.2)

/-- `Blockchain.BlockByHash`. -/
def getBlockByHash {γ α β : Type} (decH : Bytes → Option γ) (decT : Bytes → Option α) (decR : Bytes → Option β)
    (s : Store) (h : Bytes) : Res (γ × List α × List β) :=
  match getNumberByHash s h with
  | none => .notFound
  | some n => getBlockByNumber decH decT decR s n

/-- `Blockchain.Head`. -/
def getHead {γ α β : Type} (decH : Bytes → Option γ) (decT : Bytes → Option α) (decR : Bytes → Option β)
    (s : Store) : Res (γ × List α × List β) :=
  match getChainHeight s with
  | none => .notFound
  | some n => getBlockByNumber decH decT decR s n

/-- `Blockchain.HeadsHeader` (stored bytes). -/
def getHeadsHeader (s : Store) : Option Bytes := (getChainHeight s).bind (getHeaderByNumber s)

/-- `GetTransactionByHash` with the `uint64 → int` conversion of the stored index. -/
def getTxByHashAt {α : Type} (dec : Bytes → Option α) (s : Store) (th : Bytes) : Res α :=
  match getTxLocation s th with
  | none => .notFound
  | some (n, i) =>
    match getBlobByNumber s n with
    | none => .notFound
    | some blob => readBlob blob (fun b => b.getTxAt dec i)

/-- `Blockchain.Receipt`: hash ↦ (number, index) ↦ receipt, then the hash of that block through the
header-hash projection (`hashOf`: stored header bytes ↦ block hash; nil is an error). -/
def getReceiptByHash {β : Type} (dec : Bytes → Option β) (hashOf : Bytes → Option Bytes) (s : Store) (th : Bytes) :
    Res (β × Bytes × Nat) :=
  match getTxLocation s th with
  | none => .notFound
  | some (n, i) =>
    match getBlobByNumber s n with
    | none => .notFound
    | some blob =>
      (readBlob blob (fun b => b.getRcAt dec i)).bind fun r =>
        match getHeaderByNumber s n with
        | none => .notFound
        | some hb =>
          match hashOf hb with
          | some bh => .ok (r, bh, n)
          | none => .decodeErr

/-! ## Revert, driven by what is stored -/

/-- What `DeleteTransactionsAndReceipts` needs of one decoded transaction: its hash (32 bytes, the
suffix of its index key) and, for an L1 handler, the message hash. -/
structure TxKeys where
  hash : Bytes
  msg : Option Bytes

def TxKeys.keys (k : TxKeys) : List Bytes :=
  keyByHash bTxIndexByHash k.hash ::
    (match k.msg with
     | some m => [keyByHash bL1HandlerTxnHashByMsgHash m]
     | none => [])

/-- `DeleteTransactionsAndReceipts(reader, writer, n)`: the keys it deletes. It reads the stored
blob with the full decoder, iterates the transactions (`Iter`; the first decoding error aborts),
deletes each transaction's hash-index entry and, for an L1 handler, the message-hash entry, then
the blob itself. A missing blob is `ErrKeyNotFound`. -/
def deleteTxsAndReceiptsKeys (txKeys : Bytes → Option TxKeys) (s : Store) (n : Nat) : Res (List Bytes) :=
  match getBlobByNumber s n with
  | none => .notFound
  | some blob =>
    (readBlob blob (fun b => b.allTx txKeys)).map fun ks => ks.flatMap TxKeys.keys ++ [keyBlockTransactions n]

def deleteTxsAndReceipts (txKeys : Bytes → Option TxKeys) (s : Store) (n : Nat) : Res Store :=
  (deleteTxsAndReceiptsKeys txKeys s n).map s.delAll

/-- Chain-height bookkeeping of `deleteBlockContent`: deleted with the genesis block, otherwise
rewritten to `n - 1`. -/
def fixHeight (s : Store) (n : Nat) : Store :=
  if n = 0 then s.del (dbKey bChainHeight []) else s.put (dbKey bChainHeight []) (encNumber (n - 1))

/-- `deleteBlockContent(reader, writer, _, n)` (without the CASM-metadata revert): the block hash
comes from the STORED header through `GetBlockHeaderHashByNumber` (`hashOf`; a nil hash is an
error), all reads see the store as it was before the batch, an error leaves the store unchanged
(the batch is dropped). -/
def deleteBlockContent (hashOf : Bytes → Option Bytes) (txKeys : Bytes → Option TxKeys) (s : Store) (n : Nat) :
    Res Store :=
  match getHeaderByNumber s n with
  | none => .notFound
  | some hdr =>
    match hashOf hdr with
    | none => .decodeErr
    | some h =>
      (deleteTxsAndReceiptsKeys txKeys s n).map fun ks =>
        fixHeight (s.delAll ([keyByNumber bBlockHeadersByNumber n, keyByHash bBlockHeaderNumbersByHash h,
          keyByNumber bBlockCommitments n] ++ ks ++ [keyByNumber bStateUpdatesByBlockNumber n])) n

/-- `stateBackend.RevertHead` on the block records: the height, the state update and the header of
the head must be there, then `deleteBlockContent`. -/
def revertHead (hashOf : Bytes → Option Bytes) (txKeys : Bytes → Option TxKeys) (s : Store) : Res Store :=
  match getChainHeight s with
  | none => .notFound
  | some n =>
    match getStateUpdateByNumber s n, getHeaderByNumber s n with
    | some _, some _ => deleteBlockContent hashOf txKeys s n
    | _, _ => .notFound

/-- The specification of a revert in terms of the block that was written (part 7's `deleteBlock`)
plus the height bookkeeping. -/
def revertBlockSpec (s : Store) (b : BlockRec) : Store := fixHeight (deleteBlock s b) b.number

/-! ## Chains: any sequence of `Store` / `RevertHead` -/

inductive ChainOp where
  | store (b : BlockRec)
  | revert

/-- State: the store and the blocks of the chain, head first. -/
def runOp (st : Store × List BlockRec) : ChainOp → Store × List BlockRec
  | .store b => (writeBlock st.1 b, b :: st.2)
  | .revert =>
    match st.2 with
    | [] => st
    | b :: rest => (revertBlockSpec st.1 b, rest)

def runOps (st : Store × List BlockRec) : List ChainOp → Store × List BlockRec
  | [] => st
  | op :: ops => runOps (runOp st op) ops

/-! ## Typed instances used by the driver: keys derived from the stored bytes -/

def feltP : Nat := 3618502788666131213697322783095070105623107215331596699973092056135872020481
/-- `2^-256 mod p`: a felt is stored (CBOR) as its four Montgomery limbs, keys use the canonical
32-byte big-endian form (`felt.Marshal`). -/
def feltRInv : Nat := 113078212145816603762751633895895194930089271709401121343797004406777446400

/-- `felt.Marshal()` of the felt with Montgomery limbs `a b c d` (least significant first). -/
def feltBytes (a b c d : Nat) : Bytes :=
  be 32 (((a + b * 18446744073709551616 + c * 340282366920938463463374607431768211456 +
    d * 6277101735386680763835789423207666416102355444464034512896) * feltRInv) % feltP)

/-- Block hash out of the stored header, as `deleteBlockContent` obtains it. -/
def hashOfHeader (cfg : DecCfg) (hdr : Bytes) : Option Bytes :=
  match getBlockHeaderHash cfg hdr with
  | some (.felt a b c d) => some (feltBytes a b c d)
  | _ => none

def altsOf : GoType → List (Nat × GoType)
  | .iface alts => alts
  | _ => []

/-- Position of `core.L1HandlerTransaction` among the registered transaction types (tag 65539). -/
def l1HandlerAlt : Nat := 3

def lookupBytes (k : Bytes) : List (Bytes × Bytes) → Option Bytes
  | [] => none
  | (k', v) :: rest => if k' == k then some v else lookupBytes k rest

/-- Full decode of one stored transaction, then `tx.Hash()` and (L1 handler) `MessageHash()`.
The message hash is Keccak over the transaction's fields — not computed here: `l1` maps the hash of
every L1 handler to its message hash (supplied by the harness from the real `MessageHash()`). A nil
`TransactionHash` is a nil dereference in the Go code: `none`. -/
def txKeysTyped (cfg : DecCfg) (l1 : List (Bytes × Bytes)) (bs : Bytes) : Option TxKeys :=
  match unmarshalVal cfg tTransaction bs with
  | some (.iface i tv) =>
    match (altsOf tTransaction)[i]? with
    | some (_, t) =>
      match getField t kTransactionHash tv with
      | some (.felt a b c d) =>
        let h := feltBytes a b c d
        if i = l1HandlerAlt then
          match lookupBytes h l1 with
          | some m => some ⟨h, some m⟩
          | none => none
        else some ⟨h, none⟩
      | _ => none
    | none => none
  | _ => none

/-- The record `writeBlockContent` stores for a block, derived from the encodings alone: the hash
from the header, the index entries from the transactions in the blob. -/
def BlockRec.ofStored (cfg : DecCfg) (l1 : List (Bytes × Bytes)) (n : Nat) (hdr blob su comm : Bytes) :
    Option BlockRec :=
  match hashOfHeader cfg hdr, readBlob blob (fun b => b.allTx (txKeysTyped cfg l1)) with
  | some h, .ok ks =>
    some { number := n, hash := h, header := hdr, blob := blob, txHashes := ks.map (·.hash),
           l1 := ks.filterMap (fun k => k.msg.map (fun m => (m, k.hash))), stateUpdate := su, commitments := comm }
  | _, _ => none

end Juno.C07
