import JunoModel.C07.ModelStore
import JunoModel.C07.ProofsBin
namespace Juno.C07

/-! ### association-list facts -/

theorem get_append (a s : Store) (k : Bytes) :
    Store.get (a ++ s) k = (match Store.get a k with | some v => some v | none => Store.get s k) := by
  induction a with
  | nil => simp [Store.get]
  | cons e a ih =>
    obtain ⟨k', v⟩ := e
    simp only [List.cons_append, Store.get]
    split <;> simp_all

theorem get_none_of_forall_ne : ∀ (a : Store) (k : Bytes), (∀ e ∈ a, e.1 ≠ k) → Store.get a k = none
  | [], _, _ => rfl
  | (k', v) :: a, k, h => by
    have h1 : (k' == k) = false := by simpa using h (k', v) (List.mem_cons_self ..)
    simp only [Store.get, h1]
    exact get_none_of_forall_ne a k (fun e he => h e (List.mem_cons_of_mem _ he))

theorem get_of_unique : ∀ (a : Store) (k v : Bytes), (k, v) ∈ a → (∀ v', (k, v') ∈ a → v' = v) →
    Store.get a k = some v
  | [], _, _, h, _ => by simp at h
  | (k', v0) :: a, k, v, hm, hu => by
    by_cases hk : k' = k
    · subst hk
      have := hu v0 (List.mem_cons_self ..)
      simp [Store.get, this]
    · have h1 : (k' == k) = false := by simpa using hk
      simp only [Store.get, h1]
      apply get_of_unique a k v
      · rcases List.mem_cons.mp hm with h | h
        · simp at h; exact absurd h.1.symm hk
        · exact h
      · intro v' hv'; exact hu v' (List.mem_cons_of_mem _ hv')

theorem putAll_eq (s : Store) : ∀ (es : List (Bytes × Bytes)), s.putAll es = es.reverse ++ s
  | [] => rfl
  | (k, v) :: es => by simp [Store.putAll, Store.put, putAll_eq ((k, v) :: s) es]

/-- Reading after a batch of writes with pairwise distinct keys for `k`. -/
theorem get_putAll_mem (s : Store) (es : List (Bytes × Bytes)) (k v : Bytes) (hm : (k, v) ∈ es)
    (hu : ∀ v', (k, v') ∈ es → v' = v) : (s.putAll es).get k = some v := by
  rw [putAll_eq, get_append, get_of_unique es.reverse k v (by simpa using hm) (fun v' h => hu v' (by simpa using h))]

theorem get_putAll_other (s : Store) (es : List (Bytes × Bytes)) (k : Bytes) (h : ∀ e ∈ es, e.1 ≠ k) :
    (s.putAll es).get k = s.get k := by
  rw [putAll_eq, get_append, get_none_of_forall_ne es.reverse k (fun e he => h e (by simpa using he))]

theorem get_del (s : Store) (k' k : Bytes) :
    (s.del k').get k = if k' = k then none else s.get k := by
  induction s with
  | nil => simp [Store.del, Store.get]
  | cons e s ih =>
    obtain ⟨k0, v⟩ := e
    by_cases h0 : k0 = k'
    · subst h0
      have : Store.del ((k0, v) :: s) k0 = Store.del s k0 := by simp [Store.del]
      rw [this, ih]
      by_cases hk : k0 = k
      · simp [hk]
      · have : (k0 == k) = false := by simpa using hk
        simp [hk, Store.get, this]
    · have hb : (k0 == k') = false := by simpa using h0
      have : Store.del ((k0, v) :: s) k' = (k0, v) :: Store.del s k' := by simp [Store.del, hb]
      rw [this]
      simp only [Store.get]
      by_cases hk : k0 = k
      · subst hk
        have : ¬ k' = k0 := fun h => h0 h.symm
        simp [this]
      · have hkk : (k0 == k) = false := by simpa using hk
        simp only [hkk]
        exact ih

theorem get_delAll (s : Store) : ∀ (ks : List Bytes) (k : Bytes),
    (s.delAll ks).get k = if k ∈ ks then none else s.get k
  | [], k => by simp [Store.delAll]
  | k' :: ks, k => by
    rw [Store.delAll, get_delAll (s.del k') ks k, get_del]
    by_cases h1 : k ∈ ks
    · simp [h1]
    · by_cases h2 : k' = k
      · subst h2; simp
      · have : ¬ k = k' := fun h => h2 h.symm
        simp [h1, h2, this]


/-! ### the entries of one block -/

theorem txIndexEntries_mem (n : Nat) : ∀ (hs : List Bytes) (base i : Nat) (h : i < hs.length),
    (keyByHash bTxIndexByHash hs[i], encNumIndex n (base + i)) ∈ txIndexEntries n base hs
  | [], _, _, h => by simp at h
  | x :: xs, base, 0, _ => by simp [txIndexEntries]
  | x :: xs, base, i + 1, h => by
    have := txIndexEntries_mem n xs (base + 1) i (by simpa using h)
    simp only [txIndexEntries, List.mem_cons, List.getElem_cons_succ]
    right
    have e : base + 1 + i = base + (i + 1) := by omega
    rw [e] at this
    exact this

theorem txIndexEntries_inv (n : Nat) : ∀ (hs : List Bytes) (base : Nat) (k v : Bytes),
    (k, v) ∈ txIndexEntries n base hs →
    ∃ i, ∃ (h : i < hs.length), k = keyByHash bTxIndexByHash hs[i] ∧ v = encNumIndex n (base + i)
  | [], _, _, _, h => by simp [txIndexEntries] at h
  | x :: xs, base, k, v, h => by
    simp only [txIndexEntries, List.mem_cons, Prod.mk.injEq] at h
    rcases h with ⟨rfl, rfl⟩ | h
    · exact ⟨0, by simp, by simp, by simp⟩
    · obtain ⟨i, hi, h1, h2⟩ := txIndexEntries_inv n xs (base + 1) k v h
      refine ⟨i + 1, by simpa using hi, by simpa using h1, ?_⟩
      rw [h2]; congr 1; omega

theorem nodup_getElem_inj (hs : List Bytes) (hn : hs.Nodup) (i j : Nat) (hi : i < hs.length) (hj : j < hs.length)
    (h : hs[i] = hs[j]) : i = j :=
  (List.getElem_inj hn).mp h

/-- Well-formed block record: number and transaction count fit 64 bits, no transaction hash and no
L1 message hash occurs twice in the block. -/
def BlockRec.ok (b : BlockRec) : Prop :=
  b.number < 18446744073709551616 ∧ b.txHashes.length < 18446744073709551616 ∧ b.txHashes.Nodup ∧
  (b.l1.map (·.1)).Nodup

theorem mem_blockEntries (b : BlockRec) (e : Bytes × Bytes) :
    e ∈ blockEntries b ↔
      e = (keyByHash bBlockHeaderNumbersByHash b.hash, encNumber b.number) ∨
      e = (keyByNumber bBlockHeadersByNumber b.number, b.header) ∨
      e ∈ txIndexEntries b.number 0 b.txHashes ∨
      e = (keyBlockTransactions b.number, b.blob) ∨
      e = (keyByNumber bStateUpdatesByBlockNumber b.number, b.stateUpdate) ∨
      e = (keyByNumber bBlockCommitments b.number, b.commitments) ∨
      (∃ m t, (m, t) ∈ b.l1 ∧ e = (keyByHash bL1HandlerTxnHashByMsgHash m, t)) ∨
      e = (dbKey bChainHeight [], encNumber b.number) := by
  simp only [blockEntries, List.mem_append, List.mem_cons, List.mem_map, List.not_mem_nil, or_false, Prod.exists]
  constructor <;> intro h <;> grind



/-- How keys are built, so that (in)equalities reduce to bucket bytes / suffixes. -/
macro "keys_simp" : tactic => `(tactic|
  simp only [keyByHash, keyByNumber, keyBlockTransactions, dbKey, bBlockHeaderNumbersByHash, bBlockHeadersByNumber,
    bTxIndexByHash, bStateUpdatesByBlockNumber, bBlockCommitments, bL1HandlerTxnHashByMsgHash, bChainHeight,
    bBlockTransactions, List.cons.injEq, Prod.mk.injEq] at *)

/-- Discharge "an entry of block `b` with this fixed-bucket key has this value". -/
macro "entry_unique" h:ident : tactic => `(tactic|
  (rw [mem_blockEntries] at $h:ident
   rcases $h:ident with h | h | h | h | h | h | ⟨m, t, _, h⟩ | h
   · first | (simp at h; exact h) | (keys_simp; simp at h)
   · first | (simp at h; exact h) | (keys_simp; simp at h)
   · (obtain ⟨i, hi, h1, _⟩ := txIndexEntries_inv _ _ _ _ _ h; keys_simp; simp at h1)
   · first | (simp at h; exact h) | (keys_simp; simp at h)
   · first | (simp at h; exact h) | (keys_simp; simp at h)
   · first | (simp at h; exact h) | (keys_simp; simp at h)
   · (keys_simp; simp at h)
   · (keys_simp; simp at h)))

theorem entry_header (b : BlockRec) (v' : Bytes)
    (h : (keyByNumber bBlockHeadersByNumber b.number, v') ∈ blockEntries b) : v' = b.header := by
  entry_unique h
theorem entry_number (b : BlockRec) (v' : Bytes)
    (h : (keyByHash bBlockHeaderNumbersByHash b.hash, v') ∈ blockEntries b) : v' = encNumber b.number := by
  entry_unique h
theorem entry_blob (b : BlockRec) (v' : Bytes)
    (h : (keyBlockTransactions b.number, v') ∈ blockEntries b) : v' = b.blob := by
  entry_unique h
theorem entry_su (b : BlockRec) (v' : Bytes)
    (h : (keyByNumber bStateUpdatesByBlockNumber b.number, v') ∈ blockEntries b) : v' = b.stateUpdate := by
  entry_unique h
theorem entry_comm (b : BlockRec) (v' : Bytes)
    (h : (keyByNumber bBlockCommitments b.number, v') ∈ blockEntries b) : v' = b.commitments := by
  entry_unique h

theorem entry_txloc (b : BlockRec) (hn : b.txHashes.Nodup) (i : Nat) (hi : i < b.txHashes.length) (v' : Bytes)
    (h : (keyByHash bTxIndexByHash b.txHashes[i], v') ∈ blockEntries b) : v' = encNumIndex b.number i := by
  rw [mem_blockEntries] at h
  rcases h with h | h | h | h | h | h | ⟨m, t, _, h⟩ | h
  · keys_simp; simp at h
  · keys_simp; simp at h
  · obtain ⟨j, hj, h1, h2⟩ := txIndexEntries_inv _ _ _ _ _ h
    have : b.txHashes[i] = b.txHashes[j] := by
      have := dbKey_suffix_inj _ _ _ h1
      exact this
    have := nodup_getElem_inj _ hn i j hi hj this
    subst this
    simpa using h2
  · keys_simp; simp at h
  · keys_simp; simp at h
  · keys_simp; simp at h
  · keys_simp; simp at h
  · keys_simp; simp at h

theorem entry_l1 (b : BlockRec) (hn : (b.l1.map (·.1)).Nodup) (m t : Bytes) (hm : (m, t) ∈ b.l1) (v' : Bytes)
    (h : (keyByHash bL1HandlerTxnHashByMsgHash m, v') ∈ blockEntries b) : v' = t := by
  rw [mem_blockEntries] at h
  rcases h with h | h | h | h | h | h | ⟨m', t', hm', h⟩ | h
  · keys_simp; simp at h
  · keys_simp; simp at h
  · obtain ⟨j, hj, h1, _⟩ := txIndexEntries_inv _ _ _ _ _ h; keys_simp; simp at h1
  · keys_simp; simp at h
  · keys_simp; simp at h
  · keys_simp; simp at h
  · simp only [Prod.mk.injEq] at h
    have hmm : m = m' := dbKey_suffix_inj _ _ _ h.1
    subst hmm
    rw [h.2]
    -- two entries of l1 with the same message hash are the same entry
    have : ∀ (l : List (Bytes × Bytes)), (l.map (·.1)).Nodup → (m, t) ∈ l → (m, t') ∈ l → t' = t := by
      intro l
      induction l with
      | nil => intro _ h; simp at h
      | cons x xs ih =>
        intro hnd h1 h2
        simp only [List.map_cons, List.nodup_cons, List.mem_map, not_exists, not_and] at hnd
        rcases List.mem_cons.mp h1 with rfl | h1' <;> rcases List.mem_cons.mp h2 with h2' | h2'
        · simp at h2'; exact h2'
        · exact absurd rfl (hnd.1 (m, t') h2')
        · subst h2'; exact absurd rfl (hnd.1 (m, t) h1')
        · exact ih hnd.2 h1' h2'
    exact this b.l1 hn hm hm'
  · keys_simp; simp at h

/-- **One block**: after `writeBlockContent`, every reader returns what was written — the direct
ones and the two-step by-hash ones — whatever the store held before. -/
theorem block_reads (s : Store) (b : BlockRec) (hok : b.ok) :
    getHeaderByNumber (writeBlock s b) b.number = some b.header ∧
    getNumberByHash (writeBlock s b) b.hash = some b.number ∧
    getHeaderByHash (writeBlock s b) b.hash = some b.header ∧
    getBlobByNumber (writeBlock s b) b.number = some b.blob ∧
    getStateUpdateByNumber (writeBlock s b) b.number = some b.stateUpdate ∧
    getStateUpdateByHash (writeBlock s b) b.hash = some b.stateUpdate ∧
    getCommitmentsByNumber (writeBlock s b) b.number = some b.commitments ∧
    (∀ i (hi : i < b.txHashes.length), getTxLocation (writeBlock s b) b.txHashes[i] = some (b.number, i)) ∧
    (∀ m t, (m, t) ∈ b.l1 → getL1TxHash (writeBlock s b) m = some t) := by
  obtain ⟨hn, hlen, htx, hl1⟩ := hok
  have r1 : getHeaderByNumber (writeBlock s b) b.number = some b.header :=
    get_putAll_mem s _ _ _ (by rw [mem_blockEntries]; simp) (entry_header b)
  have r2 : getNumberByHash (writeBlock s b) b.hash = some b.number := by
    unfold getNumberByHash writeBlock
    rw [get_putAll_mem s _ _ _ (by rw [mem_blockEntries]; simp) (entry_number b)]
    exact decNumber_enc _ hn
  have r4 : getBlobByNumber (writeBlock s b) b.number = some b.blob :=
    get_putAll_mem s _ _ _ (by rw [mem_blockEntries]; simp) (entry_blob b)
  have r5 : getStateUpdateByNumber (writeBlock s b) b.number = some b.stateUpdate :=
    get_putAll_mem s _ _ _ (by rw [mem_blockEntries]; simp) (entry_su b)
  have r7 : getCommitmentsByNumber (writeBlock s b) b.number = some b.commitments :=
    get_putAll_mem s _ _ _ (by rw [mem_blockEntries]; simp) (entry_comm b)
  refine ⟨r1, r2, by simp [getHeaderByHash, r2, r1], r4, r5, by simp [getStateUpdateByHash, r2, r5], r7, ?_, ?_⟩
  · intro i hi
    unfold getTxLocation writeBlock
    rw [get_putAll_mem s _ _ (encNumIndex b.number i)
      (by rw [mem_blockEntries]; right; right; left; simpa using txIndexEntries_mem b.number b.txHashes 0 i hi)
      (entry_txloc b htx i hi)]
    exact decNumIndex_enc _ _ hn (by omega)
  · intro m t hm
    exact get_putAll_mem s _ _ _ (by rw [mem_blockEntries]; exact Or.inr (Or.inr (Or.inr (Or.inr (Or.inr (Or.inr (Or.inl ⟨m, t, hm, rfl⟩))))))) (entry_l1 b hl1 m t hm)




/-- What "block `a` reads back from store `s`" means: every reader of part 7 on `a`'s keys. -/
def Reads (s : Store) (a : BlockRec) : Prop :=
  getHeaderByNumber s a.number = some a.header ∧
  getNumberByHash s a.hash = some a.number ∧
  getHeaderByHash s a.hash = some a.header ∧
  getBlobByNumber s a.number = some a.blob ∧
  getStateUpdateByNumber s a.number = some a.stateUpdate ∧
  getStateUpdateByHash s a.hash = some a.stateUpdate ∧
  getCommitmentsByNumber s a.number = some a.commitments ∧
  (∀ i (hi : i < a.txHashes.length), getTxLocation s a.txHashes[i] = some (a.number, i)) ∧
  (∀ m t, (m, t) ∈ a.l1 → getL1TxHash s m = some t)

theorem mem_blockKeys (a : BlockRec) (k : Bytes) :
    k ∈ blockKeys a ↔
      k = keyByNumber bBlockHeadersByNumber a.number ∨ k = keyByHash bBlockHeaderNumbersByHash a.hash ∨
      k = keyByNumber bBlockCommitments a.number ∨ (∃ h, h ∈ a.txHashes ∧ k = keyByHash bTxIndexByHash h) ∨
      (∃ m t, (m, t) ∈ a.l1 ∧ k = keyByHash bL1HandlerTxnHashByMsgHash m) ∨
      k = keyBlockTransactions a.number ∨ k = keyByNumber bStateUpdatesByBlockNumber a.number := by
  simp only [blockKeys, List.mem_append, List.mem_cons, List.mem_map, List.not_mem_nil, or_false, Prod.exists]
  constructor <;> intro h <;> grind

/-- Readers only look at the block's own keys. -/
theorem reads_congr (s s' : Store) (a : BlockRec) (h : ∀ k ∈ blockKeys a, s'.get k = s.get k) (hr : Reads s a) :
    Reads s' a := by
  obtain ⟨r1, r2, r3, r4, r5, r6, r7, r8, r9⟩ := hr
  have k1 := h (keyByNumber bBlockHeadersByNumber a.number) (by rw [mem_blockKeys]; simp)
  have k2 := h (keyByHash bBlockHeaderNumbersByHash a.hash) (by rw [mem_blockKeys]; simp)
  have k3 := h (keyByNumber bBlockCommitments a.number) (by rw [mem_blockKeys]; simp)
  have k4 := h (keyBlockTransactions a.number) (by rw [mem_blockKeys]; simp)
  have k5 := h (keyByNumber bStateUpdatesByBlockNumber a.number) (by rw [mem_blockKeys]; simp)
  have e1 : getHeaderByNumber s' a.number = getHeaderByNumber s a.number := k1
  have e2 : getNumberByHash s' a.hash = getNumberByHash s a.hash := by simp [getNumberByHash, k2]
  have e5 : getStateUpdateByNumber s' a.number = getStateUpdateByNumber s a.number := k5
  refine ⟨e1 ▸ r1, e2 ▸ r2, ?_, ?_, e5 ▸ r5, ?_, ?_, ?_, ?_⟩
  · simp only [getHeaderByHash, e2, r2, Option.bind_some, e1, r1]
  · exact (show getBlobByNumber s' a.number = getBlobByNumber s a.number from k4) ▸ r4
  · simp only [getStateUpdateByHash, e2, r2, Option.bind_some, e5, r5]
  · exact (show getCommitmentsByNumber s' a.number = getCommitmentsByNumber s a.number from k3) ▸ r7
  · intro i hi
    have := h (keyByHash bTxIndexByHash a.txHashes[i]) (by
      rw [mem_blockKeys]; exact Or.inr (Or.inr (Or.inr (Or.inl ⟨_, List.getElem_mem hi, rfl⟩))))
    simp only [getTxLocation, this]
    exact r8 i hi
  · intro m t hm
    have := h (keyByHash bL1HandlerTxnHashByMsgHash m) (by
      rw [mem_blockKeys]; exact Or.inr (Or.inr (Or.inr (Or.inr (Or.inl ⟨m, t, hm, rfl⟩)))))
    simp only [getL1TxHash, this]
    exact r9 m t hm

/-- Two blocks that can live in one store side by side: different numbers and hashes, no shared
transaction hash, no shared L1 message hash. -/
def Indep (a b : BlockRec) : Prop :=
  a.number ≠ b.number ∧ a.hash ≠ b.hash ∧ (∀ h ∈ a.txHashes, h ∉ b.txHashes) ∧
  (∀ m ∈ a.l1.map (·.1), m ∉ b.l1.map (·.1))

/-- Keys of independent blocks are disjoint (this is where the injectivity of the key encodings is
used: 8-byte big-endian numbers, CBOR-encoded numbers, hashes under a bucket byte). -/
theorem indep_keys (a b : BlockRec) (ha : a.number < 18446744073709551616) (hb : b.number < 18446744073709551616)
    (hi : Indep a b) : ∀ k ∈ blockKeys a, ∀ e ∈ blockEntries b, e.1 ≠ k := by
  obtain ⟨hn, hh, htx, hl1⟩ := hi
  intro k hk e he heq
  rw [mem_blockEntries] at he
  rw [mem_blockKeys] at hk
  have num_ne : ∀ bk, keyByNumber bk b.number ≠ keyByNumber bk a.number :=
    fun bk h => hn (keyByNumber_inj bk _ _ hb ha h).symm
  have bt_ne : keyBlockTransactions b.number ≠ keyBlockTransactions a.number :=
    fun h => hn (keyBlockTransactions_inj _ _ hb ha h).symm
  have hash_ne : ∀ bk, keyByHash bk b.hash ≠ keyByHash bk a.hash :=
    fun bk h => hh (dbKey_suffix_inj _ _ _ h).symm
  rcases he with rfl | rfl | he | rfl | rfl | rfl | ⟨m, t, hm, rfl⟩ | rfl
  · rcases hk with hk | hk | hk | ⟨x, _, hk⟩ | ⟨x, y, _, hk⟩ | hk | hk <;> subst hk <;>
      first | exact hash_ne _ heq | (keys_simp; simp at heq)
  · rcases hk with hk | hk | hk | ⟨x, _, hk⟩ | ⟨x, y, _, hk⟩ | hk | hk <;> subst hk <;>
      first | exact num_ne _ heq | (keys_simp; simp at heq)
  · obtain ⟨j, hj, h1, _⟩ := txIndexEntries_inv _ _ _ _ _ he
    rw [h1] at heq
    rcases hk with hk | hk | hk | ⟨x, hx, hk⟩ | ⟨x, y, _, hk⟩ | hk | hk <;> subst hk <;>
      first
      | exact htx x hx ((dbKey_suffix_inj _ _ _ heq) ▸ List.getElem_mem hj)
      | (keys_simp; simp at heq)
  · rcases hk with hk | hk | hk | ⟨x, _, hk⟩ | ⟨x, y, _, hk⟩ | hk | hk <;> subst hk <;>
      first | exact bt_ne heq | (keys_simp; simp at heq)
  · rcases hk with hk | hk | hk | ⟨x, _, hk⟩ | ⟨x, y, _, hk⟩ | hk | hk <;> subst hk <;>
      first | exact num_ne _ heq | (keys_simp; simp at heq)
  · rcases hk with hk | hk | hk | ⟨x, _, hk⟩ | ⟨x, y, _, hk⟩ | hk | hk <;> subst hk <;>
      first | exact num_ne _ heq | (keys_simp; simp at heq)
  · rcases hk with hk | hk | hk | ⟨x, _, hk⟩ | ⟨x, y, hxy, hk⟩ | hk | hk <;> subst hk <;>
      first
      | exact hl1 x (List.mem_map.mpr ⟨(x, y), hxy, rfl⟩) (List.mem_map.mpr ⟨(m, t), hm, dbKey_suffix_inj _ _ _ heq⟩)
      | (keys_simp; simp at heq)
  · rcases hk with hk | hk | hk | ⟨x, _, hk⟩ | ⟨x, y, _, hk⟩ | hk | hk <;> subst hk <;>
      (keys_simp; simp at heq)




/-- Writing an independent block does not disturb a block that reads back. -/
theorem reads_frame (s : Store) (a b : BlockRec) (ha : a.number < 18446744073709551616)
    (hb : b.number < 18446744073709551616) (hi : Indep a b) (hr : Reads s a) : Reads (writeBlock s b) a :=
  reads_congr s _ a (fun k hk => get_putAll_other s _ k (indep_keys a b ha hb hi k hk)) hr

/-- A history of block writes (`Store` applied to a list of blocks, oldest first). -/
def writeAll (s : Store) : List BlockRec → Store
  | [] => s
  | b :: bs => writeAll (writeBlock s b) bs

theorem reads_writeAll (a : BlockRec) (ha : a.number < 18446744073709551616) : ∀ (bs : List BlockRec) (s : Store),
    (∀ b ∈ bs, b.number < 18446744073709551616 ∧ Indep a b) → Reads s a → Reads (writeAll s bs) a
  | [], _, _, hr => hr
  | b :: bs, s, h, hr =>
    reads_writeAll a ha bs (writeBlock s b) (fun x hx => h x (List.mem_cons_of_mem _ hx))
      (reads_frame s a b ha (h b (List.mem_cons_self ..)).1 (h b (List.mem_cons_self ..)).2 hr)

/-- **Any history of pairwise independent blocks**: after all of them were written, EVERY one of
them still reads back through every reader, by number and by hash (induction over the history). -/
theorem history_reads : ∀ (bs : List BlockRec) (s : Store), (∀ b ∈ bs, b.ok) → bs.Pairwise Indep →
    ∀ a ∈ bs, Reads (writeAll s bs) a
  | [], _, _, _, a, ha => by simp at ha
  | b :: bs, s, hok, hp, a, ha => by
    rw [List.pairwise_cons] at hp
    rcases List.mem_cons.mp ha with rfl | ha'
    · exact reads_writeAll a (hok a (List.mem_cons_self ..)).1 bs _
        (fun x hx => ⟨(hok x (List.mem_cons_of_mem _ hx)).1, hp.1 x hx⟩)
        (block_reads s a (hok a (List.mem_cons_self ..)))
    · exact history_reads bs (writeBlock s b) (fun x hx => hok x (List.mem_cons_of_mem _ hx)) hp.2 a ha'

theorem blockKeys_subset_entries (b : BlockRec) (k : Bytes) (hk : k ∈ blockKeys b) :
    ∃ e ∈ blockEntries b, e.1 = k := by
  rw [mem_blockKeys] at hk
  rcases hk with rfl | rfl | rfl | ⟨h, hh, rfl⟩ | ⟨m, t, hm, rfl⟩ | rfl | rfl
  · exact ⟨_, (mem_blockEntries b _).mpr (Or.inr (Or.inl rfl)), rfl⟩
  · exact ⟨_, (mem_blockEntries b _).mpr (Or.inl rfl), rfl⟩
  · exact ⟨_, (mem_blockEntries b _).mpr (Or.inr (Or.inr (Or.inr (Or.inr (Or.inr (Or.inl rfl)))))), rfl⟩
  · obtain ⟨i, hi, rfl⟩ := List.getElem_of_mem hh
    exact ⟨_, (mem_blockEntries b _).mpr (Or.inr (Or.inr (Or.inl (txIndexEntries_mem b.number b.txHashes 0 i hi)))), rfl⟩
  · exact ⟨_, (mem_blockEntries b _).mpr (Or.inr (Or.inr (Or.inr (Or.inr (Or.inr (Or.inr (Or.inl ⟨m, t, hm, rfl⟩))))))), rfl⟩
  · exact ⟨_, (mem_blockEntries b _).mpr (Or.inr (Or.inr (Or.inr (Or.inl rfl)))), rfl⟩
  · exact ⟨_, (mem_blockEntries b _).mpr (Or.inr (Or.inr (Or.inr (Or.inr (Or.inl rfl))))), rfl⟩

/-- **Revert**: after `deleteBlockContent` nothing of the block resolves any more — not its header
by number or hash, not its state update, not one of its transaction hashes (so
`GetTransactionByHash` / `Receipt` are not-found), not its L1 message hashes — and every
independent block still reads back. -/
theorem delete_reads (s : Store) (b : BlockRec) :
    getHeaderByNumber (deleteBlock s b) b.number = none ∧
    getNumberByHash (deleteBlock s b) b.hash = none ∧
    getHeaderByHash (deleteBlock s b) b.hash = none ∧
    getStateUpdateByHash (deleteBlock s b) b.hash = none ∧
    getBlobByNumber (deleteBlock s b) b.number = none ∧
    (∀ th ∈ b.txHashes, getTxLocation (deleteBlock s b) th = none) ∧
    (∀ {α : Type} (dec : Bytes → Option α), ∀ th ∈ b.txHashes, getTxByHash dec (deleteBlock s b) th = .notFound) ∧
    (∀ m t, (m, t) ∈ b.l1 → getL1TxHash (deleteBlock s b) m = none) ∧
    (∀ a, a.number < 18446744073709551616 → b.number < 18446744073709551616 → Indep a b → Reads s a →
      Reads (deleteBlock s b) a) := by
  have gone : ∀ k ∈ blockKeys b, (deleteBlock s b).get k = none := by
    intro k hk; simp [deleteBlock, get_delAll, hk]
  have g2 : getNumberByHash (deleteBlock s b) b.hash = none := by
    simp [getNumberByHash, gone _ ((mem_blockKeys b _).mpr (Or.inr (Or.inl rfl)))]
  have g6 : ∀ th ∈ b.txHashes, getTxLocation (deleteBlock s b) th = none := by
    intro th hth
    simp [getTxLocation, gone _ ((mem_blockKeys b _).mpr (Or.inr (Or.inr (Or.inr (Or.inl ⟨th, hth, rfl⟩)))))]
  refine ⟨gone _ ((mem_blockKeys b _).mpr (Or.inl rfl)), g2, by simp [getHeaderByHash, g2],
    by simp [getStateUpdateByHash, g2],
    gone _ ((mem_blockKeys b _).mpr (Or.inr (Or.inr (Or.inr (Or.inr (Or.inr (Or.inl rfl))))))), g6,
    fun dec th hth => by simp [getTxByHash, g6 th hth], ?_, ?_⟩
  · intro m t hm
    exact gone _ ((mem_blockKeys b _).mpr (Or.inr (Or.inr (Or.inr (Or.inr (Or.inl ⟨m, t, hm, rfl⟩))))))
  · intro a ha hb hi hr
    apply reads_congr s _ a _ hr
    intro k hk
    have : k ∉ blockKeys b := by
      intro hkb
      obtain ⟨e, he, hek⟩ := blockKeys_subset_entries b k hkb
      exact indep_keys a b ha hb hi k hk e he hek
    simp [deleteBlock, get_delAll, this]

/-- **Reorg**: a block is removed and a different block `b'` is stored (possibly at the same
height): `b'` reads back, and a transaction hash of the removed block that `b'` does not contain is
not-found through the by-hash readers — never another transaction. -/
theorem replace_reads (s : Store) (b b' : BlockRec) (hok : b'.ok) :
    Reads (writeBlock (deleteBlock s b) b') b' ∧
    (∀ th ∈ b.txHashes, th ∉ b'.txHashes → getTxLocation (writeBlock (deleteBlock s b) b') th = none) ∧
    (∀ {α : Type} (dec : Bytes → Option α), ∀ th ∈ b.txHashes, th ∉ b'.txHashes →
      getTxByHash dec (writeBlock (deleteBlock s b) b') th = .notFound) ∧
    (b.hash ≠ b'.hash → getHeaderByHash (writeBlock (deleteBlock s b) b') b.hash = none) := by
  have loc : ∀ th ∈ b.txHashes, th ∉ b'.txHashes → getTxLocation (writeBlock (deleteBlock s b) b') th = none := by
    intro th hth hnot
    have hother : ∀ e ∈ blockEntries b', e.1 ≠ keyByHash bTxIndexByHash th := by
      intro e he heq
      rw [mem_blockEntries] at he
      rcases he with rfl | rfl | he | rfl | rfl | rfl | ⟨m, t, _, rfl⟩ | rfl
      · keys_simp; simp at heq
      · keys_simp; simp at heq
      · obtain ⟨j, hj, h1, _⟩ := txIndexEntries_inv _ _ _ _ _ he
        rw [h1] at heq
        exact hnot ((dbKey_suffix_inj _ _ _ heq) ▸ List.getElem_mem hj)
      · keys_simp; simp at heq
      · keys_simp; simp at heq
      · keys_simp; simp at heq
      · keys_simp; simp at heq
      · keys_simp; simp at heq
    unfold getTxLocation writeBlock
    rw [get_putAll_other _ _ _ hother]
    exact (delete_reads s b).2.2.2.2.2.1 th hth
  refine ⟨block_reads _ b' hok, loc, fun dec th hth hnot => by simp [getTxByHash, loc th hth hnot], ?_⟩
  intro hne
  have hother : ∀ e ∈ blockEntries b', e.1 ≠ keyByHash bBlockHeaderNumbersByHash b.hash := by
    intro e he heq
    rw [mem_blockEntries] at he
    rcases he with rfl | rfl | he | rfl | rfl | rfl | ⟨m, t, _, rfl⟩ | rfl
    · exact hne (dbKey_suffix_inj _ _ _ heq).symm
    · keys_simp; simp at heq
    · obtain ⟨j, hj, h1, _⟩ := txIndexEntries_inv _ _ _ _ _ he
      rw [h1] at heq; keys_simp; simp at heq
    · keys_simp; simp at heq
    · keys_simp; simp at heq
    · keys_simp; simp at heq
    · keys_simp; simp at heq
    · keys_simp; simp at heq
  have : getNumberByHash (writeBlock (deleteBlock s b) b') b.hash = none := by
    unfold getNumberByHash writeBlock
    rw [get_putAll_other _ _ _ hother]
    exact (delete_reads s b).2.1
  simp [getHeaderByHash, this]


end Juno.C07
