import JunoModel.C07.ModelBin
import JunoModel.C07.Proofs
/-! C07 — helper lemmas, part 4: binary codecs and database keys. -/
namespace Juno.C07

theorem fromBE_be8 (n : Nat) (h : n < 18446744073709551616) : fromBE (be 8 n) = n := by
  rw [fromBE_be]; exact Nat.mod_eq_of_lt (by simpa using h)

theorem take_len_append (a rest : Bytes) (k : Nat) (h : a.length = k) : (a ++ rest).take k = a := by
  subst h; simp

theorem drop_len_append (a rest : Bytes) (k : Nat) (h : a.length = k) : (a ++ rest).drop k = rest := by
  subst h; simp

theorem take_len_self (a : Bytes) (k : Nat) (h : a.length = k) : a.take k = a := by
  subst h; simp

theorem take_be8 (n : Nat) (rest : Bytes) : (be 8 n ++ rest).take 8 = be 8 n :=
  take_len_append _ _ 8 (be_length 8 n)

theorem drop_be8 (n : Nat) (rest : Bytes) : (be 8 n ++ rest).drop 8 = rest :=
  drop_len_append _ _ 8 (be_length 8 n)

theorem decNumber_enc (n : Nat) (h : n < 18446744073709551616) : decNumber (encNumber n) = some n := by
  have hl := be_length 8 n
  simp [decNumber, encNumber, hl, take_len_self _ 8 hl, fromBE_be8 n h]

theorem decNumIndex_enc (n i : Nat) (hn : n < 18446744073709551616) (hi : i < 18446744073709551616) :
    decNumIndex (encNumIndex n i) = some (n, i) := by
  have h1 := be_length 8 n
  have h2 := be_length 8 i
  unfold decNumIndex encNumIndex
  rw [take_be8, drop_be8]
  have : (be 8 i).take 8 = be 8 i := take_len_self _ 8 h2
  simp [h1, h2, this, fromBE_be8 n hn, fromBE_be8 i hi]

theorem decDeclared_enc (a : Nat) (cls : Bytes) (h : a < 18446744073709551616) :
    decDeclared (encDeclared a cls) = some (a, cls) := by
  have h1 := be_length 8 a
  unfold decDeclared encDeclared
  simp only [take_be8, drop_be8, fromBE_be8 a h]
  simp [h1]

theorem be8_inj (n m : Nat) (hn : n < 18446744073709551616) (hm : m < 18446744073709551616)
    (h : be 8 n = be 8 m) : n = m := by
  have := congrArg fromBE h
  rwa [fromBE_be8 n hn, fromBE_be8 m hm] at this

/-- Keys: two block numbers never share a key, in either key encoding; keys of different buckets differ. -/
theorem keyByNumber_inj (b n m : Nat) (hn : n < 18446744073709551616) (hm : m < 18446744073709551616)
    (h : keyByNumber b n = keyByNumber b m) : n = m := by
  simp [keyByNumber, dbKey] at h
  exact be8_inj n m hn hm h

theorem keyBlockTransactions_inj (n m : Nat) (hn : n < 18446744073709551616) (hm : m < 18446744073709551616)
    (h : keyBlockTransactions n = keyBlockTransactions m) : n = m := by
  simp [keyBlockTransactions, dbKey] at h
  have := encode_inj (.uint n) (.uint m) (by simp [Cbor.wf, hn]) (by simp [Cbor.wf, hm]) (by simpa [Cbor.encode] using h)
  simpa using this

theorem dbKey_bucket_ne (b1 b2 : Nat) (s1 s2 : Bytes) (h1 : b1 < 256) (h2 : b2 < 256) (hne : b1 ≠ b2) :
    dbKey b1 s1 ≠ dbKey b2 s2 := by
  intro h
  simp [dbKey] at h
  have := congrArg UInt8.toNat h.1
  rw [u8_toNat_ofNat b1 h1, u8_toNat_ofNat b2 h2] at this
  exact hne this

theorem dbKey_suffix_inj (b : Nat) (s1 s2 : Bytes) (h : dbKey b s1 = dbKey b s2) : s1 = s2 := by
  simpa [dbKey] using h

theorem casmMeta_layout (d _mig : Nat) (v2 tail : Bytes) (h2 : v2.length = 32) :
    (be 8 d ++ (v2 ++ tail)).take 8 = be 8 d ∧ ((be 8 d ++ (v2 ++ tail)).drop 8).take 32 = v2 ∧
    (be 8 d ++ (v2 ++ tail)).drop 40 = tail := by
  refine ⟨take_be8 d _, ?_, ?_⟩
  · rw [drop_be8, take_len_append _ _ 32 h2]
  · have : (40 : Nat) = 8 + 32 := rfl
    rw [this, ← List.drop_drop, drop_be8, drop_len_append _ _ 32 h2]

theorem casmMeta_roundtrip (m : CasmMeta) (hd : m.declaredAt < 18446744073709551616)
    (hm : m.migratedAt < 18446744073709551616) (h2 : m.v2.length = 32)
    (h1 : ∀ h, m.v1 = some h → h.length = 32) : CasmMeta.unmarshal m.marshal = some m := by
  obtain ⟨d, v2, mig, v1⟩ := m
  simp only at hd hm h2 h1
  have ld := be_length 8 d
  have lm := be_length 8 mig
  cases v1 with
  | none =>
    by_cases hmig : mig > 0
    · obtain ⟨e1, e2, e3⟩ := casmMeta_layout d mig v2 ((1 : UInt8) :: be 8 mig ++ [0]) h2
      unfold CasmMeta.unmarshal CasmMeta.marshal
      simp only [hmig, if_true, List.append_assoc, List.cons_append] at e1 e2 e3 ⊢
      rw [e1, e2, e3, fromBE_be8 d hd]
      simp [ld, lm, h2, take_be8, drop_be8, fromBE_be8 mig hm]
    · have hz : mig = 0 := by omega
      subst hz
      obtain ⟨e1, e2, e3⟩ := casmMeta_layout d 0 v2 ([0] ++ [0]) h2
      unfold CasmMeta.unmarshal CasmMeta.marshal
      simp only [Nat.lt_irrefl, if_false, List.append_assoc, gt_iff_lt] at e1 e2 e3 ⊢
      rw [e1, e2, e3, fromBE_be8 d hd]
      simp [ld, h2]
  | some h =>
    have hh := h1 h rfl
    have ht : h.take 32 = h := take_len_self _ 32 hh
    by_cases hmig : mig > 0
    · obtain ⟨e1, e2, e3⟩ := casmMeta_layout d mig v2 ((1 : UInt8) :: be 8 mig ++ (1 : UInt8) :: h) h2
      unfold CasmMeta.unmarshal CasmMeta.marshal
      simp only [hmig, if_true, List.append_assoc, List.cons_append] at e1 e2 e3 ⊢
      rw [e1, e2, e3, fromBE_be8 d hd]
      simp [ld, lm, h2, hh, ht, take_be8, drop_be8, fromBE_be8 mig hm]
    · have hz : mig = 0 := by omega
      subst hz
      obtain ⟨e1, e2, e3⟩ := casmMeta_layout d 0 v2 ([0] ++ (1 : UInt8) :: h) h2
      unfold CasmMeta.unmarshal CasmMeta.marshal
      simp only [Nat.lt_irrefl, if_false, List.append_assoc, gt_iff_lt] at e1 e2 e3 ⊢
      rw [e1, e2, e3, fromBE_be8 d hd]
      simp [ld, h2, hh, ht]



/-- The hand-written header of `felt.Slice` is the canonical CBOR array head, for every length that
fits `uint32`. -/
theorem sliceHeader_eq_head (n : Nat) (h : n < 4294967296) : sliceHeader n = head 4 n := by
  unfold sliceHeader head
  have hm : n % 4294967296 = n := Nat.mod_eq_of_lt h
  simp only [hm]
  by_cases h1 : n < 24
  · simp [h1]
  · by_cases h2 : n < 256
    · have : n ≤ 255 := by omega
      have hm2 : n % 256 = n := Nat.mod_eq_of_lt h2
      simp [h1, h2, this, be, hm2]
    · by_cases h3 : n < 65536
      · have a : ¬ n ≤ 255 := by omega
        have b : n ≤ 65535 := by omega
        simp [h1, h2, h3, a, b]
      · have a : ¬ n ≤ 255 := by omega
        have b : ¬ n ≤ 65535 := by omega
        simp [h1, h2, h3, a, b, h]

/-- Beyond `uint32` the length is truncated: 2^32 felts are written under the header of an empty
array (the encoder's buffer is sized for the real length, so the bytes that follow no longer
match the header). -/
theorem sliceHeader_truncates : sliceHeader 4294967296 = head 4 0 ∧ sliceHeader 4294967296 ≠ head 4 4294967296 := by
  decide

/-- The fast-path header decoder reads back what the header encoder wrote. -/
theorem decSliceHeader_sliceHeader (n : Nat) (rest : Bytes) (h : n < 4294967296) :
    decSliceHeader (sliceHeader n ++ rest) = some (n, (sliceHeader n).length) := by
  unfold sliceHeader
  have hm : n % 4294967296 = n := Nat.mod_eq_of_lt h
  simp only [hm]
  by_cases h1 : n < 24
  · simp only [h1, if_true, List.cons_append, List.nil_append, decSliceHeader]
    rw [u8_toNat_ofNat _ (by omega)]
    have e1 : (128 + n) / 32 = 4 := by omega
    have e2 : (128 + n) % 32 = n := by omega
    simp [e1, e2, h1]
  · by_cases h2 : n ≤ 255
    · simp only [h1, h2, if_true, if_false, List.cons_append, List.nil_append, decSliceHeader]
      have : (UInt8.ofNat n).toNat = n := u8_toNat_ofNat n (by omega)
      simp [fromBE, this]
    · by_cases h3 : n ≤ 65535
      · simp only [h1, h2, h3, if_true, if_false, List.cons_append, decSliceHeader]
        have hl := be_length 2 n
        have ht := take_len_append (be 2 n) rest 2 hl
        have hb := fromBE_be 2 n
        simp [ht, hb, hl]
        omega
      · simp only [h1, h2, h3, if_false, List.cons_append, decSliceHeader]
        have hl := be_length 4 n
        have ht := take_len_append (be 4 n) rest 4 hl
        have hb := fromBE_be 4 n
        simp [ht, hb, hl]
        omega


end Juno.C07
