import JunoModel.C07.Model
/-! C07 — helper lemmas, part 1: bytes ↔ CBOR data model round trip. -/
namespace Juno.C07

theorem be_length : ∀ (k n : Nat), (be k n).length = k
  | 0, _ => rfl
  | k + 1, n => by simp [be, be_length k]

theorem fromBE_append_one (xs : Bytes) (b : UInt8) : fromBE (xs ++ [b]) = fromBE xs * 256 + b.toNat := by
  simp [fromBE, List.foldl_append]

theorem fromBE_be : ∀ (k n : Nat), fromBE (be k n) = n % 256 ^ k
  | 0, n => by simp [be, fromBE, Nat.mod_one]
  | k + 1, n => by
    rw [be, fromBE_append_one, fromBE_be k]
    have h : (UInt8.ofNat (n % 256)).toNat = n % 256 := by
      simp [UInt8.toNat_ofNat']
    rw [h, Nat.pow_succ, Nat.mul_comm (256 ^ k) 256, Nat.mod_mul]
    omega

theorem takeN_append (a rest : Bytes) : takeN a.length (a ++ rest) = some (a, rest) := by
  simp [takeN]

theorem takeN_append' (a rest : Bytes) (k : Nat) (h : a.length = k) : takeN k (a ++ rest) = some (a, rest) := by
  subst h; exact takeN_append a rest

theorem u8_toNat_ofNat (n : Nat) (h : n < 256) : (UInt8.ofNat n).toNat = n := by
  simp [UInt8.toNat_ofNat']
  omega

/-- Decoding the head that `head` wrote gives back major type and argument. -/
theorem decodeHead_head (m n : Nat) (rest : Bytes) (hm : m < 8) (hn : n < 18446744073709551616) :
    ∃ ai, decodeHead (head m n ++ rest) = some (m, ai, n, rest) ∧ (ai < 24 ↔ n < 24) := by
  unfold head
  by_cases h1 : n < 24
  · refine ⟨n, ?_, by simp⟩
    simp only [h1, if_true, List.cons_append, List.nil_append, decodeHead]
    rw [u8_toNat_ofNat _ (by omega)]
    have e1 : (m * 32 + n) / 32 = m := by omega
    have e2 : (m * 32 + n) % 32 = n := by omega
    simp [e1, e2, h1]
  · by_cases h2 : n < 256
    · refine ⟨24, ?_, by omega⟩
      simp only [h1, h2, if_true, if_false, List.cons_append, decodeHead]
      rw [u8_toNat_ofNat _ (by omega)]
      have e1 : (m * 32 + 24) / 32 = m := by omega
      have e2 : (m * 32 + 24) % 32 = 24 := by omega
      simp only [e1, e2]
      have ht := takeN_append' (be 1 n) rest 1 (be_length 1 n)
      have hb := fromBE_be 1 n
      simp [ht, hb]
      omega
    · by_cases h3 : n < 65536
      · refine ⟨25, ?_, by omega⟩
        simp only [h1, h2, h3, if_true, if_false, List.cons_append, decodeHead]
        rw [u8_toNat_ofNat _ (by omega)]
        have e1 : (m * 32 + 25) / 32 = m := by omega
        have e2 : (m * 32 + 25) % 32 = 25 := by omega
        simp only [e1, e2]
        have ht := takeN_append' (be 2 n) rest 2 (be_length 2 n)
        have hb := fromBE_be 2 n
        simp [ht, hb]
        omega
      · by_cases h4 : n < 4294967296
        · refine ⟨26, ?_, by omega⟩
          simp only [h1, h2, h3, h4, if_true, if_false, List.cons_append, decodeHead]
          rw [u8_toNat_ofNat _ (by omega)]
          have e1 : (m * 32 + 26) / 32 = m := by omega
          have e2 : (m * 32 + 26) % 32 = 26 := by omega
          simp only [e1, e2]
          have ht := takeN_append' (be 4 n) rest 4 (be_length 4 n)
          have hb := fromBE_be 4 n
          simp [ht, hb]
          omega
        · refine ⟨27, ?_, by omega⟩
          simp only [h1, h2, h3, h4, if_true, if_false, List.cons_append, decodeHead]
          rw [u8_toNat_ofNat _ (by omega)]
          have e1 : (m * 32 + 27) / 32 = m := by omega
          have e2 : (m * 32 + 27) % 32 = 27 := by omega
          simp only [e1, e2]
          have ht := takeN_append' (be 8 n) rest 8 (be_length 8 n)
          have hb := fromBE_be 8 n
          simp [ht, hb]
          omega

end Juno.C07
