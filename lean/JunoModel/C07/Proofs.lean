import JunoModel.C07.Model
/-! C07 — helper lemmas, part 1: bytes ↔ CBOR data model round trip. -/
namespace Juno.C07

theorem be_length : ∀ (k n : Nat), (be k n).length = k
  | 0, _ => rfl
  | k + 1, n => by simp [be, be_length k]

theorem fromBE_append_one (xs : Bytes) (b : UInt8) : fromBE (xs ++ [b]) = fromBE xs * 256 + b.toNat := by
  simp [fromBE, List.foldl_append]

theorem fromBE_be : ∀ (k n : Nat), fromBE (be k n) = n % 256 ^ k
  | 0, n => by simp [be, fromBE, Nat.mod_one]
  | k + 1, n => by
    rw [be, fromBE_append_one, fromBE_be k]
    have h : (UInt8.ofNat (n % 256)).toNat = n % 256 := by
      simp [UInt8.toNat_ofNat']
    rw [h, Nat.pow_succ, Nat.mul_comm (256 ^ k) 256, Nat.mod_mul]
    omega

theorem takeN_append : ∀ (a rest : Bytes), takeN a.length (a ++ rest) = some (a, rest)
  | [], rest => by simp [takeN]
  | x :: xs, rest => by simp [takeN, takeN_append xs rest]

theorem takeN_append' (a rest : Bytes) (k : Nat) (h : a.length = k) : takeN k (a ++ rest) = some (a, rest) := by
  subst h; exact takeN_append a rest

theorem u8_toNat_ofNat (n : Nat) (h : n < 256) : (UInt8.ofNat n).toNat = n := by
  simp [UInt8.toNat_ofNat']
  omega

/-- Decoding the head that `head` wrote gives back major type and argument. -/
theorem decodeHead_head (m n : Nat) (rest : Bytes) (hm : m < 8) (hn : n < 18446744073709551616) :
    ∃ ai, decodeHead (head m n ++ rest) = some (m, ai, n, rest) ∧ (ai < 24 ↔ n < 24) := by
  unfold head
  by_cases h1 : n < 24
  · refine ⟨n, ?_, by simp⟩
    simp only [h1, if_true, List.cons_append, List.nil_append, decodeHead]
    rw [u8_toNat_ofNat _ (by omega)]
    have e1 : (m * 32 + n) / 32 = m := by omega
    have e2 : (m * 32 + n) % 32 = n := by omega
    simp [e1, e2, h1]
  · by_cases h2 : n < 256
    · refine ⟨24, ?_, by omega⟩
      simp only [h1, h2, if_true, if_false, List.cons_append, decodeHead]
      rw [u8_toNat_ofNat _ (by omega)]
      have e1 : (m * 32 + 24) / 32 = m := by omega
      have e2 : (m * 32 + 24) % 32 = 24 := by omega
      simp only [e1, e2]
      have ht := takeN_append' (be 1 n) rest 1 (be_length 1 n)
      have hb := fromBE_be 1 n
      simp [ht, hb]
      omega
    · by_cases h3 : n < 65536
      · refine ⟨25, ?_, by omega⟩
        simp only [h1, h2, h3, if_true, if_false, List.cons_append, decodeHead]
        rw [u8_toNat_ofNat _ (by omega)]
        have e1 : (m * 32 + 25) / 32 = m := by omega
        have e2 : (m * 32 + 25) % 32 = 25 := by omega
        simp only [e1, e2]
        have ht := takeN_append' (be 2 n) rest 2 (be_length 2 n)
        have hb := fromBE_be 2 n
        simp [ht, hb]
        omega
      · by_cases h4 : n < 4294967296
        · refine ⟨26, ?_, by omega⟩
          simp only [h1, h2, h3, h4, if_true, if_false, List.cons_append, decodeHead]
          rw [u8_toNat_ofNat _ (by omega)]
          have e1 : (m * 32 + 26) / 32 = m := by omega
          have e2 : (m * 32 + 26) % 32 = 26 := by omega
          simp only [e1, e2]
          have ht := takeN_append' (be 4 n) rest 4 (be_length 4 n)
          have hb := fromBE_be 4 n
          simp [ht, hb]
          omega
        · refine ⟨27, ?_, by omega⟩
          simp only [h1, h2, h3, h4, if_false, List.cons_append, decodeHead]
          rw [u8_toNat_ofNat _ (by omega)]
          have e1 : (m * 32 + 27) / 32 = m := by omega
          have e2 : (m * 32 + 27) % 32 = 27 := by omega
          simp only [e1, e2]
          have ht := takeN_append' (be 8 n) rest 8 (be_length 8 n)
          have hb := fromBE_be 8 n
          simp [ht, hb]
          omega


theorem decode_succ (fuel : Nat) (bs : Bytes) (major ai n : Nat) (rest : Bytes)
    (h : decodeHead bs = some (major, ai, n, rest)) :
    decode (fuel + 1) bs =
      (if major = 0 then some (.uint n, rest)
      else if major = 1 then some (.nint n, rest)
      else if major = 2 then
        match takeN n rest with
        | some (s, r) => some (.bytes s, r)
        | none => none
      else if major = 3 then
        match takeN n rest with
        | some (s, r) => some (.text s, r)
        | none => none
      else if major = 4 then
        match decodeList fuel n rest with
        | some (xs, r) => some (.array xs, r)
        | none => none
      else if major = 5 then
        match decodePairs fuel n rest with
        | some (kvs, r) => some (.map kvs, r)
        | none => none
      else if major = 6 then
        match decode fuel rest with
        | some (v, r) => some (.tag n v, r)
        | none => none
      else
        if ai < 24 then some (.simple n, rest) else none) := by
  simp only [decode, h]
  repeat' split
  all_goals simp_all

mutual
theorem decode_encode : ∀ (v : Cbor) (fuel : Nat) (rest : Bytes), v.wf = true → v.size ≤ fuel →
    decode fuel (v.encode ++ rest) = some (v, rest)
  | .uint n, fuel, rest, hwf, hf => by
    simp [Cbor.wf] at hwf
    simp [Cbor.size] at hf
    obtain ⟨f, rfl⟩ : ∃ f, fuel = f + 1 := ⟨fuel - 1, by omega⟩
    obtain ⟨ai, hd, _⟩ := decodeHead_head 0 n rest (by omega) hwf
    rw [Cbor.encode, decode_succ _ _ _ _ _ _ hd]; simp
  | .nint n, fuel, rest, hwf, hf => by
    simp [Cbor.wf] at hwf
    simp [Cbor.size] at hf
    obtain ⟨f, rfl⟩ : ∃ f, fuel = f + 1 := ⟨fuel - 1, by omega⟩
    obtain ⟨ai, hd, _⟩ := decodeHead_head 1 n rest (by omega) hwf
    rw [Cbor.encode, decode_succ _ _ _ _ _ _ hd]; simp
  | .bytes b, fuel, rest, hwf, hf => by
    simp [Cbor.wf] at hwf
    simp [Cbor.size] at hf
    obtain ⟨f, rfl⟩ : ∃ f, fuel = f + 1 := ⟨fuel - 1, by omega⟩
    obtain ⟨ai, hd, _⟩ := decodeHead_head 2 b.length (b ++ rest) (by omega) hwf
    rw [Cbor.encode, List.append_assoc, decode_succ _ _ _ _ _ _ hd]; simp [takeN_append]
  | .text b, fuel, rest, hwf, hf => by
    simp [Cbor.wf] at hwf
    simp [Cbor.size] at hf
    obtain ⟨f, rfl⟩ : ∃ f, fuel = f + 1 := ⟨fuel - 1, by omega⟩
    obtain ⟨ai, hd, _⟩ := decodeHead_head 3 b.length (b ++ rest) (by omega) hwf
    rw [Cbor.encode, List.append_assoc, decode_succ _ _ _ _ _ _ hd]; simp [takeN_append]
  | .array xs, fuel, rest, hwf, hf => by
    simp [Cbor.wf] at hwf
    simp [Cbor.size] at hf
    obtain ⟨f, rfl⟩ : ∃ f, fuel = f + 1 := ⟨fuel - 1, by omega⟩
    obtain ⟨ai, hd, _⟩ := decodeHead_head 4 xs.length (encodeList xs ++ rest) (by omega) hwf.1
    rw [Cbor.encode, List.append_assoc, decode_succ _ _ _ _ _ _ hd]
    simp [decodeList_encode xs f rest hwf.2 (by omega)]
  | .map kvs, fuel, rest, hwf, hf => by
    simp [Cbor.wf] at hwf
    simp [Cbor.size] at hf
    obtain ⟨f, rfl⟩ : ∃ f, fuel = f + 1 := ⟨fuel - 1, by omega⟩
    obtain ⟨ai, hd, _⟩ := decodeHead_head 5 kvs.length (encodePairs kvs ++ rest) (by omega) hwf.1
    rw [Cbor.encode, List.append_assoc, decode_succ _ _ _ _ _ _ hd]
    simp [decodePairs_encode kvs f rest hwf.2 (by omega)]
  | .tag t v, fuel, rest, hwf, hf => by
    simp [Cbor.wf] at hwf
    simp [Cbor.size] at hf
    obtain ⟨f, rfl⟩ : ∃ f, fuel = f + 1 := ⟨fuel - 1, by omega⟩
    obtain ⟨ai, hd, _⟩ := decodeHead_head 6 t (v.encode ++ rest) (by omega) hwf.1
    rw [Cbor.encode, List.append_assoc, decode_succ _ _ _ _ _ _ hd]
    simp [decode_encode v f rest hwf.2 (by omega)]
  | .simple n, fuel, rest, hwf, hf => by
    simp [Cbor.wf] at hwf
    simp [Cbor.size] at hf
    obtain ⟨f, rfl⟩ : ∃ f, fuel = f + 1 := ⟨fuel - 1, by omega⟩
    obtain ⟨ai, hd, hai⟩ := decodeHead_head 7 n rest (by omega) (by omega)
    rw [Cbor.encode, decode_succ _ _ _ _ _ _ hd]; simp [hai.mpr hwf]
theorem decodeList_encode : ∀ (xs : List Cbor) (fuel : Nat) (rest : Bytes), wfList xs = true → sizeList xs ≤ fuel →
    decodeList fuel xs.length (encodeList xs ++ rest) = some (xs, rest)
  | [], fuel, rest, _, _ => by cases fuel <;> simp [decodeList, encodeList]
  | x :: xs, fuel, rest, hwf, hf => by
    simp [wfList] at hwf
    simp [sizeList] at hf
    obtain ⟨f, rfl⟩ : ∃ f, fuel = f + 1 := ⟨fuel - 1, by omega⟩
    simp only [List.length_cons, encodeList, List.append_assoc, decodeList]
    simp only [decode_encode x f _ hwf.1 (by omega), decodeList_encode xs f rest hwf.2 (by omega)]
theorem decodePairs_encode : ∀ (kvs : List (Cbor × Cbor)) (fuel : Nat) (rest : Bytes), wfPairs kvs = true →
    sizePairs kvs ≤ fuel → decodePairs fuel kvs.length (encodePairs kvs ++ rest) = some (kvs, rest)
  | [], fuel, rest, _, _ => by cases fuel <;> simp [decodePairs, encodePairs]
  | (k, v) :: kvs, fuel, rest, hwf, hf => by
    simp [wfPairs] at hwf
    simp [sizePairs] at hf
    obtain ⟨f, rfl⟩ : ∃ f, fuel = f + 1 := ⟨fuel - 1, by omega⟩
    simp only [List.length_cons, encodePairs, List.append_assoc, decodePairs]
    simp only [decode_encode k f _ hwf.1 (by omega), decode_encode v f _ hwf.2.1 (by omega),
      decodePairs_encode kvs f rest hwf.2.2 (by omega)]
end

theorem head_length_pos (m n : Nat) : 0 < (head m n).length := by
  unfold head; split <;> (try split) <;> (try split) <;> (try split) <;> simp

mutual
theorem size_le : ∀ (v : Cbor), v.size + 1 ≤ 2 * v.encode.length
  | .uint n => by have := head_length_pos 0 n; simp [Cbor.size, Cbor.encode]; omega
  | .nint n => by have := head_length_pos 1 n; simp [Cbor.size, Cbor.encode]; omega
  | .bytes b => by have := head_length_pos 2 b.length; simp [Cbor.size, Cbor.encode]; omega
  | .text b => by have := head_length_pos 3 b.length; simp [Cbor.size, Cbor.encode]; omega
  | .array xs => by
    have := head_length_pos 4 xs.length; have := sizeList_le xs
    simp [Cbor.size, Cbor.encode]; omega
  | .map kvs => by
    have := head_length_pos 5 kvs.length; have := sizePairs_le kvs
    simp [Cbor.size, Cbor.encode]; omega
  | .tag t v => by
    have := head_length_pos 6 t; have := size_le v
    simp [Cbor.size, Cbor.encode]; omega
  | .simple n => by have := head_length_pos 7 n; simp [Cbor.size, Cbor.encode]; omega
theorem sizeList_le : ∀ (xs : List Cbor), sizeList xs ≤ 2 * (encodeList xs).length
  | [] => by simp [sizeList]
  | x :: xs => by
    have := size_le x; have := sizeList_le xs
    simp [sizeList, encodeList]; omega
theorem sizePairs_le : ∀ (kvs : List (Cbor × Cbor)), sizePairs kvs ≤ 2 * (encodePairs kvs).length
  | [] => by simp [sizePairs]
  | (k, v) :: kvs => by
    have := size_le k; have := size_le v; have := sizePairs_le kvs
    simp [sizePairs, encodePairs]; omega
end

/-- `UnmarshalFirst` on an encoded value followed by anything. -/
theorem decodeFirst_encode (v : Cbor) (rest : Bytes) (hwf : v.wf = true) :
    decodeFirst (v.encode ++ rest) = some (v, rest) := by
  unfold decodeFirst
  apply decode_encode v _ rest hwf
  have := size_le v
  simp; omega

theorem decodeAll_encode (v : Cbor) (hwf : v.wf = true) : decodeAll v.encode = some v := by
  have := decodeFirst_encode v [] hwf
  simp only [List.append_nil] at this
  simp [decodeAll, this]


/-- The canonical encoding is injective on well-formed values. -/
theorem encode_inj (a b : Cbor) (ha : a.wf = true) (hb : b.wf = true) (h : a.encode = b.encode) : a = b := by
  have h1 := decodeAll_encode a ha
  have h2 := decodeAll_encode b hb
  rw [h] at h1
  rw [h1] at h2
  exact Option.some.inj h2

/-! ### decoder limits: definitional lemmas (the spec `decodeAllLimited` is the unlimited decoder plus `within`) -/

/-- Within the limits the limited decoder is the identity on encoded values … -/
theorem limited_roundtrip (l : DecLimits) (v : Cbor) (hwf : v.wf = true) (h : v.within l l.maxNest = true) :
    decodeAllLimited l v.encode = some v := by
  simp [decodeAllLimited, decodeAll_encode v hwf, h]

/-- … and above any of them it rejects what the encoder wrote (full statement `∀ v, decodeAllLimited l
v.encode = some v` is false: `limits_witness`). -/
theorem limited_rejects (l : DecLimits) (v : Cbor) (hwf : v.wf = true) (h : v.within l l.maxNest = false) :
    decodeAllLimited l v.encode = none := by
  simp [decodeAllLimited, decodeAll_encode v hwf, h]

/-- Any map with more pairs than `maxMap`, any array with more elements than `maxArray`. -/
theorem limited_rejects_big (l : DecLimits) :
    (∀ kvs : List (Cbor × Cbor), (Cbor.map kvs).wf = true → l.maxMap < kvs.length →
      decodeAllLimited l (Cbor.map kvs).encode = none) ∧
    (∀ xs : List Cbor, (Cbor.array xs).wf = true → l.maxArray < xs.length →
      decodeAllLimited l (Cbor.array xs).encode = none) := by
  constructor
  · intro kvs hwf h
    apply limited_rejects l _ hwf
    simp [Cbor.within]
    intro _ h2; omega
  · intro xs hwf h
    apply limited_rejects l _ hwf
    simp [Cbor.within]
    intro _ h2; omega


end Juno.C07
