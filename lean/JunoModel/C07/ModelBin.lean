import JunoModel.C07.Model
/-
C07 — model, part 6: the fixed-layout binary codecs and the database keys of the block records
(db/schema.go, db/buckets.go `Bucket.Key`, core/class.go `DeclaredClassDefinition` and
`ClassCasmHashMetadata`, db/schema.go `BlockNumIndexKey`, core/accessors.go block-number values).

A felt in a key or binary value is its 32-byte big-endian canonical form (`felt.Marshal`); the
model carries it as a byte string (field arithmetic is not modelled).
-/
namespace Juno.C07

/-- `Bucket.Key(parts…)`: the bucket byte followed by the parts. -/
def dbKey (bucket : Nat) (suffix : Bytes) : Bytes := UInt8.ofNat bucket :: suffix

-- bucket ordinals (db/buckets.go; persisted, must never change)
def bClass : Nat := 4
def bChainHeight : Nat := 6
def bBlockHeaderNumbersByHash : Nat := 7
def bBlockHeadersByNumber : Nat := 8
def bTxIndexByHash : Nat := 9
def bStateUpdatesByBlockNumber : Nat := 12
def bBlockCommitments : Nat := 21
def bL1HandlerTxnHashByMsgHash : Nat := 24
def bClassCasmHashMetadata : Nat := 39
def bBlockTransactions : Nat := 40

/-- `BlockHeaderByNumberKey`, `StateUpdateByBlockNumKey`, `BlockCommitmentsKey`: bucket ‖ 8-byte BE. -/
def keyByNumber (bucket n : Nat) : Bytes := dbKey bucket (be 8 n)
/-- `BlockTransactionsBucket` (`key.Cbor[uint64]`): bucket ‖ canonical CBOR of the number. -/
def keyBlockTransactions (n : Nat) : Bytes := dbKey bBlockTransactions (head 0 n)
/-- Hash-keyed buckets: bucket ‖ 32 bytes (or the message hash as given). -/
def keyByHash (bucket : Nat) (h : Bytes) : Bytes := dbKey bucket h

/-- `MarshalBlockNumber` / `binary.BigEndian.Uint64`. -/
def encNumber (n : Nat) : Bytes := be 8 n
def decNumber (bs : Bytes) : Option Nat := if bs.length < 8 then none else some (fromBE (bs.take 8))

/-- `db.BlockNumIndexKey`: 8-byte BE number ‖ 8-byte BE index (`UnmarshalBinary` wants ≥ 16 bytes). -/
def encNumIndex (n i : Nat) : Bytes := be 8 n ++ be 8 i
def decNumIndex (bs : Bytes) : Option (Nat × Nat) :=
  if bs.length < 16 then none else some (fromBE (bs.take 8), fromBE ((bs.drop 8).take 8))

/-- `DeclaredClassDefinition.MarshalBinary`: 8-byte BE block number ‖ CBOR of the class; stored
through `encoder.Marshal`, which wraps a `BinaryMarshaler` into a CBOR byte string. -/
def encDeclared (at_ : Nat) (cls : Bytes) : Cbor := .bytes (be 8 at_ ++ cls)
def decDeclared : Cbor → Option (Nat × Bytes)
  | .bytes b => if b.length < 8 then none else some (fromBE (b.take 8), b.drop 8)
  | _ => none

/-- `core.ClassCasmHashMetadata`: declaredAt, casmHashV2 (32 bytes), migratedAt (0 = not migrated),
casmHashV1 (absent for classes declared with V2). -/
structure CasmMeta where
  declaredAt : Nat
  v2 : Bytes
  migratedAt : Nat
  v1 : Option Bytes
  deriving Repr, DecidableEq

/-- `MarshalBinary`: declaredAt(8) ‖ v2(32) ‖ flag [‖ migratedAt(8)] ‖ flag [‖ v1(32)]. -/
def CasmMeta.marshal (m : CasmMeta) : Bytes :=
  be 8 m.declaredAt ++ m.v2 ++
  (if m.migratedAt > 0 then (1 : UInt8) :: be 8 m.migratedAt else [0]) ++
  (match m.v1 with
   | some h => (1 : UInt8) :: h
   | none => [0])

/-- `UnmarshalBinary`. -/
def CasmMeta.unmarshal (bs : Bytes) : Option CasmMeta :=
  if bs.length < 42 then none else
  let declaredAt := fromBE (bs.take 8)
  let v2 := (bs.drop 8).take 32
  let rest := bs.drop 40
  match rest with
  | [] => none
  | f :: r =>
    let mig : Option (Nat × Bytes) :=
      if f = 1 then (if r.length < 8 then none else some (fromBE (r.take 8), r.drop 8)) else some (0, r)
    match mig with
    | none => none
    | some (migratedAt, r2) =>
      match r2 with
      | [] => none
      | g :: r3 =>
        if g = 1 then
          if r3.length < 32 then none
          else some { declaredAt, v2, migratedAt, v1 := some (r3.take 32) }
        else some { declaredAt, v2, migratedAt, v1 := none }

/-! ### `felt.Slice` (core/felt/slice.go): a second, hand-written copy of the CBOR array header

`Slice.MarshalCBOR` writes the array header itself (`encodeCBORArrayHeader(uint32(len(s)))`) and
`Slice.UnmarshalCBOR` reads it back (`decodeCBORArrayHeader`) before falling back to the generic
decoder. Transcribed here so that the duplicated width logic is under a theorem: it must coincide
with the canonical head (`head 4 n`) for every length below 2^32 (beyond, `uint32(len)` truncates). -/

/-- `encodeCBORArrayHeader(uint32(n))`. -/
def sliceHeader (n : Nat) : Bytes :=
  let a := n % 4294967296
  if a < 24 then [UInt8.ofNat (128 + a)]
  else if a ≤ 255 then [152, UInt8.ofNat a]
  else if a ≤ 65535 then (153 : UInt8) :: be 2 a
  else (154 : UInt8) :: be 4 a

/-- `decodeCBORArrayHeader`: (element count, bytes consumed), or `none` (not an array, or a width
the fast path does not handle: 8-byte lengths, reserved). -/
def decSliceHeader : Bytes → Option (Nat × Nat)
  | [] => none
  | b :: rest =>
    if b.toNat / 32 ≠ 4 then none
    else
      let ai := b.toNat % 32
      if ai < 24 then some (ai, 1)
      else if ai = 24 ∧ 1 ≤ rest.length then some (fromBE (rest.take 1), 2)
      else if ai = 25 ∧ 2 ≤ rest.length then some (fromBE (rest.take 2), 3)
      else if ai = 26 ∧ 4 ≤ rest.length then some (fromBE (rest.take 4), 5)
      else none

end Juno.C07
