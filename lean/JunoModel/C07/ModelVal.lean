import JunoModel.C07.Model
import JunoModel.C07.ModelBlob
/-
C07 — model, part 3: Go values ↔ CBOR data items, by type tables.

This is the part of `fxamacker/cbor` (as configured in encoder/encoder.go: `CanonicalEncOptions`,
registered tags required on both sides, default decoding options) that juno's stored records
exercise:

  encode  unsigned integers, bools, strings (text), byte slices (byte string; nil → null),
          felts (`felt.Felt.MarshalCBOR`: array of the four Montgomery limbs), pointers (nil → null),
          slices (nil → null, else array), maps (nil → null, else map with entries sorted
          length-first by encoded key), structs (map from field name — or `cbor:"name"` tag — to
          value, sorted length-first; `omitempty` fields dropped when empty; embedded structs
          flattened), registered interface implementations (tag number, then the struct).
  decode  the inverse, with the library's tolerance: null leaves the zero value, a key that names
          no field is ignored, of two entries with one key the first wins, a missing key leaves
          the zero value, strings must be valid UTF-8 (`DecOptions.UTF8`, default: reject),
          `discardedCBOR` fields (core/partial_cbor.go) accept any item and keep nothing.

Not modelled (documented limits): case-insensitive fallback of key matching (never needed for
keys the encoder wrote), integer keys (`keyasint`, only in the blob header: modelled in
ModelBlob), type mismatches beyond "reject", `*big.Int`, `*bloom.BloomFilter` and the recursive
`SegmentLengths` (type `raw`: an opaque data item carried through unchanged).
-/
namespace Juno.C07

/-- Go types of stored records. Struct fields are listed in canonical key order (length of the
key first, then bytewise), which is the order the encoder writes them in. -/
inductive GoType where
  | uint (bits : Nat)
  | bool
  | str
  | bytes
  | felt
  | raw
  | ptr (t : GoType)
  | slice (t : GoType)
  | map (k v : GoType)
  | struct (fs : List (Bytes × Bool × GoType))   -- key (UTF-8 bytes), omitempty, type
  | iface (alts : List (Nat × GoType))           -- tag number, concrete (struct) type
  | discard
  deriving Repr, Inhabited

/-- Go values. `nil` is the nil pointer / slice / map / interface; `unit` is what a discarded
field holds. Map entries are kept as a list (a Go map is this list up to order). -/
inductive GoVal where
  | nil
  | unit
  | uint (n : Nat)
  | bool (b : Bool)
  | str (s : Bytes)
  | bytes (b : Bytes)
  | felt (a b c d : Nat)
  | raw (c : Cbor)
  | list (xs : List GoVal)
  | struct (vs : List GoVal)
  | map (kvs : List (GoVal × GoVal))
  | iface (idx : Nat) (v : GoVal)
  deriving Repr, Inhabited

/-! ### UTF-8 (RFC 3629): what `utf8.Valid` accepts -/

/-- State machine: `need` continuation bytes are still expected, the next one within `[lo, hi)`. -/
def utf8Step : Nat → Nat → Nat → Bytes → Bool
  | need, _, _, [] => need == 0
  | 0, _, _, b :: rest =>
    let c := b.toNat
    if c < 0x80 then utf8Step 0 0 0 rest
    else if c < 0xC2 then false
    else if c < 0xE0 then utf8Step 1 0x80 0xC0 rest
    else if c < 0xF0 then utf8Step 2 (if c = 0xE0 then 0xA0 else 0x80) (if c = 0xED then 0xA0 else 0xC0) rest
    else if c < 0xF5 then utf8Step 3 (if c = 0xF0 then 0x90 else 0x80) (if c = 0xF4 then 0x90 else 0xC0) rest
    else false
  | need + 1, lo, hi, b :: rest =>
    if lo ≤ b.toNat ∧ b.toNat < hi then utf8Step need 0x80 0xC0 rest else false

def utf8Valid (bs : Bytes) : Bool := utf8Step 0 0 0 bs

/-- Decoder configuration that matters here: `DecOptions.UTF8`. `true` = `UTF8RejectInvalid`
(the library default, and what encoder/encoder.go uses). -/
structure DecCfg where
  rejectInvalidUTF8 : Bool
  deriving Repr, DecidableEq

/-! ### Ordering of map keys: length of the encoded key first, then bytewise -/

def bytesLt : Bytes → Bytes → Bool
  | [], [] => false
  | [], _ :: _ => true
  | _ :: _, [] => false
  | a :: as, b :: bs => a.toNat < b.toNat || (a.toNat == b.toNat && bytesLt as bs)

/-- `SortLengthFirst` on encoded keys. -/
def keyLt (a b : Bytes) : Bool := a.length < b.length || (a.length == b.length && bytesLt a b)

/-- Insert an entry into a list sorted by encoded key (stable: after equal keys). -/
def insertEntry (e : Cbor × Cbor) : List (Cbor × Cbor) → List (Cbor × Cbor)
  | [] => [e]
  | x :: xs => if keyLt e.1.encode x.1.encode then e :: x :: xs else x :: insertEntry e xs

def sortEntries : List (Cbor × Cbor) → List (Cbor × Cbor)
  | [] => []
  | e :: es => insertEntry e (sortEntries es)

/-! ### Helpers -/

def mapOpt {α β : Type} (f : α → Option β) : List α → Option (List β)
  | [] => some []
  | x :: xs =>
    match f x, mapOpt f xs with
    | some y, some ys => some (y :: ys)
    | _, _ => none

def mapOpt2 {α β γ δ : Type} (f : α → Option γ) (g : β → Option δ) : List (α × β) → Option (List (γ × δ))
  | [] => some []
  | (a, b) :: xs =>
    match f a, g b, mapOpt2 f g xs with
    | some c, some d, some ys => some ((c, d) :: ys)
    | _, _, _ => none

/-- `omitempty`: what counts as empty. -/
def GoVal.isEmpty : GoVal → Bool
  | .nil => true
  | .uint n => n == 0
  | .bool b => !b
  | .str s => s.isEmpty
  | .bytes b => b.isEmpty
  | .list xs => xs.isEmpty
  | .map kvs => kvs.isEmpty
  | _ => false

mutual
/-- The zero value of a type (what a field holds when its key is missing or null). -/
def zeroVal : GoType → GoVal
  | .uint _ => .uint 0
  | .bool => .bool false
  | .str => .str []
  | .bytes => .nil
  | .felt => .felt 0 0 0 0
  | .raw => .raw .null
  | .ptr _ => .nil
  | .slice _ => .nil
  | .map _ _ => .nil
  | .struct fs => .struct (zeroFields fs)
  | .iface _ => .nil
  | .discard => .unit
def zeroFields : List (Bytes × Bool × GoType) → List GoVal
  | [] => []
  | (_, _, t) :: fs => zeroVal t :: zeroFields fs
end

def u64 : Nat := 18446744073709551616

mutual
/-- `encoder.Marshal` at the level of data items. `none`: the value does not have the type. -/
def encodeVal : GoType → GoVal → Option Cbor
  | .uint bits, .uint n => if n < 2 ^ bits then some (.uint n) else none
  | .bool, .bool b => some (Cbor.bool b)
  | .str, .str s => some (.text s)
  | .bytes, .nil => some .null
  | .bytes, .bytes b => some (.bytes b)
  | .felt, .felt a b c d =>
    if a < u64 ∧ b < u64 ∧ c < u64 ∧ d < u64 then some (.array [.uint a, .uint b, .uint c, .uint d]) else none
  | .raw, .raw c => some c
  | .ptr _, .nil => some .null
  | .ptr t, v => encodeVal t v
  | .slice _, .nil => some .null
  | .slice t, .list xs => (mapOpt (encodeVal t) xs).map .array
  | .map _ _, .nil => some .null
  | .map k v, .map kvs => (mapOpt2 (encodeVal k) (encodeVal v) kvs).map (fun es => .map (sortEntries es))
  | .struct fs, .struct vs => (encodeFields fs vs).map .map
  | .iface _, .nil => some .null
  | .iface alts, .iface i v => encodeAlt alts i v
  | _, _ => none
def encodeFields : List (Bytes × Bool × GoType) → List GoVal → Option (List (Cbor × Cbor))
  | [], [] => some []
  | (key, om, t) :: fs, v :: vs =>
    match encodeVal t v, encodeFields fs vs with
    | some c, some es => if om && v.isEmpty then some es else some ((.text key, c) :: es)
    | _, _ => none
  | _, _ => none
def encodeAlt : List (Nat × GoType) → Nat → GoVal → Option Cbor
  | [], _, _ => none
  | (tag, t) :: _, 0, v => (encodeVal t v).map (.tag tag)
  | _ :: alts, i + 1, v => encodeAlt alts i v
end

/-- Insert a decoded map entry unless its key is already present (entries are processed from the
last to the first, so the LAST of two equal keys wins, as when Go assigns into a map), keeping
the list sorted by encoded key. `ek` is the encoding of the key as it will be re-encoded. -/
def insertIfAbsent (ek : Bytes) (e : GoVal × GoVal) : List (Bytes × GoVal × GoVal) → List (Bytes × GoVal × GoVal)
  | [] => [(ek, e)]
  | x :: xs =>
    if ek == x.1 then x :: xs
    else if keyLt ek x.1 then (ek, e) :: x :: xs
    else x :: insertIfAbsent ek e xs

mutual
/-- `encoder.Unmarshal` at the level of data items, into a value of the given type. -/
def decodeVal (cfg : DecCfg) : GoType → Cbor → Option GoVal
  | .uint bits, c =>
    match c with
    | .uint n => if n < 2 ^ bits then some (.uint n) else none
    | .simple 22 => some (.uint 0)
    | .simple 23 => some (.uint 0)
    | _ => none
  | .bool, c =>
    match c with
    | .simple 20 => some (.bool false)
    | .simple 21 => some (.bool true)
    | .simple 22 => some (.bool false)
    | .simple 23 => some (.bool false)
    | _ => none
  | .str, c =>
    match c with
    | .text s => if cfg.rejectInvalidUTF8 && !utf8Valid s then none else some (.str s)
    | .simple 22 => some (.str [])
    | .simple 23 => some (.str [])
    | _ => none
  | .bytes, c =>
    match c with
    | .bytes b => some (.bytes b)
    | .simple 22 => some .nil
    | .simple 23 => some .nil
    | _ => none
  | .felt, c =>
    match c with
    | .array [.uint a, .uint b, .uint c, .uint d] =>
      if a < u64 ∧ b < u64 ∧ c < u64 ∧ d < u64 then some (.felt a b c d) else none
    | .simple 22 => some (.felt 0 0 0 0)
    | .simple 23 => some (.felt 0 0 0 0)
    | _ => none
  | .raw, c => some (.raw c)
  | .ptr t, c =>
    match c with
    | .simple 22 => some .nil
    | .simple 23 => some .nil
    | c => decodeVal cfg t c
  | .slice t, c =>
    match c with
    | .array xs => (mapOpt (decodeVal cfg t) xs).map .list
    | .simple 22 => some .nil
    | .simple 23 => some .nil
    | _ => none
  | .map k v, c =>
    match c with
    | .map kvs =>
      match mapOpt2 (decodeVal cfg k) (decodeVal cfg v) kvs with
      | some es =>
        -- re-encode each decoded key to order / deduplicate the way a Go map + encoder would
        match mapOpt (fun (e : GoVal × GoVal) => (encodeVal k e.1).map (fun ck => (ck.encode, e))) es with
        | some tagged => some (.map ((tagged.foldr (fun x acc => insertIfAbsent x.1 x.2 acc) []).map (·.2)))
        | none => none
      | none => none
    | .simple 22 => some .nil
    | .simple 23 => some .nil
    | _ => none
  | .struct fs, c =>
    match c with
    | .map kvs => (decodeFields cfg fs kvs).map .struct
    | .simple 22 => some (.struct (zeroFields fs))
    | .simple 23 => some (.struct (zeroFields fs))
    | _ => none
  | .iface alts, c =>
    match c with
    | .tag t inner => decodeAlt cfg alts 0 t inner
    | .simple 22 => some .nil
    | .simple 23 => some .nil
    | _ => none
  | .discard, _ => some .unit
/-- Every field takes the value of the FIRST entry whose key is the field's name; a field whose
name does not occur keeps its zero value; entries naming no field are ignored. -/
def decodeFields (cfg : DecCfg) : List (Bytes × Bool × GoType) → List (Cbor × Cbor) → Option (List GoVal)
  | [], _ => some []
  | (key, _, t) :: fs, kvs =>
    match (match mapLookup (.text key) kvs with
           | some c => decodeVal cfg t c
           | none => some (zeroVal t)),
          decodeFields cfg fs kvs with
    | some v, some vs => some (v :: vs)
    | _, _ => none
def decodeAlt (cfg : DecCfg) : List (Nat × GoType) → Nat → Nat → Cbor → Option GoVal
  | [], _, _, _ => none
  | (tag, t) :: alts, i, tg, c =>
    if tag = tg then (decodeVal cfg t c).map (.iface i) else decodeAlt cfg alts (i + 1) tg c
end

/-- `encoder.Marshal`: value → bytes. -/
def marshalVal (t : GoType) (v : GoVal) : Option Bytes := (encodeVal t v).map Cbor.encode

/-- `encoder.Unmarshal`: bytes → value (exactly one item). -/
def unmarshalVal (cfg : DecCfg) (t : GoType) (bs : Bytes) : Option GoVal :=
  match decodeAll bs with
  | some c => decodeVal cfg t c
  | none => none

end Juno.C07
