/-
C07 — model, part 1: the CBOR data model (RFC 8949) with the canonical ("shortest head",
definite length) encoding that `encoder.Marshal` (fxamacker/cbor, `CanonicalEncOptions`) emits,
and a decoder over bytes.

Core Lean only (linked into `c07drv`).

What is modelled: the eight kinds of data item that occur in juno's stored records
(unsigned / negative integers, byte strings, text strings, arrays, maps, tags, and the simple
values false/true/null/undefined).  Floats, indefinite-length items, the one-byte simple
extension (0xf8) and the "break" code are *rejected* by `decode` (the encoder never emits them;
`decode` returning `none` on a stored record is reported by the harness as a model mismatch).
Text strings are kept as raw bytes: UTF-8 validity is a separate predicate (`utf8Valid`, part 3)
because the real encoder does not check it while the real decoder does.
-/
namespace Juno.C07

abbrev Bytes := List UInt8

/-- CBOR data items. `nint n` is the integer `-1 - n`. `simple 20/21/22/23` = false/true/null/undefined. -/
inductive Cbor where
  | uint (n : Nat)
  | nint (n : Nat)
  | bytes (b : Bytes)
  | text (b : Bytes)
  | array (xs : List Cbor)
  | map (kvs : List (Cbor × Cbor))
  | tag (t : Nat) (v : Cbor)
  | simple (n : Nat)
  deriving Repr, Inhabited

namespace Cbor
def null : Cbor := .simple 22
def bool (b : Bool) : Cbor := .simple (if b then 21 else 20)
end Cbor

/-- `k` bytes, big-endian, of `n` (the low `8k` bits). -/
def be : Nat → Nat → Bytes
  | 0, _ => []
  | k + 1, n => be k (n / 256) ++ [UInt8.ofNat (n % 256)]

/-- Big-endian value of a byte string. -/
def fromBE (bs : Bytes) : Nat := bs.foldl (fun a b => a * 256 + b.toNat) 0

/-- The head of a data item: major type (3 bits) and argument, in the shortest form. -/
def head (major n : Nat) : Bytes :=
  if n < 24 then [UInt8.ofNat (major * 32 + n)]
  else if n < 256 then UInt8.ofNat (major * 32 + 24) :: be 1 n
  else if n < 65536 then UInt8.ofNat (major * 32 + 25) :: be 2 n
  else if n < 4294967296 then UInt8.ofNat (major * 32 + 26) :: be 4 n
  else UInt8.ofNat (major * 32 + 27) :: be 8 n

/-- Take exactly `k` bytes, or fail (one pass: never measures the whole remaining input). -/
def takeN : Nat → Bytes → Option (Bytes × Bytes)
  | 0, bs => some ([], bs)
  | _ + 1, [] => none
  | k + 1, b :: bs =>
    match takeN k bs with
    | some (a, r) => some (b :: a, r)
    | none => none

/-- Decode a head (any width, not only the shortest): `(major, additional info, argument, rest)`.
Additional information 28..31 (reserved / indefinite length / break) is rejected. -/
def decodeHead : Bytes → Option (Nat × Nat × Nat × Bytes)
  | [] => none
  | b :: rest =>
    let major := b.toNat / 32
    let ai := b.toNat % 32
    if ai < 24 then some (major, ai, ai, rest)
    else
      let width := if ai = 24 then 1 else if ai = 25 then 2 else if ai = 26 then 4 else if ai = 27 then 8 else 0
      if width = 0 then none
      else match takeN width rest with
        | some (arg, rest') => some (major, ai, fromBE arg, rest')
        | none => none

mutual
/-- Canonical encoding (definite lengths, shortest heads; map entries in the order given). -/
def Cbor.encode : Cbor → Bytes
  | .uint n => head 0 n
  | .nint n => head 1 n
  | .bytes b => head 2 b.length ++ b
  | .text b => head 3 b.length ++ b
  | .array xs => head 4 xs.length ++ encodeList xs
  | .map kvs => head 5 kvs.length ++ encodePairs kvs
  | .tag t v => head 6 t ++ v.encode
  | .simple n => head 7 n
def encodeList : List Cbor → Bytes
  | [] => []
  | x :: xs => x.encode ++ encodeList xs
def encodePairs : List (Cbor × Cbor) → Bytes
  | [] => []
  | (k, v) :: kvs => k.encode ++ (v.encode ++ encodePairs kvs)
end

mutual
/-- Decode one data item from the front of `bs` (fuel bounds the recursion; `2 * bs.length`
always suffices, see `decodeAll`). -/
def decode : Nat → Bytes → Option (Cbor × Bytes)
  | 0, _ => none
  | fuel + 1, bs =>
    match decodeHead bs with
    | none => none
    | some (major, ai, n, rest) =>
      if major = 0 then some (.uint n, rest)
      else if major = 1 then some (.nint n, rest)
      else if major = 2 then
        match takeN n rest with
        | some (s, r) => some (.bytes s, r)
        | none => none
      else if major = 3 then
        match takeN n rest with
        | some (s, r) => some (.text s, r)
        | none => none
      else if major = 4 then
        match decodeList fuel n rest with
        | some (xs, r) => some (.array xs, r)
        | none => none
      else if major = 5 then
        match decodePairs fuel n rest with
        | some (kvs, r) => some (.map kvs, r)
        | none => none
      else if major = 6 then
        match decode fuel rest with
        | some (v, r) => some (.tag n v, r)
        | none => none
      else
        -- major 7: simple values 0..23 only; the one-byte extension (24), floats (25..27) are rejected
        if ai < 24 then some (.simple n, rest) else none
def decodeList : Nat → Nat → Bytes → Option (List Cbor × Bytes)
  | _, 0, bs => some ([], bs)
  | 0, _ + 1, _ => none
  | fuel + 1, k + 1, bs =>
    match decode fuel bs with
    | none => none
    | some (x, r) =>
      match decodeList fuel k r with
      | none => none
      | some (xs, r') => some (x :: xs, r')
def decodePairs : Nat → Nat → Bytes → Option (List (Cbor × Cbor) × Bytes)
  | _, 0, bs => some ([], bs)
  | 0, _ + 1, _ => none
  | fuel + 1, k + 1, bs =>
    match decode fuel bs with
    | none => none
    | some (key, r) =>
      match decode fuel r with
      | none => none
      | some (v, r') =>
        match decodePairs fuel k r' with
        | none => none
        | some (kvs, r'') => some ((key, v) :: kvs, r'')
end

/-- `decMode.UnmarshalFirst`: the first data item and the remaining bytes. -/
def decodeFirst (bs : Bytes) : Option (Cbor × Bytes) := decode (2 * bs.length) bs

/-- `decMode.Unmarshal`: exactly one data item, no trailing bytes. -/
def decodeAll (bs : Bytes) : Option Cbor :=
  match decodeFirst bs with
  | some (v, []) => some v
  | _ => none

mutual
/-- Values the canonical encoder can emit: every argument fits 64 bits, simple values are < 24. -/
def Cbor.wf : Cbor → Bool
  | .uint n => n < 18446744073709551616
  | .nint n => n < 18446744073709551616
  | .bytes b => b.length < 18446744073709551616
  | .text b => b.length < 18446744073709551616
  | .array xs => xs.length < 18446744073709551616 && wfList xs
  | .map kvs => kvs.length < 18446744073709551616 && wfPairs kvs
  | .tag t v => t < 18446744073709551616 && v.wf
  | .simple n => n < 24
def wfList : List Cbor → Bool
  | [] => true
  | x :: xs => x.wf && wfList xs
def wfPairs : List (Cbor × Cbor) → Bool
  | [] => true
  | (k, v) :: kvs => k.wf && (v.wf && wfPairs kvs)
end

mutual
/-- Fuel that `decode` needs for the encoding of a value. -/
def Cbor.size : Cbor → Nat
  | .uint _ => 1
  | .nint _ => 1
  | .bytes _ => 1
  | .text _ => 1
  | .array xs => 1 + sizeList xs
  | .map kvs => 1 + sizePairs kvs
  | .tag _ v => 1 + v.size
  | .simple _ => 1
def sizeList : List Cbor → Nat
  | [] => 0
  | x :: xs => 1 + (x.size + sizeList xs)
def sizePairs : List (Cbor × Cbor) → Nat
  | [] => 0
  | (k, v) :: kvs => 1 + (k.size + (v.size + sizePairs kvs))
end

-- Structural equality on data items (used by the driver and by map-key lookup).
mutual
def Cbor.beq : Cbor → Cbor → Bool
  | .uint a, .uint b => a == b
  | .nint a, .nint b => a == b
  | .bytes a, .bytes b => a == b
  | .text a, .text b => a == b
  | .array a, .array b => beqList a b
  | .map a, .map b => beqPairs a b
  | .tag s a, .tag t b => s == t && a.beq b
  | .simple a, .simple b => a == b
  | _, _ => false
def beqList : List Cbor → List Cbor → Bool
  | [], [] => true
  | x :: xs, y :: ys => x.beq y && beqList xs ys
  | _, _ => false
def beqPairs : List (Cbor × Cbor) → List (Cbor × Cbor) → Bool
  | [], [] => true
  | (k, v) :: xs, (k', v') :: ys => k.beq k' && (v.beq v' && beqPairs xs ys)
  | _, _ => false
end

/-! ### Decoder resource limits

The real decoder is the decoder above restricted to items within `DecOptions.MaxArrayElements`,
`MaxMapPairs` and `MaxNestedLevels` (encoder/encoder.go; library defaults 131072 / 131072 / 32).
The encoder has no such limits. -/

structure DecLimits where
  maxArray : Nat
  maxMap : Nat
  maxNest : Nat
  deriving Repr, DecidableEq

mutual
/-- `rem` = nesting levels still allowed; arrays, maps and tags each use one. -/
def Cbor.within (l : DecLimits) : Cbor → Nat → Bool
  | .array xs, rem => decide (0 < rem) && decide (xs.length ≤ l.maxArray) && withinList l xs (rem - 1)
  | .map kvs, rem => decide (0 < rem) && decide (kvs.length ≤ l.maxMap) && withinPairs l kvs (rem - 1)
  | .tag _ v, rem => decide (0 < rem) && v.within l (rem - 1)
  | _, _ => true
def withinList (l : DecLimits) : List Cbor → Nat → Bool
  | [], _ => true
  | x :: xs, rem => x.within l rem && withinList l xs rem
def withinPairs (l : DecLimits) : List (Cbor × Cbor) → Nat → Bool
  | [], _ => true
  | (k, v) :: kvs, rem => k.within l rem && (v.within l rem && withinPairs l kvs rem)
end

/-- `decMode.Unmarshal` with its limits. -/
def decodeAllLimited (l : DecLimits) (bs : Bytes) : Option Cbor :=
  match decodeAll bs with
  | some c => if c.within l l.maxNest then some c else none
  | none => none

end Juno.C07
