import JunoModel.C07.ModelAccess
import JunoModel.C07.Proofs
import JunoModel.C07.SpecVal
/-! C07 — helper lemmas, part 3: typed values, struct tables, projections. -/
namespace Juno.C07

/-! ### structural equality test on types (sound) -/
mutual
def GoType.beq : GoType → GoType → Bool
  | .uint a, .uint b => a == b
  | .bool, .bool => true
  | .str, .str => true
  | .bytes, .bytes => true
  | .felt, .felt => true
  | .raw, .raw => true
  | .ptr a, .ptr b => a.beq b
  | .slice a, .slice b => a.beq b
  | .map k v, .map k' v' => k.beq k' && v.beq v'
  | .struct fs, .struct gs => beqFields fs gs
  | .iface as, .iface bs => beqAlts as bs
  | .discard, .discard => true
  | _, _ => false
def beqFields : List (Bytes × Bool × GoType) → List (Bytes × Bool × GoType) → Bool
  | [], [] => true
  | (k, o, t) :: fs, (k', o', t') :: gs => k == k' && o == o' && t.beq t' && beqFields fs gs
  | _, _ => false
def beqAlts : List (Nat × GoType) → List (Nat × GoType) → Bool
  | [], [] => true
  | (n, t) :: as, (n', t') :: bs => n == n' && t.beq t' && beqAlts as bs
  | _, _ => false
end

mutual
theorem GoType.beq_sound : ∀ (a b : GoType), a.beq b = true → a = b
  | .uint a, b, h => by cases b <;> simp_all [GoType.beq]
  | .bool, b, h => by cases b <;> simp_all [GoType.beq]
  | .str, b, h => by cases b <;> simp_all [GoType.beq]
  | .bytes, b, h => by cases b <;> simp_all [GoType.beq]
  | .felt, b, h => by cases b <;> simp_all [GoType.beq]
  | .raw, b, h => by cases b <;> simp_all [GoType.beq]
  | .discard, b, h => by cases b <;> simp_all [GoType.beq]
  | .ptr a, b, h => by
    cases b <;> simp [GoType.beq] at h
    rw [GoType.beq_sound a _ h]
  | .slice a, b, h => by
    cases b <;> simp [GoType.beq] at h
    rw [GoType.beq_sound a _ h]
  | .map k v, b, h => by
    cases b <;> simp [GoType.beq] at h
    rw [GoType.beq_sound k _ h.1, GoType.beq_sound v _ h.2]
  | .struct fs, b, h => by
    cases b <;> simp [GoType.beq] at h
    rw [beqFields_sound fs _ h]
  | .iface as, b, h => by
    cases b <;> simp [GoType.beq] at h
    rw [beqAlts_sound as _ h]
theorem beqFields_sound : ∀ (fs gs : List (Bytes × Bool × GoType)), beqFields fs gs = true → fs = gs
  | [], gs, h => by cases gs <;> simp_all [beqFields]
  | (k, o, t) :: fs, gs, h => by
    cases gs with
    | nil => simp [beqFields] at h
    | cons g gs =>
      obtain ⟨k', o', t'⟩ := g
      simp [beqFields] at h
      obtain ⟨⟨⟨h1, h2⟩, h3⟩, h4⟩ := h
      rw [h1, h2, GoType.beq_sound t t' h3, beqFields_sound fs gs h4]
theorem beqAlts_sound : ∀ (as bs : List (Nat × GoType)), beqAlts as bs = true → as = bs
  | [], bs, h => by cases bs <;> simp_all [beqAlts]
  | (n, t) :: as, bs, h => by
    cases bs with
    | nil => simp [beqAlts] at h
    | cons b bs =>
      obtain ⟨n', t'⟩ := b
      simp [beqAlts] at h
      obtain ⟨⟨h1, h2⟩, h3⟩ := h
      rw [h1, GoType.beq_sound t t' h2, beqAlts_sound as bs h3]
end


abbrev Fields := List (Bytes × Bool × GoType)

/-- Type of the first field named `key`. -/
def fieldType (key : Bytes) : Fields → Option GoType
  | [] => none
  | (k, _, t) :: fs => if k == key then some t else fieldType key fs

/-- What a field named `key` of type `ty` decodes to: depends only on key, type and record. -/
def decodeKT (cfg : DecCfg) (kvs : List (Cbor × Cbor)) (key : Bytes) (ty : GoType) : Option GoVal :=
  match mapLookup (.text key) kvs with
  | some c => decodeVal cfg ty c
  | none => some (zeroVal ty)

theorem decodeFields_cons_some (cfg : DecCfg) (key : Bytes) (om : Bool) (t : GoType) (fs : Fields)
    (kvs : List (Cbor × Cbor)) (ws : List GoVal) :
    decodeFields cfg ((key, om, t) :: fs) kvs = some ws ↔
      ∃ v vs, ws = v :: vs ∧ decodeKT cfg kvs key t = some v ∧ decodeFields cfg fs kvs = some vs := by
  simp only [decodeFields, decodeKT]
  constructor
  · intro h
    cases hl : mapLookup (Cbor.text key) kvs <;> simp [hl] at h ⊢ <;>
      (split at h
       · rename_i v vs h1 h2
         simp at h
         simp_all
       · simp at h)
  · rintro ⟨v, vs, rfl, h1, h2⟩
    cases hl : mapLookup (Cbor.text key) kvs <;> simp [hl] at h1 ⊢ <;> simp [h1, h2]

theorem decodeFields_nil (cfg : DecCfg) (kvs : List (Cbor × Cbor)) : decodeFields cfg [] kvs = some [] := by
  simp [decodeFields]

/-- The value of a field in the decoded struct is `decodeKT` of its key and type. -/
theorem getField_decodeFields (cfg : DecCfg) (kvs : List (Cbor × Cbor)) (key : Bytes) (ty : GoType) :
    ∀ (fs : Fields) (vs : List GoVal), decodeFields cfg fs kvs = some vs → fieldType key fs = some ty →
      ∃ v, decodeKT cfg kvs key ty = some v ∧ getField (.struct fs) key (.struct vs) = some v
  | [], _, _, h => by simp [fieldType] at h
  | (k, om, t) :: fs, ws, hd, hf => by
    obtain ⟨v, vs, rfl, h1, h2⟩ := (decodeFields_cons_some cfg k om t fs kvs ws).mp hd
    by_cases hk : k = key
    · subst hk
      simp [fieldType] at hf
      subst hf
      exact ⟨v, h1, by simp [getField, fieldIndex]⟩
    · have hk' : (k == key) = false := by simpa using hk
      simp only [fieldType, hk'] at hf
      obtain ⟨v', h3, h4⟩ := getField_decodeFields cfg kvs key ty fs vs h2 hf
      refine ⟨v', h3, ?_⟩
      simp only [getField, fieldIndex, hk'] at h4 ⊢
      cases hi : fieldIndex key fs with
      | none => simp [hi] at h4
      | some i => simp [hi] at h4 ⊢; exact h4

/-- **Agreement.** Two struct types decoding the same record agree on every key they both give
the same type — whatever else they contain (discarded fields, other keys, other order). -/
theorem decodeFields_agree (cfg : DecCfg) (kvs : List (Cbor × Cbor)) (ts ps : Fields) (vs ws : List GoVal)
    (key : Bytes) (ty : GoType)
    (hT : decodeFields cfg ts kvs = some vs) (hP : decodeFields cfg ps kvs = some ws)
    (h1 : fieldType key ts = some ty) (h2 : fieldType key ps = some ty) :
    getField (.struct ps) key (.struct ws) = getField (.struct ts) key (.struct vs) := by
  obtain ⟨v, a1, a2⟩ := getField_decodeFields cfg kvs key ty ts vs hT h1
  obtain ⟨v', b1, b2⟩ := getField_decodeFields cfg kvs key ty ps ws hP h2
  rw [a1] at b1
  cases b1
  rw [a2, b2]

/-- Every field of `ps` is discarded or is a field of `ts` with the same type. -/
def projOK (ts : Fields) : Fields → Bool
  | [] => true
  | (k, _, t) :: ps =>
    (match t with
     | .discard => true
     | t => match fieldType k ts with
            | some t' => t.beq t'
            | none => false) && projOK ts ps

theorem decodeVal_discard (cfg : DecCfg) (c : Cbor) : decodeVal cfg .discard c = some .unit := by
  simp [decodeVal]

theorem decodeKT_discard (cfg : DecCfg) (kvs : List (Cbor × Cbor)) (key : Bytes) :
    decodeKT cfg kvs key .discard = some .unit := by
  unfold decodeKT
  split <;> simp [decodeVal, zeroVal]

/-- **Success.** Where the full decoder accepts a record, a projection of it accepts it too. -/
theorem decodeFields_proj_succeeds (cfg : DecCfg) (kvs : List (Cbor × Cbor)) (ts : Fields) (vs : List GoVal)
    (hT : decodeFields cfg ts kvs = some vs) :
    ∀ (ps : Fields), projOK ts ps = true → ∃ ws, decodeFields cfg ps kvs = some ws
  | [], _ => ⟨[], decodeFields_nil cfg kvs⟩
  | (k, om, t) :: ps, h => by
    simp only [projOK, Bool.and_eq_true] at h
    obtain ⟨ws, hws⟩ := decodeFields_proj_succeeds cfg kvs ts vs hT ps h.2
    have : ∃ v, decodeKT cfg kvs k t = some v := by
      cases t with
      | discard => exact ⟨_, decodeKT_discard cfg kvs k⟩
      | _ =>
        all_goals
          simp only at h
          split at h
          · rename_i t' ht'
            have := GoType.beq_sound _ _ h.1
            subst this
            obtain ⟨v, hv, _⟩ := getField_decodeFields cfg kvs k _ ts vs hT ht'
            exact ⟨v, hv⟩
          · simp at h
    obtain ⟨v, hv⟩ := this
    exact ⟨v :: ws, (decodeFields_cons_some cfg k om t ps kvs _).mpr ⟨v, ws, rfl, hv, hws⟩⟩


/-- null (and undefined) leave the zero value, for every type. -/
theorem decodeVal_null (cfg : DecCfg) (t : GoType) : decodeVal cfg t (.simple 22) = some (zeroVal t) := by
  cases t <;> simp [decodeVal, zeroVal, Cbor.null]

theorem getField_zeroFields (key : Bytes) (ty : GoType) : ∀ (fs : Fields), fieldType key fs = some ty →
    getField (.struct fs) key (.struct (zeroFields fs)) = some (zeroVal ty)
  | [], h => by simp [fieldType] at h
  | (k, om, t) :: fs, h => by
    by_cases hk : k = key
    · subst hk
      simp [fieldType] at h
      subst h
      simp [getField, fieldIndex, zeroFields]
    · have hk' : (k == key) = false := by simpa using hk
      simp only [fieldType, hk'] at h
      have ih := getField_zeroFields key ty fs h
      simp only [getField, fieldIndex, hk', zeroFields] at ih ⊢
      cases hi : fieldIndex key fs with
      | none => simp [hi] at ih
      | some i => simp [hi] at ih ⊢; exact ih

theorem stripTags_map (kvs : List (Cbor × Cbor)) : stripTags (.map kvs) = .map kvs := by simp [stripTags]
theorem stripTags_simple (n : Nat) : stripTags (.simple n) = .simple n := by simp [stripTags]

/-- **Partial decoder = full decoder, on every record the full decoder accepts** (not only on
records the encoder wrote): the field the projection materialises is the field of the full
result, provided both tables give that key the same type and every other field of the projection
is a discard or also a field of the full type. -/
theorem projField_agrees (cfg : DecCfg) (ts ps : Fields) (hok : projOK ts ps = true) (key : Bytes) (ty : GoType)
    (h1 : fieldType key ts = some ty) (h2 : fieldType key ps = some ty)
    (bs : Bytes) (hv : GoVal) (h : unmarshalVal cfg (.struct ts) bs = some hv) :
    projField cfg (.struct ps) key bs = getField (.struct ts) key hv := by
  unfold unmarshalVal at h
  unfold projField
  cases hc : decodeAll bs with
  | none => simp [hc] at h
  | some c =>
    simp only [hc] at h ⊢
    cases c with
    | map kvs =>
      simp only [stripTags_map]
      simp only [decodeVal] at h ⊢
      cases hT : decodeFields cfg ts kvs with
      | none => simp [hT] at h
      | some vs =>
        simp [hT] at h
        subst h
        obtain ⟨ws, hP⟩ := decodeFields_proj_succeeds cfg kvs ts vs hT ps hok
        simp only [hP, Option.map_some]
        exact decodeFields_agree cfg kvs ts ps vs ws key ty hT hP h1 h2
    | simple n =>
      simp only [stripTags_simple]
      by_cases h22 : n = 22
      · subst h22
        rw [decodeVal_null] at h ⊢
        simp at h; subst h
        simp only [zeroVal]
        rw [getField_zeroFields key ty ps h2, getField_zeroFields key ty ts h1]
      · by_cases h23 : n = 23
        · subst h23
          simp [decodeVal] at h ⊢
          subst h
          rw [getField_zeroFields key ty ps h2, getField_zeroFields key ty ts h1]
        · simp [decodeVal] at h
          split at h <;> simp_all
    | uint n => simp [decodeVal] at h
    | nint n => simp [decodeVal] at h
    | bytes b => simp [decodeVal] at h
    | text b => simp [decodeVal] at h
    | array xs => simp [decodeVal] at h
    | tag t v => simp [decodeVal] at h


def fieldsOf : GoType → Fields
  | .struct fs => fs
  | _ => []




/-! ### lookups in association lists with text keys -/

theorem beq_text (a b : Bytes) : (Cbor.text a).beq (Cbor.text b) = (a == b) := by simp [Cbor.beq]

theorem mapLookup_cons_text (k k' : Bytes) (c : Cbor) (es : List (Cbor × Cbor)) :
    mapLookup (.text k) ((.text k', c) :: es) = if k' == k then some c else mapLookup (.text k) es := by
  simp [mapLookup, beq_text]

theorem mapLookup_append_none (k : Cbor) : ∀ (pre es : List (Cbor × Cbor)), mapLookup k pre = none →
    mapLookup k (pre ++ es) = mapLookup k es
  | [], _, _ => rfl
  | (k', v) :: pre, es, h => by
    simp only [mapLookup, List.cons_append] at h ⊢
    split at h
    · simp at h
    · rename_i hk
      simp only [hk]
      exact mapLookup_append_none k pre es h

theorem mapLookup_append_single_none (k k' : Bytes) (c : Cbor) (pre : List (Cbor × Cbor))
    (h : mapLookup (.text k) pre = none) (hne : (k' == k) = false) :
    mapLookup (.text k) (pre ++ [(.text k', c)]) = none := by
  rw [mapLookup_append_none _ _ _ h, mapLookup_cons_text, hne]
  simp [mapLookup]

/-! ### list helpers -/

theorem mapOpt_roundtrip {α β : Type} (f : α → Option β) (g : β → Option α) :
    ∀ (xs : List α), (∀ x ∈ xs, ∃ c, f x = some c ∧ g c = some x) →
      ∃ cs, mapOpt f xs = some cs ∧ mapOpt g cs = some xs
  | [], _ => ⟨[], rfl, rfl⟩
  | x :: xs, h => by
    obtain ⟨c, h1, h2⟩ := h x (List.mem_cons_self ..)
    obtain ⟨cs, h3, h4⟩ := mapOpt_roundtrip f g xs (fun y hy => h y (List.mem_cons_of_mem _ hy))
    exact ⟨c :: cs, by simp [mapOpt, h1, h3], by simp [mapOpt, h2, h4]⟩

theorem allB_mem {α : Type} (p : α → Bool) : ∀ (xs : List α), allB p xs = true → ∀ x ∈ xs, p x = true
  | [], _, _, hx => by simp at hx
  | y :: ys, h, x, hx => by
    simp [allB] at h
    rcases List.mem_cons.mp hx with rfl | hx'
    · exact h.1
    · exact allB_mem p ys h.2 x hx'




theorem bytesLt_irrefl : ∀ (a : Bytes), bytesLt a a = false
  | [] => rfl
  | x :: xs => by simp [bytesLt, bytesLt_irrefl xs]

theorem keyLt_irrefl (a : Bytes) : keyLt a a = false := by simp [keyLt, bytesLt_irrefl]

theorem keyLt_ne (a b : Bytes) (h : keyLt a b = true) : (a == b) = false := by
  cases hab : a == b with
  | false => rfl
  | true =>
    have : a = b := by simpa using hab
    subst this
    rw [keyLt_irrefl] at h
    cases h

/-- Sorting entries that are already in key order changes nothing. -/
theorem sortEntries_sorted : ∀ (es : List (Cbor × Cbor)), strictlySorted (es.map (fun e => e.1.encode)) = true →
    sortEntries es = es
  | [], _ => rfl
  | [e], _ => by simp [sortEntries, insertEntry]
  | e :: e' :: es, h => by
    simp only [List.map_cons, strictlySorted, Bool.and_eq_true] at h
    have ih := sortEntries_sorted (e' :: es) (by simpa [strictlySorted] using h.2)
    rw [sortEntries, ih]
    simp [insertEntry, h.1]

/-- Building a map from entries that are already strictly increasing keeps them all, in order. -/
theorem foldr_insertIfAbsent_sorted : ∀ (xs : List (Bytes × GoVal × GoVal)), strictlySorted (xs.map (·.1)) = true →
    xs.foldr (fun x acc => insertIfAbsent x.1 x.2 acc) [] = xs
  | [], _ => rfl
  | [x], _ => by simp [insertIfAbsent]
  | x :: x' :: xs, h => by
    simp only [List.map_cons, strictlySorted, Bool.and_eq_true] at h
    have ih := foldr_insertIfAbsent_sorted (x' :: xs) (by simpa [strictlySorted] using h.2)
    rw [List.foldr_cons, ih]
    simp [insertIfAbsent, keyLt_ne _ _ h.1, h.1]

theorem mapOpt2_roundtrip {α β γ δ : Type} (f : α → Option γ) (g : β → Option δ) (f' : γ → Option α) (g' : δ → Option β) :
    ∀ (xs : List (α × β)), (∀ x ∈ xs, (∃ c, f x.1 = some c ∧ f' c = some x.1) ∧ (∃ d, g x.2 = some d ∧ g' d = some x.2)) →
      ∃ cs, mapOpt2 f g xs = some cs ∧ mapOpt2 f' g' cs = some xs ∧
        cs.map (fun e => some e.1) = xs.map (fun e => f e.1)
  | [], _ => ⟨[], rfl, rfl, rfl⟩
  | (a, b) :: xs, h => by
    obtain ⟨⟨c, h1, h2⟩, ⟨d, h3, h4⟩⟩ := h (a, b) (List.mem_cons_self ..)
    obtain ⟨cs, h5, h6, h7⟩ := mapOpt2_roundtrip f g f' g' xs (fun y hy => h y (List.mem_cons_of_mem _ hy))
    refine ⟨(c, d) :: cs, by simp [mapOpt2, h1, h3, h5], by simp [mapOpt2, h2, h4, h6], ?_⟩
    simp at h1
    simp [h1, h7]




theorem encodeVal_nonNull (t : GoType) (v : GoVal) (c : Cbor) (hn : nonNull t = true) (h : encodeVal t v = some c) :
    c ≠ .simple 22 ∧ c ≠ .simple 23 := by
  cases t <;> simp [nonNull] at hn <;> cases v <;> simp [encodeVal] at h
  · obtain ⟨_, rfl⟩ := h; simp
  · subst h; rename_i b; cases b <;> simp [Cbor.bool]
  · subst h; simp
  · obtain ⟨_, rfl⟩ := h; simp
  · obtain ⟨es, _, rfl⟩ := h; simp

theorem decodeVal_ptr_nonNull (cfg : DecCfg) (t : GoType) (c : Cbor) (h1 : c ≠ .simple 22) (h2 : c ≠ .simple 23) :
    decodeVal cfg (.ptr t) c = decodeVal cfg t c := by
  simp only [decodeVal]

theorem encodeVal_ptr_nonNil (t : GoType) (v : GoVal) (h : v ≠ .nil) : encodeVal (.ptr t) v = encodeVal t v := by
  cases v <;> simp_all [encodeVal]

theorem wt_ptr_nonNil (cfg : DecCfg) (t : GoType) (v : GoVal) (h : v ≠ .nil) : wt cfg (.ptr t) v = wt cfg t v := by
  cases v <;> simp_all [wt]




theorem keyAbsent_false_cons (k k' : Bytes) (om : Bool) (t : GoType) (fs : Fields) :
    keyAbsent k ((k', om, t) :: fs) = false ↔ (k' == k) = true ∨ keyAbsent k fs = false := by
  cases h : (k' == k) <;> simp [keyAbsent, h]

mutual
theorem rt_val (cfg : DecCfg) : ∀ (t : GoType) (v : GoVal), okType t = true → wt cfg t v = true →
    ∃ c, encodeVal t v = some c ∧ decodeVal cfg t c = some v
  | .uint bits, v, hok, hw => by
    cases v <;> simp [wt] at hw
    rename_i n
    exact ⟨.uint n, by simp [encodeVal, hw], by simp [decodeVal, hw]⟩
  | .bool, v, hok, hw => by
    cases v <;> simp [wt] at hw
    rename_i b
    cases b
    · exact ⟨.simple 20, by simp [encodeVal, Cbor.bool], by simp [decodeVal]⟩
    · exact ⟨.simple 21, by simp [encodeVal, Cbor.bool], by simp [decodeVal]⟩
  | .str, v, hok, hw => by
    cases v <;> simp [wt] at hw
    rename_i s
    refine ⟨.text s, by simp [encodeVal], ?_⟩
    simp only [decodeVal]
    rcases hw with hw | hw <;> simp [hw]
  | .bytes, v, hok, hw => by
    cases v <;> simp [wt] at hw
    · exact ⟨.null, by simp [encodeVal], by simp [decodeVal, Cbor.null]⟩
    · rename_i b
      exact ⟨.bytes b, by simp [encodeVal], by simp [decodeVal]⟩
  | .felt, v, hok, hw => by
    cases v <;> simp [wt] at hw
    rename_i a b c d
    exact ⟨.array [.uint a, .uint b, .uint c, .uint d], by simp [encodeVal, hw], by simp [decodeVal, hw]⟩
  | .raw, v, hok, hw => by
    cases v <;> simp [wt] at hw
    rename_i c
    exact ⟨c, by simp [encodeVal], by simp [decodeVal]⟩
  | .discard, v, hok, hw => by simp [okType] at hok
  | .ptr t, v, hok, hw => by
    simp only [okType, Bool.and_eq_true] at hok
    by_cases hv : v = .nil
    · subst hv
      exact ⟨.null, by simp [encodeVal], by simp [decodeVal, Cbor.null]⟩
    · rw [wt_ptr_nonNil cfg t v hv] at hw
      obtain ⟨c, h1, h2⟩ := rt_val cfg t v hok.2 hw
      have hnn := encodeVal_nonNull t v c hok.1 h1
      exact ⟨c, by rw [encodeVal_ptr_nonNil t v hv, h1], by rw [decodeVal_ptr_nonNull cfg t c hnn.1 hnn.2, h2]⟩
  | .slice t, v, hok, hw => by
    simp only [okType] at hok
    cases v <;> simp [wt] at hw
    · exact ⟨.null, by simp [encodeVal], by simp [decodeVal, Cbor.null]⟩
    · rename_i xs
      have hall := allB_mem _ xs hw
      obtain ⟨cs, h1, h2⟩ := mapOpt_roundtrip (encodeVal t) (decodeVal cfg t) xs
        (fun x hx => rt_val cfg t x hok (hall x hx))
      exact ⟨.array cs, by simp [encodeVal, h1], by simp [decodeVal, h2]⟩
  | .map k v, x, hok, hw => by
    simp only [okType, Bool.and_eq_true] at hok
    cases x <;> simp [wt] at hw
    · exact ⟨.null, by simp [encodeVal], by simp [decodeVal, Cbor.null]⟩
    · rename_i kvs
      have hall := allB_mem _ kvs hw.1
      obtain ⟨es, h1, h2, h3⟩ := mapOpt2_roundtrip (encodeVal k) (encodeVal v) (decodeVal cfg k) (decodeVal cfg v) kvs
        (fun e he => by
          have := hall e he
          simp only [Bool.and_eq_true] at this
          exact ⟨rt_val cfg k e.1 hok.1 this.1, rt_val cfg v e.2 hok.2 this.2⟩)
      -- encoded keys of `es` are the encoded keys of `kvs`
      have hkeys : es.map (fun e => e.1.encode) = kvs.map (encKey k) := by
        have : ∀ (es : List (Cbor × Cbor)) (kvs : List (GoVal × GoVal)),
            es.map (fun e => some e.1) = kvs.map (fun e => encodeVal k e.1) →
            es.map (fun e => e.1.encode) = kvs.map (encKey k) := by
          intro es
          induction es with
          | nil => intro kvs h; cases kvs <;> simp_all
          | cons e es ih =>
            intro kvs h
            cases kvs with
            | nil => simp at h
            | cons kv kvs =>
              simp only [List.map_cons, List.cons.injEq] at h ⊢
              exact ⟨by simp [encKey, ← h.1], ih kvs h.2⟩
        exact this es kvs h3
      have hsorted : sortEntries es = es := sortEntries_sorted es (by rw [hkeys]; exact hw.2)
      refine ⟨.map es, by simp [encodeVal, h1, hsorted], ?_⟩
      simp only [decodeVal, h2]
      -- re-encoding the decoded keys succeeds and tags every entry with its encoded key
      have htag : mapOpt (fun (e : GoVal × GoVal) => (encodeVal k e.1).map (fun ck => (ck.encode, e))) kvs =
          some (kvs.map (fun e => (encKey k e, e))) := by
        have : ∀ (l : List (GoVal × GoVal)), (∀ e ∈ l, ∃ c, encodeVal k e.1 = some c) →
            mapOpt (fun (e : GoVal × GoVal) => (encodeVal k e.1).map (fun ck => (ck.encode, e))) l =
              some (l.map (fun e => (encKey k e, e))) := by
          intro l
          induction l with
          | nil => intro _; rfl
          | cons e l ih =>
            intro h
            obtain ⟨c, hc⟩ := h e (List.mem_cons_self ..)
            have := ih (fun y hy => h y (List.mem_cons_of_mem _ hy))
            simp [mapOpt, hc, this, encKey]
        apply this
        intro e he
        have := hall e he
        simp only [Bool.and_eq_true] at this
        obtain ⟨c, hc, _⟩ := rt_val cfg k e.1 hok.1 this.1
        exact ⟨c, hc⟩
      simp only [htag]
      rw [foldr_insertIfAbsent_sorted _ (by simpa [List.map_map, Function.comp_def] using hw.2)]
      simp [List.map_map, Function.comp_def]
  | .struct fs, v, hok, hw => by
    simp only [okType, Bool.and_eq_true] at hok
    cases v <;> simp [wt] at hw
    rename_i vs
    obtain ⟨es, h1, _, h3⟩ := rt_fields cfg fs vs hok.2 hok.1 hw
    refine ⟨.map es, by simp [encodeVal, h1], ?_⟩
    have := h3 [] (fun _ _ => rfl)
    simp only [List.nil_append] at this
    simp [decodeVal, this]
  | .iface alts, v, hok, hw => by
    simp only [okType, Bool.and_eq_true] at hok
    cases v <;> simp [wt] at hw
    · exact ⟨.null, by simp [encodeVal], by simp [decodeVal, Cbor.null]⟩
    · rename_i i x
      obtain ⟨tg, inner, h1, _, h3⟩ := rt_alts cfg alts i x hok.2 hok.1 hw
      refine ⟨.tag tg inner, by simp [encodeVal, h1], ?_⟩
      have := h3 0
      simp only [Nat.zero_add] at this
      simp [decodeVal, this]
theorem rt_fields (cfg : DecCfg) : ∀ (fs : Fields) (vs : List GoVal), okFields fs = true → keysDistinct fs = true →
    wtFields cfg fs vs = true →
    ∃ es, encodeFields fs vs = some es ∧
      (∀ k, keyAbsent k fs = true → mapLookup (.text k) es = none) ∧
      (∀ pre, (∀ k, keyAbsent k fs = false → mapLookup (.text k) pre = none) →
        decodeFields cfg fs (pre ++ es) = some vs)
  | [], vs, _, _, hw => by
    cases vs <;> simp [wtFields] at hw
    exact ⟨[], by simp [encodeFields], fun _ _ => rfl, fun pre _ => by simp [decodeFields]⟩
  | (key, om, t) :: fs, vs, hok, hd, hw => by
    cases vs with
    | nil => simp [wtFields] at hw
    | cons v vs =>
      simp only [okFields, Bool.and_eq_true] at hok
      simp only [keysDistinct, Bool.and_eq_true] at hd
      simp only [wtFields, Bool.and_eq_true] at hw
      obtain ⟨c, hc1, hc2⟩ := rt_val cfg t v hok.1.2 hw.1.1
      obtain ⟨es, he1, he2, he3⟩ := rt_fields cfg fs vs hok.2 hd.2 hw.2
      by_cases hom : (om && v.isEmpty) = true
      · -- field omitted: the decoder leaves the zero value, which is what was stored (nil)
        have hvnil : v = .nil := by
          have := hw.1.2
          simp [hom] at this
          cases v <;> simp_all
        have hz : zeroVal t = .nil := by
          have h1 := hok.1.1.1
          simp only [Bool.and_eq_true] at hom
          simp [hom.1] at h1
          cases t <;> simp_all [nilZero, zeroVal]
        refine ⟨es, by simp [encodeFields, hc1, he1, hom], ?_, ?_⟩
        · intro k hk
          simp only [keyAbsent, Bool.and_eq_true] at hk
          exact he2 k hk.2
        · intro pre hpre
          apply (decodeFields_cons_some cfg key om t fs (pre ++ es) (v :: vs)).mpr
          refine ⟨v, vs, rfl, ?_, ?_⟩
          · have h1 : mapLookup (.text key) pre = none := hpre key (by simp [keyAbsent])
            rw [decodeKT, mapLookup_append_none _ _ _ h1, he2 key hd.1]
            simp [hz, hvnil]
          · exact he3 pre (fun k hk => hpre k ((keyAbsent_false_cons k key om t fs).mpr (Or.inr hk)))
      · have hom' : (om && v.isEmpty) = false := by simpa using hom
        refine ⟨(.text key, c) :: es, by simp [encodeFields, hc1, he1, hom'], ?_, ?_⟩
        · intro k hk
          simp only [keyAbsent, Bool.and_eq_true, Bool.not_eq_true'] at hk
          rw [mapLookup_cons_text, hk.1]
          exact he2 k hk.2
        · intro pre hpre
          apply (decodeFields_cons_some cfg key om t fs _ (v :: vs)).mpr
          refine ⟨v, vs, rfl, ?_, ?_⟩
          · have h1 : mapLookup (.text key) pre = none := hpre key (by simp [keyAbsent])
            rw [decodeKT, mapLookup_append_none _ _ _ h1, mapLookup_cons_text]
            simp [hc2]
          · have : pre ++ (Cbor.text key, c) :: es = (pre ++ [(Cbor.text key, c)]) ++ es := by simp
            rw [this]
            apply he3
            intro k hk
            have hk1 : mapLookup (.text k) pre = none :=
              hpre k ((keyAbsent_false_cons k key om t fs).mpr (Or.inr hk))
            apply mapLookup_append_single_none k key c pre hk1
            -- key ≠ k because key is absent from fs while k is present
            cases hkk : key == k with
            | false => rfl
            | true =>
              have : key = k := by simpa using hkk
              subst this
              rw [hd.1] at hk
              cases hk
theorem rt_alts (cfg : DecCfg) : ∀ (alts : List (Nat × GoType)) (i : Nat) (v : GoVal), okAlts alts = true →
    tagsDistinct alts = true → wtAlt cfg alts i v = true →
    ∃ tg inner, encodeAlt alts i v = some (.tag tg inner) ∧ tagAbsent tg alts = false ∧
      ∀ j, decodeAlt cfg alts j tg inner = some (.iface (j + i) v)
  | [], i, v, _, _, hw => by simp [wtAlt] at hw
  | (tag, t) :: alts, 0, v, hok, hd, hw => by
    simp only [okAlts, Bool.and_eq_true] at hok
    simp only [wtAlt] at hw
    obtain ⟨c, h1, h2⟩ := rt_val cfg t v hok.1.2 hw
    exact ⟨tag, c, by simp [encodeAlt, h1], by simp [tagAbsent], fun j => by simp [decodeAlt, h2]⟩
  | (tag, t) :: alts, i + 1, v, hok, hd, hw => by
    simp only [okAlts, Bool.and_eq_true] at hok
    simp only [tagsDistinct, Bool.and_eq_true] at hd
    simp only [wtAlt] at hw
    obtain ⟨tg, inner, h1, h2, h3⟩ := rt_alts cfg alts i v hok.2 hd.2 hw
    refine ⟨tg, inner, by simp [encodeAlt, h1], by simp [tagAbsent, h2], fun j => ?_⟩
    have hne : tag ≠ tg := by
      intro h
      subst h
      rw [hd.1] at h2
      cases h2
    simp only [decodeAlt, hne, if_false]
    rw [h3 (j + 1)]
    simp [Nat.add_assoc, Nat.add_comm 1 i]
end


/-- Bytes level: `Unmarshal (Marshal v) = v` whenever the encoding respects CBOR's 64-bit limits. -/
theorem rt_bytes (cfg : DecCfg) (t : GoType) (v : GoVal) (hok : okType t = true) (hw : wt cfg t v = true) :
    ∃ c, encodeVal t v = some c ∧ marshalVal t v = some c.encode ∧
      (c.wf = true → unmarshalVal cfg t c.encode = some v) := by
  obtain ⟨c, h1, h2⟩ := rt_val cfg t v hok hw
  refine ⟨c, h1, by simp [marshalVal, h1], fun hwf => ?_⟩
  simp [unmarshalVal, decodeAll_encode c hwf, h2]




theorem decodeVal_undef (cfg : DecCfg) (t : GoType) : ∃ w, decodeVal cfg t (.simple 23) = some w := by
  cases t <;> simp [decodeVal]

/-- nil reads as the zero felt. -/
def feltOrZero : GoVal → GoVal
  | .nil => .felt 0 0 0 0
  | w => w

/-- A pointer-typed field succeeds whenever the value-typed one does, and gives nil or the same value. -/
theorem decodeKT_ptr_of (cfg : DecCfg) (kvs : List (Cbor × Cbor)) (key : Bytes) (t : GoType) (v : GoVal)
    (h : decodeKT cfg kvs key t = some v) :
    decodeKT cfg kvs key (.ptr t) = some .nil ∨ decodeKT cfg kvs key (.ptr t) = some v := by
  unfold decodeKT at h ⊢
  cases hl : mapLookup (Cbor.text key) kvs with
  | none => left; simp [zeroVal]
  | some c =>
    simp only [hl] at h ⊢
    by_cases h22 : c = .simple 22
    · left; subst h22; simp [decodeVal]
    · by_cases h23 : c = .simple 23
      · left; subst h23; simp [decodeVal]
      · right; rw [decodeVal_ptr_nonNull cfg t c h22 h23]; exact h

/-- A value-typed field succeeds whenever the pointer-typed one does. -/
theorem decodeKT_of_ptr (cfg : DecCfg) (kvs : List (Cbor × Cbor)) (key : Bytes) (t : GoType) (v : GoVal)
    (h : decodeKT cfg kvs key (.ptr t) = some v) : ∃ w, decodeKT cfg kvs key t = some w := by
  unfold decodeKT at h ⊢
  cases hl : mapLookup (Cbor.text key) kvs with
  | none => exact ⟨_, rfl⟩
  | some c =>
    simp only [hl] at h ⊢
    by_cases h22 : c = .simple 22
    · subst h22; exact ⟨_, decodeVal_null cfg t⟩
    · by_cases h23 : c = .simple 23
      · subst h23; exact decodeVal_undef cfg t
      · rw [decodeVal_ptr_nonNull cfg t c h22 h23] at h; exact ⟨v, h⟩

/-- `felt` value against `*felt`: nil reads as the zero felt, anything else as itself. -/
theorem decodeKT_felt_of_ptr (cfg : DecCfg) (kvs : List (Cbor × Cbor)) (key : Bytes) (v : GoVal)
    (h : decodeKT cfg kvs key (.ptr .felt) = some v) :
    decodeKT cfg kvs key .felt = some (feltOrZero v) := by
  unfold decodeKT at h ⊢
  cases hl : mapLookup (Cbor.text key) kvs with
  | none => simp [hl, zeroVal] at h ⊢; subst h; rfl
  | some c =>
    simp only [hl] at h ⊢
    by_cases h22 : c = .simple 22
    · subst h22; simp [decodeVal] at h ⊢; subst h; rfl
    · by_cases h23 : c = .simple 23
      · subst h23; simp [decodeVal] at h ⊢; subst h; rfl
      · rw [decodeVal_ptr_nonNull cfg .felt c h22 h23] at h
        rw [h]
        -- a decoded felt is never nil
        have : ∃ a b c' d, v = .felt a b c' d := by
          simp only [decodeVal] at h
          split at h <;> simp_all
          exact ⟨_, _, _, _, h.2.symm⟩
        obtain ⟨a, b, c', d, rfl⟩ := this
        rfl

/-- Projection tables up to pointer-ness: every field of `ps` is a discard, or a field of `ts` with
the same type, or the pointer / pointee version of it. -/
def projOKc (ts : Fields) : Fields → Bool
  | [] => true
  | (k, _, t) :: ps =>
    (match t with
     | .discard => true
     | t => match fieldType k ts with
            | some t' => t.beq t' || t.beq (.ptr t') || (GoType.ptr t).beq t'
            | none => false) && projOKc ts ps

theorem decodeFields_projc_succeeds (cfg : DecCfg) (kvs : List (Cbor × Cbor)) (ts : Fields) (vs : List GoVal)
    (hT : decodeFields cfg ts kvs = some vs) :
    ∀ (ps : Fields), projOKc ts ps = true → ∃ ws, decodeFields cfg ps kvs = some ws
  | [], _ => ⟨[], decodeFields_nil cfg kvs⟩
  | (k, om, t) :: ps, h => by
    simp only [projOKc, Bool.and_eq_true] at h
    obtain ⟨ws, hws⟩ := decodeFields_projc_succeeds cfg kvs ts vs hT ps h.2
    have : ∃ v, decodeKT cfg kvs k t = some v := by
      cases t with
      | discard => exact ⟨_, decodeKT_discard cfg kvs k⟩
      | _ =>
        all_goals
          simp only at h
          split at h
          · rename_i t' ht'
            obtain ⟨v, hv, _⟩ := getField_decodeFields cfg kvs k t' ts vs hT ht'
            have h1 := h.1
            simp only [Bool.or_eq_true] at h1
            rcases h1 with (h1 | h1) | h1
            · have := GoType.beq_sound _ _ h1; subst this; exact ⟨v, hv⟩
            · have := GoType.beq_sound _ _ h1
              rw [this]
              rcases decodeKT_ptr_of cfg kvs k t' v hv with h2 | h2 <;> exact ⟨_, h2⟩
            · have := GoType.beq_sound _ _ h1
              subst this
              exact decodeKT_of_ptr cfg kvs k _ v hv
          · simp at h
    obtain ⟨v, hv⟩ := this
    exact ⟨v :: ws, (decodeFields_cons_some cfg k om t ps kvs _).mpr ⟨v, ws, rfl, hv, hws⟩⟩


/-- A struct decoder only accepts a map or null / undefined; in all three cases tags are absent. -/
theorem stripTags_of_struct (cfg : DecCfg) (fs : Fields) (c : Cbor) (v : GoVal)
    (h : decodeVal cfg (.struct fs) c = some v) : stripTags c = c := by
  cases c <;> simp [decodeVal] at h <;> simp [stripTags]

/-- Decoding a struct type and taking a field, on a data item. -/
def fieldOfItem (cfg : DecCfg) (fs : Fields) (key : Bytes) (c : Cbor) : Option GoVal :=
  match decodeVal cfg (.struct fs) c with
  | some v => getField (.struct fs) key v
  | none => none

theorem decodeVal_struct_cases (cfg : DecCfg) (fs : Fields) (c : Cbor) (v : GoVal)
    (h : decodeVal cfg (.struct fs) c = some v) :
    (∃ kvs vs, c = .map kvs ∧ decodeFields cfg fs kvs = some vs ∧ v = .struct vs) ∨
    ((c = .simple 22 ∨ c = .simple 23) ∧ v = .struct (zeroFields fs)) := by
  cases c with
  | map kvs =>
    left
    simp only [decodeVal] at h
    cases hd : decodeFields cfg fs kvs with
    | none => simp [hd] at h
    | some vs => simp [hd] at h; exact ⟨kvs, vs, rfl, hd, h.symm⟩
  | simple n =>
    right
    by_cases h22 : n = 22
    · subst h22; rw [decodeVal_null] at h; simp [zeroVal] at h; exact ⟨Or.inl rfl, h.symm⟩
    · by_cases h23 : n = 23
      · subst h23; simp [decodeVal] at h; exact ⟨Or.inr rfl, h.symm⟩
      · simp [decodeVal] at h
        split at h <;> simp_all
  | uint n => simp [decodeVal] at h
  | nint n => simp [decodeVal] at h
  | bytes b => simp [decodeVal] at h
  | text b => simp [decodeVal] at h
  | array xs => simp [decodeVal] at h
  | tag t v => simp [decodeVal] at h

theorem decodeVal_struct_zero (cfg : DecCfg) (fs : Fields) (c : Cbor) (h : c = .simple 22 ∨ c = .simple 23) :
    decodeVal cfg (.struct fs) c = some (.struct (zeroFields fs)) := by
  rcases h with rfl | rfl <;> simp [decodeVal]

/-- Pointer-typed projection of a value-typed field (`Timestamp *uint64`): nil (reported as
"missing") or the field of the full result. -/
theorem fieldOfItem_ptr_agrees (cfg : DecCfg) (ts ps : Fields) (hok : projOKc ts ps = true) (key : Bytes) (t : GoType)
    (h1 : fieldType key ts = some t) (h2 : fieldType key ps = some (.ptr t)) (c : Cbor) (hv : GoVal)
    (h : decodeVal cfg (.struct ts) c = some hv) :
    fieldOfItem cfg ps key c = some .nil ∨ fieldOfItem cfg ps key c = getField (.struct ts) key hv := by
  unfold fieldOfItem
  rcases decodeVal_struct_cases cfg ts c hv h with ⟨kvs, vs, rfl, hT, rfl⟩ | ⟨hc, rfl⟩
  · obtain ⟨ws, hP⟩ := decodeFields_projc_succeeds cfg kvs ts vs hT ps hok
    obtain ⟨v, a1, a2⟩ := getField_decodeFields cfg kvs key t ts vs hT h1
    obtain ⟨v', b1, b2⟩ := getField_decodeFields cfg kvs key (.ptr t) ps ws hP h2
    simp only [decodeVal, hP, Option.map_some]
    rw [b2, a2]
    rcases decodeKT_ptr_of cfg kvs key t v a1 with h3 | h3 <;> rw [h3] at b1 <;> cases b1
    · left; rfl
    · right; rfl
  · left
    rw [decodeVal_struct_zero cfg ps c hc]
    simp only
    rw [getField_zeroFields key (.ptr t) ps h2]
    rfl

/-- Value-typed `felt` projection of a `*felt` field (`TransactionHash`): the field of the full
result, nil read as the zero felt. -/
theorem fieldOfItem_felt_agrees (cfg : DecCfg) (ts ps : Fields) (hok : projOKc ts ps = true) (key : Bytes)
    (h1 : fieldType key ts = some (.ptr .felt)) (h2 : fieldType key ps = some .felt) (c : Cbor) (hv : GoVal)
    (h : decodeVal cfg (.struct ts) c = some hv) :
    fieldOfItem cfg ps key c = (getField (.struct ts) key hv).map feltOrZero := by
  unfold fieldOfItem
  rcases decodeVal_struct_cases cfg ts c hv h with ⟨kvs, vs, rfl, hT, rfl⟩ | ⟨hc, rfl⟩
  · obtain ⟨ws, hP⟩ := decodeFields_projc_succeeds cfg kvs ts vs hT ps hok
    obtain ⟨v, a1, a2⟩ := getField_decodeFields cfg kvs key (.ptr .felt) ts vs hT h1
    obtain ⟨v', b1, b2⟩ := getField_decodeFields cfg kvs key .felt ps ws hP h2
    simp only [decodeVal, hP, Option.map_some]
    rw [b2, a2]
    rw [decodeKT_felt_of_ptr cfg kvs key v a1] at b1
    cases b1
    rfl
  · rw [decodeVal_struct_zero cfg ps c hc]
    simp only
    rw [getField_zeroFields key .felt ps h2, getField_zeroFields key (.ptr .felt) ts h1]
    rfl

/-- `decodeAlt` picks the alternative registered under the tag and decodes the content with it. -/
theorem decodeAlt_some (cfg : DecCfg) : ∀ (alts : List (Nat × GoType)) (j tg : Nat) (c : Cbor) (r : GoVal),
    decodeAlt cfg alts j tg c = some r →
    ∃ i t tv, alts[i]? = some (tg, t) ∧ decodeVal cfg t c = some tv ∧ r = .iface (j + i) tv
  | [], _, _, _, _, h => by simp [decodeAlt] at h
  | (tag, t) :: alts, j, tg, c, r, h => by
    simp only [decodeAlt] at h
    by_cases ht : tag = tg
    · subst ht
      simp only [if_true] at h
      cases hd : decodeVal cfg t c with
      | none => simp [hd] at h
      | some tv => simp [hd] at h; exact ⟨0, t, tv, by simp, hd, by simp [h]⟩
    · simp only [ht, if_false] at h
      obtain ⟨i, t', tv, h1, h2, h3⟩ := decodeAlt_some cfg alts (j + 1) tg c r h
      exact ⟨i + 1, t', tv, by simpa using h1, h2, by rw [h3]; congr 1; omega⟩


theorem nonNil_cases (x : Option GoVal) : nonNil x = none ∨ nonNil x = x := by
  cases x with
  | none => right; rfl
  | some v => cases v <;> simp [nonNil]

theorem projField_eq_fieldOfItem (cfg : DecCfg) (ts ps : Fields) (key : Bytes) (bs : Bytes) (c : Cbor) (hv : GoVal)
    (hc : decodeAll bs = some c) (h : decodeVal cfg (.struct ts) c = some hv) :
    projField cfg (.struct ps) key bs = fieldOfItem cfg ps key c := by
  unfold projField fieldOfItem
  rw [hc]
  simp only [stripTags_of_struct cfg ts c hv h]
  cases decodeVal cfg (GoType.struct ps) c <;> rfl

/-- `GetBlockHeaderTimestampByNumber` (projection field `*uint64`, header field `uint64`): an error
("missing Timestamp") or the timestamp of the fully decoded header. -/
theorem timestamp_agrees (cfg : DecCfg) (bs : Bytes) (hv : GoVal) (h : unmarshalVal cfg tHeader bs = some hv) :
    getBlockHeaderTimestamp cfg bs = none ∨ getBlockHeaderTimestamp cfg bs = getField tHeader kTimestamp hv := by
  unfold unmarshalVal at h
  cases hc : decodeAll bs with
  | none => simp [hc] at h
  | some c =>
    simp only [hc] at h
    unfold getBlockHeaderTimestamp
    have e : projField cfg pHeaderTimestamp kTimestamp bs = fieldOfItem cfg (fieldsOf pHeaderTimestamp) kTimestamp c :=
      projField_eq_fieldOfItem cfg (fieldsOf tHeader) (fieldsOf pHeaderTimestamp) kTimestamp bs c hv hc h
    rw [e]
    rcases fieldOfItem_ptr_agrees cfg (fieldsOf tHeader) (fieldsOf pHeaderTimestamp) (by decide) kTimestamp (.uint 64)
      rfl rfl c hv h with h1 | h1
    · left; rw [h1]; rfl
    · rw [h1]; exact nonNil_cases _

def txAlts : List (Nat × GoType) :=
  match tTransaction with
  | .iface alts => alts
  | _ => []

/-- `GetTransactionHashesByBlockNumber` per record (projection field `felt.Felt`, transaction field
`*felt.Felt`, record tag-wrapped): for whichever of the five transaction types the full decoder
finds under the tag, the projection reads that transaction's `TransactionHash` (nil as zero). -/
theorem txhash_agrees (cfg : DecCfg) (bs : Bytes) (i : Nat) (tv : GoVal)
    (h : unmarshalVal cfg tTransaction bs = some (.iface i tv)) :
    ∃ tg fs, txAlts[i]? = some (tg, .struct fs) ∧
      projField cfg pTransactionHash kTransactionHash bs =
        (getField (.struct fs) kTransactionHash tv).map feltOrZero := by
  unfold unmarshalVal at h
  cases hc : decodeAll bs with
  | none => simp [hc] at h
  | some c =>
    simp only [hc] at h
    cases c with
    | tag tg inner =>
      have h' : decodeAlt cfg txAlts 0 tg inner = some (.iface i tv) := by
        simpa [tTransaction, txAlts, decodeVal] using h
      obtain ⟨i', t, tv', ha, hd, hr⟩ := decodeAlt_some cfg txAlts 0 tg inner _ h'
      simp only [Nat.zero_add, GoVal.iface.injEq] at hr
      obtain ⟨rfl, rfl⟩ := hr
      have key : ∀ fs, t = .struct fs → projOKc fs (fieldsOf pTransactionHash) = true →
          fieldType kTransactionHash fs = some (.ptr .felt) →
          projField cfg pTransactionHash kTransactionHash bs =
            (getField (.struct fs) kTransactionHash tv).map feltOrZero := by
        intro fs ht hok hft
        subst ht
        have hs : stripTags (Cbor.tag tg inner) = inner := by
          simp [stripTags, stripTags_of_struct cfg fs inner tv hd]
        have : projField cfg pTransactionHash kTransactionHash bs =
            fieldOfItem cfg (fieldsOf pTransactionHash) kTransactionHash inner := by
          unfold projField fieldOfItem
          rw [hc]
          simp only [hs]
          have e : decodeVal cfg pTransactionHash inner =
              decodeVal cfg (.struct (fieldsOf pTransactionHash)) inner := rfl
          rw [e]
          cases decodeVal cfg (GoType.struct (fieldsOf pTransactionHash)) inner <;> rfl
        rw [this]
        exact fieldOfItem_felt_agrees cfg fs (fieldsOf pTransactionHash) hok kTransactionHash hft rfl inner tv hd
      match i, ha with
      | 0, ha =>
        simp [txAlts, tTransaction] at ha
        obtain ⟨rfl, rfl⟩ := ha
        exact ⟨_, _, rfl, key _ rfl (by decide) rfl⟩
      | 1, ha =>
        simp [txAlts, tTransaction] at ha
        obtain ⟨rfl, rfl⟩ := ha
        exact ⟨_, _, rfl, key _ rfl (by decide) rfl⟩
      | 2, ha =>
        simp [txAlts, tTransaction] at ha
        obtain ⟨rfl, rfl⟩ := ha
        exact ⟨_, _, rfl, key _ rfl (by decide) rfl⟩
      | 3, ha =>
        simp [txAlts, tTransaction] at ha
        obtain ⟨rfl, rfl⟩ := ha
        exact ⟨_, _, rfl, key _ rfl (by decide) rfl⟩
      | 4, ha =>
        simp [txAlts, tTransaction] at ha
        obtain ⟨rfl, rfl⟩ := ha
        exact ⟨_, _, rfl, key _ rfl (by decide) rfl⟩
      | n + 5, ha => simp [txAlts, tTransaction] at ha
    | simple n =>
      simp only [tTransaction, decodeVal] at h
      split at h <;> simp_all
    | uint n => simp [tTransaction, decodeVal] at h
    | nint n => simp [tTransaction, decodeVal] at h
    | bytes b => simp [tTransaction, decodeVal] at h
    | text b => simp [tTransaction, decodeVal] at h
    | array xs => simp [tTransaction, decodeVal] at h
    | map kvs => simp [tTransaction, decodeVal] at h




theorem wfPairs_insertEntry (e : Cbor × Cbor) : ∀ (es : List (Cbor × Cbor)), e.1.wf = true → e.2.wf = true →
    wfPairs es = true → wfPairs (insertEntry e es) = true ∧ (insertEntry e es).length = es.length + 1
  | [], h1, h2, _ => by obtain ⟨k, v⟩ := e; simp_all [insertEntry, wfPairs]
  | x :: xs, h1, h2, h => by
    obtain ⟨k, v⟩ := e
    obtain ⟨k', v'⟩ := x
    simp only [wfPairs, Bool.and_eq_true] at h
    simp only [insertEntry]
    split
    · simp_all [wfPairs]
    · have ih := wfPairs_insertEntry (k, v) xs h1 h2 h.2.2
      simp_all [wfPairs]

theorem wfPairs_sortEntries : ∀ (es : List (Cbor × Cbor)), wfPairs es = true →
    wfPairs (sortEntries es) = true ∧ (sortEntries es).length = es.length
  | [], _ => by simp [sortEntries, wfPairs]
  | (k, v) :: es, h => by
    simp only [wfPairs, Bool.and_eq_true] at h
    have ih := wfPairs_sortEntries es h.2.2
    have := wfPairs_insertEntry (k, v) (sortEntries es) h.1 h.2.1 ih.1
    simp only [sortEntries]
    exact ⟨this.1, by rw [this.2, ih.2]; rfl⟩

theorem mapOpt_wf (f : GoVal → Option Cbor) : ∀ (xs : List GoVal) (cs : List Cbor),
    (∀ x ∈ xs, fitsVal x = true → ∀ c, f x = some c → c.wf = true) → fitsVals xs = true →
    mapOpt f xs = some cs → wfList cs = true ∧ cs.length = xs.length
  | [], cs, _, _, h => by simp [mapOpt] at h; subst h; simp [wfList]
  | x :: xs, cs, hall, hf, h => by
    simp only [fitsVals, Bool.and_eq_true] at hf
    simp only [mapOpt] at h
    cases h1 : f x with
    | none => simp [h1] at h
    | some c =>
      cases h2 : mapOpt f xs with
      | none => simp [h1, h2] at h
      | some cs' =>
        simp [h1, h2] at h
        subst h
        have ih := mapOpt_wf f xs cs' (fun y hy => hall y (List.mem_cons_of_mem _ hy)) hf.2 h2
        have := hall x (List.mem_cons_self ..) hf.1 c h1
        simp [wfList, this, ih.1, ih.2]

theorem mapOpt2_wf (f g : GoVal → Option Cbor) : ∀ (xs : List (GoVal × GoVal)) (cs : List (Cbor × Cbor)),
    (∀ x ∈ xs, (fitsVal x.1 = true → ∀ c, f x.1 = some c → c.wf = true) ∧
               (fitsVal x.2 = true → ∀ c, g x.2 = some c → c.wf = true)) →
    fitsPairs xs = true → mapOpt2 f g xs = some cs → wfPairs cs = true ∧ cs.length = xs.length
  | [], cs, _, _, h => by simp [mapOpt2] at h; subst h; simp [wfPairs]
  | (a, b) :: xs, cs, hall, hf, h => by
    simp only [fitsPairs, Bool.and_eq_true] at hf
    simp only [mapOpt2] at h
    cases h1 : f a with
    | none => simp [h1] at h
    | some c =>
      cases h2 : g b with
      | none => simp [h1, h2] at h
      | some d =>
        cases h3 : mapOpt2 f g xs with
        | none => simp [h1, h2, h3] at h
        | some cs' =>
          simp [h1, h2, h3] at h
          subst h
          have ih := mapOpt2_wf f g xs cs' (fun y hy => hall y (List.mem_cons_of_mem _ hy)) hf.2.2 h3
          have hx := hall (a, b) (List.mem_cons_self ..)
          simp [wfPairs, hx.1 hf.1 c h1, hx.2 hf.2.1 d h2, ih.1, ih.2]

mutual
/-- The encoding of a value whose sizes fit 64 bits is a well-formed data item. -/
theorem enc_wf : ∀ (t : GoType) (v : GoVal) (c : Cbor), okType t = true → fitsVal v = true →
    encodeVal t v = some c → c.wf = true
  | .uint bits, v, c, _, hf, h => by
    cases v <;> simp [encodeVal] at h
    obtain ⟨_, rfl⟩ := h
    simpa [Cbor.wf, fitsVal] using hf
  | .bool, v, c, _, _, h => by
    cases v <;> simp [encodeVal] at h
    subst h; simp only [Cbor.bool, Cbor.wf]; split <;> decide
  | .str, v, c, _, hf, h => by
    cases v <;> simp [encodeVal] at h
    subst h; simpa [Cbor.wf, fitsVal] using hf
  | .bytes, v, c, _, hf, h => by
    cases v <;> simp [encodeVal] at h
    · subst h; simp [Cbor.null, Cbor.wf]
    · subst h; simpa [Cbor.wf, fitsVal] using hf
  | .felt, v, c, _, _, h => by
    cases v <;> simp [encodeVal] at h
    obtain ⟨hb, rfl⟩ := h
    simp [Cbor.wf, wfList, u64] at hb ⊢
    omega
  | .raw, v, c, _, hf, h => by
    cases v <;> simp [encodeVal] at h
    subst h; simpa [fitsVal] using hf
  | .discard, v, c, hok, _, _ => by simp [okType] at hok
  | .ptr t, v, c, hok, hf, h => by
    simp only [okType, Bool.and_eq_true] at hok
    by_cases hv : v = .nil
    · subst hv; simp [encodeVal] at h; subst h; simp [Cbor.null, Cbor.wf]
    · rw [encodeVal_ptr_nonNil t v hv] at h
      exact enc_wf t v c hok.2 hf h
  | .slice t, v, c, hok, hf, h => by
    simp only [okType] at hok
    cases v <;> simp [encodeVal] at h
    · subst h; simp [Cbor.null, Cbor.wf]
    · rename_i xs
      obtain ⟨cs, h1, rfl⟩ := h
      simp only [fitsVal, Bool.and_eq_true, decide_eq_true_eq] at hf
      have := mapOpt_wf (encodeVal t) xs cs (fun x _ hx c hc => enc_wf t x c hok hx hc) hf.2 h1
      simp [Cbor.wf, this.1, this.2, hf.1]
  | .map k v, x, c, hok, hf, h => by
    simp only [okType, Bool.and_eq_true] at hok
    cases x <;> simp [encodeVal] at h
    · subst h; simp [Cbor.null, Cbor.wf]
    · rename_i kvs
      obtain ⟨es, h1, rfl⟩ := h
      simp only [fitsVal, Bool.and_eq_true, decide_eq_true_eq] at hf
      have := mapOpt2_wf (encodeVal k) (encodeVal v) kvs es
        (fun e _ => ⟨fun hx c hc => enc_wf k e.1 c hok.1 hx hc, fun hx c hc => enc_wf v e.2 c hok.2 hx hc⟩) hf.2 h1
      have hs := wfPairs_sortEntries es this.1
      simp [Cbor.wf, hs.1, hs.2, this.2, hf.1]
  | .struct fs, v, c, hok, hf, h => by
    simp only [okType, Bool.and_eq_true] at hok
    cases v <;> simp [encodeVal] at h
    rename_i vs
    obtain ⟨es, h1, rfl⟩ := h
    simp only [fitsVal, Bool.and_eq_true, decide_eq_true_eq] at hf
    have := encFields_wf fs vs es hok.2 hf.2 h1
    simp [Cbor.wf, this.1]
    omega
  | .iface alts, v, c, hok, hf, h => by
    simp only [okType, Bool.and_eq_true] at hok
    cases v <;> simp [encodeVal] at h
    · subst h; simp [Cbor.null, Cbor.wf]
    · rename_i i x
      simp only [fitsVal] at hf
      exact encAlt_wf alts i x c hok.2 hf h
theorem encFields_wf : ∀ (fs : Fields) (vs : List GoVal) (es : List (Cbor × Cbor)), okFields fs = true →
    fitsVals vs = true → encodeFields fs vs = some es → wfPairs es = true ∧ es.length ≤ vs.length
  | [], vs, es, _, _, h => by
    cases vs <;> simp [encodeFields] at h
    subst h; simp [wfPairs]
  | (key, om, t) :: fs, vs, es, hok, hf, h => by
    cases vs with
    | nil => simp [encodeFields] at h
    | cons v vs =>
      simp only [okFields, Bool.and_eq_true, decide_eq_true_eq] at hok
      simp only [fitsVals, Bool.and_eq_true] at hf
      simp only [encodeFields] at h
      cases h1 : encodeVal t v with
      | none => simp [h1] at h
      | some c =>
        cases h2 : encodeFields fs vs with
        | none => simp [h1, h2] at h
        | some es' =>
          simp only [h1, h2] at h
          have ih := encFields_wf fs vs es' hok.2 hf.2 h2
          have hc := enc_wf t v c hok.1.2 hf.1 h1
          split at h
          · simp at h; subst h; exact ⟨ih.1, by simp; omega⟩
          · simp at h; subst h
            simp [wfPairs, Cbor.wf, hok.1.1.2, hc, ih.1]
            omega
theorem encAlt_wf : ∀ (alts : List (Nat × GoType)) (i : Nat) (v : GoVal) (c : Cbor), okAlts alts = true →
    fitsVal v = true → encodeAlt alts i v = some c → c.wf = true
  | [], _, _, _, _, _, h => by simp [encodeAlt] at h
  | (tag, t) :: alts, 0, v, c, hok, hf, h => by
    simp only [okAlts, Bool.and_eq_true, decide_eq_true_eq] at hok
    simp [encodeAlt] at h
    obtain ⟨inner, h1, rfl⟩ := h
    simp [Cbor.wf, hok.1.1, enc_wf t v inner hok.1.2 hf h1]
  | (tag, t) :: alts, i + 1, v, c, hok, hf, h => by
    simp only [okAlts, Bool.and_eq_true] at hok
    simp only [encodeAlt] at h
    exact encAlt_wf alts i v c hok.2 hf h
end


/-- `Unmarshal (Marshal v) = v`, hypotheses on the value only. -/
theorem rt_bytes_fits (cfg : DecCfg) (t : GoType) (v : GoVal) (hok : okType t = true) (hw : wt cfg t v = true)
    (hf : fitsVal v = true) : ∃ bs, marshalVal t v = some bs ∧ unmarshalVal cfg t bs = some v := by
  obtain ⟨c, e1, e2, e3⟩ := rt_bytes cfg t v hok hw
  exact ⟨c.encode, e2, e3 (enc_wf t v c hok hf e1)⟩



/-- Is the first field named `key` declared `omitempty`? -/
def fieldOm (key : Bytes) : Fields → Bool
  | [] => false
  | (k, om, _) :: fs => if k == key then om else fieldOm key fs

/-- The encoding of a struct holds, under every non-`omitempty` key, the encoding of that field. -/
theorem encodeFields_lookup (key : Bytes) (t : GoType) : ∀ (fs : Fields) (vs : List GoVal) (es : List (Cbor × Cbor)),
    encodeFields fs vs = some es → keysDistinct fs = true → fieldType key fs = some t → fieldOm key fs = false →
    ∃ v c, getField (.struct fs) key (.struct vs) = some v ∧ encodeVal t v = some c ∧
      mapLookup (.text key) es = some c
  | [], _, _, _, _, hf, _ => by simp [fieldType] at hf
  | (k, om, t') :: fs, vs, es, h, hd, hf, ho => by
    cases vs with
    | nil => simp [encodeFields] at h
    | cons v vs =>
      simp only [keysDistinct, Bool.and_eq_true] at hd
      simp only [encodeFields] at h
      cases h1 : encodeVal t' v with
      | none => simp [h1] at h
      | some c =>
        cases h2 : encodeFields fs vs with
        | none => simp [h1, h2] at h
        | some es' =>
          simp only [h1, h2] at h
          by_cases hk : k = key
          · subst hk
            simp [fieldType] at hf
            subst hf
            simp [fieldOm] at ho
            subst ho
            simp at h
            subst h
            exact ⟨v, c, by simp [getField, fieldIndex], h1, by simp [mapLookup_cons_text]⟩
          · have hk' : (k == key) = false := by simpa using hk
            simp only [fieldType, hk'] at hf
            simp only [fieldOm, hk'] at ho
            obtain ⟨v', c', g1, g2, g3⟩ := encodeFields_lookup key t fs vs es' h2 hd.2 hf ho
            refine ⟨v', c', ?_, g2, ?_⟩
            · simp only [getField, fieldIndex, hk'] at g1 ⊢
              cases hi : fieldIndex key fs with
              | none => simp [hi] at g1
              | some i => simp [hi] at g1 ⊢; exact g1
            · split at h
              · simp at h; subst h; exact g3
              · simp at h; subst h
                rw [mapLookup_cons_text, hk']
                exact g3


/-- A pointer-typed projection of a non-`omitempty`, non-nullable field, on a record the encoder
wrote: it always finds the key and returns the stored field (never nil / "missing"). -/
theorem ptr_projection_on_stored (cfg : DecCfg) (ts ps : Fields) (key : Bytes) (t : GoType)
    (hok : okType (.struct ts) = true) (h1 : fieldType key ts = some t) (ho : fieldOm key ts = false)
    (h2 : fieldType key ps = some (.ptr t)) (hnn : nonNull t = true) (hpc : projOKc ts ps = true)
    (vs : List GoVal) (hw : wt cfg (.struct ts) (.struct vs) = true) :
    ∃ es v, encodeVal (.struct ts) (.struct vs) = some (.map es) ∧
      getField (.struct ts) key (.struct vs) = some v ∧ fieldOfItem cfg ps key (.map es) = some v ∧
      (encodeVal t v).isSome = true := by
  obtain ⟨c, e1, e2⟩ := rt_val cfg (.struct ts) (.struct vs) hok hw
  simp only [encodeVal] at e1
  cases hes : encodeFields ts vs with
  | none => simp [hes] at e1
  | some es =>
    simp [hes] at e1
    subst e1
    have hd : keysDistinct ts = true := by
      simp only [okType, Bool.and_eq_true] at hok; exact hok.1
    obtain ⟨v, cf, g1, g2, g3⟩ := encodeFields_lookup key t ts vs es hes hd h1 ho
    have hT : decodeFields cfg ts es = some vs := by
      simp only [decodeVal] at e2
      cases hdd : decodeFields cfg ts es with
      | none => simp [hdd] at e2
      | some vs' => simp [hdd] at e2; subst e2; rfl
    obtain ⟨v0, a1, a2⟩ := getField_decodeFields cfg es key t ts vs hT h1
    rw [g1] at a2
    cases a2
    -- the stored item under the key is not null, so pointer-ness makes no difference
    have hnn' := encodeVal_nonNull t v cf hnn g2
    have hk : decodeKT cfg es key (.ptr t) = some v := by
      unfold decodeKT at a1 ⊢
      rw [g3] at a1 ⊢
      simp only at a1 ⊢
      rw [decodeVal_ptr_nonNull cfg t cf hnn'.1 hnn'.2]
      exact a1
    obtain ⟨ws, hP⟩ := decodeFields_projc_succeeds cfg es ts vs hT ps hpc
    obtain ⟨v', b1, b2⟩ := getField_decodeFields cfg es key (.ptr t) ps ws hP h2
    rw [hk] at b1
    cases b1
    refine ⟨es, v, by simp [encodeVal, hes], g1, ?_, by simp [g2]⟩
    unfold fieldOfItem
    simp only [decodeVal, hP, Option.map_some]
    exact b2

/-- On a header the node wrote, `GetBlockHeaderTimestampByNumber` returns the stored timestamp
(never the "missing Timestamp" error). -/
theorem timestamp_on_stored (cfg : DecCfg) (vs : List GoVal) (hw : wt cfg tHeader (.struct vs) = true)
    (hf : fitsVal (.struct vs) = true) :
    ∃ bs v, marshalVal tHeader (.struct vs) = some bs ∧ getField tHeader kTimestamp (.struct vs) = some v ∧
      v ≠ .nil ∧ getBlockHeaderTimestamp cfg bs = some v := by
  have hok : okType tHeader = true := by decide
  have hT : tHeader = .struct (fieldsOf tHeader) := rfl
  obtain ⟨es, v, e1, g1, g2, g3⟩ := ptr_projection_on_stored cfg (fieldsOf tHeader) (fieldsOf pHeaderTimestamp) kTimestamp
    (.uint 64) (hT ▸ hok) rfl rfl rfl rfl (by decide) vs (hT ▸ hw)
  have e1h : encodeVal tHeader (.struct vs) = some (.map es) := e1
  have hwf := enc_wf tHeader (.struct vs) (.map es) hok hf e1h
  have hdec : decodeAll (Cbor.map es).encode = some (.map es) := decodeAll_encode _ hwf
  have e2 : decodeVal cfg (.struct (fieldsOf tHeader)) (.map es) = some (.struct vs) := by
    obtain ⟨c2, x1, x2⟩ := rt_val cfg (.struct (fieldsOf tHeader)) (.struct vs) (hT ▸ hok) (hT ▸ hw)
    rw [e1] at x1; cases x1; exact x2
  have hproj : projField cfg pHeaderTimestamp kTimestamp (Cbor.map es).encode =
      fieldOfItem cfg (fieldsOf pHeaderTimestamp) kTimestamp (.map es) :=
    projField_eq_fieldOfItem cfg (fieldsOf tHeader) (fieldsOf pHeaderTimestamp) kTimestamp _ (.map es) (.struct vs) hdec e2
  clear hT hw hok e2 hdec hwf
  -- the field is an unsigned integer, hence not nil
  cases v with
  | uint n =>
    refine ⟨(Cbor.map es).encode, .uint n, by simp only [marshalVal, e1h, Option.map_some], g1, by simp, ?_⟩
    unfold getBlockHeaderTimestamp
    rw [hproj, g2]
    rfl
  | _ => simp [encodeVal] at g3




/-- Struct round trip in full: whatever the `omitempty` fields hold, the decoded field values are
the NORMAL FORM of the stored ones (`normFields`): identical, except that an empty `omitempty`
field comes back as the zero value. -/
theorem rt_fields_norm (cfg : DecCfg) : ∀ (fs : Fields) (vs : List GoVal), okFields fs = true → keysDistinct fs = true →
    wtFieldsLoose cfg fs vs = true →
    ∃ es, encodeFields fs vs = some es ∧
      (∀ k, keyAbsent k fs = true → mapLookup (.text k) es = none) ∧
      (∀ pre, (∀ k, keyAbsent k fs = false → mapLookup (.text k) pre = none) →
        decodeFields cfg fs (pre ++ es) = some (normFields fs vs))
  | [], vs, _, _, hw => by
    cases vs <;> simp [wtFieldsLoose] at hw
    exact ⟨[], by simp [encodeFields], fun _ _ => rfl, fun pre _ => by simp [decodeFields, normFields]⟩
  | (key, om, t) :: fs, vs, hok, hd, hw => by
    cases vs with
    | nil => simp [wtFieldsLoose] at hw
    | cons v vs =>
      simp only [okFields, Bool.and_eq_true] at hok
      simp only [keysDistinct, Bool.and_eq_true] at hd
      simp only [wtFieldsLoose, Bool.and_eq_true] at hw
      obtain ⟨c, hc1, hc2⟩ := rt_val cfg t v hok.1.2 hw.1
      obtain ⟨es, he1, he2, he3⟩ := rt_fields_norm cfg fs vs hok.2 hd.2 hw.2
      by_cases hom : (om && v.isEmpty) = true
      · refine ⟨es, by simp [encodeFields, hc1, he1, hom], ?_, ?_⟩
        · intro k hk
          simp only [keyAbsent, Bool.and_eq_true] at hk
          exact he2 k hk.2
        · intro pre hpre
          apply (decodeFields_cons_some cfg key om t fs (pre ++ es) _).mpr
          refine ⟨zeroVal t, normFields fs vs, by simp [normFields, hom], ?_, ?_⟩
          · have h1 : mapLookup (.text key) pre = none := hpre key (by simp [keyAbsent])
            rw [decodeKT, mapLookup_append_none _ _ _ h1, he2 key hd.1]
          · exact he3 pre (fun k hk => hpre k ((keyAbsent_false_cons k key om t fs).mpr (Or.inr hk)))
      · have hom' : (om && v.isEmpty) = false := by simpa using hom
        refine ⟨(.text key, c) :: es, by simp [encodeFields, hc1, he1, hom'], ?_, ?_⟩
        · intro k hk
          simp only [keyAbsent, Bool.and_eq_true, Bool.not_eq_true'] at hk
          rw [mapLookup_cons_text, hk.1]
          exact he2 k hk.2
        · intro pre hpre
          apply (decodeFields_cons_some cfg key om t fs _ _).mpr
          refine ⟨v, normFields fs vs, by simp [normFields, hom'], ?_, ?_⟩
          · have h1 : mapLookup (.text key) pre = none := hpre key (by simp [keyAbsent])
            rw [decodeKT, mapLookup_append_none _ _ _ h1, mapLookup_cons_text]
            simp [hc2]
          · have : pre ++ (Cbor.text key, c) :: es = (pre ++ [(Cbor.text key, c)]) ++ es := by simp
            rw [this]
            apply he3
            intro k hk
            have hk1 : mapLookup (.text k) pre = none :=
              hpre k ((keyAbsent_false_cons k key om t fs).mpr (Or.inr hk))
            apply mapLookup_append_single_none k key c pre hk1
            cases hkk : key == k with
            | false => rfl
            | true =>
              have : key = k := by simpa using hkk
              subst this
              rw [hd.1] at hk
              cases hk


end Juno.C07
