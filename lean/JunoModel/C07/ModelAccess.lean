import JunoModel.C07.Tables
/-
C07 — model, part 5: the accessors built on the partial decoders (core/accessors.go,
core/block_transaction_serializer.go): decode the stored bytes into the projection type, pick the
wanted field, and report a nil pointer as an error ("missing …") where the Go code does.
-/
namespace Juno.C07

/-- Position of a key in a field table. -/
def fieldIndex (key : Bytes) : List (Bytes × Bool × GoType) → Option Nat
  | [] => none
  | (k, _, _) :: fs => if k == key then some 0 else (fieldIndex key fs).map (· + 1)

/-- The value of field `key` of a struct value of type `t`. -/
def getField (t : GoType) (key : Bytes) (v : GoVal) : Option GoVal :=
  match t, v with
  | .struct fs, .struct vs =>
    match fieldIndex key fs with
    | some i => vs[i]?
    | none => none
  | _, _ => none

/-- A decoder for an UNREGISTERED type skips tag heads and decodes the content
(`transactionHashProjection` is fed tag-wrapped transaction records). -/
def stripTags : Cbor → Cbor
  | .tag _ v => stripTags v
  | c => c

/-- Decode stored bytes into a projection type and take one field. -/
def projField (cfg : DecCfg) (p : GoType) (key : Bytes) (bs : Bytes) : Option GoVal :=
  match decodeAll bs with
  | some c =>
    match decodeVal cfg p (stripTags c) with
    | some v => getField p key v
    | none => none
  | none => none

/-- Pointer-valued projections report nil as an error. -/
def nonNil : Option GoVal → Option GoVal
  | some .nil => none
  | r => r

def getBlockHeaderHash (cfg : DecCfg) (bs : Bytes) : Option GoVal := nonNil (projField cfg pHeaderHash kHash bs)
def getGlobalStateRoot (cfg : DecCfg) (bs : Bytes) : Option GoVal :=
  nonNil (projField cfg pHeaderGlobalStateRoot kGlobalStateRoot bs)
def getBlockTransactionCount (cfg : DecCfg) (bs : Bytes) : Option GoVal :=
  projField cfg pHeaderTransactionCount kTransactionCount bs
def getBlockHeaderTimestamp (cfg : DecCfg) (bs : Bytes) : Option GoVal :=
  nonNil (projField cfg pHeaderTimestamp kTimestamp bs)
/-- A nil bloom pointer shows up as the raw item `null`. -/
def getBlockHeaderEventsBloom (cfg : DecCfg) (bs : Bytes) : Option GoVal :=
  match projField cfg pHeaderEventsBloom kEventsBloom bs with
  | some (.raw (.simple 22)) => none
  | some (.raw (.simple 23)) => none
  | r => r
def getExecutionStatus (cfg : DecCfg) (bs : Bytes) : Option (GoVal × GoVal) :=
  match projField cfg pReceiptExecutionStatus kReverted bs, projField cfg pReceiptExecutionStatus kRevertReason bs with
  | some a, some b => some (a, b)
  | _, _ => none
def getTransactionEvents (cfg : DecCfg) (bs : Bytes) : Option (GoVal × GoVal) :=
  match projField cfg pReceiptEvents kEvents bs, projField cfg pReceiptEvents kTransactionHash bs with
  | some a, some b => some (a, b)
  | _, _ => none
/-- `extractAllTransactionHashes`: a zero hash is reported as missing. -/
def getTransactionHash (cfg : DecCfg) (bs : Bytes) : Option GoVal :=
  match projField cfg pTransactionHash kTransactionHash bs with
  | some (.felt 0 0 0 0) => none
  | r => r

end Juno.C07
