import JunoModel.C07.Model
/-
C07 — model, part 2: the `BlockTransactions` blob (core/block_transaction.go,
core/block_transaction_serializer.go, core/indexed/indexed.go, core/indexed/lazy_slice.go).

One database value per block:   CBOR(Indexes) ++ Data
  Indexes = {1: [start offset of every transaction], 2: [start offset of every receipt]}
            (both `omitempty`: an empty list is left out, an empty block is the one byte a0)
  Data    = enc tx₀ ++ … ++ enc txₙ₋₁ ++ enc rc₀ ++ … ++ enc rcₘ₋₁   (absolute offsets into Data)

Items are abstract here: `enc : α → Bytes`, `dec : Bytes → Option α` (`encoder.Unmarshal` on the
exact slice of one item; it fails on trailing bytes, so only `dec (enc a) = some a` is needed).
Go slicing `data[start:end]` panics when `start > end` or `end > len` (the capacity subtlety of
`Data[:Receipts[0]]` is not modelled: out-of-range offsets are `panic` here, and no theorem talks
about them).
-/
namespace Juno.C07

/-- Outcome of a read: value, `db.ErrKeyNotFound`, a decode error, or a Go runtime panic. -/
inductive Res (α : Type) where
  | ok (a : α)
  | notFound
  | decodeErr
  | panic
  deriving Repr, DecidableEq

def Res.ofOption {α : Type} : Option α → Res α
  | some a => .ok a
  | none => .decodeErr

/-- `indexed.Write`: append every item to the buffer, recording where each one starts. -/
def writeItems {α : Type} (enc : α → Bytes) : Bytes → List α → List Nat × Bytes
  | buf, [] => ([], buf)
  | buf, x :: xs =>
    let r := writeItems enc (buf ++ enc x) xs
    (buf.length :: r.1, r.2)

/-- `core.BlockTransactions`. -/
structure Blob where
  txIdx : List Nat
  rcIdx : List Nat
  data : Bytes
  deriving Repr, DecidableEq

/-- `core.NewBlockTransactions`: transactions first, then receipts, into one buffer. -/
def Blob.build {α β : Type} (encT : α → Bytes) (encR : β → Bytes) (txs : List α) (rcs : List β) : Blob :=
  let r1 := writeItems encT [] txs
  let r2 := writeItems encR r1.2 rcs
  { txIdx := r1.1, rcIdx := r2.1, data := r2.2 }

def idxCbor (is : List Nat) : Cbor := .array (is.map .uint)

/-- `BlockTransactionsIndexes` as CBOR: keys 1 and 2 (`keyasint`), both `omitempty`. -/
def Blob.header (b : Blob) : Cbor :=
  .map ((if b.txIdx.isEmpty then [] else [(Cbor.uint 1, idxCbor b.txIdx)]) ++
        (if b.rcIdx.isEmpty then [] else [(Cbor.uint 2, idxCbor b.rcIdx)]))

/-- `BlockTransactionsSerializer.Marshal`. -/
def Blob.marshal (b : Blob) : Bytes := b.header.encode ++ b.data

/-- First entry with the given key (fxamacker keeps the first of duplicate keys when it decodes a
map into a struct). -/
def mapLookup (k : Cbor) : List (Cbor × Cbor) → Option Cbor
  | [] => none
  | (k', v) :: rest => if k'.beq k then some v else mapLookup k rest

def decUints : List Cbor → Option (List Nat)
  | [] => some []
  | .uint n :: rest => if n < 9223372036854775808 then (decUints rest).map (n :: ·) else none
  | _ :: _ => none

/-- Decode a `[]int` field: an array of unsigned integers below 2^63 (a value that overflows Go's
`int` is a decode error, as in the library), or null (nil slice). Negative offsets are rejected
here (the Go code would accept them and panic when slicing: corrupt input only, see notes). -/
def decIdx : Cbor → Option (List Nat)
  | .array xs => decUints xs
  | .simple 22 => some []
  | _ => none

def decIdxField (k : Nat) (kvs : List (Cbor × Cbor)) : Option (List Nat) :=
  match mapLookup (.uint k) kvs with
  | none => some []
  | some c => decIdx c

/-- `blockTransactionsPartialSerializer.UnmarshalPartial` up to the extractor:
`encoder.UnmarshalFirst` into the indexes, the remaining bytes are `Data`. -/
def Blob.unmarshal (bs : Bytes) : Option Blob :=
  match decodeFirst bs with
  | some (.map kvs, rest) =>
    match decIdxField 1 kvs, decIdxField 2 kvs with
    | some t, some r => some { txIdx := t, rcIdx := r, data := rest }
    | _, _ => none
  | _ => none

/-- `transactionsSection`: the data up to the first receipt (the whole data if there are no receipts). -/
def Blob.txSection (b : Blob) : Option Bytes :=
  match b.rcIdx with
  | [] => some b.data
  | r0 :: _ => if r0 ≤ b.data.length then some (b.data.take r0) else none

/-- `LazySlice.getInto` bounds: item `i` occupies `[indexes[i], indexes[i+1])`, the last one runs to
the end of the section. -/
def sliceBounds (idx : List Nat) (len i : Nat) : Nat × Nat :=
  (idx.getD i 0, if i + 1 < idx.length then idx.getD (i + 1) 0 else len)

/-- `LazySlice.Get`. -/
def sliceGet {α : Type} (dec : Bytes → Option α) (idx : List Nat) (data : Bytes) (i : Nat) : Res α :=
  if i < idx.length then
    let se := sliceBounds idx data.length i
    if se.1 ≤ se.2 ∧ se.2 ≤ data.length then
      Res.ofOption (dec ((data.take se.2).drop se.1))
    else .panic
  else .notFound

/-- `LazySlice.All` / `AllMapped` / `Iter` collected: every item in order, first failure wins. -/
def sliceAllFrom {α : Type} (dec : Bytes → Option α) (idx : List Nat) (data : Bytes) : Nat → Nat → Res (List α)
  | _, 0 => .ok []
  | i, k + 1 =>
    match sliceGet dec idx data i with
    | .ok a =>
      match sliceAllFrom dec idx data (i + 1) k with
      | .ok as => .ok (a :: as)
      | .notFound => .notFound
      | .decodeErr => .decodeErr
      | .panic => .panic
    | .notFound => .notFound
    | .decodeErr => .decodeErr
    | .panic => .panic

def sliceAll {α : Type} (dec : Bytes → Option α) (idx : List Nat) (data : Bytes) : Res (List α) :=
  sliceAllFrom dec idx data 0 idx.length

/-- `b.Transactions().Get(i)`. -/
def Blob.getTx {α : Type} (dec : Bytes → Option α) (b : Blob) (i : Nat) : Res α :=
  match b.txSection with
  | some sec => sliceGet dec b.txIdx sec i
  | none => .panic

/-- `b.Receipts().Get(i)` (the receipts section is the whole data: offsets are absolute). -/
def Blob.getRc {β : Type} (dec : Bytes → Option β) (b : Blob) (i : Nat) : Res β :=
  sliceGet dec b.rcIdx b.data i

def Blob.allTx {α : Type} (dec : Bytes → Option α) (b : Blob) : Res (List α) :=
  match b.txSection with
  | some sec => sliceAll dec b.txIdx sec
  | none => .panic

def Blob.allRc {β : Type} (dec : Bytes → Option β) (b : Blob) : Res (List β) :=
  sliceAll dec b.rcIdx b.data

/-- Accessor on the stored bytes: `Blob.unmarshal` then an extractor. -/
def readBlob {γ : Type} (bs : Bytes) (f : Blob → Res γ) : Res γ :=
  match Blob.unmarshal bs with
  | some b => f b
  | none => .decodeErr

end Juno.C07
