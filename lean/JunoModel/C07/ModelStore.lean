import JunoModel.C07.ModelBin
import JunoModel.C07.ModelBlob
/-
C07 — model, part 7: the key/value store and the records one block puts into it
(blockchain/statebackend/block_ops.go `writeBlockContent` / `deleteBlockContent`,
core/accessors.go `WriteBlockHeader`, `WriteTransactionsAndReceipts`, `WriteL1HandlerMsgHashes`,
`DeleteTransactionsAndReceipts`, and the two-step by-hash readers).

The store is an association list, most recent write first (`db.KeyValueStore` as a map; C15 is
about the backends implementing that). Record values are their encodings (byte strings), so the
codec theorems of parts 1–6 compose with the lookups here.
-/
namespace Juno.C07

abbrev Store := List (Bytes × Bytes)

def Store.get (s : Store) (k : Bytes) : Option Bytes :=
  match s with
  | [] => none
  | (k', v) :: rest => if k' == k then some v else Store.get rest k

def Store.put (s : Store) (k v : Bytes) : Store := (k, v) :: s

def Store.del (s : Store) (k : Bytes) : Store := s.filter (fun e => !(e.1 == k))

def Store.putAll (s : Store) : List (Bytes × Bytes) → Store
  | [] => s
  | (k, v) :: es => Store.putAll (s.put k v) es

def Store.delAll (s : Store) : List Bytes → Store
  | [] => s
  | k :: ks => Store.delAll (s.del k) ks

/-- Everything `writeBlockContent` stores for one block, as encodings. -/
structure BlockRec where
  number : Nat
  hash : Bytes                      -- block hash, 32 bytes
  header : Bytes                    -- CBOR of the header
  blob : Bytes                      -- `BlockTransactionsSerializer.Marshal`
  txHashes : List Bytes             -- hash of transaction i
  l1 : List (Bytes × Bytes)         -- (message hash, transaction hash) of every L1 handler
  stateUpdate : Bytes
  commitments : Bytes

/-- `hash ↦ (number, index)` entries, in transaction order. -/
def txIndexEntries (n : Nat) : Nat → List Bytes → List (Bytes × Bytes)
  | _, [] => []
  | i, h :: hs => (keyByHash bTxIndexByHash h, encNumIndex n i) :: txIndexEntries n (i + 1) hs

/-- The writes of `writeBlockContent`, in its order. -/
def blockEntries (b : BlockRec) : List (Bytes × Bytes) :=
  [(keyByHash bBlockHeaderNumbersByHash b.hash, encNumber b.number),
   (keyByNumber bBlockHeadersByNumber b.number, b.header)] ++
  txIndexEntries b.number 0 b.txHashes ++
  [(keyBlockTransactions b.number, b.blob),
   (keyByNumber bStateUpdatesByBlockNumber b.number, b.stateUpdate),
   (keyByNumber bBlockCommitments b.number, b.commitments)] ++
  b.l1.map (fun (m, t) => (keyByHash bL1HandlerTxnHashByMsgHash m, t)) ++
  [(dbKey bChainHeight [], encNumber b.number)]

def writeBlock (s : Store) (b : BlockRec) : Store := s.putAll (blockEntries b)

/-- The deletes of `deleteBlockContent` + `DeleteTransactionsAndReceipts` + `DeleteStateUpdateByBlockNum`
(the chain height is rewritten by the caller, not deleted). -/
def blockKeys (b : BlockRec) : List Bytes :=
  [keyByNumber bBlockHeadersByNumber b.number, keyByHash bBlockHeaderNumbersByHash b.hash,
   keyByNumber bBlockCommitments b.number] ++
  b.txHashes.map (keyByHash bTxIndexByHash) ++
  b.l1.map (fun (m, _) => keyByHash bL1HandlerTxnHashByMsgHash m) ++
  [keyBlockTransactions b.number, keyByNumber bStateUpdatesByBlockNumber b.number]

def deleteBlock (s : Store) (b : BlockRec) : Store := s.delAll (blockKeys b)

/-! ### readers (core/accessors.go) -/

def getHeaderByNumber (s : Store) (n : Nat) : Option Bytes := s.get (keyByNumber bBlockHeadersByNumber n)
def getNumberByHash (s : Store) (h : Bytes) : Option Nat :=
  (s.get (keyByHash bBlockHeaderNumbersByHash h)).bind decNumber
/-- `GetBlockHeaderByHash`: hash → number → header. -/
def getHeaderByHash (s : Store) (h : Bytes) : Option Bytes := (getNumberByHash s h).bind (getHeaderByNumber s)
def getBlobByNumber (s : Store) (n : Nat) : Option Bytes := s.get (keyBlockTransactions n)
def getStateUpdateByNumber (s : Store) (n : Nat) : Option Bytes := s.get (keyByNumber bStateUpdatesByBlockNumber n)
/-- `GetStateUpdateByHash`. -/
def getStateUpdateByHash (s : Store) (h : Bytes) : Option Bytes := (getNumberByHash s h).bind (getStateUpdateByNumber s)
def getCommitmentsByNumber (s : Store) (n : Nat) : Option Bytes := s.get (keyByNumber bBlockCommitments n)
/-- `TransactionBlockNumbersAndIndicesByHashBucket.Get`. -/
def getTxLocation (s : Store) (th : Bytes) : Option (Nat × Nat) :=
  (s.get (keyByHash bTxIndexByHash th)).bind decNumIndex
/-- `GetTransactionByHash`: hash → (number, index) → blob → item `index`. -/
def getTxByHash {α : Type} (dec : Bytes → Option α) (s : Store) (th : Bytes) : Res α :=
  match getTxLocation s th with
  | none => .notFound
  | some (n, i) =>
    match getBlobByNumber s n with
    | none => .notFound
    | some blob => readBlob blob (fun b => b.getTx dec i)
/-- `Blockchain.Receipt` (without the block hash): hash → (number, index) → blob → receipt. -/
def getRcByHash {β : Type} (dec : Bytes → Option β) (s : Store) (th : Bytes) : Res β :=
  match getTxLocation s th with
  | none => .notFound
  | some (n, i) =>
    match getBlobByNumber s n with
    | none => .notFound
    | some blob => readBlob blob (fun b => b.getRc dec i)
/-- `GetL1HandlerTxnHashByMsgHash`. -/
def getL1TxHash (s : Store) (m : Bytes) : Option Bytes := s.get (keyByHash bL1HandlerTxnHashByMsgHash m)

end Juno.C07
