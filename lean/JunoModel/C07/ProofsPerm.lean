import JunoModel.C07.ProofsVal
/-!
C07 — a Go map has no order: `encodeVal` must not depend on the order in which the entries of a map
are listed. `sortEntries` (the encoder's `SortLengthFirst`) is an insertion sort by the encoded key;
`keyLt` is a strict total order on byte strings, so two permutations of entries with pairwise
distinct encoded keys sort to the same list.
-/
namespace Juno.C07

theorem bytesLt_asymm : ∀ (a b : Bytes), bytesLt a b = true → bytesLt b a = false
  | [], [], h => by simp [bytesLt] at h
  | [], _ :: _, _ => by simp [bytesLt]
  | _ :: _, [], h => by simp [bytesLt] at h
  | x :: a, y :: b, h => by
    simp only [bytesLt, Bool.or_eq_true, decide_eq_true_eq, Bool.and_eq_true, beq_iff_eq] at h
    simp only [bytesLt, Bool.or_eq_false_iff, decide_eq_false_iff_not, Bool.and_eq_false_imp, beq_iff_eq]
    rcases h with h | ⟨h1, h2⟩
    · exact ⟨by omega, fun e => by omega⟩
    · exact ⟨by omega, fun _ => bytesLt_asymm a b h2⟩

theorem bytesLt_trans : ∀ (a b c : Bytes), bytesLt a b = true → bytesLt b c = true → bytesLt a c = true
  | [], _, [], _, h2 => by cases ‹Bytes› <;> simp [bytesLt] at h2
  | [], _, _ :: _, _, _ => by simp [bytesLt]
  | _ :: _, [], _, h1, _ => by simp [bytesLt] at h1
  | _ :: _, _ :: _, [], _, h2 => by simp [bytesLt] at h2
  | x :: a, y :: b, z :: c, h1, h2 => by
    simp only [bytesLt, Bool.or_eq_true, decide_eq_true_eq, Bool.and_eq_true, beq_iff_eq] at h1 h2 ⊢
    rcases h1 with h1 | ⟨e1, h1⟩ <;> rcases h2 with h2 | ⟨e2, h2⟩
    · exact Or.inl (by omega)
    · exact Or.inl (by omega)
    · exact Or.inl (by omega)
    · exact Or.inr ⟨by omega, bytesLt_trans a b c h1 h2⟩

theorem bytesLt_total : ∀ (a b : Bytes), a ≠ b → bytesLt a b = true ∨ bytesLt b a = true
  | [], [], h => absurd rfl h
  | [], _ :: _, _ => Or.inl (by simp [bytesLt])
  | _ :: _, [], _ => Or.inr (by simp [bytesLt])
  | x :: a, y :: b, h => by
    simp only [bytesLt, Bool.or_eq_true, decide_eq_true_eq, Bool.and_eq_true, beq_iff_eq]
    by_cases hxy : x.toNat < y.toNat
    · exact Or.inl (Or.inl hxy)
    · by_cases hyx : y.toNat < x.toNat
      · exact Or.inr (Or.inl hyx)
      · have e : x.toNat = y.toNat := by omega
        have exy : x = y := UInt8.toNat_inj.mp e
        have hab : a ≠ b := fun hab => h (by rw [exy, hab])
        rcases bytesLt_total a b hab with h' | h'
        · exact Or.inl (Or.inr ⟨e, h'⟩)
        · exact Or.inr (Or.inr ⟨e.symm, h'⟩)

theorem keyLt_asymm (a b : Bytes) (h : keyLt a b = true) : keyLt b a = false := by
  simp only [keyLt, Bool.or_eq_true, decide_eq_true_eq, Bool.and_eq_true, beq_iff_eq] at h
  simp only [keyLt, Bool.or_eq_false_iff, decide_eq_false_iff_not, Bool.and_eq_false_imp, beq_iff_eq]
  rcases h with h | ⟨h1, h2⟩
  · exact ⟨by omega, fun e => by omega⟩
  · exact ⟨by omega, fun _ => bytesLt_asymm a b h2⟩

theorem keyLt_trans (a b c : Bytes) (h1 : keyLt a b = true) (h2 : keyLt b c = true) : keyLt a c = true := by
  simp only [keyLt, Bool.or_eq_true, decide_eq_true_eq, Bool.and_eq_true, beq_iff_eq] at h1 h2 ⊢
  rcases h1 with h1 | ⟨e1, h1⟩ <;> rcases h2 with h2 | ⟨e2, h2⟩
  · exact Or.inl (by omega)
  · exact Or.inl (by omega)
  · exact Or.inl (by omega)
  · exact Or.inr ⟨by omega, bytesLt_trans a b c h1 h2⟩

theorem keyLt_total (a b : Bytes) (h : a ≠ b) : keyLt a b = true ∨ keyLt b a = true := by
  simp only [keyLt, Bool.or_eq_true, decide_eq_true_eq, Bool.and_eq_true, beq_iff_eq]
  by_cases h1 : a.length < b.length
  · exact Or.inl (Or.inl h1)
  · by_cases h2 : b.length < a.length
    · exact Or.inr (Or.inl h2)
    · have e : a.length = b.length := by omega
      rcases bytesLt_total a b h with h' | h'
      · exact Or.inl (Or.inr ⟨e, h'⟩)
      · exact Or.inr (Or.inr ⟨e.symm, h'⟩)

/-- The order `sortEntries` sorts by. -/
def entryLt (x y : Cbor × Cbor) : Prop := keyLt x.1.encode y.1.encode = true

theorem insertEntry_perm (e : Cbor × Cbor) : ∀ (xs : List (Cbor × Cbor)), (insertEntry e xs).Perm (e :: xs)
  | [] => List.Perm.refl _
  | x :: xs => by
    simp only [insertEntry]
    split
    · exact List.Perm.refl _
    · exact ((insertEntry_perm e xs).cons x).trans (List.Perm.swap e x xs)

theorem sortEntries_perm : ∀ (es : List (Cbor × Cbor)), (sortEntries es).Perm es
  | [] => List.Perm.refl _
  | e :: es => (insertEntry_perm e (sortEntries es)).trans ((sortEntries_perm es).cons e)

theorem insertEntry_sorted (e : Cbor × Cbor) : ∀ (xs : List (Cbor × Cbor)), xs.Pairwise entryLt →
    (∀ x ∈ xs, x.1.encode ≠ e.1.encode) → (insertEntry e xs).Pairwise entryLt
  | [], _, _ => by simp [insertEntry]
  | x :: xs, hs, hne => by
    rw [List.pairwise_cons] at hs
    simp only [insertEntry]
    split
    · rename_i hlt
      refine List.pairwise_cons.mpr ⟨?_, List.pairwise_cons.mpr hs⟩
      intro y hy
      rcases List.mem_cons.mp hy with rfl | hy'
      · exact hlt
      · exact keyLt_trans _ _ _ hlt (hs.1 y hy')
    · rename_i hnlt
      have hxe : keyLt x.1.encode e.1.encode = true := by
        rcases keyLt_total _ _ (hne x (List.mem_cons_self ..)) with h | h
        · exact h
        · exact absurd h hnlt
      refine List.pairwise_cons.mpr ⟨?_, insertEntry_sorted e xs hs.2 (fun y hy => hne y (List.mem_cons_of_mem _ hy))⟩
      intro y hy
      rcases List.mem_cons.mp ((insertEntry_perm e xs).subset hy) with rfl | hy'
      · exact hxe
      · exact hs.1 y hy'

theorem sortEntries_pairwise : ∀ (es : List (Cbor × Cbor)), (es.map (fun e => e.1.encode)).Nodup →
    (sortEntries es).Pairwise entryLt
  | [], _ => List.Pairwise.nil
  | e :: es, hn => by
    simp only [List.map_cons, List.nodup_cons] at hn
    apply insertEntry_sorted e _ (sortEntries_pairwise es hn.2)
    intro x hx hxe
    exact hn.1 (List.mem_map.mpr ⟨x, (sortEntries_perm es).subset hx, hxe⟩)

/-- **Sorting forgets the order the entries came in**: two listings of the same entries (a
permutation), with pairwise distinct encoded keys, sort to the same list. -/
theorem sortEntries_perm_eq (es es' : List (Cbor × Cbor)) (hp : es.Perm es')
    (hn : (es.map (fun e => e.1.encode)).Nodup) : sortEntries es = sortEntries es' := by
  have hn' : (es'.map (fun e => e.1.encode)).Nodup := (hp.map _).nodup_iff.mp hn
  apply List.Perm.eq_of_pairwise (le := entryLt)
  · intro a b _ _ hab hba
    have := keyLt_asymm _ _ hab
    unfold entryLt at hba
    rw [this] at hba
    cases hba
  · exact sortEntries_pairwise es hn
  · exact sortEntries_pairwise es' hn'
  · exact (sortEntries_perm es).trans (hp.trans (sortEntries_perm es').symm)

theorem mapOpt2_perm {α β γ δ : Type} (f : α → Option γ) (g : β → Option δ) {es es' : List (α × β)} (hp : es.Perm es') :
    ∀ cs, mapOpt2 f g es = some cs → ∃ cs', mapOpt2 f g es' = some cs' ∧ cs.Perm cs' := by
  induction hp with
  | nil => intro cs h; exact ⟨cs, h, List.Perm.refl _⟩
  | cons x _ ih =>
    intro cs h
    obtain ⟨a, b⟩ := x
    simp only [mapOpt2] at h ⊢
    cases hf : f a with
    | none => simp [hf] at h
    | some c =>
      cases hg : g b with
      | none => simp [hf, hg] at h
      | some d =>
        rename_i l₁ l₂ _
        cases hr : mapOpt2 f g l₁ with
        | none => simp [hf, hg, hr] at h
        | some rest =>
          simp only [hf, hg, hr, Option.some.injEq] at h
          obtain ⟨rest', h1, h2⟩ := ih rest hr
          exact ⟨(c, d) :: rest', by simp [h1], h ▸ h2.cons _⟩
  | swap x y l =>
    intro cs h
    obtain ⟨a, b⟩ := x
    obtain ⟨a', b'⟩ := y
    simp only [mapOpt2] at h ⊢
    cases hf : f a <;> cases hg : g b <;> cases hf' : f a' <;> cases hg' : g b' <;>
      cases hr : mapOpt2 f g l <;> simp_all
    rename_i c d c' d' rest
    exact h ▸ List.Perm.swap _ _ _
  | trans _ _ ih1 ih2 =>
    intro cs h
    obtain ⟨cs1, h1, p1⟩ := ih1 cs h
    obtain ⟨cs2, h2, p2⟩ := ih2 cs1 h1
    exact ⟨cs2, h2, p1.trans p2⟩

/-- **A Go map has no order, and the encoding does not depend on one**: any two listings of the
same entries (a permutation) whose encoded keys are pairwise distinct — as the keys of a Go map
are — encode to the same item. -/
theorem encodeVal_map_perm (k v : GoType) (es es' : List (GoVal × GoVal)) (hp : es.Perm es')
    (cs : List (Cbor × Cbor)) (h : mapOpt2 (encodeVal k) (encodeVal v) es = some cs)
    (hn : (cs.map (fun e => e.1.encode)).Nodup) :
    encodeVal (.map k v) (.map es) = encodeVal (.map k v) (.map es') := by
  obtain ⟨cs', h', hpc⟩ := mapOpt2_perm (encodeVal k) (encodeVal v) hp cs h
  simp only [encodeVal, h, h', Option.map_some, sortEntries_perm_eq cs cs' hpc hn]

end Juno.C07
