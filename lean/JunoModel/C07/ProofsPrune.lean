import JunoModel.C07.ModelPrune
import JunoModel.C07.ProofsChain
namespace Juno.C07

/-! ### bytewise order of the key encodings -/

theorem bytesLt_append_eq_len : ∀ (a b c d : Bytes), a.length = b.length →
    bytesLt (a ++ c) (b ++ d) = (bytesLt a b || (a == b && bytesLt c d))
  | [], [], c, d, _ => by simp [bytesLt]
  | [], _ :: _, _, _, h => by simp at h
  | _ :: _, [], _, _, h => by simp at h
  | x :: a, y :: b, c, d, h => by
    have ih := bytesLt_append_eq_len a b c d (by simpa using h)
    simp only [List.cons_append, bytesLt, ih]
    by_cases hxy : x = y
    · subst hxy; simp
    · have h1 : (x.toNat == y.toNat) = false := by
        simpa using (fun e : x.toNat = y.toNat => hxy (UInt8.toNat_inj.mp e))
      have h2 : (x :: a == y :: b) = false := by simpa using (fun (e : x = y) => absurd e hxy)
      simp [h1, h2]

theorem be_inj_bounded : ∀ (k n m : Nat), n < 256 ^ k → m < 256 ^ k → be k n = be k m → n = m := by
  intro k n m hn hm h
  have := congrArg fromBE h
  rw [fromBE_be, fromBE_be, Nat.mod_eq_of_lt hn, Nat.mod_eq_of_lt hm] at this
  exact this

/-- Big-endian fixed-width numbers compare bytewise as they compare numerically. -/
theorem bytesLt_be : ∀ (k n m : Nat), n < 256 ^ k → m < 256 ^ k → bytesLt (be k n) (be k m) = decide (n < m)
  | 0, n, m, hn, hm => by
    have h1 : n = 0 := by simpa using hn
    have h2 : m = 0 := by simpa using hm
    simp [be, bytesLt, h1, h2]
  | k + 1, n, m, hn, hm => by
    have hn' : n / 256 < 256 ^ k := by rw [Nat.pow_succ] at hn; omega
    have hm' : m / 256 < 256 ^ k := by rw [Nat.pow_succ] at hm; omega
    simp only [be]
    rw [bytesLt_append_eq_len _ _ _ _ (by simp [be_length]), bytesLt_be k _ _ hn' hm']
    have hb : (be k (n / 256) == be k (m / 256)) = decide (n / 256 = m / 256) := by
      by_cases e : n / 256 = m / 256
      · simp [e]
      · have : be k (n / 256) ≠ be k (m / 256) := fun h => e (be_inj_bounded k _ _ hn' hm' h)
        simp [e, this]
    have hl : bytesLt [UInt8.ofNat (n % 256)] [UInt8.ofNat (m % 256)] = decide (n % 256 < m % 256) := by
      simp [bytesLt, u8_toNat_ofNat (n % 256) (by omega), u8_toNat_ofNat (m % 256) (by omega)]
    rw [hb, hl]
    by_cases h1 : n / 256 < m / 256
    · have : n < m := by omega
      simp [h1, this]
    · by_cases h2 : n / 256 = m / 256
      · by_cases h3 : n % 256 < m % 256
        · have : n < m := by omega
          simp [h2, h3, this]
        · have : ¬ n < m := by omega
          simp [h2, h3, this]
      · have : ¬ n < m := by omega
        simp [h1, h2, this]

theorem bytesLt_cons_same (x : UInt8) (a b : Bytes) : bytesLt (x :: a) (x :: b) = bytesLt a b := by
  simp [bytesLt]

/-- 8-byte big-endian keys of one bucket are ordered like the block numbers. -/
theorem bytesLt_keyByNumber (b n m : Nat) (hn : n < 18446744073709551616) (hm : m < 18446744073709551616) :
    bytesLt (keyByNumber b n) (keyByNumber b m) = decide (n < m) := by
  simp only [keyByNumber, dbKey, bytesLt_cons_same]
  exact bytesLt_be 8 n m (by simpa using hn) (by simpa using hm)

/-- The canonical CBOR heads of unsigned integers (variable width: 1, 2, 3, 5 or 9 bytes) compare
bytewise as the integers compare — what makes a byte-range delete between two CBOR-encoded block
numbers delete exactly the numeric range. -/
theorem bytesLt_head0 (n m : Nat) (hn : n < 18446744073709551616) (hm : m < 18446744073709551616) :
    bytesLt (head 0 n) (head 0 m) = decide (n < m) := by
  unfold head
  by_cases n1 : n < 24 <;> by_cases m1 : m < 24
  · simp only [n1, m1, if_true, bytesLt, Nat.zero_mul, Nat.zero_add, u8_toNat_ofNat n (by omega), u8_toNat_ofNat m (by omega)]
    by_cases h : n < m <;> simp [h]
  · simp only [n1, m1, if_true, if_false]
    have hlt : n < m := by omega
    split <;> (try split) <;> (try split) <;> simp [bytesLt, hlt] <;> omega
  · simp only [n1, m1, if_true, if_false]
    have hlt : ¬ n < m := by omega
    split <;> (try split) <;> (try split) <;> simp [bytesLt, hlt] <;> omega
  · simp only [n1, m1, if_false]
    by_cases n2 : n < 256 <;> by_cases m2 : m < 256
    · simp only [n2, m2, if_true, bytesLt_cons_same]
      exact bytesLt_be 1 n m (by simpa using n2) (by simpa using m2)
    · have hlt : n < m := by omega
      simp only [n2, m2, if_true, if_false]
      split <;> (try split) <;> simp [bytesLt, hlt]
    · have hlt : ¬ n < m := by omega
      simp only [n2, m2, if_true, if_false]
      split <;> (try split) <;> simp [bytesLt, hlt]
    · simp only [n2, m2, if_false]
      by_cases n3 : n < 65536 <;> by_cases m3 : m < 65536
      · simp only [n3, m3, if_true, bytesLt_cons_same]
        exact bytesLt_be 2 n m (by simpa using n3) (by simpa using m3)
      · have hlt : n < m := by omega
        simp only [n3, m3, if_true, if_false]
        split <;> simp [bytesLt, hlt]
      · have hlt : ¬ n < m := by omega
        simp only [n3, m3, if_true, if_false]
        split <;> simp [bytesLt, hlt]
      · simp only [n3, m3, if_false]
        by_cases n4 : n < 4294967296 <;> by_cases m4 : m < 4294967296
        · simp only [n4, m4, if_true, bytesLt_cons_same]
          exact bytesLt_be 4 n m (by simpa using n4) (by simpa using m4)
        · have hlt : n < m := by omega
          simp [n4, m4, bytesLt, hlt]
        · have hlt : ¬ n < m := by omega
          simp [n4, m4, bytesLt, hlt]
        · simp only [n4, m4, if_false, bytesLt_cons_same]
          exact bytesLt_be 8 n m (by simpa using hn) (by simpa using hm)

theorem bytesLt_keyBlockTransactions (n m : Nat) (hn : n < 18446744073709551616) (hm : m < 18446744073709551616) :
    bytesLt (keyBlockTransactions n) (keyBlockTransactions m) = decide (n < m) := by
  simp only [keyBlockTransactions, dbKey, bytesLt_cons_same]
  exact bytesLt_head0 n m hn hm

/-! ### range deletes on the store -/

theorem get_filter_key (p : Bytes → Bool) (s : Store) (k : Bytes) :
    Store.get (s.filter (fun e => p e.1)) k = if p k then Store.get s k else none := by
  induction s with
  | nil => simp [Store.get]
  | cons e s ih =>
    obtain ⟨k0, v⟩ := e
    rw [List.filter_cons]
    by_cases hp : p k0 = true
    · simp only [hp, if_true, Store.get]
      by_cases hk : k0 = k
      · subst hk; simp [hp]
      · have : (k0 == k) = false := by simpa using hk
        simp only [this]
        exact ih
    · have hp' : p k0 = false := by simpa using hp
      simp only [hp', Bool.false_eq_true, if_false, ih, Store.get]
      by_cases hk : k0 = k
      · subst hk; simp [hp']
      · have : (k0 == k) = false := by simpa using hk
        simp [this]

theorem get_delRange (s : Store) (lo hi k : Bytes) :
    (s.delRange lo hi).get k = if bytesLeq lo k && bytesLt k hi then none else s.get k := by
  have := get_filter_key (fun x => !(bytesLeq lo x && bytesLt x hi)) s k
  unfold Store.delRange
  rw [this]
  by_cases h : (bytesLeq lo k && bytesLt k hi) = true <;> simp [h]

/-- A key of another bucket is never inside a range of this bucket. -/
theorem not_in_range_other_bucket (b b' : Nat) (x y suf : Bytes) (hb : b < 256) (hb' : b' < 256) (hne : b ≠ b') :
    (bytesLeq (dbKey b x) (dbKey b' suf) && bytesLt (dbKey b' suf) (dbKey b y)) = false := by
  have t1 := u8_toNat_ofNat b hb
  have t2 := u8_toNat_ofNat b' hb'
  simp only [dbKey, bytesLeq, bytesLt, t1, t2]
  by_cases h : b' < b
  · have h2 : ¬ b < b' := by omega
    have h3 : (b' == b) = false := by simpa using (fun e : b' = b => hne e.symm)
    simp [h, h3]
  · have h2 : b < b' := by omega
    have h3 : (b' == b) = false := by simpa using (fun e : b' = b => hne e.symm)
    simp [h, h3]

theorem in_range_keyByNumber (b lo hi n : Nat) (hlo : lo < 18446744073709551616) (hhi : hi < 18446744073709551616)
    (hn : n < 18446744073709551616) :
    (bytesLeq (keyByNumber b lo) (keyByNumber b n) && bytesLt (keyByNumber b n) (keyByNumber b hi)) =
      decide (lo ≤ n ∧ n < hi) := by
  simp only [bytesLeq, bytesLt_keyByNumber b n lo hn hlo, bytesLt_keyByNumber b n hi hn hhi]
  by_cases h1 : n < lo <;> by_cases h2 : n < hi <;> simp [h1, h2] <;> omega

theorem in_range_keyBlockTransactions (lo hi n : Nat) (hlo : lo < 18446744073709551616) (hhi : hi < 18446744073709551616)
    (hn : n < 18446744073709551616) :
    (bytesLeq (keyBlockTransactions lo) (keyBlockTransactions n) && bytesLt (keyBlockTransactions n) (keyBlockTransactions hi)) =
      decide (lo ≤ n ∧ n < hi) := by
  simp only [bytesLeq, bytesLt_keyBlockTransactions n lo hn hlo, bytesLt_keyBlockTransactions n hi hn hhi]
  by_cases h1 : n < lo <;> by_cases h2 : n < hi <;> simp [h1, h2] <;> omega

/-- `hasPrefix.DeleteRange(lo, hi)` on a number-keyed bucket: block `n` of THAT bucket is removed
iff `lo ≤ n < hi`; keys of other buckets are untouched. -/
theorem get_delRangeByNumber (s : Store) (b lo hi n : Nat) (hlo : lo < 18446744073709551616)
    (hhi : hi < 18446744073709551616) (hn : n < 18446744073709551616) :
    (delRangeByNumber s b lo hi).get (keyByNumber b n) = if lo ≤ n ∧ n < hi then none else s.get (keyByNumber b n) := by
  rw [delRangeByNumber, get_delRange, in_range_keyByNumber b lo hi n hlo hhi hn]
  by_cases h : lo ≤ n ∧ n < hi <;> simp [h]

theorem get_delRangeByNumber_other (s : Store) (b b' lo hi : Nat) (suf : Bytes) (hb : b < 256) (hb' : b' < 256)
    (hne : b ≠ b') : (delRangeByNumber s b lo hi).get (dbKey b' suf) = s.get (dbKey b' suf) := by
  rw [delRangeByNumber, get_delRange]
  simp only [keyByNumber, not_in_range_other_bucket b b' _ _ suf hb hb' hne]
  simp

theorem get_delRangeBlockTransactions (s : Store) (lo hi n : Nat) (hlo : lo < 18446744073709551616)
    (hhi : hi < 18446744073709551616) (hn : n < 18446744073709551616) :
    (delRangeBlockTransactions s lo hi).get (keyBlockTransactions n) =
      if lo ≤ n ∧ n < hi then none else s.get (keyBlockTransactions n) := by
  rw [delRangeBlockTransactions, get_delRange, in_range_keyBlockTransactions lo hi n hlo hhi hn]
  by_cases h : lo ≤ n ∧ n < hi <;> simp [h]

theorem get_delRangeBlockTransactions_other (s : Store) (b' lo hi : Nat) (suf : Bytes) (hb' : b' < 256)
    (hne : bBlockTransactions ≠ b') : (delRangeBlockTransactions s lo hi).get (dbKey b' suf) = s.get (dbKey b' suf) := by
  rw [delRangeBlockTransactions, get_delRange]
  simp only [keyBlockTransactions, not_in_range_other_bucket bBlockTransactions b' _ _ suf (by decide) hb' hne]
  simp

/-! ### `PruneBlockDataUpto` -/

theorem prune_get_hashKeyed (s : Store) (endx b' : Nat) (suf : Bytes) (hb' : b' < 256)
    (h1 : bBlockHeadersByNumber ≠ b') (h2 : bBlockCommitments ≠ b') (h3 : bStateUpdatesByBlockNumber ≠ b')
    (h4 : bBlockTransactions ≠ b') :
    (pruneBlockDataUpto s endx).get (dbKey b' suf) = s.get (dbKey b' suf) := by
  simp only [pruneBlockDataUpto]
  rw [get_delRangeBlockTransactions_other _ b' _ _ suf hb' h4,
    get_delRangeByNumber_other _ bStateUpdatesByBlockNumber b' _ _ suf (by decide) hb' h3,
    get_delRangeByNumber_other _ bBlockCommitments b' _ _ suf (by decide) hb' h2,
    get_delRangeByNumber_other _ bBlockHeadersByNumber b' _ _ suf (by decide) hb' h1]

theorem headerEnd_lt (endx : Nat) (he : endx < 18446744073709551616) :
    (if endx > blockHashLag then endx - blockHashLag else 0) < 18446744073709551616 := by
  split <;> omega

/-- Commitments / state update / header by number of block `n` after the prune: the three 8-byte
keyed buckets, each cut at its own bound. -/
theorem prune_get_byNumber (s : Store) (endx n : Nat) (he : endx < 18446744073709551616) (hn : n < 18446744073709551616) :
    (pruneBlockDataUpto s endx).get (keyByNumber bBlockCommitments n) =
      (if n < endx then none else s.get (keyByNumber bBlockCommitments n)) ∧
    (pruneBlockDataUpto s endx).get (keyByNumber bStateUpdatesByBlockNumber n) =
      (if n < endx then none else s.get (keyByNumber bStateUpdatesByBlockNumber n)) ∧
    (pruneBlockDataUpto s endx).get (keyByNumber bBlockHeadersByNumber n) =
      (if n + blockHashLag < endx then none else s.get (keyByNumber bBlockHeadersByNumber n)) ∧
    (pruneBlockDataUpto s endx).get (keyBlockTransactions n) =
      (if n < endx then none else s.get (keyBlockTransactions n)) := by
  have hE := headerEnd_lt endx he
  refine ⟨?_, ?_, ?_, ?_⟩
  · simp only [pruneBlockDataUpto]
    rw [show keyByNumber bBlockCommitments n = dbKey bBlockCommitments (be 8 n) from rfl,
      get_delRangeBlockTransactions_other _ _ _ _ _ (by decide) (by decide),
      get_delRangeByNumber_other _ bStateUpdatesByBlockNumber bBlockCommitments _ _ _ (by decide) (by decide) (by decide),
      show dbKey bBlockCommitments (be 8 n) = keyByNumber bBlockCommitments n from rfl,
      get_delRangeByNumber _ _ _ _ _ (by decide) he hn,
      show keyByNumber bBlockCommitments n = dbKey bBlockCommitments (be 8 n) from rfl,
      get_delRangeByNumber_other _ bBlockHeadersByNumber bBlockCommitments _ _ _ (by decide) (by decide) (by decide)]
    by_cases h : n < endx <;> simp [h]
  · simp only [pruneBlockDataUpto]
    rw [show keyByNumber bStateUpdatesByBlockNumber n = dbKey bStateUpdatesByBlockNumber (be 8 n) from rfl,
      get_delRangeBlockTransactions_other _ _ _ _ _ (by decide) (by decide),
      show dbKey bStateUpdatesByBlockNumber (be 8 n) = keyByNumber bStateUpdatesByBlockNumber n from rfl,
      get_delRangeByNumber _ _ _ _ _ (by decide) he hn,
      show keyByNumber bStateUpdatesByBlockNumber n = dbKey bStateUpdatesByBlockNumber (be 8 n) from rfl,
      get_delRangeByNumber_other _ bBlockCommitments bStateUpdatesByBlockNumber _ _ _ (by decide) (by decide) (by decide),
      get_delRangeByNumber_other _ bBlockHeadersByNumber bStateUpdatesByBlockNumber _ _ _ (by decide) (by decide) (by decide)]
    by_cases h : n < endx <;> simp [h]
  · simp only [pruneBlockDataUpto]
    rw [show keyByNumber bBlockHeadersByNumber n = dbKey bBlockHeadersByNumber (be 8 n) from rfl,
      get_delRangeBlockTransactions_other _ _ _ _ _ (by decide) (by decide),
      get_delRangeByNumber_other _ bStateUpdatesByBlockNumber bBlockHeadersByNumber _ _ _ (by decide) (by decide) (by decide),
      get_delRangeByNumber_other _ bBlockCommitments bBlockHeadersByNumber _ _ _ (by decide) (by decide) (by decide),
      show dbKey bBlockHeadersByNumber (be 8 n) = keyByNumber bBlockHeadersByNumber n from rfl,
      get_delRangeByNumber _ _ _ _ _ (by decide) hE hn]
    unfold blockHashLag
    by_cases h : n + 10 < endx
    · have : endx > 10 := by omega
      simp [h, this]; omega
    · by_cases h10 : endx > 10
      · simp [h, h10]; omega
      · simp [h, h10]
  · simp only [pruneBlockDataUpto]
    rw [get_delRangeBlockTransactions _ _ _ _ (by decide) he hn]
    by_cases h : n < endx
    · simp [h]
    · simp only [h, and_false, if_false]
      rw [show keyBlockTransactions n = dbKey bBlockTransactions (head 0 n) from rfl,
        get_delRangeByNumber_other _ bStateUpdatesByBlockNumber bBlockTransactions _ _ _ (by decide) (by decide) (by decide),
        get_delRangeByNumber_other _ bBlockCommitments bBlockTransactions _ _ _ (by decide) (by decide) (by decide),
        get_delRangeByNumber_other _ bBlockHeadersByNumber bBlockTransactions _ _ _ (by decide) (by decide) (by decide)]

/-- **Pruning by encoded key ranges keeps every block at or above the bound intact**: after
`PruneBlockDataUpto(end)` a block with number `≥ end` still reads back through every reader —
although the block-transactions bucket is cut between two variable-width CBOR keys. -/
theorem prune_keeps (s : Store) (endx : Nat) (a : BlockRec) (he : endx < 18446744073709551616)
    (ha : a.number < 18446744073709551616) (hge : endx ≤ a.number) (hr : Reads s a) :
    Reads (pruneBlockDataUpto s endx) a := by
  apply reads_congr s _ a _ hr
  intro k hk
  rw [mem_blockKeys] at hk
  obtain ⟨p1, p2, p3, p4⟩ := prune_get_byNumber s endx a.number he ha
  have hnlt : ¬ a.number < endx := by omega
  have hnlt' : ¬ a.number + blockHashLag < endx := by unfold blockHashLag; omega
  rcases hk with rfl | rfl | rfl | ⟨x, _, rfl⟩ | ⟨x, y, _, rfl⟩ | rfl | rfl
  · rw [p3]; simp [hnlt']
  · exact prune_get_hashKeyed s endx bBlockHeaderNumbersByHash _ (by decide) (by decide) (by decide) (by decide) (by decide)
  · rw [p1]; simp [hnlt]
  · exact prune_get_hashKeyed s endx bTxIndexByHash _ (by decide) (by decide) (by decide) (by decide) (by decide)
  · exact prune_get_hashKeyed s endx bL1HandlerTxnHashByMsgHash _ (by decide) (by decide) (by decide) (by decide) (by decide)
  · rw [p4]; simp [hnlt]
  · rw [p2]; simp [hnlt]

/-! ### the restorer: a second writer of the reverse lookups -/

/-- The index writes of `restorer.Run` for one block's transactions, as a list (in write order). -/
def restoreList (n : Nat) : Nat → List TxKeys → List (Bytes × Bytes)
  | _, [] => []
  | i, k :: ks =>
    (keyByHash bTxIndexByHash k.hash, encNumIndex n i) ::
      ((match k.msg with
        | some m => [(keyByHash bL1HandlerTxnHashByMsgHash m, k.hash)]
        | none => []) ++ restoreList n (i + 1) ks)

theorem restoreEntries_eq (n : Nat) : ∀ (ks : List TxKeys) (s : Store) (i : Nat),
    restoreEntries s n i ks = s.putAll (restoreList n i ks)
  | [], _, _ => rfl
  | k :: ks, s, i => by
    cases hm : k.msg with
    | none => simp [restoreEntries, restoreList, hm, Store.putAll, restoreEntries_eq n ks]
    | some m => simp [restoreEntries, restoreList, hm, Store.putAll, restoreEntries_eq n ks]

theorem mem_restoreList (n : Nat) : ∀ (ks : List TxKeys) (base : Nat) (e : Bytes × Bytes),
    e ∈ restoreList n base ks ↔
      (∃ i, ∃ (h : i < ks.length), e = (keyByHash bTxIndexByHash ks[i].hash, encNumIndex n (base + i))) ∨
      (∃ k ∈ ks, ∃ m, k.msg = some m ∧ e = (keyByHash bL1HandlerTxnHashByMsgHash m, k.hash))
  | [], _, e => by simp [restoreList]
  | k :: ks, base, e => by
    have ih := mem_restoreList n ks (base + 1) e
    simp only [restoreList, List.mem_cons, List.mem_append, ih]
    constructor
    · rintro (h | h | h)
      · exact Or.inl ⟨0, by simp, by simpa using h⟩
      · cases hm : k.msg with
        | none => simp [hm] at h
        | some m =>
          simp only [hm, List.mem_cons, List.not_mem_nil, or_false] at h
          exact Or.inr ⟨k, Or.inl rfl, m, hm, h⟩
      · rcases h with ⟨i, hi, he⟩ | ⟨k', hk', m, hm, he⟩
        · refine Or.inl ⟨i + 1, by simpa using hi, ?_⟩
          rw [he]
          have : base + 1 + i = base + (i + 1) := by omega
          simp [this]
        · exact Or.inr ⟨k', Or.inr hk', m, hm, he⟩
    · rintro (⟨i, hi, he⟩ | ⟨k', hk', m, hm, he⟩)
      · cases i with
        | zero => exact Or.inl (by simpa using he)
        | succ i =>
          refine Or.inr (Or.inr (Or.inl ⟨i, by simpa using hi, ?_⟩))
          rw [he]
          have : base + 1 + i = base + (i + 1) := by omega
          simp [this]
      · rcases hk' with rfl | hk'
        · exact Or.inr (Or.inl (by simp [hm, he]))
        · exact Or.inr (Or.inr (Or.inr ⟨k', hk', m, hm, he⟩))

/-- What the stored blob of `b` must decode to for the restorer to rebuild `b`'s entries: the
transactions' hashes in order, and for the L1 handlers the (message hash, transaction hash) pairs.
(`BlockRec.ofStored` builds exactly such records.) -/
def RestoresAs (txKeys : Bytes → Option TxKeys) (b : BlockRec) (ks : List TxKeys) : Prop :=
  readBlob b.blob (fun bl => bl.allTx txKeys) = .ok ks ∧ ks.map (·.hash) = b.txHashes ∧
    ks.filterMap (fun k => k.msg.map (fun m => (m, k.hash))) = b.l1

/-- Everything the restorer writes for block `b`. -/
def revEntries (b : BlockRec) (ks : List TxKeys) : List (Bytes × Bytes) :=
  (keyByHash bBlockHeaderNumbersByHash b.hash, encNumber b.number) :: restoreList b.number 0 ks

/-- The restorer writes a SUBSET of what `writeBlockContent` wrote for the block. -/
theorem rev_subset (b : BlockRec) (ks : List TxKeys) (h1 : ks.map (·.hash) = b.txHashes)
    (h2 : ks.filterMap (fun k => k.msg.map (fun m => (m, k.hash))) = b.l1) :
    ∀ e ∈ revEntries b ks, e ∈ blockEntries b := by
  intro e he
  rw [mem_blockEntries]
  simp only [revEntries, List.mem_cons] at he
  rcases he with rfl | he
  · exact Or.inl rfl
  · rw [mem_restoreList] at he
    rcases he with ⟨i, hi, rfl⟩ | ⟨k, hk, m, hm, rfl⟩
    · right; right; left
      have hlen : i < b.txHashes.length := by rw [← h1]; simpa using hi
      have := txIndexEntries_mem b.number b.txHashes 0 i hlen
      have e : b.txHashes[i] = ks[i].hash := by simp [← h1]
      rw [e] at this
      exact this
    · right; right; right; right; right; right; left
      refine ⟨m, k.hash, ?_, rfl⟩
      rw [← h2, List.mem_filterMap]
      exact ⟨k, hk, by simp [hm]⟩

/-- The restorer only writes hash-keyed entries: a number-keyed record is never touched. -/
theorem rev_key_bucket (b : BlockRec) (ks : List TxKeys) (e : Bytes × Bytes) (he : e ∈ revEntries b ks) :
    ∃ suf, e.1 = dbKey bBlockHeaderNumbersByHash suf ∨ e.1 = dbKey bTxIndexByHash suf ∨
      e.1 = dbKey bL1HandlerTxnHashByMsgHash suf := by
  simp only [revEntries, List.mem_cons] at he
  rcases he with rfl | he
  · exact ⟨b.hash, Or.inl rfl⟩
  · rw [mem_restoreList] at he
    rcases he with ⟨i, hi, rfl⟩ | ⟨k, hk, m, hm, rfl⟩
    · exact ⟨ks[i].hash, Or.inr (Or.inl rfl)⟩
    · exact ⟨m, Or.inr (Or.inr rfl)⟩

theorem rev_get_numberKeyed (s : Store) (b : BlockRec) (ks : List TxKeys) (k : Bytes)
    (hk : ∀ suf, k ≠ dbKey bBlockHeaderNumbersByHash suf ∧ k ≠ dbKey bTxIndexByHash suf ∧
      k ≠ dbKey bL1HandlerTxnHashByMsgHash suf) :
    (s.putAll (revEntries b ks)).get k = s.get k := by
  apply get_putAll_other
  intro e he heq
  obtain ⟨suf, h | h | h⟩ := rev_key_bucket b ks e he
  · exact (hk suf).1 (heq ▸ h)
  · exact (hk suf).2.1 (heq ▸ h)
  · exact (hk suf).2.2 (heq ▸ h)

/-- The four number-keyed records of `b` are in the store. -/
def HasRecords (s : Store) (b : BlockRec) : Prop :=
  getHeaderByNumber s b.number = some b.header ∧ getBlobByNumber s b.number = some b.blob ∧
  getStateUpdateByNumber s b.number = some b.stateUpdate ∧ getCommitmentsByNumber s b.number = some b.commitments

theorem rev_hasRecords (s : Store) (b a : BlockRec) (ks : List TxKeys) (h : HasRecords s a) :
    HasRecords (s.putAll (revEntries b ks)) a := by
  obtain ⟨h1, h2, h3, h4⟩ := h
  have num : ∀ bk n, bk = bBlockHeadersByNumber ∨ bk = bStateUpdatesByBlockNumber ∨ bk = bBlockCommitments →
      (s.putAll (revEntries b ks)).get (keyByNumber bk n) = s.get (keyByNumber bk n) := by
    intro bk n hb
    apply rev_get_numberKeyed
    intro suf
    rcases hb with rfl | rfl | rfl <;> (refine ⟨?_, ?_, ?_⟩ <;> (intro e; keys_simp; simp at e))
  have bt : (s.putAll (revEntries b ks)).get (keyBlockTransactions a.number) = s.get (keyBlockTransactions a.number) := by
    apply rev_get_numberKeyed
    intro suf
    refine ⟨?_, ?_, ?_⟩ <;> (intro e; keys_simp; simp at e)
  exact ⟨(num _ _ (Or.inl rfl)).trans h1, bt.trans h2, (num _ _ (Or.inr (Or.inl rfl))).trans h3,
    (num _ _ (Or.inr (Or.inr rfl))).trans h4⟩

/-- **The restorer rebuilds what the first writer wrote**: with `b`'s number-keyed records in place,
after the restorer's writes for `b` every reader returns `b` — by number, by hash, every
transaction location, every L1 message hash. -/
theorem rev_reads (s : Store) (b : BlockRec) (ks : List TxKeys) (hok : b.ok) (hrec : HasRecords s b)
    (h1 : ks.map (·.hash) = b.txHashes) (h2 : ks.filterMap (fun k => k.msg.map (fun m => (m, k.hash))) = b.l1) :
    Reads (s.putAll (revEntries b ks)) b := by
  obtain ⟨hn, hlen, htx, hl1⟩ := hok
  obtain ⟨r1, r4, r5, r7⟩ := rev_hasRecords s b b ks hrec
  have sub := rev_subset b ks h1 h2
  have r2 : getNumberByHash (s.putAll (revEntries b ks)) b.hash = some b.number := by
    unfold getNumberByHash
    rw [get_putAll_mem s _ _ (encNumber b.number) (by simp [revEntries]) (fun v' hv' => entry_number b v' (sub _ hv'))]
    exact decNumber_enc _ hn
  refine ⟨r1, r2, by simp [getHeaderByHash, r2, r1], r4, r5, by simp [getStateUpdateByHash, r2, r5], r7, ?_, ?_⟩
  · intro i hi
    have hik : i < ks.length := by rw [← h1] at hi; simpa using hi
    have e : b.txHashes[i] = ks[i].hash := by simp [← h1]
    unfold getTxLocation
    rw [get_putAll_mem s _ _ (encNumIndex b.number i)
      (by
        simp only [revEntries, List.mem_cons]
        right
        rw [mem_restoreList]
        exact Or.inl ⟨i, hik, by simp [e]⟩)
      (fun v' hv' => entry_txloc b htx i hi v' (sub _ hv'))]
    exact decNumIndex_enc _ _ hn (by omega)
  · intro m t hm
    unfold getL1TxHash
    apply get_putAll_mem s _ _ t _ (fun v' hv' => entry_l1 b hl1 m t hm v' (sub _ hv'))
    simp only [revEntries, List.mem_cons]
    right
    rw [mem_restoreList]
    rw [← h2, List.mem_filterMap] at hm
    obtain ⟨k, hk, hkm⟩ := hm
    cases hmsg : k.msg with
    | none => simp [hmsg] at hkm
    | some m' =>
      simp only [hmsg, Option.map_some, Option.some.injEq, Prod.mk.injEq] at hkm
      exact Or.inr ⟨k, hk, m', hmsg, by rw [← hkm.1, ← hkm.2]⟩

/-- The restorer's writes for an independent block do not disturb a block that reads back. -/
theorem rev_frame (s : Store) (a b : BlockRec) (ks : List TxKeys) (ha : a.number < 18446744073709551616)
    (hb : b.number < 18446744073709551616) (hi : Indep a b) (h1 : ks.map (·.hash) = b.txHashes)
    (h2 : ks.filterMap (fun k => k.msg.map (fun m => (m, k.hash))) = b.l1) (hr : Reads s a) :
    Reads (s.putAll (revEntries b ks)) a :=
  reads_congr s _ a (fun k hk => get_putAll_other s _ k
    (fun e he => indep_keys a b ha hb hi k hk e (rev_subset b ks h1 h2 e he))) hr

/-! ### the whole migration -/

theorem bytesLt_nil_right : ∀ (a : Bytes), bytesLt a [] = false
  | [] => rfl
  | _ :: _ => rfl

theorem get_wipeBucket_other (s : Store) (b b' : Nat) (suf : Bytes) (hb : b + 1 < 256) (hb' : b' < 256) (hne : b ≠ b') :
    (wipeBucket s b).get (dbKey b' suf) = s.get (dbKey b' suf) := by
  rw [wipeBucket, get_delRange]
  have t1 := u8_toNat_ofNat b (by omega)
  have t2 := u8_toNat_ofNat b' hb'
  have t3 := u8_toNat_ofNat (b + 1) hb
  have : (bytesLeq [UInt8.ofNat b] (dbKey b' suf) && bytesLt (dbKey b' suf) [UInt8.ofNat (b + 1)]) = false := by
    simp only [dbKey, bytesLeq, bytesLt, t1, t2, t3, bytesLt_nil_right]
    by_cases h : b' < b
    · simp [h]
    · have h2 : ¬ b' < b + 1 := by omega
      simp [h, h2]
  simp only [this, Bool.false_eq_true, if_false]

theorem wipes_get_other (s : Store) (b' : Nat) (suf : Bytes) (hb' : b' < 256) (h1 : bTxIndexByHash ≠ b')
    (h2 : bL1HandlerTxnHashByMsgHash ≠ b') (h3 : bBlockHeaderNumbersByHash ≠ b') :
    (wipeBucket (wipeBucket (wipeBucket s bTxIndexByHash) bL1HandlerTxnHashByMsgHash) bBlockHeaderNumbersByHash).get (dbKey b' suf) =
      s.get (dbKey b' suf) := by
  rw [get_wipeBucket_other _ _ b' suf (by decide) hb' h3, get_wipeBucket_other _ _ b' suf (by decide) hb' h2,
    get_wipeBucket_other _ _ b' suf (by decide) hb' h1]

/-- After the prune and the wipes a retained block still has its four number-keyed records. -/
theorem setup_hasRecords (s : Store) (floor : Nat) (a : BlockRec) (hf : floor < 18446744073709551616)
    (ha : a.number < 18446744073709551616) (hge : floor ≤ a.number) (hr : Reads s a) :
    HasRecords (wipeBucket (wipeBucket (wipeBucket (pruneBlockDataUpto s floor) bTxIndexByHash) bL1HandlerTxnHashByMsgHash)
      bBlockHeaderNumbersByHash) a := by
  obtain ⟨r1, _, _, r4, r5, _, r7, _, _⟩ := prune_keeps s floor a hf ha hge hr
  refine ⟨?_, ?_, ?_, ?_⟩
  · exact (wipes_get_other _ bBlockHeadersByNumber _ (by decide) (by decide) (by decide) (by decide)).trans r1
  · exact (wipes_get_other _ bBlockTransactions _ (by decide) (by decide) (by decide) (by decide)).trans r4
  · exact (wipes_get_other _ bStateUpdatesByBlockNumber _ (by decide) (by decide) (by decide) (by decide)).trans r5
  · exact (wipes_get_other _ bBlockCommitments _ (by decide) (by decide) (by decide) (by decide)).trans r7

theorem put_hasRecords (s : Store) (h v : Bytes) (a : BlockRec) (hr : HasRecords s a) :
    HasRecords (s.put (keyByHash bBlockHeaderNumbersByHash h) v) a := by
  obtain ⟨h1, h2, h3, h4⟩ := hr
  have ne : ∀ k, (∀ suf, k ≠ dbKey bBlockHeaderNumbersByHash suf) →
      (s.put (keyByHash bBlockHeaderNumbersByHash h) v).get k = s.get k := by
    intro k hk
    have : (keyByHash bBlockHeaderNumbersByHash h == k) = false := by
      simpa using (fun e : keyByHash bBlockHeaderNumbersByHash h = k => hk h e.symm)
    simp [Store.put, Store.get, this]
  refine ⟨(ne _ ?_).trans h1, (ne _ ?_).trans h2, (ne _ ?_).trans h3, (ne _ ?_).trans h4⟩ <;>
    (intro suf e; keys_simp; simp at e)

theorem restoreBlock_eq (suHash : Bytes → Option Bytes) (txKeys : Bytes → Option TxKeys) (s : Store) (b : BlockRec)
    (ks : List TxKeys) (hrec : HasRecords s b) (hsu : suHash b.stateUpdate = some b.hash) (hr : RestoresAs txKeys b ks) :
    restoreBlock suHash txKeys s b.number = .ok (s.putAll (revEntries b ks)) := by
  obtain ⟨_, r4, r5, _⟩ := hrec
  simp only [restoreBlock, r5, hsu, r4, hr.1, Res.map, restoreEntries_eq, revEntries, Store.putAll]

/-- The stores the restorer goes through, block after block. -/
def restoreAll (s : Store) : List (BlockRec × List TxKeys) → Store
  | [] => s
  | p :: rest => restoreAll (s.putAll (revEntries p.1 p.2)) rest

theorem restoreRange_eq (suHash : Bytes → Option Bytes) (txKeys : Bytes → Option TxKeys) :
    ∀ (kept : List (BlockRec × List TxKeys)) (s : Store) (n : Nat),
    (∀ i (h : i < kept.length), kept[i].1.number = n + i) →
    (∀ p ∈ kept, HasRecords s p.1 ∧ suHash p.1.stateUpdate = some p.1.hash ∧ RestoresAs txKeys p.1 p.2) →
    restoreRange suHash txKeys s n kept.length = .ok (restoreAll s kept)
  | [], _, _, _, _ => rfl
  | p :: rest, s, n, hnum, hall => by
    obtain ⟨hrec, hsu, hr⟩ := hall p (List.mem_cons_self ..)
    have hn : p.1.number = n := by
      have := hnum 0 (by simp)
      simp only [List.getElem_cons_zero, Nat.add_zero] at this
      exact this
    simp only [List.length_cons, restoreRange, ← hn, restoreBlock_eq suHash txKeys s p.1 p.2 hrec hsu hr, Res.bind, restoreAll]
    apply restoreRange_eq suHash txKeys rest _ (p.1.number + 1)
    · intro i h
      have := hnum (i + 1) (by simpa using h)
      simp only [List.getElem_cons_succ] at this
      omega
    · intro q hq
      obtain ⟨h1, h2, h3⟩ := hall q (List.mem_cons_of_mem _ hq)
      exact ⟨rev_hasRecords s p.1 q.1 p.2 h1, h2, h3⟩

theorem reads_restoreAll_frame (a : BlockRec) (ha : a.number < 18446744073709551616) :
    ∀ (rest : List (BlockRec × List TxKeys)) (s : Store),
    (∀ q ∈ rest, q.1.number < 18446744073709551616 ∧ Indep a q.1 ∧ q.2.map (·.hash) = q.1.txHashes ∧
      q.2.filterMap (fun k => k.msg.map (fun m => (m, k.hash))) = q.1.l1) →
    Reads s a → Reads (restoreAll s rest) a
  | [], _, _, hr => hr
  | q :: rest, s, h, hr => by
    obtain ⟨h1, h2, h3, h4⟩ := h q (List.mem_cons_self ..)
    exact reads_restoreAll_frame a ha rest _ (fun x hx => h x (List.mem_cons_of_mem _ hx))
      (rev_frame s a q.1 q.2 ha h1 h2 h3 h4 hr)

theorem reads_restoreAll : ∀ (kept : List (BlockRec × List TxKeys)) (s : Store),
    (∀ p ∈ kept, p.1.ok ∧ HasRecords s p.1 ∧ p.2.map (·.hash) = p.1.txHashes ∧
      p.2.filterMap (fun k => k.msg.map (fun m => (m, k.hash))) = p.1.l1) →
    (kept.map (·.1)).Pairwise Indep → ∀ p ∈ kept, Reads (restoreAll s kept) p.1
  | [], _, _, _, p, hp => by simp at hp
  | q :: rest, s, hall, hpw, p, hp => by
    simp only [List.map_cons, List.pairwise_cons] at hpw
    obtain ⟨hok, hrec, h1, h2⟩ := hall q (List.mem_cons_self ..)
    rcases List.mem_cons.mp hp with rfl | hp'
    · apply reads_restoreAll_frame p.1 hok.1 rest _ _ (rev_reads s p.1 p.2 hok hrec h1 h2)
      intro x hx
      obtain ⟨xok, _, x1, x2⟩ := hall x (List.mem_cons_of_mem _ hx)
      exact ⟨xok.1, hpw.1 x.1 (List.mem_map.mpr ⟨x, hx, rfl⟩), x1, x2⟩
    · apply reads_restoreAll rest _ _ hpw.2 p hp'
      intro x hx
      obtain ⟨xok, xrec, x1, x2⟩ := hall x (List.mem_cons_of_mem _ hx)
      exact ⟨xok, rev_hasRecords s q.1 x.1 q.2 xrec, x1, x2⟩

/-- **The history-pruner migration keeps every retained block readable through every reader.**
`kept` are the blocks `floor … height` (in order) with what their stored blobs decode to, `c` the
block just below the cutoff. The migration prunes, WIPES the three reverse-lookup buckets and
rebuilds them with its own copy of the index-writing loop; it succeeds, and afterwards every
retained block reads back by number, by hash, by each transaction hash and by each L1 message hash. -/
theorem hpMigrate_keeps (hdrHash suHash : Bytes → Option Bytes) (txKeys : Bytes → Option TxKeys) (s : Store)
    (floor height : Nat) (c : BlockRec) (h : Bytes) (kept : List (BlockRec × List TxKeys))
    (hfl : 1 ≤ floor) (hfh : floor ≤ height) (hc : getHeaderByNumber s (floor - 1) = some c.header) (hch : hdrHash c.header = some h)
    (hlen : floor + kept.length = height + 1) (hh : height < 18446744073709551616)
    (hnum : ∀ i (hi : i < kept.length), kept[i].1.number = floor + i)
    (hall : ∀ p ∈ kept, p.1.ok ∧ Reads s p.1 ∧ suHash p.1.stateUpdate = some p.1.hash ∧ RestoresAs txKeys p.1 p.2)
    (hpw : (kept.map (·.1)).Pairwise Indep) :
    ∃ s', hpMigrate hdrHash suHash txKeys s floor height = .ok s' ∧ ∀ p ∈ kept, Reads s' p.1 := by
  have hf : floor < 18446744073709551616 := by omega
  -- the header of the block below the cutoff survives the prune (BlockHashLag window) and the wipes
  have hc1 : getHeaderByNumber (wipeBucket (wipeBucket (wipeBucket (pruneBlockDataUpto s floor) bTxIndexByHash)
      bL1HandlerTxnHashByMsgHash) bBlockHeaderNumbersByHash) (floor - 1) = some c.header := by
    unfold getHeaderByNumber
    rw [show keyByNumber bBlockHeadersByNumber (floor - 1) = dbKey bBlockHeadersByNumber (be 8 (floor - 1)) from rfl,
      wipes_get_other _ bBlockHeadersByNumber _ (by decide) (by decide) (by decide) (by decide),
      show dbKey bBlockHeadersByNumber (be 8 (floor - 1)) = keyByNumber bBlockHeadersByNumber (floor - 1) from rfl,
      (prune_get_byNumber s floor (floor - 1) hf (by omega)).2.2.1]
    have : ¬ floor - 1 + blockHashLag < floor := by unfold blockHashLag; omega
    simp only [this, if_false]
    exact hc
  have klen : height + 1 - floor = kept.length := by omega
  have geq : ∀ p ∈ kept, floor ≤ p.1.number := by
    intro p hp
    obtain ⟨i, hi, rfl⟩ := List.getElem_of_mem hp
    rw [hnum i hi]; omega
  refine ⟨restoreAll ((wipeBucket (wipeBucket (wipeBucket (pruneBlockDataUpto s floor) bTxIndexByHash)
    bL1HandlerTxnHashByMsgHash) bBlockHeaderNumbersByHash).put (keyByHash bBlockHeaderNumbersByHash h)
    (encNumber (floor - 1))) kept, ?_, ?_⟩
  · simp only [hpMigrate, hc1, hch, klen]
    apply restoreRange_eq suHash txKeys kept _ floor hnum
    intro p hp
    obtain ⟨pok, pr, psu, pra⟩ := hall p hp
    exact ⟨put_hasRecords _ _ _ _ (setup_hasRecords s floor p.1 hf pok.1 (geq p hp) pr), psu, pra⟩
  · apply reads_restoreAll kept _ _ hpw
    intro p hp
    obtain ⟨pok, pr, _, pra⟩ := hall p hp
    exact ⟨pok, put_hasRecords _ _ _ _ (setup_hasRecords s floor p.1 hf pok.1 (geq p hp) pr), pra.2.1, pra.2.2⟩

end Juno.C07
