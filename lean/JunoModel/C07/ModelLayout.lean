import JunoModel.C07.ModelPrune
/-
C07 — model, part 10 (round 5): the OLDER writer's database and the code that upgrades it.

  db/dbutils/upper_bound.go               UpperBound(prefix): the exclusive end of a prefix scan (prefixes ending
                                          in 0xff, all-0xff prefixes)
  db/typed/prefix/bucket.go               scan / iterate: `NewIterator(prefix, withUpperBound = true)`, entries in
                                          key order (key, value)
  db/typed/prefix/tag.go, scan_state.go   Prefix().Add(head): prefix ‖ encoded head;  DeletePrefix;  DeleteRange
  migration/blocktransactions/txlayout    the per-transaction layout (buckets 10 / 11, key = bucket ‖ be64(number) ‖
                                          be64(index)): WriteTransactionsAndReceipts, TransactionByBlockAndIndex,
                                          TransactionsByBlockNumber, ReceiptsByBlockNumber — a frozen second copy of
                                          the accessors for records written by earlier binaries
  migration/blocktransactions             Migrator.Migrate: getFirstBlockToMigrate, migrateBlockRange (ranges of
                                          batchSize = 10 blocks), ingestBlock (scan both old buckets, build the blob
                                          from the RAW stored items, validateCount with its already-migrated and
                                          missing branches), deleteOldBlockRangeData, backfillEmptyBlocks (from
                                          pruner.OldestRetainedBlock), clearOldBuckets

The four ingestor goroutines write into separate batches and read from the database (not from
their batch); every block's reads (its header, its old entries, its blob) are disjoint from every
other block's writes, so the model runs the blocks in order on one store. Core Lean only.
-/
namespace Juno.C07

/-! ## Prefix scans -/

/-- `dbutils.UpperBound`: drop the trailing 0xff bytes, increment the last remaining byte; `none`
(Go: nil = unbounded) when every byte is 0xff or the prefix is empty. -/
def upperBound : Bytes → Option Bytes
  | [] => none
  | b :: rest =>
    match upperBound rest with
    | some u => some (b :: u)
    | none => if b.toNat = 255 then none else some [UInt8.ofNat (b.toNat + 1)]

def isPrefix : Bytes → Bytes → Bool
  | [], _ => true
  | _ :: _, [] => false
  | a :: as, b :: bs => a.toNat == b.toNat && isPrefix as bs

/-- The keys `NewIterator(prefix, true)` visits: lower bound = the prefix itself, upper bound =
`UpperBound(prefix)` when there is one. -/
def inIterRange (p k : Bytes) : Bool :=
  bytesLeq p k && (match upperBound p with
                   | some u => bytesLt k u
                   | none => true)

/-- Live entries (the most recent write of a key wins), one per key. -/
def Store.live : Store → Store
  | [] => []
  | (k, v) :: rest => (k, v) :: (Store.live rest).filter (fun e => !(e.1 == k))

def kvLe (a b : Bytes × Bytes) : Bool := bytesLeq a.1 b.1

/-- `PrefixedBucket.scan(database, prefix)`: the live entries of the iterator's range, in key order
(values as stored: the raw buckets of the migration take them as they are). -/
def Store.scan (s : Store) (p : Bytes) : List (Bytes × Bytes) :=
  (Store.live (s.filter (fun e => inIterRange p e.1))).mergeSort kvLe

/-! ## The per-transaction layout (buckets 10 and 11) -/

def bTxsByNumIdx : Nat := 10
def bRcsByNumIdx : Nat := 11

/-- `key.Marshal[db.BlockNumIndexKey]`: bucket ‖ be64(number) ‖ be64(index). -/
def keyNumIdx (bucket n i : Nat) : Bytes := dbKey bucket (be 8 n ++ be 8 i)

/-- `bucket.Prefix().Add(blockNumber)`: bucket ‖ be64(number). -/
def prefixNum (bucket n : Nat) : Bytes := dbKey bucket (be 8 n)

/-- The values of `Prefix().Add(n).Scan(db)`, in index order. -/
def scanBlockValues (s : Store) (bucket n : Nat) : List Bytes := (s.scan (prefixNum bucket n)).map (·.2)

/-- The item entries of `TransactionLayoutPerTx.WriteTransactionsAndReceipts`: for every transaction
`index` the transaction under (n, index) in bucket 10 and `receipts[index]` under the same key in
bucket 11 (`none`: fewer receipts than transactions — the Go code indexes out of range). -/
def perTxEntries (n : Nat) : Nat → List Bytes → List Bytes → Option (List (Bytes × Bytes))
  | _, [], _ => some []
  | _, _ :: _, [] => none
  | i, t :: ts, r :: rs =>
    (perTxEntries n (i + 1) ts rs).map fun es =>
      (keyNumIdx bTxsByNumIdx n i, t) :: (keyNumIdx bRcsByNumIdx n i, r) :: es

/-- `TransactionLayoutPerTx.WriteTransactionsAndReceipts`: the hash → (number, index) entries (the
same loop as the combined layout), then the items. -/
def writePerTx (s : Store) (n : Nat) (hashes txs rcs : List Bytes) : Res Store :=
  match perTxEntries n 0 txs rcs with
  | some es => .ok ((s.putAll (txIndexEntries n 0 hashes)).putAll es)
  | none => .panic

/-- `TransactionLayoutPerTx.TransactionByBlockAndIndex` / `ReceiptByBlockAndIndex` (stored bytes). -/
def getPerTxItem (s : Store) (bucket n i : Nat) : Option Bytes := s.get (keyNumIdx bucket n i)

/-! ## The block-transactions migration -/

/-- `cbor.RawMessage.MarshalCBOR`: the bytes as they are; an EMPTY raw message encodes as `null`. -/
def encRaw (v : Bytes) : Bytes := if v.isEmpty then [0xf6] else v

def batchSize : Nat := 10

/-- `ingestor.ingestBlock` + `validateCount`. `txCount` reads `TransactionCount` out of the stored
header with the FULL decoder (`GetBlockHeaderByNumber`); `int(...)` of it is compared with the
numbers of scanned items. Results: the store with the block's blob put (`.ok`), the store unchanged
(already migrated), `.notFound` (no header), `.decodeErr` (every validation error). -/
def ingestBlock (txCount : Bytes → Option Nat) (s : Store) (n : Nat) : Res Store :=
  match getHeaderByNumber s n with
  | none => .notFound
  | some hb =>
    match txCount hb with
    | none => .decodeErr
    | some c0 =>
      let c := intOfU64 c0
      let txs := scanBlockValues s bTxsByNumIdx n
      let rcs := scanBlockValues s bRcsByNumIdx n
      let counts : Res Store :=
        if (txs.length : Int) ≠ c then .decodeErr
        else if (rcs.length : Int) ≠ c then .decodeErr
        else .ok (s.put (keyBlockTransactions n) (Blob.build encRaw encRaw txs rcs).marshal)
      if txs.length = 0 ∨ rcs.length = 0 then
        if (getBlobByNumber s n).isSome then .ok s          -- already migrated: keep the entry
        else if c > 0 then .decodeErr                        -- "missing transactions and receipts"
        else counts
      else counts

/-- `deleteOldBlockRangeData(batch, start, end)`: `[start, end+1)` in both old buckets (`end+1` in
`uint64`). -/
def deleteOldRange (s : Store) (lo hi : Nat) : Store :=
  delRangeByNumber (delRangeByNumber s bTxsByNumIdx lo ((hi + 1) % twoP64)) bRcsByNumIdx lo ((hi + 1) % twoP64)

/-- Blocks `n, n+1, …` (`k` of them) through `ingestBlock`. -/
def ingestFrom (txCount : Bytes → Option Nat) : Store → Nat → Nat → Res Store
  | s, _, 0 => .ok s
  | s, n, k + 1 => (ingestBlock txCount s n).bind fun s' => ingestFrom txCount s' (n + 1) k

/-- `ingestor.ingestBlockRange(batch, start, end)`. -/
def ingestBlockRange (txCount : Bytes → Option Nat) (s : Store) (lo hi : Nat) : Res Store :=
  (ingestFrom txCount s lo (hi + 1 - lo)).map fun s' => deleteOldRange s' lo hi

/-- `migrateBlockRange`: ranges `[start, min(start + 9, height)]` for `start = first, first + 10, … ≤ height`. -/
def passLoop (txCount : Bytes → Option Nat) : Store → Nat → Nat → Nat → Res Store
  | s, _, _, 0 => .ok s
  | s, start, height, k + 1 =>
    if start > height then .ok s
    else (ingestBlockRange txCount s start (min (start + batchSize - 1) height)).bind fun s' =>
      passLoop txCount s' (start + batchSize) height k

def migratePass (txCount : Bytes → Option Nat) (s : Store) (first height : Nat) : Res Store :=
  passLoop txCount s first height ((height - first) / batchSize + 1)

/-- `getFirstBlockInBucket`: the block number in the first key of the bucket (`key[1:]` must hold a
`BlockNumIndexKey`: at least 16 bytes). -/
def firstNumberIn (s : Store) (bucket : Nat) : Res (Option Nat) :=
  match s.scan [UInt8.ofNat bucket] with
  | [] => .ok none
  | (k, _) :: _ => if (k.drop 1).length < 16 then .decodeErr else .ok (some (fromBE ((k.drop 1).take 8)))

/-- `getFirstBlockToMigrate`: both old buckets must start at the same block; rounded down to a
multiple of `batchSize`. -/
def firstBlockToMigrate (s : Store) : Res (Option Nat) :=
  (firstNumberIn s bTxsByNumIdx).bind fun t =>
    (firstNumberIn s bRcsByNumIdx).bind fun r =>
      match t, r with
      | none, none => .ok none
      | some a, some b => if a = b then .ok (some (a - a % batchSize)) else .decodeErr
      | _, _ => .decodeErr

/-- `pruner.OldestRetainedBlock`: the number in the first key of the block-commitments bucket (the
key must be exactly 9 bytes); `none` = `ErrKeyNotFound`. -/
def oldestRetained (s : Store) : Res (Option Nat) :=
  match s.scan [UInt8.ofNat bBlockCommitments] with
  | [] => .ok none
  | (k, _) :: _ => if k.length ≠ 9 then .decodeErr else .ok (some (fromBE ((k.drop 1).take 8)))

def emptyBlob : Bytes := (Blob.build (fun (b : Bytes) => b) (fun (b : Bytes) => b) [] []).marshal

/-- `backfillEmptyBlocks`: blocks `n, n+1, …` (`k` of them); a block without a combined entry must
have `TransactionCount = 0` (header PROJECTION, `txCountP`) and gets the empty blob. -/
def backfillFrom (txCountP : Bytes → Option Nat) : Store → Nat → Nat → Res Store
  | s, _, 0 => .ok s
  | s, n, k + 1 =>
    if (getBlobByNumber s n).isSome then backfillFrom txCountP s (n + 1) k
    else
      match getHeaderByNumber s n with
      | none => .notFound
      | some hb =>
        match txCountP hb with
        | none => .decodeErr
        | some c =>
          if c > 0 then .decodeErr
          else backfillFrom txCountP (s.put (keyBlockTransactions n) emptyBlob) (n + 1) k

def backfillEmptyBlocks (txCountP : Bytes → Option Nat) (s : Store) (height : Nat) : Res Store :=
  (oldestRetained s).bind fun o => backfillFrom txCountP s (o.getD 0) (height + 1 - o.getD 0)

/-- `clearOldBuckets`: `DeletePrefix` of both old buckets. -/
def clearOldBuckets (s : Store) : Store := wipeBucket (wipeBucket s bTxsByNumIdx) bRcsByNumIdx

/-- The `for` loop of `Migrator.Migrate` (`fuel` passes; running out of fuel = the loop does not
terminate: `.panic`). -/
def btLoop (txCount txCountP : Bytes → Option Nat) : Store → Nat → Nat → Res Store
  | _, _, 0 => .panic
  | s, height, fuel + 1 =>
    (firstBlockToMigrate s).bind fun fb =>
      match fb with
      | none => (backfillEmptyBlocks txCountP s height).map clearOldBuckets
      | some first =>
        if first > height then .decodeErr
        else (migratePass txCount s first height).bind fun s' => btLoop txCount txCountP s' height fuel

/-- `Migrator.Migrate` on the block-record buckets: nothing to do on an empty chain. -/
def btMigrate (txCount txCountP : Bytes → Option Nat) (s : Store) (fuel : Nat) : Res Store :=
  match getChainHeight s with
  | none => .ok s
  | some h => btLoop txCount txCountP s h fuel

/-! ### typed instances for the driver -/

/-- `GetBlockHeaderByNumber(...).TransactionCount` (full decoder). -/
def fullHeaderTxCount (cfg : DecCfg) (hdr : Bytes) : Option Nat :=
  match unmarshalVal cfg tHeader hdr with
  | some hv =>
    match getField tHeader kTransactionCount hv with
    | some (.uint c) => some c
    | _ => none
  | none => none

/-- `GetBlockTransactionCountByNumber` (projection). -/
def projHeaderTxCount (cfg : DecCfg) (hdr : Bytes) : Option Nat :=
  match getBlockTransactionCount cfg hdr with
  | some (.uint c) => some c
  | _ => none

end Juno.C07
