import JunoModel.C07.ModelVal
/-
C07 — specification predicates for the typed layer: which (type, value) pairs are "storable
values" in the sense of the round-trip theorem.
-/
namespace Juno.C07

/-- Types whose encodings are never null / undefined: the legal targets of a pointer (a pointer to
something that may itself encode as null could not be told apart from a nil pointer). -/
def nonNull : GoType → Bool
  | .uint _ => true
  | .bool => true
  | .str => true
  | .felt => true
  | .struct _ => true
  | _ => false

/-- Types whose zero value is `nil` (the only ones `omitempty` is used with). -/
def nilZero : GoType → Bool
  | .bytes => true
  | .ptr _ => true
  | .slice _ => true
  | .map _ _ => true
  | .iface _ => true
  | _ => false

def keyAbsent (k : Bytes) : List (Bytes × Bool × GoType) → Bool
  | [] => true
  | (k', _, _) :: fs => !(k' == k) && keyAbsent k fs

def keysDistinct : List (Bytes × Bool × GoType) → Bool
  | [] => true
  | (k, _, _) :: fs => keyAbsent k fs && keysDistinct fs

def tagAbsent (t : Nat) : List (Nat × GoType) → Bool
  | [] => true
  | (t', _) :: as => !(t' == t) && tagAbsent t as

def tagsDistinct : List (Nat × GoType) → Bool
  | [] => true
  | (t, _) :: as => tagAbsent t as && tagsDistinct as

mutual
/-- Well-formed record types: integer widths ≤ 64, pointers to non-nullable targets, distinct keys
(of encodable length) per struct, `omitempty` only on nil-zero types, distinct tags per interface, no discards. -/
def okType : GoType → Bool
  | .uint bits => bits ≤ 64
  | .bool => true
  | .str => true
  | .bytes => true
  | .felt => true
  | .raw => true
  | .ptr t => nonNull t && okType t
  | .slice t => okType t
  | .map k v => okType k && okType v
  | .struct fs => keysDistinct fs && okFields fs
  | .iface alts => tagsDistinct alts && okAlts alts
  | .discard => false
def okFields : List (Bytes × Bool × GoType) → Bool
  | [] => true
  | (key, om, t) :: fs => (!om || nilZero t) && decide (key.length < 18446744073709551616) && okType t && okFields fs
def okAlts : List (Nat × GoType) → Bool
  | [] => true
  | (tag, t) :: alts => decide (tag < 18446744073709551616) && okType t && okAlts alts
end

/-- Strictly increasing (adjacent pairs) in the encoder's key order. -/
def strictlySorted : List Bytes → Bool
  | [] => true
  | [_] => true
  | a :: b :: rest => keyLt a b && strictlySorted (b :: rest)

/-- Encoded key of a map entry (empty if the key does not have the key type). -/
def encKey (k : GoType) (e : GoVal × GoVal) : Bytes :=
  match encodeVal k e.1 with
  | some c => c.encode
  | none => []

def allB {α : Type} (p : α → Bool) : List α → Bool
  | [] => true
  | x :: xs => p x && allB p xs

mutual
/-- `v` is a value of type `t` as the decoder would produce it: integers in range, strings valid
UTF-8 when the decoder insists on it, map entries in the canonical order of their encoded keys
(a Go map has no order: this picks the representative), an empty `omitempty` field is nil. -/
def wt (cfg : DecCfg) : GoType → GoVal → Bool
  | .uint bits, .uint n => n < 2 ^ bits
  | .bool, .bool _ => true
  | .str, .str s => !cfg.rejectInvalidUTF8 || utf8Valid s
  | .bytes, .nil => true
  | .bytes, .bytes _ => true
  | .felt, .felt a b c d => a < u64 && b < u64 && c < u64 && d < u64
  | .raw, .raw _ => true
  | .ptr _, .nil => true
  | .ptr t, v => wt cfg t v
  | .slice _, .nil => true
  | .slice t, .list xs => allB (wt cfg t) xs
  | .map _ _, .nil => true
  | .map k v, .map kvs => allB (fun e => wt cfg k e.1 && wt cfg v e.2) kvs && strictlySorted (kvs.map (encKey k))
  | .struct fs, .struct vs => wtFields cfg fs vs
  | .iface _, .nil => true
  | .iface alts, .iface i v => wtAlt cfg alts i v
  | _, _ => false
def wtFields (cfg : DecCfg) : List (Bytes × Bool × GoType) → List GoVal → Bool
  | [], [] => true
  | (_, om, t) :: fs, v :: vs =>
    wt cfg t v && (!(om && v.isEmpty) || (match v with | .nil => true | _ => false)) && wtFields cfg fs vs
  | _, _ => false
def wtAlt (cfg : DecCfg) : List (Nat × GoType) → Nat → GoVal → Bool
  | [], _, _ => false
  | (_, t) :: _, 0, v => wt cfg t v
  | _ :: alts, i + 1, v => wtAlt cfg alts i v
end

mutual
/-- Sizes that CBOR can express: every length and integer below 2^64, opaque items well-formed.
(Always true of a value held in memory; the counterpart of `Cbor.wf` on the Go side.) -/
def fitsVal : GoVal → Bool
  | .nil => true
  | .unit => true
  | .uint n => n < 18446744073709551616
  | .bool _ => true
  | .str s => s.length < 18446744073709551616
  | .bytes b => b.length < 18446744073709551616
  | .felt _ _ _ _ => true
  | .raw c => c.wf
  | .list xs => xs.length < 18446744073709551616 && fitsVals xs
  | .struct vs => vs.length < 18446744073709551616 && fitsVals vs
  | .map kvs => kvs.length < 18446744073709551616 && fitsPairs kvs
  | .iface _ v => fitsVal v
def fitsVals : List GoVal → Bool
  | [] => true
  | v :: vs => fitsVal v && fitsVals vs
def fitsPairs : List (GoVal × GoVal) → Bool
  | [] => true
  | (k, v) :: kvs => fitsVal k && (fitsVal v && fitsPairs kvs)
end

/-- Field values well-typed one by one, WITHOUT the canonical-representative condition on
`omitempty` fields (an `omitempty` field may hold an empty, non-nil value). -/
def wtFieldsLoose (cfg : DecCfg) : List (Bytes × Bool × GoType) → List GoVal → Bool
  | [], [] => true
  | (_, _, t) :: fs, v :: vs => wt cfg t v && wtFieldsLoose cfg fs vs
  | _, _ => false

/-- Normal form of a struct's field values under the codec: an `omitempty` field that is empty is
not written and therefore reads back as the zero value of its type. -/
def normFields : List (Bytes × Bool × GoType) → List GoVal → List GoVal
  | (_, om, t) :: fs, v :: vs => (if om && v.isEmpty then zeroVal t else v) :: normFields fs vs
  | _, _ => []

end Juno.C07
