/-
Line protocol shared by every model driver: one request per line on stdin, one answer per
line on stdout. Core Lean only (this module is linked into the `cNNdrv` executables).
-/
namespace Juno.Proto

def hexDigit (n : Nat) : Char :=
  if n < 10 then Char.ofNat (48 + n) else Char.ofNat (87 + n)

def hexVal? (c : Char) : Option Nat :=
  if '0' ≤ c ∧ c ≤ '9' then some (c.toNat - 48)
  else if 'a' ≤ c ∧ c ≤ 'f' then some (c.toNat - 87)
  else if 'A' ≤ c ∧ c ≤ 'F' then some (c.toNat - 55)
  else none

/-- Bytes as lower-case hex; the empty byte string is written `-` so that it stays a token. -/
def bytesToHex (bs : List UInt8) : String :=
  if bs.isEmpty then "-" else
  String.ofList (bs.foldr (fun b acc => hexDigit (b.toNat / 16) :: hexDigit (b.toNat % 16) :: acc) [])

def hexToBytesAux : List Char → Option (List UInt8)
  | [] => some []
  | [_] => none
  | a :: b :: rest => do
    let x ← hexVal? a
    let y ← hexVal? b
    let tl ← hexToBytesAux rest
    pure (UInt8.ofNat (x * 16 + y) :: tl)

def hexToBytes? (s : String) : Option (List UInt8) :=
  if s == "-" then some [] else hexToBytesAux s.toList

/-- Natural number as hex without prefix (for felts and other big values). -/
def natToHex (n : Nat) : String := String.ofList (Nat.toDigits 16 n)

def hexToNat? (s : String) : Option Nat :=
  if s.isEmpty then none else
  s.toList.foldl (fun acc c => do let a ← acc; let v ← hexVal? c; pure (a * 16 + v)) (some 0)

def words (line : String) : List String :=
  (line.splitOn " ").filter (fun w => !w.isEmpty)

/-- Strip the trailing newline / carriage return of a line read with `getLine`. -/
def chomp (s : String) : String :=
  String.ofList (s.toList.reverse.dropWhile (fun c => c == '\n' || c == '\r')).reverse

/-- Read lines until end of input, threading a state; `step` returns the new state and the
answer line. -/
partial def loop {σ : Type} (step : σ → String → σ × String) (init : σ) : IO Unit := do
  let stdin ← IO.getStdin
  let stdout ← IO.getStdout
  let rec go (s : σ) : IO Unit := do
    let line ← stdin.getLine
    if line.isEmpty then
      stdout.flush
      return ()
    let (s', out) := step s (chomp line)
    stdout.putStrLn out
    stdout.flush
    go s'
  go init

end Juno.Proto
