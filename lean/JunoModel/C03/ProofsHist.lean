import JunoModel.C03.ProofsFold
/-!
C03 — helper lemmas. Part 4: `writeHistory` / `deleteHistory` (and the legacy log deletion),
pointwise per history key.
-/
namespace Juno.C03

theorem histPut_get (h : Bucket HKey Hist) (key : HKey) (b : Nat) (v : Val) (y : HKey) :
    lget (histPut h key b v) y = if y = key then hput (lget h key) b v else lget h y := by
  unfold histPut; rw [lget_lset]

theorem histDel_get (h : Bucket HKey Hist) (key : HKey) (b : Nat) (y : HKey) :
    lget (histDel h key b) y = if y = key then hdel (lget h key) b else lget h y := by
  unfold histDel; rw [lget_lset]

theorem hdel_idem (h : Hist) (b : Nat) : hdel (hdel h b) b = hdel h b := by
  unfold hdel; simp [List.filter_filter]

/-- a loop of single-key operations `op h (K p.1) p.2` on a history bucket -/
theorem histFold_get {γ : Type} (op : Bucket HKey Hist → HKey → γ → Bucket HKey Hist) (g : Hist → γ → Hist)
    (hop : ∀ h key x y, lget (op h key x) y = if y = key then g (lget h key) x else lget h y)
    (K : Nat → HKey) (hK : ∀ x y, K x = K y → x = y)
    (l : List (Nat × γ)) (hnd : (l.map (·.1)).Nodup) (h : Bucket HKey Hist) (x : Nat) :
    lget (l.foldl (fun h p => op h (K p.1) p.2) h) (K x) =
      ocases (alook l x) (lget h (K x)) (fun v => g (lget h (K x)) v) := by
  exact foldl_pointwise (M := Bucket HKey Hist) lget K hK (fun _ old v => g old v)
    (fun h p => op h (K p.1) p.2) l
    (by intro m p _ y; rw [hop]; constructor <;> intro e <;> simp_all) hnd h x

theorem histFold_frame {γ : Type} (op : Bucket HKey Hist → HKey → γ → Bucket HKey Hist) (g : Hist → γ → Hist)
    (hop : ∀ h key x y, lget (op h key x) y = if y = key then g (lget h key) x else lget h y)
    (K : Nat → HKey) (l : List (Nat × γ)) (h : Bucket HKey Hist) (y : HKey) (hy : ∀ x, y ≠ K x) :
    lget (l.foldl (fun h p => op h (K p.1) p.2) h) y = lget h y := by
  apply foldl_frame (fun h => lget h y)
  intro m p _
  show lget (op m (K p.1) p.2) y = lget m y
  rw [hop]; simp [hy p.1]

/-- the nested loop over `StorageDiffs` -/
theorem storageFold_get {γ : Type} (op : Bucket HKey Hist → HKey → γ → Bucket HKey Hist) (g : Hist → γ → Hist)
    (hop : ∀ h key x y, lget (op h key x) y = if y = key then g (lget h key) x else lget h y)
    (st : List (Addr × List (Slot × γ))) (hnd : (st.map (·.1)).Nodup)
    (hnds : ∀ p ∈ st, (p.2.map (·.1)).Nodup) (h : Bucket HKey Hist) (a : Addr) (k : Slot) :
    lget (st.foldl (fun h p => p.2.foldl (fun h e => op h (.storage p.1 e.1) e.2) h) h) (.storage a k) =
      ocases ((alook st a).bind (fun slots => alook slots k)) (lget h (.storage a k))
        (fun v => g (lget h (.storage a k)) v) := by
  have := foldl_pointwise (M := Bucket HKey Hist) (κ := Addr) (ρ := Slot → Hist) (γ := List (Slot × γ))
    (fun h a => fun k => lget h (.storage a k)) id (fun _ _ e => e)
    (fun _ old slots => fun k => ocases (alook slots k) (old k) (fun v => g (old k) v))
    (fun h p => p.2.foldl (fun h e => op h (.storage p.1 e.1) e.2) h) st
    (by
      intro m p hp y
      constructor
      · intro e
        simp only [id] at e
        subst e
        funext k
        exact histFold_get op g hop (fun k => HKey.storage p.1 k) (by intro x z e; cases e; rfl) p.2 (hnds p hp) m k
      · intro e
        funext k
        exact histFold_frame op g hop (fun k => HKey.storage p.1 k) p.2 m (.storage y k)
          (by intro x e'; cases e'; exact e rfl)) hnd h a
  have h2 := congrFun this k
  simp only [id] at h2
  rw [h2]
  cases alook st a <;> rfl

theorem storageFold_frame {γ : Type} (op : Bucket HKey Hist → HKey → γ → Bucket HKey Hist) (g : Hist → γ → Hist)
    (hop : ∀ h key x y, lget (op h key x) y = if y = key then g (lget h key) x else lget h y)
    (st : List (Addr × List (Slot × γ))) (h : Bucket HKey Hist) (y : HKey) (hy : ∀ a k, y ≠ .storage a k) :
    lget (st.foldl (fun h p => p.2.foldl (fun h e => op h (.storage p.1 e.1) e.2) h) h) y = lget h y := by
  apply foldl_frame (fun h => lget h y)
  intro m p _
  exact histFold_frame op g hop (fun k => HKey.storage p.1 k) p.2 m y (fun x => hy p.1 x)

theorem histPut_op : ∀ (h : Bucket HKey Hist) (b : Nat) key x y,
    lget ((fun h key v => histPut h key b v) h key x) y = if y = key then (fun old v => hput old b v) (lget h key) x else lget h y := by
  intro h b key x y; exact histPut_get h key b x y

/-- `writeHistory`, pointwise (either order of the two class-hash loops: under `Diff.WF` no address
is in both) -/
theorem histPutAll_get (fix : Bool) (h : Bucket HKey Hist) (b : Nat) (d : Diff) (hwf : d.WF) (key : HKey) :
    lget (histPutAll fix h b d) key = ocases (entryOf d key) (lget h key) (fun v => hput (lget h key) b v) := by
  unfold histPutAll
  have hop := fun h key x y => histPut_get h key b x y
  cases fix <;> simp only [Bool.false_eq_true, if_false, if_true] <;> cases key with
  | storage a k =>
    rw [histFold_frame (fun h key v => histPut h key b v) (fun old v => hput old b v) hop HKey.classHash _ _ _ (by intro x e; cases e)]
    rw [histFold_frame (fun h key v => histPut h key b v) (fun old v => hput old b v) hop HKey.classHash _ _ _ (by intro x e; cases e)]
    rw [histFold_frame (fun h key v => histPut h key b v) (fun old v => hput old b v) hop HKey.nonce _ _ _ (by intro x e; cases e)]
    exact storageFold_get (fun h key v => histPut h key b v) (fun old v => hput old b v) hop d.storage
      hwf.storNodup hwf.slotNodup h a k
  | nonce a =>
    rw [histFold_frame (fun h key v => histPut h key b v) (fun old v => hput old b v) hop HKey.classHash _ _ _ (by intro x e; cases e)]
    rw [histFold_frame (fun h key v => histPut h key b v) (fun old v => hput old b v) hop HKey.classHash _ _ _ (by intro x e; cases e)]
    rw [histFold_get (fun h key v => histPut h key b v) (fun old v => hput old b v) hop HKey.nonce (by intro x y e; cases e; rfl)
      d.nonces hwf.nonceNodup]
    rw [storageFold_frame (fun h key v => histPut h key b v) (fun old v => hput old b v) hop d.storage h _ (by intro a k e; cases e)]
    simp only [entryOf]
  | classHash a =>
    rw [histFold_get (fun h key v => histPut h key b v) (fun old v => hput old b v) hop HKey.classHash (by intro x y e; cases e; rfl)
      _ (by first | exact hwf.depNodup | exact hwf.repNodup)]
    rw [histFold_get (fun h key v => histPut h key b v) (fun old v => hput old b v) hop HKey.classHash (by intro x y e; cases e; rfl)
      _ (by first | exact hwf.repNodup | exact hwf.depNodup)]
    rw [histFold_frame (fun h key v => histPut h key b v) (fun old v => hput old b v) hop HKey.nonce _ _ _ (by intro x e; cases e)]
    rw [storageFold_frame (fun h key v => histPut h key b v) (fun old v => hput old b v) hop d.storage h _ (by intro a k e; cases e)]
    simp only [entryOf]
    cases hd : alook d.deployed a with
    | none => simp
    | some c =>
      have hmem : a ∈ d.deployed.map (·.1) := (alook_isSome_iff _ _).mp (by simp [hd])
      have := (alook_eq_none_iff _ _).mpr (hwf.depRepDisj a hmem)
      simp [this]

/-- does `deleteHistory` touch this key? -/
def delKey (d : Diff) : HKey → Bool
  | .storage a k => (d.storageAt a k).isSome
  | .nonce a => (alook d.nonces a).isSome || (alook d.deployed a).isSome
  | .classHash a => (alook d.replaced a).isSome || (alook d.deployed a).isSome

theorem histDel_op (b : Nat) : ∀ (h : Bucket HKey Hist) key (x : Nat) y,
    lget ((fun h key (_ : Nat) => histDel h key b) h key x) y =
      if y = key then (fun old (_ : Nat) => hdel old b) (lget h key) x else lget h y :=
  fun h key _ y => histDel_get h key b y

/-- the loop of `deleteHistory` over `DeployedContracts` deletes two keys per entry -/
theorem deployedDel_get (b : Nat) (l : List (Addr × CHash)) (hnd : (l.map (·.1)).Nodup) (h : Bucket HKey Hist)
    (key : HKey) :
    lget (l.foldl (fun h p => histDel (histDel h (.nonce p.1) b) (.classHash p.1) b) h) key =
      match key with
      | .storage _ _ => lget h key
      | .nonce a => ocases (alook l a) (lget h key) (fun _ => hdel (lget h key) b)
      | .classHash a => ocases (alook l a) (lget h key) (fun _ => hdel (lget h key) b) := by
  cases key with
  | storage a k =>
    show lget _ (HKey.storage a k) = lget h (HKey.storage a k)
    apply foldl_frame (get := fun (h : Bucket HKey Hist) => lget h (HKey.storage a k))
    intro m p _
    simp [histDel_get]
  | nonce a =>
    exact foldl_pointwise (M := Bucket HKey Hist) (κ := Addr) (fun h a => lget h (.nonce a)) id (fun _ _ e => e)
      (fun _ old _ => hdel old b) (fun h p => histDel (histDel h (.nonce p.1) b) (.classHash p.1) b) l
      (by
        intro m p _ y
        simp only [histDel_get, id]
        constructor
        · intro e; subst e; simp
        · intro e; simp [e]) hnd h a
  | classHash a =>
    exact foldl_pointwise (M := Bucket HKey Hist) (κ := Addr) (fun h a => lget h (.classHash a)) id (fun _ _ e => e)
      (fun _ old _ => hdel old b) (fun h p => histDel (histDel h (.nonce p.1) b) (.classHash p.1) b) l
      (by
        intro m p _ y
        simp only [histDel_get, id]
        constructor
        · intro e; subst e; simp
        · intro e; simp [e]) hnd h a

/-- `deleteHistory`, pointwise -/
theorem histDelAll_get (h : Bucket HKey Hist) (b : Nat) (d : Diff) (hwf : d.WF) (key : HKey) :
    lget (histDelAll h b d) key = if delKey d key = true then hdel (lget h key) b else lget h key := by
  unfold histDelAll
  have hop := histDel_op b
  rw [deployedDel_get b d.deployed hwf.depNodup]
  cases key with
  | storage a k =>
    simp only
    rw [histFold_frame (fun h key (_ : Nat) => histDel h key b) (fun old _ => hdel old b) hop HKey.classHash _ _ _ (by intro x e; cases e)]
    rw [histFold_frame (fun h key (_ : Nat) => histDel h key b) (fun old _ => hdel old b) hop HKey.nonce _ _ _ (by intro x e; cases e)]
    rw [storageFold_get (fun h key (_ : Nat) => histDel h key b) (fun old _ => hdel old b) hop d.storage
      hwf.storNodup hwf.slotNodup h a k]
    simp only [delKey, Diff.storageAt, ocases_isSome]
    rfl
  | nonce a =>
    simp only
    rw [histFold_frame (fun h key (_ : Nat) => histDel h key b) (fun old _ => hdel old b) hop HKey.classHash _ _ _ (by intro x e; cases e)]
    rw [histFold_get (fun h key (_ : Nat) => histDel h key b) (fun old _ => hdel old b) hop HKey.nonce (by intro x y e; cases e; rfl)
      d.nonces hwf.nonceNodup]
    rw [storageFold_frame (fun h key (_ : Nat) => histDel h key b) (fun old _ => hdel old b) hop d.storage h _ (by intro a k e; cases e)]
    simp only [delKey, ocases_isSome]
    by_cases h1 : (alook d.nonces a).isSome = true <;> by_cases h2 : (alook d.deployed a).isSome = true <;>
      simp [h1, h2, hdel_idem]
  | classHash a =>
    simp only
    rw [histFold_get (fun h key (_ : Nat) => histDel h key b) (fun old _ => hdel old b) hop HKey.classHash (by intro x y e; cases e; rfl)
      d.replaced hwf.repNodup]
    rw [histFold_frame (fun h key (_ : Nat) => histDel h key b) (fun old _ => hdel old b) hop HKey.nonce _ _ _ (by intro x e; cases e)]
    rw [storageFold_frame (fun h key (_ : Nat) => histDel h key b) (fun old _ => hdel old b) hop d.storage h _ (by intro a k e; cases e)]
    simp only [delKey, ocases_isSome]
    by_cases h1 : (alook d.replaced a).isSome = true <;> by_cases h2 : (alook d.deployed a).isSome = true <;>
      simp [h1, h2, hdel_idem]

/-- does the legacy `performStateDeletions` touch this key? -/
def logDelKey (d : Diff) : HKey → Bool
  | .storage a k => (d.storageAt a k).isSome
  | .nonce a => (alook d.nonces a).isSome
  | .classHash a => (alook d.replaced a).isSome

/-- legacy `performStateDeletions`, pointwise -/
theorem logsDelAll_get (h : Bucket HKey Hist) (b : Nat) (d : Diff) (hwf : d.WF) (key : HKey) :
    lget (logsDelAll h b d) key = if logDelKey d key = true then hdel (lget h key) b else lget h key := by
  unfold logsDelAll
  have hop := histDel_op b
  cases key with
  | storage a k =>
    simp only
    rw [histFold_frame (fun h key (_ : Nat) => histDel h key b) (fun old _ => hdel old b) hop HKey.classHash _ _ _ (by intro x e; cases e)]
    rw [histFold_frame (fun h key (_ : Nat) => histDel h key b) (fun old _ => hdel old b) hop HKey.nonce _ _ _ (by intro x e; cases e)]
    rw [storageFold_get (fun h key (_ : Nat) => histDel h key b) (fun old _ => hdel old b) hop d.storage
      hwf.storNodup hwf.slotNodup h a k]
    simp only [logDelKey, Diff.storageAt, ocases_isSome]
    rfl
  | nonce a =>
    simp only
    rw [histFold_frame (fun h key (_ : Nat) => histDel h key b) (fun old _ => hdel old b) hop HKey.classHash _ _ _ (by intro x e; cases e)]
    rw [histFold_get (fun h key (_ : Nat) => histDel h key b) (fun old _ => hdel old b) hop HKey.nonce (by intro x y e; cases e; rfl)
      d.nonces hwf.nonceNodup]
    rw [storageFold_frame (fun h key (_ : Nat) => histDel h key b) (fun old _ => hdel old b) hop d.storage h _ (by intro a k e; cases e)]
    simp only [logDelKey, ocases_isSome]
    rfl
  | classHash a =>
    simp only
    rw [histFold_get (fun h key (_ : Nat) => histDel h key b) (fun old _ => hdel old b) hop HKey.classHash (by intro x y e; cases e; rfl)
      d.replaced hwf.repNodup]
    rw [histFold_frame (fun h key (_ : Nat) => histDel h key b) (fun old _ => hdel old b) hop HKey.nonce _ _ _ (by intro x e; cases e)]
    rw [storageFold_frame (fun h key (_ : Nat) => histDel h key b) (fun old _ => hdel old b) hop d.storage h _ (by intro a k e; cases e)]
    simp only [logDelKey, ocases_isSome]
    rfl

end Juno.C03
