import JunoModel.C03.ProofsLegacyFold
/-!
C03 — helper lemmas. Part 9: the legacy backend. `LInv ch s` ties the concrete state to the chain:
the logs are exactly `logsOf ch` — every change of a key at block b has a log at b holding the value
before b, and the only writes without log are those that do not change the value (zero written to an
unset slot) and deployments (class hash; masked by the deployment height).
-/
namespace Juno.C03

structure LInv (ch : List Diff) (s : LState) : Prop where
  wf : ∀ d ∈ ch, d.WF
  depOnce : DepOnce ch
  undep : Hered UndepZero ch
  logs : ∀ key, lget s.logs key = logsOf ch key
  classHash : ∀ a, isSystem a = false → bget s.classHash a = ((absOf ch).dep a).map (fun _ => (absOf ch).cls a)
  nonce : ∀ a, isSystem a = false → bget s.nonce a = ((absOf ch).dep a).map (fun _ => (absOf ch).nonce a)
  deployHeight : ∀ a, isSystem a = false → bget s.deployHeight a = (absOf ch).dep a
  trie : ∀ a k, tget (lget s.trie a) k = (absOf ch).stor a k
  trieNZ : ∀ a, NoZero (lget s.trie a)
  classes : ∀ c, bget s.classes c = (absOf ch).decl c

theorem linv_init : LInv [] LState.empty where
  wf := by intro d hd; cases hd
  depOnce := trivial
  undep := undepZero_nil
  logs := by intro key; rfl
  classHash := by intro a _; rfl
  nonce := by intro a _; rfl
  deployHeight := by intro a _; rfl
  trie := by intro a k; rfl
  trieNZ := by intro a p hp; cases hp
  classes := by intro c; rfl

theorem any_false_forall {α : Type} (l : List α) (f : α → Bool) (h : ¬ l.any f = true) : ∀ p ∈ l, f p = false := by
  intro p hp
  cases hf : f p with
  | false => rfl
  | true => exact absurd (List.any_eq_true.mpr ⟨p, hp, hf⟩) h

/-- the state after the loops of `updateContracts` (guards passed) -/
def LState.afterContracts (s : LState) (log : Bool) (b : Nat)
    (replaced : List (Addr × CHash)) (nonces : List (Addr × Val)) (storage : List (Addr × List (Slot × Val))) : LState :=
  (((s.replaceAll log b replaced).nonceAll log b nonces).deploySystem b (storage.map (·.1))).storageAll log b storage

theorem updateContracts_ok (s s' : LState) (log : Bool) (b : Nat) (replaced : List (Addr × CHash))
    (nonces : List (Addr × Val)) (storage : List (Addr × List (Slot × Val)))
    (h : s.updateContracts log b replaced nonces storage = .ok s') :
    s' = s.afterContracts log b replaced nonces storage ∧
    (∀ p ∈ replaced, (bget s.classHash p.1).isSome = true) ∧
    (∀ p ∈ nonces, (bget (s.replaceAll log b replaced).classHash p.1).isSome = true) ∧
    (∀ p ∈ storage, (bget (((s.replaceAll log b replaced).nonceAll log b nonces).deploySystem b
      (storage.map (·.1))).classHash p.1).isSome = true) := by
  unfold LState.updateContracts at h
  by_cases h1 : (replaced.any fun p => (bget s.classHash p.1).isNone) = true
  · simp [h1] at h
  · simp only [h1, Bool.false_eq_true, if_false] at h
    by_cases h2 : (nonces.any fun p => (bget (s.replaceAll log b replaced).classHash p.1).isNone) = true
    · simp [h2] at h
    · simp only [h2, Bool.false_eq_true, if_false] at h
      split at h
      · cases h
      · next h3 =>
        cases h
        refine ⟨rfl, ?_, ?_, ?_⟩
        · intro p hp
          have := any_false_forall _ _ h1 p hp
          simpa using this
        · intro p hp
          have := any_false_forall _ _ h2 p hp
          simpa using this
        · intro p hp
          have := any_false_forall _ _ h3 p hp
          simpa using this

/-- the state `updateContracts` starts from in `Update` -/
def LState.deployed0 (s : LState) (b : Nat) (d : Diff) : LState :=
  ({ s with classes := declareFold s.classes b d.newClasses }).deploy b d.deployed

/-- the guards of the legacy `Update`, as facts, and its result -/
structure LGuards (s : LState) (b : Nat) (d : Diff) : Prop where
  g1 : ∀ p ∈ d.deployed, bget s.classHash p.1 = none
  g2 : ∀ p ∈ d.replaced, (bget (s.deployed0 b d).classHash p.1).isSome = true
  g3 : ∀ p ∈ d.nonces, (bget ((s.deployed0 b d).replaceAll true b d.replaced).classHash p.1).isSome = true
  g4 : ∀ p ∈ d.storage, (bget ((((s.deployed0 b d).replaceAll true b d.replaced).nonceAll true b d.nonces).deploySystem b
      (d.storage.map (·.1))).classHash p.1).isSome = true

theorem legacy_update_ok (s s' : LState) (b : Nat) (d : Diff) (h : s.update b d = .ok s') :
    LGuards s b d ∧ s' = (s.deployed0 b d).afterContracts true b d.replaced d.nonces d.storage := by
  unfold LState.update at h
  simp only at h
  by_cases h1 : (d.deployed.any fun p => (bget s.classHash p.1).isSome) = true
  · simp [h1] at h
  · simp only [h1, Bool.false_eq_true, if_false] at h
    obtain ⟨hs, hg2, hg3, hg4⟩ := updateContracts_ok _ _ _ _ _ _ _ h
    refine ⟨⟨?_, hg2, hg3, hg4⟩, hs⟩
    intro p hp
    have := any_false_forall _ _ h1 p hp
    simpa using this

/-! ### fields of `afterContracts` at ordinary addresses -/

theorem isSystem_one : isSystem 1 = true := rfl
theorem isSystem_two : isSystem 2 = true := rfl

theorem deploySystem_ordinary (s : LState) (b : Nat) (addrs : List Addr) (a : Addr) (ha : isSystem a = false) :
    bget (s.deploySystem b addrs).classHash a = bget s.classHash a ∧
    bget (s.deploySystem b addrs).nonce a = bget s.nonce a ∧
    bget (s.deploySystem b addrs).deployHeight a = bget s.deployHeight a := by
  unfold LState.deploySystem LState.deploy
  simp only
  have hframe : ∀ {β : Type} (g : Addr × CHash → Option β) (m : Bucket Addr β),
      bget (((addrs.filter (fun a => isSystem a && (bget s.classHash a).isNone)).map (fun a => (a, (0 : CHash)))).foldl
        (fun m p => bset m p.1 (g p)) m) a = bget m a := by
    intro β g m
    apply foldl_frame (get := fun (m : Bucket Addr β) => bget m a)
    intro m' p hp
    obtain ⟨x, hx, rfl⟩ := List.mem_map.mp hp
    have hsys : isSystem x = true := by
      have := (List.mem_filter.mp hx).2
      simp only [Bool.and_eq_true] at this
      exact this.1
    have : a ≠ x := by intro e; subst e; simp [ha] at hsys
    simp [bget_bset, this]
  exact ⟨hframe (fun p => some p.2) _, hframe (fun _ => some 0) _, hframe (fun _ => some b) _⟩

theorem deploySystem_frame (s : LState) (b : Nat) (addrs : List Addr) :
    (s.deploySystem b addrs).trie = s.trie ∧ (s.deploySystem b addrs).logs = s.logs ∧
    (s.deploySystem b addrs).classes = s.classes := ⟨rfl, rfl, rfl⟩


/-- what the loops of `updateContracts` leave, field by field -/
theorem afterContracts_spec (s0 : LState) (log : Bool) (b : Nat) (R : List (Addr × CHash)) (N : List (Addr × Val))
    (S : List (Addr × List (Slot × Val))) (hR : (R.map (·.1)).Nodup) (hN : (N.map (·.1)).Nodup)
    (hS : (S.map (·.1)).Nodup) (hSS : ∀ p ∈ S, (p.2.map (·.1)).Nodup) :
    let A := s0.afterContracts log b R N S
    (∀ a, isSystem a = false →
      bget A.classHash a = ocases (alook R a) (bget s0.classHash a) (fun c => (bget s0.classHash a).map (fun _ => c)) ∧
      bget A.nonce a = ocases (alook N a) (bget s0.nonce a) (fun v => (bget s0.nonce a).map (fun _ => v)) ∧
      bget A.deployHeight a = bget s0.deployHeight a) ∧
    (∀ a, lget A.trie a =
      ocases (alook S a) (lget s0.trie a) (fun slots => slots.foldl (fun t e => tput t e.1 e.2) (lget s0.trie a))) ∧
    A.classes = s0.classes ∧
    (∀ a, lget A.logs (.classHash a) =
      ocases (alook R a) (lget s0.logs (.classHash a)) (fun _ =>
        ocases (bget s0.classHash a) (lget s0.logs (.classHash a)) (fun old =>
          if log = true then hput (lget s0.logs (.classHash a)) b old else lget s0.logs (.classHash a)))) ∧
    (∀ a, lget A.logs (.nonce a) =
      ocases (alook N a) (lget s0.logs (.nonce a)) (fun _ =>
        ocases (bget s0.nonce a) (lget s0.logs (.nonce a)) (fun old =>
          if log = true then hput (lget s0.logs (.nonce a)) b old else lget s0.logs (.nonce a)))) ∧
    (∀ a k, lget A.logs (.storage a k) =
      ocases (alook S a) (lget s0.logs (.storage a k)) (fun slots =>
        ocases (alook slots k) (lget s0.logs (.storage a k)) (fun v =>
          if (log && (v != 0 || (alook (lget s0.trie a) k).isSome)) = true
          then hput (lget s0.logs (.storage a k)) b ((alook (lget s0.trie a) k).getD 0)
          else lget s0.logs (.storage a k)))) := by
  intro A
  -- the stages, in the exact shape the fold lemmas speak about
  have eTrie : A.trie = (S.foldl (storageStep log b) (s0.trie, (N.foldl (logSetStep HKey.nonce log b)
      (s0.nonce, (R.foldl (logSetStep HKey.classHash log b) (s0.classHash, s0.logs)).2)).2)).1 := rfl
  have eLogs : A.logs = (S.foldl (storageStep log b) (s0.trie, (N.foldl (logSetStep HKey.nonce log b)
      (s0.nonce, (R.foldl (logSetStep HKey.classHash log b) (s0.classHash, s0.logs)).2)).2)).2 := rfl
  have hRfold := logSetFold_get HKey.classHash (by intro x y e; cases e; rfl) log b R hR (s0.classHash, s0.logs)
  have hNfold := logSetFold_get HKey.nonce (by intro x y e; cases e; rfl) log b N hN
    (s0.nonce, (R.foldl (logSetStep HKey.classHash log b) (s0.classHash, s0.logs)).2)
  have hSfold := storageFold_legacy log b S hS hSS
    (s0.trie, (N.foldl (logSetStep HKey.nonce log b) (s0.nonce, (R.foldl (logSetStep HKey.classHash log b) (s0.classHash, s0.logs)).2)).2)
  have hlogsN_cls : ∀ a, lget (N.foldl (logSetStep HKey.nonce log b)
      (s0.nonce, (R.foldl (logSetStep HKey.classHash log b) (s0.classHash, s0.logs)).2)).2 (.classHash a) =
      lget (R.foldl (logSetStep HKey.classHash log b) (s0.classHash, s0.logs)).2 (.classHash a) :=
    fun a => logSetFold_frame HKey.nonce log b N _ _ (by intro x e; cases e)
  have hlogsR_nonce : ∀ a, lget (R.foldl (logSetStep HKey.classHash log b) (s0.classHash, s0.logs)).2 (.nonce a) =
      lget s0.logs (.nonce a) := fun a => logSetFold_frame HKey.classHash log b R _ _ (by intro x e; cases e)
  have hlogsR_st : ∀ a k, lget (R.foldl (logSetStep HKey.classHash log b) (s0.classHash, s0.logs)).2 (.storage a k) =
      lget s0.logs (.storage a k) := fun a k => logSetFold_frame HKey.classHash log b R _ _ (by intro x e; cases e)
  have hlogsN_st : ∀ a k, lget (N.foldl (logSetStep HKey.nonce log b)
      (s0.nonce, (R.foldl (logSetStep HKey.classHash log b) (s0.classHash, s0.logs)).2)).2 (.storage a k) =
      lget s0.logs (.storage a k) := by
    intro a k
    rw [logSetFold_frame HKey.nonce log b N _ _ (by intro x e; cases e)]
    exact hlogsR_st a k
  refine ⟨?_, ?_, rfl, ?_, ?_, ?_⟩
  · intro a ha
    have hds := deploySystem_ordinary ((s0.replaceAll log b R).nonceAll log b N) b (S.map (·.1)) a ha
    have e1 : bget A.classHash a = bget (R.foldl (logSetStep HKey.classHash log b) (s0.classHash, s0.logs)).1 a := hds.1
    have e2 : bget A.nonce a = bget (N.foldl (logSetStep HKey.nonce log b)
      (s0.nonce, (R.foldl (logSetStep HKey.classHash log b) (s0.classHash, s0.logs)).2)).1 a := hds.2.1
    have e3 : bget A.deployHeight a = bget s0.deployHeight a := hds.2.2
    refine ⟨?_, ?_, e3⟩
    · rw [e1]
      have := congrArg Prod.fst (hRfold a)
      simp only [lsGet] at this
      rw [this]
      rcases alook R a with _ | c
      · rfl
      · rcases bget s0.classHash a with _ | old <;> rfl
    · rw [e2]
      have := congrArg Prod.fst (hNfold a)
      simp only [lsGet] at this
      rw [this]
      rcases alook N a with _ | v
      · rfl
      · rcases bget s0.nonce a with _ | old <;> rfl
  · intro a
    rw [eTrie]
    have := congrArg Prod.fst (hSfold a)
    simp only [ssGet] at this
    rw [this]
    rcases alook S a with _ | slots <;> rfl
  · intro a
    rw [eLogs, storageFold_legacy_frame log b S hSS _ _ (by intro x k e; cases e), hlogsN_cls a]
    have := congrArg Prod.snd (hRfold a)
    simp only [lsGet] at this
    rw [this]
    rcases alook R a with _ | c
    · rfl
    · rcases bget s0.classHash a with _ | old <;> rfl
  · intro a
    rw [eLogs, storageFold_legacy_frame log b S hSS _ _ (by intro x k e; cases e)]
    have := congrArg Prod.snd (hNfold a)
    simp only [lsGet] at this
    rw [this, hlogsR_nonce a]
    rcases alook N a with _ | v
    · rfl
    · rcases bget s0.nonce a with _ | old <;> rfl
  · intro a k
    rw [eLogs]
    have := congrFun (congrArg Prod.snd (hSfold a)) k
    simp only [ssGet] at this
    rw [this]
    rcases alook S a with _ | slots
    · simp only [ocases_none]; exact hlogsN_st a k
    · simp only [ocases_some]
      rw [hlogsN_st a k]
      rfl


theorem replaceAll_classHash (s0 : LState) (log : Bool) (b : Nat) (R : List (Addr × CHash))
    (hR : (R.map (·.1)).Nodup) (a : Addr) :
    bget (s0.replaceAll log b R).classHash a =
      ocases (alook R a) (bget s0.classHash a) (fun c => (bget s0.classHash a).map (fun _ => c)) := by
  have := congrArg Prod.fst
    (logSetFold_get HKey.classHash (by intro x y e; cases e; rfl) log b R hR (s0.classHash, s0.logs) a)
  simp only [lsGet] at this
  show bget (R.foldl (logSetStep HKey.classHash log b) (s0.classHash, s0.logs)).1 a = _
  rw [this]
  rcases alook R a with _ | c
  · rfl
  · rcases bget s0.classHash a with _ | old <;> rfl

theorem deployed0_fields (s : LState) (b : Nat) (d : Diff) (hwf : d.WF) (a : Addr) :
    bget (s.deployed0 b d).classHash a = ocases (alook d.deployed a) (bget s.classHash a) (fun c => some c) ∧
    bget (s.deployed0 b d).nonce a = ocases (alook d.deployed a) (bget s.nonce a) (fun _ => some 0) ∧
    bget (s.deployed0 b d).deployHeight a = ocases (alook d.deployed a) (bget s.deployHeight a) (fun _ => some b) := by
  unfold LState.deployed0 LState.deploy
  exact ⟨bsetFold_get (fun c => some c) d.deployed hwf.depNodup _ a,
    bsetFold_get (fun _ => some 0) d.deployed hwf.depNodup _ a,
    bsetFold_get (fun _ => some b) d.deployed hwf.depNodup _ a⟩

theorem replaced_not_system (d : Diff) (hwf : d.WF) (a : Addr) (h : a ∈ d.replaced.map (·.1)) : isSystem a = false := by
  cases hs : isSystem a with
  | false => rfl
  | true => exact absurd h (hwf.noSys a hs).2.1

theorem nonces_not_system (d : Diff) (hwf : d.WF) (a : Addr) (h : a ∈ d.nonces.map (·.1)) : isSystem a = false := by
  cases hs : isSystem a with
  | false => rfl
  | true => exact absurd h (hwf.noSys a hs).2.2

theorem mem_keys {β : Type} (l : List (Nat × β)) (a : Nat) (v : β) (h : alook l a = some v) : a ∈ l.map (·.1) :=
  (alook_isSome_iff l a).mp (by simp [h])

/-- legacy `Update` extends the invariant by the stored block -/
theorem linv_store (ch : List Diff) (s s' : LState) (d : Diff) (hinv : LInv ch s) (hwf : d.WF)
    (hup : s.update ch.length d = .ok s') : LInv (d :: ch) s' := by
  obtain ⟨hg, hs'⟩ := legacy_update_ok s s' ch.length d hup
  have hspec := afterContracts_spec (s.deployed0 ch.length d) true ch.length d.replaced d.nonces d.storage
    hwf.repNodup hwf.nonceNodup hwf.storNodup hwf.slotNodup
  simp only at hspec
  obtain ⟨hord, htrie, hcls, hlogC, hlogN, hlogS⟩ := hspec
  have hd0 := deployed0_fields s ch.length d hwf
  have e0trie : (s.deployed0 ch.length d).trie = s.trie := rfl
  have e0logs : (s.deployed0 ch.length d).logs = s.logs := rfl
  have e0cls : (s.deployed0 ch.length d).classes = declareFold s.classes ch.length d.newClasses := rfl
  have habs : absOf (d :: ch) = (absOf ch).apply ch.length d := rfl
  have hdep0 : ∀ a, a ∈ d.deployed.map (·.1) → (absOf ch).dep a = none := by
    intro a ha
    obtain ⟨p, hp, rfl⟩ := List.mem_map.mp ha
    have h1 := hg.g1 p hp
    rw [hinv.classHash p.1 (deployed_not_system d hwf p.1 ha)] at h1
    rcases hx : (absOf ch).dep p.1 with _ | h
    · rfl
    · simp [hx] at h1
  -- class hash present in the start state of updateContracts ⇔ deployed after this block
  have hpresent : ∀ a, isSystem a = false →
      (bget (s.deployed0 ch.length d).classHash a).isSome = ((absOf (d :: ch)).dep a).isSome := by
    intro a ha
    rw [(hd0 a).1, hinv.classHash a ha, habs]
    simp only [AbsSt.apply]
    rcases alook d.deployed a with _ | c
    · rcases (absOf ch).dep a with _ | h <;> rfl
    · rfl
  have hnoentry : ∀ a, isSystem a = false → (absOf (d :: ch)).dep a = none →
      alook d.storage a = none ∧ alook d.nonces a = none := by
    intro a ha hd
    have hp := hpresent a ha
    rw [hd] at hp
    have hp' : bget (s.deployed0 ch.length d).classHash a = none := by
      rcases hx : bget (s.deployed0 ch.length d).classHash a with _ | c
      · rfl
      · simp [hx] at hp
    have hrep : bget ((s.deployed0 ch.length d).replaceAll true ch.length d.replaced).classHash a = none := by
      rw [replaceAll_classHash _ _ _ _ hwf.repNodup, hp']
      rcases alook d.replaced a with _ | c <;> rfl
    constructor
    · rcases hx : alook d.storage a with _ | slots
      · rfl
      · have h4 := hg.g4 (a, slots) (mem_of_alook_eq_some _ _ _ hx)
        rw [(deploySystem_ordinary _ _ _ a ha).1] at h4
        have : (((s.deployed0 ch.length d).replaceAll true ch.length d.replaced).nonceAll true ch.length d.nonces).classHash =
            ((s.deployed0 ch.length d).replaceAll true ch.length d.replaced).classHash := rfl
        rw [this, hrep] at h4
        simp at h4
    · rcases hx : alook d.nonces a with _ | v
      · rfl
      · have h3 := hg.g3 (a, v) (mem_of_alook_eq_some _ _ _ hx)
        rw [hrep] at h3
        simp at h3
  subst hs'
  refine ⟨?_, ⟨hdep0, hinv.depOnce⟩, ⟨?_, hinv.undep⟩, ?_, ?_, ?_, ?_, ?_, ?_, ?_⟩
  · intro x hx
    rcases List.mem_cons.mp hx with e | e
    · subst e; exact hwf
    · exact hinv.wf x e
  · -- UndepZero
    intro a ha hd
    have hne := hnoentry a ha hd
    have hd' : (absOf ch).dep a = none := by
      rw [habs] at hd
      simp only [AbsSt.apply] at hd
      rcases hx : alook d.deployed a with _ | c
      · simpa [hx] using hd
      · simp [hx] at hd
    have hold := hinv.undep.head a ha hd'
    rw [habs]
    simp only [AbsSt.apply, Diff.storageAt, hne.1, hne.2, Option.bind_none, Option.getD_none]
    exact hold
  · -- logs
    intro key
    simp only [logsOf]
    cases key with
    | storage a k =>
      rw [hlogS a k, e0logs, e0trie, hinv.logs]
      simp only [logged, Diff.storageAt]
      by_cases hS0 : alook d.storage a = none
      · simp [hS0]
      · obtain ⟨slots, hS⟩ := Option.ne_none_iff_exists'.mp hS0
        simp only [hS, ocases_some, Option.bind_some]
        by_cases hk0 : alook slots k = none
        · simp [hk0]
        · obtain ⟨v, hk⟩ := Option.ne_none_iff_exists'.mp hk0
          simp only [hk, ocases_some, Bool.true_and]
          have hiff := alook_isSome_iff_tget_ne (lget s.trie a) k (hinv.trieNZ a)
          have hval : (alook (lget s.trie a) k).getD 0 = (absOf ch).stor a k := by
            have := hinv.trie a k; unfold tget at this; exact this
          rw [hinv.trie a k] at hiff
          by_cases hz : (absOf ch).stor a k = 0
          · have hnone : (alook (lget s.trie a) k).isSome = false := by
              rcases hx : (alook (lget s.trie a) k).isSome with _ | _
              · rfl
              · exact absurd hz (hiff.mp hx)
            by_cases hv : v = 0
            · simp [hv, hz, hnone]
            · have hvb : (v != 0) = true := by simp [hv]
              simp only [hnone, hz, Bool.or_false, hvb, if_true, keyVal, hval, Bool.true_or]
              exact hput_below _ _ _ (logsOf_below ch _)
          · have hsome : (alook (lget s.trie a) k).isSome = true := hiff.mpr hz
            have hzb : ((absOf ch).stor a k != 0) = true := by simp [hz]
            simp only [hsome, Bool.or_true, if_true, keyVal, hval, hzb]
            exact hput_below _ _ _ (logsOf_below ch _)
    | nonce a =>
      rw [hlogN a, e0logs, hinv.logs]
      simp only [logged]
      by_cases hN0 : alook d.nonces a = none
      · simp [hN0]
      · obtain ⟨v, hN⟩ := Option.ne_none_iff_exists'.mp hN0
        have ha : isSystem a = false := nonces_not_system d hwf a (mem_keys _ _ _ hN)
        simp only [hN, ocases_some, Option.isSome_some, if_true]
        have h3 := hg.g3 (a, v) (mem_of_alook_eq_some _ _ _ hN)
        rw [replaceAll_classHash _ _ _ _ hwf.repNodup] at h3
        have hpres : (bget (s.deployed0 ch.length d).classHash a).isSome = true := by
          rcases hr : alook d.replaced a with _ | c
          · simpa [hr] using h3
          · rcases hx : bget (s.deployed0 ch.length d).classHash a with _ | old
            · simp [hr, hx] at h3
            · rfl
        rw [(hd0 a).2.1, hinv.nonce a ha]
        rw [(hd0 a).1, hinv.classHash a ha] at hpres
        rcases hdp : alook d.deployed a with _ | c
        · simp only [hdp, ocases_none] at hpres ⊢
          rcases hx : (absOf ch).dep a with _ | h
          · simp [hx] at hpres
          · simp only [Option.map_some, ocases_some, keyVal]
            exact hput_below _ _ _ (logsOf_below ch _)
        · simp only [ocases_some, keyVal]
          have := (hinv.undep.head a ha (hdep0 a (mem_keys _ _ _ hdp))).2
          rw [this]
          exact hput_below _ _ _ (logsOf_below ch _)
    | classHash a =>
      rw [hlogC a, e0logs, hinv.logs]
      simp only [logged]
      by_cases hR0 : alook d.replaced a = none
      · simp [hR0]
      · obtain ⟨c, hR⟩ := Option.ne_none_iff_exists'.mp hR0
        have ha : isSystem a = false := replaced_not_system d hwf a (mem_keys _ _ _ hR)
        simp only [hR, ocases_some, Option.isSome_some, if_true]
        have h2 := hg.g2 (a, c) (mem_of_alook_eq_some _ _ _ hR)
        have hdn : alook d.deployed a = none := by
          apply (alook_eq_none_iff _ _).mpr
          intro hm
          exact hwf.depRepDisj a hm (mem_keys _ _ _ hR)
        rw [(hd0 a).1, hdn, hinv.classHash a ha] at h2 ⊢
        simp only [ocases_none] at h2 ⊢
        rcases hx : (absOf ch).dep a with _ | h
        · simp [hx] at h2
        · simp only [Option.map_some, ocases_some, keyVal]
          exact hput_below _ _ _ (logsOf_below ch _)
  · -- class hash bucket
    intro a ha
    rw [(hord a ha).1, (hd0 a).1, hinv.classHash a ha, habs]
    simp only [AbsSt.apply]
    rcases hdp : alook d.deployed a with _ | c
    · rcases hold : (absOf ch).dep a with _ | h <;> rcases hr : alook d.replaced a with _ | c' <;> simp
    · have hr : alook d.replaced a = none := (alook_eq_none_iff _ _).mpr (hwf.depRepDisj a (mem_keys _ _ _ hdp))
      simp [hr]
  · -- nonce bucket
    intro a ha
    rw [(hord a ha).2.1, (hd0 a).2.1, hinv.nonce a ha, habs]
    simp only [AbsSt.apply]
    rcases hdp : alook d.deployed a with _ | c
    · rcases hold : (absOf ch).dep a with _ | h <;> rcases hn : alook d.nonces a with _ | v <;> simp
    · have hn0 := (hinv.undep.head a ha (hdep0 a (mem_keys _ _ _ hdp))).2
      rcases hn : alook d.nonces a with _ | v <;> simp [hn0]
  · -- deployment height
    intro a ha
    rw [(hord a ha).2.2, (hd0 a).2.2, hinv.deployHeight a ha, habs]
    simp only [AbsSt.apply]
    rcases alook d.deployed a with _ | c <;> rfl
  · -- tries
    intro a k
    rw [htrie a, e0trie, habs]
    simp only [AbsSt.apply, Diff.storageAt]
    rcases hS : alook d.storage a with _ | slots
    · simp only [ocases_none, Option.bind_none, Option.getD_none]; exact hinv.trie a k
    · simp only [ocases_some, Option.bind_some]
      rw [foldl_tput_get _ (hwf.slotNodup (a, slots) (mem_of_alook_eq_some _ _ _ hS)), hinv.trie a k]
  · intro a
    rw [htrie a, e0trie]
    rcases alook d.storage a with _ | slots
    · exact hinv.trieNZ a
    · exact foldl_tput_noZero _ _ (hinv.trieNZ a)
  · intro c
    rw [hcls, e0cls, declareFold_get, hinv.classes c, habs]
    simp only [AbsSt.apply]
    by_cases hx : (absOf ch).decl c = none
    · by_cases hc : c ∈ d.newClasses <;> simp [hx, hc]
    · obtain ⟨n, hn⟩ := Option.ne_none_iff_exists'.mp hx
      simp [hn]


/-! ### Revert -/

theorem firstGT_below (h : Hist) (b n : Nat) (hb : Below h b) (hn : b ≤ n + 1) : firstGT h n = none := by
  apply firstGT_none_of_le
  intro e he
  have := hb e he
  omega

/-- when the class-by-class removal of the legacy `removeDeclaredClasses` succeeds, it removed what
the tolerant fold removes -/
theorem undeclareM_ok (b : Nat) (l : List CHash) (m cl : Bucket CHash Nat)
    (h : l.foldlM (undeclareStepM b) m = .ok cl) : cl = undeclareFold m b l := by
  induction l generalizing m with
  | nil => simp [List.foldlM, pure, Except.pure] at h; simp [undeclareFold, h]
  | cons c r ih =>
    rw [List.foldlM_cons] at h
    unfold undeclareStepM at h
    by_cases e : bget m c = none
    · simp [e, bind, Except.bind] at h
    · obtain ⟨v, hv⟩ := Option.ne_none_iff_exists'.mp e
      simp only [hv, bind, Except.bind] at h
      have := ih _ h
      rw [this]
      unfold undeclareFold
      simp only [List.foldl_cons, hv, Option.some.injEq]

theorem undeclareFold_append (m : Bucket CHash Nat) (b : Nat) (l1 l2 : List CHash) :
    undeclareFold (undeclareFold m b l1) b l2 = undeclareFold m b (l1 ++ l2) := by
  simp [undeclareFold, List.foldl_append]

/-- looking at every class hash once removes what looking at the whole list removes: for a hash
already seen the fold step changes nothing -/
theorem undeclareFold_dedup (b : Nat) (l seen : List CHash) (m : Bucket CHash Nat)
    (h : ∀ c ∈ seen, bget m c ≠ some b) : undeclareFold m b (dedupFirst seen l) = undeclareFold m b l := by
  induction l generalizing seen m with
  | nil => rfl
  | cons c r ih =>
    unfold dedupFirst
    by_cases hc : c ∈ seen
    · simp only [hc, if_true]
      rw [ih seen m h]
      unfold undeclareFold
      simp only [List.foldl_cons, h c hc, if_false]
    · simp only [hc, if_false]
      unfold undeclareFold
      simp only [List.foldl_cons]
      have := ih (c :: seen) (if bget m c = some b then bset m c none else m) (by
        intro x hx
        rcases List.mem_cons.mp hx with e | hx'
        · subst e
          by_cases e2 : bget m x = some b
          · simp [e2, bget_bset]
          · simp [e2]
        · have hne : x ≠ c := fun e => hc (e ▸ hx')
          by_cases e2 : bget m c = some b
          · simp only [e2, if_true, bget_bset, hne, if_false]; exact h x hx'
          · simp only [e2, if_false]; exact h x hx')
      unfold undeclareFold at this
      exact this

/-- the result of a successful legacy `Revert` (either variant of `removeDeclaredClasses`) -/
theorem legacy_revert_ok (fix : Bool) (s s' : LState) (b : Nat) (d : Diff) (h : s.revert fix b d = .ok s') :
    (b ≠ 0 → ∀ p ∈ d.nonces, (legacyValueAt (lget s.logs (.nonce p.1)) (b - 1)).isSome = true) ∧
    (b ≠ 0 → ∀ p ∈ d.replaced, (legacyValueAt (lget s.logs (.classHash p.1)) (b - 1)).isSome = true) ∧
    s' = ((({ s with classes := undeclareFold s.classes b d.revertClasses, logs := logsDelAll s.logs b d } : LState).afterContracts
        false b
        (d.replaced.map (fun p => (p.1, if b = 0 then 0 else (legacyValueAt (lget s.logs (.classHash p.1)) (b - 1)).getD 0)))
        (d.nonces.map (fun p => (p.1, if b = 0 then 0 else (legacyValueAt (lget s.logs (.nonce p.1)) (b - 1)).getD 0)))
        (({ s with classes := undeclareFold s.classes b d.revertClasses } : LState).reverseStorage b d)).purgeAll d.deployed).purgeSystem := by
  unfold LState.revert at h
  simp only at h
  split at h
  · cases h
  · next cl hcl =>
    have hcl' : undeclareFold cl b (d.deployed.map Prod.snd) = undeclareFold s.classes b d.revertClasses := by
      rw [undeclareM_ok b _ _ _ hcl]
      have : undeclareFold s.classes b (if fix = true then dedupFirst [] d.classHashes else d.classHashes) =
          undeclareFold s.classes b d.classHashes := by
        cases fix
        · rfl
        · exact undeclareFold_dedup b d.classHashes [] s.classes (by intro c hc; cases hc)
      rw [this, undeclareFold_append]; rfl
    rw [hcl'] at h
    split at h
    · cases h
    · next hN =>
      split at h
      · cases h
      · next hR =>
        split at h
        · cases h
        · next s3 hs3 =>
          split at h
          · cases h
          · cases h
            obtain ⟨e3, _, _, _⟩ := updateContracts_ok _ _ _ _ _ _ _ hs3
            refine ⟨?_, ?_, ?_⟩
            · intro hb p hp
              have hb' : (b != 0) = true := by simp [hb]
              simp only [hb', Bool.true_and] at hN
              have := any_false_forall _ _ hN p hp
              simpa using this
            · intro hb p hp
              have hb' : (b != 0) = true := by simp [hb]
              simp only [hb', Bool.true_and] at hR
              have := any_false_forall _ _ hR p hp
              simpa using this
            · rw [e3]

theorem purgeSystem_ordinary (s : LState) (a : Addr) (ha : isSystem a = false) :
    bget s.purgeSystem.classHash a = bget s.classHash a ∧ bget s.purgeSystem.nonce a = bget s.nonce a ∧
    bget s.purgeSystem.deployHeight a = bget s.deployHeight a ∧ s.purgeSystem.trie = s.trie ∧
    s.purgeSystem.logs = s.logs ∧ s.purgeSystem.classes = s.classes := by
  have h1 : a ≠ 1 := by intro e; subst e; simp [isSystem] at ha
  have h2 : a ≠ 2 := by intro e; subst e; simp [isSystem] at ha
  unfold LState.purgeSystem
  simp only [List.foldl_cons, List.foldl_nil]
  split <;> split <;> simp [LState.purge, bget_bset, h1, h2]

theorem purgeAll_fields (s : LState) (l : List (Addr × CHash)) (hnd : (l.map (·.1)).Nodup) (a : Addr) :
    bget (s.purgeAll l).classHash a = (if a ∈ l.map (·.1) then none else bget s.classHash a) ∧
    bget (s.purgeAll l).nonce a = (if a ∈ l.map (·.1) then none else bget s.nonce a) ∧
    bget (s.purgeAll l).deployHeight a = (if a ∈ l.map (·.1) then none else bget s.deployHeight a) := by
  have key : ∀ {β : Type} (m : Bucket Addr β),
      bget (l.foldl (fun m p => bset m p.1 (none : Option β)) m) a = if a ∈ l.map (·.1) then none else bget m a := by
    intro β m
    have := bsetFold_get (β := β) (γ := CHash) (fun _ => none) l hnd m a
    rw [this]
    by_cases hm : a ∈ l.map (·.1)
    · obtain ⟨v, hv⟩ := Option.isSome_iff_exists.mp ((alook_isSome_iff l a).mpr hm)
      simp [hm, hv]
    · simp [hm, (alook_eq_none_iff l a).mpr hm]
  unfold LState.purgeAll
  exact ⟨key _, key _, key _⟩

/-- legacy `Revert` of the head block restores the invariant of the chain without it -/
theorem linv_revert (fix : Bool) (d : Diff) (rest : List Diff) (s s' : LState) (hinv : LInv (d :: rest) s)
    (hrev : s.revert fix rest.length d = .ok s') : LInv rest s' := by
  obtain ⟨hgN, hgR, hs'⟩ := legacy_revert_ok fix s s' rest.length d hrev
  have hwf : d.WF := hinv.wf d List.mem_cons_self
  have hwfr : ∀ x ∈ rest, x.WF := fun x hx => hinv.wf x (List.mem_cons_of_mem _ hx)
  have habs : absOf (d :: rest) = (absOf rest).apply rest.length d := rfl
  -- reading the logs one block back gives the state before the block
  have hval : ∀ key, (∀ a, key ≠ .classHash a) → rest.length ≠ 0 →
      (legacyValueAt (lget s.logs key) (rest.length - 1)).getD (keyVal (absOf (d :: rest)) key) =
        keyVal (absOf rest) key := by
    intro key hk hb
    rw [hinv.logs key, legacyValueAt_eq_firstGT _ _ (logsOf_sorted _ _)]
    rw [logsOf_value (d :: rest) hinv.wf hinv.depOnce key (rest.length - 1) (fun a e => absurd e (hk a))]
    rw [absAt_cons_lt d rest _ (by omega), absAt_ge rest _ (by omega)]
  -- a logged key: the log of this block holds the old value
  have hlogged : ∀ key, logged d (absOf rest) key = true → rest.length ≠ 0 →
      legacyValueAt (lget s.logs key) (rest.length - 1) = some (keyVal (absOf rest) key) := by
    intro key hl hb
    rw [hinv.logs key, legacyValueAt_eq_firstGT _ _ (logsOf_sorted _ _)]
    simp only [logsOf, hl, if_true]
    rw [firstGT_append, firstGT_below _ rest.length _ (logsOf_below rest key) (by omega)]
    have : rest.length - 1 < rest.length := by omega
    simp [this]
  -- lookups in the reverse diff
  have hrs : ∀ a k, ((alook (({ s with classes := undeclareFold s.classes rest.length d.revertClasses } : LState).reverseStorage
      rest.length d) a).bind (fun slots => alook slots k)) = (d.storageAt a k).map (fun _ => (absOf rest).stor a k) := by
    intro a k
    unfold LState.reverseStorage Diff.storageAt
    rw [alook_map_key d.storage (fun a slots => slots.map (fun e => (e.1, if rest.length = 0 then 0 else
      (legacyValueAt (lget s.logs (.storage a e.1)) (rest.length - 1)).getD
        (LState.storageHead { s with classes := undeclareFold s.classes rest.length d.revertClasses } a e.1)))) a]
    by_cases hS0 : alook d.storage a = none
    · simp [hS0]
    · obtain ⟨slots, hS⟩ := Option.ne_none_iff_exists'.mp hS0
      simp only [hS, Option.map_some, Option.bind_some]
      rw [alook_map_key slots (fun k _ => if rest.length = 0 then 0 else
        (legacyValueAt (lget s.logs (.storage a k)) (rest.length - 1)).getD
          (LState.storageHead { s with classes := undeclareFold s.classes rest.length d.revertClasses } a k)) k]
      congr 1
      funext _
      by_cases hb : rest.length = 0
      · have : rest = [] := List.length_eq_zero_iff.mp hb
        subst this; simp [absOf, AbsSt.empty]
      · simp only [hb, if_false]
        have := hval (.storage a k) (by intro x e; cases e) hb
        simp only [keyVal] at this
        rw [← this]
        have hh : LState.storageHead { s with classes := undeclareFold s.classes rest.length d.revertClasses } a k =
            (absOf (d :: rest)).stor a k := hinv.trie a k
        rw [hh]
  have hrn : ∀ a, alook (d.nonces.map (fun p => (p.1, if rest.length = 0 then 0 else
      (legacyValueAt (lget s.logs (.nonce p.1)) (rest.length - 1)).getD 0))) a =
      (alook d.nonces a).map (fun _ => (absOf rest).nonce a) := by
    intro a
    rw [alook_map_key d.nonces (fun a _ => if rest.length = 0 then 0 else
      (legacyValueAt (lget s.logs (.nonce a)) (rest.length - 1)).getD 0) a]
    by_cases hN0 : alook d.nonces a = none
    · simp [hN0]
    · obtain ⟨v, hN⟩ := Option.ne_none_iff_exists'.mp hN0
      simp only [hN, Option.map_some]
      congr 1
      by_cases hb : rest.length = 0
      · have : rest = [] := List.length_eq_zero_iff.mp hb
        subst this; simp [absOf, AbsSt.empty]
      · simp only [hb, if_false]
        have hl : logged d (absOf rest) (.nonce a) = true := by simp [logged, hN]
        rw [hlogged (.nonce a) hl hb]; rfl
  have hrr : ∀ a, alook (d.replaced.map (fun p => (p.1, if rest.length = 0 then 0 else
      (legacyValueAt (lget s.logs (.classHash p.1)) (rest.length - 1)).getD 0))) a =
      (alook d.replaced a).map (fun _ => (absOf rest).cls a) := by
    intro a
    rw [alook_map_key d.replaced (fun a _ => if rest.length = 0 then 0 else
      (legacyValueAt (lget s.logs (.classHash a)) (rest.length - 1)).getD 0) a]
    by_cases hR0 : alook d.replaced a = none
    · simp [hR0]
    · obtain ⟨c, hR⟩ := Option.ne_none_iff_exists'.mp hR0
      simp only [hR, Option.map_some]
      congr 1
      by_cases hb : rest.length = 0
      · have : rest = [] := List.length_eq_zero_iff.mp hb
        subst this; simp [absOf, AbsSt.empty]
      · simp only [hb, if_false]
        have hl : logged d (absOf rest) (.classHash a) = true := by simp [logged, hR]
        rw [hlogged (.classHash a) hl hb]; rfl
  have hndS : ((({ s with classes := undeclareFold s.classes rest.length d.revertClasses } : LState).reverseStorage
      rest.length d).map (·.1)).Nodup := by
    unfold LState.reverseStorage
    rw [map_map_fst d.storage (fun a slots => slots.map (fun e => (e.1, if rest.length = 0 then 0 else
      (legacyValueAt (lget s.logs (.storage a e.1)) (rest.length - 1)).getD
        (LState.storageHead { s with classes := undeclareFold s.classes rest.length d.revertClasses } a e.1))))]
    exact hwf.storNodup
  have hndSS : ∀ p ∈ ({ s with classes := undeclareFold s.classes rest.length d.revertClasses } : LState).reverseStorage
      rest.length d, (p.2.map (·.1)).Nodup := by
    intro p hp
    unfold LState.reverseStorage at hp
    obtain ⟨q, hq, rfl⟩ := List.mem_map.mp hp
    simp only
    rw [map_map_fst q.2 (fun k _ => if rest.length = 0 then 0 else
      (legacyValueAt (lget s.logs (.storage q.1 k)) (rest.length - 1)).getD
        (LState.storageHead { s with classes := undeclareFold s.classes rest.length d.revertClasses } q.1 k))]
    exact hwf.slotNodup q hq
  have hndN : ((d.nonces.map (fun p => (p.1, if rest.length = 0 then 0 else
      (legacyValueAt (lget s.logs (.nonce p.1)) (rest.length - 1)).getD 0))).map (·.1)).Nodup := by
    rw [map_map_fst d.nonces (fun a _ => if rest.length = 0 then 0 else
      (legacyValueAt (lget s.logs (.nonce a)) (rest.length - 1)).getD 0)]
    exact hwf.nonceNodup
  have hndR : ((d.replaced.map (fun p => (p.1, if rest.length = 0 then 0 else
      (legacyValueAt (lget s.logs (.classHash p.1)) (rest.length - 1)).getD 0))).map (·.1)).Nodup := by
    rw [map_map_fst d.replaced (fun a _ => if rest.length = 0 then 0 else
      (legacyValueAt (lget s.logs (.classHash a)) (rest.length - 1)).getD 0)]
    exact hwf.repNodup
  have hspec := afterContracts_spec
    ({ s with classes := undeclareFold s.classes rest.length d.revertClasses, logs := logsDelAll s.logs rest.length d } : LState)
    false rest.length _ _ _ hndR hndN hndS hndSS
  simp only at hspec
  obtain ⟨hord, htrie, hcls, hlogC, hlogN, hlogS⟩ := hspec
  -- logs after the deletion of this block's entries
  have hdel : ∀ key, lget (logsDelAll s.logs rest.length d) key = logsOf rest key := by
    intro key
    rw [logsDelAll_get _ _ _ hwf, hinv.logs key]
    simp only [logsOf]
    by_cases hl : logged d (absOf rest) key = true
    · simp only [hl, if_true]
      have hc : logDelKey d key = true := by
        cases key with
        | storage a k =>
          simp only [logged] at hl
          by_cases hx : d.storageAt a k = none
          · simp [hx] at hl
          · obtain ⟨v, hv⟩ := Option.ne_none_iff_exists'.mp hx
            simp [logDelKey, hv]
        | nonce a => simpa [logged, logDelKey] using hl
        | classHash a => simpa [logged, logDelKey] using hl
      rw [if_pos hc]
      exact hdel_append_last _ _ _ (logsOf_below rest key)
    · simp only [hl, Bool.false_eq_true, if_false]
      split
      · exact hdel_below _ _ (logsOf_below rest key)
      · rfl
  generalize hA : LState.afterContracts
    ({ s with classes := undeclareFold s.classes rest.length d.revertClasses, logs := logsDelAll s.logs rest.length d } : LState)
    false rest.length
    (d.replaced.map (fun p => (p.1, if rest.length = 0 then 0 else
      (legacyValueAt (lget s.logs (.classHash p.1)) (rest.length - 1)).getD 0)))
    (d.nonces.map (fun p => (p.1, if rest.length = 0 then 0 else
      (legacyValueAt (lget s.logs (.nonce p.1)) (rest.length - 1)).getD 0)))
    (({ s with classes := undeclareFold s.classes rest.length d.revertClasses } : LState).reverseStorage rest.length d) = A
    at hs' hord htrie hcls hlogC hlogN hlogS
  subst hs'
  refine ⟨hwfr, hinv.depOnce.2, hinv.undep.2, ?_, ?_, ?_, ?_, ?_, ?_, ?_⟩
  · intro key
    rw [(purgeSystem_ordinary _ 0 rfl).2.2.2.2.1]
    show lget A.logs key = _
    cases key with
    | storage a k =>
      rw [hlogS a k]
      simp only [Bool.false_and, Bool.false_eq_true, if_false]
      have : ∀ (o : Option (List (Slot × Val))) (L : Hist),
          ocases o L (fun slots => ocases (alook slots k) L (fun _ => L)) = L := by
        intro o L; rcases o with _ | sl
        · rfl
        · simp only [ocases_some]; rcases alook sl k with _ | v <;> rfl
      rw [this]; exact hdel _
    | nonce a =>
      rw [hlogN a]
      simp only [Bool.false_eq_true, if_false]
      have : ∀ (o : Option Val) (o2 : Option Nat) (L : Hist), ocases o L (fun _ => ocases o2 L (fun _ => L)) = L := by
        intro o o2 L; rcases o with _ | v
        · rfl
        · simp only [ocases_some]; rcases o2 with _ | w <;> rfl
      rw [this]; exact hdel _
    | classHash a =>
      rw [hlogC a]
      simp only [Bool.false_eq_true, if_false]
      have : ∀ (o : Option CHash) (o2 : Option Nat) (L : Hist), ocases o L (fun _ => ocases o2 L (fun _ => L)) = L := by
        intro o o2 L; rcases o with _ | v
        · rfl
        · simp only [ocases_some]; rcases o2 with _ | w <;> rfl
      rw [this]; exact hdel _
  · intro a ha
    rw [(purgeSystem_ordinary _ a ha).1, (purgeAll_fields _ _ hwf.depNodup a).1]
    by_cases hmem : a ∈ d.deployed.map (·.1)
    · simp only [hmem, if_true]; rw [hinv.depOnce.1 a hmem]; rfl
    · simp only [hmem, if_false]
      rw [(hord a ha).1, hrr a]
      show ocases _ (bget s.classHash a) _ = _
      rw [hinv.classHash a ha, habs]
      have hdn : alook d.deployed a = none := (alook_eq_none_iff _ _).mpr hmem
      simp only [AbsSt.apply, hdn]
      rcases hold : (absOf rest).dep a with _ | h <;> rcases hr : alook d.replaced a with _ | c' <;> simp
  · intro a ha
    rw [(purgeSystem_ordinary _ a ha).2.1, (purgeAll_fields _ _ hwf.depNodup a).2.1]
    by_cases hmem : a ∈ d.deployed.map (·.1)
    · simp only [hmem, if_true]; rw [hinv.depOnce.1 a hmem]; rfl
    · simp only [hmem, if_false]
      rw [(hord a ha).2.1, hrn a]
      show ocases _ (bget s.nonce a) _ = _
      rw [hinv.nonce a ha, habs]
      have hdn : alook d.deployed a = none := (alook_eq_none_iff _ _).mpr hmem
      simp only [AbsSt.apply, hdn]
      rcases hold : (absOf rest).dep a with _ | h <;> rcases hn : alook d.nonces a with _ | v <;> simp
  · intro a ha
    rw [(purgeSystem_ordinary _ a ha).2.2.1, (purgeAll_fields _ _ hwf.depNodup a).2.2]
    by_cases hmem : a ∈ d.deployed.map (·.1)
    · simp only [hmem, if_true]; rw [hinv.depOnce.1 a hmem]
    · simp only [hmem, if_false]
      rw [(hord a ha).2.2]
      show bget s.deployHeight a = _
      rw [hinv.deployHeight a ha, habs]
      have hdn : alook d.deployed a = none := (alook_eq_none_iff _ _).mpr hmem
      simp only [AbsSt.apply, hdn]
  · intro a k
    rw [(purgeSystem_ordinary _ 0 rfl).2.2.2.1]
    show tget (lget A.trie a) k = _
    rw [htrie a]
    show tget (ocases _ (lget s.trie a) _) k = _
    have hrs' := hrs a k
    by_cases hS0 : alook (({ s with classes := undeclareFold s.classes rest.length d.revertClasses } : LState).reverseStorage
        rest.length d) a = none
    · simp only [hS0, ocases_none, Option.bind_none] at hrs' ⊢
      rw [hinv.trie a k, habs]
      simp only [AbsSt.apply]
      rcases hx : d.storageAt a k with _ | v
      · rfl
      · simp [hx] at hrs'
    · obtain ⟨slots, hS⟩ := Option.ne_none_iff_exists'.mp hS0
      simp only [hS, ocases_some, Option.bind_some] at hrs' ⊢
      rw [foldl_tput_get _ (hndSS (a, slots) (mem_of_alook_eq_some _ _ _ hS)), hrs', hinv.trie a k, habs]
      simp only [AbsSt.apply]
      rcases d.storageAt a k with _ | v <;> rfl
  · intro a
    rw [(purgeSystem_ordinary _ 0 rfl).2.2.2.1]
    show NoZero (lget A.trie a)
    rw [htrie a]
    show NoZero (ocases _ (lget s.trie a) _)
    rcases alook (({ s with classes := undeclareFold s.classes rest.length d.revertClasses } : LState).reverseStorage
        rest.length d) a with _ | slots
    · exact hinv.trieNZ a
    · exact foldl_tput_noZero _ _ (hinv.trieNZ a)
  · intro c
    rw [(purgeSystem_ordinary _ 0 rfl).2.2.2.2.2]
    show bget A.classes c = _
    rw [hcls]
    show bget (undeclareFold s.classes rest.length d.revertClasses) c = _
    rw [undeclareFold_get, hinv.classes c, habs]
    simp only [AbsSt.apply]
    by_cases hx : (absOf rest).decl c = none
    · by_cases hc : c ∈ d.newClasses
      · have := newClasses_sub_revert d hwf c hc
        simp [hx, hc, this]
      · simp [hx, hc]
    · obtain ⟨n, hn⟩ := Option.ne_none_iff_exists'.mp hx
      have := decl_lt rest c n hn
      have hne : n ≠ rest.length := by omega
      simp [hn, hne]


/-! ### Reads -/

theorem hered_drop {P : List Diff → Prop} (ch : List Diff) (h : Hered P ch) (k : Nat) : P (ch.drop k) := by
  induction ch generalizing k with
  | nil => simpa using h.head
  | cons d rest ih =>
    cases k with
    | zero => exact h.head
    | succ k => exact ih h.2 k

theorem linv_deployedAt (ch : List Diff) (s : LState) (hinv : LInv ch s) (a : Addr) (n : Nat)
    (ha : isSystem a = false) : s.deployedAt a n = ((absAt ch n).dep a).isSome := by
  unfold LState.deployedAt
  rw [hinv.deployHeight a ha, dep_at_iff ch hinv.depOnce a n]
  rcases hd : (absOf ch).dep a with _ | h <;> simp

/-- the value the legacy reader computes from the logs (first log above `n`, else the head value) -/
theorem linv_value (ch : List Diff) (s : LState) (hinv : LInv ch s) (key : HKey) (n : Nat)
    (hdep : ∀ a, key = .classHash a → ((absAt ch n).dep a).isSome = true) :
    (legacyValueAt (lget s.logs key) n).getD (keyVal (absOf ch) key) = keyVal (absAt ch n) key := by
  rw [hinv.logs key, legacyValueAt_eq_firstGT _ _ (logsOf_sorted _ _)]
  exact logsOf_value ch hinv.wf hinv.depOnce key n hdep

/-- historical reads of the legacy backend are the abstract state at the block -/
theorem linv_histRead (ch : List Diff) (s : LState) (hinv : LInv ch s) (n : Nat) (q : Query)
    (hq : q.ordinary) : LState.histRead s n q = (absAt ch n).read q := by
  cases q with
  | classHash a =>
    simp only [LState.histRead, AbsSt.read, linv_deployedAt ch s hinv a n hq]
    by_cases hd : ((absAt ch n).dep a).isSome = true
    · simp only [hd, if_true]
      have hv := linv_value ch s hinv (.classHash a) n (fun a' e => by cases e; exact hd)
      have hhead : s.headRead (.classHash a) = .ok ((absOf ch).cls a) := by
        simp only [LState.headRead, hinv.classHash a hq]
        have := dep_absAt_of_absOf ch a n hd
        rcases hx : (absOf ch).dep a with _ | h
        · simp [hx] at this
        · simp
      rcases hl : legacyValueAt (lget s.logs (.classHash a)) n with _ | v
      · simp only [hl, Option.getD_none, keyVal] at hv
        simp only [hhead, hv]
      · simp only [hl, Option.getD_some, keyVal] at hv
        simp only [hv]
    · simp [hd]
  | nonce a =>
    simp only [LState.histRead, AbsSt.read, linv_deployedAt ch s hinv a n hq]
    by_cases hd : ((absAt ch n).dep a).isSome = true
    · simp only [hd, if_true]
      have hv := linv_value ch s hinv (.nonce a) n (fun a' e => by cases e)
      have hhead : s.headRead (.nonce a) = .ok ((absOf ch).nonce a) := by
        simp only [LState.headRead, hinv.nonce a hq]
        have := dep_absAt_of_absOf ch a n hd
        rcases hx : (absOf ch).dep a with _ | h
        · simp [hx] at this
        · simp
      rcases hl : legacyValueAt (lget s.logs (.nonce a)) n with _ | v
      · simp only [hl, Option.getD_none, keyVal] at hv
        simp only [hhead, hv]
      · simp only [hl, Option.getD_some, keyVal] at hv
        simp only [hv]
    · simp [hd]
  | storage a k =>
    have hv := linv_value ch s hinv (.storage a k) n (fun a' e => by cases e)
    have hv' : (legacyValueAt (lget s.logs (.storage a k)) n).getD (s.storageHead a k) = (absAt ch n).stor a k := by
      have hh : s.storageHead a k = (absOf ch).stor a k := hinv.trie a k
      rw [hh]; exact hv
    simp only [LState.histRead, AbsSt.read, hv', linv_deployedAt ch s hinv a n hq]
    by_cases hz : (absAt ch n).stor a k = 0
    · simp [hz]
    · have hne : ((absAt ch n).stor a k != 0) = true := by simp [hz]
      simp only [hne, if_true]
      -- a non-zero slot belongs to a deployed contract
      have hund : UndepZero (ch.drop (ch.length - 1 - n)) := hered_drop ch hinv.undep _
      have : ((absAt ch n).dep a).isSome = true := by
        rcases hx : (absAt ch n).dep a with _ | h
        · exact absurd ((hund a hq hx).1 k) hz
        · rfl
      simp [this]
  | cls c =>
    simp only [LState.histRead, AbsSt.read, hinv.classes c, decl_at_iff ch c n]
    by_cases hx : (absOf ch).decl c = none
    · simp [hx]
    · obtain ⟨m, hm⟩ := Option.ne_none_iff_exists'.mp hx
      by_cases hle : m ≤ n
      · have : ¬ n < m := by omega
        simp [hm, hle, this]
      · have : n < m := by omega
        simp [hm, hle, this]

/-- head reads of the legacy backend -/
theorem linv_headRead (ch : List Diff) (s : LState) (hinv : LInv ch s) :
    (∀ a, isSystem a = false → s.headRead (.classHash a) = (absOf ch).read (.classHash a) ∧
      s.headRead (.nonce a) = (absOf ch).read (.nonce a)) ∧
    (∀ a k, s.headRead (.storage a k) = .ok ((absOf ch).stor a k)) ∧
    (∀ c, s.headRead (.cls c) = (absOf ch).read (.cls c)) := by
  refine ⟨?_, ?_, ?_⟩
  · intro a ha
    constructor
    · simp only [LState.headRead, AbsSt.read, hinv.classHash a ha]
      rcases (absOf ch).dep a with _ | h <;> simp
    · simp only [LState.headRead, AbsSt.read, hinv.nonce a ha]
      rcases (absOf ch).dep a with _ | h <;> simp
  · intro a k
    simp only [LState.headRead, LState.storageHead, hinv.trie a k]
  · intro c
    simp only [LState.headRead, AbsSt.read, hinv.classes c]

/-- any address (the system contracts included): a non-zero slot is always returned, a zero slot
reads as zero or not-found -/
theorem linv_histRead_storage_any (ch : List Diff) (s : LState) (hinv : LInv ch s) (n : Nat) (a : Addr) (k : Slot) :
    ((absAt ch n).stor a k ≠ 0 → LState.histRead s n (.storage a k) = .ok ((absAt ch n).stor a k)) ∧
    (LState.histRead s n (.storage a k) = .notfound ∨
      LState.histRead s n (.storage a k) = .ok ((absAt ch n).stor a k)) := by
  have hv := linv_value ch s hinv (.storage a k) n (fun a' e => by cases e)
  have hv' : (legacyValueAt (lget s.logs (.storage a k)) n).getD (s.storageHead a k) = (absAt ch n).stor a k := by
    have hh : s.storageHead a k = (absOf ch).stor a k := hinv.trie a k
    rw [hh]; exact hv
  simp only [LState.histRead, hv']
  by_cases hz : (absAt ch n).stor a k = 0
  · refine ⟨fun h => absurd hz h, ?_⟩
    by_cases hd : s.deployedAt a n = true <;> simp [hz, hd]
  · have hne : ((absAt ch n).stor a k != 0) = true := by simp [hz]
    simp [hne]

/-- with the re-scan, a storage read torn by any commits that keep blocks `0..n` answers for block `n` -/
theorem linv_tornStorage (ch₁ ch₂ : List Diff) (s₁ s₂ : LState) (h₁ : LInv ch₁ s₁) (h₂ : LInv ch₂ s₂) (n : Nat)
    (hsame : ch₂.drop (ch₂.length - 1 - n) = ch₁.drop (ch₁.length - 1 - n)) (a : Addr) (k : Slot) :
    LState.tornStorageValue true s₁ s₂ n a k = (absAt ch₁ n).stor a k := by
  have v₁ := linv_value ch₁ s₁ h₁ (.storage a k) n (fun a' e => by cases e)
  have v₂ := linv_value ch₂ s₂ h₂ (.storage a k) n (fun a' e => by cases e)
  have hh : s₂.storageHead a k = (absOf ch₂).stor a k := h₂.trie a k
  have hab : absAt ch₂ n = absAt ch₁ n := by unfold absAt; rw [hsame]
  unfold LState.tornStorageValue
  simp only [if_true]
  rcases hl : legacyValueAt (lget s₁.logs (.storage a k)) n with _ | v
  · simp only [Option.getD_none, hh]
    simp only [keyVal] at v₂
    rw [v₂, hab]
  · simp only [hl, Option.getD_some, keyVal] at v₁
    simp only [Option.getD_some, v₁]

end Juno.C03
