import JunoModel.C03.ProofsCasm
import JunoModel.C03.ProofsApi
/-!
C03 — helper lemmas. Part 17 (round 5): the CASM metadata bucket follows `metaOf` WITHOUT the hypothesis on
the hash a migration carries (`MigOwnHash` / `MigVal`): the record juno writes does not depend on that
hash (`Migrate` only sets the height), only the comparison with the abstract state does. Used for
`CompiledClassHashV2`, whose answer is a function of the declarations alone.
-/
namespace Juno.C03

/-- `MigOK` without the clause on the migrated hash -/
def MigOKw : List Diff → Prop
  | [] => True
  | d :: rest =>
    (d.v2 = true → ∀ p ∈ d.migrated, ∃ mt, metaOf rest p.1 = some mt ∧ mt.migratedAt = 0 ∧ mt.v1.isSome = true ∧
      mt.declaredAt < rest.length) ∧
    CasmStep rest d ∧ MigOKw rest

theorem metaOf_none_iff_w (ch : List Diff) (hm : MigOKw ch) (c : CHash) : metaOf ch c = none ↔ (absOf ch).casm c = none := by
  induction ch with
  | nil => simp [metaOf, absOf, AbsSt.empty]
  | cons d rest ih =>
    have hstep := hm.2.1
    show _ ↔ ((absOf rest).apply rest.length d).casm c = none
    simp only [metaOf, AbsSt.apply]
    by_cases hf : d.declared1.find? (fun x => x.hash == c) = none
    · simp only [hf]
      by_cases hmg : alook d.migrated c = none
      · simp only [hmg, Option.isSome_none, Bool.and_false, Bool.false_eq_true, if_false]
        exact ih hm.2.2
      · obtain ⟨v, hv⟩ := Option.ne_none_iff_exists'.mp hmg
        simp only [hv, Option.isSome_some, Bool.and_true]
        by_cases h2 : d.v2 = true
        · obtain ⟨mt, hmt, _⟩ := hm.1 h2 (c, v) (mem_of_alook_eq_some _ _ _ hv)
          simp [h2, hmt]
        · have : d.migrated = [] := hstep.migV2 (by simpa using h2)
          rw [this] at hv; simp [alook] at hv
    · obtain ⟨x, hx⟩ := Option.ne_none_iff_exists'.mp hf
      have hxm := List.mem_of_find?_eq_some hx
      have hxc : x.hash = c := by simpa using List.find?_some hx
      have := hstep.declNotMig x hxm
      rw [hxc] at this
      simp [hx, this]

structure MInvW (ch : List Diff) (m : MetaMap) : Prop where
  ok : MigOKw ch
  recs : ∀ c, bget m c = metaOf ch c

theorem minvw_init : MInvW [] ([] : MetaMap) := ⟨trivial, fun _ => rfl⟩

theorem minvw_store (ch : List Diff) (m m' : MetaMap) (d : Diff) (hinv : MInvW ch m) (hs : CasmStep ch d)
    (h : metaStore m ch.length d = .ok m') : MInvW (d :: ch) m' := by
  unfold metaStore at h
  by_cases h2 : d.v2 = true
  · simp only [h2, if_true] at h
    obtain ⟨hget, hfacts⟩ := migFold_ok ch.length d.migrated hs.migNodup _ m' h
    have hm1 : ∀ c, bget (d.declared1.foldl (fun m x => bset m x.hash (some ⟨ch.length, x.casm, 0, none⟩)) m) c =
        ocases (d.declared1.find? (fun x => x.hash == c)) (metaOf ch c) (fun x => some ⟨ch.length, x.casm, 0, none⟩) := by
      intro c
      rw [declFold_get (fun x => ⟨ch.length, x.casm, 0, none⟩) d.declared1 hs.declNodup m c, hinv.recs c]
    have hnotdecl : ∀ p ∈ d.migrated, d.declared1.find? (fun x => x.hash == p.1) = none := by
      intro p hp
      apply List.find?_eq_none.mpr
      intro x hx he
      have hxe : x.hash = p.1 := by simpa using he
      have := hs.declNotMig x hx
      rw [hxe] at this
      have h3 := alook_isSome_of_mem d.migrated p hp
      simp [this] at h3
    have hok : MigOKw (d :: ch) := by
      unfold MigOKw
      refine ⟨?_, hs, hinv.ok⟩
      intro _ p hp
      obtain ⟨mt, hmt, h0, h1, hlt⟩ := hfacts p hp
      rw [hm1 p.1, hnotdecl p hp] at hmt
      simp only [ocases_none] at hmt
      exact ⟨mt, hmt, h0, h1, hlt⟩
    refine ⟨hok, ?_⟩
    · intro c
      rw [hget c, hm1 c]
      simp only [metaOf, h2, Bool.true_and]
      by_cases hf : d.declared1.find? (fun x => x.hash == c) = none
      · simp only [hf, ocases_none]
      · obtain ⟨x, hx⟩ := Option.ne_none_iff_exists'.mp hf
        have hxm := List.mem_of_find?_eq_some hx
        have hxc : x.hash = c := by simpa using List.find?_some hx
        have hnm := hs.declNotMig x hxm
        rw [hxc] at hnm
        simp [hx, hnm]
  · have h2' : d.v2 = false := by simpa using h2
    simp only [h2', Bool.false_eq_true, if_false, Except.ok.injEq] at h
    subst h
    have hok : MigOKw (d :: ch) := by
      unfold MigOKw
      refine ⟨?_, hs, hinv.ok⟩
      intro hc; rw [h2'] at hc; cases hc
    refine ⟨hok, ?_⟩
    · intro c
      rw [declFold_get (fun x => ⟨ch.length, x.casmV2, 0, some x.casm⟩) d.declared1 hs.declNodup m c, hinv.recs c]
      simp only [metaOf, h2', Bool.false_and, Bool.false_eq_true, if_false]
      by_cases hf : d.declared1.find? (fun x => x.hash == c) = none
      · simp [hf]
      · obtain ⟨x, hx⟩ := Option.ne_none_iff_exists'.mp hf
        simp [hx]

theorem minvw_revert (d : Diff) (rest : List Diff) (m m' : MetaMap) (hinv : MInvW (d :: rest) m)
    (h : metaRevert m d = .ok m') : MInvW rest m' := by
  have hs : CasmStep rest d := hinv.ok.2.1
  unfold metaRevert at h
  have hget := unmigFold_ok d.migrated hs.migNodup _ m' h
  have hok : MigOKw rest := hinv.ok.2.2
  refine ⟨hok, ?_⟩
  intro c
  rw [hget c, undeclFold_get, hinv.recs c]
  simp only [metaOf]
  by_cases hf : d.declared1.find? (fun x => x.hash == c) = none
  · simp only [hf, Option.isSome_none, Bool.false_eq_true, if_false]
    by_cases hmg : (alook d.migrated c).isSome = true
    · simp only [hmg, if_true, Bool.and_true]
      obtain ⟨v, hv⟩ := Option.isSome_iff_exists.mp hmg
      by_cases h2 : d.v2 = true
      · obtain ⟨mt, hmt, h0, _⟩ := hinv.ok.1 h2 (c, v) (mem_of_alook_eq_some _ _ _ hv)
        simp only [h2, if_true, hmt, Option.map_some, Option.some.injEq]
        cases mt
        simp_all
      · have : d.migrated = [] := hs.migV2 (by simpa using h2)
        rw [this] at hv; simp [alook] at hv
    · simp [hmg]
  · obtain ⟨x, hx⟩ := Option.ne_none_iff_exists'.mp hf
    have hxm := List.mem_of_find?_eq_some hx
    have hxc : x.hash = c := by simpa using List.find?_some hx
    have hnm := hs.declNotMig x hxm
    rw [hxc] at hnm
    have hfresh := hs.fresh x hxm
    rw [hxc] at hfresh
    have hnone := (metaOf_none_iff_w rest hinv.ok.2.2 c).mpr hfresh
    simp [hx, hnm, hnone]

/-- the metadata bucket of a node follows its chain after every history whose blocks meet `CasmStep`
(no hypothesis on the migrated hashes) -/
theorem run_minvw {σ : Type} (be : Backend σ) (hmf : be.migFix = false) (ops : List Op) (nd nd' : Node σ)
    (hI : MInvW nd.chain nd.casmMeta) (hP : OpsOK (fun ch d => CasmStep ch d) ops nd.chain) (h : run be nd ops = some nd') :
    MInvW nd'.chain nd'.casmMeta := by
  induction ops generalizing nd with
  | nil => simp [run] at h; subst h; exact hI
  | cons op rest ih =>
    unfold run at h
    split at h
    · next n1 hstep =>
      cases op with
      | store id d =>
        have hb := (store_blocks be nd n1 id d hstep).1
        have hm := store_meta be hmf nd n1 id d hstep
        have hlen : nd.blocks.length = nd.chain.length := by simp [Node.chain]
        rw [hlen] at hm
        have hc : n1.chain = d :: nd.chain := by simp [Node.chain, hb]
        have hI1 := minvw_store nd.chain nd.casmMeta n1.casmMeta d hI hP.1 hm
        exact ih n1 (by rw [hc]; exact hI1) (by rw [hc]; exact hP.2) h
      | revert =>
        obtain ⟨id, d, hb, hm⟩ := revert_meta be nd n1 hstep
        have hc : nd.chain = d :: n1.chain := by simp [Node.chain, hb]
        have hI1 := minvw_revert d n1.chain nd.casmMeta n1.casmMeta (by rw [← hc]; exact hI) hm
        have hP' : OpsOK (fun ch d => CasmStep ch d) rest n1.chain := by
          have := hP
          simp only [OpsOK, hc, List.tail_cons] at this
          exact this
        exact ih n1 hI1 hP' h
    · cases h

end Juno.C03
