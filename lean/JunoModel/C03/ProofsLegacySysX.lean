import JunoModel.C03.ProofsLegacySys
/-!
C03 — helper lemmas. Part 15 (round 4): the record of a system contract on the LEGACY backend is a
function of the chain when no block leaves a listed system contract empty (`NoEmptyStep`): it is
absent exactly when the contract is empty, and its height is exactly the block that made the
storage non-empty (`sysHeight`). The other direction of `legacy_system_existence_nodrain`.
-/
namespace Juno.C03

/-- a block with an entry for a system contract leaves it with a non-zero slot (no drain, and no
block that only writes zeros to an empty system contract) -/
def NoEmptyStep (ch : List Diff) (d : Diff) : Prop :=
  ∀ a, isSystem a = true → a ∈ d.storage.map (·.1) → NonEmpty (absOf (d :: ch)) a

theorem NoEmptyStep.noDrain {ch : List Diff} {d : Diff} (h : NoEmptyStep ch d) : NoDrainStep ch d :=
  fun a ha hk _ => h a ha hk

/-- the record of a system contract, exactly -/
def SysRecX (ch : List Diff) (s : LState) (a : Addr) : Prop :=
  (s.record a = (none, none, none) ∧ ¬ NonEmpty (absOf ch) a) ∨
  (∃ h, s.record a = (some 0, some 0, some h) ∧ sysHeight ch a = some h)

structure LSysX (ch : List Diff) (s : LState) : Prop where
  base : LSys ch s
  sys : ∀ a, isSystem a = true → SysRecX ch s a

theorem lsysx_init : LSysX [] LState.empty :=
  ⟨lsys_init, fun a _ => Or.inl ⟨rfl, by simp [NonEmpty, absOf, AbsSt.empty]⟩⟩

open Classical in
theorem lsysx_store (ch : List Diff) (s s' : LState) (d : Diff) (hs : LSysX ch s)
    (hP : d.WF ∧ NoEmptyStep ch d) (hup : s.update ch.length d = .ok s') : LSysX (d :: ch) s' := by
  refine ⟨lsys_store ch s s' d hs.base ⟨hP.1, hP.2.noDrain⟩ hup, ?_⟩
  intro a ha
  have hr := legacy_update_record s s' ch.length d hP.1 hup a ha
  have hcls : bget s.classHash a = (s.record a).1 := rfl
  rcases hs.sys a ha with ⟨hnone, hemp⟩ | ⟨h, hrec, hsh⟩
  · rw [hcls, hnone] at hr
    by_cases hk : a ∈ d.storage.map (·.1)
    · right
      refine ⟨ch.length, by simpa [hk] using hr, ?_⟩
      rw [sysHeight_cons, if_pos hk, sysHeight_none_of_empty ch a hemp]
      simp [hP.2 a ha hk]
    · left
      refine ⟨by simpa [hk, hnone] using hr, ?_⟩
      rw [nonEmpty_of_not_key d ch a hk]; exact hemp
  · rw [hcls, hrec] at hr
    right
    refine ⟨h, by simpa [hrec] using hr, ?_⟩
    rw [sysHeight_cons]
    by_cases hk : a ∈ d.storage.map (·.1)
    · simp [hk, hP.2 a ha hk, hsh]
    · simp [hk, hsh]

open Classical in
theorem lsysx_revert (fix : Bool) (d : Diff) (rest : List Diff) (s s' : LState) (hs : LSysX (d :: rest) s)
    (hrev : s.revert fix rest.length d = .ok s') : LSysX rest s' := by
  have hbase := lsys_revert fix d rest s s' hs.base hrev
  refine ⟨hbase, ?_⟩
  intro a ha
  have hwf : d.WF := hs.base.inv.wf d List.mem_cons_self
  have hr := legacy_revert_record fix s s' rest.length d hwf hrev a ha
  have hcls : bget s.classHash a = (s.record a).1 := rfl
  have hempty := linv_isEmpty_iff rest s' hbase.inv a
  rcases hs.sys a ha with ⟨hnone, hemp⟩ | ⟨h, hrec, hsh⟩
  · left
    rw [hcls, hnone] at hr
    by_cases hk : a ∈ d.storage.map (·.1)
    · have hner : ¬ NonEmpty (absOf rest) a := fun hne => hemp (hs.base.nodrain.1 a ha hk hne)
      have hem : (lget s'.trie a).isEmpty = true := hempty.mpr hner
      exact ⟨by simpa [hk, hem] using hr, hner⟩
    · refine ⟨by simpa [hk, hnone] using hr, ?_⟩
      rw [← nonEmpty_of_not_key d rest a hk]; exact hemp
  · rw [hcls, hrec] at hr
    simp only [Option.isSome_some, true_or, if_true, reduceCtorEq, if_false] at hr
    by_cases hner : NonEmpty (absOf rest) a
    · right
      have hnot : ¬ (lget s'.trie a).isEmpty = true := fun e => (hempty.mp e) hner
      obtain ⟨x, hx⟩ := Option.isSome_iff_exists.mp ((sysHeight_isSome_iff rest a).mpr hner)
      have hx' : sysHeight (d :: rest) a = some x := by
        rw [sysHeight_cons]
        by_cases hk : a ∈ d.storage.map (·.1)
        · have := hs.base.nodrain.1 a ha hk hner
          simp [hk, this, hx]
        · simp [hk, hx]
      have : h = x := by rw [hsh] at hx'; exact Option.some.inj hx'
      subst this
      exact ⟨h, by simpa [hnot, hrec] using hr, hx⟩
    · left
      have hem : (lget s'.trie a).isEmpty = true := hempty.mpr hner
      exact ⟨by simpa [hem] using hr, hner⟩

/-- legacy backend, no block leaving a listed system contract empty: on the view of a block at which
the system contract has no non-zero slot, class hash, nonce and every slot are reported not-found
(a record left behind by a reverted block would answer 0) -/
theorem lsysx_absent (ch : List Diff) (s : LState) (hs : LSysX ch s) (a : Addr) (ha : isSystem a = true)
    (n : Nat) (hn : n < ch.length) (he : ¬ NonEmpty (absAt ch n) a) :
    s.histRead n (.classHash a) = .notfound ∧ s.histRead n (.nonce a) = .notfound ∧
    ∀ k, s.histRead n (.storage a k) = .notfound := by
  have hd : s.deployedAt a n = false := by
    unfold LState.deployedAt
    rcases hs.sys a ha with ⟨hnone, _⟩ | ⟨h, hrec, hsh⟩
    · have : bget s.deployHeight a = none := by
        have := congrArg (fun r => r.2.2) hnone
        exact this
      simp [this]
    · have : bget s.deployHeight a = some h := by
        have := congrArg (fun r => r.2.2) hrec
        exact this
      have hlt := sysHeight_gt ch a n hn he h hsh
      simp [this]; omega
  refine ⟨by simp [LState.histRead, hd], by simp [LState.histRead, hd], ?_⟩
  intro k
  have hv := linv_value ch s hs.base.inv (.storage a k) n (fun a' e => by cases e)
  have hh : s.storageHead a k = (absOf ch).stor a k := hs.base.inv.trie a k
  have hz : (absAt ch n).stor a k = 0 := Classical.byContradiction (fun hne => he ⟨k, hne⟩)
  have hv' : (legacyValueAt (lget s.logs (.storage a k)) n).getD (s.storageHead a k) = 0 := by
    rw [hh]; exact hv.trans hz
  simp [LState.histRead, hv', hd]

end Juno.C03
