import JunoModel.C03.ProofsLegacy
import JunoModel.C03.ProofsSys
/-!
C03 — statements about PROPOSED patches that are NOT in the tree (proposed-fixes/C03-*.diff). They
are not obligations of the property and say nothing about the code as it is; they record that the
proposed change removes the defect in the model. When a patch is applied, the corresponding variant
becomes the tree's (`probeVariant` in the harness) and the statement moves to Props.lean.
-/
namespace Juno.C03.Patch
open Juno.C03

/-- proposed-fixes/C03-history-system-contract-no-deploy-probe.diff (`sysProbeFix`): with the
deployment probe skipped for the system contracts, a storage read of 0x1/0x2 at a retained block is
always the value the diffs give. -/
theorem new_system_storage_read_with_probe_patch (cfg : Cfg) (ops : List Op) (nd : Node NState)
    (hrun : run (newBackend cfg) (Node.init (newBackend cfg)) ops = some nd) (hwf : OpsWF ops)
    (n : Nat) (a : Addr) (k : Slot) (hfix : cfg.sysProbeFix = true) (ha : isSystem a = true) :
    (newBackend cfg).histRead nd.st n (.storage a k) = .ok ((absAt nd.chain n).stor a k) := by
  have hinv := run_invariant (newBackend cfg) (NInv cfg)
    (fun ch s s' d hI hd hu => ninv_store cfg ch s s' d hI hd hu)
    (fun d rest s s' hI hr => ninv_revert cfg d rest s s' hI hr)
    ops (Node.init (newBackend cfg)) nd (ninv_init cfg) hwf hrun
  exact (ninv_histRead_system cfg nd.chain nd.st hinv n a k).2 hfix ha

/-- proposed-fixes/C03-legacy-history-read-rescan-after-head.diff (`rescan = true`), storage only,
one commit point inside the query: a storage read of block `n` whose log scan saw the node after
history `ops₁` and whose head read and re-scan saw it after `ops₁ ++ ops₂` still returns block `n`'s
value, provided `ops₂` leaves blocks `0..n` in place. -/
theorem legacy_torn_read_with_rescan_patch (ops₁ ops₂ : List Op) (hwf : OpsWF (ops₁ ++ ops₂)) (n : Nat) (a : Addr) (k : Slot) :
    let nl₁ := runL legacyBackend (Node.init legacyBackend) ops₁
    let nl₂ := runL legacyBackend nl₁ ops₂
    nl₂.chain.drop (nl₂.chain.length - 1 - n) = nl₁.chain.drop (nl₁.chain.length - 1 - n) →
    LState.tornStorageValue true nl₁.st nl₂.st n a k = (absAt nl₁.chain n).stor a k := by
  intro nl₁ nl₂ hsame
  have hwf1 : OpsWF ops₁ := fun id d hm => hwf id d (List.mem_append.mpr (Or.inl hm))
  have hwf2 : OpsWF ops₂ := fun id d hm => hwf id d (List.mem_append.mpr (Or.inr hm))
  have h1 := runL_invariant legacyBackend LInv
    (fun ch s s' d hI hd hu => linv_store ch s s' d hI hd hu)
    (fun d rest s s' hI hr => linv_revert true d rest s s' hI hr)
    ops₁ (Node.init legacyBackend) linv_init hwf1
  have h2 := runL_invariant legacyBackend LInv
    (fun ch s s' d hI hd hu => linv_store ch s s' d hI hd hu)
    (fun d rest s s' hI hr => linv_revert true d rest s s' hI hr)
    ops₂ nl₁ h1 hwf2
  exact linv_tornStorage nl₁.chain nl₂.chain nl₁.st nl₂.st h1 h2 n hsame a k

/-- proposed-fixes/C03-casm-migration-stores-the-hash-of-the-diff.diff (`migValFix`), on the witness
of `Props.casm_migration_foreign_hash_counterexample` only (no general theorem): with the patch the
views of the migration block and the head answer the hash of the diff, on both backends; a revert of
the migration gives the declared hash back. -/
theorem casm_migration_with_patch_example :
    let ops : List Op :=
      [.store 1 { Diff.empty with declared1 := [⟨0x51, 0xa1, 0xb1⟩] },
       .store 2 { Diff.empty with v2 := true, migrated := [(0x51, 0xabc)] }]
    let cfg : Cfg := { Cfg.current with migValFix := true }
    (run (newBackend cfg) (Node.init (newBackend cfg)) ops).map
      (fun nd => (nd.readCasm (newBackend cfg) (.num 0) 0x51, nd.readCasm (newBackend cfg) (.num 1) 0x51,
                  nd.readCasm (newBackend cfg) .head 0x51)) =
      some (some (.ok 0xa1), some (.ok 0xabc), some (.ok 0xabc)) ∧
    (run (legacyBackendOf true true) (Node.init (legacyBackendOf true true)) ops).map
      (fun nd => (nd.readCasm (legacyBackendOf true true) (.num 1) 0x51, nd.readCasm (legacyBackendOf true true) .head 0x51)) =
      some (some (.ok 0xabc), some (.ok 0xabc)) ∧
    (run (legacyBackendOf true true) (Node.init (legacyBackendOf true true)) (ops ++ [.revert])).map
      (fun nd => nd.readCasm (legacyBackendOf true true) .head 0x51) = some (some (.ok 0xa1)) := by decide

end Juno.C03.Patch
