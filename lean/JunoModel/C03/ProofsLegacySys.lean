import JunoModel.C03.ProofsLegacy
import JunoModel.C03.ProofsSys
/-!
C03 — helper lemmas. Part 13: the system contracts 0x1/0x2 on the LEGACY backend. Their record
(class hash 0, nonce 0, deployment height) is created by `deploySystem` at the first block that
has a storage entry for them while no record exists, and removed by `purgesystemContracts` in a
revert that leaves their storage empty. Without drains: whenever the contract has a non-zero slot
the record exists and its height is at most the block that made the storage non-empty.
-/
namespace Juno.C03

/-- the record of an address: class hash, nonce, deployment height -/
def LState.record (s : LState) (a : Addr) : Option CHash × Option Val × Option Nat :=
  (bget s.classHash a, bget s.nonce a, bget s.deployHeight a)

theorem alook_map_zero (xs : List Addr) (a : Addr) :
    alook (xs.map (fun x => (x, (0 : CHash)))) a = if a ∈ xs then some 0 else none := by
  induction xs with
  | nil => simp [alook]
  | cons x r ih =>
    simp only [List.map_cons, alook, List.mem_cons]
    by_cases e : x = a
    · subst e; simp
    · have e' : ¬ a = x := fun h => e h.symm
      simp [e, e', ih]

/-- `deploySystem`, at any address -/
theorem deploySystem_record (s : LState) (b : Nat) (addrs : List Addr) (hnd : addrs.Nodup) (a : Addr) :
    (s.deploySystem b addrs).record a =
      if isSystem a = true ∧ bget s.classHash a = none ∧ a ∈ addrs then (some 0, some 0, some b) else s.record a := by
  have hl : (((addrs.filter (fun a => isSystem a && (bget s.classHash a).isNone)).map (fun a => (a, (0 : CHash)))).map (·.1)).Nodup := by
    simp only [List.map_map, Function.comp_def, List.map_id']
    exact hnd.filter _
  have hal := alook_map_zero (addrs.filter (fun a => isSystem a && (bget s.classHash a).isNone)) a
  have hmem : a ∈ addrs.filter (fun a => isSystem a && (bget s.classHash a).isNone) ↔
      (isSystem a = true ∧ bget s.classHash a = none ∧ a ∈ addrs) := by
    simp only [List.mem_filter, Bool.and_eq_true, Option.isNone_iff_eq_none]
    constructor
    · intro ⟨h1, h2, h3⟩; exact ⟨h2, h3, h1⟩
    · intro ⟨h1, h2, h3⟩; exact ⟨h3, h1, h2⟩
  unfold LState.deploySystem LState.deploy LState.record
  simp only
  rw [bsetFold_get (fun c => some c) _ hl, bsetFold_get (fun _ => some 0) _ hl, bsetFold_get (fun _ => some b) _ hl, hal]
  by_cases hc : isSystem a = true ∧ bget s.classHash a = none ∧ a ∈ addrs
  · simp only [hmem.mpr hc, if_true, ocases_some, hc, and_self]
  · have : ¬ a ∈ addrs.filter (fun a => isSystem a && (bget s.classHash a).isNone) := fun h => hc (hmem.mp h)
    simp only [this, if_false, ocases_none, hc]

theorem nonceAll_nonce (s0 : LState) (log : Bool) (b : Nat) (N : List (Addr × Val))
    (hN : (N.map (·.1)).Nodup) (a : Addr) :
    bget (s0.nonceAll log b N).nonce a =
      ocases (alook N a) (bget s0.nonce a) (fun c => (bget s0.nonce a).map (fun _ => c)) := by
  have := congrArg Prod.fst
    (logSetFold_get HKey.nonce (by intro x y e; cases e; rfl) log b N hN (s0.nonce, s0.logs) a)
  simp only [lsGet] at this
  show bget (N.foldl (logSetStep HKey.nonce log b) (s0.nonce, s0.logs)).1 a = _
  rw [this]
  rcases alook N a with _ | c
  · rfl
  · rcases bget s0.nonce a with _ | old <;> rfl

/-- the record of an address that is in neither the replaced nor the nonce section, after the loops
of `updateContracts` -/
theorem afterContracts_record (s0 : LState) (log : Bool) (b : Nat) (R : List (Addr × CHash)) (N : List (Addr × Val))
    (S : List (Addr × List (Slot × Val))) (hR : (R.map (·.1)).Nodup) (hN : (N.map (·.1)).Nodup)
    (hS : (S.map (·.1)).Nodup) (a : Addr) (haR : a ∉ R.map (·.1)) (haN : a ∉ N.map (·.1)) :
    (s0.afterContracts log b R N S).record a =
      if isSystem a = true ∧ bget s0.classHash a = none ∧ a ∈ S.map (·.1) then (some 0, some 0, some b) else s0.record a := by
  have e1 : (s0.afterContracts log b R N S).record a =
      (((s0.replaceAll log b R).nonceAll log b N).deploySystem b (S.map (·.1))).record a := rfl
  rw [e1, deploySystem_record _ b (S.map (·.1)) hS a]
  have hc : bget ((s0.replaceAll log b R).nonceAll log b N).classHash a = bget s0.classHash a := by
    show bget (s0.replaceAll log b R).classHash a = _
    rw [replaceAll_classHash s0 log b R hR a, (alook_eq_none_iff R a).mpr haR]; rfl
  have hn : bget ((s0.replaceAll log b R).nonceAll log b N).nonce a = bget s0.nonce a := by
    rw [nonceAll_nonce _ log b N hN a, (alook_eq_none_iff N a).mpr haN]; rfl
  have hrec : ((s0.replaceAll log b R).nonceAll log b N).record a = s0.record a := by
    unfold LState.record; rw [hc, hn]; rfl
  rw [hc, hrec]

theorem purge_record (s : LState) (x a : Addr) :
    (s.purge x).record a = if a = x then (none, none, none) else s.record a := by
  unfold LState.purge LState.record
  simp only [bget_bset]
  by_cases e : a = x <;> simp [e]

/-- one step of `purgesystemContracts` -/
def LState.purgeStep (s : LState) (x : Addr) : LState :=
  if (bget s.classHash x).isSome && (lget s.trie x).isEmpty then s.purge x else s

theorem purgeSystem_steps (s : LState) : s.purgeSystem = (s.purgeStep 1).purgeStep 2 := rfl

theorem purgeStep_record (s : LState) (x a : Addr) :
    (s.purgeStep x).record a =
      if a = x ∧ (bget s.classHash x).isSome = true ∧ (lget s.trie x).isEmpty = true then (none, none, none)
      else s.record a := by
  unfold LState.purgeStep
  by_cases c : ((bget s.classHash x).isSome && (lget s.trie x).isEmpty) = true
  · have c' : (bget s.classHash x).isSome = true ∧ (lget s.trie x).isEmpty = true := by simpa using c
    rw [if_pos c, purge_record]
    by_cases e : a = x <;> simp [e, c']
  · have c' : ¬ ((bget s.classHash x).isSome = true ∧ (lget s.trie x).isEmpty = true) := by simpa using c
    rw [if_neg c]
    have : ¬ (a = x ∧ (bget s.classHash x).isSome = true ∧ (lget s.trie x).isEmpty = true) := fun h => c' h.2
    rw [if_neg this]

theorem purgeStep_frame (s : LState) (x a : Addr) (h : a ≠ x) :
    bget (s.purgeStep x).classHash a = bget s.classHash a ∧ (s.purgeStep x).trie = s.trie := by
  unfold LState.purgeStep
  split
  · exact ⟨by simp [LState.purge, bget_bset, h], rfl⟩
  · exact ⟨rfl, rfl⟩

theorem purgeStep_trie (s : LState) (x : Addr) : (s.purgeStep x).trie = s.trie := by
  unfold LState.purgeStep; split <;> rfl

/-- `purgesystemContracts`, at a system address -/
theorem purgeSystem_record (s : LState) (a : Addr) (ha : isSystem a = true) :
    s.purgeSystem.record a =
      if (bget s.classHash a).isSome = true ∧ (lget s.trie a).isEmpty = true then (none, none, none) else s.record a := by
  have h12 : a = 1 ∨ a = 2 := by
    simp only [isSystem, Bool.or_eq_true, beq_iff_eq] at ha; exact ha
  rw [purgeSystem_steps]
  rcases h12 with rfl | rfl
  · rw [purgeStep_record (s.purgeStep 1) 2 1, purgeStep_record s 1 1]
    simp
  · rw [purgeStep_record (s.purgeStep 1) 2 2, purgeStep_record s 1 2,
      (purgeStep_frame s 1 2 (by decide)).1, purgeStep_trie]
    simp

/-! ### records of the system contracts through `Update` and `Revert` -/

theorem legacy_update_record (s s' : LState) (b : Nat) (d : Diff) (hwf : d.WF) (h : s.update b d = .ok s')
    (a : Addr) (ha : isSystem a = true) :
    s'.record a =
      if bget s.classHash a = none ∧ a ∈ d.storage.map (·.1) then (some 0, some 0, some b) else s.record a := by
  obtain ⟨_, hs'⟩ := legacy_update_ok s s' b d h
  have hn := hwf.noSys a ha
  have hf := deployed0_fields s b d hwf a
  rw [(alook_eq_none_iff _ _).mpr hn.1] at hf
  simp only [ocases_none] at hf
  have hrec0 : (s.deployed0 b d).record a = s.record a := by
    unfold LState.record; rw [hf.1, hf.2.1, hf.2.2]
  rw [hs', afterContracts_record _ true b d.replaced d.nonces d.storage hwf.repNodup hwf.nonceNodup hwf.storNodup a hn.2.1 hn.2.2,
    hf.1, hrec0]
  simp only [ha, true_and]

theorem purgeAll_record (s : LState) (l : List (Addr × CHash)) (hnd : (l.map (·.1)).Nodup) (a : Addr)
    (h : a ∉ l.map (·.1)) : (s.purgeAll l).record a = s.record a ∧ (s.purgeAll l).trie = s.trie := by
  have hf := purgeAll_fields s l hnd a
  simp only [h, if_false] at hf
  refine ⟨?_, rfl⟩
  unfold LState.record; rw [hf.1, hf.2.1, hf.2.2]

theorem purgeSystem_trie (s : LState) : s.purgeSystem.trie = s.trie := by
  rw [purgeSystem_steps, purgeStep_trie, purgeStep_trie]

theorem legacy_revert_record (fix : Bool) (s s' : LState) (b : Nat) (d : Diff) (hwf : d.WF) (h : s.revert fix b d = .ok s')
    (a : Addr) (ha : isSystem a = true) :
    s'.record a =
      if (bget s.classHash a).isSome = true ∨ a ∈ d.storage.map (·.1) then
        (if (lget s'.trie a).isEmpty = true then (none, none, none)
         else if bget s.classHash a = none then (some 0, some 0, some b) else s.record a)
      else s.record a := by
  obtain ⟨_, _, hs'⟩ := legacy_revert_ok fix s s' b d h
  have hn := hwf.noSys a ha
  -- the three stages
  generalize hA : (({ s with classes := undeclareFold s.classes b d.revertClasses, logs := logsDelAll s.logs b d } : LState).afterContracts
        false b
        (d.replaced.map (fun p => (p.1, if b = 0 then 0 else (legacyValueAt (lget s.logs (.classHash p.1)) (b - 1)).getD 0)))
        (d.nonces.map (fun p => (p.1, if b = 0 then 0 else (legacyValueAt (lget s.logs (.nonce p.1)) (b - 1)).getD 0)))
        (({ s with classes := undeclareFold s.classes b d.revertClasses } : LState).reverseStorage b d)) = A at hs'
  have hkR : (d.replaced.map (fun p => (p.1, if b = 0 then 0 else (legacyValueAt (lget s.logs (.classHash p.1)) (b - 1)).getD 0))).map (·.1)
      = d.replaced.map (·.1) := by simp [List.map_map, Function.comp_def]
  have hkN : (d.nonces.map (fun p => (p.1, if b = 0 then 0 else (legacyValueAt (lget s.logs (.nonce p.1)) (b - 1)).getD 0))).map (·.1)
      = d.nonces.map (·.1) := by simp [List.map_map, Function.comp_def]
  have hkS : (({ s with classes := undeclareFold s.classes b d.revertClasses } : LState).reverseStorage b d).map (·.1)
      = d.storage.map (·.1) := by
    unfold LState.reverseStorage
    simp [List.map_map, Function.comp_def]
  have hArec : A.record a =
      if bget s.classHash a = none ∧ a ∈ d.storage.map (·.1) then (some 0, some 0, some b) else s.record a := by
    rw [← hA, afterContracts_record _ false b _ _ _ (by rw [hkR]; exact hwf.repNodup) (by rw [hkN]; exact hwf.nonceNodup)
      (by rw [hkS]; exact hwf.storNodup) a (by rw [hkR]; exact hn.2.1) (by rw [hkN]; exact hn.2.2), hkS]
    simp only [ha, true_and]
    rfl
  have hP := purgeAll_record A d.deployed hwf.depNodup a hn.1
  have htrie : (lget s'.trie a) = lget (A.purgeAll d.deployed).trie a := by rw [hs', purgeSystem_trie]
  have hAc : bget (A.purgeAll d.deployed).classHash a = (A.record a).1 := by
    have := congrArg Prod.fst hP.1
    exact this
  have hrec : s'.record a = (A.purgeAll d.deployed).purgeSystem.record a := by rw [hs']
  rw [hrec, purgeSystem_record _ a ha, hAc, ← htrie, hP.1, hArec]
  by_cases hc : bget s.classHash a = none
  · by_cases hk : a ∈ d.storage.map (·.1)
    · simp [hc, hk]
    · simp [hc, hk, LState.record]
  · have hsome : (bget s.classHash a).isSome = true := Option.isSome_iff_ne_none.mpr hc
    simp only [hc, false_and, if_false, hsome, true_or, if_true]
    have : (s.record a).1 = bget s.classHash a := rfl
    rw [this, hsome]
    simp

/-! ### the invariant -/

/-- the record of a system contract: none (and then its storage is empty), or class hash 0, nonce 0
and a height that is at most the block that made the storage non-empty -/
def SysRec (ch : List Diff) (s : LState) (a : Addr) : Prop :=
  (s.record a = (none, none, none) ∧ ¬ NonEmpty (absOf ch) a) ∨
  (∃ h, s.record a = (some 0, some 0, some h) ∧ h < ch.length ∧ ∀ hs, sysHeight ch a = some hs → h ≤ hs)

structure LSys (ch : List Diff) (s : LState) : Prop where
  inv : LInv ch s
  nodrain : NoDrainChain ch
  sys : ∀ a, isSystem a = true → SysRec ch s a

theorem lsys_init : LSys [] LState.empty :=
  ⟨linv_init, trivial, fun a _ => Or.inl ⟨rfl, by simp [NonEmpty, absOf, AbsSt.empty]⟩⟩

theorem linv_isEmpty_iff (ch : List Diff) (s : LState) (hinv : LInv ch s) (a : Addr) :
    (lget s.trie a).isEmpty = true ↔ ¬ NonEmpty (absOf ch) a := by
  rw [isEmpty_iff_all_zero _ (hinv.trieNZ a)]
  unfold NonEmpty
  constructor
  · intro h ⟨k, hk⟩; exact hk (by rw [← hinv.trie a k]; exact h k)
  · intro h k
    rw [hinv.trie a k]
    exact Classical.byContradiction (fun hne => h ⟨k, hne⟩)

open Classical in
theorem sysHeight_cons (d : Diff) (ch : List Diff) (a : Addr) :
    sysHeight (d :: ch) a =
      if a ∈ d.storage.map (·.1) then
        if NonEmpty (absOf (d :: ch)) a then (match sysHeight ch a with | some h => some h | none => some ch.length)
        else none
      else sysHeight ch a := by
  rw [sysHeight]
  congr

theorem sysHeight_none_of_empty (ch : List Diff) (a : Addr) (h : ¬ NonEmpty (absOf ch) a) : sysHeight ch a = none := by
  rcases hx : sysHeight ch a with _ | x
  · rfl
  · exact absurd ((sysHeight_isSome_iff ch a).mp (by simp [hx])) h

theorem nonEmpty_of_not_key (d : Diff) (ch : List Diff) (a : Addr) (hk : a ∉ d.storage.map (·.1)) :
    NonEmpty (absOf (d :: ch)) a ↔ NonEmpty (absOf ch) a := by
  unfold NonEmpty
  constructor <;> (intro ⟨k, hk'⟩; exact ⟨k, by simpa [stor_unchanged d ch a hk k] using hk'⟩)

open Classical in
theorem lsys_store (ch : List Diff) (s s' : LState) (d : Diff) (hs : LSys ch s)
    (hP : d.WF ∧ NoDrainStep ch d) (hup : s.update ch.length d = .ok s') : LSys (d :: ch) s' := by
  refine ⟨linv_store ch s s' d hs.inv hP.1 hup, ⟨hP.2, hs.nodrain⟩, ?_⟩
  intro a ha
  have hr := legacy_update_record s s' ch.length d hP.1 hup a ha
  have hcls : bget s.classHash a = (s.record a).1 := rfl
  rcases hs.sys a ha with ⟨hnone, hemp⟩ | ⟨h, hrec, hlt, hle⟩
  · rw [hcls, hnone] at hr
    by_cases hk : a ∈ d.storage.map (·.1)
    · right
      refine ⟨ch.length, by simpa [hk] using hr, by simp, ?_⟩
      intro x hx
      rw [sysHeight_cons, if_pos hk, sysHeight_none_of_empty ch a hemp] at hx
      by_cases hne : NonEmpty (absOf (d :: ch)) a
      · simp only [hne, if_true, Option.some.injEq] at hx; omega
      · simp [hne] at hx
    · left
      refine ⟨by simpa [hk, hnone] using hr, ?_⟩
      rw [nonEmpty_of_not_key d ch a hk]; exact hemp
  · rw [hcls, hrec] at hr
    right
    refine ⟨h, by simpa [hrec] using hr, by simp; omega, ?_⟩
    intro x hx
    rw [sysHeight_cons] at hx
    by_cases hk : a ∈ d.storage.map (·.1)
    · rw [if_pos hk] at hx
      by_cases hne : NonEmpty (absOf (d :: ch)) a
      · simp only [hne, if_true] at hx
        rcases hh : sysHeight ch a with _ | y
        · simp only [hh, Option.some.injEq] at hx; omega
        · simp only [hh, Option.some.injEq] at hx; subst hx; exact hle y hh
      · simp [hne] at hx
    · rw [if_neg hk] at hx
      exact hle x hx

open Classical in
theorem lsys_revert (fix : Bool) (d : Diff) (rest : List Diff) (s s' : LState) (hs : LSys (d :: rest) s)
    (hrev : s.revert fix rest.length d = .ok s') : LSys rest s' := by
  have hinv' := linv_revert fix d rest s s' hs.inv hrev
  refine ⟨hinv', hs.nodrain.2, ?_⟩
  intro a ha
  have hwf : d.WF := hs.inv.wf d List.mem_cons_self
  have hr := legacy_revert_record fix s s' rest.length d hwf hrev a ha
  have hcls : bget s.classHash a = (s.record a).1 := rfl
  have hempty := linv_isEmpty_iff rest s' hinv' a
  rcases hs.sys a ha with ⟨hnone, hemp⟩ | ⟨h, hrec, hlt, hle⟩
  · left
    rw [hcls, hnone] at hr
    by_cases hk : a ∈ d.storage.map (·.1)
    · have hner : ¬ NonEmpty (absOf rest) a := fun hne => hemp (hs.nodrain.1 a ha hk hne)
      have hem : (lget s'.trie a).isEmpty = true := hempty.mpr hner
      exact ⟨by simpa [hk, hem] using hr, hner⟩
    · refine ⟨by simpa [hk, hnone] using hr, ?_⟩
      rw [← nonEmpty_of_not_key d rest a hk]; exact hemp
  · rw [hcls, hrec] at hr
    simp only [Option.isSome_some, true_or, if_true, reduceCtorEq, if_false] at hr
    by_cases hner : NonEmpty (absOf rest) a
    · right
      have hnot : ¬ (lget s'.trie a).isEmpty = true := fun e => (hempty.mp e) hner
      obtain ⟨x, hx⟩ := Option.isSome_iff_exists.mp ((sysHeight_isSome_iff rest a).mpr hner)
      have hx' : sysHeight (d :: rest) a = some x := by
        rw [sysHeight_cons]
        by_cases hk : a ∈ d.storage.map (·.1)
        · have := hs.nodrain.1 a ha hk hner
          simp [hk, this, hx]
        · simp [hk, hx]
      have hhx := hle x hx'
      have hxl := sysHeight_lt rest a x hx
      refine ⟨h, by simpa [hnot, hrec] using hr, by omega, ?_⟩
      intro y hy
      rw [hx] at hy; cases hy; exact hhx
    · left
      have hem : (lget s'.trie a).isEmpty = true := hempty.mpr hner
      exact ⟨by simpa [hem] using hr, hner⟩

/-! ### reads -/

theorem logsOf_system_nil (ch : List Diff) (hwf : ∀ d ∈ ch, d.WF) (a : Addr) (ha : isSystem a = true) :
    logsOf ch (.classHash a) = [] ∧ logsOf ch (.nonce a) = [] := by
  induction ch with
  | nil => exact ⟨rfl, rfl⟩
  | cons d rest ih =>
    have hn := (hwf d List.mem_cons_self).noSys a ha
    have ih' := ih (fun x hx => hwf x (List.mem_cons_of_mem _ hx))
    simp only [logsOf, logged, (alook_eq_none_iff _ _).mpr hn.2.1, (alook_eq_none_iff _ _).mpr hn.2.2,
      Option.isSome_none, Bool.false_eq_true, if_false]
    exact ih'

/-- legacy backend, no drains: class hash and nonce of a system contract read 0 on the view of every
block at which the contract has a non-zero slot, and on the head view when it has one now -/
theorem lsys_existence (ch : List Diff) (s : LState) (hs : LSys ch s) (a : Addr) (ha : isSystem a = true) :
    (∀ n, NonEmpty (absAt ch n) a → s.histRead n (.classHash a) = .ok 0 ∧ s.histRead n (.nonce a) = .ok 0) ∧
    (NonEmpty (absOf ch) a → s.headRead (.classHash a) = .ok 0 ∧ s.headRead (.nonce a) = .ok 0) := by
  have present : NonEmpty (absOf ch) a → ∃ h, s.record a = (some 0, some 0, some h) ∧ ∀ x, sysHeight ch a = some x → h ≤ x := by
    intro hne
    rcases hs.sys a ha with ⟨_, hemp⟩ | ⟨h, hrec, _, hle⟩
    · exact absurd hne hemp
    · exact ⟨h, hrec, hle⟩
  have fields : ∀ h, s.record a = (some 0, some 0, some h) →
      bget s.classHash a = some 0 ∧ bget s.nonce a = some 0 ∧ bget s.deployHeight a = some h := by
    intro h e
    unfold LState.record at e
    simp only [Prod.mk.injEq] at e
    exact e
  have hhead : NonEmpty (absOf ch) a → s.headRead (.classHash a) = .ok 0 ∧ s.headRead (.nonce a) = .ok 0 := by
    intro hne
    obtain ⟨h, hrec, _⟩ := present hne
    obtain ⟨f1, f2, _⟩ := fields h hrec
    simp [LState.headRead, f1, f2]
  refine ⟨?_, hhead⟩
  intro n hne
  obtain ⟨x, hx, hxn⟩ := sysHeight_le ch hs.nodrain a ha n hne
  have hne' : NonEmpty (absOf ch) a := (sysHeight_isSome_iff ch a).mp (by simp [hx])
  obtain ⟨h, hrec, hle⟩ := present hne'
  obtain ⟨f1, f2, f3⟩ := fields h hrec
  have hd : s.deployedAt a n = true := by
    unfold LState.deployedAt
    rw [f3]
    have := hle x hx
    simp; omega
  have hl := logsOf_system_nil ch hs.inv.wf a ha
  have hv : ∀ m, legacyValueAt ([] : Hist) m = none := fun m => rfl
  have hh := hhead hne'
  simp only [LState.histRead, hd, if_true, hs.inv.logs, hl.1, hl.2, hv]
  exact hh

end Juno.C03