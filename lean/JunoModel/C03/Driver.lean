import JunoModel.Common.Proto
import JunoModel.C03.Model
/-!
Line-protocol driver for the C03 model (`lake build c03drv`).

  cfg leaffix|sysprobefix|historderfix <0|1>     which variant of the new backend is modelled (see `Cfg`)
  univ a|k|c <hex>*                 universe of addresses / slots / class hashes for `dump`
  store <blockhash> <p1|p2> <diff>  diff in the token form of harness/cmd/c03/enc.go
  revert
  dump <new|legacy|abs> head | num <n> | hash <blockhash>
  reset

`store`/`revert` answer `new=<ok|err:…> legacy=<ok|err:…>` (`store`: plus ` not-wf` when the diff is
outside the theorems' hypothesis `Diff.WF`); `dump` answers one token per read in
the order: per address (class hash, nonce, each slot), per class (declared-at, compiled class
hash); tokens: hex value | nf | at<hex block>; `noview` when the view does not exist.
-/
open Juno.Proto Juno.C03

structure DState where
  cfg : Cfg
  nw : Node NState
  lg : Node LState
  /-- the abstract chain (newest first): every diff the harness stored and did not revert -/
  chain : List Diff
  addrs : List Nat
  slots : List Nat
  classes : List Nat

def DState.init : DState := ⟨Cfg.asFound, Node.init (newBackend Cfg.asFound), Node.init (legacyBackendOf false false), [], [], [], []⟩

def hexList (ws : List String) : Option (List Nat) := ws.mapM hexToNat?

/-- parse the diff tokens -/
def parseDiff : List String → Diff → Option Diff
  | [], d => some d
  | "sa" :: a :: rest, d => do
    let a ← hexToNat? a
    parseDiff rest { d with storage := d.storage ++ [(a, [])] }
  | "sk" :: k :: v :: rest, d => do
    let k ← hexToNat? k
    let v ← hexToNat? v
    match d.storage.getLast? with
    | none => none
    | some (a, slots) => parseDiff rest { d with storage := d.storage.dropLast ++ [(a, slots ++ [(k, v)])] }
  | "n" :: a :: v :: rest, d => do
    let a ← hexToNat? a
    let v ← hexToNat? v
    parseDiff rest { d with nonces := d.nonces ++ [(a, v)] }
  | "d" :: a :: c :: rest, d => do
    let a ← hexToNat? a
    let c ← hexToNat? c
    parseDiff rest { d with deployed := d.deployed ++ [(a, c)] }
  | "r" :: a :: c :: rest, d => do
    let a ← hexToNat? a
    let c ← hexToNat? c
    parseDiff rest { d with replaced := d.replaced ++ [(a, c)] }
  | "c0" :: c :: rest, d => do
    let c ← hexToNat? c
    parseDiff rest { d with declared0 := d.declared0 ++ [c] }
  | "c1" :: c :: h :: h2 :: rest, d => do
    let c ← hexToNat? c
    let h ← hexToNat? h
    let h2 ← hexToNat? h2
    parseDiff rest { d with declared1 := d.declared1 ++ [⟨c, h, h2⟩] }
  | "x" :: c :: rest, d => do
    let c ← hexToNat? c
    parseDiff rest { d with extraClasses := d.extraClasses ++ [c] }
  | "m" :: c :: h :: rest, d => do
    let c ← hexToNat? c
    let h ← hexToNat? h
    parseDiff rest { d with migrated := d.migrated ++ [(c, h)] }
  | _, _ => none

def errName : Err → String
  | .alreadyDeployed => "already-deployed"
  | .notFound => "not-found"
  | .notDeployed => "not-deployed"
  | .classMissing => "class-missing"
  | .checkHeadState => "check-head-state"
  | .metaMissing => "meta-missing"
  | .cannotMigrate => "cannot-migrate"
  | .cannotUnmigrate => "cannot-unmigrate"
  | .emptyChain => "empty-chain"

def resTok : Res → String
  | .ok v => natToHex v
  | .notfound => "nf"

def clsTok : Res → String
  | .ok v => "at" ++ natToHex v
  | .notfound => "nf"

def dumpWith (s : DState) (rd : Query → Res) (casm : Nat → Res) : String :=
  let perAddr := s.addrs.map (fun a =>
    [resTok (rd (.classHash a)), resTok (rd (.nonce a))] ++ s.slots.map (fun k => resTok (rd (.storage a k))))
  let perClass := s.classes.map (fun c => [clsTok (rd (.cls c)), resTok (casm c)])
  " ".intercalate (perAddr.flatten ++ perClass.flatten)

def dumpNode {σ : Type} (s : DState) (be : Backend σ) (n : Node σ) (v : View) : String :=
  match n.resolve be v with
  | none => "noview"
  | some _ =>
    dumpWith s (fun q => (n.read be v q).getD .notfound) (fun c => (n.readCasm be v c).getD .notfound)

/-- the spec: `absAt`, read as the property says; for the system contracts (never in
`DeployedContracts`) the stored value / zero -/
def dumpAbs (s : DState) (k : Nat) : String :=
  if k < s.chain.length then
    let st := absAt s.chain k
    dumpWith s
      (fun q => match q with
        | .storage a sl => if isSystem a then .ok (st.stor a sl) else st.read q
        | .classHash a => if isSystem a then .ok 0 else st.read q
        | .nonce a => if isSystem a then .ok 0 else st.read q
        | .cls _ => st.read q)
      (fun c => match st.casm c with | some v => .ok v | none => .notfound)
  else "noview"

def parseView : List String → Option View
  | ["head"] => some .head
  | ["num", n] => (hexToNat? n).map .num
  | ["hash", h] => (hexToNat? h).map .hash
  | _ => none

def step (s : DState) (line : String) : DState × String :=
  match words line with
  | ["reset"] => ({ DState.init with cfg := s.cfg, addrs := s.addrs, slots := s.slots, classes := s.classes }, "ok")
  | ["cfg", "leaffix", b] =>
    if b == "0" then ({ s with cfg := { s.cfg with leafFix := false } }, "ok")
    else if b == "1" then ({ s with cfg := { s.cfg with leafFix := true } }, "ok")
    else (s, "bad-op")
  | ["cfg", "historderfix", b] =>
    if b == "0" then ({ s with cfg := { s.cfg with histOrderFix := false } }, "ok")
    else if b == "1" then ({ s with cfg := { s.cfg with histOrderFix := true } }, "ok")
    else (s, "bad-op")
  | ["cfg", "migvalfix", b] =>
    if b == "0" then ({ s with cfg := { s.cfg with migValFix := false } }, "ok")
    else if b == "1" then ({ s with cfg := { s.cfg with migValFix := true } }, "ok")
    else (s, "bad-op")
  | ["cfg", "dupdeclfix", b] =>
    if b == "0" then ({ s with cfg := { s.cfg with dupDeclFix := false } }, "ok")
    else if b == "1" then ({ s with cfg := { s.cfg with dupDeclFix := true } }, "ok")
    else (s, "bad-op")
  | ["cfg", "sysprobefix", b] =>
    if b == "0" then ({ s with cfg := { s.cfg with sysProbeFix := false } }, "ok")
    else if b == "1" then ({ s with cfg := { s.cfg with sysProbeFix := true } }, "ok")
    else (s, "bad-op")
  | "univ" :: tag :: ws =>
    match hexList ws with
    | none => (s, "bad-op")
    | some xs =>
      if tag == "a" then ({ s with addrs := xs }, "ok")
      else if tag == "k" then ({ s with slots := xs }, "ok")
      else if tag == "c" then ({ s with classes := xs }, "ok")
      else (s, "bad-op")
  | "store" :: id :: p :: toks =>
    match hexToNat? id, parseDiff toks Diff.empty with
    | some id, some d0 =>
      if p != "p1" && p != "p2" then (s, "bad-op") else
      let d : Diff := { d0 with v2 := p == "p2" }
      let (nw, a) := match s.nw.store (newBackend s.cfg) id d with
        | .ok n => (n, "ok")
        | .error e => (s.nw, "err:" ++ errName e)
      let (lg, b) := match s.lg.store (legacyBackendOf s.cfg.migValFix s.cfg.dupDeclFix) id d with
        | .ok n => (n, "ok")
        | .error e => (s.lg, "err:" ++ errName e)
      ({ s with nw := nw, lg := lg, chain := d :: s.chain },
        "new=" ++ a ++ " legacy=" ++ b ++ (if d.wfb then "" else " not-wf"))
    | _, _ => (s, "bad-op")
  | "try-store" :: id :: p :: toks =>
    -- outcome of an operation whose result is not kept (failing block, Simulate, dropped batch)
    match hexToNat? id, parseDiff toks Diff.empty with
    | some id, some d0 =>
      if p != "p1" && p != "p2" then (s, "bad-op") else
      let d : Diff := { d0 with v2 := p == "p2" }
      let a := match s.nw.store (newBackend s.cfg) id d with
        | .ok _ => "ok"
        | .error e => "err:" ++ errName e
      let b := match s.lg.store (legacyBackendOf s.cfg.migValFix s.cfg.dupDeclFix) id d with
        | .ok _ => "ok"
        | .error e => "err:" ++ errName e
      (s, "new=" ++ a ++ " legacy=" ++ b ++ (if d.wfb then "" else " not-wf"))
    | _, _ => (s, "bad-op")
  | ["try-revert"] =>
    let a := match s.nw.revert (newBackend s.cfg) with
      | .ok _ => "ok"
      | .error e => "err:" ++ errName e
    let b := match s.lg.revert (legacyBackendOf s.cfg.migValFix s.cfg.dupDeclFix) with
      | .ok _ => "ok"
      | .error e => "err:" ++ errName e
    (s, "new=" ++ a ++ " legacy=" ++ b)
  | ["revert"] =>
    let (nw, a) := match s.nw.revert (newBackend s.cfg) with
      | .ok n => (n, "ok")
      | .error e => (s.nw, "err:" ++ errName e)
    let (lg, b) := match s.lg.revert (legacyBackendOf s.cfg.migValFix s.cfg.dupDeclFix) with
      | .ok n => (n, "ok")
      | .error e => (s.lg, "err:" ++ errName e)
    ({ s with nw := nw, lg := lg, chain := s.chain.drop 1 }, "new=" ++ a ++ " legacy=" ++ b)
  | "dump" :: m :: vw =>
    match parseView vw with
    | none => (s, "bad-op")
    | some v =>
      if m == "new" then (s, dumpNode s (newBackend s.cfg) s.nw v)
      else if m == "legacy" then (s, dumpNode s (legacyBackendOf s.cfg.migValFix s.cfg.dupDeclFix) s.lg v)
      else if m == "abs" then
        match v with
        | .num k => (s, dumpAbs s k)
        | _ => (s, "bad-op")
      else (s, "bad-op")
  | _ => (s, "bad-op")

def main : IO Unit := loop step DState.init
