import JunoModel.Common.Proto
import JunoModel.C03.Model
import JunoModel.C03.ModelApi
import JunoModel.C03.ModelKeys
import JunoModel.C03.ModelRpc
/-!
Line-protocol driver for the C03 model (`lake build c03drv`).

  cfg leaffix|sysprobefix|historderfix <0|1>     which variant of the new backend is modelled (see `Cfg`)
  univ a|k|c <hex>*                 universe of addresses / slots / class hashes for `dump`
  store <blockhash> <p1|p2> <diff>  diff in the token form of harness/cmd/c03/enc.go
  revert
  dump <new|legacy|abs> [fl <f>] head | num <n> | hash <blockhash>
                                    `fl <f>`: through a retention floor seeded at <f> (default: unseeded)
  dumpstore <new|legacy>            every entry of the buckets the model keeps (contract records / class hash, nonce,
                                    deployment height; the three history buckets; classes; CASM metadata; chain height,
                                    headers, state updates, commitments, hash index), one token each, unsorted
  prune-commitments <m>             the block commitments below <m> are deleted (what the pruner leaves in the
                                    bucket the floor is seeded from)
  seedfloor <new|legacy> [<m>]      the floor a new process seeds (after the commitments below <m> are dropped)
  histkey <n> <byte>*               db.*HistoryAtBlockKey: prefix bytes ++ big-endian uint64 of <n>
  keylt <n> <m>                     bytes.Compare(key n, key m) < 0 on such keys
  rpc <new|legacy> [fl <f>] <view>  the RPC handlers on that block id (head = latest): per address of the universe
                                    getStorageAt v9 per slot, getStorageAt v10 per slot, getNonce, getClassHashAt;
                                    tokens: hex value | nf (CONTRACT_NOT_FOUND) | bnf (BLOCK_NOT_FOUND) | err (internal)
  ub <hexbytes>*                    db/dbutils.UpperBound of every byte string (`-` = empty): hex bytes | nil
  keybytes <bs> <bn> <bc> <bt> (s <addr> <slot> | n <addr> | c <addr> | t <addr>)
                                    the key prefix the readers iterate over / DeleteStorageNodesByPath deletes
                                    under, given the four bucket bytes (storage, nonce, class-hash history,
                                    ContractTrieStorage): hex bytes
  inprefix <hex prefix> <hex key>*  is the key inside [prefix, UpperBound(prefix))? 1|0 per key
  reset

The nodes are the BUCKET-level nodes of ModelApi.lean (`BNode`: chain height, headers, state updates,
commitments, hash index as buckets).

`store`/`revert` answer `new=<ok|err:…> legacy=<ok|err:…>` (`store`: plus ` not-wf` when the diff is
outside the theorems' hypothesis `Diff.WF`); `dump` answers one token per read in
the order: per address (class hash, nonce, each slot, last-update block of each slot), per class
(declared-at, compiled class hash, compiled class hash v2); tokens: hex value | nf | at<hex block>;
`noview` when the view does not exist.
-/
open Juno.Proto Juno.C03

structure DState where
  cfg : Cfg
  nw : BNode NState
  lg : BNode LState
  /-- the abstract chain (newest first): every diff the harness stored and did not revert -/
  chain : List Diff
  addrs : List Nat
  slots : List Nat
  classes : List Nat

def DState.init : DState := ⟨Cfg.asFound, BNode.init (newBackend Cfg.asFound), BNode.init (legacyBackendOf false false), [], [], [], []⟩

def hexList (ws : List String) : Option (List Nat) := ws.mapM hexToNat?

/-- parse the diff tokens -/
def parseDiff : List String → Diff → Option Diff
  | [], d => some d
  | "sa" :: a :: rest, d => do
    let a ← hexToNat? a
    parseDiff rest { d with storage := d.storage ++ [(a, [])] }
  | "sk" :: k :: v :: rest, d => do
    let k ← hexToNat? k
    let v ← hexToNat? v
    match d.storage.getLast? with
    | none => none
    | some (a, slots) => parseDiff rest { d with storage := d.storage.dropLast ++ [(a, slots ++ [(k, v)])] }
  | "n" :: a :: v :: rest, d => do
    let a ← hexToNat? a
    let v ← hexToNat? v
    parseDiff rest { d with nonces := d.nonces ++ [(a, v)] }
  | "d" :: a :: c :: rest, d => do
    let a ← hexToNat? a
    let c ← hexToNat? c
    parseDiff rest { d with deployed := d.deployed ++ [(a, c)] }
  | "r" :: a :: c :: rest, d => do
    let a ← hexToNat? a
    let c ← hexToNat? c
    parseDiff rest { d with replaced := d.replaced ++ [(a, c)] }
  | "c0" :: c :: rest, d => do
    let c ← hexToNat? c
    parseDiff rest { d with declared0 := d.declared0 ++ [c] }
  | "c1" :: c :: h :: h2 :: rest, d => do
    let c ← hexToNat? c
    let h ← hexToNat? h
    let h2 ← hexToNat? h2
    parseDiff rest { d with declared1 := d.declared1 ++ [⟨c, h, h2⟩] }
  | "x" :: c :: rest, d => do
    let c ← hexToNat? c
    parseDiff rest { d with extraClasses := d.extraClasses ++ [c] }
  | "m" :: c :: h :: rest, d => do
    let c ← hexToNat? c
    let h ← hexToNat? h
    parseDiff rest { d with migrated := d.migrated ++ [(c, h)] }
  | _, _ => none

def errName : Err → String
  | .alreadyDeployed => "already-deployed"
  | .notFound => "not-found"
  | .notDeployed => "not-deployed"
  | .classMissing => "class-missing"
  | .checkHeadState => "check-head-state"
  | .metaMissing => "meta-missing"
  | .cannotMigrate => "cannot-migrate"
  | .cannotUnmigrate => "cannot-unmigrate"
  | .emptyChain => "empty-chain"

def resTok : Res → String
  | .ok v => natToHex v
  | .notfound => "nf"

def clsTok : Res → String
  | .ok v => "at" ++ natToHex v
  | .notfound => "nf"

def dumpWith (s : DState) (rd : Query → Res) (casm : Nat → Res) (lu : Nat → Nat → Nat) (casm2 : Nat → Res) : String :=
  let perAddr := s.addrs.map (fun a =>
    [resTok (rd (.classHash a)), resTok (rd (.nonce a))] ++ s.slots.map (fun k => resTok (rd (.storage a k))) ++
      s.slots.map (fun k => natToHex (lu a k)))
  let perClass := s.classes.map (fun c => [clsTok (rd (.cls c)), resTok (casm c), resTok (casm2 c)])
  " ".intercalate (perAddr.flatten ++ perClass.flatten)

def dumpNode {σ : Type} (s : DState) (be : Backend σ) (lu : σ → Option Nat → Addr → Slot → Nat) (n : BNode σ)
    (fl : Option Nat) (v : View) : String :=
  match n.resolve be fl v with
  | none => "noview"
  | some _ =>
    dumpWith s (fun q => (n.read be fl v q).getD .notfound) (fun c => (n.readCasm be fl v c).getD .notfound)
      (fun a k => (n.readLastUpdated lu be fl v a k).getD 0) (fun c => (n.readCasmV2 be fl v c).getD .notfound)

/-- the spec: `absAt`, read as the property says; for the system contracts (never in
`DeployedContracts`) the stored value / zero; last-update block = most recent block up to `k` whose
diff lists the slot; compiled class hash v2 = the one of the declaration, if declared up to `k` -/
def dumpAbs (s : DState) (k : Nat) : String :=
  if k < s.chain.length then
    let st := absAt s.chain k
    let sub := s.chain.drop (s.chain.length - 1 - k)
    dumpWith s
      (fun q => match q with
        | .storage a sl => if isSystem a then .ok (st.stor a sl) else st.read q
        | .classHash a => if isSystem a then .ok 0 else st.read q
        | .nonce a => if isSystem a then .ok 0 else st.read q
        | .cls _ => st.read q)
      (fun c => match st.casm c with | some v => .ok v | none => .notfound)
      (fun a sl => lastBlockWhere (fun d _ => (d.storageAt a sl).isSome) s.chain k)
      (fun c => match v2Of sub c with | some v => .ok v | none => .notfound)
  else "noview"

/-! ### store-level dump: the content of the buckets the model keeps, one token per entry
(the harness sorts the tokens and compares them with the real database, bucket by bucket) -/

def hx := natToHex

def histToks (tag : String) (pre : String) (h : Hist) : List String :=
  h.map (fun e => tag ++ ":" ++ pre ++ ":" ++ hx e.1 ++ "=" ++ hx e.2)

def hkeyToks (p : HKey × Hist) : List String :=
  match p.1 with
  | .storage a k => histToks "hs" (hx a ++ ":" ++ hx k) p.2
  | .nonce a => histToks "hn" (hx a) p.2
  | .classHash a => histToks "hc" (hx a) p.2

def metaTok (p : CHash × CasmMeta) : String :=
  "mt:" ++ hx p.1 ++ "=" ++ hx p.2.declaredAt ++ "," ++ hx p.2.v2 ++ "," ++ hx p.2.migratedAt ++ "," ++
    (match p.2.v1 with | some v => hx v | none => "-")

def blockStoreToks {σ : Type} (n : BNode σ) : List String :=
  (match n.height with | some h => ["ht=" ++ hx h] | none => []) ++
  n.headers.map (fun p => "hd:" ++ hx p.1 ++ "=" ++ hx p.2) ++
  n.updates.map (fun p => "su:" ++ hx p.1) ++
  n.commitments.map (fun p => "cm:" ++ hx p.1) ++
  n.hashIdx.map (fun p => "hi:" ++ hx p.1 ++ "=" ++ hx p.2) ++
  n.casmMeta.map metaTok

/-- leaf nodes of the storage tries on disk (bucket `ContractTrieStorage`, node type leaf) -/
def leafToks (p : Addr × Leaves) : List String :=
  p.2.map (fun e => "lf:" ++ hx p.1 ++ ":" ++ hx e.1 ++ "=" ++ hx e.2)

def newStoreToks (n : BNode NState) : List String :=
  (n.st.leaves.map leafToks).flatten ++
  n.st.contracts.map (fun p => "ct:" ++ hx p.1 ++ "=" ++ hx p.2.nonce ++ "," ++ hx p.2.classHash ++ "," ++ hx p.2.deployedHeight) ++
  (n.st.hist.map hkeyToks).flatten ++
  n.st.classes.map (fun p => "cl:" ++ hx p.1 ++ "=" ++ hx p.2) ++
  blockStoreToks n

def legacyStoreToks (n : BNode LState) : List String :=
  n.st.classHash.map (fun p => "ch:" ++ hx p.1 ++ "=" ++ hx p.2) ++
  n.st.nonce.map (fun p => "nn:" ++ hx p.1 ++ "=" ++ hx p.2) ++
  n.st.deployHeight.map (fun p => "dh:" ++ hx p.1 ++ "=" ++ hx p.2) ++
  (n.st.logs.map hkeyToks).flatten ++
  n.st.classes.map (fun p => "cl:" ++ hx p.1 ++ "=" ++ hx p.2) ++
  blockStoreToks n

def rpcTok : RpcRes → String
  | .ok v => natToHex v
  | .contractNotFound => "nf"
  | .blockNotFound => "bnf"
  | .internalError => "err"

def rpcDump {σ : Type} (s : DState) (be : Backend σ) (n : BNode σ) (fl : Option Nat) (v : View) : String :=
  " ".intercalate (s.addrs.map (fun a =>
    s.slots.map (fun k => rpcTok (n.rpcStorageV9 be fl v a k)) ++ s.slots.map (fun k => rpcTok (n.rpcStorageV10 be fl v a k)) ++
      [rpcTok (n.rpcNonce be fl v a), rpcTok (n.rpcClassHashAt be fl v a)])).flatten

def toksLine (l : List String) : String := if l.isEmpty then "-" else " ".intercalate l

def parseView : List String → Option View
  | ["head"] => some .head
  | ["num", n] => (hexToNat? n).map .num
  | ["hash", h] => (hexToNat? h).map .hash
  | _ => none

/-- `[fl <f>] <view>` -/
def parseFloorView : List String → Option (Option Nat × View)
  | "fl" :: f :: rest => do
    let f ← hexToNat? f
    let v ← parseView rest
    pure (some f, v)
  | rest => (parseView rest).map (fun v => (none, v))

def bytesHex (l : List Nat) : String :=
  String.join (l.map (fun b => let h := natToHex b; if h.length < 2 then "0" ++ h else h))

def step (s : DState) (line : String) : DState × String :=
  match words line with
  | ["reset"] => ({ DState.init with cfg := s.cfg, addrs := s.addrs, slots := s.slots, classes := s.classes }, "ok")
  | ["cfg", "leaffix", b] =>
    if b == "0" then ({ s with cfg := { s.cfg with leafFix := false } }, "ok")
    else if b == "1" then ({ s with cfg := { s.cfg with leafFix := true } }, "ok")
    else (s, "bad-op")
  | ["cfg", "historderfix", b] =>
    if b == "0" then ({ s with cfg := { s.cfg with histOrderFix := false } }, "ok")
    else if b == "1" then ({ s with cfg := { s.cfg with histOrderFix := true } }, "ok")
    else (s, "bad-op")
  | ["cfg", "migvalfix", b] =>
    if b == "0" then ({ s with cfg := { s.cfg with migValFix := false } }, "ok")
    else if b == "1" then ({ s with cfg := { s.cfg with migValFix := true } }, "ok")
    else (s, "bad-op")
  | ["cfg", "dupdeclfix", b] =>
    if b == "0" then ({ s with cfg := { s.cfg with dupDeclFix := false } }, "ok")
    else if b == "1" then ({ s with cfg := { s.cfg with dupDeclFix := true } }, "ok")
    else (s, "bad-op")
  | ["cfg", "sysprobefix", b] =>
    if b == "0" then ({ s with cfg := { s.cfg with sysProbeFix := false } }, "ok")
    else if b == "1" then ({ s with cfg := { s.cfg with sysProbeFix := true } }, "ok")
    else (s, "bad-op")
  | "univ" :: tag :: ws =>
    match hexList ws with
    | none => (s, "bad-op")
    | some xs =>
      if tag == "a" then ({ s with addrs := xs }, "ok")
      else if tag == "k" then ({ s with slots := xs }, "ok")
      else if tag == "c" then ({ s with classes := xs }, "ok")
      else (s, "bad-op")
  | "store" :: id :: p :: toks =>
    match hexToNat? id, parseDiff toks Diff.empty with
    | some id, some d0 =>
      if p != "p1" && p != "p2" then (s, "bad-op") else
      let d : Diff := { d0 with v2 := p == "p2" }
      let (nw, a) := match s.nw.store (newBackend s.cfg) id d with
        | .ok n => (n, "ok")
        | .error e => (s.nw, "err:" ++ errName e)
      let (lg, b) := match s.lg.store (legacyBackendOf s.cfg.migValFix s.cfg.dupDeclFix) id d with
        | .ok n => (n, "ok")
        | .error e => (s.lg, "err:" ++ errName e)
      ({ s with nw := nw, lg := lg, chain := d :: s.chain },
        "new=" ++ a ++ " legacy=" ++ b ++ (if d.wfb then "" else " not-wf"))
    | _, _ => (s, "bad-op")
  | "try-store" :: id :: p :: toks =>
    -- outcome of an operation whose result is not kept (failing block, Simulate, dropped batch)
    match hexToNat? id, parseDiff toks Diff.empty with
    | some id, some d0 =>
      if p != "p1" && p != "p2" then (s, "bad-op") else
      let d : Diff := { d0 with v2 := p == "p2" }
      let a := match s.nw.store (newBackend s.cfg) id d with
        | .ok _ => "ok"
        | .error e => "err:" ++ errName e
      let b := match s.lg.store (legacyBackendOf s.cfg.migValFix s.cfg.dupDeclFix) id d with
        | .ok _ => "ok"
        | .error e => "err:" ++ errName e
      (s, "new=" ++ a ++ " legacy=" ++ b ++ (if d.wfb then "" else " not-wf"))
    | _, _ => (s, "bad-op")
  | ["try-revert"] =>
    let a := match s.nw.revert (newBackend s.cfg) with
      | .ok _ => "ok"
      | .error e => "err:" ++ errName e
    let b := match s.lg.revert (legacyBackendOf s.cfg.migValFix s.cfg.dupDeclFix) with
      | .ok _ => "ok"
      | .error e => "err:" ++ errName e
    (s, "new=" ++ a ++ " legacy=" ++ b)
  | ["revert"] =>
    let (nw, a) := match s.nw.revert (newBackend s.cfg) with
      | .ok n => (n, "ok")
      | .error e => (s.nw, "err:" ++ errName e)
    let (lg, b) := match s.lg.revert (legacyBackendOf s.cfg.migValFix s.cfg.dupDeclFix) with
      | .ok n => (n, "ok")
      | .error e => (s.lg, "err:" ++ errName e)
    ({ s with nw := nw, lg := lg, chain := s.chain.drop 1 }, "new=" ++ a ++ " legacy=" ++ b)
  | "dump" :: m :: vw =>
    match parseFloorView vw with
    | none => (s, "bad-op")
    | some (fl, v) =>
      if m == "new" then (s, dumpNode s (newBackend s.cfg) NState.lastUpdated s.nw fl v)
      else if m == "legacy" then
        (s, dumpNode s (legacyBackendOf s.cfg.migValFix s.cfg.dupDeclFix) LState.lastUpdated s.lg fl v)
      else if m == "abs" then
        match fl, v with
        | none, .num k => (s, dumpAbs s k)
        | _, _ => (s, "bad-op")
      else (s, "bad-op")
  | "rpc" :: m :: vw =>
    match parseFloorView vw with
    | none => (s, "bad-op")
    | some (fl, v) =>
      if m == "new" then (s, rpcDump s (newBackend s.cfg) s.nw fl v)
      else if m == "legacy" then (s, rpcDump s (legacyBackendOf s.cfg.migValFix s.cfg.dupDeclFix) s.lg fl v)
      else (s, "bad-op")
  | ["dumpstore", m] =>
    if m == "new" then (s, toksLine (newStoreToks s.nw))
    else if m == "legacy" then (s, toksLine (legacyStoreToks s.lg))
    else (s, "bad-op")
  | ["prune-commitments", below] =>
    match hexToNat? below with
    | none => (s, "bad-op")
    | some b => ({ s with nw := s.nw.dropCommitmentsBelow b, lg := s.lg.dropCommitmentsBelow b }, "ok")
  | ["seedfloor", m] =>
    if m == "new" then (s, natToHex s.nw.seedFloor)
    else if m == "legacy" then (s, natToHex s.lg.seedFloor)
    else (s, "bad-op")
  | ["seedfloor", m, below] =>
    match hexToNat? below with
    | none => (s, "bad-op")
    | some b =>
      if m == "new" then (s, natToHex (s.nw.dropCommitmentsBelow b).seedFloor)
      else if m == "legacy" then (s, natToHex (s.lg.dropCommitmentsBelow b).seedFloor)
      else (s, "bad-op")
  | "histkey" :: n :: pfx =>
    match hexToNat? n, hexList pfx with
    | some n, some pfx =>
      if n < 2 ^ 64 && pfx.all (· < 256) then (s, bytesHex (histKey pfx n)) else (s, "bad-op")
    | _, _ => (s, "bad-op")
  | "ub" :: ps =>
    match ps.mapM hexToBytes? with
    | none => (s, "bad-op")
    | some bss =>
      (s, toksLine (bss.map (fun bs =>
        match upperBoundLoop (bs.map UInt8.toNat) with
        | none => "nil"
        | some u => bytesHex u)))
  | "inprefix" :: p :: ks =>
    match hexToBytes? p, ks.mapM hexToBytes? with
    | some p, some kss =>
      (s, toksLine (kss.map (fun k => if inPrefixRange (p.map UInt8.toNat) (k.map UInt8.toNat) then "1" else "0")))
    | _, _ => (s, "bad-op")
  | "keybytes" :: bs :: bn :: bc :: bt :: rest =>
    match hexToNat? bs, hexToNat? bn, hexToNat? bc, hexToNat? bt with
    | some bs, some bn, some bc, some bt =>
      if !(bs < 256 && bn < 256 && bc < 256 && bt < 256) then (s, "bad-op") else
      let bk : BucketIds := ⟨bs, bn, bc, bt⟩
      match rest with
      | ["s", a, k] =>
        match hexToNat? a, hexToNat? k with
        | some a, some k => if a < 2 ^ 256 && k < 2 ^ 256 then (s, bytesHex (hkeyBytes bk (.storage a k))) else (s, "bad-op")
        | _, _ => (s, "bad-op")
      | ["n", a] =>
        match hexToNat? a with
        | some a => if a < 2 ^ 256 then (s, bytesHex (hkeyBytes bk (.nonce a))) else (s, "bad-op")
        | none => (s, "bad-op")
      | ["c", a] =>
        match hexToNat? a with
        | some a => if a < 2 ^ 256 then (s, bytesHex (hkeyBytes bk (.classHash a))) else (s, "bad-op")
        | none => (s, "bad-op")
      | ["t", a] =>
        match hexToNat? a with
        | some a => if a < 2 ^ 256 then (s, bytesHex (ownerPrefix bk a)) else (s, "bad-op")
        | none => (s, "bad-op")
      | _ => (s, "bad-op")
    | _, _, _, _ => (s, "bad-op")
  | ["keylt", n, m] =>
    match hexToNat? n, hexToNat? m with
    | some n, some m =>
      if n < 2 ^ 64 && m < 2 ^ 64 then (s, if bytesLt (histKey [] n) (histKey [] m) then "1" else "0") else (s, "bad-op")
    | _, _ => (s, "bad-op")
  | _ => (s, "bad-op")

def main : IO Unit := loop step DState.init
