import JunoModel.C03.ModelRpc
import JunoModel.C03.ProofsApi
/-!
C03 — helper lemmas. Part 16 (round 5): the RPC handlers' composition of state reads. Given what the
reads of one view answer, what the handlers answer.
-/
namespace Juno.C03

/-- HISTORICAL view (the reader probes the deployment itself): both versions of `getStorageAt` answer
the property's answer -/
theorem rpcStorage_hist {σ : Type} (be : Backend σ) (fl : Option Nat) (bn : BNode σ) (v : View) (a : Addr) (k : Slot)
    (s : AbsSt) (hv : v ≠ .head)
    (hc : bn.read be fl v (.classHash a) = some (s.read (.classHash a)))
    (hs : bn.read be fl v (.storage a k) = some (s.read (.storage a k))) :
    bn.rpcStorageV9 be fl v a k = rpcSpec s (.storage a k) ∧ bn.rpcStorageV10 be fl v a k = rpcSpec s (.storage a k) := by
  have hres : ∃ w, bn.resolve be fl v = some w := by
    unfold BNode.read at hc
    cases h : bn.resolve be fl v with
    | none => simp [h] at hc
    | some w => exact ⟨w, rfl⟩
  obtain ⟨w, hw⟩ := hres
  unfold BNode.rpcStorageV9 BNode.rpcStorageV10 rpcSpec
  simp only [hw, hc, hs, AbsSt.read]
  by_cases hd : (s.dep a).isSome = true
  · simp only [hd, if_true]
    by_cases hz : s.stor a k = 0 ∧ v = View.head
    · exact absurd hz.2 hv
    · simp [hz]
  · simp [hd]

/-- HEAD view (the reader answers 0 for a slot of an address without contract): the class-hash probe of
the handlers supplies the not-found — v9 always asks first, v10 asks for a zero on the latest block -/
theorem rpcStorage_head {σ : Type} (be : Backend σ) (fl : Option Nat) (bn : BNode σ) (a : Addr) (k : Slot) (s : AbsSt)
    (hc : bn.read be fl .head (.classHash a) = some (s.read (.classHash a)))
    (hs : bn.read be fl .head (.storage a k) = some (.ok (s.stor a k)))
    (hunset : (s.dep a).isSome = false → s.stor a k = 0) :
    bn.rpcStorageV9 be fl .head a k = rpcSpec s (.storage a k) ∧
      bn.rpcStorageV10 be fl .head a k = rpcSpec s (.storage a k) := by
  have hres : ∃ w, bn.resolve be fl .head = some w := by
    unfold BNode.read at hc
    cases h : bn.resolve be fl .head with
    | none => simp [h] at hc
    | some w => exact ⟨w, rfl⟩
  obtain ⟨w, hw⟩ := hres
  unfold BNode.rpcStorageV9 BNode.rpcStorageV10 rpcSpec
  simp only [hw, hc, hs, AbsSt.read]
  by_cases hd : (s.dep a).isSome = true
  · simp only [hd, if_true, and_true]
    by_cases hz : s.stor a k = 0
    · simp [hz]
    · simp [hz]
  · have hd' : (s.dep a).isSome = false := by simpa using hd
    simp [hd', hunset hd']

theorem rpcNonce_of_read {σ : Type} (be : Backend σ) (fl : Option Nat) (bn : BNode σ) (v : View) (a : Addr) (s : AbsSt)
    (ha : isSystem a = false) (hn : bn.read be fl v (.nonce a) = some (s.read (.nonce a))) :
    bn.rpcNonce be fl v a = rpcSpec s (.nonce a) := by
  have hres : ∃ w, bn.resolve be fl v = some w := by
    unfold BNode.read at hn
    cases h : bn.resolve be fl v with
    | none => simp [h] at hn
    | some w => exact ⟨w, rfl⟩
  obtain ⟨w, hw⟩ := hres
  unfold BNode.rpcNonce rpcSpec
  simp only [hw, ha, hn]
  cases s.read (.nonce a) <;> simp

theorem rpcClassHash_of_read {σ : Type} (be : Backend σ) (fl : Option Nat) (bn : BNode σ) (v : View) (a : Addr) (s : AbsSt)
    (ha : isSystem a = false) (hc : bn.read be fl v (.classHash a) = some (s.read (.classHash a))) :
    bn.rpcClassHashAt be fl v a = rpcSpec s (.classHash a) := by
  have hres : ∃ w, bn.resolve be fl v = some w := by
    unfold BNode.read at hc
    cases h : bn.resolve be fl v with
    | none => simp [h] at hc
    | some w => exact ⟨w, rfl⟩
  obtain ⟨w, hw⟩ := hres
  unfold BNode.rpcClassHashAt rpcSpec
  simp only [hw, ha, hc]
  cases s.read (.classHash a) <;> simp

/-- no view, no answer: every method says BLOCK_NOT_FOUND -/
theorem rpc_no_view {σ : Type} (be : Backend σ) (fl : Option Nat) (bn : BNode σ) (v : View) (a : Addr) (k : Slot)
    (h : bn.resolve be fl v = none) :
    bn.rpcStorageV9 be fl v a k = .blockNotFound ∧ bn.rpcStorageV10 be fl v a k = .blockNotFound ∧
    bn.rpcNonce be fl v a = .blockNotFound ∧ bn.rpcClassHashAt be fl v a = .blockNotFound := by
  simp [BNode.rpcStorageV9, BNode.rpcStorageV10, BNode.rpcNonce, BNode.rpcClassHashAt, h]

/-- what the four handlers answer on one node, given what the views of the node answer (generic in the
backend) -/
theorem rpc_from_reads {σ : Type} (be : Backend σ) (ops : List Op) (bn : BNode σ) (nd : Node σ)
    (hR : Refines bn nd) (hch : nd.chain = chainOf ops) (a : Addr) (ha : isSystem a = false) (k : Slot)
    (hnum : ∀ n, n < nd.blocks.length → ∀ q : Query, q.ordinary → nd.read be (.num n) q = some ((absAt nd.chain n).read q))
    (hhead : nd.blocks ≠ [] →
      nd.read be .head (.classHash a) = some ((absOf nd.chain).read (.classHash a)) ∧
      nd.read be .head (.nonce a) = some ((absOf nd.chain).read (.nonce a)) ∧
      nd.read be .head (.storage a k) = some (.ok ((absOf nd.chain).stor a k)))
    (hund : UndepZero nd.chain) :
    (∀ n, n < (chainOf ops).length →
      bn.rpcStorageV9 be none (.num n) a k = rpcSpec (absAt (chainOf ops) n) (.storage a k) ∧
      bn.rpcStorageV10 be none (.num n) a k = rpcSpec (absAt (chainOf ops) n) (.storage a k) ∧
      bn.rpcNonce be none (.num n) a = rpcSpec (absAt (chainOf ops) n) (.nonce a) ∧
      bn.rpcClassHashAt be none (.num n) a = rpcSpec (absAt (chainOf ops) n) (.classHash a)) ∧
    (chainOf ops ≠ [] →
      bn.rpcStorageV9 be none .head a k = rpcSpec (absOf (chainOf ops)) (.storage a k) ∧
      bn.rpcStorageV10 be none .head a k = rpcSpec (absOf (chainOf ops)) (.storage a k) ∧
      bn.rpcNonce be none .head a = rpcSpec (absOf (chainOf ops)) (.nonce a) ∧
      bn.rpcClassHashAt be none .head a = rpcSpec (absOf (chainOf ops)) (.classHash a)) ∧
    (∀ n, (chainOf ops).length ≤ n →
      bn.rpcStorageV9 be none (.num n) a k = .blockNotFound ∧ bn.rpcStorageV10 be none (.num n) a k = .blockNotFound ∧
      bn.rpcNonce be none (.num n) a = .blockNotFound ∧ bn.rpcClassHashAt be none (.num n) a = .blockNotFound) := by
  have hlen : nd.blocks.length = (chainOf ops).length := by rw [← hch]; simp [Node.chain]
  refine ⟨?_, ?_, ?_⟩
  · intro n hn
    have hn' : n < nd.blocks.length := by omega
    have rd : ∀ q : Query, q.ordinary → bn.read be none (.num n) q = some ((absAt (chainOf ops) n).read q) := by
      intro q hq; rw [bread_unseeded be bn nd hR, hnum n hn' q hq, hch]
    have hs := rpcStorage_hist be none bn (.num n) a k (absAt (chainOf ops) n) (by simp) (rd _ ha) (rd (.storage a k) ha)
    exact ⟨hs.1, hs.2, rpcNonce_of_read be none bn _ a _ ha (rd _ ha), rpcClassHash_of_read be none bn _ a _ ha (rd _ ha)⟩
  · intro hne
    have hne' : nd.blocks ≠ [] := by
      intro e; apply hne; rw [← hch]; simp [Node.chain, e]
    obtain ⟨hc, hn, hs⟩ := hhead hne'
    have hc' : bn.read be none .head (.classHash a) = some ((absOf (chainOf ops)).read (.classHash a)) := by
      rw [bread_unseeded be bn nd hR, hc, hch]
    have hn' : bn.read be none .head (.nonce a) = some ((absOf (chainOf ops)).read (.nonce a)) := by
      rw [bread_unseeded be bn nd hR, hn, hch]
    have hs' : bn.read be none .head (.storage a k) = some (.ok ((absOf (chainOf ops)).stor a k)) := by
      rw [bread_unseeded be bn nd hR, hs, hch]
    have hu : ((absOf (chainOf ops)).dep a).isSome = false → (absOf (chainOf ops)).stor a k = 0 := by
      intro hd
      rw [← hch] at hd ⊢
      exact (hund a ha (by simpa using hd)).1 k
    have h := rpcStorage_head be none bn a k (absOf (chainOf ops)) hc' hs' hu
    exact ⟨h.1, h.2, rpcNonce_of_read be none bn _ a _ ha hn', rpcClassHash_of_read be none bn _ a _ ha hc'⟩
  · intro n hn
    have : bn.resolve be none (.num n) = none := by
      rw [bresolve_unseeded be bn nd hR]
      have : ¬ n < nd.blocks.length := by omega
      simp [Node.resolve, this]
    exact rpc_no_view be none bn (.num n) a k this

end Juno.C03
