import JunoModel.C03.ProofsNode
/-!
C03 — helper lemmas. Part 10: the system contracts 0x1/0x2 on the new backend, code as found.
Their record is created by the first storage write and deleted by `commit` whenever the storage is
empty. As long as no block empties a non-empty system contract (`NoDrainStep`), the record's height
is the block that made the storage non-empty, and historical reads of non-zero slots succeed.
-/
namespace Juno.C03

/-- the storage of `a` has a non-zero slot -/
def NonEmpty (s : AbsSt) (a : Addr) : Prop := ∃ k, s.stor a k ≠ 0

/-- a block with an entry for a system contract does not leave it empty if it was not empty -/
def NoDrainStep (ch : List Diff) (d : Diff) : Prop :=
  ∀ a, isSystem a = true → a ∈ d.storage.map (·.1) → NonEmpty (absOf ch) a → NonEmpty (absOf (d :: ch)) a

def NoDrainChain : List Diff → Prop
  | [] => True
  | d :: rest => NoDrainStep rest d ∧ NoDrainChain rest

open Classical in
/-- the deployment height `commit` leaves in the record of a system contract -/
noncomputable def sysHeight : List Diff → Addr → Option Nat
  | [], _ => none
  | d :: rest, a =>
    if a ∈ d.storage.map (·.1) then
      if NonEmpty (absOf (d :: rest)) a then
        match sysHeight rest a with
        | some h => some h
        | none => some rest.length
      else none
    else sysHeight rest a

theorem stor_unchanged (d : Diff) (rest : List Diff) (a : Addr) (h : a ∉ d.storage.map (·.1)) (k : Slot) :
    (absOf (d :: rest)).stor a k = (absOf rest).stor a k := by
  show ((absOf rest).apply rest.length d).stor a k = _
  simp only [AbsSt.apply, Diff.storageAt, (alook_eq_none_iff _ _).mpr h, Option.bind_none, Option.getD_none]

theorem sysHeight_isSome_iff (ch : List Diff) (a : Addr) : (sysHeight ch a).isSome = true ↔ NonEmpty (absOf ch) a := by
  induction ch with
  | nil => simp [sysHeight, NonEmpty, absOf, AbsSt.empty]
  | cons d rest ih =>
    unfold sysHeight
    by_cases hk : a ∈ d.storage.map (·.1)
    · simp only [hk, if_true]
      by_cases hne : NonEmpty (absOf (d :: rest)) a
      · simp only [hne, if_true, iff_true]
        rcases sysHeight rest a with _ | h <;> rfl
      · simp [hne]
    · simp only [hk, if_false]
      rw [ih]
      unfold NonEmpty
      constructor <;> (intro ⟨k, hk'⟩; exact ⟨k, by simpa [stor_unchanged d rest a hk k] using hk'⟩)

theorem sysHeight_lt (ch : List Diff) (a : Addr) (h : Nat) (e : sysHeight ch a = some h) : h < ch.length := by
  induction ch with
  | nil => simp [sysHeight] at e
  | cons d rest ih =>
    unfold sysHeight at e
    by_cases hk : a ∈ d.storage.map (·.1)
    · simp only [hk, if_true] at e
      by_cases hne : NonEmpty (absOf (d :: rest)) a
      · simp only [hne, if_true] at e
        rcases hs : sysHeight rest a with _ | h'
        · simp [hs] at e; subst e; simp
        · simp [hs] at e; subst e; have := ih hs; simp; omega
      · simp [hne] at e
    · simp only [hk, if_false] at e
      have := ih e; simp; omega

/-- with no drains, a system contract that is non-empty at block `n` has a record whose height is
at most `n` -/
theorem sysHeight_le (ch : List Diff) (hnd : NoDrainChain ch) (a : Addr) (hs : isSystem a = true) (n : Nat)
    (hne : NonEmpty (absAt ch n) a) : ∃ h, sysHeight ch a = some h ∧ h ≤ n := by
  induction ch with
  | nil => simp [NonEmpty, absAt, absOf, AbsSt.empty] at hne
  | cons d rest ih =>
    by_cases hn : n < rest.length
    · rw [absAt_cons_lt d rest n hn] at hne
      obtain ⟨h, hh, hle⟩ := ih hnd.2 hne
      refine ⟨h, ?_, hle⟩
      unfold sysHeight
      by_cases hk : a ∈ d.storage.map (·.1)
      · have hner : NonEmpty (absOf rest) a := (sysHeight_isSome_iff rest a).mp (by simp [hh])
        have := hnd.1 a hs hk hner
        simp [hk, this, hh]
      · simp [hk, hh]
    · rw [absAt_ge (d :: rest) n (by simp; omega)] at hne
      have := (sysHeight_isSome_iff (d :: rest) a).mpr hne
      obtain ⟨h, hh⟩ := Option.isSome_iff_exists.mp this
      have := sysHeight_lt (d :: rest) a h hh
      simp at this
      exact ⟨h, hh, by omega⟩

/-- a system contract that is empty at block `n` has no record, or one created after `n` -/
theorem sysHeight_gt (ch : List Diff) (a : Addr) (n : Nat) (hn : n < ch.length)
    (he : ¬ NonEmpty (absAt ch n) a) (h : Nat) (e : sysHeight ch a = some h) : n < h := by
  induction ch with
  | nil => simp at hn
  | cons d rest ih =>
    by_cases hlt : n < rest.length
    · rw [absAt_cons_lt d rest n hlt] at he
      unfold sysHeight at e
      by_cases hk : a ∈ d.storage.map (·.1)
      · simp only [hk, if_true] at e
        by_cases hne : NonEmpty (absOf (d :: rest)) a
        · simp only [hne, if_true] at e
          rcases hs : sysHeight rest a with _ | h'
          · simp [hs] at e; omega
          · simp [hs] at e; subst e; exact ih hlt he hs
        · simp [hne] at e
      · simp only [hk, if_false] at e
        exact ih hlt he e
    · rw [absAt_ge (d :: rest) n (by simp; omega)] at he
      have := (sysHeight_isSome_iff (d :: rest) a).mp (by simp [e])
      exact absurd this he

/-- the system contracts have class hash 0 and nonce 0 in the abstract state (they never appear in
`DeployedContracts`, `ReplacedClasses`, `Nonces`) -/
theorem system_cls_nonce_zero (ch : List Diff) (hwf : ∀ d ∈ ch, d.WF) (a : Addr) (ha : isSystem a = true) :
    (absOf ch).cls a = 0 ∧ (absOf ch).nonce a = 0 := by
  induction ch with
  | nil => exact ⟨rfl, rfl⟩
  | cons d rest ih =>
    have hn := (hwf d List.mem_cons_self).noSys a ha
    have ih' := ih (fun x hx => hwf x (List.mem_cons_of_mem _ hx))
    show ((absOf rest).apply rest.length d).cls a = 0 ∧ ((absOf rest).apply rest.length d).nonce a = 0
    simp only [AbsSt.apply, (alook_eq_none_iff _ _).mpr hn.1, (alook_eq_none_iff _ _).mpr hn.2.1,
      (alook_eq_none_iff _ _).mpr hn.2.2, Option.getD_none]
    exact ih'

theorem system_cls_nonce_zero_at (ch : List Diff) (hwf : ∀ d ∈ ch, d.WF) (a : Addr) (ha : isSystem a = true) (n : Nat) :
    (absAt ch n).cls a = 0 ∧ (absAt ch n).nonce a = 0 :=
  system_cls_nonce_zero _ (fun d hd => hwf d (List.mem_of_mem_drop hd)) a ha

/-! ### histories with a per-block precondition -/

/-- every `store` of the history meets `P` relative to the chain at that moment -/
def OpsOK (P : List Diff → Diff → Prop) : List Op → List Diff → Prop
  | [], _ => True
  | .store _ d :: rest, ch => P ch d ∧ OpsOK P rest (d :: ch)
  | .revert :: rest, ch => OpsOK P rest ch.tail

theorem run_invariant' {σ : Type} (be : Backend σ) (I : List Diff → σ → Prop) (P : List Diff → Diff → Prop)
    (hstore : ∀ ch s s' d, I ch s → P ch d → be.update s ch.length d = .ok s' → I (d :: ch) s')
    (hrevert : ∀ d rest s s', I (d :: rest) s → be.revert s rest.length d = .ok s' → I rest s')
    (ops : List Op) (nd nd' : Node σ) (hI : I nd.chain nd.st) (hP : OpsOK P ops nd.chain)
    (h : run be nd ops = some nd') : I nd'.chain nd'.st := by
  induction ops generalizing nd with
  | nil => simp [run] at h; subst h; exact hI
  | cons op rest ih =>
    unfold run at h
    split at h
    · next n1 hstep =>
      cases op with
      | store id d =>
        obtain ⟨hb, hu⟩ := store_blocks be nd n1 id d hstep
        have hlen : nd.blocks.length = nd.chain.length := by simp [Node.chain]
        rw [hlen] at hu
        have hI1 := hstore nd.chain nd.st n1.st d hI hP.1 hu
        have hc : n1.chain = d :: nd.chain := by simp [Node.chain, hb]
        exact ih n1 (by rw [hc]; exact hI1) (by rw [hc]; exact hP.2) h
      | revert =>
        obtain ⟨id, d, hb, hr⟩ := revert_blocks be nd n1 hstep
        have hlen : n1.blocks.length = n1.chain.length := by simp [Node.chain]
        rw [hlen] at hr
        have hc : nd.chain = d :: n1.chain := by simp [Node.chain, hb]
        have hI' : I (d :: n1.chain) nd.st := by rw [← hc]; exact hI
        have hI1 := hrevert d n1.chain nd.st n1.st hI' hr
        have hP' : OpsOK P rest n1.chain := by
          have := hP
          simp only [OpsOK, hc, List.tail_cons] at this
          exact this
        exact ih n1 hI1 hP' h
    · cases h


/-! ### the record of a system contract follows `sysHeight` -/

structure NSys (cfg : Cfg) (ch : List Diff) (s : NState) : Prop where
  inv : NInv cfg ch s
  nodrain : NoDrainChain ch
  sys : ∀ a, isSystem a = true → bget s.contracts a = (sysHeight ch a).map (fun h => (⟨0, 0, h⟩ : Contract))

theorem nsys_init (cfg : Cfg) : NSys cfg [] NState.empty :=
  ⟨ninv_init cfg, trivial, by intro a _; rfl⟩

theorem touched_system (d : Diff) (hwf : d.WF) (a : Addr) (ha : isSystem a = true) :
    a ∈ d.touched ↔ a ∈ d.storage.map (·.1) := by
  have hn := hwf.noSys a ha
  unfold Diff.touched
  simp only [List.mem_append]
  constructor
  · intro h
    rcases h with ((h | h) | h) | h
    · exact absurd h hn.1
    · exact absurd h hn.2.1
    · exact absurd h hn.2.2
    · exact h
  · intro h; exact Or.inr h

theorem isEmpty_iff_not_nonEmpty (cfg : Cfg) (ch : List Diff) (s : NState) (hinv : NInv cfg ch s) (a : Addr) :
    (lget s.trie a).isEmpty = true ↔ ¬ NonEmpty (absOf ch) a := by
  rw [isEmpty_iff_all_zero _ (hinv.trieNZ a)]
  unfold NonEmpty
  constructor
  · intro h ⟨k, hk⟩; exact hk (by rw [← hinv.trie a k]; exact h k)
  · intro h k
    rw [hinv.trie a k]
    exact Classical.byContradiction (fun hne => h ⟨k, hne⟩)

open Classical in
theorem nsys_store (cfg : Cfg) (ch : List Diff) (s s' : NState) (d : Diff) (hs : NSys cfg ch s)
    (hP : d.WF ∧ NoDrainStep ch d) (hup : s.update cfg ch.length d = .ok s') : NSys cfg (d :: ch) s' := by
  have hinv' := ninv_store cfg ch s s' d hs.inv hP.1 hup
  refine ⟨hinv', ⟨hP.2, hs.nodrain⟩, ?_⟩
  intro a ha
  obtain ⟨_, hs'⟩ := update_ok cfg s s' ch.length d hup
  have hwf := hP.1
  have hn := hwf.noSys a ha
  have hc4 : bget (setNonceC (setClassC (deployC s.contracts ch.length d.deployed) d.replaced) d.nonces) a =
      bget s.contracts a := by
    rw [setNonceC_get _ _ hwf.nonceNodup, setClassC_get _ _ hwf.repNodup, deployC_get _ _ _ hwf.depNodup,
      (alook_eq_none_iff _ _).mpr hn.1, (alook_eq_none_iff _ _).mpr hn.2.1, (alook_eq_none_iff _ _).mpr hn.2.2]
    rfl
  have hempty := isEmpty_iff_not_nonEmpty cfg (d :: ch) s' hinv' a
  have htrie : s'.trie = (writeSlots cfg (s.trie, s.leaves) d.storage).1 := by rw [hs']
  have hcontracts : bget s'.contracts a =
      (clGet (purgeSys (writeSlots cfg (s.trie, s.leaves) d.storage).1
        (sysCreateC (setNonceC (setClassC (deployC s.contracts ch.length d.deployed) d.replaced) d.nonces) ch.length
          (d.storage.map (·.1)), (writeSlots cfg (s.trie, s.leaves) d.storage).2) d.touched) a).1 := by rw [hs']; rfl
  have hc5 : bget (sysCreateC (setNonceC (setClassC (deployC s.contracts ch.length d.deployed) d.replaced) d.nonces)
      ch.length (d.storage.map (·.1))) a =
      if bget s.contracts a = none ∧ a ∈ d.storage.map (·.1) then some ⟨0, 0, ch.length⟩ else bget s.contracts a := by
    simp only [sysCreateC_get, hc4, ha, true_and]
  have hdef : sysHeight (d :: ch) a =
      if a ∈ d.storage.map (·.1) then
        if NonEmpty (absOf (d :: ch)) a then (match sysHeight ch a with | some h => some h | none => some ch.length)
        else none
      else sysHeight ch a := by rw [sysHeight]
  rw [hcontracts, purgeSys_get]
  simp only [clGet, hc5, ← htrie, touched_system d hwf a ha, ha, true_and, hdef, hs.sys a ha]
  by_cases hk : a ∈ d.storage.map (·.1)
  · simp only [hk, if_true, and_true, true_and]
    by_cases hne : NonEmpty (absOf (d :: ch)) a
    · have hnot : ¬ (lget s'.trie a).isEmpty = true := fun h => (hempty.mp h) hne
      simp only [hne, if_true, hnot, and_false, if_false]
      rcases hh : sysHeight ch a with _ | h <;> simp
    · have hem : (lget s'.trie a).isEmpty = true := hempty.mpr hne
      simp only [hne, if_false, hem, and_true]
      rcases hh : sysHeight ch a with _ | h <;> simp
  · simp [hk]


open Classical in
theorem nsys_revert (cfg : Cfg) (d : Diff) (rest : List Diff) (s s' : NState) (hs : NSys cfg (d :: rest) s)
    (hrev : s.revert cfg rest.length d = .ok s') : NSys cfg rest s' := by
  have hinv' := ninv_revert cfg d rest s s' hs.inv hrev
  refine ⟨hinv', hs.nodrain.2, ?_⟩
  intro a ha
  have hs' := revert_ok cfg s s' rest.length d hrev
  have hwf : d.WF := hs.inv.wf d List.mem_cons_self
  have hn := hwf.noSys a ha
  have hkeysR : (s.reverseReplaced rest.length d).map (·.1) = d.replaced.map (·.1) := by
    unfold NState.reverseReplaced
    exact map_map_fst d.replaced (fun a _ =>
      if rest.length = 0 then 0 else newHistorical (lget s.hist (.classHash a)) (rest.length - 1))
  have hkeysN : (s.reverseNonces rest.length d).map (·.1) = d.nonces.map (·.1) := by
    unfold NState.reverseNonces
    exact map_map_fst d.nonces (fun a _ =>
      if rest.length = 0 then 0 else newHistorical (lget s.hist (.nonce a)) (rest.length - 1))
  have hkeysS : (s.reverseStorage rest.length d).map (·.1) = d.storage.map (·.1) := by
    unfold NState.reverseStorage
    exact map_map_fst d.storage (fun a slots => slots.map (fun e =>
      (e.1, if rest.length = 0 then 0 else newHistorical (lget s.hist (.storage a e.1)) (rest.length - 1))))
  have hc3 : bget (setNonceC (setClassC s.contracts (s.reverseReplaced rest.length d)) (s.reverseNonces rest.length d)) a =
      bget s.contracts a := by
    rw [setNonceC_get _ _ (by rw [hkeysN]; exact hwf.nonceNodup), setClassC_get _ _ (by rw [hkeysR]; exact hwf.repNodup),
      (alook_eq_none_iff _ _).mpr (by rw [hkeysN]; exact hn.2.2), (alook_eq_none_iff _ _).mpr (by rw [hkeysR]; exact hn.2.1)]
    rfl
  have hc4 : bget (sysCreateC (setNonceC (setClassC s.contracts (s.reverseReplaced rest.length d))
      (s.reverseNonces rest.length d)) rest.length ((s.reverseStorage rest.length d).map (·.1))) a =
      if bget s.contracts a = none ∧ a ∈ d.storage.map (·.1) then some ⟨0, 0, rest.length⟩ else bget s.contracts a := by
    simp only [sysCreateC_get, hc3, ha, true_and, hkeysS]
  have hdc := deleteContracts_get
    (sysCreateC (setNonceC (setClassC s.contracts (s.reverseReplaced rest.length d)) (s.reverseNonces rest.length d))
      rest.length ((s.reverseStorage rest.length d).map (·.1)),
     (writeSlots cfg (s.trie, s.leaves) (s.reverseStorage rest.length d)).1,
     (writeSlots cfg (s.trie, s.leaves) (s.reverseStorage rest.length d)).2) d.deployed a
  simp only [hn.1, if_false] at hdc
  have hx1 := congrArg Prod.fst hdc
  simp only at hx1
  have hempty := isEmpty_iff_not_nonEmpty cfg rest s' hinv' a
  have hdef : sysHeight (d :: rest) a =
      if a ∈ d.storage.map (·.1) then
        if NonEmpty (absOf (d :: rest)) a then (match sysHeight rest a with | some h => some h | none => some rest.length)
        else none
      else sysHeight rest a := by rw [sysHeight]
  have hold := hs.sys a ha
  rw [hdef] at hold
  have hcontracts : bget s'.contracts a = (clGet (purgeSys s'.trie
      ((deleteContracts
        (sysCreateC (setNonceC (setClassC s.contracts (s.reverseReplaced rest.length d)) (s.reverseNonces rest.length d))
          rest.length ((s.reverseStorage rest.length d).map (·.1)),
         (writeSlots cfg (s.trie, s.leaves) (s.reverseStorage rest.length d)).1,
         (writeSlots cfg (s.trie, s.leaves) (s.reverseStorage rest.length d)).2) d.deployed).1,
       (deleteContracts
        (sysCreateC (setNonceC (setClassC s.contracts (s.reverseReplaced rest.length d)) (s.reverseNonces rest.length d))
          rest.length ((s.reverseStorage rest.length d).map (·.1)),
         (writeSlots cfg (s.trie, s.leaves) (s.reverseStorage rest.length d)).1,
         (writeSlots cfg (s.trie, s.leaves) (s.reverseStorage rest.length d)).2) d.deployed).2.2) d.touched) a).1 := by
    rw [hs']; rfl
  rw [hcontracts, purgeSys_get]
  simp only [clGet, hx1, hc4, touched_system d hwf a ha, ha, true_and]
  by_cases hk : a ∈ d.storage.map (·.1)
  · simp only [hk, if_true, and_true, true_and] at hold ⊢
    by_cases hner : NonEmpty (absOf rest) a
    · have hned : NonEmpty (absOf (d :: rest)) a := hs.nodrain.1 a ha hk hner
      have hnot : ¬ (lget s'.trie a).isEmpty = true := fun h => (hempty.mp h) hner
      obtain ⟨h, hh⟩ := Option.isSome_iff_exists.mp ((sysHeight_isSome_iff rest a).mpr hner)
      simp only [hned, if_true, hh] at hold
      simp [hold, hnot, hh]
    · have hem : (lget s'.trie a).isEmpty = true := hempty.mpr hner
      have hnone : sysHeight rest a = none := by
        rcases hx : sysHeight rest a with _ | h
        · rfl
        · exact absurd ((sysHeight_isSome_iff rest a).mp (by simp [hx])) hner
      rw [hnone]
      by_cases hc : bget s.contracts a = none
      · simp [hc, hem]
      · obtain ⟨c, hc'⟩ := Option.ne_none_iff_exists'.mp hc
        simp [hc', hem]
  · simp only [hk, if_false] at hold
    simp [hk, hold]

/-- the deployment probe of a system contract succeeds at every block at which it has a non-zero
slot, if no block of the history drained it -/
theorem nsys_histRead (cfg : Cfg) (ch : List Diff) (s : NState) (hs : NSys cfg ch s) (n : Nat) (a : Addr) (k : Slot)
    (ha : isSystem a = true) (hnz : (absAt ch n).stor a k ≠ 0) :
    NState.histRead cfg s n (.storage a k) = .ok ((absAt ch n).stor a k) := by
  have hv : newHistorical (lget s.hist (.storage a k)) n = (absAt ch n).stor a k :=
    ninv_histValue cfg ch s hs.inv (.storage a k) n
  obtain ⟨h, hh, hle⟩ := sysHeight_le ch hs.nodrain a ha n ⟨k, hnz⟩
  have hd : s.deployedAt cfg a n = true := by
    unfold NState.deployedAt
    rw [hs.sys a ha, hh]
    simp [hle]
  simp only [NState.histRead, hd, if_true, hv]

/-- existence of a system contract on the historical views of the new backend, no block draining it:
class hash and nonce read 0 at every block at which the contract has a non-zero slot, not-found at
the others -/
theorem nsys_histRead_existence (cfg : Cfg) (hc : cfg.sysProbeFix = false) (ch : List Diff) (s : NState)
    (hs : NSys cfg ch s) (n : Nat) (hn : n < ch.length) (a : Addr) (ha : isSystem a = true) :
    (NonEmpty (absAt ch n) a →
      NState.histRead cfg s n (.classHash a) = .ok 0 ∧ NState.histRead cfg s n (.nonce a) = .ok 0) ∧
    (¬ NonEmpty (absAt ch n) a →
      NState.histRead cfg s n (.classHash a) = .notfound ∧ NState.histRead cfg s n (.nonce a) = .notfound) := by
  have hz := system_cls_nonce_zero_at ch hs.inv.wf a ha n
  have hv1 : newHistorical (lget s.hist (.classHash a)) n = 0 := by
    rw [ninv_histValue cfg ch s hs.inv (.classHash a) n]; exact hz.1
  have hv2 : newHistorical (lget s.hist (.nonce a)) n = 0 := by
    rw [ninv_histValue cfg ch s hs.inv (.nonce a) n]; exact hz.2
  constructor
  · intro hne
    obtain ⟨h, hh, hle⟩ := sysHeight_le ch hs.nodrain a ha n hne
    have hd : s.deployedAt cfg a n = true := by
      unfold NState.deployedAt
      rw [hs.sys a ha, hh]
      simp [hle]
    simp only [NState.histRead, hd, if_true, hv1, hv2, and_self]
  · intro he
    have hd : s.deployedAt cfg a n = false := by
      unfold NState.deployedAt
      rw [hs.sys a ha, hc]
      rcases hx : sysHeight ch a with _ | h
      · simp
      · have := sysHeight_gt ch a n hn he h hx
        simp; omega
    simp [NState.histRead, hd]

/-- … and on the head view: 0 when the contract has a non-zero slot, not-found otherwise -/
theorem nsys_headRead_existence (cfg : Cfg) (ch : List Diff) (s : NState) (hs : NSys cfg ch s) (a : Addr)
    (ha : isSystem a = true) :
    (NonEmpty (absOf ch) a → s.headRead (.classHash a) = .ok 0 ∧ s.headRead (.nonce a) = .ok 0) ∧
    (¬ NonEmpty (absOf ch) a → s.headRead (.classHash a) = .notfound ∧ s.headRead (.nonce a) = .notfound) := by
  constructor
  · intro hne
    obtain ⟨h, hh⟩ := Option.isSome_iff_exists.mp ((sysHeight_isSome_iff ch a).mpr hne)
    simp [NState.headRead, hs.sys a ha, hh]
  · intro he
    have : sysHeight ch a = none := by
      rcases hx : sysHeight ch a with _ | h
      · rfl
      · exact absurd ((sysHeight_isSome_iff ch a).mp (by simp [hx])) he
    simp [NState.headRead, hs.sys a ha, this]

end Juno.C03
