import JunoModel.C03.ModelApi
/-!
C03 — model, part 3 (round 5): the keys of the state buckets at the BYTE level, and the one helper
every prefix-bounded iterator and every prefix `DeleteRange` of juno goes through.
Core Lean only (linked into `c03drv`).

Transcribed code:
* db/dbutils/bound.go `UpperBound` (`upperBoundLoop`: the loop as written, scanning from the last
  byte; `upperBound`: the same function by recursion from the first byte — `ProofsKeys.upperBoundLoop_eq`);
* db/memory/db.go `NewIterator(prefix, withUpperBound = true)` (keys `k` with `prefix ≤ k` and, when a
  bound exists, `k < UpperBound(prefix)`, sorted; the pebble stores set `LowerBound` / `UpperBound` to
  the same two byte strings) and `DeleteRange(start, end)` (`start ≤ k < end`);
* db/memory/iterator.go `Seek` (first key `≥` the seek key), `Prev`;
* db/schema.go key layouts: `Bucket.Key(parts…)` = bucket byte ++ parts; a felt is its 32 big-endian
  bytes (`felt.Marshal`); `ContractStorageHistoryKey(addr, slot)`, `ContractNonceHistoryKey(addr)`,
  `ContractClassHashHistoryKey(addr)` (and the Deprecated* ones), `…AtBlockKey` = prefix ++ be64 block;
* core/trie2/trieutils/accessors.go `nodeKeyByPath` (storage trie of a contract: bucket byte ++ 32 bytes
  owner ++ node type ++ path) and `DeleteStorageNodesByPath` (`DeleteRange(p, UpperBound(p))` with
  `p` = bucket byte ++ owner);
* core/state/state_reader.go `valueAt` / `lastUpdatedBlockNumber` once more, this time on the bytes an
  iterator yields (`valueAtBytes`, `lastUpdatedBytes`): `ProofsKeys` shows that on the encoding of a
  history bucket they compute `newValueAt` / `lastUpdatedOf` of Model.lean / ModelApi.lean — the
  per-prefix lists `Hist` are what a bounded iterator sees, BECAUSE `UpperBound` is exact.
-/
namespace Juno.C03

abbrev Key := List Nat

/-- db/dbutils `UpperBound`, the loop as written: `for i := len(prefix)-1; i >= 0; i--`: a byte 0xff is
skipped; the first other byte is incremented and everything after it cut off; `nil` (`none`) when
every byte is 0xff (or the prefix is empty). Argument of `ubScan`: `prefix[0..i]` reversed. -/
def ubScan : List Nat → Option Key
  | [] => none
  | x :: r => if x = 255 then ubScan r else some (((x + 1) :: r).reverse)

def upperBoundLoop (p : Key) : Option Key := ubScan p.reverse

/-- the same function by recursion from the first byte: when the rest of the prefix has a bound, the
bound is this byte followed by it; when the rest is all 0xff (or empty), this byte is incremented
and the rest cut off — unless it is 0xff too. -/
def upperBound : Key → Option Key
  | [] => none
  | x :: r =>
    match upperBound r with
    | some u => some (x :: u)
    | none => if x = 255 then none else some [x + 1]

/-- membership in `[lo, hi)` as the stores decide it (`bytes.Compare`); `hi = none`: no upper bound -/
def inRange (lo : Key) (hi : Option Key) (k : Key) : Bool :=
  !bytesLt k lo && (match hi with | none => true | some h => bytesLt k h)

/-- the keys a prefix-bounded iterator / a prefix range delete covers -/
def inPrefixRange (p : Key) (k : Key) : Bool := inRange p (upperBound p) k

/-- `bytes.HasPrefix(k, p)` -/
def hasPrefix : Key → Key → Bool
  | [], _ => true
  | _ :: _, [] => false
  | x :: p, y :: k => x == y && hasPrefix p k

/-- a key/value store as the list of its entries -/
abbrev KV := List (Key × Val)

/-- `DeleteRange(lo, hi)` -/
def KV.deleteRange (s : KV) (lo : Key) (hi : Option Key) : KV := s.filter (fun e => !inRange lo hi e.1)

/-- insertion into a list sorted by `bytes.Compare` -/
def kvInsert (e : Key × Val) : KV → KV
  | [] => [e]
  | x :: r => if bytesLt x.1 e.1 then x :: kvInsert e r else e :: x :: r

/-- `sort.Strings(keys)` -/
def kvSort (s : KV) : KV := s.foldr kvInsert []

/-- `NewIterator(p, true)`: the entries with `p ≤ key < UpperBound(p)`, ascending -/
def KV.iter (s : KV) (p : Key) : KV := kvSort (s.filter (fun e => inPrefixRange p e.1))

/-! ### key layouts -/

/-- `felt.Marshal`: 32 bytes, big endian -/
def feltBytes (x : Nat) : Key := beBytes 32 x

/-- bucket bytes of db/buckets.go that matter here (the values are parameters of the statements; the
driver is given the real ones by the harness) -/
structure BucketIds where
  storageHist : Nat
  nonceHist : Nat
  classHashHist : Nat
  trieStorage : Nat

/-- `db.Contract{Storage,Nonce,ClassHash}HistoryKey`: the prefix the readers iterate over -/
def hkeyBytes (bk : BucketIds) : HKey → Key
  | .storage a k => bk.storageHist :: (feltBytes a ++ feltBytes k)
  | .nonce a => bk.nonceHist :: feltBytes a
  | .classHash a => bk.classHashHist :: feltBytes a

/-- the prefix `DeleteStorageNodesByPath` deletes under: `ContractTrieStorage.Key(owner.Marshal())` -/
def ownerPrefix (bk : BucketIds) (a : Addr) : Key := bk.trieStorage :: feltBytes a

/-- `nodeKeyByPath` of a node of contract `a`'s storage trie: owner prefix ++ node type ++ encoded path -/
def trieNodeKey (bk : BucketIds) (a : Addr) (rest : Key) : Key := ownerPrefix bk a ++ rest

/-- a history bucket as bytes: every entry `(key, block) ↦ value` under `prefix ++ be64 block` -/
def encodeHist (bk : BucketIds) (h : Bucket HKey Hist) : KV :=
  h.flatMap (fun p => p.2.map (fun e => (histKey (hkeyBytes bk p.1) e.1, e.2)))

/-- the storage-trie nodes of all contracts as bytes (`nodes a` = the (node type ++ path, blob) pairs
of contract `a`) -/
def encodeTries (bk : BucketIds) (t : Bucket Addr (List (Key × Val))) : KV :=
  t.flatMap (fun p => p.2.map (fun e => (trieNodeKey bk p.1 e.1, e.2)))

/-- `nodeKeyByPath(…, isLeaf = true)` after the owner: node type `leaf` (2), the 32 active bytes of the
251-bit path `FeltToPath(slot, 251)`, the path length -/
def leafRest (k : Slot) : Key := 2 :: (feltBytes k ++ [251])

/-- the leaf nodes of the storage tries on disk (`NState.leaves`) as bytes -/
def encodeLeaves (bk : BucketIds) (lv : Bucket Addr Leaves) : KV :=
  encodeTries bk (lv.map (fun p => (p.1, p.2.map (fun e => (leafRest e.1, e.2)))))

/-- `flush`, for each contract marked deleted: `DeleteStorageNodesByPath(batch, addr)` -/
def purgeOwners (bk : BucketIds) (s : KV) (owners : List Addr) : KV :=
  owners.foldl (fun s a => s.deleteRange (ownerPrefix bk a) (upperBound (ownerPrefix bk a))) s

/-! ### the history readers on bytes -/

/-- `binary.BigEndian.Uint64` (of the first 8 bytes it is given) -/
def beVal (l : List Nat) : Nat := l.foldl (fun acc b => acc * 256 + b) 0

/-- core/state/state_reader.go `valueAt(prefix, n)` on the entries an iterator yields:
`Seek(prefix ++ be64 n)`; when the seek fails or `Uint64(key[len(prefix):])` (the 8 bytes after the
prefix) is not `n`, `Prev()`;
no entry there → `ErrNoHistoryValue`. -/
def valueAtBytes (s : KV) (p : Key) (n : Nat) : Option Val :=
  let it := s.iter p
  let seek := histKey p n
  let before := it.takeWhile (fun e => bytesLt e.1 seek)
  match it.dropWhile (fun e => bytesLt e.1 seek) with
  | (k, v) :: _ => if beVal ((k.drop p.length).take 8) = n then some v else before.getLast?.map (·.2)
  | [] => before.getLast?.map (·.2)

/-- `lastUpdatedBlockNumber(prefix, upTo)` on bytes -/
def lastUpdatedBytes (s : KV) (p : Key) (n : Nat) : Nat :=
  let it := s.iter p
  let seek := histKey p n
  let before := it.takeWhile (fun e => bytesLt e.1 seek)
  let prev := (before.getLast?.map (fun e => beVal ((e.1.drop p.length).take 8))).getD 0
  match it.dropWhile (fun e => bytesLt e.1 seek) with
  | (k, _) :: _ => if beVal ((k.drop p.length).take 8) = n then n else prev
  | [] => prev

end Juno.C03
