import JunoModel.C03.ProofsChain
/-!
C03 — helper lemmas. Part 8: the loops of the legacy backend, pointwise.
-/
namespace Juno.C03

theorem bsetFold_get {β γ : Type} (g : γ → Option β) (l : List (Nat × γ)) (hnd : (l.map (·.1)).Nodup)
    (m : Bucket Nat β) (a : Nat) :
    bget (l.foldl (fun m p => bset m p.1 (g p.2)) m) a = ocases (alook l a) (bget m a) (fun v => g v) := by
  exact foldl_pointwise (M := Bucket Nat β) bget id (fun _ _ e => e) (fun _ _ v => g v)
    (fun m p => bset m p.1 (g p.2)) l
    (by intro m p _ y; rw [bget_bset]; constructor <;> intro e <;> simp_all) hnd m a

/-- what `logSetStep` shows of (value bucket, history bucket) at one address -/
def lsGet (K : Addr → HKey) (x : Bucket Addr Nat × Bucket HKey Hist) (a : Addr) : Option Nat × Hist :=
  (bget x.1 a, lget x.2 (K a))

theorem logSetStep_get (K : Addr → HKey) (hK : ∀ x y, K x = K y → x = y) (log : Bool) (b : Nat)
    (x : Bucket Addr Nat × Bucket HKey Hist) (p : Addr × Nat) (y : Addr) :
    (y = p.1 → lsGet K (logSetStep K log b x p) y =
      ocases (lsGet K x y).1 (lsGet K x y)
        (fun old => (some p.2, if log = true then hput (lsGet K x y).2 b old else (lsGet K x y).2))) ∧
    (y ≠ p.1 → lsGet K (logSetStep K log b x p) y = lsGet K x y) := by
  unfold logSetStep lsGet
  constructor
  · intro e; subst e
    rcases hb : bget x.1 p.1 with _ | old
    · simp [hb]
    · cases log <;> simp [bget_bset, histPut_get, hb]
  · intro e
    rcases hb : bget x.1 p.1 with _ | old
    · simp [hb]
    · have hk : K y ≠ K p.1 := fun h => e (hK _ _ h)
      cases log <;> simp [bget_bset, histPut_get, e, hk]

theorem logSetFold_get (K : Addr → HKey) (hK : ∀ x y, K x = K y → x = y) (log : Bool) (b : Nat)
    (l : List (Addr × Nat)) (hnd : (l.map (·.1)).Nodup) (x : Bucket Addr Nat × Bucket HKey Hist) (a : Addr) :
    lsGet K (l.foldl (logSetStep K log b) x) a =
      ocases (alook l a) (lsGet K x a) (fun v =>
        ocases (lsGet K x a).1 (lsGet K x a)
          (fun old => (some v, if log = true then hput (lsGet K x a).2 b old else (lsGet K x a).2))) := by
  exact foldl_pointwise (M := Bucket Addr Nat × Bucket HKey Hist) (lsGet K) id (fun _ _ e => e)
    (fun _ r v => ocases r.1 r (fun old => (some v, if log = true then hput r.2 b old else r.2)))
    (logSetStep K log b) l
    (by intro m p _ y; exact logSetStep_get K hK log b m p y) hnd x a

/-- keys outside the range of `K` are not touched -/
theorem logSetFold_frame (K : Addr → HKey) (log : Bool) (b : Nat) (l : List (Addr × Nat))
    (x : Bucket Addr Nat × Bucket HKey Hist) (key : HKey) (hkey : ∀ a, key ≠ K a) :
    lget (l.foldl (logSetStep K log b) x).2 key = lget x.2 key := by
  apply foldl_frame (get := fun (x : Bucket Addr Nat × Bucket HKey Hist) => lget x.2 key)
  intro m p _
  unfold logSetStep
  rcases bget m.1 p.1 with _ | old
  · rfl
  · cases log <;> simp [histPut_get, hkey p.1]

/-! ### storage of one contract -/

theorem legacySlots_fst (log : Bool) (b : Nat) (a : Addr) (slots : List (Slot × Val)) (t : Leaves) (lg : Bucket HKey Hist) :
    (legacySlots log b a t lg slots).1 = slots.foldl (fun t e => tput t e.1 e.2) t := by
  unfold legacySlots
  induction slots generalizing t lg with
  | nil => rfl
  | cons e r ih => simp only [List.foldl_cons]; rw [ih]

theorem alook_tput (t : Leaves) (k x : Slot) (v : Val) :
    alook (tput t k v) x = if x = k then (if v = 0 then none else some v) else alook t x := by
  unfold tput tdel
  by_cases hv : v = 0
  · simp only [hv, if_true]; rw [alook_filter_ne]
  · simp only [hv, if_false, alook]
    by_cases hx : x = k
    · subst hx; simp
    · have : ¬ k = x := fun e => hx e.symm
      simp only [this, if_false, hx]; rw [alook_filter_ne]; simp [hx]

/-- the logs written by `UpdateStorage` of one contract -/
theorem legacySlots_logs (log : Bool) (b : Nat) (a : Addr) (slots : List (Slot × Val))
    (hnd : (slots.map (·.1)).Nodup) (t : Leaves) (lg : Bucket HKey Hist) (key : HKey) :
    lget (legacySlots log b a t lg slots).2 key =
      match key with
      | .storage a' k =>
        if a' = a then
          ocases (alook slots k) (lget lg key) (fun v =>
            if (log && (v != 0 || (alook t k).isSome)) = true then hput (lget lg key) b ((alook t k).getD 0)
            else lget lg key)
        else lget lg key
      | _ => lget lg key := by
  unfold legacySlots
  induction slots generalizing t lg with
  | nil => cases key <;> simp [alook]
  | cons e r ih =>
    obtain ⟨k0, v0⟩ := e
    simp only [List.map_cons, List.nodup_cons] at hnd
    simp only [List.foldl_cons]
    rw [ih hnd.2]
    cases key with
    | nonce a' =>
      simp only
      by_cases hl : (log && (v0 != 0 || (alook t k0).isSome)) = true <;> simp [hl, histPut_get]
    | classHash a' =>
      simp only
      by_cases hl : (log && (v0 != 0 || (alook t k0).isSome)) = true <;> simp [hl, histPut_get]
    | storage a' k =>
      simp only
      by_cases ha : a' = a
      · subst ha
        simp only [if_true]
        by_cases hk : k0 = k
        · subst hk
          have hnone : alook r k0 = none := (alook_eq_none_iff r k0).mpr hnd.1
          simp only [hnone, ocases_none, alook, if_true, ocases_some]
          by_cases hl : (log && (v0 != 0 || (alook t k0).isSome)) = true <;> simp [hl, histPut_get]
        · have hk' : ¬ k = k0 := fun e => hk e.symm
          simp only [alook, hk, if_false, alook_tput, hk']
          by_cases hl : (log && (v0 != 0 || (alook t k0).isSome)) = true
          · have : HKey.storage a' k ≠ HKey.storage a' k0 := by intro e; cases e; exact hk rfl
            simp [hl, histPut_get, this]
          · simp [hl]
      · simp only [ha, if_false]
        by_cases hl : (log && (v0 != 0 || (alook t k0).isSome)) = true
        · have : HKey.storage a' k ≠ HKey.storage a k0 := by intro e; cases e; exact ha rfl
          simp [hl, histPut_get, this]
        · simp [hl]

/-- what `storageStep` shows of (tries, logs) at one address -/
def ssGet (x : Bucket Addr Leaves × Bucket HKey Hist) (a : Addr) : Leaves × (Slot → Hist) :=
  (lget x.1 a, fun k => lget x.2 (.storage a k))

theorem storageFold_legacy (log : Bool) (b : Nat) (l : List (Addr × List (Slot × Val)))
    (hnd : (l.map (·.1)).Nodup) (hnds : ∀ p ∈ l, (p.2.map (·.1)).Nodup)
    (x : Bucket Addr Leaves × Bucket HKey Hist) (a : Addr) :
    ssGet (l.foldl (storageStep log b) x) a =
      ocases (alook l a) (ssGet x a) (fun slots =>
        (slots.foldl (fun t e => tput t e.1 e.2) (ssGet x a).1,
         fun k => ocases (alook slots k) ((ssGet x a).2 k) (fun v =>
           if (log && (v != 0 || (alook (ssGet x a).1 k).isSome)) = true
           then hput ((ssGet x a).2 k) b ((alook (ssGet x a).1 k).getD 0) else (ssGet x a).2 k))) := by
  exact foldl_pointwise (M := Bucket Addr Leaves × Bucket HKey Hist) ssGet id (fun _ _ e => e)
    (fun _ r slots =>
        (slots.foldl (fun t e => tput t e.1 e.2) r.1,
         fun k => ocases (alook slots k) (r.2 k) (fun v =>
           if (log && (v != 0 || (alook r.1 k).isSome)) = true
           then hput (r.2 k) b ((alook r.1 k).getD 0) else r.2 k)))
    (storageStep log b) l
    (by
      intro m p hp y
      unfold storageStep ssGet
      simp only [id]
      constructor
      · intro e; subst e
        simp only [lget_lset, if_true, legacySlots_fst]
        congr 1
        funext k
        rw [legacySlots_logs log b p.1 p.2 (hnds p hp)]
        simp
      · intro e
        simp only [lget_lset, e, if_false]
        congr 1
        funext k
        rw [legacySlots_logs log b p.1 p.2 (hnds p hp)]
        simp [e]) hnd x a

theorem storageFold_legacy_frame (log : Bool) (b : Nat) (l : List (Addr × List (Slot × Val)))
    (hnds : ∀ p ∈ l, (p.2.map (·.1)).Nodup) (x : Bucket Addr Leaves × Bucket HKey Hist) (key : HKey)
    (hkey : ∀ a k, key ≠ .storage a k) :
    lget (l.foldl (storageStep log b) x).2 key = lget x.2 key := by
  apply foldl_frame (get := fun (x : Bucket Addr Leaves × Bucket HKey Hist) => lget x.2 key)
  intro m p hp
  unfold storageStep
  simp only
  rw [legacySlots_logs log b p.1 p.2 (hnds p hp)]
  cases key with
  | storage a k => exact absurd rfl (hkey a k)
  | nonce a => rfl
  | classHash a => rfl

end Juno.C03
