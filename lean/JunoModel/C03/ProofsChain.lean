import JunoModel.C03.ProofsHist
/-!
C03 — helper lemmas. Part 5: facts about the abstract state along a chain (deployment heights,
declaration heights, what the guards of `Update` imply).
-/
namespace Juno.C03

theorem dep_lt (ch : List Diff) (a : Addr) (h : Nat) (e : (absOf ch).dep a = some h) : h < ch.length := by
  induction ch with
  | nil => simp [absOf, AbsSt.empty] at e
  | cons d rest ih =>
    change ((absOf rest).apply rest.length d).dep a = some h at e
    simp only [AbsSt.apply] at e
    cases hd : alook d.deployed a with
    | some c => simp [hd] at e; subst e; simp
    | none => simp [hd] at e; have := ih e; simp; omega

theorem decl_lt (ch : List Diff) (c : CHash) (n : Nat) (e : (absOf ch).decl c = some n) : n < ch.length := by
  induction ch with
  | nil => simp [absOf, AbsSt.empty] at e
  | cons d rest ih =>
    change ((absOf rest).apply rest.length d).decl c = some n at e
    simp only [AbsSt.apply] at e
    cases hd : (absOf rest).decl c with
    | some m => simp [hd] at e; subst e; have := ih hd; simp; omega
    | none =>
      simp only [hd] at e
      by_cases hc : c ∈ d.newClasses
      · simp [hc] at e; subst e; simp
      · simp [hc] at e

/-- deployed at block `n` ⇔ the deployment height is at most `n` -/
theorem dep_at_iff (ch : List Diff) (hdo : DepOnce ch) (a : Addr) (n : Nat) :
    ((absAt ch n).dep a).isSome = ocases ((absOf ch).dep a) false (fun h => decide (h ≤ n)) := by
  induction ch with
  | nil => simp [absAt, absOf, AbsSt.empty]
  | cons d rest ih =>
    by_cases hn : n < rest.length
    · rw [absAt_cons_lt d rest n hn, ih hdo.2]
      change _ = ocases (((absOf rest).apply rest.length d).dep a) _ _
      simp only [AbsSt.apply]
      cases hd : alook d.deployed a with
      | none => rfl
      | some c =>
        have := hdo.1 a ((alook_isSome_iff _ _).mp (by simp [hd]))
        simp only [this, ocases_none, ocases_some]
        have : ¬ rest.length ≤ n := by omega
        simp [this]
    · rw [absAt_ge (d :: rest) n (by simp; omega)]
      cases hd : (absOf (d :: rest)).dep a with
      | none => rfl
      | some h =>
        have := dep_lt (d :: rest) a h hd
        simp at this
        have : h ≤ n := by omega
        simp [this]

/-- declared at block `n` ⇔ the declaration height is at most `n` -/
theorem decl_at_iff (ch : List Diff) (c : CHash) (n : Nat) :
    (absAt ch n).decl c = ocases ((absOf ch).decl c) none (fun h => if h ≤ n then some h else none) := by
  induction ch with
  | nil => simp [absAt, absOf, AbsSt.empty]
  | cons d rest ih =>
    by_cases hn : n < rest.length
    · rw [absAt_cons_lt d rest n hn, ih]
      change _ = ocases (((absOf rest).apply rest.length d).decl c) _ _
      simp only [AbsSt.apply]
      cases hd : (absOf rest).decl c with
      | some m => rfl
      | none =>
        by_cases hc : c ∈ d.newClasses
        · have : ¬ rest.length ≤ n := by omega
          simp [hc, this]
        · simp [hc]
    · rw [absAt_ge (d :: rest) n (by simp; omega)]
      cases hd : (absOf (d :: rest)).decl c with
      | none => rfl
      | some h =>
        have := decl_lt (d :: rest) c h hd
        simp at this
        have : h ≤ n := by omega
        simp [this]

/-- a property that holds of a chain and of all its suffixes -/
def Hered (P : List Diff → Prop) : List Diff → Prop
  | [] => P []
  | d :: rest => P (d :: rest) ∧ Hered P rest

theorem Hered.head {P : List Diff → Prop} {ch : List Diff} (h : Hered P ch) : P ch := by
  cases ch with
  | nil => exact h
  | cons d rest => exact h.1

/-- a contract that is not deployed (and is not a system contract) has no storage and nonce zero:
consequence of the guards (`getStateObject` / `NewContractUpdater` fail otherwise) -/
def UndepZero (ch : List Diff) : Prop :=
  ∀ a, isSystem a = false → (absOf ch).dep a = none → (∀ k, (absOf ch).stor a k = 0) ∧ (absOf ch).nonce a = 0

theorem undepZero_nil : UndepZero [] := by
  intro a _ _; exact ⟨fun _ => rfl, rfl⟩

/-- the value the revert of block `b = rest.length` reads for a key: the state before the block -/
theorem reverse_value (d : Diff) (rest : List Diff) (hwf : ∀ x ∈ d :: rest, x.WF) (key : HKey) :
    (if rest.length = 0 then 0 else newHistorical (histOf (d :: rest) key) (rest.length - 1)) =
      keyVal (absOf rest) key := by
  by_cases h0 : rest.length = 0
  · have : rest = [] := List.length_eq_zero_iff.mp h0
    subst this
    cases key <;> simp [absOf, AbsSt.empty, keyVal]
  · simp only [h0, if_false]
    rw [histOf_value (d :: rest) hwf key (rest.length - 1)]
    rw [absAt_cons_lt d rest _ (by omega), absAt_ge rest _ (by omega)]

theorem alook_map_val {β γ : Type} (l : List (Nat × β)) (f : Nat × β → γ) (a : Nat) :
    alook (l.map (fun p => (p.1, f p))) a = (l.find? (fun p => p.1 == a)).map f := by
  induction l with
  | nil => rfl
  | cons p r ih =>
    obtain ⟨k, v⟩ := p
    by_cases e : k = a
    · subst e; simp [alook]
    · simp [alook, e, ih]

theorem alook_map_key {β γ : Type} (l : List (Nat × β)) (f : Nat → β → γ) (a : Nat) :
    alook (l.map (fun p => (p.1, f p.1 p.2))) a = (alook l a).map (f a) := by
  induction l with
  | nil => rfl
  | cons p r ih =>
    obtain ⟨k, v⟩ := p
    by_cases e : k = a
    · subst e; simp [alook]
    · simp [alook, e, ih]

theorem map_map_fst {β γ : Type} (l : List (Nat × β)) (f : Nat → β → γ) :
    (l.map (fun p => (p.1, f p.1 p.2))).map (·.1) = l.map (·.1) := by
  simp [List.map_map]

theorem deployed_not_system (d : Diff) (hwf : d.WF) (a : Addr) (h : a ∈ d.deployed.map (·.1)) : isSystem a = false := by
  cases hs : isSystem a with
  | false => rfl
  | true => exact absurd h (hwf.noSys a hs).1

/-- queries about contracts that enter the state through `DeployedContracts`, and about classes -/
def Query.ordinary : Query → Prop
  | .classHash a => isSystem a = false
  | .nonce a => isSystem a = false
  | .storage a _ => isSystem a = false
  | .cls _ => True

theorem newClasses_sub_revert (d : Diff) (hwf : d.WF) (c : CHash) (h : c ∈ d.newClasses) : c ∈ d.revertClasses := by
  unfold Diff.newClasses at h
  unfold Diff.revertClasses
  rcases List.mem_append.mp h with h1 | h1
  · exact List.mem_append.mpr (Or.inl h1)
  · exact List.mem_append.mpr (Or.inr (hwf.extraOK c h1))

end Juno.C03
