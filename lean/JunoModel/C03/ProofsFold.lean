import JunoModel.C03.ProofsAbs
/-!
C03 — helper lemmas. Part 3: what the loops of `Update` / `Revert` do to each bucket, pointwise.
-/
namespace Juno.C03

/-- A loop over a Go map whose step only changes the cell under the entry's key. -/
theorem foldl_pointwise {M κ ρ γ : Type} (get : M → κ → ρ) (K : Nat → κ)
    (hK : ∀ x y, K x = K y → x = y) (f : Nat → ρ → γ → ρ) (step : M → Nat × γ → M)
    (l : List (Nat × γ))
    (hstep : ∀ m p, p ∈ l → ∀ y, (y = K p.1 → get (step m p) y = f p.1 (get m y) p.2) ∧ (y ≠ K p.1 → get (step m p) y = get m y))
    (hnd : (l.map (·.1)).Nodup) (m : M) (x : Nat) :
    get (l.foldl step m) (K x) = ocases (alook l x) (get m (K x)) (fun v => f x (get m (K x)) v) := by
  induction l generalizing m with
  | nil => rfl
  | cons p r ih =>
    obtain ⟨k, v⟩ := p
    simp only [List.map_cons, List.nodup_cons] at hnd
    simp only [List.foldl_cons]
    rw [ih (fun m p hp => hstep m p (List.mem_cons_of_mem _ hp)) hnd.2]
    by_cases hk : k = x
    · subst hk
      have : alook r k = none := (alook_eq_none_iff r k).mpr hnd.1
      simp only [this, alook, if_true, ocases_none, ocases_some]
      exact (hstep m (k, v) List.mem_cons_self (K k)).1 rfl
    · have hne : K x ≠ K k := fun e => hk (hK _ _ e).symm
      simp only [alook, hk, if_false]
      rw [(hstep m (k, v) List.mem_cons_self (K x)).2 hne]

/-- a loop none of whose steps changes an observation leaves it as it was -/
theorem foldl_frame {M α ρ : Type} (get : M → ρ) (step : M → α → M) (l : List α)
    (h : ∀ m x, x ∈ l → get (step m x) = get m) (m : M) : get (l.foldl step m) = get m := by
  induction l generalizing m with
  | nil => rfl
  | cons x r ih =>
    simp only [List.foldl_cons]
    rw [ih (fun m y hy => h m y (List.mem_cons_of_mem _ hy)), h m x List.mem_cons_self]

/-! ### contract records of the new backend -/

theorem deployC_get (c : Bucket Addr Contract) (b : Nat) (l : List (Addr × CHash))
    (hnd : (l.map (·.1)).Nodup) (a : Addr) :
    bget (deployC c b l) a = ocases (alook l a) (bget c a) (fun ch => some ⟨0, ch, b⟩) := by
  unfold deployC
  have := foldl_pointwise (M := Bucket Addr Contract) (γ := CHash) bget id (fun _ _ h => h)
    (fun _ _ ch => some ⟨0, ch, b⟩) (fun c p => bset c p.1 (some ⟨0, p.2, b⟩)) l
    (by intro m p _ y; rw [bget_bset]; constructor <;> intro h <;> simp_all) hnd c a
  simpa using this

theorem setClassC_get (c : Bucket Addr Contract) (l : List (Addr × CHash))
    (hnd : (l.map (·.1)).Nodup) (a : Addr) :
    bget (setClassC c l) a =
      ocases (alook l a) (bget c a) (fun ch => (bget c a).map (fun x => { x with classHash := ch })) := by
  unfold setClassC
  have := foldl_pointwise (M := Bucket Addr Contract) (γ := CHash) bget id (fun _ _ h => h)
    (fun _ o ch => o.map (fun x => { x with classHash := ch }))
    setClassStep l
    (by
      intro m p _ y
      unfold setClassStep
      cases hb : bget m p.1 with
      | none => constructor <;> intro h <;> simp_all
      | some x => simp only [bget_bset]; constructor <;> intro h <;> simp_all) hnd c a
  simpa using this

theorem setNonceC_get (c : Bucket Addr Contract) (l : List (Addr × Val))
    (hnd : (l.map (·.1)).Nodup) (a : Addr) :
    bget (setNonceC c l) a =
      ocases (alook l a) (bget c a) (fun v => (bget c a).map (fun x => { x with nonce := v })) := by
  unfold setNonceC
  have := foldl_pointwise (M := Bucket Addr Contract) (γ := Val) bget id (fun _ _ h => h)
    (fun _ o v => o.map (fun x => { x with nonce := v }))
    setNonceStep l
    (by
      intro m p _ y
      unfold setNonceStep
      cases hb : bget m p.1 with
      | none => constructor <;> intro h <;> simp_all
      | some x => simp only [bget_bset]; constructor <;> intro h <;> simp_all) hnd c a
  simpa using this

theorem sysCreateStep_get (b : Nat) (c : Bucket Addr Contract) (x a : Addr) :
    bget (sysCreateStep b c x) a =
      if a = x ∧ bget c a = none ∧ isSystem a = true then some ⟨0, 0, b⟩ else bget c a := by
  unfold sysCreateStep
  cases hx : bget c x with
  | some cx =>
    by_cases hax : a = x
    · subst hax; simp [hx]
    · simp [hax]
  | none =>
    by_cases hs : isSystem x = true
    · simp only [hs, if_true, bget_bset]
      by_cases hax : a = x
      · subst hax; simp [hx, hs]
      · simp [hax]
    · by_cases hax : a = x
      · subst hax; simp [hs]
      · simp [hs, hax]

theorem sysCreateC_get (c : Bucket Addr Contract) (b : Nat) (addrs : List Addr) (a : Addr) :
    bget (sysCreateC c b addrs) a =
      if bget c a = none ∧ isSystem a = true ∧ a ∈ addrs then some ⟨0, 0, b⟩ else bget c a := by
  unfold sysCreateC
  induction addrs generalizing c with
  | nil => simp
  | cons x r ih =>
    simp only [List.foldl_cons]
    rw [ih, sysCreateStep_get]
    by_cases hax : a = x
    · subst hax
      by_cases h1 : bget c a = none <;> by_cases h2 : isSystem a = true <;> simp [h1, h2]
    · by_cases h1 : bget c a = none <;> by_cases h2 : isSystem a = true <;> simp [h1, h2, hax]

/-- what is observed of (records, leaves) at one address -/
def clGet (cl : Bucket Addr Contract × Bucket Addr Leaves) (a : Addr) : Option Contract × Leaves :=
  (bget cl.1 a, lget cl.2 a)

theorem purgeStep_get (trie : Bucket Addr Leaves) (cl : Bucket Addr Contract × Bucket Addr Leaves) (x a : Addr) :
    clGet (purgeStep trie cl x) a =
      if a = x ∧ isSystem a = true ∧ (bget cl.1 a).isSome = true ∧ (lget trie a).isEmpty = true then (none, [])
      else clGet cl a := by
  unfold purgeStep clGet
  by_cases hc : (isSystem x && (bget cl.1 x).isSome && (lget trie x).isEmpty) = true
  · simp only [hc, if_true, bget_bset, lget_lset]
    by_cases hax : a = x
    · subst hax; grind
    · grind
  · simp only [hc]
    by_cases hax : a = x
    · subst hax; grind
    · grind

/-- `commit`'s purge, pointwise -/
theorem purgeSys_get (trie : Bucket Addr Leaves) (cl : Bucket Addr Contract × Bucket Addr Leaves)
    (touched : List Addr) (a : Addr) :
    clGet (purgeSys trie cl touched) a =
      if isSystem a = true ∧ a ∈ touched ∧ (bget cl.1 a).isSome = true ∧ (lget trie a).isEmpty = true then (none, [])
      else clGet cl a := by
  unfold purgeSys
  induction touched generalizing cl with
  | nil => simp
  | cons x r ih =>
    simp only [List.foldl_cons]
    rw [ih]
    have hs := purgeStep_get trie cl x a
    have hs1 : bget (purgeStep trie cl x).1 a = (clGet (purgeStep trie cl x) a).1 := rfl
    rw [hs1, hs]
    have hm : a ∈ x :: r ↔ a = x ∨ a ∈ r := List.mem_cons
    have hcl : (clGet cl a).1 = bget cl.1 a := rfl
    grind

/-! ### classes -/

theorem declareStep_get (b : Nat) (m : Bucket CHash Nat) (x c : CHash) :
    bget (declareStep b m x) c = if c = x ∧ bget m c = none then some b else bget m c := by
  unfold declareStep
  cases hx : bget m x with
  | some n => by_cases hcx : c = x <;> grind
  | none => simp only [bget_bset]; by_cases hcx : c = x <;> grind

theorem declareFold_get (m : Bucket CHash Nat) (b : Nat) (cs : List CHash) (c : CHash) :
    bget (declareFold m b cs) c = if bget m c = none ∧ c ∈ cs then some b else bget m c := by
  unfold declareFold
  induction cs generalizing m with
  | nil => simp
  | cons x r ih =>
    simp only [List.foldl_cons]
    rw [ih, declareStep_get]
    have hm : c ∈ x :: r ↔ c = x ∨ c ∈ r := List.mem_cons
    grind

theorem undeclareFold_get (m : Bucket CHash Nat) (b : Nat) (cs : List CHash) (c : CHash) :
    bget (undeclareFold m b cs) c = if c ∈ cs ∧ bget m c = some b then none else bget m c := by
  unfold undeclareFold
  induction cs generalizing m with
  | nil => simp
  | cons x r ih =>
    simp only [List.foldl_cons]
    rw [ih]
    have hm : c ∈ x :: r ↔ c = x ∨ c ∈ r := List.mem_cons
    by_cases hx : bget m x = some b
    · simp only [hx, if_true, bget_bset]; grind
    · simp only [hx, if_false]; grind


/-! ### storage tries -/

theorem foldl_fst_tput (cfg : Cfg) (l : List (Slot × Val)) (acc : Leaves × Leaves) :
    (l.foldl (fun (acc : Leaves × Leaves) (e : Slot × Val) =>
      let present := (alook acc.1 e.1).isSome
      let lv' :=
        if e.2 = 0 then
          if present then
            if !cfg.leafFix && (alook acc.1 (sib e.1)).isSome then acc.2 else tdel acc.2 e.1
          else acc.2
        else tput acc.2 e.1 e.2
      (tput acc.1 e.1 e.2, lv')) acc).1 = l.foldl (fun t e => tput t e.1 e.2) acc.1 := by
  induction l generalizing acc with
  | nil => rfl
  | cons e r ih => simp only [List.foldl_cons]; rw [ih]

theorem foldl_tput_get (l : List (Slot × Val)) (hnd : (l.map (·.1)).Nodup) (t : Leaves) (k : Slot) :
    tget (l.foldl (fun t e => tput t e.1 e.2) t) k = (alook l k).getD (tget t k) := by
  have := foldl_pointwise (M := Leaves) (γ := Val) tget id (fun _ _ h => h) (fun _ _ v => v)
    (fun t e => tput t e.1 e.2) l
    (by intro m p _ y; rw [tget_tput]; constructor <;> intro h <;> simp_all) hnd t k
  revert this; cases alook l k <;> intro this <;> simpa using this

theorem foldl_tput_noZero (l : List (Slot × Val)) (t : Leaves) (h : NoZero t) :
    NoZero (l.foldl (fun t e => tput t e.1 e.2) t) := by
  induction l generalizing t with
  | nil => exact h
  | cons e r ih => exact ih _ (noZero_tput t e.1 e.2 h)

theorem alook_perm {β : Type} (l1 l2 : List (Nat × β)) (hp : l1.Perm l2) (hnd : (l2.map (·.1)).Nodup) (k : Nat) :
    alook l1 k = alook l2 k := by
  have hnd1 : (l1.map (·.1)).Nodup := (hp.map (·.1)).nodup_iff.mpr hnd
  cases h : alook l2 k with
  | some v =>
    exact alook_eq_some_of_mem l1 k v hnd1 (hp.mem_iff.mpr (mem_of_alook_eq_some l2 k v h))
  | none =>
    apply (alook_eq_none_iff l1 k).mpr
    intro hm
    exact (alook_eq_none_iff l2 k).mp h ((hp.map (·.1)).mem_iff.mp hm)

theorem tdel_absent (t : Leaves) (k : Slot) (h : (alook t k).isSome = false) : tdel t k = t := by
  unfold tdel
  apply List.filter_eq_self.mpr
  intro p hp
  have hk : k ∉ t.map (·.1) := by
    intro hm
    have := (alook_isSome_iff t k).mpr hm
    simp [h] at this
  simp only [bne_iff_ne, ne_eq]
  intro e
  exact hk (List.mem_map.mpr ⟨p, hp, e⟩)

theorem insertDesc_perm (e : Slot × Val) (l : List (Slot × Val)) : (insertDesc e l).Perm (e :: l) := by
  induction l with
  | nil => exact List.Perm.refl _
  | cons x r ih =>
    unfold insertDesc
    split
    · exact List.Perm.refl _
    · exact (List.Perm.cons x ih).trans (List.Perm.swap e x r)

theorem sortDesc_perm (l : List (Slot × Val)) : (sortDesc l).Perm l := by
  unfold sortDesc
  induction l with
  | nil => exact List.Perm.refl _
  | cons x r ih =>
    simp only [List.foldr_cons]
    exact (insertDesc_perm x _).trans (List.Perm.cons x ih)

/-- `stateObject.commit` of one contract -/
theorem applySlots_spec (cfg : Cfg) (t lv : Leaves) (slots : List (Slot × Val))
    (hnd : (slots.map (·.1)).Nodup) (hz : NoZero t) :
    (∀ k, tget (applySlots cfg t lv slots).1 k = (alook slots k).getD (tget t k)) ∧
    NoZero (applySlots cfg t lv slots).1 ∧
    (cfg.leafFix = true → lv = t → (applySlots cfg t lv slots).2 = (applySlots cfg t lv slots).1) := by
  have hperm := sortDesc_perm slots
  have hnd' : ((sortDesc slots).map (·.1)).Nodup :=
    (hperm.map (·.1)).nodup_iff.mpr hnd
  refine ⟨?_, ?_, ?_⟩
  · intro k
    unfold applySlots
    rw [foldl_fst_tput, foldl_tput_get _ hnd', alook_perm _ _ hperm hnd]
  · unfold applySlots
    rw [foldl_fst_tput]
    exact foldl_tput_noZero _ _ hz
  · intro hfix heq
    unfold applySlots
    generalize sortDesc slots = l
    subst heq
    have : ∀ (l : List (Slot × Val)) (acc : Leaves × Leaves), acc.2 = acc.1 →
        (l.foldl (fun (acc : Leaves × Leaves) (e : Slot × Val) =>
          let present := (alook acc.1 e.1).isSome
          let lv' :=
            if e.2 = 0 then
              if present then
                if !cfg.leafFix && (alook acc.1 (sib e.1)).isSome then acc.2 else tdel acc.2 e.1
              else acc.2
            else tput acc.2 e.1 e.2
          (tput acc.1 e.1 e.2, lv')) acc).2 =
        (l.foldl (fun (acc : Leaves × Leaves) (e : Slot × Val) =>
          let present := (alook acc.1 e.1).isSome
          let lv' :=
            if e.2 = 0 then
              if present then
                if !cfg.leafFix && (alook acc.1 (sib e.1)).isSome then acc.2 else tdel acc.2 e.1
              else acc.2
            else tput acc.2 e.1 e.2
          (tput acc.1 e.1 e.2, lv')) acc).1 := by
      intro l
      induction l with
      | nil => intro acc h; exact h
      | cons e r ih =>
        intro acc h
        simp only [List.foldl_cons]
        apply ih
        simp only [hfix, Bool.not_true, Bool.false_and, Bool.false_eq_true, if_false]
        by_cases hv : e.2 = 0
        · simp only [hv, if_true, tput]
          by_cases hp : (alook acc.1 e.1).isSome = true
          · simp [hp, h]
          · simp only [hp, Bool.false_eq_true, if_false]
            rw [h, tdel_absent _ _ (by simpa using hp)]
        · simp [hv, h]
    exact this l (lv, lv) rfl

/-- the storage part of `commit`, pointwise -/
theorem writeSlots_get (cfg : Cfg) (tl : Bucket Addr Leaves × Bucket Addr Leaves)
    (l : List (Addr × List (Slot × Val))) (hnd : (l.map (·.1)).Nodup) (a : Addr) :
    (lget (writeSlots cfg tl l).1 a, lget (writeSlots cfg tl l).2 a) =
      ocases (alook l a) (lget tl.1 a, lget tl.2 a) (fun slots => applySlots cfg (lget tl.1 a) (lget tl.2 a) slots) := by
  unfold writeSlots
  have := foldl_pointwise (M := Bucket Addr Leaves × Bucket Addr Leaves) (γ := List (Slot × Val))
    (fun tl a => (lget tl.1 a, lget tl.2 a)) id (fun _ _ h => h)
    (fun _ r slots => applySlots cfg r.1 r.2 slots)
    (fun tl p =>
      let r := applySlots cfg (lget tl.1 p.1) (lget tl.2 p.1) p.2
      (lset tl.1 p.1 r.1, lset tl.2 p.1 r.2)) l
    (by
      intro m p _ y
      simp only [lget_lset]
      constructor <;> intro h <;> simp_all) hnd tl a
  simpa using this

end Juno.C03
