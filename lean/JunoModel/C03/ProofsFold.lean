import JunoModel.C03.ProofsAbs
/-!
C03 — helper lemmas. Part 3: what the loops of `Update` / `Revert` do to each bucket, pointwise.
-/
namespace Juno.C03

/-- A loop over a Go map whose step only changes the cell under the entry's key. -/
theorem foldl_pointwise {M κ ρ γ : Type} (get : M → κ → ρ) (K : Nat → κ)
    (hK : ∀ x y, K x = K y → x = y) (f : Nat → ρ → γ → ρ) (step : M → Nat × γ → M)
    (hstep : ∀ m p y, (y = K p.1 → get (step m p) y = f p.1 (get m y) p.2) ∧ (y ≠ K p.1 → get (step m p) y = get m y))
    (l : List (Nat × γ)) (hnd : (l.map (·.1)).Nodup) (m : M) (x : Nat) :
    get (l.foldl step m) (K x) = match alook l x with
      | some v => f x (get m (K x)) v
      | none => get m (K x) := by
  induction l generalizing m with
  | nil => rfl
  | cons p r ih =>
    obtain ⟨k, v⟩ := p
    simp only [List.map_cons, List.nodup_cons] at hnd
    simp only [List.foldl_cons]
    rw [ih hnd.2]
    by_cases hk : k = x
    · subst hk
      have : alook r k = none := (alook_eq_none_iff r k).mpr hnd.1
      simp only [this, alook, if_true]
      exact (hstep m (k, v) (K k)).1 rfl
    · have hne : K x ≠ K k := fun e => hk (hK _ _ e).symm
      simp only [alook, hk, if_false]
      rw [(hstep m (k, v) (K x)).2 hne]

theorem foldl_pointwise_other {M κ ρ γ : Type} (get : M → κ → ρ) (K : Nat → κ)
    (step : M → Nat × γ → M)
    (hstep : ∀ m p y, y ≠ K p.1 → get (step m p) y = get m y)
    (l : List (Nat × γ)) (m : M) (y : κ) (hy : ∀ x, y ≠ K x) :
    get (l.foldl step m) y = get m y := by
  induction l generalizing m with
  | nil => rfl
  | cons p r ih =>
    simp only [List.foldl_cons]
    rw [ih, hstep m p y (hy p.1)]

/-! ### contract records of the new backend -/

theorem deployC_get (c : Bucket Addr Contract) (b : Nat) (l : List (Addr × CHash))
    (hnd : (l.map (·.1)).Nodup) (a : Addr) :
    bget (deployC c b l) a = match alook l a with
      | some ch => some ⟨0, ch, b⟩
      | none => bget c a := by
  unfold deployC
  have := foldl_pointwise (M := Bucket Addr Contract) (γ := CHash) bget id (fun _ _ h => h)
    (fun _ _ ch => some ⟨0, ch, b⟩) (fun c p => bset c p.1 (some ⟨0, p.2, b⟩))
    (by intro m p y; rw [bget_bset]; constructor <;> intro h <;> simp_all) l hnd c a
  revert this; cases alook l a <;> intro this <;> simpa using this

theorem setClassC_get (c : Bucket Addr Contract) (l : List (Addr × CHash))
    (hnd : (l.map (·.1)).Nodup) (a : Addr) :
    bget (setClassC c l) a = match alook l a with
      | some ch => (bget c a).map (fun x => { x with classHash := ch })
      | none => bget c a := by
  unfold setClassC
  have := foldl_pointwise (M := Bucket Addr Contract) (γ := CHash) bget id (fun _ _ h => h)
    (fun _ o ch => o.map (fun x => { x with classHash := ch }))
    setClassStep
    (by
      intro m p y
      unfold setClassStep
      cases hb : bget m p.1 with
      | none => constructor <;> intro h <;> simp_all
      | some x => simp only [bget_bset]; constructor <;> intro h <;> simp_all) l hnd c a
  revert this; cases alook l a <;> intro this <;> simpa using this

theorem setNonceC_get (c : Bucket Addr Contract) (l : List (Addr × Val))
    (hnd : (l.map (·.1)).Nodup) (a : Addr) :
    bget (setNonceC c l) a = match alook l a with
      | some v => (bget c a).map (fun x => { x with nonce := v })
      | none => bget c a := by
  unfold setNonceC
  have := foldl_pointwise (M := Bucket Addr Contract) (γ := Val) bget id (fun _ _ h => h)
    (fun _ o v => o.map (fun x => { x with nonce := v }))
    setNonceStep
    (by
      intro m p y
      unfold setNonceStep
      cases hb : bget m p.1 with
      | none => constructor <;> intro h <;> simp_all
      | some x => simp only [bget_bset]; constructor <;> intro h <;> simp_all) l hnd c a
  revert this; cases alook l a <;> intro this <;> simpa using this

theorem sysCreateStep_get (b : Nat) (c : Bucket Addr Contract) (x a : Addr) :
    bget (sysCreateStep b c x) a =
      if a = x ∧ bget c a = none ∧ isSystem a = true then some ⟨0, 0, b⟩ else bget c a := by
  unfold sysCreateStep
  cases hx : bget c x with
  | some cx =>
    by_cases hax : a = x
    · subst hax; simp [hx]
    · simp [hax]
  | none =>
    by_cases hs : isSystem x = true
    · simp only [hs, if_true, bget_bset]
      by_cases hax : a = x
      · subst hax; simp [hx, hs]
      · simp [hax]
    · by_cases hax : a = x
      · subst hax; simp [hs]
      · simp [hs, hax]

theorem sysCreateC_get (c : Bucket Addr Contract) (b : Nat) (addrs : List Addr) (a : Addr) :
    bget (sysCreateC c b addrs) a =
      if bget c a = none ∧ isSystem a = true ∧ a ∈ addrs then some ⟨0, 0, b⟩ else bget c a := by
  unfold sysCreateC
  induction addrs generalizing c with
  | nil => simp
  | cons x r ih =>
    simp only [List.foldl_cons]
    rw [ih, sysCreateStep_get]
    by_cases hax : a = x
    · subst hax
      by_cases h1 : bget c a = none <;> by_cases h2 : isSystem a = true <;> simp [h1, h2]
    · by_cases h1 : bget c a = none <;> by_cases h2 : isSystem a = true <;> simp [h1, h2, hax]

/-- what is observed of (records, leaves) at one address -/
def clGet (cl : Bucket Addr Contract × Bucket Addr Leaves) (a : Addr) : Option Contract × Leaves :=
  (bget cl.1 a, lget cl.2 a)

theorem purgeStep_get (trie : Bucket Addr Leaves) (cl : Bucket Addr Contract × Bucket Addr Leaves) (x a : Addr) :
    clGet (purgeStep trie cl x) a =
      if a = x ∧ isSystem a = true ∧ (bget cl.1 a).isSome = true ∧ (lget trie a).isEmpty = true then (none, [])
      else clGet cl a := by
  unfold purgeStep clGet
  by_cases hc : (isSystem x && (bget cl.1 x).isSome && (lget trie x).isEmpty) = true
  · simp only [hc, if_true, bget_bset, lget_lset]
    by_cases hax : a = x
    · subst hax; grind
    · grind
  · simp only [hc]
    by_cases hax : a = x
    · subst hax; grind
    · grind

/-- `commit`'s purge, pointwise -/
theorem purgeSys_get (trie : Bucket Addr Leaves) (cl : Bucket Addr Contract × Bucket Addr Leaves)
    (touched : List Addr) (a : Addr) :
    clGet (purgeSys trie cl touched) a =
      if isSystem a = true ∧ a ∈ touched ∧ (bget cl.1 a).isSome = true ∧ (lget trie a).isEmpty = true then (none, [])
      else clGet cl a := by
  unfold purgeSys
  induction touched generalizing cl with
  | nil => simp
  | cons x r ih =>
    simp only [List.foldl_cons]
    rw [ih]
    have hs := purgeStep_get trie cl x a
    have hs1 : bget (purgeStep trie cl x).1 a = (clGet (purgeStep trie cl x) a).1 := rfl
    rw [hs1, hs]
    have hm : a ∈ x :: r ↔ a = x ∨ a ∈ r := List.mem_cons
    have hcl : (clGet cl a).1 = bget cl.1 a := rfl
    grind

/-! ### classes -/

theorem declareStep_get (b : Nat) (m : Bucket CHash Nat) (x c : CHash) :
    bget (declareStep b m x) c = if c = x ∧ bget m c = none then some b else bget m c := by
  unfold declareStep
  cases hx : bget m x with
  | some n => by_cases hcx : c = x <;> grind
  | none => simp only [bget_bset]; by_cases hcx : c = x <;> grind

theorem declareFold_get (m : Bucket CHash Nat) (b : Nat) (cs : List CHash) (c : CHash) :
    bget (declareFold m b cs) c = if bget m c = none ∧ c ∈ cs then some b else bget m c := by
  unfold declareFold
  induction cs generalizing m with
  | nil => simp
  | cons x r ih =>
    simp only [List.foldl_cons]
    rw [ih, declareStep_get]
    have hm : c ∈ x :: r ↔ c = x ∨ c ∈ r := List.mem_cons
    grind

theorem undeclareFold_get (m : Bucket CHash Nat) (b : Nat) (cs : List CHash) (c : CHash) :
    bget (undeclareFold m b cs) c = if c ∈ cs ∧ bget m c = some b then none else bget m c := by
  unfold undeclareFold
  induction cs generalizing m with
  | nil => simp
  | cons x r ih =>
    simp only [List.foldl_cons]
    rw [ih]
    have hm : c ∈ x :: r ↔ c = x ∨ c ∈ r := List.mem_cons
    by_cases hx : bget m x = some b
    · simp only [hx, if_true, bget_bset]; grind
    · simp only [hx, if_false]; grind

end Juno.C03
