import JunoModel.C03.Proofs
/-!
C03 — helper lemmas. Part 2: what the chain determines. `histOf` / `logsOf` are the history
buckets a chain must leave behind (new / legacy encoding); reading them the way each backend
does gives the abstract value at the requested block.
-/
namespace Juno.C03

/-- Well-formed state diff: the sections are maps (unique keys), a contract is not deployed and
replaced by the same diff, and the system contracts only receive storage writes. -/
structure Diff.WF (d : Diff) : Prop where
  storNodup : (d.storage.map (·.1)).Nodup
  slotNodup : ∀ p ∈ d.storage, (p.2.map (·.1)).Nodup
  nonceNodup : (d.nonces.map (·.1)).Nodup
  depNodup : (d.deployed.map (·.1)).Nodup
  repNodup : (d.replaced.map (·.1)).Nodup
  depRepDisj : ∀ a, a ∈ d.deployed.map (·.1) → a ∉ d.replaced.map (·.1)
  noSys : ∀ a, isSystem a = true →
    a ∉ d.deployed.map (·.1) ∧ a ∉ d.replaced.map (·.1) ∧ a ∉ d.nonces.map (·.1)
  /-- class definitions supplied without declaration are those of contracts the diff deploys -/
  extraOK : ∀ c ∈ d.extraClasses, c ∈ d.deployed.map (·.2)
  /-- no class hash is listed twice in the declared sections (the gateway's lists are sets; the
  legacy `removeDeclaredClasses` fails on a duplicate, see `legacy_revert_duplicate_declaration`) -/
  declNodup : d.classHashes.Nodup

theorem nodupKeys_sound {β : Type} (l : List (Nat × β)) (h : nodupKeys l = true) : (l.map (·.1)).Nodup := by
  induction l with
  | nil => exact List.nodup_nil
  | cons p r ih =>
    simp only [nodupKeys, Bool.and_eq_true, Bool.not_eq_true'] at h
    simp only [List.map_cons, List.nodup_cons]
    refine ⟨?_, ih h.2⟩
    intro hm
    obtain ⟨q, hq, he⟩ := List.mem_map.mp hm
    have : (r.any fun q => q.1 == p.1) = true := List.any_eq_true.mpr ⟨q, hq, by simp [he]⟩
    rw [this] at h
    exact absurd h.1 (by simp)

/-- the executable check implies the hypothesis of the theorems -/
theorem Diff.wfb_sound (d : Diff) (h : d.wfb = true) : d.WF := by
  simp only [Diff.wfb, Bool.and_eq_true] at h
  obtain ⟨⟨⟨⟨⟨⟨⟨⟨⟨⟨h1, h2⟩, h3⟩, h4⟩, h5⟩, h6⟩, h7⟩, h8⟩, h9⟩, h10⟩, h11⟩ := h
  refine ⟨nodupKeys_sound _ h1, ?_, nodupKeys_sound _ h3, nodupKeys_sound _ h4, nodupKeys_sound _ h5, ?_, ?_, ?_, ?_⟩
  · intro p hp
    exact nodupKeys_sound _ (List.all_eq_true.mp h2 p hp)
  · intro a ha hr
    obtain ⟨p, hp, rfl⟩ := List.mem_map.mp ha
    obtain ⟨q, hq, he⟩ := List.mem_map.mp hr
    have := List.all_eq_true.mp h6 p hp
    have hany : (d.replaced.any fun q => q.1 == p.1) = true := List.any_eq_true.mpr ⟨q, hq, by simp [he]⟩
    simp [hany] at this
  · intro a ha
    refine ⟨?_, ?_, ?_⟩
    · intro hm
      obtain ⟨p, hp, rfl⟩ := List.mem_map.mp hm
      have := List.all_eq_true.mp h7 p hp
      simp [ha] at this
    · intro hm
      obtain ⟨p, hp, rfl⟩ := List.mem_map.mp hm
      have := List.all_eq_true.mp h8 p hp
      simp [ha] at this
    · intro hm
      obtain ⟨p, hp, rfl⟩ := List.mem_map.mp hm
      have := List.all_eq_true.mp h9 p hp
      simp [ha] at this
  · intro c hc
    have := List.all_eq_true.mp h10 c hc
    obtain ⟨p, hp, he⟩ := List.any_eq_true.mp this
    exact List.mem_map.mpr ⟨p, hp, by simpa using he⟩
  · have := nodupKeys_sound _ h11
    simpa [List.map_map, Function.comp_def] using this

/-- the value a diff assigns to a history key (`writeHistory`: deployed is written after
replaced) -/
def entryOf (d : Diff) : HKey → Option Val
  | .storage a k => d.storageAt a k
  | .nonce a => alook d.nonces a
  | .classHash a =>
    match alook d.deployed a with
    | some c => some c
    | none => alook d.replaced a

/-- the abstract value under a history key -/
def keyVal (s : AbsSt) : HKey → Val
  | .storage a k => s.stor a k
  | .nonce a => s.nonce a
  | .classHash a => s.cls a

theorem keyVal_apply (s : AbsSt) (b : Nat) (d : Diff) (hwf : d.WF) (key : HKey) :
    keyVal (s.apply b d) key = (entryOf d key).getD (keyVal s key) := by
  cases key with
  | storage a k => rfl
  | nonce a => rfl
  | classHash a =>
    simp only [keyVal, AbsSt.apply, entryOf]
    cases hd : alook d.deployed a with
    | none => cases hr : alook d.replaced a <;> simp
    | some c =>
      have hmem : a ∈ d.deployed.map (·.1) := (alook_isSome_iff _ _).mp (by simp [hd])
      have := (alook_eq_none_iff _ _).mpr (hwf.depRepDisj a hmem)
      simp [this]

/-! ### the abstract state at a block -/

theorem absAt_cons_lt (d : Diff) (rest : List Diff) (n : Nat) (h : n < rest.length) :
    absAt (d :: rest) n = absAt rest n := by
  unfold absAt
  have : (d :: rest).length - 1 - n = (rest.length - 1 - n) + 1 := by simp; omega
  rw [this]; rfl

theorem absAt_ge (ch : List Diff) (n : Nat) (h : ch.length ≤ n + 1) : absAt ch n = absOf ch := by
  unfold absAt
  have : ch.length - 1 - n = 0 := by omega
  rw [this]; rfl

/-! ### new encoding: value after the change, at the block of the change -/

def histOf : List Diff → HKey → Hist
  | [], _ => []
  | d :: rest, key =>
    match entryOf d key with
    | some v => histOf rest key ++ [(rest.length, v)]
    | none => histOf rest key

theorem histOf_below (ch : List Diff) (key : HKey) : Below (histOf ch key) ch.length := by
  induction ch with
  | nil => intro e he; cases he
  | cons d rest ih =>
    simp only [histOf]
    cases entryOf d key with
    | none => exact below_mono _ _ _ ih (by simp)
    | some v => simpa using below_append_last _ _ v ih

theorem histOf_sorted (ch : List Diff) (key : HKey) : Sorted (histOf ch key) := by
  induction ch with
  | nil => exact List.Pairwise.nil
  | cons d rest ih =>
    simp only [histOf]
    cases entryOf d key with
    | none => exact ih
    | some v => exact sorted_append_last _ _ v ih (histOf_below rest key)

/-- Reading the new history encoding at block `n` gives the abstract value after block `n`
(for every `n`; beyond the head the head value). -/
theorem histOf_value (ch : List Diff) (hwf : ∀ d ∈ ch, d.WF) (key : HKey) (n : Nat) :
    newHistorical (histOf ch key) n = keyVal (absAt ch n) key := by
  unfold newHistorical
  rw [newValueAt_eq_lastLE _ _ (histOf_sorted ch key)]
  induction ch with
  | nil => cases key <;> simp [histOf, lastLE, absAt, absOf, keyVal, AbsSt.empty]
  | cons d rest ih =>
    have hd : d.WF := hwf d List.mem_cons_self
    have ih' := ih (fun x hx => hwf x (List.mem_cons_of_mem _ hx))
    by_cases hn : n < rest.length
    · rw [absAt_cons_lt d rest n hn, ← ih']
      simp only [histOf]
      cases entryOf d key with
      | none => rfl
      | some v =>
        rw [lastLE_append]
        have : ¬ rest.length ≤ n := by omega
        simp [this]
    · have hge : rest.length ≤ n := by omega
      rw [absAt_ge (d :: rest) n (by simp; omega)]
      have hrest : absAt rest n = absOf rest := absAt_ge rest n (by omega)
      show _ = keyVal ((absOf rest).apply rest.length d) key
      rw [keyVal_apply _ _ _ hd]
      simp only [histOf]
      cases entryOf d key with
      | none => simp only [Option.getD_none]; rw [ih', hrest]
      | some v => rw [lastLE_append]; simp [hge]

/-! ### legacy encoding: value before the change, at the block of the change -/

/-- does the legacy `Update` write a log for this key? (`trie.Put` reports no old value when zero
is written to an absent key; deployment writes no class-hash log) -/
def logged (d : Diff) (prev : AbsSt) : HKey → Bool
  | .storage a k => ocases (d.storageAt a k) false (fun v => v != 0 || prev.stor a k != 0)
  | .nonce a => (alook d.nonces a).isSome
  | .classHash a => (alook d.replaced a).isSome

def logsOf : List Diff → HKey → Hist
  | [], _ => []
  | d :: rest, key =>
    if logged d (absOf rest) key then logsOf rest key ++ [(rest.length, keyVal (absOf rest) key)]
    else logsOf rest key

theorem logsOf_below (ch : List Diff) (key : HKey) : Below (logsOf ch key) ch.length := by
  induction ch with
  | nil => intro e he; cases he
  | cons d rest ih =>
    simp only [logsOf]
    split
    · simpa using below_append_last _ _ _ ih
    · exact below_mono _ _ _ ih (by simp)

theorem logsOf_sorted (ch : List Diff) (key : HKey) : Sorted (logsOf ch key) := by
  induction ch with
  | nil => exact List.Pairwise.nil
  | cons d rest ih =>
    simp only [logsOf]
    split
    · exact sorted_append_last _ _ _ ih (logsOf_below rest key)
    · exact ih

/-- a deployment may only follow non-deployment: the `ContractAlreadyDeployed` guards -/
def DepOnce : List Diff → Prop
  | [] => True
  | d :: rest => (∀ a, a ∈ d.deployed.map (·.1) → (absOf rest).dep a = none) ∧ DepOnce rest

theorem dep_mono (d : Diff) (rest : List Diff) (a : Addr) (h : ((absOf rest).dep a).isSome = true) :
    ((absOf (d :: rest)).dep a).isSome = true := by
  show (((absOf rest).apply rest.length d).dep a).isSome = true
  simp only [AbsSt.apply]
  cases alook d.deployed a <;> simp [h]

theorem dep_absAt_of_absOf (ch : List Diff) (a : Addr) (n : Nat) (h : ((absAt ch n).dep a).isSome = true) :
    ((absOf ch).dep a).isSome = true := by
  induction ch with
  | nil => simpa [absAt] using h
  | cons d rest ih =>
    by_cases hn : n < rest.length
    · rw [absAt_cons_lt d rest n hn] at h
      exact dep_mono d rest a (ih h)
    · rw [absAt_ge (d :: rest) n (by simp; omega)] at h; exact h

/-- Reading the legacy logs at block `n` — first log strictly above `n`, else the head value —
gives the abstract value after block `n`. For the class hash this needs the contract to be
deployed at `n` (deployment changes the class hash without a log; the reader checks the
deployment height first). -/
theorem logsOf_value (ch : List Diff) (hwf : ∀ d ∈ ch, d.WF) (hdo : DepOnce ch) (key : HKey) (n : Nat)
    (hdep : ∀ a, key = .classHash a → ((absAt ch n).dep a).isSome = true) :
    (firstGT (logsOf ch key) n).getD (keyVal (absOf ch) key) = keyVal (absAt ch n) key := by
  induction ch with
  | nil => simp [logsOf, firstGT, absAt]
  | cons d rest ih =>
    have hd : d.WF := hwf d List.mem_cons_self
    by_cases hn : n < rest.length
    · rw [absAt_cons_lt d rest n hn] at hdep ⊢
      have ih' := ih (fun x hx => hwf x (List.mem_cons_of_mem _ hx)) hdo.2 hdep
      rw [← ih']
      simp only [logsOf]
      split
      · rw [firstGT_append]
        cases firstGT (logsOf rest key) n <;> simp [hn]
      · next hl =>
        have : keyVal (absOf (d :: rest)) key = keyVal (absOf rest) key := by
          show keyVal ((absOf rest).apply rest.length d) key = _
          rw [keyVal_apply _ _ _ hd]
          cases key with
          | storage a k =>
            simp only [logged] at hl
            simp only [entryOf]
            by_cases hs : d.storageAt a k = none
            · simp [hs]
            · obtain ⟨v, hv⟩ := Option.ne_none_iff_exists'.mp hs
              simp only [hv, ocases_some, Bool.or_eq_true, bne_iff_ne, ne_eq, not_or, Decidable.not_not] at hl
              simp [hv, keyVal, hl.1, hl.2]
          | nonce a =>
            simp only [logged, Bool.not_eq_true, Option.isSome_eq_false_iff, Option.isNone_iff_eq_none] at hl
            simp [entryOf, hl]
          | classHash a =>
            simp only [logged, Bool.not_eq_true, Option.isSome_eq_false_iff, Option.isNone_iff_eq_none] at hl
            simp only [entryOf, hl]
            cases hdp : alook d.deployed a with
            | none => rfl
            | some c =>
              -- deployed by this block although already deployed at n: excluded by the guard
              have h1 := dep_absAt_of_absOf rest a n (hdep a rfl)
              have h2 := hdo.1 a ((alook_isSome_iff _ _).mp (by simp [hdp]))
              simp [h2] at h1
        rw [this]
    · rw [absAt_ge (d :: rest) n (by simp; omega)]
      have : firstGT (logsOf (d :: rest) key) n = none := by
        apply firstGT_none_of_le
        intro e he
        have := logsOf_below (d :: rest) key e he
        simp at this; omega
      rw [this]; rfl

end Juno.C03
