import JunoModel.C03.ProofsSys
/-!
C03 — helper lemmas. Part 11: compiled class hashes (`CompiledClassHash` on head and historical
views): the metadata record juno keeps per Sierra class (declared-at, v2 hash, migrated-at, v1 hash)
answers, at every block, the compiled class hash the state diffs give.
-/
namespace Juno.C03

/-- what a block must satisfy, relative to the chain below it, for the CASM metadata to make sense:
a Sierra class is declared once, a migration (protocol ≥ 0.14.1 only) carries the blake2s hash juno
precomputed at declaration, no class is declared and migrated by the same diff -/
structure CasmStep (ch : List Diff) (d : Diff) : Prop where
  declNodup : (d.declared1.map (·.hash)).Nodup
  migNodup : (d.migrated.map (·.1)).Nodup
  fresh : ∀ x ∈ d.declared1, (absOf ch).casm x.hash = none
  declNotMig : ∀ x ∈ d.declared1, alook d.migrated x.hash = none
  migV2 : d.v2 = false → d.migrated = []

/-- the metadata record a chain must leave for class `c` -/
def metaOf : List Diff → CHash → Option CasmMeta
  | [], _ => none
  | d :: rest, c =>
    match d.declared1.find? (fun x => x.hash == c) with
    | some x => some (if d.v2 then ⟨rest.length, x.casm, 0, none⟩ else ⟨rest.length, x.casmV2, 0, some x.casm⟩)
    | none =>
      if d.v2 && (alook d.migrated c).isSome then (metaOf rest c).map (fun mt => { mt with migratedAt := rest.length })
      else metaOf rest c

/-- the answer the property demands for `CompiledClassHash` -/
def casmRes (s : AbsSt) (c : CHash) : Res :=
  match s.casm c with
  | some v => .ok v
  | none => .notfound

/-- chain-level facts the guards of `storeCasmHashMetadata` establish (kept for the revert):
a migrated class has a record with a v1 hash, not yet migrated, declared earlier, and the migrated
hash is the stored v2 hash -/
def MigOK : List Diff → Prop
  | [] => True
  | d :: rest =>
    (d.v2 = true → ∀ p ∈ d.migrated, ∃ mt, metaOf rest p.1 = some mt ∧ mt.migratedAt = 0 ∧ mt.v1.isSome = true ∧
      mt.declaredAt < rest.length ∧ mt.v2 = p.2) ∧
    CasmStep rest d ∧ MigOK rest

theorem metaOf_none_iff (ch : List Diff) (hm : MigOK ch) (c : CHash) : metaOf ch c = none ↔ (absOf ch).casm c = none := by
  induction ch with
  | nil => simp [metaOf, absOf, AbsSt.empty]
  | cons d rest ih =>
    have hstep := hm.2.1
    show _ ↔ ((absOf rest).apply rest.length d).casm c = none
    simp only [metaOf, AbsSt.apply]
    by_cases hf : d.declared1.find? (fun x => x.hash == c) = none
    · simp only [hf]
      by_cases hmg : alook d.migrated c = none
      · simp only [hmg, Option.isSome_none, Bool.and_false, Bool.false_eq_true, if_false]
        exact ih hm.2.2
      · obtain ⟨v, hv⟩ := Option.ne_none_iff_exists'.mp hmg
        simp only [hv, Option.isSome_some, Bool.and_true]
        by_cases h2 : d.v2 = true
        · obtain ⟨mt, hmt, _⟩ := hm.1 h2 (c, v) (mem_of_alook_eq_some _ _ _ hv)
          simp [h2, hmt]
        · have : d.migrated = [] := hstep.migV2 (by simpa using h2)
          rw [this] at hv; simp [alook] at hv
    · obtain ⟨x, hx⟩ := Option.ne_none_iff_exists'.mp hf
      have hxm := List.mem_of_find?_eq_some hx
      have hxc : x.hash = c := by simpa using List.find?_some hx
      have := hstep.declNotMig x hxm
      rw [hxc] at this
      simp [hx, this]

theorem metaOf_declaredAt_lt (ch : List Diff) (c : CHash) (mt : CasmMeta) (h : metaOf ch c = some mt) :
    mt.declaredAt < ch.length ∧ mt.migratedAt < ch.length := by
  induction ch generalizing mt with
  | nil => simp [metaOf] at h
  | cons d rest ih =>
    simp only [metaOf] at h
    by_cases hf : d.declared1.find? (fun x => x.hash == c) = none
    · simp only [hf] at h
      by_cases hc : (d.v2 && (alook d.migrated c).isSome) = true
      · simp only [hc, if_true, Option.map_eq_some_iff] at h
        obtain ⟨m0, hm0, rfl⟩ := h
        have := ih m0 hm0
        simp; omega
      · simp only [hc, Bool.false_eq_true, if_false] at h
        have := ih mt h
        simp; omega
    · obtain ⟨x, hx⟩ := Option.ne_none_iff_exists'.mp hf
      simp only [hx, Option.some.injEq] at h
      by_cases h2 : d.v2 = true <;> simp only [h2, if_true, Bool.false_eq_true, if_false] at h <;> subst h <;> simp

/-- `CasmHashAt(n)` of the record = the compiled class hash in force after block `n` -/
theorem metaOf_at (ch : List Diff) (hm : MigOK ch) (c : CHash) (n : Nat) :
    (match metaOf ch c with | some mt => mt.at n | none => .notfound) = casmRes (absAt ch n) c := by
  induction ch with
  | nil => simp [metaOf, casmRes, absAt, absOf, AbsSt.empty]
  | cons d rest ih =>
    have hstep := hm.2.1
    have ih' := ih hm.2.2
    by_cases hn : n < rest.length
    · -- the block is above n: the answer is the one of the chain below
      rw [absAt_cons_lt d rest n hn, ← ih']
      simp only [metaOf]
      by_cases hf : d.declared1.find? (fun x => x.hash == c) = none
      · simp only [hf]
        by_cases hc : (d.v2 && (alook d.migrated c).isSome) = true
        · simp only [hc, if_true]
          simp only [Bool.and_eq_true] at hc
          obtain ⟨v, hv⟩ := Option.isSome_iff_exists.mp hc.2
          obtain ⟨mt, hmt, hm0, hv1, _, _⟩ := hm.1 hc.1 (c, v) (mem_of_alook_eq_some _ _ _ hv)
          obtain ⟨v1, hv1'⟩ := Option.isSome_iff_exists.mp hv1
          have hnl : ¬ rest.length ≤ n := by omega
          simp [hmt, CasmMeta.at, hm0, hv1', hnl]
        · simp only [hc, Bool.false_eq_true, if_false]
      · obtain ⟨x, hx⟩ := Option.ne_none_iff_exists'.mp hf
        have hxm := List.mem_of_find?_eq_some hx
        have hxc : x.hash = c := by simpa using List.find?_some hx
        have hfresh := hstep.fresh x hxm
        rw [hxc] at hfresh
        have hnone := (metaOf_none_iff rest hm.2.2 c).mpr hfresh
        simp only [hx, hnone]
        by_cases h2 : d.v2 = true <;> simp [h2, CasmMeta.at, hn]
    · -- n is at or above the head block: the head answer
      rw [absAt_ge (d :: rest) n (by simp; omega)]
      have hrest : absAt rest n = absOf rest := absAt_ge rest n (by omega)
      rw [hrest] at ih'
      show _ = casmRes ((absOf rest).apply rest.length d) c
      simp only [metaOf, casmRes, AbsSt.apply]
      have hle : rest.length ≤ n := by omega
      by_cases hf : d.declared1.find? (fun x => x.hash == c) = none
      · simp only [hf]
        by_cases hmg : alook d.migrated c = none
        · simp only [hmg, Option.isSome_none, Bool.and_false, Bool.false_eq_true, if_false]
          exact ih'
        · obtain ⟨v, hv⟩ := Option.ne_none_iff_exists'.mp hmg
          by_cases h2 : d.v2 = true
          · obtain ⟨mt, hmt, hm0, hv1, hlt, hveq⟩ := hm.1 h2 (c, v) (mem_of_alook_eq_some _ _ _ hv)
            obtain ⟨v1, hv1'⟩ := Option.isSome_iff_exists.mp hv1
            have hd : ¬ rest.length > n := by omega
            have hd2 : ¬ mt.declaredAt > n := by omega
            have hpos : 0 < rest.length := by omega
            simp [hv, h2, hmt, CasmMeta.at, hv1', hd2, hpos, hle, hveq]
          · have : d.migrated = [] := hstep.migV2 (by simpa using h2)
            rw [this] at hv; simp [alook] at hv
      · obtain ⟨x, hx⟩ := Option.ne_none_iff_exists'.mp hf
        have hxm := List.mem_of_find?_eq_some hx
        have hxc : x.hash = c := by simpa using List.find?_some hx
        have hnm := hstep.declNotMig x hxm
        rw [hxc] at hnm
        have hd : ¬ rest.length > n := by omega
        by_cases h2 : d.v2 = true <;> simp [hx, hnm, h2, CasmMeta.at, hd]


theorem metaOf_head (ch : List Diff) (hm : MigOK ch) (c : CHash) :
    (match metaOf ch c with | some mt => Res.ok mt.head | none => .notfound) = casmRes (absOf ch) c := by
  have h := metaOf_at ch hm c ch.length
  rw [absAt_ge ch ch.length (by omega)] at h
  rw [← h]
  rcases hmt : metaOf ch c with _ | mt
  · rfl
  · have hl := metaOf_declaredAt_lt ch c mt hmt
    have h1 : ¬ mt.declaredAt > ch.length := by omega
    have h2 : mt.migratedAt ≤ ch.length := by omega
    simp only [CasmMeta.at, CasmMeta.head, h1, if_false]
    rcases mt.v1 with _ | v1
    · rfl
    · by_cases hp : mt.migratedAt > 0 <;> simp [hp, h2]

/-! ### the metadata bucket follows `metaOf` -/

/-- the migrated hash of a diff is the blake2s hash stored at declaration (what `Migrate` switches
to); stated on the record the chain leaves -/
def MigVal (ch : List Diff) (d : Diff) : Prop :=
  ∀ p ∈ d.migrated, ∀ mt, metaOf ch p.1 = some mt → mt.v1.isSome = true → mt.v2 = p.2

/-- INPUT ASSUMPTION of the CASM theorem, in terms of the blocks only: a migration carries, for its
class, the blake2s hash that came with the class's declaration (`SierraDecl.casmV2`: what juno
computes from the compiled class when the class is declared under protocol < 0.14.1). juno does not
look at the hash in `MigratedClasses`; see `casm_migration_foreign_hash_counterexample`. -/
def MigOwnHash (ch : List Diff) (d : Diff) : Prop :=
  ∀ p ∈ d.migrated, ∀ dd ∈ ch, ∀ x ∈ dd.declared1, x.hash = p.1 → x.casmV2 = p.2

/-- the v2 hash of a record with a v1 hash is the one supplied with some declaration of the class -/
theorem metaOf_v2_from_decl (ch : List Diff) (c : CHash) (mt : CasmMeta) (h : metaOf ch c = some mt)
    (h1 : mt.v1.isSome = true) : ∃ dd ∈ ch, ∃ x ∈ dd.declared1, x.hash = c ∧ x.casmV2 = mt.v2 := by
  induction ch generalizing mt with
  | nil => simp [metaOf] at h
  | cons d rest ih =>
    simp only [metaOf] at h
    by_cases hf : d.declared1.find? (fun x => x.hash == c) = none
    · simp only [hf] at h
      by_cases hc : (d.v2 && (alook d.migrated c).isSome) = true
      · simp only [hc, if_true, Option.map_eq_some_iff] at h
        obtain ⟨m0, hm0, rfl⟩ := h
        obtain ⟨dd, hdd, x, hx, e1, e2⟩ := ih m0 hm0 h1
        exact ⟨dd, List.mem_cons_of_mem _ hdd, x, hx, e1, e2⟩
      · simp only [hc, Bool.false_eq_true, if_false] at h
        obtain ⟨dd, hdd, x, hx, e1, e2⟩ := ih mt h h1
        exact ⟨dd, List.mem_cons_of_mem _ hdd, x, hx, e1, e2⟩
    · obtain ⟨x, hx⟩ := Option.ne_none_iff_exists'.mp hf
      have hxm := List.mem_of_find?_eq_some hx
      have hxc : x.hash = c := by simpa using List.find?_some hx
      simp only [hx, Option.some.injEq] at h
      by_cases h2 : d.v2 = true
      · simp only [h2, if_true] at h; subst h; simp at h1
      · simp only [h2, Bool.false_eq_true, if_false] at h; subst h
        exact ⟨d, List.mem_cons_self, x, hxm, hxc, rfl⟩

theorem migVal_of_ownHash (ch : List Diff) (d : Diff) (h : MigOwnHash ch d) : MigVal ch d := by
  intro p hp mt hmt h1
  obtain ⟨dd, hdd, x, hx, e1, e2⟩ := metaOf_v2_from_decl ch p.1 mt hmt h1
  rw [← e2]; exact h p hp dd hdd x hx e1

structure MInv (ch : List Diff) (m : MetaMap) : Prop where
  ok : MigOK ch
  recs : ∀ c, bget m c = metaOf ch c

theorem declFold_get (g : SierraDecl → CasmMeta) (l : List SierraDecl) (hnd : (l.map (·.hash)).Nodup) (m : MetaMap) (c : CHash) :
    bget (l.foldl (fun m x => bset m x.hash (some (g x))) m) c =
      ocases (l.find? (fun x => x.hash == c)) (bget m c) (fun x => some (g x)) := by
  induction l generalizing m with
  | nil => rfl
  | cons x r ih =>
    simp only [List.map_cons, List.nodup_cons] at hnd
    simp only [List.foldl_cons]
    rw [ih hnd.2, bget_bset]
    by_cases hx : x.hash = c
    · subst hx
      have : r.find? (fun y => y.hash == x.hash) = none := by
        apply List.find?_eq_none.mpr
        intro y hy he
        exact hnd.1 (List.mem_map.mpr ⟨y, hy, by simpa using he⟩)
      simp [this]
    · have hx' : ¬ c = x.hash := fun e => hx e.symm
      simp [List.find?_cons, hx, hx']

theorem undeclFold_get (l : List SierraDecl) (m : MetaMap) (c : CHash) :
    bget (l.foldl (fun m x => bset m x.hash none) m) c =
      if (l.find? (fun x => x.hash == c)).isSome = true then none else bget m c := by
  induction l generalizing m with
  | nil => simp
  | cons x r ih =>
    simp only [List.foldl_cons]
    rw [ih, bget_bset]
    by_cases hx : x.hash = c
    · subst hx; simp [List.find?_cons]
    · have hx' : ¬ c = x.hash := fun e => hx e.symm
      simp [List.find?_cons, hx, hx']

/-- the loop of `storeCasmHashMetadataV2` over `MigratedClasses`, when it succeeds -/
theorem migFold_ok (b : Nat) (l : List (CHash × Val)) (hnd : (l.map (·.1)).Nodup) (m m' : MetaMap)
    (h : l.foldlM (fun m p =>
      match bget m p.1 with
      | none => (.error .metaMissing : Except Err MetaMap)
      | some mt =>
        if mt.v1.isNone || b ≤ mt.declaredAt || mt.migratedAt > 0 then .error .cannotMigrate
        else .ok (bset m p.1 (some { mt with migratedAt := b }))) m = .ok m') :
    (∀ c, bget m' c = if (alook l c).isSome = true then (bget m c).map (fun mt => { mt with migratedAt := b }) else bget m c) ∧
    (∀ p ∈ l, ∃ mt, bget m p.1 = some mt ∧ mt.migratedAt = 0 ∧ mt.v1.isSome = true ∧ mt.declaredAt < b) := by
  induction l generalizing m with
  | nil =>
    simp only [List.foldlM_nil, pure, Except.pure, Except.ok.injEq] at h
    subst h
    exact ⟨by intro c; simp [alook], by intro p hp; cases hp⟩
  | cons p r ih =>
    obtain ⟨k, v⟩ := p
    simp only [List.map_cons, List.nodup_cons] at hnd
    simp only [List.foldlM_cons, bind, Except.bind] at h
    rcases hb : bget m k with _ | mt
    · simp [hb] at h
    · simp only [hb] at h
      by_cases hg : (mt.v1.isNone || decide (b ≤ mt.declaredAt) || decide (mt.migratedAt > 0)) = true
      · simp [hg] at h
      · simp only [hg, Bool.false_eq_true, if_false] at h
        have hg' : mt.v1.isSome = true ∧ mt.declaredAt < b ∧ mt.migratedAt = 0 := by
          simp only [Bool.or_eq_true, decide_eq_true_eq, not_or] at hg
          refine ⟨?_, by omega, by omega⟩
          rcases hv : mt.v1 with _ | x
          · simp [hv] at hg
          · rfl
        obtain ⟨ih1, ih2⟩ := ih hnd.2 _ h
        constructor
        · intro c
          rw [ih1 c, bget_bset]
          by_cases hc : c = k
          · subst hc
            have : alook r c = none := (alook_eq_none_iff r c).mpr hnd.1
            simp [alook, this, hb]
          · have hc' : ¬ k = c := fun e => hc e.symm
            simp [alook, hc, hc']
        · intro q hq
          rcases List.mem_cons.mp hq with e | e
          · subst e; exact ⟨mt, hb, hg'.2.2, hg'.1, hg'.2.1⟩
          · obtain ⟨mt', hmt', rest⟩ := ih2 q e
            have hne : q.1 ≠ k := by
              intro e'; exact hnd.1 (e' ▸ List.mem_map.mpr ⟨q, e, rfl⟩)
            rw [bget_bset] at hmt'
            simp only [hne, if_false] at hmt'
            exact ⟨mt', hmt', rest⟩

/-- the loop of `revertCasmHashMetadata` over `MigratedClasses`, when it succeeds -/
theorem unmigFold_ok (l : List (CHash × Val)) (hnd : (l.map (·.1)).Nodup) (m m' : MetaMap)
    (h : l.foldlM (fun m p =>
      match bget m p.1 with
      | none => (.error .metaMissing : Except Err MetaMap)
      | some mt =>
        if mt.migratedAt > 0 then .ok (bset m p.1 (some { mt with migratedAt := 0 })) else .error .cannotUnmigrate) m = .ok m') :
    ∀ c, bget m' c = if (alook l c).isSome = true then (bget m c).map (fun mt => { mt with migratedAt := 0 }) else bget m c := by
  induction l generalizing m with
  | nil =>
    simp only [List.foldlM_nil, pure, Except.pure, Except.ok.injEq] at h
    subst h
    intro c; simp [alook]
  | cons p r ih =>
    obtain ⟨k, v⟩ := p
    simp only [List.map_cons, List.nodup_cons] at hnd
    simp only [List.foldlM_cons, bind, Except.bind] at h
    rcases hb : bget m k with _ | mt
    · simp [hb] at h
    · simp only [hb] at h
      by_cases hg : mt.migratedAt > 0
      · simp only [hg, if_true] at h
        have ih1 := ih hnd.2 _ h
        intro c
        rw [ih1 c, bget_bset]
        by_cases hc : c = k
        · subst hc
          have : alook r c = none := (alook_eq_none_iff r c).mpr hnd.1
          simp [alook, this, hb]
        · have hc' : ¬ k = c := fun e => hc e.symm
          simp [alook, hc, hc']
      · simp [hg] at h

theorem alook_isSome_of_mem {β : Type} (l : List (Nat × β)) (p : Nat × β) (h : p ∈ l) : (alook l p.1).isSome = true :=
  (alook_isSome_iff l p.1).mpr (List.mem_map.mpr ⟨p, h, rfl⟩)

/-- `storeCasmHashMetadata` extends the invariant -/
theorem minv_store (ch : List Diff) (m m' : MetaMap) (d : Diff) (hinv : MInv ch m) (hs : CasmStep ch d)
    (hv : MigVal ch d) (h : metaStore m ch.length d = .ok m') : MInv (d :: ch) m' := by
  unfold metaStore at h
  by_cases h2 : d.v2 = true
  · simp only [h2, if_true] at h
    obtain ⟨hget, hfacts⟩ := migFold_ok ch.length d.migrated hs.migNodup _ m' h
    have hm1 : ∀ c, bget (d.declared1.foldl (fun m x => bset m x.hash (some ⟨ch.length, x.casm, 0, none⟩)) m) c =
        ocases (d.declared1.find? (fun x => x.hash == c)) (metaOf ch c) (fun x => some ⟨ch.length, x.casm, 0, none⟩) := by
      intro c
      rw [declFold_get (fun x => ⟨ch.length, x.casm, 0, none⟩) d.declared1 hs.declNodup m c, hinv.recs c]
    have hnotdecl : ∀ p ∈ d.migrated, d.declared1.find? (fun x => x.hash == p.1) = none := by
      intro p hp
      apply List.find?_eq_none.mpr
      intro x hx he
      have hxe : x.hash = p.1 := by simpa using he
      have := hs.declNotMig x hx
      rw [hxe] at this
      have h3 := alook_isSome_of_mem d.migrated p hp
      simp [this] at h3
    have hok : MigOK (d :: ch) := by
      unfold MigOK
      refine ⟨?_, hs, hinv.ok⟩
      intro _ p hp
      obtain ⟨mt, hmt, h0, h1, hlt⟩ := hfacts p hp
      rw [hm1 p.1, hnotdecl p hp] at hmt
      simp only [ocases_none] at hmt
      exact ⟨mt, hmt, h0, h1, hlt, hv p hp mt hmt h1⟩
    refine ⟨hok, ?_⟩
    · intro c
      rw [hget c, hm1 c]
      simp only [metaOf, h2, Bool.true_and]
      by_cases hf : d.declared1.find? (fun x => x.hash == c) = none
      · simp only [hf, ocases_none]
      · obtain ⟨x, hx⟩ := Option.ne_none_iff_exists'.mp hf
        have hxm := List.mem_of_find?_eq_some hx
        have hxc : x.hash = c := by simpa using List.find?_some hx
        have hnm := hs.declNotMig x hxm
        rw [hxc] at hnm
        simp [hx, hnm]
  · have h2' : d.v2 = false := by simpa using h2
    simp only [h2', Bool.false_eq_true, if_false, Except.ok.injEq] at h
    subst h
    have hmig := hs.migV2 h2'
    have hok : MigOK (d :: ch) := by
      unfold MigOK
      refine ⟨?_, hs, hinv.ok⟩
      intro hc; rw [h2'] at hc; cases hc
    refine ⟨hok, ?_⟩
    · intro c
      rw [declFold_get (fun x => ⟨ch.length, x.casmV2, 0, some x.casm⟩) d.declared1 hs.declNodup m c, hinv.recs c]
      simp only [metaOf, h2', Bool.false_and, Bool.false_eq_true, if_false]
      by_cases hf : d.declared1.find? (fun x => x.hash == c) = none
      · simp [hf]
      · obtain ⟨x, hx⟩ := Option.ne_none_iff_exists'.mp hf
        simp [hx]

/-- `revertCasmHashMetadata` restores it -/
theorem minv_revert (d : Diff) (rest : List Diff) (m m' : MetaMap) (hinv : MInv (d :: rest) m)
    (h : metaRevert m d = .ok m') : MInv rest m' := by
  have hs : CasmStep rest d := hinv.ok.2.1
  unfold metaRevert at h
  have hget := unmigFold_ok d.migrated hs.migNodup _ m' h
  have hok : MigOK rest := hinv.ok.2.2
  refine ⟨hok, ?_⟩
  intro c
  rw [hget c, undeclFold_get, hinv.recs c]
  simp only [metaOf]
  by_cases hf : d.declared1.find? (fun x => x.hash == c) = none
  · simp only [hf, Option.isSome_none, Bool.false_eq_true, if_false]
    by_cases hmg : (alook d.migrated c).isSome = true
    · simp only [hmg, if_true, Bool.and_true]
      obtain ⟨v, hv⟩ := Option.isSome_iff_exists.mp hmg
      by_cases h2 : d.v2 = true
      · obtain ⟨mt, hmt, h0, _⟩ := hinv.ok.1 h2 (c, v) (mem_of_alook_eq_some _ _ _ hv)
        simp only [h2, if_true, hmt, Option.map_some, Option.some.injEq]
        cases mt
        simp_all
      · have : d.migrated = [] := hs.migV2 (by simpa using h2)
        rw [this] at hv; simp [alook] at hv
    · simp [hmg]
  · obtain ⟨x, hx⟩ := Option.ne_none_iff_exists'.mp hf
    have hxm := List.mem_of_find?_eq_some hx
    have hxc : x.hash = c := by simpa using List.find?_some hx
    have hnm := hs.declNotMig x hxm
    rw [hxc] at hnm
    have hfresh := hs.fresh x hxm
    rw [hxc] at hfresh
    have hnone := (metaOf_none_iff rest hinv.ok.2.2 c).mpr hfresh
    simp [hx, hnm, hnone]

/-! ### nodes -/

theorem store_meta {σ : Type} (be : Backend σ) (hmf : be.migFix = false) (nd nd' : Node σ) (id : BlockId) (d : Diff)
    (h : nd.store be id d = .ok nd') : metaStore nd.casmMeta nd.blocks.length d = .ok nd'.casmMeta := by
  unfold Node.store at h
  split at h
  · cases h
  · split at h
    · cases h
    · next m hm =>
      cases h
      simpa [metaStoreOf, hmf] using hm

theorem revert_meta {σ : Type} (be : Backend σ) (nd nd' : Node σ) (h : nd.revert be = .ok nd') :
    ∃ id d, nd.blocks = (id, d) :: nd'.blocks ∧ metaRevert nd.casmMeta d = .ok nd'.casmMeta := by
  unfold Node.revert at h
  split at h
  · cases h
  · next id d rest hb =>
    split at h
    · cases h
    · split at h
      · cases h
      · split at h
        · cases h
        · next m hm => cases h; exact ⟨id, d, hb, hm⟩

/-- the metadata bucket of a node follows its chain after every history whose blocks meet `CasmStep` -/
theorem run_minv {σ : Type} (be : Backend σ) (hmf : be.migFix = false) (ops : List Op) (nd nd' : Node σ) (hI : MInv nd.chain nd.casmMeta)
    (hP : OpsOK (fun ch d => CasmStep ch d ∧ MigVal ch d) ops nd.chain) (h : run be nd ops = some nd') :
    MInv nd'.chain nd'.casmMeta := by
  induction ops generalizing nd with
  | nil => simp [run] at h; subst h; exact hI
  | cons op rest ih =>
    unfold run at h
    split at h
    · next n1 hstep =>
      cases op with
      | store id d =>
        have hb := (store_blocks be nd n1 id d hstep).1
        have hm := store_meta be hmf nd n1 id d hstep
        have hlen : nd.blocks.length = nd.chain.length := by simp [Node.chain]
        rw [hlen] at hm
        have hc : n1.chain = d :: nd.chain := by simp [Node.chain, hb]
        have hI1 := minv_store nd.chain nd.casmMeta n1.casmMeta d hI hP.1.1 hP.1.2 hm
        exact ih n1 (by rw [hc]; exact hI1) (by rw [hc]; exact hP.2) h
      | revert =>
        obtain ⟨id, d, hb, hm⟩ := revert_meta be nd n1 hstep
        have hc : nd.chain = d :: n1.chain := by simp [Node.chain, hb]
        have hI1 := minv_revert d n1.chain nd.casmMeta n1.casmMeta (by rw [← hc]; exact hI) hm
        have hP' : OpsOK (fun ch d => CasmStep ch d ∧ MigVal ch d) rest n1.chain := by
          have := hP
          simp only [OpsOK, hc, List.tail_cons] at this
          exact this
        exact ih n1 hI1 hP' h
    · cases h

theorem minv_init : MInv [] ([] : MetaMap) := ⟨trivial, fun _ => rfl⟩

end Juno.C03

namespace Juno.C03

theorem OpsOK.mono {P Q : List Diff → Diff → Prop} (hPQ : ∀ ch d, P ch d → Q ch d) (ops : List Op) (ch : List Diff)
    (h : OpsOK P ops ch) : OpsOK Q ops ch := by
  induction ops generalizing ch with
  | nil => trivial
  | cons op rest ih =>
    cases op with
    | store id d => exact ⟨hPQ ch d h.1, ih _ h.2⟩
    | revert => exact ih _ h

end Juno.C03
