import JunoModel.C03.ModelApi
import JunoModel.C03.ProofsNode
import JunoModel.C03.ProofsLegacy
import JunoModel.C03.ProofsCasm
/-!
C03 — helper lemmas. Part 14 (round 4): the block store as buckets refines the list of stored blocks;
views through an unseeded and through a seeded retention floor; `ContractStorageLastUpdatedBlock`;
`CompiledClassHashV2`; byte order of the history keys.
-/
namespace Juno.C03

/-! ### block number ↦ stored block, on the list of blocks (newest first) -/

/-- the block with number `k` -/
def blockAt (bs : List (BlockId × Diff)) (k : Nat) : Option (BlockId × Diff) :=
  if k < bs.length then bs[bs.length - 1 - k]? else none

theorem blockAt_cons (x : BlockId × Diff) (r : List (BlockId × Diff)) (k : Nat) :
    blockAt (x :: r) k = if k = r.length then some x else blockAt r k := by
  unfold blockAt
  by_cases h1 : k = r.length
  · subst h1; simp
  · by_cases h2 : k < r.length
    · have e : (x :: r).length - 1 - k = (r.length - 1 - k) + 1 := by simp; omega
      have : k < (x :: r).length := by simp; omega
      simp only [this, if_true, h1, if_false, h2, e, List.getElem?_cons_succ]
    · have : ¬ k < (x :: r).length := by simp; omega
      simp only [this, h1, h2, if_false]

theorem blockAt_isSome (bs : List (BlockId × Diff)) (k : Nat) : (blockAt bs k).isSome = decide (k < bs.length) := by
  unfold blockAt
  by_cases h : k < bs.length
  · simp only [h, if_true, decide_true]
    rw [List.getElem?_eq_getElem (by omega)]; rfl
  · simp [h]

theorem idAt_eq_blockAt {σ : Type} (nd : Node σ) (k : Nat) (hk : k < nd.blocks.length) :
    nd.idAt k = (blockAt nd.blocks k).map (·.1) := by
  simp [Node.idAt, blockAt, hk]

/-! ### refinement -/

/-- the buckets of the block store hold exactly the list of stored blocks -/
structure Refines {σ : Type} (bn : BNode σ) (nd : Node σ) : Prop where
  st : bn.st = nd.st
  casm : bn.casmMeta = nd.casmMeta
  idx : bn.hashIdx = nd.hashIdx
  height : bn.height = if nd.blocks.isEmpty then none else some (nd.blocks.length - 1)
  headers : ∀ k, bget bn.headers k = (blockAt nd.blocks k).map (·.1)
  updates : ∀ k, bget bn.updates k = (blockAt nd.blocks k).map (·.2)
  commitments : ∀ k, (bget bn.commitments k).isSome = decide (k < nd.blocks.length)

theorem refines_init {σ : Type} (be : Backend σ) : Refines (BNode.init be) (Node.init be) where
  st := rfl
  casm := rfl
  idx := rfl
  height := rfl
  headers := by intro k; rfl
  updates := by intro k; rfl
  commitments := by intro k; rfl

theorem refines_nextNumber {σ : Type} (bn : BNode σ) (nd : Node σ) (hR : Refines bn nd) :
    bn.nextNumber = nd.blocks.length := by
  unfold BNode.nextNumber
  rw [hR.height]
  cases h : nd.blocks with
  | nil => rfl
  | cons x r => simp

/-- outcome of one operation on the two models -/
def StepRel {σ : Type} : Except Err (BNode σ) → Except Err (Node σ) → Prop
  | .ok bn, .ok nd => Refines bn nd
  | .error e, .error e' => e = e'
  | _, _ => False

theorem store_refines {σ : Type} (be : Backend σ) (bn : BNode σ) (nd : Node σ) (hR : Refines bn nd)
    (id : BlockId) (d : Diff) : StepRel (bn.store be id d) (nd.store be id d) := by
  unfold BNode.store Node.store
  simp only [refines_nextNumber bn nd hR, hR.st, hR.casm]
  cases hu : be.update nd.st nd.blocks.length d with
  | error e => exact rfl
  | ok st =>
    cases hm : metaStoreOf be.migFix nd.casmMeta nd.blocks.length d with
    | error e => exact rfl
    | ok m =>
      refine ⟨rfl, rfl, by simp [hR.idx], by simp, ?_, ?_, ?_⟩
      · intro k
        simp only [bget_bset, blockAt_cons, hR.headers k]
        by_cases h : k = nd.blocks.length <;> simp [h]
      · intro k
        simp only [bget_bset, blockAt_cons, hR.updates k]
        by_cases h : k = nd.blocks.length <;> simp [h]
      · intro k
        simp only [bget_bset, List.length_cons]
        by_cases h : k = nd.blocks.length
        · simp [h]
        · simp only [h, if_false, hR.commitments k]
          by_cases h2 : k < nd.blocks.length
          · have : k < nd.blocks.length + 1 := by omega
            simp [h2, this]
          · have : ¬ k < nd.blocks.length + 1 := by omega
            simp [h2, this]

theorem revert_refines {σ : Type} (be : Backend σ) (bn : BNode σ) (nd : Node σ) (hR : Refines bn nd) :
    StepRel (bn.revert be) (nd.revert be) := by
  unfold BNode.revert Node.revert
  cases hb : nd.blocks with
  | nil =>
    have : bn.height = none := by rw [hR.height, hb]; rfl
    simp only [this]
    exact rfl
  | cons x rest =>
    obtain ⟨id, d⟩ := x
    have hh : bn.height = some rest.length := by rw [hR.height, hb]; simp
    have hu : bget bn.updates rest.length = some d := by
      rw [hR.updates, hb, blockAt_cons]; simp
    have hd : bget bn.headers rest.length = some id := by
      rw [hR.headers, hb, blockAt_cons]; simp
    simp only [hh, hu, hd, hR.st, hR.casm]
    by_cases hc : metaRevertCheck nd.casmMeta d = true
    · simp only [hc, Bool.not_true, Bool.false_eq_true, if_false]
      cases hr : be.revert nd.st rest.length d with
      | error e => exact rfl
      | ok st =>
        cases hm : metaRevert nd.casmMeta d with
        | error e => exact rfl
        | ok m =>
          refine ⟨rfl, rfl, by simp [hR.idx], ?_, ?_, ?_, ?_⟩
          · cases rest with
            | nil => simp
            | cons y r => simp
          · intro k
            have := hR.headers k
            rw [hb, blockAt_cons] at this
            simp only [bget_bset]
            by_cases h : k = rest.length
            · subst h
              simp [blockAt]
            · simp only [h, if_false] at this ⊢; exact this
          · intro k
            have := hR.updates k
            rw [hb, blockAt_cons] at this
            simp only [bget_bset]
            by_cases h : k = rest.length
            · subst h
              simp [blockAt]
            · simp only [h, if_false] at this ⊢; exact this
          · intro k
            have := hR.commitments k
            rw [hb] at this
            simp only [bget_bset]
            by_cases h : k = rest.length
            · subst h; simp
            · simp only [h, if_false, this, List.length_cons]
              by_cases h2 : k < rest.length
              · have : k < rest.length + 1 := by omega
                simp [h2, this]
              · have : ¬ k < rest.length + 1 := by omega
                simp [h2, this]
    · simp only [Bool.not_eq_true] at hc
      simp only [hc, Bool.not_false, if_true]
      exact rfl

theorem step_refines {σ : Type} (be : Backend σ) (bn : BNode σ) (nd : Node σ) (hR : Refines bn nd) (op : Op) :
    StepRel (bn.step be op) (nd.step be op) := by
  cases op with
  | store id d => exact store_refines be bn nd hR id d
  | revert => exact revert_refines be bn nd hR

/-- the bucket-level node runs a history exactly when the list-level node does, and ends refining it -/
theorem brun_refines {σ : Type} (be : Backend σ) (ops : List Op) (bn : BNode σ) (nd : Node σ) (hR : Refines bn nd) :
    (∀ bn', brun be bn ops = some bn' → ∃ nd', run be nd ops = some nd' ∧ Refines bn' nd') ∧
    (∀ nd', run be nd ops = some nd' → ∃ bn', brun be bn ops = some bn' ∧ Refines bn' nd') := by
  induction ops generalizing bn nd with
  | nil =>
    exact ⟨fun bn' h => ⟨nd, rfl, by simp [brun] at h; subst h; exact hR⟩,
      fun nd' h => ⟨bn, rfl, by simp [run] at h; subst h; exact hR⟩⟩
  | cons op rest ih =>
    have hs := step_refines be bn nd hR op
    unfold brun run
    cases h1 : bn.step be op with
    | error e =>
      cases h2 : nd.step be op with
      | error e' => exact ⟨fun _ h => (by simp at h), fun _ h => (by simp at h)⟩
      | ok n2 => rw [h1, h2] at hs; exact hs.elim
    | ok b1 =>
      cases h2 : nd.step be op with
      | error e' => rw [h1, h2] at hs; exact hs.elim
      | ok n2 =>
        rw [h1, h2] at hs
        exact ih b1 n2 hs

/-! ### views -/

theorem headers_isSome {σ : Type} (bn : BNode σ) (nd : Node σ) (hR : Refines bn nd) (k : Nat) :
    (bget bn.headers k).isSome = decide (k < nd.blocks.length) := by
  rw [hR.headers k, Option.isSome_map, blockAt_isSome]

/-- through an UNSEEDED floor the buckets give the views of the list-level node -/
theorem bresolve_unseeded {σ : Type} (be : Backend σ) (bn : BNode σ) (nd : Node σ) (hR : Refines bn nd) (v : View) :
    bn.resolve be none v = nd.resolve be v := by
  cases v with
  | head =>
    simp only [BNode.resolve, Node.resolve, hR.height]
    cases hb : nd.blocks with
    | nil => rfl
    | cons x r =>
      have := headers_isSome bn nd hR r.length
      rw [hb] at this
      simp only [List.length_cons, Nat.lt_add_one, decide_true] at this
      simp [Option.isNone_iff_eq_none, Option.isSome_iff_ne_none.mp this]
  | num k =>
    simp only [BNode.resolve, Node.resolve, hR.headers k, hR.idx]
    by_cases hk : k < nd.blocks.length
    · simp only [hk, if_true, idAt_eq_blockAt nd k hk]
      cases blockAt nd.blocks k <;> rfl
    · have : blockAt nd.blocks k = none := by simp [blockAt, hk]
      simp [hk, this]
  | hash h =>
    simp only [BNode.resolve, Node.resolve, hR.idx]
    cases bget nd.hashIdx h with
    | none => rfl
    | some k =>
      have := headers_isSome bn nd hR k
      by_cases hk : k < nd.blocks.length
      · simp only [hk, decide_true] at this
        simp [Option.isNone_iff_eq_none, Option.isSome_iff_ne_none.mp this, hk]
      · simp only [hk, decide_false] at this
        have hn : bget bn.headers k = none := by
          cases hx : bget bn.headers k with
          | none => rfl
          | some y => rw [hx] at this; cases this
        simp [hn, hk]

/-- through a SEEDED floor `f` a block number has a view exactly when `f ≤ k < height` — on the new
backend (header existence) and on the legacy backend (chain height) alike; head and by-hash views
do not consult the floor -/
theorem bresolve_seeded {σ : Type} (be : Backend σ) (bn : BNode σ) (nd : Node σ) (hR : Refines bn nd) (f : Nat) :
    (∀ k, bn.resolve be (some f) (.num k) = if f ≤ k ∧ k < nd.blocks.length then some (some k) else none) ∧
    bn.resolve be (some f) .head = bn.resolve be none .head ∧
    (∀ h, bn.resolve be (some f) (.hash h) = bn.resolve be none (.hash h)) := by
  refine ⟨?_, rfl, fun _ => rfl⟩
  intro k
  simp only [BNode.resolve]
  by_cases hf : k < f
  · have : ¬ (f ≤ k ∧ k < nd.blocks.length) := by omega
    simp [hf, this]
  · simp only [hf, if_false]
    cases hb : be.hashViewNeedsHeader with
    | true =>
      simp only [if_true, headers_isSome bn nd hR k]
      by_cases hk : k < nd.blocks.length
      · have : f ≤ k ∧ k < nd.blocks.length := ⟨by omega, hk⟩
        simp [hk, this]
      · simp [hk]
    | false =>
      simp only [Bool.false_eq_true, if_false, hR.height]
      cases hbl : nd.blocks with
      | nil => simp
      | cons x r =>
        simp only [List.isEmpty_cons, Bool.false_eq_true, if_false, List.length_cons, Nat.add_sub_cancel]
        by_cases hk : k > r.length
        · have : ¬ (f ≤ k ∧ k < r.length + 1) := by omega
          simp [hk, this]
        · have : f ≤ k ∧ k < r.length + 1 := by omega
          simp [hk, this]

/-! ### the floor a node process seeds -/

theorem minKey_spec {β : Type} (m : Bucket Nat β) :
    (m = [] → minKey m = none) ∧
    (m ≠ [] → ∃ x, minKey m = some x ∧ (∃ p ∈ m, p.1 = x) ∧ ∀ p ∈ m, x ≤ p.1) := by
  induction m with
  | nil => exact ⟨fun _ => rfl, fun h => absurd rfl h⟩
  | cons p r ih =>
    refine ⟨fun h => (by cases h), fun _ => ?_⟩
    obtain ⟨k, v⟩ := p
    cases r with
    | nil => exact ⟨k, rfl, ⟨(k, v), List.mem_cons_self, rfl⟩, by intro p hp; simp at hp; subst hp; exact Nat.le_refl _⟩
    | cons q r' =>
      obtain ⟨x, hx, ⟨p0, hp0, hp0x⟩, hmin⟩ := ih.2 (by simp)
      simp only [minKey] at hx ⊢
      rw [hx]
      by_cases hle : k ≤ x
      · refine ⟨k, by simp [hle], ⟨(k, v), List.mem_cons_self, rfl⟩, ?_⟩
        intro p hp
        rcases List.mem_cons.mp hp with e | e
        · subst e; exact Nat.le_refl _
        · exact Nat.le_trans hle (hmin p e)
      · refine ⟨x, by simp [hle], ⟨p0, List.mem_cons_of_mem _ hp0, hp0x⟩, ?_⟩
        intro p hp
        rcases List.mem_cons.mp hp with e | e
        · subst e; simp; omega
        · exact hmin p e

theorem bget_isSome_of_mem {β : Type} (m : Bucket Nat β) (p : Nat × β) (hp : p ∈ m) : (bget m p.1).isSome = true := by
  induction m with
  | nil => cases hp
  | cons q r ih =>
    obtain ⟨k, v⟩ := q
    simp only [bget]
    by_cases h : k = p.1
    · simp [h]
    · simp only [h, if_false]
      rcases List.mem_cons.mp hp with e | e
      · subst e; exact absurd rfl h
      · exact ih e

theorem mem_of_bget_isSome {β : Type} (m : Bucket Nat β) (k : Nat) (h : (bget m k).isSome = true) : ∃ p ∈ m, p.1 = k := by
  induction m with
  | nil => cases h
  | cons q r ih =>
    obtain ⟨k', v⟩ := q
    simp only [bget] at h
    by_cases e : k' = k
    · exact ⟨(k', v), List.mem_cons_self, e⟩
    · simp only [e, if_false] at h
      obtain ⟨p, hp, hk⟩ := ih h
      exact ⟨p, List.mem_cons_of_mem _ hp, hk⟩

/-- a bucket whose keys are exactly the numbers `lo ≤ k < hi` -/
theorem minKey_range {β : Type} (m : Bucket Nat β) (lo hi : Nat)
    (h : ∀ k, (bget m k).isSome = decide (lo ≤ k ∧ k < hi)) :
    minKey m = if lo < hi then some lo else none := by
  by_cases hlt : lo < hi
  · simp only [hlt, if_true]
    have hlo : (bget m lo).isSome = true := by rw [h lo]; simp [hlt]
    obtain ⟨p, hp, _⟩ := mem_of_bget_isSome m lo hlo
    have hne : m ≠ [] := by intro e; rw [e] at hp; cases hp
    obtain ⟨x, hx, ⟨p0, hp0, hp0x⟩, hmin⟩ := (minKey_spec m).2 hne
    have h1 : x ≤ lo := by
      obtain ⟨q, hq, hqk⟩ := mem_of_bget_isSome m lo hlo
      have := hmin q hq; omega
    have h2 : lo ≤ x := by
      have := bget_isSome_of_mem m p0 hp0
      rw [h p0.1] at this
      simp at this; omega
    rw [hx]; congr 1; omega
  · simp only [hlt, if_false]
    apply (minKey_spec m).1
    cases m with
    | nil => rfl
    | cons q r =>
      have := bget_isSome_of_mem (q :: r) q List.mem_cons_self
      rw [h q.1] at this
      simp at this; omega

/-- on a node that was never pruned `Seed` finds the floor 0 -/
theorem seedFloor_unpruned {σ : Type} (bn : BNode σ) (nd : Node σ) (hR : Refines bn nd) : bn.seedFloor = 0 := by
  unfold BNode.seedFloor BNode.oldestRetained
  rw [minKey_range bn.commitments 0 nd.blocks.length (by intro k; rw [hR.commitments k]; simp)]
  by_cases h : 0 < nd.blocks.length <;> simp [h]

theorem bget_filter_key {β : Type} (m : Bucket Nat β) (f : Nat → Bool) (k : Nat) :
    bget (m.filter (fun p => f p.1)) k = if f k then bget m k else none := by
  induction m with
  | nil => simp [bget]
  | cons q r ih =>
    obtain ⟨k', v⟩ := q
    by_cases hf : f k' = true
    · simp only [List.filter, hf, bget]
      by_cases e : k' = k
      · subst e; simp [hf]
      · simp only [e, if_false]; exact ih
    · simp only [Bool.not_eq_true] at hf
      simp only [List.filter, hf, bget]
      by_cases e : k' = k
      · subst e; simp only [if_true]; rw [ih]; simp [hf]
      · simp only [e, if_false]; exact ih

/-- … and a process started on such a database seeds the floor `m - 1` (state one block below the
oldest retained block is still served) -/
theorem seedFloor_pruned {σ : Type} (bn : BNode σ) (nd : Node σ) (hR : Refines bn nd) (m : Nat)
    (hm : m < nd.blocks.length) : (bn.dropCommitmentsBelow m).seedFloor = m - 1 := by
  unfold BNode.seedFloor BNode.oldestRetained BNode.dropCommitmentsBelow
  have : minKey (bn.commitments.filter (fun p => decide (m ≤ p.1))) = some m := by
    rw [minKey_range _ m nd.blocks.length]
    · simp [hm]
    · intro k
      rw [bget_filter_key bn.commitments (fun x => decide (m ≤ x)) k]
      by_cases h : m ≤ k
      · simp [h, hR.commitments k]
      · simp [h]
  simp only [this, Option.getD_some]
  omega

/-! ### `ContractStorageLastUpdatedBlock` -/

/-- the blocks of a history list, as a history list whose values are the blocks -/
def blocksHist (h : Hist) : Hist := h.map (fun e => (e.1, e.1))

theorem blocksHist_sorted (h : Hist) (hs : Sorted h) : Sorted (blocksHist h) := by
  unfold Sorted blocksHist
  rw [List.pairwise_map]
  exact hs

/-- `lastUpdatedBlockNumber` is `valueAt` (new encoding) on the list of blocks -/
theorem lastUpdatedOf_eq_newValueAt (h : Hist) (n : Nat) :
    lastUpdatedOf h n = (newValueAt (blocksHist h) n).getD 0 := by
  unfold lastUpdatedOf newValueAt blocksHist prevOf
  have e1 : (List.map (fun e : Nat × Val => (e.1, e.1)) h).dropWhile (fun e => decide (e.1 < n)) =
      (h.dropWhile (fun e => decide (e.1 < n))).map (fun e => (e.1, e.1)) := by
    rw [List.dropWhile_map]; rfl
  have e2 : (List.map (fun e : Nat × Val => (e.1, e.1)) h).takeWhile (fun e => decide (e.1 < n)) =
      (h.takeWhile (fun e => decide (e.1 < n))).map (fun e => (e.1, e.1)) := by
    rw [List.takeWhile_map]; rfl
  simp only [e1, e2]
  cases hd : h.dropWhile (fun e => decide (e.1 < n)) with
  | nil => simp [List.getLast?_map, Option.map_map, Function.comp_def]
  | cons x r =>
    obtain ⟨b, v⟩ := x
    simp only [List.map_cons]
    by_cases hb : b = n
    · simp [hb]
    · simp [hb, List.getLast?_map, Option.map_map, Function.comp_def]

theorem lastUpdatedOf_append (h : Hist) (b : Nat) (v : Val) (n : Nat) (hs : Sorted h) (hb : Below h b) :
    lastUpdatedOf (h ++ [(b, v)]) n = if b ≤ n then b else lastUpdatedOf h n := by
  rw [lastUpdatedOf_eq_newValueAt, lastUpdatedOf_eq_newValueAt,
    newValueAt_eq_lastLE _ _ (blocksHist_sorted _ (sorted_append_last h b v hs hb)),
    newValueAt_eq_lastLE _ _ (blocksHist_sorted _ hs)]
  have : blocksHist (h ++ [(b, v)]) = blocksHist h ++ [(b, b)] := by simp [blocksHist]
  rw [this, lastLE_append]
  by_cases h1 : b ≤ n <;> simp [h1]

/-- new encoding: an entry at every block whose diff lists the key -/
theorem histOf_lastUpdated (ch : List Diff) (key : HKey) (n : Nat) :
    lastUpdatedOf (histOf ch key) n = lastBlockWhere (fun d _ => (entryOf d key).isSome) ch n := by
  induction ch with
  | nil => simp [histOf, lastUpdatedOf, lastBlockWhere]
  | cons d rest ih =>
    simp only [histOf, lastBlockWhere]
    by_cases he : entryOf d key = none
    · simp [he, ih]
    · obtain ⟨v, hv⟩ := Option.ne_none_iff_exists'.mp he
      simp only [hv, Option.isSome_some, and_true]
      rw [lastUpdatedOf_append _ _ _ _ (histOf_sorted rest key) (histOf_below rest key), ih]

/-- legacy encoding: a log at every block whose diff changed the key (`logged`) -/
theorem logsOf_lastUpdated (ch : List Diff) (key : HKey) (n : Nat) :
    lastUpdatedOf (logsOf ch key) n = lastBlockWhere (fun d prev => logged d prev key) ch n := by
  induction ch with
  | nil => simp [logsOf, lastUpdatedOf, lastBlockWhere]
  | cons d rest ih =>
    simp only [logsOf, lastBlockWhere]
    by_cases hl : logged d (absOf rest) key = true
    · simp only [hl, if_true, and_true]
      rw [lastUpdatedOf_append _ _ _ _ (logsOf_sorted rest key) (logsOf_below rest key), ih]
    · simp only [hl, Bool.false_eq_true, if_false, and_false]
      exact ih

/-- beyond the head the answer is the head's -/
theorem lastBlockWhere_ge (w : Diff → AbsSt → Bool) (ch : List Diff) (n m : Nat)
    (hn : ch.length ≤ n + 1) (hm : ch.length ≤ m + 1) : lastBlockWhere w ch n = lastBlockWhere w ch m := by
  induction ch with
  | nil => rfl
  | cons d rest ih =>
    simp only [lastBlockWhere]
    simp only [List.length_cons] at hn hm
    have h1 : rest.length ≤ n := by omega
    have h2 : rest.length ≤ m := by omega
    cases hw : w d (absOf rest) with
    | true => simp [h1, h2]
    | false =>
      simp only [Bool.false_eq_true, and_false, if_false]
      exact ih (by omega) (by omega)

theorem lastBlockWhere_lt (w : Diff → AbsSt → Bool) (ch : List Diff) (n : Nat) (h : ch ≠ []) :
    lastBlockWhere w ch n < ch.length := by
  induction ch with
  | nil => exact absurd rfl h
  | cons d rest ih =>
    simp only [lastBlockWhere, List.length_cons]
    split
    · omega
    · cases rest with
      | nil => simp [lastBlockWhere]
      | cons x r => have := ih (by simp); omega

/-! ### `CompiledClassHashV2` -/

theorem metaOf_v2 (ch : List Diff) (c : CHash) : (metaOf ch c).map (·.v2) = v2Of ch c := by
  induction ch with
  | nil => rfl
  | cons d rest ih =>
    simp only [metaOf, v2Of]
    cases hf : d.declared1.find? (fun x => x.hash == c) with
    | some x => by_cases h2 : d.v2 = true <;> simp [h2]
    | none =>
      simp only
      by_cases hc : (d.v2 && (alook d.migrated c).isSome) = true
      · simp only [hc, if_true, Option.map_map]
        rw [← ih]; cases metaOf rest c <;> rfl
      · simp only [hc, Bool.false_eq_true, if_false]; exact ih

/-! ### history keys: byte order = block order -/

theorem beBytes_length (w n : Nat) : (beBytes w n).length = w := by
  induction w with
  | zero => rfl
  | succ w ih => simp [beBytes, ih]

theorem bytesLt_append_left (p a b : List Nat) : bytesLt (p ++ a) (p ++ b) = bytesLt a b := by
  induction p with
  | nil => rfl
  | cons x r ih => simp [bytesLt, ih]

theorem beBytes_mod (w x : Nat) : beBytes w x = beBytes w (x % 256 ^ w) := by
  induction w generalizing x with
  | zero => rfl
  | succ v ihv =>
    simp only [beBytes]
    have e1 : x % 256 ^ (v + 1) / 256 ^ v % 256 = x / 256 ^ v % 256 := by
      rw [Nat.pow_succ, Nat.mod_mul_right_div_self, Nat.mod_mod]
    have e2 : x % 256 ^ (v + 1) % 256 ^ v = x % 256 ^ v := by
      rw [Nat.pow_succ]; exact Nat.mod_mul_right_mod ..
    rw [e1, ihv x, ihv (x % 256 ^ (v + 1)), e2]

/-- big-endian fixed width: lexicographic order of the bytes is numeric order of the numbers -/
theorem beBytes_lt (w n m : Nat) (hn : n < 256 ^ w) (hm : m < 256 ^ w) :
    bytesLt (beBytes w n) (beBytes w m) = decide (n < m) := by
  induction w generalizing n m with
  | zero =>
    simp only [Nat.pow_zero, Nat.lt_one_iff] at hn hm
    subst hn hm; rfl
  | succ w ih =>
    have hp : 0 < 256 ^ w := Nat.pow_pos (by omega)
    have hn' : n / 256 ^ w < 256 := by
      apply Nat.div_lt_of_lt_mul; rw [Nat.pow_succ] at hn; exact hn
    have hm' : m / 256 ^ w < 256 := by
      apply Nat.div_lt_of_lt_mul; rw [Nat.pow_succ] at hm; exact hm
    simp only [beBytes, bytesLt, Nat.mod_eq_of_lt hn', Nat.mod_eq_of_lt hm']
    have dn := Nat.div_add_mod n (256 ^ w)
    have dm := Nat.div_add_mod m (256 ^ w)
    have rn := Nat.mod_lt n hp
    have rm := Nat.mod_lt m hp
    by_cases h1 : n / 256 ^ w < m / 256 ^ w
    · simp only [h1, if_true]
      have : n < m := by
        have : 256 ^ w * (n / 256 ^ w + 1) ≤ 256 ^ w * (m / 256 ^ w) := Nat.mul_le_mul_left _ h1
        rw [Nat.mul_add, Nat.mul_one] at this
        omega
      simp [this]
    · by_cases h2 : m / 256 ^ w < n / 256 ^ w
      · simp only [h1, h2, if_false, if_true]
        have : ¬ n < m := by
          have : 256 ^ w * (m / 256 ^ w + 1) ≤ 256 ^ w * (n / 256 ^ w) := Nat.mul_le_mul_left _ h2
          rw [Nat.mul_add, Nat.mul_one] at this
          omega
        simp [this]
      · simp only [h1, h2, if_false]
        have he : n / 256 ^ w = m / 256 ^ w := by omega
        rw [beBytes_mod w n, beBytes_mod w m, ih _ _ rn rm]
        rw [he] at dn
        have : (n % 256 ^ w < m % 256 ^ w) ↔ n < m := by omega
        simp [this]

/-! ### reads of the bucket-level node -/

theorem bread_unseeded {σ : Type} (be : Backend σ) (bn : BNode σ) (nd : Node σ) (hR : Refines bn nd) (v : View) (q : Query) :
    bn.read be none v q = nd.read be v q := by
  unfold BNode.read Node.read
  rw [bresolve_unseeded be bn nd hR v, hR.st]
  cases Node.resolve be nd v with
  | none => rfl
  | some w => cases w <;> rfl

theorem breadCasm_unseeded {σ : Type} (be : Backend σ) (bn : BNode σ) (nd : Node σ) (hR : Refines bn nd) (v : View) (c : CHash) :
    bn.readCasm be none v c = nd.readCasm be v c := by
  unfold BNode.readCasm Node.readCasm
  rw [bresolve_unseeded be bn nd hR v, hR.casm]
  cases Node.resolve be nd v with
  | none => rfl
  | some w => cases w <;> rfl

/-- the bucket-level node a history leaves refines THE list-level node the history leaves -/
theorem brun_refines_init {σ : Type} (be : Backend σ) (ops : List Op) (bn : BNode σ)
    (hb : brun be (BNode.init be) ops = some bn) :
    ∃ nd, run be (Node.init be) ops = some nd ∧ Refines bn nd :=
  (brun_refines be ops _ _ (refines_init be)).1 bn hb

theorem node_length_chainOf {σ : Type} (be : Backend σ) (ops : List Op) (nd : Node σ)
    (hr : run be (Node.init be) ops = some nd) : nd.blocks.length = (chainOf ops).length := by
  have := run_blocks be ops (Node.init be) nd hr
  simp [chainOf, this, Node.init]

theorem node_chain_chainOf {σ : Type} (be : Backend σ) (ops : List Op) (nd : Node σ)
    (hr : run be (Node.init be) ops = some nd) : nd.chain = chainOf ops := by
  have := run_blocks be ops (Node.init be) nd hr
  simp [Node.chain, chainOf, this, Node.init]

end Juno.C03
