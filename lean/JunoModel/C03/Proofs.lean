import JunoModel.C03.Model
/-!
C03 — helper lemmas. Part 1: buckets, tries, history lists.
-/
namespace Juno.C03

theorem bget_bset {κ β : Type} [DecidableEq κ] (m : Bucket κ β) (k x : κ) (v : Option β) :
    bget (bset m k v) x = if x = k then v else bget m x := by
  have hf : ∀ m : Bucket κ β, bget (m.filter (fun p => !decide (p.1 = k))) x = if x = k then none else bget m x := by
    intro m
    induction m with
    | nil => simp [bget]
    | cons p r ih =>
      obtain ⟨k', v'⟩ := p
      by_cases h : k' = k
      · subst h
        simp only [List.filter, decide_true, Bool.not_true, bget]
        rw [ih]
        by_cases hx : x = k'
        · simp [hx]
        · have : ¬ k' = x := fun e => hx e.symm
          simp [hx, this]
      · simp only [List.filter, h, decide_false, Bool.not_false, bget]
        by_cases hx : k' = x
        · subst hx
          simp [h]
        · simp only [hx, if_false]
          exact ih
  cases v with
  | none => simp only [bset]; rw [hf]
  | some b =>
    simp only [bset, bget]
    by_cases hx : x = k
    · subst hx; simp
    · have : ¬ k = x := fun e => hx e.symm
      simp only [this, if_false, hx]
      rw [hf]; simp [hx]

theorem lget_lset {κ β : Type} [DecidableEq κ] (m : Bucket κ (List β)) (k x : κ) (v : List β) :
    lget (lset m k v) x = if x = k then v else lget m x := by
  unfold lget lset
  rw [bget_bset]
  by_cases h : x = k <;> simp [h]


/-- case analysis on an option as a plain function (statements with `match` do not rewrite well:
every `match` is its own auxiliary definition) -/
def ocases {α β : Type} (o : Option α) (n : β) (f : α → β) : β :=
  match o with
  | some x => f x
  | none => n

@[simp] theorem ocases_none {α β : Type} (n : β) (f : α → β) : ocases none n f = n := rfl
@[simp] theorem ocases_some {α β : Type} (x : α) (n : β) (f : α → β) : ocases (some x) n f = f x := rfl

theorem ocases_isSome {α β : Type} (o : Option α) (n s : β) :
    ocases o n (fun _ => s) = if o.isSome = true then s else n := by
  cases o <;> rfl

/-! ### association lists -/

theorem alook_eq_some_of_mem {β : Type} (l : List (Nat × β)) (k : Nat) (v : β)
    (hnd : (l.map (·.1)).Nodup) (hm : (k, v) ∈ l) : alook l k = some v := by
  induction l with
  | nil => cases hm
  | cons p r ih =>
    obtain ⟨k', v'⟩ := p
    simp only [List.map_cons, List.nodup_cons] at hnd
    rcases List.mem_cons.mp hm with h | h
    · cases h; simp [alook]
    · have : k' ≠ k := by
        intro e; subst e
        exact hnd.1 (List.mem_map.mpr ⟨(k', v), h, rfl⟩)
      simp [alook, this, ih hnd.2 h]

theorem mem_of_alook_eq_some {β : Type} (l : List (Nat × β)) (k : Nat) (v : β)
    (h : alook l k = some v) : (k, v) ∈ l := by
  induction l with
  | nil => simp [alook] at h
  | cons p r ih =>
    obtain ⟨k', v'⟩ := p
    by_cases e : k' = k
    · subst e; simp [alook] at h; subst h; exact List.mem_cons_self
    · simp [alook, e] at h; exact List.mem_cons_of_mem _ (ih h)

theorem alook_eq_none_iff {β : Type} (l : List (Nat × β)) (k : Nat) :
    alook l k = none ↔ k ∉ l.map (·.1) := by
  induction l with
  | nil => simp [alook]
  | cons p r ih =>
    obtain ⟨k', v'⟩ := p
    by_cases e : k' = k
    · subst e; simp [alook]
    · have e' : ¬ k = k' := fun x => e x.symm
      simp [alook, e, e', ih]

theorem alook_isSome_iff {β : Type} (l : List (Nat × β)) (k : Nat) :
    (alook l k).isSome = true ↔ k ∈ l.map (·.1) := by
  cases h : alook l k with
  | none => simp [(alook_eq_none_iff l k).mp h]
  | some v =>
    simp only [Option.isSome_some, true_iff]
    exact List.mem_map.mpr ⟨(k, v), mem_of_alook_eq_some l k v h, rfl⟩

/-! ### tries as leaf lists -/

theorem alook_filter_ne {β : Type} (l : List (Nat × β)) (k x : Nat) :
    alook (l.filter (fun p => p.1 != k)) x = if x = k then none else alook l x := by
  induction l with
  | nil => simp [alook]
  | cons p r ih =>
    obtain ⟨k', v'⟩ := p
    by_cases h : k' = k
    · subst h
      simp only [List.filter, bne_self_eq_false, alook]
      rw [ih]
      by_cases hx : x = k'
      · simp [hx]
      · have : ¬ k' = x := fun e => hx e.symm
        simp [hx, this]
    · have hb : (k' != k) = true := by simp [h]
      simp only [List.filter, hb, alook]
      by_cases hx : k' = x
      · subst hx; simp [h]
      · simp only [hx, if_false]; exact ih

theorem tget_tput (t : Leaves) (k x : Slot) (v : Val) :
    tget (tput t k v) x = if x = k then v else tget t x := by
  unfold tget tput tdel
  by_cases hv : v = 0
  · simp only [hv, if_true]
    rw [alook_filter_ne]
    by_cases hx : x = k <;> simp [hx]
  · simp only [hv, if_false, alook]
    by_cases hx : x = k
    · subst hx; simp
    · have : ¬ k = x := fun e => hx e.symm
      simp only [this, if_false, hx]
      rw [alook_filter_ne]; simp [hx]

/-- no stored leaf is zero -/
def NoZero (t : Leaves) : Prop := ∀ p ∈ t, p.2 ≠ 0

theorem noZero_tput (t : Leaves) (k : Slot) (v : Val) (h : NoZero t) : NoZero (tput t k v) := by
  unfold tput tdel
  by_cases hv : v = 0
  · simp only [hv, if_true]
    intro p hp; exact h p (List.mem_filter.mp hp).1
  · simp only [hv, if_false]
    intro p hp
    rcases List.mem_cons.mp hp with e | e
    · subst e; exact hv
    · exact h p (List.mem_filter.mp e).1

theorem alook_isSome_iff_tget_ne (t : Leaves) (k : Slot) (h : NoZero t) :
    (alook t k).isSome = true ↔ tget t k ≠ 0 := by
  unfold tget
  cases e : alook t k with
  | none => simp
  | some v =>
    have := h (k, v) (mem_of_alook_eq_some t k v e)
    simp at this
    simp [this]

theorem isEmpty_iff_all_zero (t : Leaves) (h : NoZero t) : t.isEmpty = true ↔ ∀ k, tget t k = 0 := by
  cases t with
  | nil => simp [tget, alook]
  | cons p r =>
    obtain ⟨k, v⟩ := p
    simp only [List.isEmpty_cons, Bool.false_eq_true, false_iff]
    intro hall
    have := hall k
    simp [tget, alook] at this
    exact h (k, v) List.mem_cons_self this

/-! ### history lists -/

/-- all entries are below block `b` -/
def Below (h : Hist) (b : Nat) : Prop := ∀ e ∈ h, e.1 < b

/-- ascending block numbers -/
def Sorted (h : Hist) : Prop := h.Pairwise (fun x y => x.1 < y.1)

theorem hput_below (h : Hist) (b : Nat) (v : Val) (hb : Below h b) : hput h b v = h ++ [(b, v)] := by
  induction h with
  | nil => rfl
  | cons e r ih =>
    obtain ⟨b', v'⟩ := e
    have h1 : b' < b := hb (b', v') List.mem_cons_self
    have h2 : ¬ b < b' := by omega
    have h3 : ¬ b = b' := by omega
    simp only [hput, h2, h3, if_false, List.cons_append]
    rw [ih (fun e he => hb e (List.mem_cons_of_mem _ he))]

theorem hdel_below (h : Hist) (b : Nat) (hb : Below h b) : hdel h b = h := by
  unfold hdel
  apply List.filter_eq_self.mpr
  intro e he
  have := hb e he
  simp; omega

theorem hdel_append_last (h : Hist) (b : Nat) (v : Val) (hb : Below h b) : hdel (h ++ [(b, v)]) b = h := by
  have := hdel_below h b hb
  unfold hdel at *
  simp [List.filter_append, this]

/-- single pass formulation of `Seek` + `Prev`: `acc` is the entry before the current position -/
def nva : Option Val → Hist → Nat → Option Val
  | acc, [], _ => acc
  | acc, (b, v) :: r, n => if b < n then nva (some v) r n else if b = n then some v else acc

theorem newValueAt_aux (before h : Hist) (n : Nat) :
    (h.dropWhile (fun e => e.1 < n) = [] →
      nva (prevOf before) h n = prevOf (before ++ h.takeWhile (fun e => e.1 < n))) ∧
    (∀ b v t, h.dropWhile (fun e => e.1 < n) = (b, v) :: t →
      nva (prevOf before) h n = if b = n then some v else prevOf (before ++ h.takeWhile (fun e => e.1 < n))) := by
  induction h generalizing before with
  | nil => simp [nva]
  | cons e r ih =>
    obtain ⟨b, v⟩ := e
    by_cases h1 : b < n
    · have ih' := ih (before ++ [(b, v)])
      have hp : prevOf (before ++ [(b, v)]) = some v := by simp [prevOf]
      rw [hp] at ih'
      simp only [List.dropWhile_cons, h1, decide_true, if_true, List.takeWhile_cons, nva]
      simp only [List.append_assoc, List.singleton_append] at ih'
      exact ih'
    · simp only [List.dropWhile_cons, h1, decide_false, List.takeWhile_cons, nva, if_false,
        Bool.false_eq_true]
      constructor
      · intro h; cases h
      · intro b' v' t h
        cases h
        simp

theorem newValueAt_eq_nva (h : Hist) (n : Nat) : newValueAt h n = nva none h n := by
  have := newValueAt_aux [] h n
  simp only [prevOf, List.getLast?_nil, Option.map_none, List.nil_append] at this
  unfold newValueAt
  split
  · next b v t heq => rw [this.2 b v t heq]; rfl
  · next heq => rw [this.1 heq]; rfl

/-- the value of the last entry at or below `n` (whole list scanned) -/
def lastLE : Option Val → Hist → Nat → Option Val
  | acc, [], _ => acc
  | acc, (b, v) :: r, n => if b ≤ n then lastLE (some v) r n else lastLE acc r n

theorem lastLE_all_gt (acc : Option Val) (h : Hist) (n : Nat) (hg : ∀ e ∈ h, n < e.1) : lastLE acc h n = acc := by
  induction h generalizing acc with
  | nil => rfl
  | cons e r ih =>
    obtain ⟨b, v⟩ := e
    have : ¬ b ≤ n := by have := hg (b, v) List.mem_cons_self; simp at this; omega
    simp only [lastLE, this, if_false]
    exact ih acc (fun e he => hg e (List.mem_cons_of_mem _ he))

theorem nva_eq_lastLE (acc : Option Val) (h : Hist) (n : Nat) (hs : Sorted h) : nva acc h n = lastLE acc h n := by
  induction h generalizing acc with
  | nil => rfl
  | cons e r ih =>
    obtain ⟨b, v⟩ := e
    have hs' := List.pairwise_cons.mp hs
    by_cases h1 : b < n
    · have : b ≤ n := by omega
      simp only [nva, lastLE, h1, this, if_true]
      exact ih (some v) hs'.2
    · by_cases h2 : b = n
      · subst h2
        simp only [nva, lastLE, Nat.lt_irrefl, if_false, if_true, Nat.le_refl]
        rw [lastLE_all_gt]
        intro e he; exact hs'.1 e he
      · have h3 : ¬ b ≤ n := by omega
        simp only [nva, lastLE, h1, h2, h3, if_false]
        rw [lastLE_all_gt]
        intro e he; have := hs'.1 e he; simp at this; omega

theorem lastLE_append (acc : Option Val) (h : Hist) (b : Nat) (v : Val) (n : Nat) :
    lastLE acc (h ++ [(b, v)]) n = if b ≤ n then some v else lastLE acc h n := by
  induction h generalizing acc with
  | nil => simp [lastLE]
  | cons e r ih =>
    obtain ⟨b', v'⟩ := e
    by_cases h1 : b' ≤ n <;> simp [lastLE, h1, ih]

theorem newValueAt_eq_lastLE (h : Hist) (n : Nat) (hs : Sorted h) : newValueAt h n = lastLE none h n := by
  rw [newValueAt_eq_nva, nva_eq_lastLE _ _ _ hs]

/-- the first entry strictly above `n` (whole list scanned) -/
def firstGT : Hist → Nat → Option Val
  | [], _ => none
  | (b, v) :: r, n => if n < b then some v else firstGT r n

theorem firstGT_append (h : Hist) (b : Nat) (v : Val) (n : Nat) :
    firstGT (h ++ [(b, v)]) n = match firstGT h n with
      | some x => some x
      | none => if n < b then some v else none := by
  induction h with
  | nil => simp [firstGT]
  | cons e r ih =>
    obtain ⟨b', v'⟩ := e
    by_cases h1 : n < b' <;> simp [firstGT, h1, ih]

theorem firstGT_none_of_le (h : Hist) (n : Nat) (hl : ∀ e ∈ h, e.1 ≤ n) : firstGT h n = none := by
  induction h with
  | nil => rfl
  | cons e r ih =>
    obtain ⟨b, v⟩ := e
    have : ¬ n < b := by have := hl (b, v) List.mem_cons_self; simp at this; omega
    simp only [firstGT, this, if_false]
    exact ih (fun e he => hl e (List.mem_cons_of_mem _ he))

theorem legacyScan_all_gt (r : Hist) (n : Nat) (hg : ∀ e ∈ r, n < e.1) : legacyScan r n = firstGT r n := by
  cases r with
  | nil => rfl
  | cons e r =>
    obtain ⟨b, v⟩ := e
    have : n < b := hg (b, v) List.mem_cons_self
    have h1 : ¬ b < n := by omega
    have h2 : ¬ b = n := by omega
    simp [legacyScan, firstGT, this, h1, h2]

theorem legacyValueAt_eq_firstGT (h : Hist) (n : Nat) (hs : Sorted h) : legacyValueAt h n = firstGT h n := by
  unfold legacyValueAt
  induction h with
  | nil => rfl
  | cons e r ih =>
    obtain ⟨b, v⟩ := e
    have hs' := List.pairwise_cons.mp hs
    by_cases h1 : b < n
    · have : ¬ n < b := by omega
      simp only [List.dropWhile_cons, h1, decide_true, if_true, firstGT, this, if_false]
      exact ih hs'.2
    · simp only [List.dropWhile_cons, h1, decide_false, Bool.false_eq_true, if_false]
      by_cases h2 : b = n
      · subst h2
        simp only [legacyScan, Nat.lt_irrefl, if_false, if_true, firstGT]
        apply legacyScan_all_gt
        intro e he; exact hs'.1 e he
      · have h3 : n < b := by omega
        simp [legacyScan, firstGT, h1, h2, h3]

theorem sorted_append_last (h : Hist) (b : Nat) (v : Val) (hs : Sorted h) (hb : Below h b) :
    Sorted (h ++ [(b, v)]) := by
  unfold Sorted
  rw [List.pairwise_append]
  refine ⟨hs, List.pairwise_singleton _ _, ?_⟩
  intro x hx y hy
  simp at hy; subst hy
  exact hb x hx

theorem below_append_last (h : Hist) (b : Nat) (v : Val) (hb : Below h b) : Below (h ++ [(b, v)]) (b + 1) := by
  intro e he
  rcases List.mem_append.mp he with h1 | h1
  · have := hb e h1; omega
  · simp at h1; subst h1; simp

theorem below_mono (h : Hist) (b b' : Nat) (hb : Below h b) (hle : b ≤ b') : Below h b' :=
  fun e he => Nat.lt_of_lt_of_le (hb e he) hle

end Juno.C03
