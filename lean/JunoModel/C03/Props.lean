import JunoModel.C03.Proofs
/-!
C03 — property theorems (statements only; helper lemmas are in `Proofs*.lean`).
-/
namespace Juno.C03.Props
open Juno.C03

/-- Buckets behave as maps: a read after a write/delete sees it, other keys are untouched. -/
theorem bucket_get_set {κ β : Type} [DecidableEq κ] (m : Bucket κ β) (k x : κ) (v : Option β) :
    bget (bset m k v) x = if x = k then v else bget m x := bget_bset m k x v

end Juno.C03.Props
