import JunoModel.C03.ProofsNode
import JunoModel.C03.ProofsLegacy
import JunoModel.C03.ProofsSys
import JunoModel.C03.ProofsCasm
import JunoModel.C03.ProofsPatch
import JunoModel.C03.ProofsProgress
import JunoModel.C03.ProofsLegacySys
import JunoModel.C03.ProofsApi
import JunoModel.C03.ProofsLegacySysX
import JunoModel.C03.ProofsKeys
import JunoModel.C03.ProofsRpc
import JunoModel.C03.ProofsCasmV2
/-!
C03 — property theorems (statements only; helper lemmas are in `Proofs*.lean`; statements about
proposed patches that are not in the tree are in `ProofsPatch.lean` and are NOT obligations).

Reading guide. `run be (Node.init be) ops = some nd`: the history `ops` (block additions and head
reverts) ran on a fresh node and left `nd`; that histories of valid blocks do run is
`valid_history_runs`. `OpsWF ops`: every stored diff is a well-formed state diff (`Diff.WF`:
sections are maps, no class hash listed twice in the declared sections, no contract deployed and
replaced by the same diff, system contracts only receive storage writes). `OpsFresh ops []`: no
block hash is used twice on the node at the same time (collision-freeness of the block hash).
`nd.chain`: the state diffs of the blocks the node holds, newest first; `absAt nd.chain n` the
abstract state after block `n` = fold of the diffs `0..n` (`absOf`), `AbsSt.read` the answer the
property demands: the value, not-found for contracts / classes that do not exist yet. `decl` (the
answer for a class) is the block of the FIRST REGISTRATION of the class hash: its declaration, or
the block in which sync supplied its definition for a contract deployed with a class that was never
declared (`Diff.extraClasses`) — juno registers both the same way. `q.ordinary`: the query is about
a contract that enters the state through `DeployedContracts`, or about a class; the system contracts
0x1/0x2 (existence implementation defined) have their own theorems. The model's node has no pruner
and no retention floor: all statements are about an UNPRUNED node (C16 owns pruning).

Round 4. `BNode` (ModelApi.lean) is the node with its block store as buckets (chain height, headers, state
updates, commitments, hash index) — what the driver executes; `Refines bn nd` says the buckets hold exactly
the list `nd.blocks`. `bn.resolve be fl v`: which view a request gets through the process' retention floor
`fl` (`none` = unseeded, the only case `Node.resolve` covers; `some f` = seeded at `f`, what node/node.go
builds). `lastBlockWhere w ch n`: most recent block `≤ n` of the chain whose diff satisfies `w`; `v2Of`: the
blake2s compiled class hash of a class's declaration; `histKey` / `bytesLt`: history keys and their byte order.

Round 5. `Key` = a byte string; `upperBoundLoop` = db/dbutils `UpperBound` as written, `upperBound` the same
function by recursion from the first byte; `inPrefixRange p k`: `p ≤ k < UpperBound p` as the stores decide it
(`bytes.Compare`; no bound when `UpperBound` is nil); `KV` a key/value store as bytes, `KV.deleteRange`,
`KV.iter` (= `NewIterator(prefix, true)`: the entries in the range, sorted); `encodeHist bk h` / `encodeLeaves bk lv`:
the history bucket / the leaf nodes of the storage tries under their real keys (bucket byte ++ 32-byte felts ++ …);
`valueAtBytes`, `lastUpdatedBytes`: the history readers of the new backend on what such an iterator yields.
`Diff.Felts`: every address and slot of the diff fits 32 bytes.

Variants. `Cfg.current` / `legacyBackend` = the tree (`leafFix` b4efaf4, `histOrderFix` 904a370 and
`dupDeclFix` 7460746 applied; `sysProbeFix`, `migValFix` proposed only). Theorems named `*_before_<commit>` are regression witnesses for
defects that are fixed in the tree; `*_asFound_counterexample` are defects still in the tree.
-/
namespace Juno.C03.Props
open Juno.C03

/-- The chain a node holds is the one the history says: stores push, reverts pop. -/
theorem run_chain {σ : Type} (be : Backend σ) (ops : List Op) (nd : Node σ)
    (hrun : run be (Node.init be) ops = some nd) : nd.chain = chainOf ops := by
  have := run_blocks be ops (Node.init be) nd hrun
  simp [Node.chain, chainOf, this, Node.init]

/-- PROGRESS, both backends (block store of the tree): a history in which every stored block is
consistent with the state below it (`Valid`: well-formed; deploys only addresses without contract;
replaces classes, sets nonces and writes storage only of contracts that exist, the system contracts
excepted; declares Sierra classes once and migrates only classes declared earlier under an older
protocol, with juno's own hash) and every revert finds a block RUNS: no guard of `Update`, `Revert`
or of the CASM metadata fires, `legacyValueAt` is never missing a log in a revert. So the hypothesis
`run … = some nd` of the theorems below filters out nothing but blocks juno's guards reject. -/
theorem valid_history_runs (cfg : Cfg) (hmf : cfg.migValFix = false) (ops : List Op) (h : OpsValid ops []) :
    (∃ nd, run (newBackend cfg) (Node.init (newBackend cfg)) ops = some nd) ∧
    (∃ nd, run legacyBackend (Node.init legacyBackend) ops = some nd) := by
  constructor
  · exact run_progress (newBackend cfg) hmf (NInv cfg)
      (fun ch s s' d hI hd hu => ninv_store cfg ch s s' d hI hd hu)
      (fun d rest s s' hI hr => ninv_revert cfg d rest s s' hI hr)
      (fun ch s d hI hv => new_update_succeeds cfg ch s d hI hv)
      (fun d rest s hI hv => new_revert_succeeds cfg d rest s hI hv)
      ops (Node.init (newBackend cfg)) (ninv_init cfg) minv_init trivial h
  · exact run_progress legacyBackend rfl LInv
      (fun ch s s' d hI hd hu => linv_store ch s s' d hI hd hu)
      (fun d rest s s' hI hr => linv_revert true d rest s s' hI hr)
      (fun ch s d hI hv => legacy_update_succeeds ch s d hI hv)
      (fun d rest s hI hv => legacy_revert_succeeds true d rest s hI hv)
      ops (Node.init legacyBackend) linv_init minv_init trivial h

/-- NEW BACKEND, views by number: after any history, for every retained block `n`, every contract
address / slot / class hash: the historical reader answers exactly what the state diffs up to
and including block `n` give. Holds for every variant `cfg` of the code. -/
theorem new_read_correct (cfg : Cfg) (ops : List Op) (nd : Node NState)
    (hrun : run (newBackend cfg) (Node.init (newBackend cfg)) ops = some nd) (hwf : OpsWF ops) (hfr : OpsFresh ops [])
    (n : Nat) (hn : n < nd.blocks.length) (q : Query) (hq : q.ordinary) :
    nd.read (newBackend cfg) (.num n) q = some ((absAt nd.chain n).read q) := by
  have hinv := run_invariant (newBackend cfg) (NInv cfg)
    (fun ch s s' d hI hd hu => ninv_store cfg ch s s' d hI hd hu)
    (fun d rest s s' hI hr => ninv_revert cfg d rest s s' hI hr)
    ops (Node.init (newBackend cfg)) nd (ninv_init cfg) hwf hrun
  have hidx := run_idxInv _ ops _ nd (idxInv_init _) hfr hrun
  simp only [Node.read, resolve_num _ nd hidx n hn]
  exact congrArg some (ninv_histRead cfg nd.chain nd.st hinv n q hq)

/-- NEW BACKEND, head view: class hash, nonce and declared classes are those of the abstract state
after the last block (not-found when absent); a storage slot reads as its value — zero when unset,
also for an address without contract (juno's `StateReader.ContractStorage` contract; the RPC layer
asks for the class hash first). The storage part needs the repaired trie (`leafFix`), see
`new_head_storage_before_b4efaf4`. -/
theorem new_head_read_correct (cfg : Cfg) (ops : List Op) (nd : Node NState)
    (hrun : run (newBackend cfg) (Node.init (newBackend cfg)) ops = some nd) (hwf : OpsWF ops)
    (hne : nd.blocks ≠ []) :
    (∀ a, isSystem a = false →
      nd.read (newBackend cfg) .head (.classHash a) = some ((absOf nd.chain).read (.classHash a)) ∧
      nd.read (newBackend cfg) .head (.nonce a) = some ((absOf nd.chain).read (.nonce a))) ∧
    (∀ c, nd.read (newBackend cfg) .head (.cls c) = some ((absOf nd.chain).read (.cls c))) ∧
    (cfg.leafFix = true → ∀ a k,
      nd.read (newBackend cfg) .head (.storage a k) = some (.ok ((absOf nd.chain).stor a k))) := by
  have hinv := run_invariant (newBackend cfg) (NInv cfg)
    (fun ch s s' d hI hd hu => ninv_store cfg ch s s' d hI hd hu)
    (fun d rest s s' hI hr => ninv_revert cfg d rest s s' hI hr)
    ops (Node.init (newBackend cfg)) nd (ninv_init cfg) hwf hrun
  have hemp : nd.blocks.isEmpty = false := by cases h : nd.blocks <;> simp_all
  refine ⟨?_, ?_, ?_⟩
  · intro a ha
    simp only [Node.read, Node.resolve, hemp, Bool.false_eq_true, if_false]
    exact ⟨congrArg some ((ninv_headRead cfg nd.chain nd.st hinv (.classHash a)).1 a rfl ha),
      congrArg some ((ninv_headRead cfg nd.chain nd.st hinv (.nonce a)).2.1 a rfl ha)⟩
  · intro c
    simp only [Node.read, Node.resolve, hemp, Bool.false_eq_true, if_false]
    exact congrArg some ((ninv_headRead cfg nd.chain nd.st hinv (.cls c)).2.2.2 c rfl)
  · intro hfix a k
    simp only [Node.read, Node.resolve, hemp, Bool.false_eq_true, if_false]
    exact congrArg some ((ninv_headRead cfg nd.chain nd.st hinv (.storage a k)).2.2.1 a k rfl hfix)

/- Full-strength statement for the system contracts (what `legacy_system_storage_read` proves for
the legacy backend):
    (absAt nd.chain n).stor a k ≠ 0 → nd.read (newBackend cfg) (.num n) (.storage a k) = some (.ok …)
It is FALSE for the code as found (`cfg.sysProbeFix = false`): `new_system_asFound_counterexample`.
Proved: never a wrong value, every variant, and the full statement for the variant with
proposed-fixes/C03-history-system-contract-no-deploy-probe.diff (`new_system_storage_read_partial`);
the full statement for EVERY variant under the hypothesis that excludes the defect — no block of the
history empties the storage of a system contract (`new_system_storage_read_nodrain_partial`). -/

/-- NEW BACKEND as found, system contracts: if no stored block of the history (reverted ones
included) leaves a system contract with an empty storage that was not empty before (`NoDrainStep`),
a slot of 0x1/0x2 that is non-zero after block `n` is returned as it is by the view of block `n`. -/
theorem new_system_storage_read_nodrain_partial (cfg : Cfg) (ops : List Op) (nd : Node NState)
    (hrun : run (newBackend cfg) (Node.init (newBackend cfg)) ops = some nd)
    (hok : OpsOK (fun ch d => d.WF ∧ NoDrainStep ch d) ops []) (hfr : OpsFresh ops [])
    (n : Nat) (hn : n < nd.blocks.length) (a : Addr) (k : Slot) (ha : isSystem a = true)
    (hnz : (absAt nd.chain n).stor a k ≠ 0) :
    nd.read (newBackend cfg) (.num n) (.storage a k) = some (.ok ((absAt nd.chain n).stor a k)) := by
  have hs := run_invariant' (newBackend cfg) (NSys cfg) (fun ch d => d.WF ∧ NoDrainStep ch d)
    (fun ch s s' d hI hP hu => nsys_store cfg ch s s' d hI hP hu)
    (fun d rest s s' hI hr => nsys_revert cfg d rest s s' hI hr)
    ops (Node.init (newBackend cfg)) nd (nsys_init cfg) hok hrun
  have hidx := run_idxInv _ ops _ nd (idxInv_init _) hfr hrun
  simp only [Node.read, resolve_num _ nd hidx n hn]
  exact congrArg some (nsys_histRead cfg nd.chain nd.st hs n a k ha hnz)

/-- NEW BACKEND, any address including the system contracts 0x1/0x2, views by number: a storage
read never returns a wrong value: it is the value the diffs give, or not-found. (That it is the
value whenever that is non-zero is `new_system_storage_read_nodrain_partial`, false in general:
`new_system_asFound_counterexample`.) -/
theorem new_system_storage_read_partial (cfg : Cfg) (ops : List Op) (nd : Node NState)
    (hrun : run (newBackend cfg) (Node.init (newBackend cfg)) ops = some nd) (hwf : OpsWF ops) (hfr : OpsFresh ops [])
    (n : Nat) (hn : n < nd.blocks.length) (a : Addr) (k : Slot) :
    nd.read (newBackend cfg) (.num n) (.storage a k) = some .notfound ∨
      nd.read (newBackend cfg) (.num n) (.storage a k) = some (.ok ((absAt nd.chain n).stor a k)) := by
  have hinv := run_invariant (newBackend cfg) (NInv cfg)
    (fun ch s s' d hI hd hu => ninv_store cfg ch s s' d hI hd hu)
    (fun d rest s s' hI hr => ninv_revert cfg d rest s s' hI hr)
    ops (Node.init (newBackend cfg)) nd (ninv_init cfg) hwf hrun
  have h := ninv_histRead_system cfg nd.chain nd.st hinv n a k
  have hidx := run_idxInv _ ops _ nd (idxInv_init _) hfr hrun
  simp only [Node.read, resolve_num _ nd hidx n hn]
  rcases h.1 with e | e
  · left; exact congrArg some e
  · right; exact congrArg some e

/-- NEW BACKEND as found, existence of the system contracts 0x1/0x2 (class hash and nonce queries),
no block draining a system contract: on the view of block `n` and on the head view both read 0 when
the contract has a non-zero slot in that state, and not-found when it has none. (The RPC handlers
ask for the class hash before the storage, so this decides whether `getStorageAt(0x1, …)` answers.) -/
theorem new_system_existence_nodrain (cfg : Cfg) (hc : cfg.sysProbeFix = false) (ops : List Op) (nd : Node NState)
    (hrun : run (newBackend cfg) (Node.init (newBackend cfg)) ops = some nd)
    (hok : OpsOK (fun ch d => d.WF ∧ NoDrainStep ch d) ops []) (hfr : OpsFresh ops [])
    (a : Addr) (ha : isSystem a = true) :
    (∀ n, n < nd.blocks.length →
      (NonEmpty (absAt nd.chain n) a →
        nd.read (newBackend cfg) (.num n) (.classHash a) = some (.ok 0) ∧
        nd.read (newBackend cfg) (.num n) (.nonce a) = some (.ok 0)) ∧
      (¬ NonEmpty (absAt nd.chain n) a →
        nd.read (newBackend cfg) (.num n) (.classHash a) = some .notfound ∧
        nd.read (newBackend cfg) (.num n) (.nonce a) = some .notfound)) ∧
    (nd.blocks ≠ [] →
      (NonEmpty (absOf nd.chain) a →
        nd.read (newBackend cfg) .head (.classHash a) = some (.ok 0) ∧
        nd.read (newBackend cfg) .head (.nonce a) = some (.ok 0)) ∧
      (¬ NonEmpty (absOf nd.chain) a →
        nd.read (newBackend cfg) .head (.classHash a) = some .notfound ∧
        nd.read (newBackend cfg) .head (.nonce a) = some .notfound)) := by
  have hs := run_invariant' (newBackend cfg) (NSys cfg) (fun ch d => d.WF ∧ NoDrainStep ch d)
    (fun ch s s' d hI hP hu => nsys_store cfg ch s s' d hI hP hu)
    (fun d rest s s' hI hr => nsys_revert cfg d rest s s' hI hr)
    ops (Node.init (newBackend cfg)) nd (nsys_init cfg) hok hrun
  have hidx := run_idxInv _ ops _ nd (idxInv_init _) hfr hrun
  constructor
  · intro n hn
    have hlen : n < nd.chain.length := by simpa [Node.chain] using hn
    have h := nsys_histRead_existence cfg hc nd.chain nd.st hs n hlen a ha
    simp only [Node.read, resolve_num _ nd hidx n hn]
    exact ⟨fun hne => ⟨congrArg some (h.1 hne).1, congrArg some (h.1 hne).2⟩,
      fun he => ⟨congrArg some (h.2 he).1, congrArg some (h.2 he).2⟩⟩
  · intro hne
    have hemp : nd.blocks.isEmpty = false := by cases h : nd.blocks <;> simp_all
    have h := nsys_headRead_existence cfg nd.chain nd.st hs a ha
    simp only [Node.read, Node.resolve, hemp, Bool.false_eq_true, if_false]
    exact ⟨fun hne => ⟨congrArg some (h.1 hne).1, congrArg some (h.1 hne).2⟩,
      fun he => ⟨congrArg some (h.2 he).1, congrArg some (h.2 he).2⟩⟩

/-- LEGACY BACKEND, views by number: after any history, for every retained block `n`, every
contract address / slot / class hash: the historical reader (first log strictly above `n`, else
the head value; deployment height; declaration height) answers exactly what the state diffs up to
and including block `n` give. The invariant behind it (`LInv`): every change of a key at block b
has a log at b holding the value before b; the only writes without log are zero written to an
unset slot (no change) and the class hash set by a deployment (masked by the deployment height). -/
theorem legacy_read_correct (ops : List Op) (nd : Node LState)
    (hrun : run legacyBackend (Node.init legacyBackend) ops = some nd) (hwf : OpsWF ops) (hfr : OpsFresh ops [])
    (n : Nat) (hn : n < nd.blocks.length) (q : Query) (hq : q.ordinary) :
    nd.read legacyBackend (.num n) q = some ((absAt nd.chain n).read q) := by
  have hinv := run_invariant legacyBackend LInv
    (fun ch s s' d hI hd hu => linv_store ch s s' d hI hd hu)
    (fun d rest s s' hI hr => linv_revert true d rest s s' hI hr)
    ops (Node.init legacyBackend) nd linv_init hwf hrun
  have hidx := run_idxInv _ ops _ nd (idxInv_init _) hfr hrun
  simp only [Node.read, resolve_num _ nd hidx n hn]
  exact congrArg some (linv_histRead nd.chain nd.st hinv n q hq)

/-- LEGACY BACKEND, head view: as `new_head_read_correct`, the storage part without condition. -/
theorem legacy_head_read_correct (ops : List Op) (nd : Node LState)
    (hrun : run legacyBackend (Node.init legacyBackend) ops = some nd) (hwf : OpsWF ops)
    (hne : nd.blocks ≠ []) :
    (∀ a, isSystem a = false →
      nd.read legacyBackend .head (.classHash a) = some ((absOf nd.chain).read (.classHash a)) ∧
      nd.read legacyBackend .head (.nonce a) = some ((absOf nd.chain).read (.nonce a))) ∧
    (∀ c, nd.read legacyBackend .head (.cls c) = some ((absOf nd.chain).read (.cls c))) ∧
    (∀ a k, nd.read legacyBackend .head (.storage a k) = some (.ok ((absOf nd.chain).stor a k))) := by
  have hinv := run_invariant legacyBackend LInv
    (fun ch s s' d hI hd hu => linv_store ch s s' d hI hd hu)
    (fun d rest s s' hI hr => linv_revert true d rest s s' hI hr)
    ops (Node.init legacyBackend) nd linv_init hwf hrun
  have hemp : nd.blocks.isEmpty = false := by cases h : nd.blocks <;> simp_all
  have h := linv_headRead nd.chain nd.st hinv
  refine ⟨?_, ?_, ?_⟩
  · intro a ha
    simp only [Node.read, Node.resolve, hemp, Bool.false_eq_true, if_false]
    exact ⟨congrArg some (h.1 a ha).1, congrArg some (h.1 a ha).2⟩
  · intro c
    simp only [Node.read, Node.resolve, hemp, Bool.false_eq_true, if_false]
    exact congrArg some (h.2.2 c)
  · intro a k
    simp only [Node.read, Node.resolve, hemp, Bool.false_eq_true, if_false]
    exact congrArg some (h.2.1 a k)

/-- LEGACY BACKEND, any address including the system contracts 0x1/0x2, views by number: a slot
that is non-zero after block `n` is returned as it is; a zero slot reads as zero or not-found. -/
theorem legacy_system_storage_read (ops : List Op) (nd : Node LState)
    (hrun : run legacyBackend (Node.init legacyBackend) ops = some nd) (hwf : OpsWF ops) (hfr : OpsFresh ops [])
    (n : Nat) (hn : n < nd.blocks.length) (a : Addr) (k : Slot) :
    ((absAt nd.chain n).stor a k ≠ 0 →
      nd.read legacyBackend (.num n) (.storage a k) = some (.ok ((absAt nd.chain n).stor a k))) ∧
    (nd.read legacyBackend (.num n) (.storage a k) = some .notfound ∨
      nd.read legacyBackend (.num n) (.storage a k) = some (.ok ((absAt nd.chain n).stor a k))) := by
  have hinv := run_invariant legacyBackend LInv
    (fun ch s s' d hI hd hu => linv_store ch s s' d hI hd hu)
    (fun d rest s s' hI hr => linv_revert true d rest s s' hI hr)
    ops (Node.init legacyBackend) nd linv_init hwf hrun
  have h := linv_histRead_storage_any nd.chain nd.st hinv n a k
  have hidx := run_idxInv _ ops _ nd (idxInv_init _) hfr hrun
  simp only [Node.read, resolve_num _ nd hidx n hn]
  refine ⟨fun hz => congrArg some (h.1 hz), ?_⟩
  rcases h.2 with e | e
  · left; exact congrArg some e
  · right; exact congrArg some e

/-- LEGACY BACKEND, existence of the system contracts 0x1/0x2 (class hash and nonce queries), no
block draining a system contract: on the view of every block at which the contract has a non-zero
slot, and on the head view when it has one now, both read 0. (Where it has none the legacy backend
may answer 0 or not-found: a block that writes only zeros creates the record, a later revert of ANY
block removes it again — the record is not a function of the chain. Invariant `LSys`: the record's
height is at most the block that made the storage non-empty.) With `new_system_existence_nodrain`:
wherever a system contract has a non-zero slot, both backends answer 0 for its class hash and nonce. -/
theorem legacy_system_existence_nodrain (ops : List Op) (nd : Node LState)
    (hrun : run legacyBackend (Node.init legacyBackend) ops = some nd)
    (hok : OpsOK (fun ch d => d.WF ∧ NoDrainStep ch d) ops []) (hfr : OpsFresh ops [])
    (a : Addr) (ha : isSystem a = true) :
    (∀ n, n < nd.blocks.length → NonEmpty (absAt nd.chain n) a →
      nd.read legacyBackend (.num n) (.classHash a) = some (.ok 0) ∧
      nd.read legacyBackend (.num n) (.nonce a) = some (.ok 0)) ∧
    (nd.blocks ≠ [] → NonEmpty (absOf nd.chain) a →
      nd.read legacyBackend .head (.classHash a) = some (.ok 0) ∧
      nd.read legacyBackend .head (.nonce a) = some (.ok 0)) := by
  have hs := run_invariant' legacyBackend LSys (fun ch d => d.WF ∧ NoDrainStep ch d)
    (fun ch s s' d hI hP hu => lsys_store ch s s' d hI hP hu)
    (fun d rest s s' hI hr => lsys_revert true d rest s s' hI hr)
    ops (Node.init legacyBackend) nd lsys_init hok hrun
  have hidx := run_idxInv _ ops _ nd (idxInv_init _) hfr hrun
  have h := lsys_existence nd.chain nd.st hs a ha
  constructor
  · intro n hn hne
    simp only [Node.read, resolve_num _ nd hidx n hn]
    exact ⟨congrArg some (h.1 n hne).1, congrArg some (h.1 n hne).2⟩
  · intro hne hnz
    have hemp : nd.blocks.isEmpty = false := by cases hb : nd.blocks <;> simp_all
    simp only [Node.read, Node.resolve, hemp, Bool.false_eq_true, if_false]
    exact ⟨congrArg some (h.2 hnz).1, congrArg some (h.2 hnz).2⟩

/-- LEGACY BACKEND, the other direction of `legacy_system_existence_nodrain`: when no stored block of
the history (reverted ones included) leaves a system contract it lists without a non-zero slot
(`NoEmptyStep`: no drain, no block writing only zeros to an empty system contract), the record of a
system contract is a function of the chain — absent exactly when the contract is empty, its height the
block that made the storage non-empty (invariant `LSysX`) — and on the view of every block at which
0x1/0x2 has no non-zero slot its class hash, nonce and every slot are reported NOT FOUND. In
particular a system contract whose creating block was reverted does not exist at any block of the
chain that grows afterwards (a deployment height left behind by the revert would make these reads
answer 0). -/
theorem legacy_system_absent_noempty (ops : List Op) (nd : Node LState)
    (hrun : run legacyBackend (Node.init legacyBackend) ops = some nd)
    (hok : OpsOK (fun ch d => d.WF ∧ NoEmptyStep ch d) ops []) (hfr : OpsFresh ops [])
    (a : Addr) (ha : isSystem a = true) (n : Nat) (hn : n < nd.blocks.length)
    (he : ¬ NonEmpty (absAt nd.chain n) a) :
    nd.read legacyBackend (.num n) (.classHash a) = some .notfound ∧
    nd.read legacyBackend (.num n) (.nonce a) = some .notfound ∧
    ∀ k, nd.read legacyBackend (.num n) (.storage a k) = some .notfound := by
  have hs := run_invariant' legacyBackend LSysX (fun ch d => d.WF ∧ NoEmptyStep ch d)
    (fun ch s s' d hI hP hu => lsysx_store ch s s' d hI hP hu)
    (fun d rest s s' hI hr => lsysx_revert true d rest s s' hI hr)
    ops (Node.init legacyBackend) nd lsysx_init hok hrun
  have hidx := run_idxInv _ ops _ nd (idxInv_init _) hfr hrun
  have hlen : n < nd.chain.length := by simpa [Node.chain] using hn
  have h := lsysx_absent nd.chain nd.st hs a ha n hlen he
  simp only [Node.read, resolve_num _ nd hidx n hn]
  exact ⟨congrArg some h.1, congrArg some h.2.1, fun k => congrArg some (h.2.2 k)⟩

/-- The two backends answer alike: the same history run on a legacy node and on a new node (any
variant) gives the same answer for every retained block and every ordinary query. -/
theorem backends_agree_reads (cfg : Cfg) (ops : List Op) (nl : Node LState) (nn : Node NState)
    (hl : run legacyBackend (Node.init legacyBackend) ops = some nl)
    (hnw : run (newBackend cfg) (Node.init (newBackend cfg)) ops = some nn) (hwf : OpsWF ops) (hfr : OpsFresh ops [])
    (n : Nat) (hn : n < (chainOf ops).length) (q : Query) (hq : q.ordinary) :
    nl.read legacyBackend (.num n) q = nn.read (newBackend cfg) (.num n) q := by
  have cl := run_chain legacyBackend ops nl hl
  have cn := run_chain (newBackend cfg) ops nn hnw
  have hnl : n < nl.blocks.length := by
    have : nl.blocks.length = nl.chain.length := by simp [Node.chain]
    rw [this, cl]; exact hn
  have hnn : n < nn.blocks.length := by
    have : nn.blocks.length = nn.chain.length := by simp [Node.chain]
    rw [this, cn]; exact hn
  rw [legacy_read_correct ops nl hl hwf hfr n hnl q hq, new_read_correct cfg ops nn hnw hwf hfr n hnn q hq, cl, cn]

/-- COMPILED CLASS HASHES (any backend: the metadata is kept by the block store, not by the state):
`CompiledClassHash` on the view of block `n` is the compiled class hash in force after block `n` —
the declared one, the migrated one from the block of the migration on, not-found before the
declaration — and on the head view the one of the head. PARTIAL: hypotheses on every stored block
are `CasmStep` (a Sierra class is declared once, migrations only under protocol ≥ 0.14.1 and not of
a class declared by the same diff) and `MigOwnHash`: the hash a migration carries is the blake2s
hash that came with the class's declaration. Without the latter the statement is false
(`casm_migration_foreign_hash_counterexample`): juno ignores the hash in `MigratedClasses`
(`be.migFix = false`: the block store of the tree, both `newBackend cfg` with `cfg.migValFix = false`
and `legacyBackend`). -/
theorem casm_read_partial {σ : Type} (be : Backend σ) (hmf : be.migFix = false) (ops : List Op) (nd : Node σ)
    (hrun : run be (Node.init be) ops = some nd)
    (hok : OpsOK (fun ch d => CasmStep ch d ∧ MigOwnHash ch d) ops []) (hfr : OpsFresh ops []) (c : CHash) :
    (∀ n, n < nd.blocks.length → nd.readCasm be (.num n) c = some (casmRes (absAt nd.chain n) c)) ∧
    (nd.blocks ≠ [] → nd.readCasm be .head c = some (casmRes (absOf nd.chain) c)) := by
  have hok' : OpsOK (fun ch d => CasmStep ch d ∧ MigVal ch d) ops [] :=
    OpsOK.mono (fun ch d h => ⟨h.1, migVal_of_ownHash ch d h.2⟩) ops [] hok
  have hinv := run_minv be hmf ops (Node.init be) nd minv_init hok' hrun
  have hidx := run_idxInv _ ops _ nd (idxInv_init _) hfr hrun
  constructor
  · intro n hn
    simp only [Node.readCasm, resolve_num _ nd hidx n hn, hinv.recs c]
    have h := metaOf_at nd.chain hinv.ok c n
    by_cases hmt : metaOf nd.chain c = none
    · simp only [hmt] at h ⊢; exact congrArg some h
    · obtain ⟨mt, hm⟩ := Option.ne_none_iff_exists'.mp hmt
      simp only [hm] at h ⊢; exact congrArg some h
  · intro hne
    have hemp : nd.blocks.isEmpty = false := by cases h : nd.blocks <;> simp_all
    simp only [Node.readCasm, Node.resolve, hemp, Bool.false_eq_true, if_false, hinv.recs c]
    have h := metaOf_head nd.chain hinv.ok c
    by_cases hmt : metaOf nd.chain c = none
    · simp only [hmt] at h ⊢; exact congrArg some h
    · obtain ⟨mt, hm⟩ := Option.ne_none_iff_exists'.mp hmt
      simp only [hm] at h ⊢; exact congrArg some h

/-- WHICH VIEWS EXIST (any backend). The node keeps a hash index (`BlockHeaderNumbersByHash`) that
`Store` writes and `RevertHead` deletes from; views by number go through it (`pruner`'s retention
check reads header → hash → index), views by hash start from it. After any history with distinct
block hashes: the head view exists iff the node holds a block; block number `k` has a view iff
`k` is below the height, and it is the view of `k`; the hash of the block that is now number `k`
gives the view of `k`; a hash the node does not hold now — never stored, or reverted — gives none. -/
theorem views_exist {σ : Type} (be : Backend σ) (ops : List Op) (nd : Node σ)
    (hrun : run be (Node.init be) ops = some nd) (hfr : OpsFresh ops []) :
    (nd.resolve be .head = if nd.blocks.isEmpty then none else some none) ∧
    (∀ k, k < nd.blocks.length → nd.resolve be (.num k) = some (some k)) ∧
    (∀ k, nd.blocks.length ≤ k → nd.resolve be (.num k) = none) ∧
    (∀ k id, k < nd.blocks.length → nd.idAt k = some id → nd.resolve be (.hash id) = some (some k)) ∧
    (∀ h, h ∉ nd.blocks.map (·.1) → nd.resolve be (.hash h) = none) := by
  have hidx := run_idxInv _ ops _ nd (idxInv_init _) hfr hrun
  refine ⟨rfl, fun k hk => resolve_num be nd hidx k hk, ?_, ?_, ?_⟩
  · intro k hk
    have : ¬ k < nd.blocks.length := by omega
    simp [Node.resolve, this]
  · intro k id hk hid
    rw [idAt_lt nd k hk] at hid
    rw [resolve_hash be nd hidx, ← Option.some.inj hid, numberOf_getElem nd.blocks hidx.nodup k hk]
    rfl
  · intro h hm
    rw [resolve_hash be nd hidx, (numberOf_none_iff nd.blocks h).mpr hm]
    rfl

/-- VIEWS BY HASH, both backends: the view of the hash of block `k` answers for block `k` exactly
what the state diffs up to and including block `k` give. -/
theorem read_by_hash_correct (cfg : Cfg) (ops : List Op) (hwf : OpsWF ops) (hfr : OpsFresh ops [])
    (k : Nat) (id : BlockId) (q : Query) (hq : q.ordinary) :
    (∀ nd, run (newBackend cfg) (Node.init (newBackend cfg)) ops = some nd → k < nd.blocks.length →
      nd.idAt k = some id → nd.read (newBackend cfg) (.hash id) q = some ((absAt nd.chain k).read q)) ∧
    (∀ nd, run legacyBackend (Node.init legacyBackend) ops = some nd → k < nd.blocks.length →
      nd.idAt k = some id → nd.read legacyBackend (.hash id) q = some ((absAt nd.chain k).read q)) := by
  constructor
  · intro nd hrun hk hid
    have hv := (views_exist (newBackend cfg) ops nd hrun hfr).2.2.2.1 k id hk hid
    have hn := (views_exist (newBackend cfg) ops nd hrun hfr).2.1 k hk
    have := new_read_correct cfg ops nd hrun hwf hfr k hk q hq
    simp only [Node.read, hn] at this
    simp only [Node.read, hv]
    exact this
  · intro nd hrun hk hid
    have hv := (views_exist legacyBackend ops nd hrun hfr).2.2.2.1 k id hk hid
    have hn := (views_exist legacyBackend ops nd hrun hfr).2.1 k hk
    have := legacy_read_correct ops nd hrun hwf hfr k hk q hq
    simp only [Node.read, hn] at this
    simp only [Node.read, hv]
    exact this

/-- THE HEAD VIEW IS THE VIEW OF THE HEAD BLOCK, both backends (tree variant of the new backend):
every ordinary query gets the same answer from `HeadState` and from the view by number of the last
block — except a storage query for an address without contract, where the head reader answers 0
(see `new_head_read_correct`). -/
theorem head_view_is_top_block_view (cfg : Cfg) (hfix : cfg.leafFix = true) (ops : List Op) (hwf : OpsWF ops)
    (hfr : OpsFresh ops []) (q : Query) (hq : q.ordinary) :
    (∀ nd, run (newBackend cfg) (Node.init (newBackend cfg)) ops = some nd → nd.blocks ≠ [] →
      (∀ a k, q = .storage a k → ((absOf nd.chain).dep a).isSome = true) →
      nd.read (newBackend cfg) .head q = nd.read (newBackend cfg) (.num (nd.blocks.length - 1)) q) ∧
    (∀ nd, run legacyBackend (Node.init legacyBackend) ops = some nd → nd.blocks ≠ [] →
      (∀ a k, q = .storage a k → ((absOf nd.chain).dep a).isSome = true) →
      nd.read legacyBackend .head q = nd.read legacyBackend (.num (nd.blocks.length - 1)) q) := by
  constructor
  · intro nd hrun hne hst
    have hpos : 0 < nd.blocks.length := List.length_pos_iff.mpr hne
    have hlen : nd.chain.length = nd.blocks.length := by simp [Node.chain]
    rw [new_read_correct cfg ops nd hrun hwf hfr _ (by omega) q hq, absAt_ge nd.chain _ (by omega)]
    have hh := new_head_read_correct cfg ops nd hrun hwf hne
    cases q with
    | classHash a => exact (hh.1 a hq).1
    | nonce a => exact (hh.1 a hq).2
    | cls c => exact hh.2.1 c
    | storage a k =>
      rw [hh.2.2 hfix a k]
      simp [AbsSt.read, hst a k rfl]
  · intro nd hrun hne hst
    have hpos : 0 < nd.blocks.length := List.length_pos_iff.mpr hne
    have hlen : nd.chain.length = nd.blocks.length := by simp [Node.chain]
    rw [legacy_read_correct ops nd hrun hwf hfr _ (by omega) q hq, absAt_ge nd.chain _ (by omega)]
    have hh := legacy_head_read_correct ops nd hrun hwf hne
    cases q with
    | classHash a => exact (hh.1 a hq).1
    | nonce a => exact (hh.1 a hq).2
    | cls c => exact hh.2.1 c
    | storage a k =>
      rw [hh.2.2 a k]
      simp [AbsSt.read, hst a k rfl]

/-! ### the code as found: counterexamples (defects of juno, replayed on the real code by the harness) -/

private def dStore (st : List (Addr × List (Slot × Val))) (dep : List (Addr × CHash)) : Diff :=
  { Diff.empty with storage := st, deployed := dep }

/-- block 0: deploy A with slot 2 = 1; block 1: slot 3 = 4; block 2: slot 3 = 0 -/
def staleLeafHistory : List Op :=
  [.store 1 (dStore [(0x104, [(2, 1)])] [(0x104, 0xc000)]),
   .store 2 (dStore [(0x104, [(3, 4)])] []),
   .store 3 (dStore [(0x104, [(3, 0)])] [])]

/-- DEFECT (core/trie2 `Trie.delete`, fixed by b4efaf4): as found, the head view returns 4 for a slot
whose value is 0 — the full-strength head statement fails without `leafFix`. -/
theorem new_head_storage_before_b4efaf4 :
    (run (newBackend Cfg.asFound) (Node.init (newBackend Cfg.asFound)) staleLeafHistory).map
      (fun nd => (nd.read (newBackend Cfg.asFound) .head (.storage 0x104 3), (absOf nd.chain).stor 0x104 3)) =
      some (some (.ok 4), 0) := by decide

/-- block 0: 0x1[2] = 5; block 1: 0x1[2] = 0 (the storage of the system contract is empty again) -/
def drainHistory : List Op :=
  [.store 1 (dStore [(1, [(2, 5)])] []), .store 2 (dStore [(1, [(2, 0)])] [])]

/-- DEFECT (core/state `commit` purges a system contract whose storage became empty, also during
`Update`, and `checkDeployed` then finds no record): as found, the view of block 0 reports
not-found for a slot that holds 5 at block 0. -/
theorem new_system_asFound_counterexample :
    (run (newBackend Cfg.asFound) (Node.init (newBackend Cfg.asFound)) drainHistory).map
      (fun nd => (nd.read (newBackend Cfg.asFound) (.num 0) (.storage 1 2), (absAt nd.chain 0).stor 1 2)) =
      some (some .notfound, 5) := by decide

/-- block 0: deploy 0x64; block 1: address 0x66 is in `deployed` (class 0x12c) AND in `replaced`
(class 0x12f) — outside `Diff.WF`, but juno stores such a block -/
def deployReplaceHistory : List Op :=
  [.store 1 { Diff.empty with deployed := [(0x64, 0x12c)] },
   .store 2 { Diff.empty with deployed := [(0x66, 0x12c)], replaced := [(0x66, 0x12f)] }]

/-- DEFECT (core/state `writeHistory` writes replaced classes before deployed contracts, `Update`
applies them the other way round): as found the view of block 1 answers the deployed class 0x12c
while the head view — and the abstract state, the legacy backend, the state root — have 0x12f.
With the two loops in `Update`'s order (`histOrderFix`) all agree. -/
theorem new_deploy_and_replace_before_904a370 :
    (run (newBackend Cfg.asFound) (Node.init (newBackend Cfg.asFound)) deployReplaceHistory).map
      (fun nd => (nd.read (newBackend Cfg.asFound) (.num 1) (.classHash 0x66),
                  nd.read (newBackend Cfg.asFound) .head (.classHash 0x66), (absOf nd.chain).cls 0x66)) =
      some (some (.ok 0x12c), some (.ok 0x12f), 0x12f) ∧
    (run (newBackend Cfg.repaired) (Node.init (newBackend Cfg.repaired)) deployReplaceHistory).map
      (fun nd => (nd.read (newBackend Cfg.repaired) (.num 1) (.classHash 0x66),
                  nd.read (newBackend Cfg.repaired) .head (.classHash 0x66))) =
      some (some (.ok 0x12f), some (.ok 0x12f)) ∧
    (run legacyBackend (Node.init legacyBackend) deployReplaceHistory).map
      (fun nd => (nd.read legacyBackend (.num 1) (.classHash 0x66), nd.read legacyBackend .head (.classHash 0x66))) =
      some (some (.ok 0x12f), some (.ok 0x12f)) := by decide

/-- DEFECT (legacy historical reader: log scan and head read are two reads of a live database):
block 0 sets 0x104[2] = 1, block 1 sets it to 2; a read of block 0 whose log scan happens before
block 1 is committed and whose head read happens after it answers 2. -/
theorem legacy_torn_read_asFound_counterexample :
    let ops₁ : List Op := [.store 1 (dStore [(0x104, [(2, 1)])] [(0x104, 0xc000)])]
    let ops₂ : List Op := [.store 2 (dStore [(0x104, [(2, 2)])] [])]
    let nl₁ := runL legacyBackend (Node.init legacyBackend) ops₁
    let nl₂ := runL legacyBackend nl₁ ops₂
    (LState.tornStorageValue false nl₁.st nl₂.st 0 0x104 2, LState.tornStorageValue true nl₁.st nl₂.st 0 0x104 2,
      (absAt nl₁.chain 0).stor 0x104 2) = (2, 1, 1) := by decide

/-- block 0 (protocol < 0.14.1) declares Sierra class 0x51 with compiled hash 0xa1; juno computes
the blake2s hash 0xb1. Block 1 (≥ 0.14.1) migrates the class to 0xabc. -/
def foreignMigrationHistory : List Op :=
  [.store 1 { Diff.empty with declared1 := [⟨0x51, 0xa1, 0xb1⟩] },
   .store 2 { Diff.empty with v2 := true, migrated := [(0x51, 0xabc)] }]

/-- DEFECT, in the tree (blockchain/statebackend `storeCasmHashMetadata` → `ClassCasmHashMetadata.Migrate`
only sets `migratedAt` and keeps the precomputed hash): after a migration whose hash is not the one
juno computed, `CompiledClassHash` on the view of the migration block and on the head answers juno's
own hash 0xb1, while the state diffs — and the class-trie leaf `Update` builds from them — say 0xabc.
Both backends (the metadata is not the state's). -/
theorem casm_migration_foreign_hash_counterexample :
    (run (newBackend Cfg.current) (Node.init (newBackend Cfg.current)) foreignMigrationHistory).map
      (fun nd => (nd.readCasm (newBackend Cfg.current) (.num 1) 0x51, nd.readCasm (newBackend Cfg.current) .head 0x51,
                  casmRes (absAt nd.chain 1) 0x51)) =
      some (some (.ok 0xb1), some (.ok 0xb1), .ok 0xabc) ∧
    (run legacyBackend (Node.init legacyBackend) foreignMigrationHistory).map
      (fun nd => (nd.readCasm legacyBackend (.num 1) 0x51, nd.readCasm legacyBackend .head 0x51)) =
      some (some (.ok 0xb1), some (.ok 0xb1)) := by decide

/-- REGRESSION WITNESS, fixed by 7460746 (core/deprecatedstate `removeDeclaredClasses` now looks at a
repeated hash once). A block that lists a Cairo-0 class twice (`DeclaredV0Classes` is a slice) is
stored by both backends and reverted by the new one; before the fix the legacy backend could not
revert it (the second look-up read the transaction the first had deleted from: "get class …: key
not found"), the tree's legacy backend can. RevertHead is C04's property; recorded here because
the model follows the code on such diffs (`Diff.WF` excludes them). -/
theorem legacy_revert_duplicate_declaration_before_7460746 :
    let ops : List Op := [.store 1 { Diff.empty with declared0 := [0xd100, 0xd100] }, .revert]
    (run (newBackend Cfg.current) (Node.init (newBackend Cfg.current)) ops).isSome = true ∧
    (run (legacyBackendOf false false) (Node.init (legacyBackendOf false false)) (ops.take 1)).isSome = true ∧
    (run (legacyBackendOf false false) (Node.init (legacyBackendOf false false)) ops).isSome = false ∧
    (run legacyBackend (Node.init legacyBackend) ops).isSome = true := by decide

/-! ### round 4: the block store as buckets, the retention floor, further accessors -/

/-- THE BLOCK STORE (any backend). `BNode` keeps what `Store` / `RevertHead` read and write as
buckets — chain height, header by number, state update by number, block commitments, hash index,
transcribed from `verifyBlockSuccession`, `writeBlockContent`, `deleteBlockContent` — where `Node`
keeps a list of blocks. The two run exactly the same histories (the same operation fails on both),
and after every history the buckets hold exactly the list (`Refines`: height = length − 1 or absent,
header / state update / commitments of `k` present iff `k` < length and equal to the list's, same
hash index, same state, same CASM metadata). The driver executes `BNode`; every theorem about
`Node` applies to it through this one and `bucket_node_reads`. -/
theorem block_store_buckets_refine {σ : Type} (be : Backend σ) (ops : List Op) :
    (∀ bn, brun be (BNode.init be) ops = some bn → ∃ nd, run be (Node.init be) ops = some nd ∧ Refines bn nd) ∧
    (∀ nd, run be (Node.init be) ops = some nd → ∃ bn, brun be (BNode.init be) ops = some bn ∧ Refines bn nd) :=
  brun_refines be ops _ _ (refines_init be)

/-- … and through an unseeded retention floor (`blockchain.New` without option) every view of the
bucket-level node answers what the list-level node answers. -/
theorem bucket_node_reads {σ : Type} (be : Backend σ) (ops : List Op) (bn : BNode σ) (nd : Node σ)
    (hb : brun be (BNode.init be) ops = some bn) (hr : run be (Node.init be) ops = some nd) (v : View) :
    bn.resolve be none v = nd.resolve be v ∧
    (∀ q, bn.read be none v q = nd.read be v q) ∧ (∀ c, bn.readCasm be none v c = nd.readCasm be v c) := by
  obtain ⟨nd', hr', hR⟩ := brun_refines_init be ops bn hb
  have : nd' = nd := Option.some.inj (hr'.symm.trans hr)
  subst this
  exact ⟨bresolve_unseeded be bn nd' hR v, bread_unseeded be bn nd' hR v, breadCasm_unseeded be bn nd' hR v⟩

/-- WHICH VIEWS EXIST THROUGH A SEEDED RETENTION FLOOR (any backend; node/node.go always seeds the
floor, so this is the path of a running node). With the floor at `f`, block number `k` has a view
iff `f ≤ k < height` — the new backend decides it on the existence of the header (`k < f`, then the
header read), the legacy backend on the chain height (`k < f`, `k > height`); head and by-hash
views do not consult the floor. A process started on a database that was never pruned seeds the
floor 0 (`OldestRetainedBlock` = first key of the commitments bucket, floor = max(oldest,1) − 1),
and then every view is the view the unseeded path gives (`views_exist`). -/
theorem views_through_seeded_floor {σ : Type} (be : Backend σ) (ops : List Op) (bn : BNode σ)
    (hb : brun be (BNode.init be) ops = some bn) :
    (∀ f k, bn.resolve be (some f) (.num k) =
      if f ≤ k ∧ k < (chainOf ops).length then some (some k) else none) ∧
    (∀ f, bn.resolve be (some f) .head = bn.resolve be none .head) ∧
    (∀ f h, bn.resolve be (some f) (.hash h) = bn.resolve be none (.hash h)) ∧
    bn.seedFloor = 0 ∧
    (OpsFresh ops [] → ∀ v, bn.resolve be (some bn.seedFloor) v = bn.resolve be none v) := by
  obtain ⟨nd, hr, hR⟩ := brun_refines_init be ops bn hb
  have hlen := node_length_chainOf be ops nd hr
  have hs := bresolve_seeded be bn nd hR
  have h0 := seedFloor_unpruned bn nd hR
  refine ⟨fun f k => by rw [(hs f).1 k, hlen], fun f => (hs f).2.1, fun f h => (hs f).2.2 h, h0, ?_⟩
  intro hfr v
  rw [h0]
  cases v with
  | head => exact (hs 0).2.1
  | hash h => exact (hs 0).2.2 h
  | num k =>
    rw [(hs 0).1 k, bresolve_unseeded be bn nd hR]
    have hidx := run_idxInv _ ops _ nd (idxInv_init _) hfr hr
    by_cases hk : k < nd.blocks.length
    · simp [hk, resolve_num be nd hidx k hk]
    · simp [hk, Node.resolve]

/-- READS THROUGH A SEEDED FLOOR, both backends: for every floor `f` and every block `f ≤ n < height`
the view by number answers exactly what the state diffs up to and including block `n` give (no
assumption on the block hashes: this path does not consult the hash index); below the floor there
is no view. (The data below the floor is still there in this model: pruning itself is C16's.) -/
theorem seeded_floor_read_correct (cfg : Cfg) (ops : List Op) (hwf : OpsWF ops) (f n : Nat) (q : Query) (hq : q.ordinary) :
    (∀ bn, brun (newBackend cfg) (BNode.init (newBackend cfg)) ops = some bn →
      bn.read (newBackend cfg) (some f) (.num n) q =
        if f ≤ n ∧ n < (chainOf ops).length then some ((absAt (chainOf ops) n).read q) else none) ∧
    (∀ bn, brun legacyBackend (BNode.init legacyBackend) ops = some bn →
      bn.read legacyBackend (some f) (.num n) q =
        if f ≤ n ∧ n < (chainOf ops).length then some ((absAt (chainOf ops) n).read q) else none) := by
  constructor
  · intro bn hb
    obtain ⟨nd, hr, hR⟩ := brun_refines_init _ ops bn hb
    have hv := (views_through_seeded_floor _ ops bn hb).1 f n
    have hinv := run_invariant (newBackend cfg) (NInv cfg)
      (fun ch s s' d hI hd hu => ninv_store cfg ch s s' d hI hd hu)
      (fun d rest s s' hI hr => ninv_revert cfg d rest s s' hI hr)
      ops (Node.init (newBackend cfg)) nd (ninv_init cfg) hwf hr
    unfold BNode.read
    rw [hv]
    by_cases hc : f ≤ n ∧ n < (chainOf ops).length
    · simp only [hc, and_self, if_true, hR.st]
      rw [← node_chain_chainOf _ ops nd hr]
      exact congrArg some (ninv_histRead cfg nd.chain nd.st hinv n q hq)
    · simp [hc]
  · intro bn hb
    obtain ⟨nd, hr, hR⟩ := brun_refines_init _ ops bn hb
    have hv := (views_through_seeded_floor _ ops bn hb).1 f n
    have hinv := run_invariant legacyBackend LInv
      (fun ch s s' d hI hd hu => linv_store ch s s' d hI hd hu)
      (fun d rest s s' hI hr => linv_revert true d rest s s' hI hr)
      ops (Node.init legacyBackend) nd linv_init hwf hr
    unfold BNode.read
    rw [hv]
    by_cases hc : f ≤ n ∧ n < (chainOf ops).length
    · simp only [hc, and_self, if_true, hR.st]
      rw [← node_chain_chainOf _ ops nd hr]
      exact congrArg some (linv_histRead nd.chain nd.st hinv n q hq)
    · simp [hc]

/-- THE FLOOR OF A PRUNED DATABASE (any backend): when the commitments of the blocks below `m` are
gone (what the pruner leaves in the bucket `Seed` scans; `m` below the height), a process started on
the database seeds the floor `m − 1`: with `views_through_seeded_floor`, the blocks `m − 1 …` are
served, the blocks below are refused. -/
theorem seed_floor_of_pruned_database {σ : Type} (be : Backend σ) (ops : List Op) (bn : BNode σ)
    (hb : brun be (BNode.init be) ops = some bn) (m : Nat) (hm : m < (chainOf ops).length) :
    (bn.dropCommitmentsBelow m).seedFloor = m - 1 ∧
    (∀ fl v, (bn.dropCommitmentsBelow m).resolve be fl v = bn.resolve be fl v) := by
  obtain ⟨nd, hr, hR⟩ := brun_refines_init be ops bn hb
  refine ⟨seedFloor_pruned bn nd hR m (by rw [node_length_chainOf be ops nd hr]; exact hm), ?_⟩
  intro fl v
  cases v <;> rfl

/-- `ContractStorageLastUpdatedBlock` (rpc v10 `getStorageAt` with `include_last_update_block`), on
every view that exists (any floor): NEW backend — the most recent block, up to the view's block,
whose state diff lists the slot (0 when none does); LEGACY backend — the most recent such block whose
write was logged, i.e. that did not write zero to a slot holding zero (`logged`). Heights are below
2^64 (`upTo = MaxUint64` on the head reader). -/
theorem last_updated_block_correct (cfg : Cfg) (ops : List Op) (hwf : OpsWF ops)
    (hlen : (chainOf ops).length ≤ 2 ^ 64) (fl : Option Nat) (v : View) (a : Addr) (k : Slot) :
    (∀ bn w, brun (newBackend cfg) (BNode.init (newBackend cfg)) ops = some bn →
      bn.resolve (newBackend cfg) fl v = some w →
      bn.readLastUpdated NState.lastUpdated (newBackend cfg) fl v a k =
        some (lastBlockWhere (fun d _ => (d.storageAt a k).isSome) (chainOf ops) (w.getD ((chainOf ops).length - 1)))) ∧
    (∀ bn w, brun legacyBackend (BNode.init legacyBackend) ops = some bn →
      bn.resolve legacyBackend fl v = some w →
      bn.readLastUpdated LState.lastUpdated legacyBackend fl v a k =
        some (lastBlockWhere (fun d prev => logged d prev (.storage a k)) (chainOf ops) (w.getD ((chainOf ops).length - 1)))) := by
  have hmax : ∀ (w : Diff → AbsSt → Bool) (x : Option Nat),
      lastBlockWhere w (chainOf ops) (x.getD maxU64) = lastBlockWhere w (chainOf ops) (x.getD ((chainOf ops).length - 1)) := by
    intro w x
    cases x with
    | some n => rfl
    | none =>
      simp only [Option.getD_none]
      apply lastBlockWhere_ge
      · simp only [maxU64]; omega
      · omega
  constructor
  · intro bn w hb hv
    obtain ⟨nd, hr, hR⟩ := brun_refines_init _ ops bn hb
    have hinv := run_invariant (newBackend cfg) (NInv cfg)
      (fun ch s s' d hI hd hu => ninv_store cfg ch s s' d hI hd hu)
      (fun d rest s s' hI hr => ninv_revert cfg d rest s s' hI hr)
      ops (Node.init (newBackend cfg)) nd (ninv_init cfg) hwf hr
    simp only [BNode.readLastUpdated, hv, Option.map_some, NState.lastUpdated, hR.st, hinv.hist,
      node_chain_chainOf _ ops nd hr, histOf_lastUpdated]
    exact congrArg some (hmax _ w)
  · intro bn w hb hv
    obtain ⟨nd, hr, hR⟩ := brun_refines_init _ ops bn hb
    have hinv := run_invariant legacyBackend LInv
      (fun ch s s' d hI hd hu => linv_store ch s s' d hI hd hu)
      (fun d rest s s' hI hr => linv_revert true d rest s s' hI hr)
      ops (Node.init legacyBackend) nd linv_init hwf hr
    simp only [BNode.readLastUpdated, hv, Option.map_some, LState.lastUpdated, hR.st, hinv.logs,
      node_chain_chainOf _ ops nd hr, logsOf_lastUpdated]
    exact congrArg some (hmax _ w)

/-- … so the two backends report the same last-update block for a slot unless some block of the
chain wrote zero to it while it held zero (the new backend records every listed write, the legacy
one only writes `trie.Put` reports as a change): -/
theorem last_updated_block_backends_agree (ch : List Diff) (a : Addr) (k : Slot) (n : Nat)
    (h : ∀ d rest, (d :: rest) <:+ ch → d.storageAt a k = some 0 → (absOf rest).stor a k ≠ 0) :
    lastBlockWhere (fun d _ => (d.storageAt a k).isSome) ch n =
      lastBlockWhere (fun d prev => logged d prev (.storage a k)) ch n := by
  induction ch with
  | nil => rfl
  | cons d rest ih =>
    have ih' := ih (fun d' r' hs => h d' r' (List.IsSuffix.trans hs (List.suffix_cons d rest)))
    simp only [lastBlockWhere, ih']
    have : (d.storageAt a k).isSome = logged d (absOf rest) (.storage a k) := by
      simp only [logged]
      cases hs : d.storageAt a k with
      | none => rfl
      | some x =>
        simp only [Option.isSome_some, ocases_some]
        by_cases hx : x = 0
        · subst hx
          have := h d rest (List.suffix_refl _) hs
          simp [this]
        · simp [hx]
    rw [this]

/-- the difference, on a concrete chain: block 0 deploys 0x104, block 1 lists 0x104[2] = 0 (a
no-op). New backend: last update at block 1; legacy backend: never (0). Not a defect of C03's
property text (the value read is 0 on both); recorded because `last_update_block` of rpc v10
`getStorageAt` depends on the state backend for such a diff. -/
theorem last_updated_block_differs_on_noop_zero_write :
    let ops : List Op := [.store 1 { Diff.empty with deployed := [(0x104, 0xc000)] },
                          .store 2 { Diff.empty with storage := [(0x104, [(2, 0)])] }]
    ((brun (newBackend Cfg.current) (BNode.init (newBackend Cfg.current)) ops).bind
        (fun bn => bn.readLastUpdated NState.lastUpdated (newBackend Cfg.current) (some 0) .head 0x104 2),
     (brun legacyBackend (BNode.init legacyBackend) ops).bind
        (fun bn => bn.readLastUpdated LState.lastUpdated legacyBackend (some 0) .head 0x104 2)) = (some 1, some 0) := by
  decide

/-- `CompiledClassHashV2` (what the VM asks for), any backend, on every view that exists — head or
historical, the block of a historical reader is not consulted: the blake2s compiled class hash that
came with the declaration of the class in the node's chain (`v2Of`: the declared hash when declared
under protocol ≥ 0.14.1, else the hash juno precomputed), not-found for a class the chain does not
declare. Round 5: the hypothesis on the hashes migrations carry (`MigOwnHash`, needed by
`casm_read_partial`) is GONE — the record does not depend on them (`ProofsCasmV2.lean`: the metadata
invariant without that clause); what remains is the input well-formedness `CasmStep` (a Sierra class is
declared once, migrations only under protocol ≥ 0.14.1 and not of a class the same diff declares).
Replaces `casm_v2_read_partial`. -/
theorem casm_v2_read_correct {σ : Type} (be : Backend σ) (hmf : be.migFix = false) (ops : List Op) (bn : BNode σ)
    (hb : brun be (BNode.init be) ops = some bn)
    (hok : OpsOK (fun ch d => CasmStep ch d) ops []) (fl : Option Nat) (v : View) (c : CHash)
    (hv : (bn.resolve be fl v).isSome = true) :
    bn.readCasmV2 be fl v c = some (match v2Of (chainOf ops) c with | some x => .ok x | none => .notfound) := by
  obtain ⟨nd, hr, hR⟩ := brun_refines_init be ops bn hb
  have hinv := run_minvw be hmf ops (Node.init be) nd minvw_init hok hr
  obtain ⟨w, hw⟩ := Option.isSome_iff_exists.mp hv
  simp only [BNode.readCasmV2, hw, hR.casm, hinv.recs c, ← node_chain_chainOf be ops nd hr, ← metaOf_v2]
  cases metaOf nd.chain c <;> rfl

/-- HISTORY KEYS (db/schema.go `*HistoryAtBlockKey` = prefix ++ big-endian uint64): for block numbers
below 2^64, `bytes.Compare` orders the keys of one prefix as the block numbers, every key extends
the prefix by 8 bytes, and starts with it — the entries a prefix iterator yields are the entries of
that (contract[, slot]) in ascending block order (what `Hist` models). -/
theorem history_key_order (pfx : List Nat) (n m : Nat) (hn : n < 2 ^ 64) (hm : m < 2 ^ 64) :
    bytesLt (histKey pfx n) (histKey pfx m) = decide (n < m) ∧
    (histKey pfx n).length = pfx.length + 8 ∧ (histKey pfx n).take pfx.length = pfx := by
  refine ⟨?_, by simp [histKey, beBytes_length], by simp [histKey]⟩
  unfold histKey
  rw [bytesLt_append_left]
  exact beBytes_lt 8 n m (by simpa using hn) (by simpa using hm)

/-! ### round 5: keys at the byte level — `UpperBound`, prefix range deletes, prefix-bounded iterators -/

/-- `UpperBound` IS EXACT (db/dbutils/bound.go, the helper behind every prefix-bounded iterator and every
prefix `DeleteRange`): the loop as written computes `upperBound`, and for EVERY prefix `p` — also one that
ends in bytes 0xff, where the bound needs the carry into the byte before the run, and one made of 0xff
only, which has no bound — a byte string lies in `[p, UpperBound p)` iff it starts with `p`. So the bound
is above every key with the prefix and nothing else is below it (it is the least such bound). -/
theorem upper_bound_exact (p k : Key) (hk : Bytes k) :
    upperBoundLoop p = upperBound p ∧ (inPrefixRange p k = true ↔ p <+: k) :=
  ⟨upperBoundLoop_eq p, inPrefixRange_iff p k hk⟩

/-- … stated as the helper's doc comment puts it ("the next possible prefix after the given prefix
bytes"): when `UpperBound p` exists it is above every byte string that starts with `p`, and it is the
LEAST such byte string. -/
theorem upper_bound_least (p u : Key) (hp : Bytes p) (hu : upperBound p = some u) :
    (∀ k, Bytes k → p <+: k → bytesLt k u = true) ∧
    (∀ v, Bytes v → (∀ k, Bytes k → p <+: k → bytesLt k v = true) → bytesLt v u = false) :=
  upperBound_least p u hp hu

/-- A PREFIX RANGE DELETE AND A PREFIX-BOUNDED SCAN TOUCH EXACTLY THE KEYS WITH THE PREFIX, on any store:
`DeleteRange(p, UpperBound(p))` leaves exactly the entries whose key does not start with `p`, and
`NewIterator(p, true)` yields exactly the entries whose key starts with `p`. -/
theorem prefix_delete_and_scan_exact (s : KV) (p : Key) (hs : ∀ e ∈ s, Bytes e.1) :
    s.deleteRange p (upperBound p) = s.filter (fun e => !hasPrefix p e.1) ∧
    (∀ x, x ∈ s.iter p ↔ x ∈ s ∧ p <+: x.1) :=
  ⟨deleteRange_prefix s p hs, iter_mem s p hs⟩

/-- what goes wrong with a bound that is above every key with the prefix but not the least one (the
incremented byte followed by the old tail, `[1,2,0xff] ↦ [1,3,0xff]`): the range of prefix `[1,2,0xff]`
then also holds the key `[1,3]` and the key `[1,3,0x07]` of OTHER prefixes — a range delete of one
contract's nodes takes a neighbour's with it. -/
theorem non_least_bound_counterexample :
    inRange [1, 2, 255] (some [1, 3, 255]) [1, 3] = true ∧ inRange [1, 2, 255] (some [1, 3, 255]) [1, 3, 7] = true ∧
    hasPrefix [1, 2, 255] [1, 3] = false ∧ inPrefixRange [1, 2, 255] [1, 3] = false ∧
    KV.deleteRange [([1, 2, 255, 0], 5), ([1, 3, 7], 6)] [1, 2, 255] (some [1, 3, 255]) = [] ∧
    KV.deleteRange [([1, 2, 255, 0], 5), ([1, 3, 7], 6)] [1, 2, 255] (upperBound [1, 2, 255]) = [([1, 3, 7], 6)] := by
  decide

/-- PURGING ONE CONTRACT'S STORAGE NODES TOUCHES NO OTHER CONTRACT (core/state `flush` →
trieutils `DeleteStorageNodesByPath`: `DeleteRange(p, UpperBound(p))`, `p` = bucket byte ++ the 32 bytes
of the address; node keys are `p` ++ node type ++ path): on the encoded nodes of all storage tries the
range delete for address `a` removes exactly the nodes of `a` — every address a felt, whatever bytes
it ends in. -/
theorem contract_purge_touches_only_owner (bk : BucketIds) (t : Bucket Addr (List (Key × Val))) (a : Addr)
    (ha : a < 2 ^ 256) (h : TriesWF bk t) :
    (encodeTries bk t).deleteRange (ownerPrefix bk a) (upperBound (ownerPrefix bk a)) =
      encodeTries bk (t.filter (fun p => !decide (p.1 = a))) :=
  purge_owner_exact bk t a ha h

/-- … and this is what the model of `Revert` does to the leaf nodes the head reader fetches
(`deleteContracts`: `leaves[a] := []` per deployed contract): on the encoded leaves it equals one
`DeleteStorageNodesByPath` per contract the reverted block deployed. -/
theorem revert_purge_is_range_deletes (bk : BucketIds) (hb : bk.trieStorage < 256)
    (x : Bucket Addr Contract × Bucket Addr Leaves × Bucket Addr Leaves) (l : List (Addr × CHash))
    (h : OwnersOK x.2.2) (hl : ∀ p ∈ l, p.1 < 2 ^ 256) :
    encodeLeaves bk (deleteContracts x l).2.2 = purgeOwners bk (encodeLeaves bk x.2.2) (l.map (·.1)) :=
  deleteContracts_is_range_deletes bk hb x l h hl

/-- THE PER-PREFIX LISTS OF THE MODEL ARE WHAT A BOUNDED ITERATOR SEES, in every reachable state of the
new backend. After any history whose diffs mention felts only (block numbers below 2^64), with the three
history buckets under three different bucket bytes: the iterator over the key prefix of a contract
[and slot] yields exactly the entries of `lget hist key`, in that order, under the keys
`prefix ++ be64 block`; `valueAt` and `lastUpdatedBlockNumber` executed on those bytes (seek key
`prefix ++ be64 n`, the 8 bytes after the prefix compared with `n`, `Prev`) return what `newValueAt` /
`lastUpdatedOf` return on the list — the functions all read theorems above are about. The ordered-store
assumption of earlier rounds is reduced to: an iterator yields the keys of `[p, UpperBound p)`, sorted. -/
theorem history_readers_on_bytes (cfg : Cfg) (ops : List Op) (nd : Node NState)
    (hrun : run (newBackend cfg) (Node.init (newBackend cfg)) ops = some nd)
    (hok : OpsOK (fun ch d => d.Felts ∧ ch.length < 2 ^ 64) ops [])
    (bk : BucketIds) (hb : bk.HistOK) (key : HKey) (hk : key.Felts) (n : Nat) (hn : n < 2 ^ 64) :
    (encodeHist bk nd.st.hist).iter (hkeyBytes bk key) = encEntries bk key (lget nd.st.hist key) ∧
    valueAtBytes (encodeHist bk nd.st.hist) (hkeyBytes bk key) n = newValueAt (lget nd.st.hist key) n ∧
    lastUpdatedBytes (encodeHist bk nd.st.hist) (hkeyBytes bk key) n = lastUpdatedOf (lget nd.st.hist key) n := by
  have hI := run_invariant' (newBackend cfg) KeysInv (fun ch d => d.Felts ∧ ch.length < 2 ^ 64)
    (fun ch s s' d hI hP hu => keysInv_store cfg ch s s' d hI hP hu)
    (fun d rest s s' hI hr => keysInv_revert cfg d rest s s' hI hr)
    ops (Node.init (newBackend cfg)) nd keysInv_init hok hrun
  exact ⟨iter_encodeHist bk hb key hk _ hI.1, valueAtBytes_eq bk hb key hk _ hI.1 n hn,
    lastUpdatedBytes_eq bk hb key hk _ hI.1 n hn⟩

/-- THE LEGACY LOG BUCKETS ON BYTES (Deprecated*History; `bk` = their three bucket bytes): in every reachable
state of the legacy backend a bounded iterator over the key prefix of a contract [and slot] yields exactly
the log entries of `lget logs key`, in order, and `lastUpdatedBlockNumber` (the one legacy reader that uses
a prefix-bounded iterator with `Seek` / `Prev`; `valueAt` walks with `Next` and re-checks the prefix) on
those bytes is `lastUpdatedOf` on the list. -/
theorem legacy_logs_on_bytes (ops : List Op) (nd : Node LState)
    (hrun : run legacyBackend (Node.init legacyBackend) ops = some nd)
    (hok : OpsOK (fun ch d => d.Felts ∧ ch.length < 2 ^ 64) ops [])
    (bk : BucketIds) (hb : bk.HistOK) (key : HKey) (hk : key.Felts) (n : Nat) (hn : n < 2 ^ 64) :
    (encodeHist bk nd.st.logs).iter (hkeyBytes bk key) = encEntries bk key (lget nd.st.logs key) ∧
    lastUpdatedBytes (encodeHist bk nd.st.logs) (hkeyBytes bk key) n = lastUpdatedOf (lget nd.st.logs key) n := by
  have hI := run_invariant' legacyBackend KeysInvL (fun ch d => d.Felts ∧ ch.length < 2 ^ 64)
    (fun ch s s' d hI hP hu => keysInvL_store ch s s' d hI hP hu)
    (fun d rest s s' hI hr => keysInvL_revert d rest s s' hI hr)
    ops (Node.init legacyBackend) nd keysInvL_init hok hrun
  exact ⟨iter_encodeHist bk hb key hk _ hI.1, lastUpdatedBytes_eq bk hb key hk _ hI.1 n hn⟩

/-- … and in every such state the purge of a contract (a felt address) is the range delete on the
encoded leaf nodes, and leaves the leaf nodes of every other contract — what head storage reads
return — as they are. -/
theorem storage_purge_on_bytes (cfg : Cfg) (ops : List Op) (nd : Node NState)
    (hrun : run (newBackend cfg) (Node.init (newBackend cfg)) ops = some nd)
    (hok : OpsOK (fun ch d => d.Felts ∧ ch.length < 2 ^ 64) ops [])
    (bk : BucketIds) (hb : bk.trieStorage < 256) (a : Addr) (ha : a < 2 ^ 256) :
    (encodeLeaves bk nd.st.leaves).deleteRange (ownerPrefix bk a) (upperBound (ownerPrefix bk a)) =
      encodeLeaves bk (lset nd.st.leaves a []) ∧
    ∀ a' k, a' ≠ a → tget (lget (lset nd.st.leaves a []) a') k = tget (lget nd.st.leaves a') k := by
  have hI := run_invariant' (newBackend cfg) KeysInv (fun ch d => d.Felts ∧ ch.length < 2 ^ 64)
    (fun ch s s' d hI hP hu => keysInv_store cfg ch s s' d hI hP hu)
    (fun d rest s s' hI hr => keysInv_revert cfg d rest s s' hI hr)
    ops (Node.init (newBackend cfg)) nd keysInv_init hok hrun
  refine ⟨leaves_purge_is_range_delete bk _ a ha hb hI.2.2.2, ?_⟩
  intro a' k hne
  rw [lget_lset]
  simp [hne]

/-! ### round 5: the RPC handlers (where the property is observed) -/

/-- THE RPC METHODS, both backends (rpc v9 — also v8 — and v10 `starknet_getStorageAt`, `getNonce`,
`getClassHashAt`; handlers over a node built by `blockchain.New`): after any history, for every
contract address that is not a system contract and every slot:
* block id = number `n` of a retained block: the value the state diffs up to and including block `n`
  give, CONTRACT_NOT_FOUND when the contract does not exist at block `n`;
* block id = latest: the same for the head — here the handlers' class-hash probe (v9: always first;
  v10: for a zero value on latest) supplies the not-found that the head reader's `ContractStorage`
  does not (`new_head_read_correct`): on the RPC level the property's "contracts that did not yet
  exist are reported as not found" holds at the head as well, the named weakening of
  checks/c03.json concerns the `core.StateReader` interface only;
* a number above the head: BLOCK_NOT_FOUND.
v9 and v10 answer alike. (System contracts: `getNonce` / `getClassHashAt` answer CONTRACT_NOT_FOUND by
construction; `getStorageAt` follows the existence theorems above.) -/
theorem rpc_reads_correct (cfg : Cfg) (hfix : cfg.leafFix = true) (ops : List Op) (hwf : OpsWF ops) (hfr : OpsFresh ops [])
    (a : Addr) (ha : isSystem a = false) (k : Slot) :
    (∀ bn, brun (newBackend cfg) (BNode.init (newBackend cfg)) ops = some bn →
      (∀ n, n < (chainOf ops).length →
        bn.rpcStorageV9 (newBackend cfg) none (.num n) a k = rpcSpec (absAt (chainOf ops) n) (.storage a k) ∧
        bn.rpcStorageV10 (newBackend cfg) none (.num n) a k = rpcSpec (absAt (chainOf ops) n) (.storage a k) ∧
        bn.rpcNonce (newBackend cfg) none (.num n) a = rpcSpec (absAt (chainOf ops) n) (.nonce a) ∧
        bn.rpcClassHashAt (newBackend cfg) none (.num n) a = rpcSpec (absAt (chainOf ops) n) (.classHash a)) ∧
      (chainOf ops ≠ [] →
        bn.rpcStorageV9 (newBackend cfg) none .head a k = rpcSpec (absOf (chainOf ops)) (.storage a k) ∧
        bn.rpcStorageV10 (newBackend cfg) none .head a k = rpcSpec (absOf (chainOf ops)) (.storage a k) ∧
        bn.rpcNonce (newBackend cfg) none .head a = rpcSpec (absOf (chainOf ops)) (.nonce a) ∧
        bn.rpcClassHashAt (newBackend cfg) none .head a = rpcSpec (absOf (chainOf ops)) (.classHash a)) ∧
      (∀ n, (chainOf ops).length ≤ n →
        bn.rpcStorageV9 (newBackend cfg) none (.num n) a k = .blockNotFound ∧
        bn.rpcStorageV10 (newBackend cfg) none (.num n) a k = .blockNotFound ∧
        bn.rpcNonce (newBackend cfg) none (.num n) a = .blockNotFound ∧
        bn.rpcClassHashAt (newBackend cfg) none (.num n) a = .blockNotFound)) ∧
    (∀ bn, brun legacyBackend (BNode.init legacyBackend) ops = some bn →
      (∀ n, n < (chainOf ops).length →
        bn.rpcStorageV9 legacyBackend none (.num n) a k = rpcSpec (absAt (chainOf ops) n) (.storage a k) ∧
        bn.rpcStorageV10 legacyBackend none (.num n) a k = rpcSpec (absAt (chainOf ops) n) (.storage a k) ∧
        bn.rpcNonce legacyBackend none (.num n) a = rpcSpec (absAt (chainOf ops) n) (.nonce a) ∧
        bn.rpcClassHashAt legacyBackend none (.num n) a = rpcSpec (absAt (chainOf ops) n) (.classHash a)) ∧
      (chainOf ops ≠ [] →
        bn.rpcStorageV9 legacyBackend none .head a k = rpcSpec (absOf (chainOf ops)) (.storage a k) ∧
        bn.rpcStorageV10 legacyBackend none .head a k = rpcSpec (absOf (chainOf ops)) (.storage a k) ∧
        bn.rpcNonce legacyBackend none .head a = rpcSpec (absOf (chainOf ops)) (.nonce a) ∧
        bn.rpcClassHashAt legacyBackend none .head a = rpcSpec (absOf (chainOf ops)) (.classHash a)) ∧
      (∀ n, (chainOf ops).length ≤ n →
        bn.rpcStorageV9 legacyBackend none (.num n) a k = .blockNotFound ∧
        bn.rpcStorageV10 legacyBackend none (.num n) a k = .blockNotFound ∧
        bn.rpcNonce legacyBackend none (.num n) a = .blockNotFound ∧
        bn.rpcClassHashAt legacyBackend none (.num n) a = .blockNotFound)) := by
  constructor
  · intro bn hb
    obtain ⟨nd, hr, hR⟩ := brun_refines_init _ ops bn hb
    have hinv := run_invariant (newBackend cfg) (NInv cfg)
      (fun ch s s' d hI hd hu => ninv_store cfg ch s s' d hI hd hu)
      (fun d rest s s' hI hr => ninv_revert cfg d rest s s' hI hr)
      ops (Node.init (newBackend cfg)) nd (ninv_init cfg) hwf hr
    apply rpc_from_reads (newBackend cfg) ops bn nd hR (node_chain_chainOf _ ops nd hr) a ha k
    · intro n hn q hq; exact new_read_correct cfg ops nd hr hwf hfr n hn q hq
    · intro hne
      have hh := new_head_read_correct cfg ops nd hr hwf hne
      exact ⟨(hh.1 a ha).1, (hh.1 a ha).2, hh.2.2 hfix a k⟩
    · exact hinv.undep.head
  · intro bn hb
    obtain ⟨nd, hr, hR⟩ := brun_refines_init _ ops bn hb
    have hinv := run_invariant legacyBackend LInv
      (fun ch s s' d hI hd hu => linv_store ch s s' d hI hd hu)
      (fun d rest s s' hI hr => linv_revert true d rest s s' hI hr)
      ops (Node.init legacyBackend) nd linv_init hwf hr
    apply rpc_from_reads legacyBackend ops bn nd hR (node_chain_chainOf _ ops nd hr) a ha k
    · intro n hn q hq; exact legacy_read_correct ops nd hr hwf hfr n hn q hq
    · intro hne
      have hh := legacy_head_read_correct ops nd hr hwf hne
      exact ⟨(hh.1 a ha).1, (hh.1 a ha).2, hh.2.2 a k⟩
    · exact hinv.undep.head

/-! ### non-vacuity: the hypotheses are satisfiable by histories that exercise the encodings -/

/-- deploy + write, overwrite + nonce, replace class, revert, write again: runs, is well-formed,
and its historical answers differ from the head's -/
def exampleHistory : List Op :=
  [.store 1 { Diff.empty with storage := [(0x104, [(2, 5)])], deployed := [(0x104, 0xc000)], declared0 := [0xd100] },
   .store 2 { Diff.empty with storage := [(0x104, [(2, 6), (3, 0)])], nonces := [(0x104, 1)] },
   .store 3 { Diff.empty with replaced := [(0x104, 0xc001)], storage := [(1, [(7, 9)])] },
   .revert,
   .store 4 { Diff.empty with storage := [(0x104, [(2, 0)])], nonces := [(0x104, 2)] }]

/-- the example history meets the well-formedness hypothesis -/
example : OpsWF exampleHistory := by
  intro id d hm
  apply Diff.wfb_sound
  simp only [exampleHistory, List.mem_cons, List.not_mem_nil, or_false, Op.store.injEq, reduceCtorEq, false_or] at hm
  rcases hm with h | h | h | h <;> (obtain ⟨_, rfl⟩ := h; decide)

example : OpsFresh exampleHistory [] := by simp [exampleHistory, OpsFresh]

/-- … and every block of it is valid on top of the chain below it (hypothesis of `valid_history_runs`) -/
example : OpsValid exampleHistory [] := by
  have noCasm : ∀ (ch : List Diff) (d : Diff), d.declared1 = [] → d.migrated = [] →
      CasmStep ch d ∧ (d.v2 = true → ∀ p ∈ d.migrated, ∃ mt, metaOf ch p.1 = some mt ∧ mt.migratedAt = 0 ∧
        mt.v1.isSome = true ∧ mt.declaredAt < ch.length) ∧ MigOwnHash ch d := by
    intro ch d h1 h2
    refine ⟨⟨by simp [h1], by simp [h2], by simp [h1], by simp [h1], fun _ => h2⟩, ?_, ?_⟩
    · intro _ p hp; rw [h2] at hp; cases hp
    · intro p hp; rw [h2] at hp; cases hp
  simp only [exampleHistory, OpsValid, List.tail_cons, and_true]
  refine ⟨?_, ?_, ?_, by decide, ?_⟩
  all_goals
    first
    | exact ⟨Diff.wfb_sound _ (by decide), by decide, by decide, by decide, by decide,
        (noCasm _ _ rfl rfl).1, (noCasm _ _ rfl rfl).2.1, (noCasm _ _ rfl rfl).2.2⟩

/-- … and the no-drain hypothesis (block 3 writes to the system contract 0x1 and leaves it non-empty) -/
example : OpsOK (fun ch d => d.WF ∧ NoDrainStep ch d) exampleHistory [] := by
  have noSysKeys : ∀ (ch : List Diff) (d : Diff), (∀ a ∈ d.storage.map (·.1), isSystem a = false) → NoDrainStep ch d := by
    intro ch d h a ha hk _
    rw [h a hk] at ha; cases ha
  simp only [exampleHistory, OpsOK, List.tail_cons, and_true]
  refine ⟨⟨Diff.wfb_sound _ (by decide), noSysKeys _ _ (by decide)⟩, ⟨Diff.wfb_sound _ (by decide), noSysKeys _ _ (by decide)⟩,
    ⟨Diff.wfb_sound _ (by decide), ?_⟩, ⟨Diff.wfb_sound _ (by decide), noSysKeys _ _ (by decide)⟩⟩
  intro a _ _ _
  simp only [List.map_cons, List.map_nil, List.mem_singleton] at *
  subst_vars
  exact ⟨7, by decide⟩

example : (run (newBackend Cfg.repaired) (Node.init (newBackend Cfg.repaired)) exampleHistory).map
    (fun nd => (nd.blocks.length,
      [nd.read (newBackend Cfg.repaired) (.num 0) (.storage 0x104 2),
       nd.read (newBackend Cfg.repaired) (.num 1) (.storage 0x104 2),
       nd.read (newBackend Cfg.repaired) .head (.storage 0x104 2),
       nd.read (newBackend Cfg.repaired) (.num 0) (.nonce 0x104),
       nd.read (newBackend Cfg.repaired) (.num 0) (.classHash 0x105),
       nd.read (newBackend Cfg.repaired) (.hash 3) (.nonce 0x104)])) =
    some (3, [some (.ok 5), some (.ok 6), some (.ok 0), some (.ok 0), some .notfound, none]) := by decide

example : (run legacyBackend (Node.init legacyBackend) exampleHistory).map
    (fun nd => (nd.blocks.length,
      [nd.read legacyBackend (.num 0) (.storage 0x104 2),
       nd.read legacyBackend (.num 1) (.storage 0x104 2),
       nd.read legacyBackend .head (.storage 0x104 2),
       nd.read legacyBackend (.num 0) (.nonce 0x104),
       nd.read legacyBackend (.num 0) (.classHash 0x105),
       nd.read legacyBackend (.hash 3) (.nonce 0x104)])) =
    some (3, [some (.ok 5), some (.ok 6), some (.ok 0), some (.ok 0), some .notfound, none]) := by decide

/-- block 0 declares Sierra class 0x51 under protocol < 0.14.1 (compiled hash 0xa1, blake2s hash
0xb1); block 1 (≥ 0.14.1) migrates it and declares 0x52 with its blake2s hash; then a revert and a
re-application -/
def casmHistory : List Op :=
  [.store 1 { Diff.empty with declared1 := [⟨0x51, 0xa1, 0xb1⟩] },
   .store 2 { Diff.empty with v2 := true, migrated := [(0x51, 0xb1)], declared1 := [⟨0x52, 0xb2, 0xb2⟩] },
   .revert,
   .store 3 { Diff.empty with v2 := true, migrated := [(0x51, 0xb1)] }]

example : OpsOK (fun ch d => CasmStep ch d ∧ MigOwnHash ch d) casmHistory [] := by
  simp only [casmHistory, OpsOK, List.tail_cons, and_true]
  refine ⟨⟨⟨by decide, by decide, by decide, by decide, by decide⟩, by intro p hp; cases hp⟩,
    ⟨⟨by decide, by decide, by decide, by decide, by decide⟩, ?_⟩,
    ⟨⟨by decide, by decide, by decide, by decide, by decide⟩, ?_⟩⟩
  all_goals
    intro p hp dd hdd x hx he
    simp only [List.mem_singleton] at hp hdd
    subst hp hdd
    simp only [List.mem_singleton] at hx
    subst hx
    rfl

example : OpsFresh casmHistory [] := by simp [casmHistory, OpsFresh]

example : (run legacyBackend (Node.init legacyBackend) casmHistory).map
    (fun nd => [nd.readCasm legacyBackend (.num 0) 0x51, nd.readCasm legacyBackend (.num 1) 0x51,
                nd.readCasm legacyBackend .head 0x51,
                nd.readCasm legacyBackend (.num 0) 0x52, nd.readCasm legacyBackend .head 0x52]) =
    some [some (.ok 0xa1), some (.ok 0xb1), some (.ok 0xb1), some .notfound, some .notfound] := by decide

/-- a system slot that survives: block 0 sets 0x1[2] = 5, block 1 overwrites it with 6 and sets
0x1[3] = 7, block 2 (a block hash used before, after its revert) touches something else -/
def systemHistory : List Op :=
  [.store 1 { Diff.empty with storage := [(1, [(2, 5)])] },
   .store 2 { Diff.empty with storage := [(1, [(2, 6), (3, 7)])] },
   .store 3 { Diff.empty with storage := [(1, [(3, 0)])] },
   .revert,
   .store 3 { Diff.empty with storage := [(2, [(9, 1)])] }]

/-- the hypotheses of `new_system_storage_read_nodrain_partial` / `new_system_existence_nodrain`
are jointly satisfiable with `hnz`: the history is no-drain and fresh, and in the final chain the
slot 0x1[2] is 5 at block 0 (read at the earlier block), 6 at blocks 1 and 2 -/
example : OpsOK (fun ch d => d.WF ∧ NoDrainStep ch d) systemHistory [] ∧ OpsFresh systemHistory [] ∧
    (absAt (chainOf systemHistory) 0).stor 1 2 = 5 ∧ (absAt (chainOf systemHistory) 2).stor 1 2 = 6 := by
  refine ⟨?_, by simp [systemHistory, OpsFresh], by decide, by decide⟩
  simp only [systemHistory, OpsOK, List.tail_cons, and_true]
  refine ⟨⟨Diff.wfb_sound _ (by decide), ?_⟩, ⟨Diff.wfb_sound _ (by decide), ?_⟩,
    ⟨Diff.wfb_sound _ (by decide), ?_⟩, ⟨Diff.wfb_sound _ (by decide), ?_⟩⟩
  · intro a _ hk _
    simp only [List.map_cons, List.map_nil, List.mem_singleton] at hk
    subst hk; exact ⟨2, by decide⟩
  · intro a _ hk _
    simp only [List.map_cons, List.map_nil, List.mem_singleton] at hk
    subst hk; exact ⟨2, by decide⟩
  · intro a _ hk _
    simp only [List.map_cons, List.map_nil, List.mem_singleton] at hk
    subst hk; exact ⟨2, by decide⟩
  · intro a _ hk _
    simp only [List.map_cons, List.map_nil, List.mem_singleton] at hk
    subst hk; exact ⟨9, by decide⟩

example : (run legacyBackend (Node.init legacyBackend) systemHistory).map
    (fun nd => [nd.read legacyBackend (.num 0) (.classHash 1), nd.read legacyBackend (.num 2) (.nonce 1),
                nd.read legacyBackend (.num 0) (.classHash 2), nd.read legacyBackend (.num 2) (.nonce 2),
                nd.read legacyBackend .head (.classHash 2)]) =
    some [some (.ok 0), some (.ok 0), some .notfound, some (.ok 0), some (.ok 0)] := by decide

example : (run (newBackend Cfg.current) (Node.init (newBackend Cfg.current)) systemHistory).map
    (fun nd => [nd.read (newBackend Cfg.current) (.num 0) (.storage 1 2),
                nd.read (newBackend Cfg.current) (.num 1) (.storage 1 2),
                nd.read (newBackend Cfg.current) (.num 0) (.classHash 1),
                nd.read (newBackend Cfg.current) (.num 0) (.classHash 2),
                nd.read (newBackend Cfg.current) (.num 2) (.nonce 2),
                nd.read (newBackend Cfg.current) (.hash 3) (.storage 2 9),
                nd.read (newBackend Cfg.current) (.hash 4) (.storage 2 9)]) =
    some [some (.ok 5), some (.ok 6), some (.ok 0), some .notfound, some (.ok 0), some (.ok 1), none] := by decide

/-! ### non-vacuity of the round-4 statements -/

/-- the example history on the bucket-level node: it runs on both backends; the process seeds floor 0;
after the commitments below 2 are dropped a new process seeds floor 1 -/
example : (brun (newBackend Cfg.current) (BNode.init (newBackend Cfg.current)) exampleHistory).map
    (fun bn => [bn.seedFloor, (bn.dropCommitmentsBelow 2).seedFloor]) = some [0, 1] := by decide

/-- with the floor at 1 block 0 has no view and block 1 has one; a number above the head has none -/
example : (brun (newBackend Cfg.current) (BNode.init (newBackend Cfg.current)) exampleHistory).map
    (fun bn =>
      [bn.resolve (newBackend Cfg.current) (some 0) (.num 2), bn.resolve (newBackend Cfg.current) (some 1) (.num 0),
       bn.resolve (newBackend Cfg.current) (some 1) (.num 1), bn.resolve (newBackend Cfg.current) (some 0) (.num 3),
       bn.resolve (newBackend Cfg.current) none (.num 3), bn.resolve (newBackend Cfg.current) (some 2) .head]) =
    some [some (some 2), none, some (some 1), none, none, some none] := by decide

example : (brun (newBackend Cfg.current) (BNode.init (newBackend Cfg.current)) exampleHistory).map
    (fun bn =>
      [bn.read (newBackend Cfg.current) (some 1) (.num 1) (.storage 0x104 2),
       bn.read (newBackend Cfg.current) (some 1) (.num 0) (.storage 0x104 2)]) =
    some [some (.ok 6), none] := by decide

/-- the slot 0x104[2] was last written at block 2 (head) / 1 (view of block 1) / 0 (view of block 0),
0x105[9] never; no view, no answer -/
example : (brun (newBackend Cfg.current) (BNode.init (newBackend Cfg.current)) exampleHistory).map
    (fun bn =>
      [bn.readLastUpdated NState.lastUpdated (newBackend Cfg.current) (some 0) .head 0x104 2,
       bn.readLastUpdated NState.lastUpdated (newBackend Cfg.current) (some 0) (.num 1) 0x104 2,
       bn.readLastUpdated NState.lastUpdated (newBackend Cfg.current) none (.num 0) 0x104 2,
       bn.readLastUpdated NState.lastUpdated (newBackend Cfg.current) none .head 0x105 9,
       bn.readLastUpdated NState.lastUpdated (newBackend Cfg.current) none (.num 7) 0x104 2]) =
    some [some 2, some 1, some 0, some 0, none] := by decide

example : (brun legacyBackend (BNode.init legacyBackend) exampleHistory).map
    (fun bn =>
      [bn.resolve legacyBackend (some 0) (.num 2), bn.resolve legacyBackend (some 1) (.num 0),
       bn.resolve legacyBackend (some 0) (.num 3), bn.resolve legacyBackend none (.hash 4), bn.resolve legacyBackend none (.hash 3)]) =
    some [some (some 2), none, none, some (some 2), none] := by decide

/-- legacy backend: 0x104[3] = 0 written at block 1 to an unset slot leaves no log -/
example : (brun legacyBackend (BNode.init legacyBackend) exampleHistory).map
    (fun bn =>
      [bn.readLastUpdated LState.lastUpdated legacyBackend (some 0) .head 0x104 2,
       bn.readLastUpdated LState.lastUpdated legacyBackend (some 0) (.num 1) 0x104 2,
       bn.readLastUpdated LState.lastUpdated legacyBackend (some 0) .head 0x104 3]) =
    some [some 2, some 1, some 0] := by decide

example : (chainOf exampleHistory).length ≤ 2 ^ 64 := by decide

/-- `CompiledClassHashV2` on the CASM example: class 0x51 (declared under < 0.14.1, blake2s hash 0xb1)
answers 0xb1 on every view, also on the view of block 0 after the migration; 0x52 was reverted -/
example : (brun legacyBackend (BNode.init legacyBackend) casmHistory).map
    (fun bn => [bn.readCasmV2 legacyBackend (some 0) (.num 0) 0x51, bn.readCasmV2 legacyBackend none .head 0x51,
                bn.readCasmV2 legacyBackend none .head 0x52, bn.readCasmV2 legacyBackend none (.num 5) 0x51]) =
    some [some (.ok 0xb1), some (.ok 0xb1), some .notfound, none] := by decide

/-- `casm_v2_read_correct` needs no hypothesis on the migrated hash: the history with the FOREIGN
migration hash (0xabc, juno's own is 0xb1) meets `CasmStep`, and `CompiledClassHashV2` answers 0xb1 -/
example : OpsOK (fun ch d => CasmStep ch d) foreignMigrationHistory [] ∧
    (brun legacyBackend (BNode.init legacyBackend) foreignMigrationHistory).map
      (fun bn => bn.readCasmV2 legacyBackend none .head 0x51) = some (some (.ok 0xb1)) := by
  refine ⟨?_, by decide⟩
  simp only [foreignMigrationHistory, OpsOK, and_true]
  exact ⟨⟨by decide, by decide, by decide, by decide, by decide⟩, ⟨by decide, by decide, by decide, by decide, by decide⟩⟩

example : histKey [7, 1] 255 = [7, 1, 0, 0, 0, 0, 0, 0, 0, 255] ∧ histKey [7, 1] 256 = [7, 1, 0, 0, 0, 0, 0, 0, 1, 0] ∧
    bytesLt (histKey [7] 255) (histKey [7] 256) = true ∧ bytesLt (histKey [7] (2 ^ 32)) (histKey [7] (2 ^ 32 - 1)) = false := by
  decide

/-- `legacy_system_absent_noempty`: the blocks that created 0x1 (block 1) and 0x2 (block 2) are
reverted, the chain grows again to height 4 without touching them, then block 4 creates 0x1 anew —
every block lists system contracts only with non-zero slots; 0x1 is absent at blocks 1..3 and exists
from block 4, 0x2 is absent everywhere -/
def sysRevertHistory : List Op :=
  [.store 1 { Diff.empty with deployed := [(0x104, 0xc000)] },
   .store 2 { Diff.empty with storage := [(1, [(2, 5)])] },
   .store 3 { Diff.empty with storage := [(2, [(3, 1)])] },
   .revert, .revert,
   .store 4 { Diff.empty with storage := [(0x104, [(2, 2)])] },
   .store 5 Diff.empty,
   .store 6 { Diff.empty with nonces := [(0x104, 1)] },
   .store 7 { Diff.empty with storage := [(1, [(4, 2)])] }]

example : OpsOK (fun ch d => d.WF ∧ NoEmptyStep ch d) sysRevertHistory [] ∧ OpsFresh sysRevertHistory [] := by
  refine ⟨?_, by simp [sysRevertHistory, OpsFresh]⟩
  have noSysKeys : ∀ (ch : List Diff) (d : Diff), (∀ a ∈ d.storage.map (·.1), isSystem a = false) → NoEmptyStep ch d := by
    intro ch d h a ha hk
    rw [h a hk] at ha; cases ha
  simp only [sysRevertHistory, OpsOK, List.tail_cons, and_true]
  refine ⟨⟨Diff.wfb_sound _ (by decide), noSysKeys _ _ (by decide)⟩, ⟨Diff.wfb_sound _ (by decide), ?_⟩,
    ⟨Diff.wfb_sound _ (by decide), ?_⟩, ⟨Diff.wfb_sound _ (by decide), noSysKeys _ _ (by decide)⟩,
    ⟨Diff.wfb_sound _ (by decide), noSysKeys _ _ (by decide)⟩, ⟨Diff.wfb_sound _ (by decide), noSysKeys _ _ (by decide)⟩,
    ⟨Diff.wfb_sound _ (by decide), ?_⟩⟩
  · intro a _ hk
    simp only [List.map_cons, List.map_nil, List.mem_singleton] at hk
    subst hk; exact ⟨2, by decide⟩
  · intro a _ hk
    simp only [List.map_cons, List.map_nil, List.mem_singleton] at hk
    subst hk; exact ⟨3, by decide⟩
  · intro a _ hk
    simp only [List.map_cons, List.map_nil, List.mem_singleton] at hk
    subst hk; exact ⟨4, by decide⟩

example : (run legacyBackend (Node.init legacyBackend) sysRevertHistory).map
    (fun nd => [nd.read legacyBackend (.num 1) (.storage 1 2), nd.read legacyBackend (.num 3) (.classHash 1),
                nd.read legacyBackend (.num 4) (.storage 1 2), nd.read legacyBackend (.num 4) (.storage 1 4),
                nd.read legacyBackend (.num 4) (.nonce 2), nd.read legacyBackend (.num 2) (.storage 2 3)]) =
    some [some .notfound, some .notfound, some (.ok 0), some (.ok 2), some .notfound, some .notfound] := by decide

/-! ### non-vacuity of the round-5 statements -/

example : upperBound [1, 2, 255] = some [1, 3] ∧ upperBound [1, 255, 255] = some [2] ∧ upperBound [1] = some [2] ∧
    upperBound [255, 255] = none ∧ upperBound [] = none ∧ upperBoundLoop [1, 2, 255] = some [1, 3] ∧
    upperBoundLoop [7, 255, 255, 255] = some [8] ∧ upperBoundLoop [255] = none := by decide

/-- hypotheses of `upper_bound_least` for the prefix [1,2,0xff] and its bound [1,3] -/
example : Bytes [1, 2, 255] ∧ upperBound [1, 2, 255] = some [1, 3] :=
  ⟨by intro b hb; simp only [List.mem_cons, List.not_mem_nil, or_false] at hb; omega, by decide⟩

example : Bytes [1, 2, 255, 0] ∧ inPrefixRange [1, 2, 255] [1, 2, 255, 0] = true ∧ inPrefixRange [255, 255] [255, 255, 9] = true ∧
    inPrefixRange [255, 255] [255, 254, 255] = false := by
  refine ⟨by intro b hb; simp only [List.mem_cons, List.not_mem_nil, or_false] at hb; omega, by decide, by decide, by decide⟩

/-- block 0 deploys 0x200 (the address right above 0x1ff) and writes its slots 0xff and 0x100; block 1
deploys 0x1ff right below it and writes the same slots; block 1 is reverted (purge of 0x1ff); block 1'
writes 0x200[0x100] -/
def byteBoundaryHistory : List Op :=
  [.store 1 { Diff.empty with deployed := [(0x200, 0xc000)], storage := [(0x200, [(0xff, 7), (0x100, 8)])] },
   .store 2 { Diff.empty with deployed := [(0x1ff, 0xc001)], storage := [(0x1ff, [(0xff, 5), (0x100, 6)])] },
   .revert,
   .store 3 { Diff.empty with storage := [(0x200, [(0x100, 9)])], nonces := [(0x200, 1)] }]

/-- the hypotheses of `history_readers_on_bytes` / `storage_purge_on_bytes` hold for it -/
example : OpsOK (fun ch d => d.Felts ∧ ch.length < 2 ^ 64) byteBoundaryHistory [] := by
  simp only [byteBoundaryHistory, OpsOK, List.tail_cons, and_true]
  refine ⟨⟨⟨by decide, by decide, by decide, by decide⟩, by decide⟩, ⟨⟨by decide, by decide, by decide, by decide⟩, by decide⟩,
    ⟨⟨by decide, by decide, by decide, by decide⟩, by decide⟩⟩

/-- it runs; after it the neighbour 0x200 still reads 7 / 9 at the head and 8 at block 0, and 0x1ff is gone -/
example : (run (newBackend Cfg.current) (Node.init (newBackend Cfg.current)) byteBoundaryHistory).map
    (fun nd => [nd.read (newBackend Cfg.current) .head (.storage 0x200 0xff),
                nd.read (newBackend Cfg.current) .head (.storage 0x200 0x100),
                nd.read (newBackend Cfg.current) (.num 0) (.storage 0x200 0x100),
                nd.read (newBackend Cfg.current) (.num 1) (.storage 0x200 0xff),
                nd.read (newBackend Cfg.current) (.num 1) (.classHash 0x1ff)]) =
    some [some (.ok 7), some (.ok 9), some (.ok 8), some (.ok 7), some .notfound] := by decide

/-- the readers on bytes, on a small encoded bucket (bucket bytes 10 / 11 / 12; the entries of the
nonce of address 0x1ff at blocks 1 and 3, of 0x200 at block 2): at block 2 the nonce of 0x1ff is the
entry of block 1 — the iterator of prefix `11 ++ 0x…01ff` does not reach the entry of 0x200 at exactly
block 2 -/
example :
    let bk : BucketIds := ⟨10, 11, 12, 13⟩
    let h : Bucket HKey Hist := [(.nonce 0x1ff, [(1, 4), (3, 6)]), (.nonce 0x200, [(2, 5)])]
    valueAtBytes (encodeHist bk h) (hkeyBytes bk (.nonce 0x1ff)) 2 = some 4 ∧
    valueAtBytes (encodeHist bk h) (hkeyBytes bk (.nonce 0x1ff)) 0 = none ∧
    lastUpdatedBytes (encodeHist bk h) (hkeyBytes bk (.nonce 0x1ff)) 2 = 1 ∧
    ((encodeHist bk h).iter (hkeyBytes bk (.nonce 0x1ff))).length = 2 := by
  decide

/-- `history_readers_on_bytes` / `legacy_logs_on_bytes` on the byte-boundary history itself: the encoded
buckets of the states it reaches, read through the byte-level readers (slot 0xff of 0x200 next to slot
0x100, which alone has an entry at block 1) -/
example :
    let bk : BucketIds := ⟨10, 11, 12, 13⟩
    (run (newBackend Cfg.current) (Node.init (newBackend Cfg.current)) byteBoundaryHistory).map
      (fun nd => (valueAtBytes (encodeHist bk nd.st.hist) (hkeyBytes bk (.storage 0x200 0xff)) 1,
                  valueAtBytes (encodeHist bk nd.st.hist) (hkeyBytes bk (.storage 0x200 0x100)) 1,
                  valueAtBytes (encodeHist bk nd.st.hist) (hkeyBytes bk (.storage 0x200 0x100)) 0,
                  lastUpdatedBytes (encodeHist bk nd.st.hist) (hkeyBytes bk (.storage 0x200 0xff)) 1)) =
      some (some 7, some 9, some 8, 0) ∧
    (run legacyBackend (Node.init legacyBackend) byteBoundaryHistory).map
      (fun nd => (lastUpdatedBytes (encodeHist bk nd.st.logs) (hkeyBytes bk (.storage 0x200 0xff)) 1,
                  lastUpdatedBytes (encodeHist bk nd.st.logs) (hkeyBytes bk (.storage 0x200 0x100)) 1)) =
      some (0, 1) := by decide

example : (⟨10, 11, 12, 13⟩ : BucketIds).HistOK := ⟨by decide, by decide, by decide, by decide, by decide, by decide⟩

/-- the RPC methods on the example history (new backend): 0x104[2] = 5 at block 0, 0 at the head (the
contract exists: value 0, not CONTRACT_NOT_FOUND); 0x105 does not exist: CONTRACT_NOT_FOUND on latest from
both versions although the head reader answers 0; block 7: BLOCK_NOT_FOUND -/
example : (brun (newBackend Cfg.current) (BNode.init (newBackend Cfg.current)) exampleHistory).map
    (fun bn =>
      [bn.rpcStorageV9 (newBackend Cfg.current) none (.num 0) 0x104 2, bn.rpcStorageV10 (newBackend Cfg.current) none .head 0x104 2,
       bn.rpcStorageV9 (newBackend Cfg.current) none .head 0x105 2, bn.rpcStorageV10 (newBackend Cfg.current) none .head 0x105 2,
       bn.rpcStorageV10 (newBackend Cfg.current) none (.num 7) 0x104 2, bn.rpcNonce (newBackend Cfg.current) none (.num 1) 0x104,
       bn.rpcClassHashAt (newBackend Cfg.current) none .head 1]) =
    some [.ok 5, .ok 0, .contractNotFound, .contractNotFound, .blockNotFound, .ok 1, .contractNotFound] ∧
    (brun (newBackend Cfg.current) (BNode.init (newBackend Cfg.current)) exampleHistory).map
      (fun bn => bn.read (newBackend Cfg.current) none .head (.storage 0x105 2)) = some (some (.ok 0)) := by decide

end Juno.C03.Props
