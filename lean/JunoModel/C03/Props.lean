import JunoModel.C03.ProofsNode
import JunoModel.C03.ProofsLegacy
import JunoModel.C03.ProofsSys
import JunoModel.C03.ProofsCasm
/-!
C03 — property theorems (statements only; helper lemmas are in `Proofs*.lean`).

Reading guide. `run be (Node.init be) ops = some nd`: the history `ops` (block additions and head
reverts) ran on a fresh node and left `nd`; a history on which the real node fails (a guard of
`Update`/`Revert` fires) is not a history of the property. `OpsWF ops`: every stored diff is a
well-formed state diff (`Diff.WF`: sections are maps, no contract deployed and replaced by the same
diff, system contracts only receive storage writes). `nd.chain`: the state diffs of the blocks the
node holds, newest first; `absAt nd.chain n` the abstract state after block `n` = fold of the
diffs `0..n` (`absOf`), `AbsSt.read` the answer the property demands: the value, not-found for
contracts / classes that do not exist yet. `q.ordinary`: the query is about a contract that
enters the state through `DeployedContracts`, or about a class; the system contracts 0x1/0x2
(existence implementation defined) have their own theorems.
-/
namespace Juno.C03.Props
open Juno.C03

/-- The chain a node holds is the one the history says: stores push, reverts pop. -/
theorem run_chain {σ : Type} (be : Backend σ) (ops : List Op) (nd : Node σ)
    (hrun : run be (Node.init be) ops = some nd) : nd.chain = chainOf ops := by
  have := run_blocks be ops (Node.init be) nd hrun
  simp [Node.chain, chainOf, this, Node.init]

/-- NEW BACKEND, views by number: after any history, for every retained block `n`, every contract
address / slot / class hash: the historical reader answers exactly what the state diffs up to
and including block `n` give. Holds for every variant `cfg` of the code. -/
theorem new_read_correct (cfg : Cfg) (ops : List Op) (nd : Node NState)
    (hrun : run (newBackend cfg) (Node.init (newBackend cfg)) ops = some nd) (hwf : OpsWF ops)
    (n : Nat) (hn : n < nd.blocks.length) (q : Query) (hq : q.ordinary) :
    nd.read (newBackend cfg) (.num n) q = some ((absAt nd.chain n).read q) := by
  have hinv := run_invariant (newBackend cfg) (NInv cfg)
    (fun ch s s' d hI hd hu => ninv_store cfg ch s s' d hI hd hu)
    (fun d rest s s' hI hr => ninv_revert cfg d rest s s' hI hr)
    ops (Node.init (newBackend cfg)) nd (ninv_init cfg) hwf hrun
  simp only [Node.read, Node.resolve, hn, if_true]
  exact congrArg some (ninv_histRead cfg nd.chain nd.st hinv n q hq)

/-- NEW BACKEND, head view: class hash, nonce and declared classes are those of the abstract state
after the last block (not-found when absent); a storage slot reads as its value — zero when unset,
also for an address without contract (juno's `StateReader.ContractStorage` contract; the RPC layer
asks for the class hash first). The storage part needs the repaired trie (`leafFix`), see
`new_head_storage_asFound_counterexample`. -/
theorem new_head_read_correct (cfg : Cfg) (ops : List Op) (nd : Node NState)
    (hrun : run (newBackend cfg) (Node.init (newBackend cfg)) ops = some nd) (hwf : OpsWF ops)
    (hne : nd.blocks ≠ []) :
    (∀ a, isSystem a = false →
      nd.read (newBackend cfg) .head (.classHash a) = some ((absOf nd.chain).read (.classHash a)) ∧
      nd.read (newBackend cfg) .head (.nonce a) = some ((absOf nd.chain).read (.nonce a))) ∧
    (∀ c, nd.read (newBackend cfg) .head (.cls c) = some ((absOf nd.chain).read (.cls c))) ∧
    (cfg.leafFix = true → ∀ a k,
      nd.read (newBackend cfg) .head (.storage a k) = some (.ok ((absOf nd.chain).stor a k))) := by
  have hinv := run_invariant (newBackend cfg) (NInv cfg)
    (fun ch s s' d hI hd hu => ninv_store cfg ch s s' d hI hd hu)
    (fun d rest s s' hI hr => ninv_revert cfg d rest s s' hI hr)
    ops (Node.init (newBackend cfg)) nd (ninv_init cfg) hwf hrun
  have hemp : nd.blocks.isEmpty = false := by cases h : nd.blocks <;> simp_all
  refine ⟨?_, ?_, ?_⟩
  · intro a ha
    simp only [Node.read, Node.resolve, hemp, Bool.false_eq_true, if_false]
    exact ⟨congrArg some ((ninv_headRead cfg nd.chain nd.st hinv (.classHash a)).1 a rfl ha),
      congrArg some ((ninv_headRead cfg nd.chain nd.st hinv (.nonce a)).2.1 a rfl ha)⟩
  · intro c
    simp only [Node.read, Node.resolve, hemp, Bool.false_eq_true, if_false]
    exact congrArg some ((ninv_headRead cfg nd.chain nd.st hinv (.cls c)).2.2.2 c rfl)
  · intro hfix a k
    simp only [Node.read, Node.resolve, hemp, Bool.false_eq_true, if_false]
    exact congrArg some ((ninv_headRead cfg nd.chain nd.st hinv (.storage a k)).2.2.1 a k rfl hfix)

/- Full-strength statement for the system contracts (what `legacy_system_storage_read` proves for
the legacy backend):
    (absAt nd.chain n).stor a k ≠ 0 → nd.read (newBackend cfg) (.num n) (.storage a k) = some (.ok …)
It is FALSE for the code as found (`cfg.sysProbeFix = false`): `new_system_asFound_counterexample`.
Proved: never a wrong value, every variant, and the full statement for the variant with
proposed-fixes/C03-history-system-contract-no-deploy-probe.diff (`new_system_storage_read_partial`);
the full statement for EVERY variant under the hypothesis that excludes the defect — no block of the
history empties the storage of a system contract (`new_system_storage_read_nodrain_partial`). -/

/-- NEW BACKEND as found, system contracts: if no stored block of the history (reverted ones
included) leaves a system contract with an empty storage that was not empty before (`NoDrainStep`),
a slot of 0x1/0x2 that is non-zero after block `n` is returned as it is by the view of block `n`. -/
theorem new_system_storage_read_nodrain_partial (cfg : Cfg) (ops : List Op) (nd : Node NState)
    (hrun : run (newBackend cfg) (Node.init (newBackend cfg)) ops = some nd)
    (hok : OpsOK (fun ch d => d.WF ∧ NoDrainStep ch d) ops [])
    (n : Nat) (hn : n < nd.blocks.length) (a : Addr) (k : Slot) (ha : isSystem a = true)
    (hnz : (absAt nd.chain n).stor a k ≠ 0) :
    nd.read (newBackend cfg) (.num n) (.storage a k) = some (.ok ((absAt nd.chain n).stor a k)) := by
  have hs := run_invariant' (newBackend cfg) (NSys cfg) (fun ch d => d.WF ∧ NoDrainStep ch d)
    (fun ch s s' d hI hP hu => nsys_store cfg ch s s' d hI hP hu)
    (fun d rest s s' hI hr => nsys_revert cfg d rest s s' hI hr)
    ops (Node.init (newBackend cfg)) nd (nsys_init cfg) hok hrun
  simp only [Node.read, Node.resolve, hn, if_true]
  exact congrArg some (nsys_histRead cfg nd.chain nd.st hs n a k ha hnz)

/-- NEW BACKEND, system contracts 0x1/0x2, views by number: a storage read never returns a wrong
value (it is the value the diffs give, or not-found), in every variant; in the variant without the
deployment probe for system contracts (`sysProbeFix`) it is always the value. -/
theorem new_system_storage_read_partial (cfg : Cfg) (ops : List Op) (nd : Node NState)
    (hrun : run (newBackend cfg) (Node.init (newBackend cfg)) ops = some nd) (hwf : OpsWF ops)
    (n : Nat) (hn : n < nd.blocks.length) (a : Addr) (k : Slot) :
    (nd.read (newBackend cfg) (.num n) (.storage a k) = some .notfound ∨
      nd.read (newBackend cfg) (.num n) (.storage a k) = some (.ok ((absAt nd.chain n).stor a k))) ∧
    (cfg.sysProbeFix = true → isSystem a = true →
      nd.read (newBackend cfg) (.num n) (.storage a k) = some (.ok ((absAt nd.chain n).stor a k))) := by
  have hinv := run_invariant (newBackend cfg) (NInv cfg)
    (fun ch s s' d hI hd hu => ninv_store cfg ch s s' d hI hd hu)
    (fun d rest s s' hI hr => ninv_revert cfg d rest s s' hI hr)
    ops (Node.init (newBackend cfg)) nd (ninv_init cfg) hwf hrun
  have h := ninv_histRead_system cfg nd.chain nd.st hinv n a k
  simp only [Node.read, Node.resolve, hn, if_true]
  refine ⟨?_, ?_⟩
  · rcases h.1 with e | e
    · left; exact congrArg some e
    · right; exact congrArg some e
  · intro h1 h2; exact congrArg some (h.2 h1 h2)

/-- LEGACY BACKEND, views by number: after any history, for every retained block `n`, every
contract address / slot / class hash: the historical reader (first log strictly above `n`, else
the head value; deployment height; declaration height) answers exactly what the state diffs up to
and including block `n` give. The invariant behind it (`LInv`): every change of a key at block b
has a log at b holding the value before b; the only writes without log are zero written to an
unset slot (no change) and the class hash set by a deployment (masked by the deployment height). -/
theorem legacy_read_correct (ops : List Op) (nd : Node LState)
    (hrun : run legacyBackend (Node.init legacyBackend) ops = some nd) (hwf : OpsWF ops)
    (n : Nat) (hn : n < nd.blocks.length) (q : Query) (hq : q.ordinary) :
    nd.read legacyBackend (.num n) q = some ((absAt nd.chain n).read q) := by
  have hinv := run_invariant legacyBackend LInv
    (fun ch s s' d hI hd hu => linv_store ch s s' d hI hd hu)
    (fun d rest s s' hI hr => linv_revert d rest s s' hI hr)
    ops (Node.init legacyBackend) nd linv_init hwf hrun
  simp only [Node.read, Node.resolve, hn, if_true]
  exact congrArg some (linv_histRead nd.chain nd.st hinv n q hq)

/-- LEGACY BACKEND, head view: as `new_head_read_correct`, the storage part without condition. -/
theorem legacy_head_read_correct (ops : List Op) (nd : Node LState)
    (hrun : run legacyBackend (Node.init legacyBackend) ops = some nd) (hwf : OpsWF ops)
    (hne : nd.blocks ≠ []) :
    (∀ a, isSystem a = false →
      nd.read legacyBackend .head (.classHash a) = some ((absOf nd.chain).read (.classHash a)) ∧
      nd.read legacyBackend .head (.nonce a) = some ((absOf nd.chain).read (.nonce a))) ∧
    (∀ c, nd.read legacyBackend .head (.cls c) = some ((absOf nd.chain).read (.cls c))) ∧
    (∀ a k, nd.read legacyBackend .head (.storage a k) = some (.ok ((absOf nd.chain).stor a k))) := by
  have hinv := run_invariant legacyBackend LInv
    (fun ch s s' d hI hd hu => linv_store ch s s' d hI hd hu)
    (fun d rest s s' hI hr => linv_revert d rest s s' hI hr)
    ops (Node.init legacyBackend) nd linv_init hwf hrun
  have hemp : nd.blocks.isEmpty = false := by cases h : nd.blocks <;> simp_all
  have h := linv_headRead nd.chain nd.st hinv
  refine ⟨?_, ?_, ?_⟩
  · intro a ha
    simp only [Node.read, Node.resolve, hemp, Bool.false_eq_true, if_false]
    exact ⟨congrArg some (h.1 a ha).1, congrArg some (h.1 a ha).2⟩
  · intro c
    simp only [Node.read, Node.resolve, hemp, Bool.false_eq_true, if_false]
    exact congrArg some (h.2.2 c)
  · intro a k
    simp only [Node.read, Node.resolve, hemp, Bool.false_eq_true, if_false]
    exact congrArg some (h.2.1 a k)

/-- LEGACY BACKEND, any address including the system contracts 0x1/0x2, views by number: a slot
that is non-zero after block `n` is returned as it is; a zero slot reads as zero or not-found. -/
theorem legacy_system_storage_read (ops : List Op) (nd : Node LState)
    (hrun : run legacyBackend (Node.init legacyBackend) ops = some nd) (hwf : OpsWF ops)
    (n : Nat) (hn : n < nd.blocks.length) (a : Addr) (k : Slot) :
    ((absAt nd.chain n).stor a k ≠ 0 →
      nd.read legacyBackend (.num n) (.storage a k) = some (.ok ((absAt nd.chain n).stor a k))) ∧
    (nd.read legacyBackend (.num n) (.storage a k) = some .notfound ∨
      nd.read legacyBackend (.num n) (.storage a k) = some (.ok ((absAt nd.chain n).stor a k))) := by
  have hinv := run_invariant legacyBackend LInv
    (fun ch s s' d hI hd hu => linv_store ch s s' d hI hd hu)
    (fun d rest s s' hI hr => linv_revert d rest s s' hI hr)
    ops (Node.init legacyBackend) nd linv_init hwf hrun
  have h := linv_histRead_storage_any nd.chain nd.st hinv n a k
  simp only [Node.read, Node.resolve, hn, if_true]
  refine ⟨fun hz => congrArg some (h.1 hz), ?_⟩
  rcases h.2 with e | e
  · left; exact congrArg some e
  · right; exact congrArg some e

/-- The two backends answer alike: the same history run on a legacy node and on a new node (any
variant) gives the same answer for every retained block and every ordinary query. -/
theorem backends_agree_reads (cfg : Cfg) (ops : List Op) (nl : Node LState) (nn : Node NState)
    (hl : run legacyBackend (Node.init legacyBackend) ops = some nl)
    (hnw : run (newBackend cfg) (Node.init (newBackend cfg)) ops = some nn) (hwf : OpsWF ops)
    (n : Nat) (hn : n < (chainOf ops).length) (q : Query) (hq : q.ordinary) :
    nl.read legacyBackend (.num n) q = nn.read (newBackend cfg) (.num n) q := by
  have cl := run_chain legacyBackend ops nl hl
  have cn := run_chain (newBackend cfg) ops nn hnw
  have hnl : n < nl.blocks.length := by
    have : nl.blocks.length = nl.chain.length := by simp [Node.chain]
    rw [this, cl]; exact hn
  have hnn : n < nn.blocks.length := by
    have : nn.blocks.length = nn.chain.length := by simp [Node.chain]
    rw [this, cn]; exact hn
  rw [legacy_read_correct ops nl hl hwf n hnl q hq, new_read_correct cfg ops nn hnw hwf n hnn q hq, cl, cn]

/-- ATTEMPTED operations (both backends): in a history of attempts, those that fail — a block
`Update` rejects, a `Simulate`, a commit that is lost, a `RevertHead` that fails — leave the node as
it was (`runL`), so after any such history every view by number still answers from the ACCEPTED
chain `nd.chain`. (The model has no way to write around the batch: that part is the harness'
discarded-operations check.) -/
theorem reads_after_attempts (cfg : Cfg) (ops : List Op) (hwf : OpsWF ops)
    (n : Nat) (q : Query) (hq : q.ordinary) :
    (n < (runL (newBackend cfg) (Node.init (newBackend cfg)) ops).blocks.length →
      (runL (newBackend cfg) (Node.init (newBackend cfg)) ops).read (newBackend cfg) (.num n) q =
        some ((absAt (runL (newBackend cfg) (Node.init (newBackend cfg)) ops).chain n).read q)) ∧
    (n < (runL legacyBackend (Node.init legacyBackend) ops).blocks.length →
      (runL legacyBackend (Node.init legacyBackend) ops).read legacyBackend (.num n) q =
        some ((absAt (runL legacyBackend (Node.init legacyBackend) ops).chain n).read q)) := by
  constructor
  · intro hn
    have hinv := runL_invariant (newBackend cfg) (NInv cfg)
      (fun ch s s' d hI hd hu => ninv_store cfg ch s s' d hI hd hu)
      (fun d rest s s' hI hr => ninv_revert cfg d rest s s' hI hr)
      ops (Node.init (newBackend cfg)) (ninv_init cfg) hwf
    simp only [Node.read, Node.resolve, hn, if_true]
    exact congrArg some (ninv_histRead cfg _ _ hinv n q hq)
  · intro hn
    have hinv := runL_invariant legacyBackend LInv
      (fun ch s s' d hI hd hu => linv_store ch s s' d hI hd hu)
      (fun d rest s s' hI hr => linv_revert d rest s s' hI hr)
      ops (Node.init legacyBackend) linv_init hwf
    simp only [Node.read, Node.resolve, hn, if_true]
    exact congrArg some (linv_histRead _ _ hinv n q hq)

/-- HELD readers (both backends): a historical reader is its block number `k` (juno's
`stateHistory{blockNum, state}` over the live database). Opened on node `nd₁` and used later on
`nd₂` = `nd₁` after any further history `ops₂`, it still answers for block `k` of the chain it was
opened on, as long as that chain's blocks `0..k` are still there (`hsame`: nothing at or below `k`
was reverted). A `HeadState` reader is a live view on both backends (it answers for the current
head: `*_head_read_correct` applied to `nd₂`). -/
theorem held_reader_stable (cfg : Cfg) (ops₁ ops₂ : List Op) (hwf : OpsWF (ops₁ ++ ops₂))
    (k : Nat) (q : Query) (hq : q.ordinary) :
    let nn₁ := runL (newBackend cfg) (Node.init (newBackend cfg)) ops₁
    let nn₂ := runL (newBackend cfg) nn₁ ops₂
    let nl₁ := runL legacyBackend (Node.init legacyBackend) ops₁
    let nl₂ := runL legacyBackend nl₁ ops₂
    (nn₂.chain.drop (nn₂.chain.length - 1 - k) = nn₁.chain.drop (nn₁.chain.length - 1 - k) →
      (newBackend cfg).histRead nn₂.st k q = (absAt nn₁.chain k).read q) ∧
    (nl₂.chain.drop (nl₂.chain.length - 1 - k) = nl₁.chain.drop (nl₁.chain.length - 1 - k) →
      legacyBackend.histRead nl₂.st k q = (absAt nl₁.chain k).read q) := by
  intro nn₁ nn₂ nl₁ nl₂
  have hwf1 : OpsWF ops₁ := fun id d hm => hwf id d (List.mem_append.mpr (Or.inl hm))
  have hwf2 : OpsWF ops₂ := fun id d hm => hwf id d (List.mem_append.mpr (Or.inr hm))
  constructor
  · intro hsame
    have h1 := runL_invariant (newBackend cfg) (NInv cfg)
      (fun ch s s' d hI hd hu => ninv_store cfg ch s s' d hI hd hu)
      (fun d rest s s' hI hr => ninv_revert cfg d rest s s' hI hr)
      ops₁ (Node.init (newBackend cfg)) (ninv_init cfg) hwf1
    have h2 := runL_invariant (newBackend cfg) (NInv cfg)
      (fun ch s s' d hI hd hu => ninv_store cfg ch s s' d hI hd hu)
      (fun d rest s s' hI hr => ninv_revert cfg d rest s s' hI hr)
      ops₂ nn₁ h1 hwf2
    rw [← absAt_of_common nn₁.chain nn₂.chain k hsame]
    exact ninv_histRead cfg nn₂.chain nn₂.st h2 k q hq
  · intro hsame
    have h1 := runL_invariant legacyBackend LInv
      (fun ch s s' d hI hd hu => linv_store ch s s' d hI hd hu)
      (fun d rest s s' hI hr => linv_revert d rest s s' hI hr)
      ops₁ (Node.init legacyBackend) linv_init hwf1
    have h2 := runL_invariant legacyBackend LInv
      (fun ch s s' d hI hd hu => linv_store ch s s' d hI hd hu)
      (fun d rest s s' hI hr => linv_revert d rest s s' hI hr)
      ops₂ nl₁ h1 hwf2
    rw [← absAt_of_common nl₁.chain nl₂.chain k hsame]
    exact linv_histRead nl₂.chain nl₂.st h2 k q hq

/-- TORN READS, legacy backend (concurrent store during one query): with the re-scan of
proposed-fixes/C03-legacy-history-read-rescan-after-head.diff a storage read of block `n` whose log
scan saw the node after history `ops₁` and whose head read saw it after `ops₁ ++ ops₂` still
returns block `n`'s value, provided `ops₂` leaves blocks `0..n` in place. Without the re-scan it
does not: `legacy_torn_read_asFound_counterexample`. -/
theorem legacy_torn_read_rescan (ops₁ ops₂ : List Op) (hwf : OpsWF (ops₁ ++ ops₂)) (n : Nat) (a : Addr) (k : Slot) :
    let nl₁ := runL legacyBackend (Node.init legacyBackend) ops₁
    let nl₂ := runL legacyBackend nl₁ ops₂
    nl₂.chain.drop (nl₂.chain.length - 1 - n) = nl₁.chain.drop (nl₁.chain.length - 1 - n) →
    LState.tornStorageValue true nl₁.st nl₂.st n a k = (absAt nl₁.chain n).stor a k := by
  intro nl₁ nl₂ hsame
  have hwf1 : OpsWF ops₁ := fun id d hm => hwf id d (List.mem_append.mpr (Or.inl hm))
  have hwf2 : OpsWF ops₂ := fun id d hm => hwf id d (List.mem_append.mpr (Or.inr hm))
  have h1 := runL_invariant legacyBackend LInv
    (fun ch s s' d hI hd hu => linv_store ch s s' d hI hd hu)
    (fun d rest s s' hI hr => linv_revert d rest s s' hI hr)
    ops₁ (Node.init legacyBackend) linv_init hwf1
  have h2 := runL_invariant legacyBackend LInv
    (fun ch s s' d hI hd hu => linv_store ch s s' d hI hd hu)
    (fun d rest s s' hI hr => linv_revert d rest s s' hI hr)
    ops₂ nl₁ h1 hwf2
  exact linv_tornStorage nl₁.chain nl₂.chain nl₁.st nl₂.st h1 h2 n hsame a k

/-- COMPILED CLASS HASHES (any backend: the metadata is kept by the block store, not by the state):
`CompiledClassHash` on the view of block `n` is the compiled class hash in force after block `n` —
the declared one, the migrated one from the block of the migration on, not-found before the
declaration — and on the head view the one of the head. Hypothesis on every stored block (`CasmStep`,
`MigVal`): a Sierra class is declared once, migrations only under protocol ≥ 0.14.1 and not of a
class declared by the same diff, and a migration carries the blake2s hash juno stored at
declaration (juno switches to its stored hash, not to the one in the diff). -/
theorem casm_read_correct {σ : Type} (be : Backend σ) (ops : List Op) (nd : Node σ)
    (hrun : run be (Node.init be) ops = some nd)
    (hok : OpsOK (fun ch d => CasmStep ch d ∧ MigVal ch d) ops []) (c : CHash) :
    (∀ n, n < nd.blocks.length → nd.readCasm (.num n) c = some (casmRes (absAt nd.chain n) c)) ∧
    (nd.blocks ≠ [] → nd.readCasm .head c = some (casmRes (absOf nd.chain) c)) := by
  have hinv := run_minv be ops (Node.init be) nd minv_init hok hrun
  constructor
  · intro n hn
    simp only [Node.readCasm, Node.resolve, hn, if_true, hinv.recs c]
    have h := metaOf_at nd.chain hinv.ok c n
    by_cases hmt : metaOf nd.chain c = none
    · simp only [hmt] at h ⊢; exact congrArg some h
    · obtain ⟨mt, hm⟩ := Option.ne_none_iff_exists'.mp hmt
      simp only [hm] at h ⊢; exact congrArg some h
  · intro hne
    have hemp : nd.blocks.isEmpty = false := by cases h : nd.blocks <;> simp_all
    simp only [Node.readCasm, Node.resolve, hemp, Bool.false_eq_true, if_false, hinv.recs c]
    have h := metaOf_head nd.chain hinv.ok c
    by_cases hmt : metaOf nd.chain c = none
    · simp only [hmt] at h ⊢; exact congrArg some h
    · obtain ⟨mt, hm⟩ := Option.ne_none_iff_exists'.mp hmt
      simp only [hm] at h ⊢; exact congrArg some h

/-- Views by hash (any backend): the view of a stored block hash is the view of that block's
number; a hash the node does not hold (never stored, or reverted) has no view; a number above the
head has no view. With unique block hashes the hash of block `k` resolves to `k`
(`numberOf_getElem`). -/
theorem read_by_hash_spec {σ : Type} (be : Backend σ) (nd : Node σ) (q : Query) :
    (∀ h k, numberOf nd.blocks h = some k → nd.read be (.hash h) q = nd.read be (.num k) q) ∧
    (∀ h, h ∉ nd.blocks.map (·.1) → nd.read be (.hash h) q = none) ∧
    (∀ n, nd.blocks.length ≤ n → nd.read be (.num n) q = none) := by
  refine ⟨?_, ?_, ?_⟩
  · intro h k e; rw [read_by_hash, e]; rfl
  · intro h hm; rw [read_by_hash, (numberOf_none_iff nd.blocks h).mpr hm]; rfl
  · intro n hn
    have : ¬ n < nd.blocks.length := by omega
    simp [Node.read, Node.resolve, this]

/-- the hash of block `k` resolves to `k` when the block hashes on the node are distinct -/
theorem hash_resolves (bs : List (BlockId × Diff)) (hnd : (bs.map (·.1)).Nodup) (k : Nat) (hk : k < bs.length) :
    numberOf bs (bs[bs.length - 1 - k]'(by omega)).1 = some k := numberOf_getElem bs hnd k hk

/-! ### the code as found: counterexamples (defects of juno, replayed on the real code by the harness) -/

private def dStore (st : List (Addr × List (Slot × Val))) (dep : List (Addr × CHash)) : Diff :=
  { Diff.empty with storage := st, deployed := dep }

/-- block 0: deploy A with slot 2 = 1; block 1: slot 3 = 4; block 2: slot 3 = 0 -/
def staleLeafHistory : List Op :=
  [.store 1 (dStore [(0x104, [(2, 1)])] [(0x104, 0xc000)]),
   .store 2 (dStore [(0x104, [(3, 4)])] []),
   .store 3 (dStore [(0x104, [(3, 0)])] [])]

/-- DEFECT (core/trie2 `Trie.delete`, fixed by b4efaf4): as found, the head view returns 4 for a slot
whose value is 0 — the full-strength head statement fails without `leafFix`. -/
theorem new_head_storage_asFound_counterexample :
    (run (newBackend Cfg.asFound) (Node.init (newBackend Cfg.asFound)) staleLeafHistory).map
      (fun nd => (nd.read (newBackend Cfg.asFound) .head (.storage 0x104 3), (absOf nd.chain).stor 0x104 3)) =
      some (some (.ok 4), 0) := by decide

/-- block 0: 0x1[2] = 5; block 1: 0x1[2] = 0 (the storage of the system contract is empty again) -/
def drainHistory : List Op :=
  [.store 1 (dStore [(1, [(2, 5)])] []), .store 2 (dStore [(1, [(2, 0)])] [])]

/-- DEFECT (core/state `commit` purges a system contract whose storage became empty, also during
`Update`, and `checkDeployed` then finds no record): as found, the view of block 0 reports
not-found for a slot that holds 5 at block 0. -/
theorem new_system_asFound_counterexample :
    (run (newBackend Cfg.asFound) (Node.init (newBackend Cfg.asFound)) drainHistory).map
      (fun nd => (nd.read (newBackend Cfg.asFound) (.num 0) (.storage 1 2), (absAt nd.chain 0).stor 1 2)) =
      some (some .notfound, 5) := by decide

/-- block 0: deploy 0x64; block 1: address 0x66 is in `deployed` (class 0x12c) AND in `replaced`
(class 0x12f) — outside `Diff.WF`, but juno stores such a block -/
def deployReplaceHistory : List Op :=
  [.store 1 { Diff.empty with deployed := [(0x64, 0x12c)] },
   .store 2 { Diff.empty with deployed := [(0x66, 0x12c)], replaced := [(0x66, 0x12f)] }]

/-- DEFECT (core/state `writeHistory` writes replaced classes before deployed contracts, `Update`
applies them the other way round): as found the view of block 1 answers the deployed class 0x12c
while the head view — and the abstract state, the legacy backend, the state root — have 0x12f.
With the two loops in `Update`'s order (`histOrderFix`) all agree. -/
theorem new_deploy_and_replace_asFound_counterexample :
    (run (newBackend Cfg.asFound) (Node.init (newBackend Cfg.asFound)) deployReplaceHistory).map
      (fun nd => (nd.read (newBackend Cfg.asFound) (.num 1) (.classHash 0x66),
                  nd.read (newBackend Cfg.asFound) .head (.classHash 0x66), (absOf nd.chain).cls 0x66)) =
      some (some (.ok 0x12c), some (.ok 0x12f), 0x12f) ∧
    (run (newBackend Cfg.repaired) (Node.init (newBackend Cfg.repaired)) deployReplaceHistory).map
      (fun nd => (nd.read (newBackend Cfg.repaired) (.num 1) (.classHash 0x66),
                  nd.read (newBackend Cfg.repaired) .head (.classHash 0x66))) =
      some (some (.ok 0x12f), some (.ok 0x12f)) ∧
    (run legacyBackend (Node.init legacyBackend) deployReplaceHistory).map
      (fun nd => (nd.read legacyBackend (.num 1) (.classHash 0x66), nd.read legacyBackend .head (.classHash 0x66))) =
      some (some (.ok 0x12f), some (.ok 0x12f)) := by decide

/-- DEFECT (legacy historical reader: log scan and head read are two reads of a live database):
block 0 sets 0x104[2] = 1, block 1 sets it to 2; a read of block 0 whose log scan happens before
block 1 is committed and whose head read happens after it answers 2. -/
theorem legacy_torn_read_asFound_counterexample :
    let ops₁ : List Op := [.store 1 (dStore [(0x104, [(2, 1)])] [(0x104, 0xc000)])]
    let ops₂ : List Op := [.store 2 (dStore [(0x104, [(2, 2)])] [])]
    let nl₁ := runL legacyBackend (Node.init legacyBackend) ops₁
    let nl₂ := runL legacyBackend nl₁ ops₂
    (LState.tornStorageValue false nl₁.st nl₂.st 0 0x104 2, LState.tornStorageValue true nl₁.st nl₂.st 0 0x104 2,
      (absAt nl₁.chain 0).stor 0x104 2) = (2, 1, 1) := by decide

/-! ### non-vacuity: the hypotheses are satisfiable by histories that exercise the encodings -/

/-- deploy + write, overwrite + nonce, replace class, revert, write again: runs, is well-formed,
and its historical answers differ from the head's -/
def exampleHistory : List Op :=
  [.store 1 { Diff.empty with storage := [(0x104, [(2, 5)])], deployed := [(0x104, 0xc000)], declared0 := [0xd100] },
   .store 2 { Diff.empty with storage := [(0x104, [(2, 6), (3, 0)])], nonces := [(0x104, 1)] },
   .store 3 { Diff.empty with replaced := [(0x104, 0xc001)], storage := [(1, [(7, 9)])] },
   .revert,
   .store 4 { Diff.empty with storage := [(0x104, [(2, 0)])], nonces := [(0x104, 2)] }]

/-- the example history meets the well-formedness hypothesis -/
example : OpsWF exampleHistory := by
  intro id d hm
  apply Diff.wfb_sound
  simp only [exampleHistory, List.mem_cons, List.not_mem_nil, or_false, Op.store.injEq, reduceCtorEq, false_or] at hm
  rcases hm with h | h | h | h <;> (obtain ⟨_, rfl⟩ := h; decide)

/-- … and the no-drain hypothesis (block 3 writes to the system contract 0x1 and leaves it non-empty) -/
example : OpsOK (fun ch d => d.WF ∧ NoDrainStep ch d) exampleHistory [] := by
  have noSysKeys : ∀ (ch : List Diff) (d : Diff), (∀ a ∈ d.storage.map (·.1), isSystem a = false) → NoDrainStep ch d := by
    intro ch d h a ha hk _
    rw [h a hk] at ha; cases ha
  simp only [exampleHistory, OpsOK, List.tail_cons, and_true]
  refine ⟨⟨Diff.wfb_sound _ (by decide), noSysKeys _ _ (by decide)⟩, ⟨Diff.wfb_sound _ (by decide), noSysKeys _ _ (by decide)⟩,
    ⟨Diff.wfb_sound _ (by decide), ?_⟩, ⟨Diff.wfb_sound _ (by decide), noSysKeys _ _ (by decide)⟩⟩
  intro a _ _ _
  simp only [List.map_cons, List.map_nil, List.mem_singleton] at *
  subst_vars
  exact ⟨7, by decide⟩

example : (run (newBackend Cfg.repaired) (Node.init (newBackend Cfg.repaired)) exampleHistory).map
    (fun nd => (nd.blocks.length,
      [nd.read (newBackend Cfg.repaired) (.num 0) (.storage 0x104 2),
       nd.read (newBackend Cfg.repaired) (.num 1) (.storage 0x104 2),
       nd.read (newBackend Cfg.repaired) .head (.storage 0x104 2),
       nd.read (newBackend Cfg.repaired) (.num 0) (.nonce 0x104),
       nd.read (newBackend Cfg.repaired) (.num 0) (.classHash 0x105),
       nd.read (newBackend Cfg.repaired) (.hash 3) (.nonce 0x104)])) =
    some (3, [some (.ok 5), some (.ok 6), some (.ok 0), some (.ok 0), some .notfound, none]) := by decide

example : (run legacyBackend (Node.init legacyBackend) exampleHistory).map
    (fun nd => (nd.blocks.length,
      [nd.read legacyBackend (.num 0) (.storage 0x104 2),
       nd.read legacyBackend (.num 1) (.storage 0x104 2),
       nd.read legacyBackend .head (.storage 0x104 2),
       nd.read legacyBackend (.num 0) (.nonce 0x104),
       nd.read legacyBackend (.num 0) (.classHash 0x105),
       nd.read legacyBackend (.hash 3) (.nonce 0x104)])) =
    some (3, [some (.ok 5), some (.ok 6), some (.ok 0), some (.ok 0), some .notfound, none]) := by decide

/-- block 0 declares Sierra class 0x51 under protocol < 0.14.1 (compiled hash 0xa1, blake2s hash
0xb1); block 1 (≥ 0.14.1) migrates it and declares 0x52 with its blake2s hash; then a revert and a
re-application -/
def casmHistory : List Op :=
  [.store 1 { Diff.empty with declared1 := [⟨0x51, 0xa1, 0xb1⟩] },
   .store 2 { Diff.empty with v2 := true, migrated := [(0x51, 0xb1)], declared1 := [⟨0x52, 0xb2, 0xb2⟩] },
   .revert,
   .store 3 { Diff.empty with v2 := true, migrated := [(0x51, 0xb1)] }]

example : OpsOK (fun ch d => CasmStep ch d ∧ MigVal ch d) casmHistory [] := by
  simp only [casmHistory, OpsOK, List.tail_cons, and_true]
  refine ⟨⟨⟨by decide, by decide, by decide, by decide, by decide⟩, by intro p hp; cases hp⟩,
    ⟨⟨by decide, by decide, by decide, by decide, by decide⟩, ?_⟩,
    ⟨⟨by decide, by decide, by decide, by decide, by decide⟩, ?_⟩⟩
  all_goals
    intro p hp mt hmt
    simp only [List.mem_singleton] at hp
    subst hp
    simp [metaOf] at hmt
    subst hmt
    rfl

example : (run legacyBackend (Node.init legacyBackend) casmHistory).map
    (fun nd => [nd.readCasm (.num 0) 0x51, nd.readCasm (.num 1) 0x51, nd.readCasm .head 0x51,
                nd.readCasm (.num 0) 0x52, nd.readCasm .head 0x52]) =
    some [some (.ok 0xa1), some (.ok 0xb1), some (.ok 0xb1), some .notfound, some .notfound] := by decide

end Juno.C03.Props
