import JunoModel.C03.Model
/-!
C03 — model, part 2 (round 4): the glue between the modelled state backends and the public API.
Core Lean only (linked into `c03drv`).

Transcribed code:
* blockchain/statebackend/block_ops.go `verifyBlockSuccession` (block number), `writeBlockContent`,
  `deleteBlockContent` + core/accessors.go `WriteBlockHeader`: the buckets `ChainHeight`,
  `BlockHeadersByNumber`, `StateUpdatesByBlockNumber`, `BlockCommitments`, `BlockHeaderNumbersByHash`
  as buckets (`BNode`); `Store` / `RevertHead` of statebackend.go / deprecated.go read and write
  THEM (the list `Node.blocks` of Model.lean is their specification: `Refines`, ProofsApi.lean);
* statebackend.go / deprecated.go `HeadState`, `StateAtBlockNumber`, `StateAtBlockHash` and
  pruner/retention.go `RetentionFloor.floor/Seed`, `OldestRetainedBlock`,
  `StateRootIfStateRetainedByBlockNumber` (new backend), `RequireStateRetainedByBlockNumber`
  (legacy), `BlockNumberByHashIfStateRetained`: which view a request gets, with an UNSEEDED floor
  (`blockchain.New` without option: header → hash → hash index) and with a SEEDED floor (node/node.go
  always seeds it: `n < floor` → not found, then header existence / chain height);
* core/state/state_reader.go + core/deprecatedstate/state.go `lastUpdatedBlockNumber`,
  `ContractStorageLastUpdatedBlock`, `ContractStorageLastUpdatedAt` (rpc/v10 `getStorageAt`
  with `include_last_update_block`);
* `CompiledClassHashV2` (state_reader.go, history.go of both backends; core/class.go `CasmHashV2`);
* db/schema.go `*HistoryAtBlockKey` = prefix ++ big-endian uint64 and `bytes.Compare` on such keys.
-/
namespace Juno.C03

/-! ## The block store as buckets -/

structure BNode (σ : Type) where
  st : σ
  /-- bucket `ChainHeight` (one key) -/
  height : Option Nat
  /-- bucket `BlockHeadersByNumber`: the header's hash (its state root is not modelled) -/
  headers : Bucket Nat BlockId
  /-- bucket `StateUpdatesByBlockNumber` -/
  updates : Bucket Nat Diff
  /-- bucket `BlockCommitments` (presence only): the pruner's retention probe -/
  commitments : Bucket Nat Unit
  /-- bucket `BlockHeaderNumbersByHash` -/
  hashIdx : Bucket BlockId Nat
  casmMeta : MetaMap

def BNode.init {σ : Type} (be : Backend σ) : BNode σ := ⟨be.init, none, [], [], [], [], []⟩

/-- `verifyBlockSuccession`: the number the next block must carry (`headNumberAndHash` fails with
key-not-found on an empty chain → 0) -/
def BNode.nextNumber {σ : Type} (n : BNode σ) : Nat :=
  match n.height with
  | none => 0
  | some h => h + 1

/-- `Store`: `Update`, then `writeBlockContent` (header by number + hash index, state update,
commitments, CASM metadata, chain height), one batch -/
def BNode.store {σ : Type} (be : Backend σ) (n : BNode σ) (id : BlockId) (d : Diff) : Except Err (BNode σ) :=
  let b := n.nextNumber
  match be.update n.st b d with
  | .error e => .error e
  | .ok st =>
    match metaStoreOf be.migFix n.casmMeta b d with
    | .error e => .error e
    | .ok m =>
      .ok ⟨st, some b, bset n.headers b (some id), bset n.updates b (some d), bset n.commitments b (some ()),
        bset n.hashIdx id (some b), m⟩

/-- `RevertHead`: chain height → state update and header of that number → `Revert` →
`deleteBlockContent` (hash of the header by number; delete header, hash-index entry of THAT hash,
commitments, state update; chain height: deleted for the genesis block, else `number - 1`) -/
def BNode.revert {σ : Type} (be : Backend σ) (n : BNode σ) : Except Err (BNode σ) :=
  match n.height with
  | none => .error .emptyChain
  | some h =>
    match bget n.updates h, bget n.headers h with
    | some d, some id =>
      if !metaRevertCheck n.casmMeta d then .error .cannotUnmigrate else
      match be.revert n.st h d with
      | .error e => .error e
      | .ok st =>
        match metaRevert n.casmMeta d with
        | .error e => .error e
        | .ok m =>
          .ok ⟨st, if h = 0 then none else some (h - 1), bset n.headers h none, bset n.updates h none,
            bset n.commitments h none, bset n.hashIdx id none, m⟩
    | _, _ => .error .notFound

def BNode.step {σ : Type} (be : Backend σ) (n : BNode σ) : Op → Except Err (BNode σ)
  | .store id d => n.store be id d
  | .revert => n.revert be

def brun {σ : Type} (be : Backend σ) : BNode σ → List Op → Option (BNode σ)
  | n, [] => some n
  | n, op :: rest =>
    match n.step be op with
    | .ok n' => brun be n' rest
    | .error _ => none

/-! ## Retention floor (pruner/retention.go) -/

/-- smallest key of a bucket (`OldestRetainedBlock`: first key of an ascending scan) -/
def minKey {β : Type} : Bucket Nat β → Option Nat
  | [] => none
  | (k, _) :: r =>
    match minKey r with
    | none => some k
    | some m => some (if k ≤ m then k else m)

/-- `OldestRetainedBlock`: lowest block that still has its commitments; `none` = key-not-found -/
def BNode.oldestRetained {σ : Type} (n : BNode σ) : Option Nat := minKey n.commitments

/-- `RetentionFloor.Seed` on a fresh floor: `raiseTo(max(oldest, 1) - 1)`; an empty database
(key-not-found) seeds 0 -/
def BNode.seedFloor {σ : Type} (n : BNode σ) : Nat := max (n.oldestRetained.getD 0) 1 - 1

/-- what the pruner does to the retention probe: the commitments of the blocks below `m` are gone -/
def BNode.dropCommitmentsBelow {σ : Type} (n : BNode σ) (m : Nat) : BNode σ :=
  { n with commitments := n.commitments.filter (fun p => decide (m ≤ p.1)) }

/-- `HeadState` / `StateAtBlockNumber` / `StateAtBlockHash` on the buckets. `fl` = the process'
retention floor: `none` = unseeded (`blockchain.New` default), `some f` = seeded (node/node.go).
`none` = no such view; `some none` = head reader; `some (some k)` = history reader at block `k`.

* head, new backend: chain height, then the header of that number (its state root); legacy: the
  chain height key only.
* by number, unseeded: header of `k` → its hash → the hash index must know the hash.
  Seeded: `k < f` → not found; new backend: the header of `k` must exist ("the header read doubles
  as the upper-bound check"); legacy: chain height, `k > height` → not found.
* by hash: hash index → number; new backend: the header of that number must exist. No floor. -/
def BNode.resolve {σ : Type} (be : Backend σ) (fl : Option Nat) (n : BNode σ) : View → Option (Option Nat)
  | .head =>
    match n.height with
    | none => none
    | some h => if be.hashViewNeedsHeader && (bget n.headers h).isNone then none else some none
  | .num k =>
    match fl with
    | none =>
      match bget n.headers k with
      | some id => if (bget n.hashIdx id).isSome then some (some k) else none
      | none => none
    | some f =>
      if k < f then none
      else if be.hashViewNeedsHeader then
        (if (bget n.headers k).isSome then some (some k) else none)
      else
        match n.height with
        | none => none
        | some h => if k > h then none else some (some k)
  | .hash h =>
    match bget n.hashIdx h with
    | some k => if be.hashViewNeedsHeader && (bget n.headers k).isNone then none else some (some k)
    | none => none

def BNode.read {σ : Type} (be : Backend σ) (fl : Option Nat) (n : BNode σ) (v : View) (q : Query) : Option Res :=
  match n.resolve be fl v with
  | none => none
  | some none => some (be.headRead n.st q)
  | some (some k) => some (be.histRead n.st k q)

def BNode.readCasm {σ : Type} (be : Backend σ) (fl : Option Nat) (n : BNode σ) (v : View) (c : CHash) : Option Res :=
  match n.resolve be fl v with
  | none => none
  | some none => some (match bget n.casmMeta c with | some mt => .ok mt.head | none => .notfound)
  | some (some k) => some (match bget n.casmMeta c with | some mt => mt.at k | none => .notfound)

/-- `CompiledClassHashV2` (head and historical readers alike: `CasmHashV2()` of the record, the
block number of a historical reader is NOT consulted) -/
def BNode.readCasmV2 {σ : Type} (be : Backend σ) (fl : Option Nat) (n : BNode σ) (v : View) (c : CHash) : Option Res :=
  match n.resolve be fl v with
  | none => none
  | some _ => some (match bget n.casmMeta c with | some mt => .ok mt.v2 | none => .notfound)

/-! ## `ContractStorageLastUpdatedBlock` -/

/-- `lastUpdatedBlockNumber(prefix, upTo)` (the same code in both backends): `Seek(prefix ++ be64 upTo)`;
an entry exactly at `upTo` → `upTo`; otherwise `Prev()`: the block of the entry before the seek
position; no such entry → 0. -/
def lastUpdatedOf (h : Hist) (n : Nat) : Nat :=
  let before := h.takeWhile (fun e => e.1 < n)
  match h.dropWhile (fun e => e.1 < n) with
  | (b, _) :: _ => if b = n then n else (before.getLast?.map (·.1)).getD 0
  | [] => (before.getLast?.map (·.1)).getD 0

/-- `math.MaxUint64`: the head readers' `upToBlock` -/
def maxU64 : Nat := 2 ^ 64 - 1

/-- new backend: `StateReader.ContractStorageLastUpdatedBlock` (head, `upTo = MaxUint64`) /
`stateHistory.ContractStorageLastUpdatedBlock` → `ContractStorageLastUpdatedAt(…, blockNum)` — no
deployment probe on this path -/
def NState.lastUpdated (s : NState) (at_ : Option Nat) (a : Addr) (k : Slot) : Nat :=
  lastUpdatedOf (lget s.hist (.storage a k)) (at_.getD maxU64)

/-- legacy backend: the same on the `DeprecatedContractStorageHistory` logs -/
def LState.lastUpdated (s : LState) (at_ : Option Nat) (a : Addr) (k : Slot) : Nat :=
  lastUpdatedOf (lget s.logs (.storage a k)) (at_.getD maxU64)

def BNode.readLastUpdated {σ : Type} (lu : σ → Option Nat → Addr → Slot → Nat) (be : Backend σ) (fl : Option Nat)
    (n : BNode σ) (v : View) (a : Addr) (k : Slot) : Option Nat :=
  (n.resolve be fl v).map (fun w => lu n.st w a k)

/-! ## Specifications of the two accessors (folds over the chain, newest block first) -/

/-- most recent block `≤ n` whose diff satisfies `w` (given the abstract state below the block);
0 when there is none -/
def lastBlockWhere (w : Diff → AbsSt → Bool) : List Diff → Nat → Nat
  | [], _ => 0
  | d :: rest, n => if rest.length ≤ n ∧ w d (absOf rest) = true then rest.length else lastBlockWhere w rest n

/-- the blake2s compiled class hash that came with the (latest) declaration of a Sierra class:
declared under protocol ≥ 0.14.1 the declared hash itself, else the hash juno precomputes -/
def v2Of : List Diff → CHash → Option Val
  | [], _ => none
  | d :: rest, c =>
    match d.declared1.find? (fun x => x.hash == c) with
    | some x => some (if d.v2 then x.casm else x.casmV2)
    | none => v2Of rest c

/-! ## History keys (db/schema.go) -/

/-- `binary.BigEndian.PutUint64` / `AppendUint64`: `w` bytes, most significant first -/
def beBytes : Nat → Nat → List Nat
  | 0, _ => []
  | w + 1, n => (n / 256 ^ w) % 256 :: beBytes w n

/-- `bytes.Compare(a, b) < 0` -/
def bytesLt : List Nat → List Nat → Bool
  | [], [] => false
  | [], _ :: _ => true
  | _ :: _, [] => false
  | x :: a, y :: b => if x < y then true else if y < x then false else bytesLt a b

/-- `db.*HistoryAtBlockKey`: `Bucket.Key(prefix parts…, be64 block)` -/
def histKey (pfx : List Nat) (b : Nat) : List Nat := pfx ++ beBytes 8 b

end Juno.C03
