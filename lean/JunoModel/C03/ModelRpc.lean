import JunoModel.C03.ModelApi
/-!
C03 — model, part 4 (round 5): the RPC handlers the property is observed through
(`starknet_getStorageAt`, `starknet_getNonce`, `starknet_getClassHashAt`; rpc/v9 and rpc/v10 — v8 has
v9's code). Core Lean only (linked into `c03drv`).

Transcribed code:
* rpc/v9/helpers.go, rpc/v10/helpers.go `stateByBlockID`: latest → `HeadState`, number →
  `StateAtBlockNumber`, hash → `StateAtBlockHash`; key-not-found → BLOCK_NOT_FOUND;
* rpc/v9/storage.go `StorageAt`: `ContractClassHash` FIRST ("if a key doesn't exist in contract storage,
  the returned value is always zero and error is nil"): key-not-found → CONTRACT_NOT_FOUND; then
  `ContractStorage`, any error → internal error;
* rpc/v10/storage.go `StorageAt`: `ContractStorage` first: key-not-found → CONTRACT_NOT_FOUND; for a ZERO
  value on the LATEST block `ContractClassHash` is probed ("head readers return zero for a missing
  contract"): key-not-found → CONTRACT_NOT_FOUND; with `include_last_update_block` also
  `ContractStorageLastUpdatedBlock`;
* rpc/v9/nonce.go, rpc/v10/nonce.go `Nonce`, rpc/v9/class.go, rpc/v10/class.go `ClassHashAt`: a system
  contract (0x1 / 0x2) → CONTRACT_NOT_FOUND without asking the state; any read error → CONTRACT_NOT_FOUND.

The pre-confirmed and l1-accepted block ids are not modelled (C12 / C08).
-/
namespace Juno.C03

/-- answer of a handler -/
inductive RpcRes
  | ok (v : Val)
  | contractNotFound
  | blockNotFound
  | internalError
  deriving DecidableEq, Repr

/-- rpc/v9 `StorageAt` (also v8) -/
def BNode.rpcStorageV9 {σ : Type} (be : Backend σ) (fl : Option Nat) (n : BNode σ) (v : View) (a : Addr) (k : Slot) : RpcRes :=
  match n.resolve be fl v with
  | none => .blockNotFound
  | some _ =>
    match n.read be fl v (.classHash a) with
    | some (.ok _) =>
      (match n.read be fl v (.storage a k) with
       | some (.ok x) => .ok x
       | _ => .internalError)
    | _ => .contractNotFound

/-- rpc/v10 `StorageAt` -/
def BNode.rpcStorageV10 {σ : Type} (be : Backend σ) (fl : Option Nat) (n : BNode σ) (v : View) (a : Addr) (k : Slot) : RpcRes :=
  match n.resolve be fl v with
  | none => .blockNotFound
  | some _ =>
    match n.read be fl v (.storage a k) with
    | some (.ok x) =>
      if x = 0 ∧ v = .head then
        (match n.read be fl v (.classHash a) with
         | some (.ok _) => .ok 0
         | _ => .contractNotFound)
      else .ok x
    | _ => .contractNotFound

/-- `Nonce` (v9 and v10 have the same code) -/
def BNode.rpcNonce {σ : Type} (be : Backend σ) (fl : Option Nat) (n : BNode σ) (v : View) (a : Addr) : RpcRes :=
  match n.resolve be fl v with
  | none => .blockNotFound
  | some _ =>
    if isSystem a then .contractNotFound else
    match n.read be fl v (.nonce a) with
    | some (.ok x) => .ok x
    | _ => .contractNotFound

/-- `ClassHashAt` (v9 and v10 have the same code) -/
def BNode.rpcClassHashAt {σ : Type} (be : Backend σ) (fl : Option Nat) (n : BNode σ) (v : View) (a : Addr) : RpcRes :=
  match n.resolve be fl v with
  | none => .blockNotFound
  | some _ =>
    if isSystem a then .contractNotFound else
    match n.read be fl v (.classHash a) with
    | some (.ok x) => .ok x
    | _ => .contractNotFound

/-- what the property demands of the three methods for an ordinary contract: the value when the
contract exists in that state, CONTRACT_NOT_FOUND when it does not -/
def rpcSpec (s : AbsSt) (q : Query) : RpcRes :=
  match s.read q with
  | .ok v => .ok v
  | .notfound => .contractNotFound

end Juno.C03
