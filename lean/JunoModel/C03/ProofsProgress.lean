import JunoModel.C03.ProofsCasm
import JunoModel.C03.ProofsLegacy
/-!
C03 — helper lemmas. Part 12: progress. A block that is consistent with the abstract state of the
chain below it (`Valid`) passes every guard of `Update` and of the CASM metadata, and the head block
of a chain of valid blocks can always be reverted: the hypothesis `run … = some nd` of the property
theorems is not a hidden filter on valid histories.
-/
namespace Juno.C03

/-- a block consistent with the chain `ch` below it: well-formed; deploys only addresses without
contract; replaces classes / sets nonces / writes storage only of contracts that exist (after the
block's own deployments; the system contracts need not exist); declares Sierra classes once and
migrates (protocol ≥ 0.14.1 only) classes that were declared earlier under an older protocol and
are not migrated yet -/
structure Valid (ch : List Diff) (d : Diff) : Prop where
  wf : d.WF
  depNew : ∀ p ∈ d.deployed, (absOf ch).dep p.1 = none
  repOld : ∀ p ∈ d.replaced, ((absOf (d :: ch)).dep p.1).isSome = true
  nonceOld : ∀ p ∈ d.nonces, ((absOf (d :: ch)).dep p.1).isSome = true
  storOld : ∀ p ∈ d.storage, isSystem p.1 = false → ((absOf (d :: ch)).dep p.1).isSome = true
  casm : CasmStep ch d
  mig : d.v2 = true → ∀ p ∈ d.migrated, ∃ mt, metaOf ch p.1 = some mt ∧ mt.migratedAt = 0 ∧
    mt.v1.isSome = true ∧ mt.declaredAt < ch.length
  /-- (needed to carry the metadata invariant along, not by any guard) -/
  ownHash : MigOwnHash ch d

/-- every block of the chain was valid on top of the blocks below it -/
def ValidChain : List Diff → Prop
  | [] => True
  | d :: rest => Valid rest d ∧ ValidChain rest

/-- a history of valid blocks and of reverts of non-empty chains -/
def OpsValid : List Op → List Diff → Prop
  | [], _ => True
  | .store _ d :: rest, ch => Valid ch d ∧ OpsValid rest (d :: ch)
  | .revert :: rest, ch => ch ≠ [] ∧ OpsValid rest ch.tail

theorem dep_cons (d : Diff) (ch : List Diff) (a : Addr) :
    (absOf (d :: ch)).dep a = ocases (alook d.deployed a) ((absOf ch).dep a) (fun _ => some ch.length) := by
  show ((absOf ch).apply ch.length d).dep a = _
  simp only [AbsSt.apply]
  cases alook d.deployed a <;> rfl

theorem not_system_of_mem {β : Type} (l : List (Addr × β)) (a : Addr)
    (hno : isSystem a = true → a ∉ l.map (·.1)) (hm : a ∈ l.map (·.1)) : isSystem a = false := by
  cases hs : isSystem a with
  | false => rfl
  | true => exact absurd hm (hno hs)

theorem setClassC_isSome (c : Bucket Addr Contract) (l : List (Addr × CHash)) (hnd : (l.map (·.1)).Nodup) (a : Addr) :
    (bget (setClassC c l) a).isSome = (bget c a).isSome := by
  rw [setClassC_get c l hnd a]
  cases alook l a <;> cases bget c a <;> rfl

theorem setNonceC_isSome (c : Bucket Addr Contract) (l : List (Addr × Val)) (hnd : (l.map (·.1)).Nodup) (a : Addr) :
    (bget (setNonceC c l) a).isSome = (bget c a).isSome := by
  rw [setNonceC_get c l hnd a]
  cases alook l a <;> cases bget c a <;> rfl

/-! ### new backend -/

theorem new_update_succeeds (cfg : Cfg) (ch : List Diff) (s : NState) (d : Diff) (hinv : NInv cfg ch s)
    (hv : Valid ch d) : ∃ s', s.update cfg ch.length d = .ok s' := by
  have hwf := hv.wf
  have g1 : d.deployed.any (fun p => (bget s.contracts p.1).isSome) = false := by
    apply List.any_eq_false.mpr
    intro p hp
    have hns := deployed_not_system d hwf p.1 (List.mem_map.mpr ⟨p, hp, rfl⟩)
    rw [hinv.contracts p.1 hns, hv.depNew p hp]; simp
  have hc2 : ∀ a, isSystem a = false → ((absOf (d :: ch)).dep a).isSome = true →
      (bget (deployC s.contracts ch.length d.deployed) a).isSome = true := by
    intro a hns h
    rw [deployC_get _ _ _ hwf.depNodup, ]
    rw [dep_cons] at h
    cases hal : alook d.deployed a with
    | some c => simp
    | none =>
      rw [hal] at h
      simp only [ocases_none] at h ⊢
      rw [hinv.contracts a hns]
      simpa using h
  have g2 : d.replaced.any (fun p => (bget (deployC s.contracts ch.length d.deployed) p.1).isNone) = false := by
    apply List.any_eq_false.mpr
    intro p hp
    have hm : p.1 ∈ d.replaced.map (·.1) := List.mem_map.mpr ⟨p, hp, rfl⟩
    have hns := not_system_of_mem d.replaced p.1 (fun hs => (hwf.noSys p.1 hs).2.1) hm
    have := hc2 p.1 hns (hv.repOld p hp)
    simp [Option.isNone_iff_eq_none, Option.isSome_iff_ne_none.mp this]
  have g3 : d.nonces.any (fun p => (bget (setClassC (deployC s.contracts ch.length d.deployed) d.replaced) p.1).isNone) = false := by
    apply List.any_eq_false.mpr
    intro p hp
    have hm : p.1 ∈ d.nonces.map (·.1) := List.mem_map.mpr ⟨p, hp, rfl⟩
    have hns := not_system_of_mem d.nonces p.1 (fun hs => (hwf.noSys p.1 hs).2.2) hm
    have := hc2 p.1 hns (hv.nonceOld p hp)
    rw [← setClassC_isSome _ d.replaced hwf.repNodup] at this
    simp [Option.isNone_iff_eq_none, Option.isSome_iff_ne_none.mp this]
  have g4 : d.storage.any (fun p => (bget (setNonceC (setClassC (deployC s.contracts ch.length d.deployed) d.replaced) d.nonces) p.1).isNone
      && !isSystem p.1) = false := by
    apply List.any_eq_false.mpr
    intro p hp
    cases hs : isSystem p.1 with
    | true => simp
    | false =>
      have := hc2 p.1 hs (hv.storOld p hp hs)
      rw [← setClassC_isSome _ d.replaced hwf.repNodup, ← setNonceC_isSome _ d.nonces hwf.nonceNodup] at this
      simp [Option.isNone_iff_eq_none, Option.isSome_iff_ne_none.mp this]
  unfold NState.update
  simp only [g1, g2, g3, g4, Bool.false_eq_true, if_false]
  exact ⟨_, rfl⟩

theorem new_revert_succeeds (cfg : Cfg) (d : Diff) (rest : List Diff) (s : NState) (hinv : NInv cfg (d :: rest) s)
    (hv : Valid rest d) : ∃ s', s.revert cfg rest.length d = .ok s' := by
  have hwf := hv.wf
  have hkeysR : (s.reverseReplaced rest.length d).map (·.1) = d.replaced.map (·.1) := by
    unfold NState.reverseReplaced
    exact map_map_fst d.replaced (fun a _ =>
      if rest.length = 0 then 0 else newHistorical (lget s.hist (.classHash a)) (rest.length - 1))
  have hkeysN : (s.reverseNonces rest.length d).map (·.1) = d.nonces.map (·.1) := by
    unfold NState.reverseNonces
    exact map_map_fst d.nonces (fun a _ =>
      if rest.length = 0 then 0 else newHistorical (lget s.hist (.nonce a)) (rest.length - 1))
  have hkeysS : (s.reverseStorage rest.length d).map (·.1) = d.storage.map (·.1) := by
    unfold NState.reverseStorage
    exact map_map_fst d.storage (fun a slots => slots.map (fun e =>
      (e.1, if rest.length = 0 then 0 else newHistorical (lget s.hist (.storage a e.1)) (rest.length - 1))))
  have hc : ∀ a, isSystem a = false → ((absOf (d :: rest)).dep a).isSome = true → (bget s.contracts a).isSome = true := by
    intro a hns h
    rw [hinv.contracts a hns]
    simpa using h
  have r1 : d.classHashes.any (fun c => (bget s.classes c).isNone) = false := by
    apply List.any_eq_false.mpr
    intro c hc'
    rw [hinv.classes c]
    show ¬ (((absOf rest).apply rest.length d).decl c).isNone = true
    simp only [AbsSt.apply]
    have hm : c ∈ d.newClasses := by unfold Diff.newClasses; exact List.mem_append_left _ hc'
    cases (absOf rest).decl c <;> simp [hm]
  have r2 : (s.reverseReplaced rest.length d).any (fun p => (bget s.contracts p.1).isNone) = false := by
    apply List.any_eq_false.mpr
    intro p hp
    have hm : p.1 ∈ d.replaced.map (·.1) := by rw [← hkeysR]; exact List.mem_map.mpr ⟨p, hp, rfl⟩
    obtain ⟨q, hq, he⟩ := List.mem_map.mp hm
    have hns := not_system_of_mem d.replaced p.1 (fun hs => (hwf.noSys p.1 hs).2.1) hm
    have := hc p.1 hns (by rw [← he]; exact hv.repOld q hq)
    simp [Option.isNone_iff_eq_none, Option.isSome_iff_ne_none.mp this]
  have r3 : (s.reverseNonces rest.length d).any
      (fun p => (bget (setClassC s.contracts (s.reverseReplaced rest.length d)) p.1).isNone) = false := by
    apply List.any_eq_false.mpr
    intro p hp
    have hm : p.1 ∈ d.nonces.map (·.1) := by rw [← hkeysN]; exact List.mem_map.mpr ⟨p, hp, rfl⟩
    obtain ⟨q, hq, he⟩ := List.mem_map.mp hm
    have hns := not_system_of_mem d.nonces p.1 (fun hs => (hwf.noSys p.1 hs).2.2) hm
    have := hc p.1 hns (by rw [← he]; exact hv.nonceOld q hq)
    rw [← setClassC_isSome _ (s.reverseReplaced rest.length d) (by rw [hkeysR]; exact hwf.repNodup)] at this
    simp [Option.isNone_iff_eq_none, Option.isSome_iff_ne_none.mp this]
  have r4 : (s.reverseStorage rest.length d).any
      (fun p => (bget (setNonceC (setClassC s.contracts (s.reverseReplaced rest.length d)) (s.reverseNonces rest.length d)) p.1).isNone
        && !isSystem p.1) = false := by
    apply List.any_eq_false.mpr
    intro p hp
    cases hs : isSystem p.1 with
    | true => simp
    | false =>
      have hm : p.1 ∈ d.storage.map (·.1) := by rw [← hkeysS]; exact List.mem_map.mpr ⟨p, hp, rfl⟩
      obtain ⟨q, hq, he⟩ := List.mem_map.mp hm
      have := hc p.1 hs (by rw [← he]; exact hv.storOld q hq (by rw [he]; exact hs))
      rw [← setClassC_isSome _ (s.reverseReplaced rest.length d) (by rw [hkeysR]; exact hwf.repNodup),
        ← setNonceC_isSome _ (s.reverseNonces rest.length d) (by rw [hkeysN]; exact hwf.nonceNodup)] at this
      simp [Option.isNone_iff_eq_none, Option.isSome_iff_ne_none.mp this]
  unfold NState.revert
  simp only [r1, r2, r3, r4, Bool.false_eq_true, if_false]
  exact ⟨_, rfl⟩

/-! ### CASM metadata -/

theorem migFold_succeeds (b : Nat) (l : List (CHash × Val)) (hnd : (l.map (·.1)).Nodup) (m : MetaMap)
    (h : ∀ p ∈ l, ∃ mt, bget m p.1 = some mt ∧ mt.migratedAt = 0 ∧ mt.v1.isSome = true ∧ mt.declaredAt < b) :
    ∃ m', l.foldlM (fun m p =>
      match bget m p.1 with
      | none => (.error .metaMissing : Except Err MetaMap)
      | some mt =>
        if mt.v1.isNone || b ≤ mt.declaredAt || mt.migratedAt > 0 then .error .cannotMigrate
        else .ok (bset m p.1 (some { mt with migratedAt := b }))) m = .ok m' := by
  induction l generalizing m with
  | nil => exact ⟨m, rfl⟩
  | cons p r ih =>
    simp only [List.map_cons, List.nodup_cons] at hnd
    obtain ⟨mt, hmt, h0, h1, hlt⟩ := h p List.mem_cons_self
    rw [List.foldlM_cons]
    have hcond : (mt.v1.isNone || decide (b ≤ mt.declaredAt) || decide (mt.migratedAt > 0)) = false := by
      have : mt.v1.isNone = false := by cases hv : mt.v1 <;> simp_all
      simp [this, h0]; omega
    simp only [hmt, hcond, Bool.false_eq_true, if_false, bind, Except.bind]
    apply ih hnd.2
    intro q hq
    obtain ⟨mq, hmq, hrest⟩ := h q (List.mem_cons_of_mem _ hq)
    refine ⟨mq, ?_, hrest⟩
    rw [bget_bset]
    have : q.1 ≠ p.1 := by
      intro e; apply hnd.1; rw [← e]; exact List.mem_map.mpr ⟨q, hq, rfl⟩
    simp [this, hmq]

theorem unmigFold_succeeds (l : List (CHash × Val)) (hnd : (l.map (·.1)).Nodup) (m : MetaMap)
    (h : ∀ p ∈ l, ∃ mt, bget m p.1 = some mt ∧ mt.migratedAt > 0) :
    ∃ m', l.foldlM (fun m p =>
      match bget m p.1 with
      | none => (.error .metaMissing : Except Err MetaMap)
      | some mt =>
        if mt.migratedAt > 0 then .ok (bset m p.1 (some { mt with migratedAt := 0 })) else .error .cannotUnmigrate) m = .ok m' := by
  induction l generalizing m with
  | nil => exact ⟨m, rfl⟩
  | cons p r ih =>
    simp only [List.map_cons, List.nodup_cons] at hnd
    obtain ⟨mt, hmt, h0⟩ := h p List.mem_cons_self
    rw [List.foldlM_cons]
    simp only [hmt, h0, if_true, bind, Except.bind]
    apply ih hnd.2
    intro q hq
    obtain ⟨mq, hmq, hrest⟩ := h q (List.mem_cons_of_mem _ hq)
    refine ⟨mq, ?_, hrest⟩
    rw [bget_bset]
    have : q.1 ≠ p.1 := by
      intro e; apply hnd.1; rw [← e]; exact List.mem_map.mpr ⟨q, hq, rfl⟩
    simp [this, hmq]

theorem not_declared_of_migrated (ch : List Diff) (d : Diff) (hs : CasmStep ch d) (p : CHash × Val) (hp : p ∈ d.migrated) :
    d.declared1.find? (fun x => x.hash == p.1) = none := by
  apply List.find?_eq_none.mpr
  intro x hx he
  have hxe : x.hash = p.1 := by simpa using he
  have := hs.declNotMig x hx
  rw [hxe] at this
  have h3 := alook_isSome_of_mem d.migrated p hp
  simp [this] at h3

theorem meta_store_succeeds (ch : List Diff) (m : MetaMap) (d : Diff) (hinv : MInv ch m) (hv : Valid ch d) :
    ∃ m', metaStore m ch.length d = .ok m' := by
  unfold metaStore
  by_cases h2 : d.v2 = true
  · simp only [h2, if_true]
    apply migFold_succeeds ch.length d.migrated hv.casm.migNodup
    intro p hp
    obtain ⟨mt, hmt, hrest⟩ := hv.mig h2 p hp
    refine ⟨mt, ?_, hrest⟩
    rw [declFold_get (fun x => ⟨ch.length, x.casm, 0, none⟩) d.declared1 hv.casm.declNodup m p.1, hinv.recs p.1,
      not_declared_of_migrated ch d hv.casm p hp]
    exact hmt
  · simp only [h2, Bool.false_eq_true, if_false]
    exact ⟨_, rfl⟩

theorem meta_revert_succeeds (d : Diff) (rest : List Diff) (m : MetaMap) (hinv : MInv (d :: rest) m) :
    metaRevertCheck m d = true ∧ ∃ m', metaRevert m d = .ok m' := by
  have hs : CasmStep rest d := hinv.ok.2.1
  have key : ∀ p ∈ d.migrated, ∃ mt, bget m p.1 = some mt ∧ mt.migratedAt > 0 := by
    intro p hp
    by_cases h2 : d.v2 = true
    · obtain ⟨mt, hmt, _, _, hlt, _⟩ := hinv.ok.1 h2 p hp
      refine ⟨{ mt with migratedAt := rest.length }, ?_, by show rest.length > 0; omega⟩
      rw [hinv.recs p.1]
      simp only [metaOf, not_declared_of_migrated rest d hs p hp, h2, Bool.true_and, alook_isSome_of_mem d.migrated p hp,
        if_true, hmt, Option.map_some]
    · have : d.migrated = [] := hs.migV2 (by simpa using h2)
      rw [this] at hp; cases hp
  constructor
  · unfold metaRevertCheck
    apply List.all_eq_true.mpr
    intro p hp
    obtain ⟨mt, hmt, h0⟩ := key p hp
    simp [hmt, h0]
  · unfold metaRevert
    apply unmigFold_succeeds d.migrated hs.migNodup
    intro p hp
    obtain ⟨mt, hmt, h0⟩ := key p hp
    refine ⟨mt, ?_, h0⟩
    rw [undeclFold_get, not_declared_of_migrated rest d hs p hp]
    simpa using hmt

/-! ### legacy backend -/

theorem bsetFold_isSome {γ : Type} (g : Nat × γ → Nat) (l : List (Nat × γ)) (m : Bucket Nat Nat) (a : Nat)
    (h : (bget m a).isSome = true ∨ a ∈ l.map (·.1)) :
    (bget (l.foldl (fun m p => bset m p.1 (some (g p))) m) a).isSome = true := by
  induction l generalizing m with
  | nil =>
    rcases h with h | h
    · exact h
    · cases h
  | cons p r ih =>
    simp only [List.foldl_cons]
    apply ih
    by_cases e : a = p.1
    · left; rw [bget_bset]; simp [e]
    · rcases h with h | h
      · left; rw [bget_bset]; simp [e, h]
      · right
        simp only [List.map_cons, List.mem_cons] at h
        rcases h with h | h
        · exact absurd h e
        · exact h

theorem replaceAll_isSome (s0 : LState) (log : Bool) (b : Nat) (R : List (Addr × CHash))
    (hR : (R.map (·.1)).Nodup) (a : Addr) :
    (bget (s0.replaceAll log b R).classHash a).isSome = (bget s0.classHash a).isSome := by
  rw [replaceAll_classHash s0 log b R hR a]
  cases alook R a <;> cases bget s0.classHash a <;> rfl

theorem deploySystem_isSome (s : LState) (b : Nat) (addrs : List Addr) (a : Addr)
    (h : (bget s.classHash a).isSome = true ∨ (isSystem a = true ∧ a ∈ addrs)) :
    (bget (s.deploySystem b addrs).classHash a).isSome = true := by
  unfold LState.deploySystem LState.deploy
  simp only
  apply bsetFold_isSome (fun p => p.2)
  by_cases hc : (bget s.classHash a).isSome = true
  · exact Or.inl hc
  · right
    rcases h with h | ⟨hs, hm⟩
    · exact absurd h hc
    · simp only [List.map_map, List.mem_map, List.mem_filter, Function.comp]
      refine ⟨a, ⟨hm, ?_⟩, rfl⟩
      have : (bget s.classHash a).isNone = true := by
        cases hx : bget s.classHash a <;> simp_all
      simp [hs, this]

/-- the three guards of the legacy `updateContracts` pass when the contracts concerned exist -/
theorem updateContracts_succeeds (s : LState) (log : Bool) (b : Nat) (R : List (Addr × CHash))
    (N : List (Addr × Val)) (S : List (Addr × List (Slot × Val))) (hR : (R.map (·.1)).Nodup)
    (h1 : ∀ p ∈ R, (bget s.classHash p.1).isSome = true)
    (h2 : ∀ p ∈ N, (bget s.classHash p.1).isSome = true)
    (h3 : ∀ p ∈ S, isSystem p.1 = true ∨ (bget s.classHash p.1).isSome = true) :
    ∃ s', s.updateContracts log b R N S = .ok s' := by
  have g1 : R.any (fun p => (bget s.classHash p.1).isNone) = false := by
    apply List.any_eq_false.mpr
    intro p hp
    simp [Option.isNone_iff_eq_none, Option.isSome_iff_ne_none.mp (h1 p hp)]
  have g2 : N.any (fun p => (bget (s.replaceAll log b R).classHash p.1).isNone) = false := by
    apply List.any_eq_false.mpr
    intro p hp
    have := h2 p hp
    rw [← replaceAll_isSome s log b R hR] at this
    simp [Option.isNone_iff_eq_none, Option.isSome_iff_ne_none.mp this]
  have g3 : S.any (fun p => (bget (((s.replaceAll log b R).nonceAll log b N).deploySystem b (S.map (·.1))).classHash p.1).isNone) = false := by
    apply List.any_eq_false.mpr
    intro p hp
    have : (bget (((s.replaceAll log b R).nonceAll log b N).deploySystem b (S.map (·.1))).classHash p.1).isSome = true := by
      apply deploySystem_isSome
      rcases h3 p hp with hs | hc
      · by_cases hc : (bget ((s.replaceAll log b R).nonceAll log b N).classHash p.1).isSome = true
        · exact Or.inl hc
        · exact Or.inr ⟨hs, List.mem_map.mpr ⟨p, hp, rfl⟩⟩
      · left
        show (bget (s.replaceAll log b R).classHash p.1).isSome = true
        rw [replaceAll_isSome s log b R hR]; exact hc
    simp [Option.isNone_iff_eq_none, Option.isSome_iff_ne_none.mp this]
  unfold LState.updateContracts
  simp only [g1, g2, g3, Bool.false_eq_true, if_false]
  exact ⟨_, rfl⟩

theorem legacy_update_succeeds (ch : List Diff) (s : LState) (d : Diff) (hinv : LInv ch s) (hv : Valid ch d) :
    ∃ s', s.update ch.length d = .ok s' := by
  have hwf := hv.wf
  have hc : ∀ a, isSystem a = false → ((absOf (d :: ch)).dep a).isSome = true →
      (bget (s.deployed0 ch.length d).classHash a).isSome = true := by
    intro a hns h
    rw [(deployed0_fields s ch.length d hwf a).1]
    rw [dep_cons] at h
    cases hal : alook d.deployed a with
    | some c => simp
    | none =>
      rw [hal] at h
      simp only [ocases_none] at h ⊢
      rw [hinv.classHash a hns]
      simpa using h
  have g1 : d.deployed.any (fun p => (bget s.classHash p.1).isSome) = false := by
    apply List.any_eq_false.mpr
    intro p hp
    have hns := deployed_not_system d hwf p.1 (List.mem_map.mpr ⟨p, hp, rfl⟩)
    rw [hinv.classHash p.1 hns, hv.depNew p hp]; simp
  unfold LState.update
  simp only [g1, Bool.false_eq_true, if_false]
  apply updateContracts_succeeds _ true ch.length d.replaced d.nonces d.storage hwf.repNodup
  · intro p hp
    have hm : p.1 ∈ d.replaced.map (·.1) := List.mem_map.mpr ⟨p, hp, rfl⟩
    exact hc p.1 (replaced_not_system d hwf p.1 hm) (hv.repOld p hp)
  · intro p hp
    have hm : p.1 ∈ d.nonces.map (·.1) := List.mem_map.mpr ⟨p, hp, rfl⟩
    exact hc p.1 (nonces_not_system d hwf p.1 hm) (hv.nonceOld p hp)
  · intro p hp
    cases hs : isSystem p.1 with
    | true => exact Or.inl rfl
    | false => exact Or.inr (hc p.1 hs (hv.storOld p hp hs))

theorem undeclareM_succeeds (b : Nat) (l : List CHash) (hnd : l.Nodup) (m : Bucket CHash Nat)
    (h : ∀ c ∈ l, (bget m c).isSome = true) : ∃ cl, l.foldlM (undeclareStepM b) m = .ok cl := by
  induction l generalizing m with
  | nil => exact ⟨m, rfl⟩
  | cons c r ih =>
    simp only [List.nodup_cons] at hnd
    rw [List.foldlM_cons]
    obtain ⟨v, hv⟩ := Option.isSome_iff_exists.mp (h c List.mem_cons_self)
    unfold undeclareStepM
    simp only [hv, bind, Except.bind]
    apply ih hnd.2
    intro c' hc'
    have hne : c' ≠ c := by intro e; subst e; exact hnd.1 hc'
    by_cases e : v = b
    · simp only [e, if_true]; rw [bget_bset]; simp [hne, h c' (List.mem_cons_of_mem _ hc')]
    · simp only [e, if_false]; exact h c' (List.mem_cons_of_mem _ hc')

/-- a key the head block logged has a log above block `b - 1` -/
theorem logged_valueAt_isSome (d : Diff) (rest : List Diff) (key : HKey) (hl : logged d (absOf rest) key = true)
    (hb : rest.length ≠ 0) : (legacyValueAt (logsOf (d :: rest) key) (rest.length - 1)).isSome = true := by
  rw [legacyValueAt_eq_firstGT _ _ (logsOf_sorted (d :: rest) key)]
  simp only [logsOf, hl, if_true]
  rw [firstGT_append]
  cases firstGT (logsOf rest key) (rest.length - 1) with
  | some x => rfl
  | none =>
    have : rest.length - 1 < rest.length := by omega
    simp [this]

theorem afterContracts_isSome (s : LState) (log : Bool) (b : Nat) (R : List (Addr × CHash)) (N : List (Addr × Val))
    (S : List (Addr × List (Slot × Val))) (hR : (R.map (·.1)).Nodup) (a : Addr) (hns : isSystem a = false) :
    (bget (s.afterContracts log b R N S).classHash a).isSome = (bget s.classHash a).isSome := by
  show (bget (((s.replaceAll log b R).nonceAll log b N).deploySystem b (S.map (·.1))).classHash a).isSome = _
  rw [(deploySystem_ordinary _ b (S.map (·.1)) a hns).1]
  show (bget (s.replaceAll log b R).classHash a).isSome = _
  exact replaceAll_isSome s log b R hR a

theorem dedupFirst_of_nodup (l seen : List CHash) (hnd : l.Nodup) (h : ∀ c ∈ l, c ∉ seen) : dedupFirst seen l = l := by
  induction l generalizing seen with
  | nil => rfl
  | cons c r ih =>
    simp only [List.nodup_cons] at hnd
    unfold dedupFirst
    simp only [h c List.mem_cons_self, if_false]
    rw [ih (c :: seen) hnd.2 (by
      intro x hx hm
      rcases List.mem_cons.mp hm with e | hm'
      · subst e; exact hnd.1 hx
      · exact h x (List.mem_cons_of_mem _ hx) hm')]

theorem legacy_revert_succeeds (fix : Bool) (d : Diff) (rest : List Diff) (s : LState) (hinv : LInv (d :: rest) s)
    (hv : Valid rest d) : ∃ s', s.revert fix rest.length d = .ok s' := by
  have hwf := hv.wf
  have hc : ∀ a, isSystem a = false → ((absOf (d :: rest)).dep a).isSome = true → (bget s.classHash a).isSome = true := by
    intro a hns h
    rw [hinv.classHash a hns]
    simpa using h
  -- the class-by-class removal
  obtain ⟨cl, hcl⟩ := undeclareM_succeeds rest.length d.classHashes hwf.declNodup s.classes (by
    intro c hc'
    rw [hinv.classes c]
    show (((absOf rest).apply rest.length d).decl c).isSome = true
    simp only [AbsSt.apply]
    have hm : c ∈ d.newClasses := by unfold Diff.newClasses; exact List.mem_append_left _ hc'
    cases (absOf rest).decl c <;> simp [hm])
  have gN : (rest.length != 0 && d.nonces.any (fun p =>
      (legacyValueAt (lget s.logs (.nonce p.1)) (rest.length - 1)).isNone)) = false := by
    by_cases hb : rest.length = 0
    · simp [hb]
    · have : d.nonces.any (fun p => (legacyValueAt (lget s.logs (.nonce p.1)) (rest.length - 1)).isNone) = false := by
        apply List.any_eq_false.mpr
        intro p hp
        rw [hinv.logs]
        have := logged_valueAt_isSome d rest (.nonce p.1) (by simpa [logged] using alook_isSome_of_mem d.nonces p hp) hb
        simp [Option.isNone_iff_eq_none, Option.isSome_iff_ne_none.mp this]
      simp [this]
  have gR : (rest.length != 0 && d.replaced.any (fun p =>
      (legacyValueAt (lget s.logs (.classHash p.1)) (rest.length - 1)).isNone)) = false := by
    by_cases hb : rest.length = 0
    · simp [hb]
    · have : d.replaced.any (fun p => (legacyValueAt (lget s.logs (.classHash p.1)) (rest.length - 1)).isNone) = false := by
        apply List.any_eq_false.mpr
        intro p hp
        rw [hinv.logs]
        have := logged_valueAt_isSome d rest (.classHash p.1) (by simpa [logged] using alook_isSome_of_mem d.replaced p hp) hb
        simp [Option.isNone_iff_eq_none, Option.isSome_iff_ne_none.mp this]
      simp [this]
  have hlist : (if fix = true then dedupFirst [] d.classHashes else d.classHashes) = d.classHashes := by
    cases fix
    · rfl
    · exact dedupFirst_of_nodup d.classHashes [] hwf.declNodup (by intro c _ hm; cases hm)
  unfold LState.revert
  simp only [hlist, hcl, gN, gR, Bool.false_eq_true, if_false]
  -- the reverse diff is applied
  have hkR : ∀ (f : Addr → CHash → CHash), ((d.replaced.map (fun p => (p.1, f p.1 p.2))).map (·.1)) = d.replaced.map (·.1) :=
    fun f => map_map_fst d.replaced f
  generalize hrr : (d.replaced.map (fun p => (p.1, if rest.length = 0 then 0 else
    (legacyValueAt (lget s.logs (.classHash p.1)) (rest.length - 1)).getD 0))) = rr
  generalize hrn : (d.nonces.map (fun p => (p.1, if rest.length = 0 then 0 else
    (legacyValueAt (lget s.logs (.nonce p.1)) (rest.length - 1)).getD 0))) = rn
  have hrrk : rr.map (·.1) = d.replaced.map (·.1) := by
    rw [← hrr]; exact map_map_fst d.replaced (fun a _ => if rest.length = 0 then 0 else
      (legacyValueAt (lget s.logs (.classHash a)) (rest.length - 1)).getD 0)
  have hrnk : rn.map (·.1) = d.nonces.map (·.1) := by
    rw [← hrn]; exact map_map_fst d.nonces (fun a _ => if rest.length = 0 then 0 else
      (legacyValueAt (lget s.logs (.nonce a)) (rest.length - 1)).getD 0)
  generalize hrs : (LState.reverseStorage { s with classes := undeclareFold cl rest.length (d.deployed.map Prod.snd) }
    rest.length d) = rs
  have hrsk : rs.map (·.1) = d.storage.map (·.1) := by
    rw [← hrs]; unfold LState.reverseStorage
    simp [List.map_map, Function.comp_def]
  obtain ⟨s3, hs3⟩ := updateContracts_succeeds
    ({ s with classes := undeclareFold cl rest.length (d.deployed.map Prod.snd),
              logs := logsDelAll s.logs rest.length d } : LState) false rest.length rr rn rs
    (by rw [hrrk]; exact hwf.repNodup)
    (by
      intro p hp
      have hm : p.1 ∈ d.replaced.map (·.1) := by rw [← hrrk]; exact List.mem_map.mpr ⟨p, hp, rfl⟩
      obtain ⟨q, hq, he⟩ := List.mem_map.mp hm
      exact hc p.1 (replaced_not_system d hwf p.1 hm) (by rw [← he]; exact hv.repOld q hq))
    (by
      intro p hp
      have hm : p.1 ∈ d.nonces.map (·.1) := by rw [← hrnk]; exact List.mem_map.mpr ⟨p, hp, rfl⟩
      obtain ⟨q, hq, he⟩ := List.mem_map.mp hm
      exact hc p.1 (nonces_not_system d hwf p.1 hm) (by rw [← he]; exact hv.nonceOld q hq))
    (by
      intro p hp
      cases hs : isSystem p.1 with
      | true => exact Or.inl rfl
      | false =>
        right
        have hm : p.1 ∈ d.storage.map (·.1) := by rw [← hrsk]; exact List.mem_map.mpr ⟨p, hp, rfl⟩
        obtain ⟨q, hq, he⟩ := List.mem_map.mp hm
        exact hc p.1 hs (by rw [← he]; exact hv.storOld q hq (by rw [he]; exact hs)))
  simp only [hs3]
  obtain ⟨e3, _, _, _⟩ := updateContracts_ok _ _ _ _ _ _ _ hs3
  have gD : d.deployed.any (fun p => (bget s3.classHash p.1).isNone) = false := by
    apply List.any_eq_false.mpr
    intro p hp
    have hm : p.1 ∈ d.deployed.map (·.1) := List.mem_map.mpr ⟨p, hp, rfl⟩
    have hns := deployed_not_system d hwf p.1 hm
    have hdep : ((absOf (d :: rest)).dep p.1).isSome = true := by
      rw [dep_cons]
      obtain ⟨v, hv'⟩ := Option.isSome_iff_exists.mp ((alook_isSome_iff d.deployed p.1).mpr hm)
      simp [hv']
    have hsome := hc p.1 hns hdep
    have hiso := afterContracts_isSome
      ({ s with classes := undeclareFold cl rest.length (d.deployed.map Prod.snd),
                logs := logsDelAll s.logs rest.length d } : LState) false rest.length rr rn rs
      (by rw [hrrk]; exact hwf.repNodup) p.1 hns
    have hsome' : (bget s3.classHash p.1).isSome = true := by rw [e3, hiso]; exact hsome
    simp [Option.isNone_iff_eq_none, Option.isSome_iff_ne_none.mp hsome']
  simp only [gD, Bool.false_eq_true, if_false]
  exact ⟨_, rfl⟩

/-! ### histories -/

/-- a history of valid blocks runs on any backend whose `update` / `revert` succeed on valid blocks
under an invariant they maintain -/
theorem run_progress {σ : Type} (be : Backend σ) (hmf : be.migFix = false) (I : List Diff → σ → Prop)
    (hstore : ∀ ch s s' d, I ch s → d.WF → be.update s ch.length d = .ok s' → I (d :: ch) s')
    (hrevert : ∀ d rest s s', I (d :: rest) s → be.revert s rest.length d = .ok s' → I rest s')
    (hsu : ∀ ch s d, I ch s → Valid ch d → ∃ s', be.update s ch.length d = .ok s')
    (hre : ∀ d rest s, I (d :: rest) s → Valid rest d → ∃ s', be.revert s rest.length d = .ok s')
    (ops : List Op) (nd : Node σ) (hI : I nd.chain nd.st) (hM : MInv nd.chain nd.casmMeta)
    (hV : ValidChain nd.chain) (hops : OpsValid ops nd.chain) : ∃ nd', run be nd ops = some nd' := by
  induction ops generalizing nd with
  | nil => exact ⟨nd, rfl⟩
  | cons op rest ih =>
    have hlen : nd.blocks.length = nd.chain.length := by simp [Node.chain]
    cases op with
    | store id d =>
      obtain ⟨hv, hops'⟩ := hops
      obtain ⟨s', hu⟩ := hsu nd.chain nd.st d hI hv
      obtain ⟨m', hm⟩ := meta_store_succeeds nd.chain nd.casmMeta d hM hv
      have hstep : nd.step be (.store id d) =
          .ok ⟨s', (id, d) :: nd.blocks, m', bset nd.hashIdx id (some nd.blocks.length)⟩ := by
        show nd.store be id d = _
        unfold Node.store
        rw [hlen]
        simp only [hu, metaStoreOf, hmf, Bool.false_eq_true, if_false, hm]
      unfold run
      simp only [hstep]
      apply ih
      · exact hstore nd.chain nd.st s' d hI hv.wf hu
      · exact minv_store nd.chain nd.casmMeta m' d hM hv.casm (migVal_of_ownHash _ _ hv.ownHash) hm
      · exact ⟨hv, hV⟩
      · exact hops'
    | revert =>
      obtain ⟨hne, hops'⟩ := hops
      cases hb : nd.blocks with
      | nil => simp [Node.chain, hb] at hne
      | cons p bs =>
        obtain ⟨id, d⟩ := p
        have hc : nd.chain = d :: bs.map (·.2) := by simp [Node.chain, hb]
        have hbl : bs.length = (bs.map (·.2)).length := by simp
        rw [hc] at hI hM hV hops'
        obtain ⟨hchk, m', hm⟩ := meta_revert_succeeds d (bs.map (·.2)) nd.casmMeta hM
        obtain ⟨s', hr⟩ := hre d (bs.map (·.2)) nd.st hI hV.1
        have hstep : nd.step be .revert = .ok ⟨s', bs, m', bset nd.hashIdx id none⟩ := by
          show nd.revert be = _
          unfold Node.revert
          rw [hb]
          simp only [hchk, Bool.not_true, Bool.false_eq_true, if_false]
          rw [hbl]
          simp only [hr, hm]
        unfold run
        simp only [hstep]
        apply ih
        · exact hrevert d (bs.map (·.2)) nd.st s' hI hr
        · exact minv_revert d (bs.map (·.2)) nd.casmMeta m' hM hm
        · exact hV.2
        · have : OpsValid rest (bs.map (·.2)) := by simpa using hops'
          exact this

end Juno.C03