import JunoModel.C03.ProofsChain
/-!
C03 — helper lemmas. Part 6: the new backend. `NInv ch s` ties the concrete state to the chain;
it holds initially, `Update` extends it, `Revert` restores it; reads follow from it.
-/
namespace Juno.C03

structure NInv (cfg : Cfg) (ch : List Diff) (s : NState) : Prop where
  wf : ∀ d ∈ ch, d.WF
  depOnce : DepOnce ch
  undep : Hered UndepZero ch
  hist : ∀ key, lget s.hist key = histOf ch key
  contracts : ∀ a, isSystem a = false →
    bget s.contracts a =
      ((absOf ch).dep a).map (fun h => (⟨(absOf ch).nonce a, (absOf ch).cls a, h⟩ : Contract))
  trie : ∀ a k, tget (lget s.trie a) k = (absOf ch).stor a k
  trieNZ : ∀ a, NoZero (lget s.trie a)
  leaves : cfg.leafFix = true → ∀ a, lget s.leaves a = lget s.trie a
  classes : ∀ c, bget s.classes c = (absOf ch).decl c

theorem ninv_init (cfg : Cfg) : NInv cfg [] NState.empty where
  wf := by intro d hd; cases hd
  depOnce := trivial
  undep := undepZero_nil
  hist := by intro key; rfl
  contracts := by intro a _; rfl
  trie := by intro a k; rfl
  trieNZ := by intro a p hp; cases hp
  leaves := by intro _ a; rfl
  classes := by intro c; rfl

/-- the four guards of `State.Update`, as facts -/
structure NGuards (s : NState) (b : Nat) (d : Diff) : Prop where
  g1 : ∀ p ∈ d.deployed, bget s.contracts p.1 = none
  g2 : ∀ p ∈ d.replaced, (bget (deployC s.contracts b d.deployed) p.1).isSome = true
  g3 : ∀ p ∈ d.nonces, (bget (setClassC (deployC s.contracts b d.deployed) d.replaced) p.1).isSome = true
  g4 : ∀ p ∈ d.storage,
    (bget (setNonceC (setClassC (deployC s.contracts b d.deployed) d.replaced) d.nonces) p.1).isSome = true ∨
      isSystem p.1 = true

/-- the result of a successful `State.Update` -/
theorem update_ok (cfg : Cfg) (s s' : NState) (b : Nat) (d : Diff) (h : s.update cfg b d = .ok s') :
    NGuards s b d ∧
    s' =
      (let c4 := setNonceC (setClassC (deployC s.contracts b d.deployed) d.replaced) d.nonces
       let c5 := sysCreateC c4 b (d.storage.map (·.1))
       let tl := writeSlots cfg (s.trie, s.leaves) d.storage
       let cl := purgeSys tl.1 (c5, tl.2) d.touched
       { contracts := cl.1, trie := tl.1, leaves := cl.2,
         classes := declareFold s.classes b d.newClasses,
         hist := histPutAll cfg.histOrderFix s.hist b d }) := by
  unfold NState.update at h
  by_cases h1 : (d.deployed.any fun p => (bget s.contracts p.1).isSome) = true
  · simp [h1] at h
  · simp only [h1, Bool.false_eq_true, if_false] at h
    by_cases h2 : (d.replaced.any fun p => (bget (deployC s.contracts b d.deployed) p.1).isNone) = true
    · simp [h2] at h
    · simp only [h2, Bool.false_eq_true, if_false] at h
      by_cases h3 : (d.nonces.any fun p =>
          (bget (setClassC (deployC s.contracts b d.deployed) d.replaced) p.1).isNone) = true
      · simp [h3] at h
      · simp only [h3, Bool.false_eq_true, if_false] at h
        by_cases h4 : (d.storage.any fun p =>
            (bget (setNonceC (setClassC (deployC s.contracts b d.deployed) d.replaced) d.nonces) p.1).isNone &&
              !isSystem p.1) = true
        · simp [h4] at h
        · simp only [h4, Bool.false_eq_true, if_false] at h
          refine ⟨⟨?_, ?_, ?_, ?_⟩, ?_⟩
          · intro p hp
            have := fun hh => h1 (List.any_eq_true.mpr ⟨p, hp, hh⟩)
            cases hb : bget s.contracts p.1 with
            | none => rfl
            | some x => exact absurd (by simp [hb]) this
          · intro p hp
            have := fun hh => h2 (List.any_eq_true.mpr ⟨p, hp, hh⟩)
            cases hb : bget (deployC s.contracts b d.deployed) p.1 with
            | none => exact absurd (by simp [hb]) this
            | some x => rfl
          · intro p hp
            have := fun hh => h3 (List.any_eq_true.mpr ⟨p, hp, hh⟩)
            cases hb : bget (setClassC (deployC s.contracts b d.deployed) d.replaced) p.1 with
            | none => exact absurd (by simp [hb]) this
            | some x => rfl
          · intro p hp
            have := fun hh => h4 (List.any_eq_true.mpr ⟨p, hp, hh⟩)
            cases hb : bget (setNonceC (setClassC (deployC s.contracts b d.deployed) d.replaced) d.nonces) p.1 with
            | none =>
              right
              cases hs : isSystem p.1 with
              | true => rfl
              | false => exact absurd (by simp [hb, hs]) this
            | some x => left; rfl
          · cases h; rfl


theorem mem_keys_of_alook {β : Type} (l : List (Nat × β)) (a : Nat) (v : β) (h : alook l a = some v) :
    (a, v) ∈ l := mem_of_alook_eq_some l a v h

/-- contract records of ordinary contracts after `Update` -/
theorem update_contracts (cfg : Cfg) (ch : List Diff) (s : NState) (d : Diff) (hinv : NInv cfg ch s) (hwf : d.WF)
    (hg : NGuards s ch.length d) (a : Addr) (ha : isSystem a = false) :
    bget (setNonceC (setClassC (deployC s.contracts ch.length d.deployed) d.replaced) d.nonces) a =
      ((absOf (d :: ch)).dep a).map
        (fun h => (⟨(absOf (d :: ch)).nonce a, (absOf (d :: ch)).cls a, h⟩ : Contract)) := by
  rw [setNonceC_get _ _ hwf.nonceNodup, setClassC_get _ _ hwf.repNodup, deployC_get _ _ _ hwf.depNodup]
  rw [hinv.contracts a ha]
  change _ = (((absOf ch).apply ch.length d).dep a).map
    (fun h => (⟨((absOf ch).apply ch.length d).nonce a, ((absOf ch).apply ch.length d).cls a, h⟩ : Contract))
  simp only [AbsSt.apply]
  have hu := hinv.undep.head a ha
  rcases hdep : alook d.deployed a with _ | c
  · -- not deployed by this block
    rcases hold : (absOf ch).dep a with _ | h
    · rcases hr : alook d.replaced a with _ | c' <;> rcases hn : alook d.nonces a with _ | v <;> simp
    · rcases hr : alook d.replaced a with _ | c' <;> rcases hn : alook d.nonces a with _ | v <;> simp
  · -- deployed by this block: no record before, so nonce 0 before
    have hmem : a ∈ d.deployed.map (·.1) := (alook_isSome_iff _ _).mp (by simp [hdep])
    have hr : alook d.replaced a = none := (alook_eq_none_iff _ _).mpr (hwf.depRepDisj a hmem)
    have hnone : bget s.contracts a = none := hg.g1 (a, c) (mem_of_alook_eq_some _ _ _ hdep)
    rw [hinv.contracts a ha] at hnone
    have hd0 : (absOf ch).dep a = none := by
      rcases hx : (absOf ch).dep a with _ | h
      · rfl
      · simp [hx] at hnone
    have hn0 := (hu hd0).2
    rcases hn : alook d.nonces a with _ | v <;> simp [hr, hn0]


/-- `sysCreateC` and `purgeSys` leave ordinary contracts alone -/
theorem sys_steps_ordinary (trie : Bucket Addr Leaves) (c : Bucket Addr Contract) (lv : Bucket Addr Leaves)
    (b : Nat) (addrs touched : List Addr) (a : Addr) (ha : isSystem a = false) :
    bget (purgeSys trie (sysCreateC c b addrs, lv) touched).1 a = bget c a := by
  have h1 := purgeSys_get trie (sysCreateC c b addrs, lv) touched a
  have h2 : bget (purgeSys trie (sysCreateC c b addrs, lv) touched).1 a =
      (clGet (purgeSys trie (sysCreateC c b addrs, lv) touched) a).1 := rfl
  rw [h2, h1, sysCreateC_get]
  simp [ha, clGet, sysCreateC_get]

/-- tries after `Update` / `Revert`'s storage writes -/
theorem writeSlots_spec (cfg : Cfg) (tr lv : Bucket Addr Leaves) (l : List (Addr × List (Slot × Val)))
    (hnd : (l.map (·.1)).Nodup) (hnds : ∀ p ∈ l, (p.2.map (·.1)).Nodup)
    (hz : ∀ a, NoZero (lget tr a)) (a : Addr) :
    (∀ k, tget (lget (writeSlots cfg (tr, lv) l).1 a) k =
      ((alook l a).bind (fun slots => alook slots k)).getD (tget (lget tr a) k)) ∧
    NoZero (lget (writeSlots cfg (tr, lv) l).1 a) ∧
    (cfg.leafFix = true → lget lv a = lget tr a →
      lget (writeSlots cfg (tr, lv) l).2 a = lget (writeSlots cfg (tr, lv) l).1 a) := by
  have h := writeSlots_get cfg (tr, lv) l hnd a
  have e1 : lget (writeSlots cfg (tr, lv) l).1 a = (lget (writeSlots cfg (tr, lv) l).1 a, lget (writeSlots cfg (tr, lv) l).2 a).1 := rfl
  have e2 : lget (writeSlots cfg (tr, lv) l).2 a = (lget (writeSlots cfg (tr, lv) l).1 a, lget (writeSlots cfg (tr, lv) l).2 a).2 := rfl
  rw [e1, e2, h]
  rcases hl : alook l a with _ | slots
  · simp only [ocases_none, Option.bind_none, Option.getD_none]
    exact ⟨fun _ => trivial, hz a, fun _ h => h⟩
  · simp only [ocases_some, Option.bind_some]
    have hs := applySlots_spec cfg (lget tr a) (lget lv a) slots
      (hnds (a, slots) (mem_of_alook_eq_some _ _ _ hl)) (hz a)
    exact ⟨hs.1, hs.2.1, hs.2.2⟩


/-- `Update` extends the invariant by the stored block -/
theorem ninv_store (cfg : Cfg) (ch : List Diff) (s s' : NState) (d : Diff) (hinv : NInv cfg ch s) (hwf : d.WF)
    (hup : s.update cfg ch.length d = .ok s') : NInv cfg (d :: ch) s' := by
  obtain ⟨hg, hs'⟩ := update_ok cfg s s' ch.length d hup
  have hc4 := update_contracts cfg ch s d hinv hwf hg
  have hdep0 : ∀ a, a ∈ d.deployed.map (·.1) → (absOf ch).dep a = none := by
    intro a ha
    obtain ⟨p, hp, rfl⟩ := List.mem_map.mp ha
    have h1 := hg.g1 p hp
    rw [hinv.contracts p.1 (deployed_not_system d hwf p.1 ha)] at h1
    rcases hx : (absOf ch).dep p.1 with _ | h
    · rfl
    · simp [hx] at h1
  -- an ordinary contract that is still not deployed has no entry in the diff
  have hnoentry : ∀ a, isSystem a = false → (absOf (d :: ch)).dep a = none →
      alook d.storage a = none ∧ alook d.nonces a = none := by
    intro a ha hd
    have hc := hc4 a ha
    rw [hd] at hc
    simp only [Option.map_none] at hc
    constructor
    · rcases hx : alook d.storage a with _ | slots
      · rfl
      · have := hg.g4 (a, slots) (mem_of_alook_eq_some _ _ _ hx)
        simp [hc, ha] at this
    · rcases hx : alook d.nonces a with _ | v
      · rfl
      · have := hg.g3 (a, v) (mem_of_alook_eq_some _ _ _ hx)
        have hc3 : bget (setClassC (deployC s.contracts ch.length d.deployed) d.replaced) a = none := by
          rw [setNonceC_get _ _ hwf.nonceNodup, hx] at hc
          simp only [ocases_some, Option.map_eq_none_iff] at hc
          exact hc
        simp [hc3] at this
  subst hs'
  refine ⟨?_, ?_, ?_, ?_, ?_, ?_, ?_, ?_, ?_⟩
  · intro x hx
    rcases List.mem_cons.mp hx with e | e
    · subst e; exact hwf
    · exact hinv.wf x e
  · exact ⟨hdep0, hinv.depOnce⟩
  · refine ⟨?_, hinv.undep⟩
    intro a ha hd
    have hne := hnoentry a ha hd
    have hd' : (absOf ch).dep a = none := by
      change ((absOf ch).apply ch.length d).dep a = none at hd
      simp only [AbsSt.apply] at hd
      rcases hx : alook d.deployed a with _ | c
      · simpa [hx] using hd
      · simp [hx] at hd
    have hold := hinv.undep.head a ha hd'
    change (∀ k, ((absOf ch).apply ch.length d).stor a k = 0) ∧ ((absOf ch).apply ch.length d).nonce a = 0
    simp only [AbsSt.apply, Diff.storageAt, hne.1, hne.2, Option.bind_none, Option.getD_none]
    exact hold
  · intro key
    simp only
    rw [histPutAll_get _ _ _ _ hwf, hinv.hist key]
    simp only [histOf]
    rcases entryOf d key with _ | v
    · rfl
    · simp only [ocases_some]
      exact hput_below _ _ _ (histOf_below ch key)
  · intro a ha
    simp only
    rw [sys_steps_ordinary _ _ _ _ _ _ a ha]
    exact hc4 a ha
  · intro a k
    simp only
    rw [(writeSlots_spec cfg s.trie s.leaves d.storage hwf.storNodup hwf.slotNodup hinv.trieNZ a).1 k, hinv.trie a k]
    rfl
  · intro a
    exact (writeSlots_spec cfg s.trie s.leaves d.storage hwf.storNodup hwf.slotNodup hinv.trieNZ a).2.1
  · intro hfix a
    simp only
    have hp := purgeSys_get (writeSlots cfg (s.trie, s.leaves) d.storage).1
      (sysCreateC (setNonceC (setClassC (deployC s.contracts ch.length d.deployed) d.replaced) d.nonces) ch.length
        (d.storage.map (·.1)), (writeSlots cfg (s.trie, s.leaves) d.storage).2) d.touched a
    have e2 : ∀ (x : Bucket Addr Contract × Bucket Addr Leaves), lget x.2 a = (clGet x a).2 := fun _ => rfl
    rw [e2, hp]
    have hw := (writeSlots_spec cfg s.trie s.leaves d.storage hwf.storNodup hwf.slotNodup hinv.trieNZ a).2.2 hfix
      (hinv.leaves hfix a)
    split
    · next hhit =>
      have : (lget (writeSlots cfg (s.trie, s.leaves) d.storage).1 a).isEmpty = true := hhit.2.2.2
      simp only [List.isEmpty_iff] at this
      simp [this]
    · simpa [clGet] using hw
  · intro c
    simp only
    rw [declareFold_get, hinv.classes c]
    change _ = ((absOf ch).apply ch.length d).decl c
    simp only [AbsSt.apply]
    rcases hx : (absOf ch).decl c with _ | n
    · by_cases hc : c ∈ d.newClasses <;> simp [hc]
    · simp


/-! ### Revert -/

theorem revert_ok (cfg : Cfg) (s s' : NState) (b : Nat) (d : Diff) (h : s.revert cfg b d = .ok s') :
    s' =
      (let rs := s.reverseStorage b d
       let rn := s.reverseNonces b d
       let rr := s.reverseReplaced b d
       let c3 := setNonceC (setClassC s.contracts rr) rn
       let c4 := sysCreateC c3 b (rs.map (·.1))
       let tl := writeSlots cfg (s.trie, s.leaves) rs
       let x := deleteContracts (c4, tl.1, tl.2) d.deployed
       let cl := purgeSys x.2.1 (x.1, x.2.2) d.touched
       { contracts := cl.1, trie := x.2.1, leaves := cl.2,
         classes := undeclareFold s.classes b d.revertClasses,
         hist := histDelAll s.hist b d }) := by
  unfold NState.revert at h
  simp only at h
  split at h
  · cases h
  · split at h
    · cases h
    · split at h
      · cases h
      · split at h
        · cases h
        · cases h; rfl

theorem deleteContracts_get (x : Bucket Addr Contract × Bucket Addr Leaves × Bucket Addr Leaves)
    (l : List (Addr × CHash)) (a : Addr) :
    (bget (deleteContracts x l).1 a, lget (deleteContracts x l).2.1 a, lget (deleteContracts x l).2.2 a) =
      if a ∈ l.map (·.1) then (none, [], []) else (bget x.1 a, lget x.2.1 a, lget x.2.2 a) := by
  unfold deleteContracts
  induction l generalizing x with
  | nil => simp
  | cons p r ih =>
    simp only [List.foldl_cons]
    rw [ih]
    simp only [bget_bset, lget_lset, List.map_cons, List.mem_cons]
    by_cases h1 : a ∈ r.map (·.1)
    · simp [h1]
    · by_cases h2 : a = p.1 <;> simp [h1, h2]

theorem purgeSys_ordinary (trie : Bucket Addr Leaves) (cl : Bucket Addr Contract × Bucket Addr Leaves)
    (touched : List Addr) (a : Addr) (ha : isSystem a = false) :
    bget (purgeSys trie cl touched).1 a = bget cl.1 a := by
  have h1 := purgeSys_get trie cl touched a
  have h2 : bget (purgeSys trie cl touched).1 a = (clGet (purgeSys trie cl touched) a).1 := rfl
  rw [h2, h1]
  simp [ha, clGet]

theorem sysCreateC_ordinary (c : Bucket Addr Contract) (b : Nat) (addrs : List Addr) (a : Addr)
    (ha : isSystem a = false) : bget (sysCreateC c b addrs) a = bget c a := by
  rw [sysCreateC_get]; simp [ha]

/-- the values `GetReverseStateDiff` reads are those of the state before the block -/
theorem ninv_reverse_value (cfg : Cfg) (d : Diff) (rest : List Diff) (s : NState) (hinv : NInv cfg (d :: rest) s)
    (key : HKey) :
    (if rest.length = 0 then 0 else newHistorical (lget s.hist key) (rest.length - 1)) = keyVal (absOf rest) key := by
  rw [hinv.hist key]
  exact reverse_value d rest hinv.wf key

/-- `Revert` of the head block restores the invariant of the chain without it -/
theorem ninv_revert (cfg : Cfg) (d : Diff) (rest : List Diff) (s s' : NState) (hinv : NInv cfg (d :: rest) s)
    (hrev : s.revert cfg rest.length d = .ok s') : NInv cfg rest s' := by
  have hs' := revert_ok cfg s s' rest.length d hrev
  have hwf : d.WF := hinv.wf d List.mem_cons_self
  have hrv := ninv_reverse_value cfg d rest s hinv
  -- lookups in the reverse diff
  have hrs : ∀ a k, ((alook (s.reverseStorage rest.length d) a).bind (fun slots => alook slots k)) =
      (d.storageAt a k).map (fun _ => (absOf rest).stor a k) := by
    intro a k
    unfold NState.reverseStorage Diff.storageAt
    rw [alook_map_key d.storage (fun a slots => slots.map (fun e =>
      (e.1, if rest.length = 0 then 0 else newHistorical (lget s.hist (.storage a e.1)) (rest.length - 1)))) a]
    rcases alook d.storage a with _ | slots
    · rfl
    · simp only [Option.map_some, Option.bind_some]
      rw [alook_map_key slots (fun k _ =>
        if rest.length = 0 then 0 else newHistorical (lget s.hist (.storage a k)) (rest.length - 1)) k]
      rw [hrv (.storage a k)]
      rfl
  have hrn : ∀ a, alook (s.reverseNonces rest.length d) a = (alook d.nonces a).map (fun _ => (absOf rest).nonce a) := by
    intro a
    unfold NState.reverseNonces
    rw [alook_map_key d.nonces (fun a _ =>
      if rest.length = 0 then 0 else newHistorical (lget s.hist (.nonce a)) (rest.length - 1)) a, hrv (.nonce a)]
    rfl
  have hrr : ∀ a, alook (s.reverseReplaced rest.length d) a = (alook d.replaced a).map (fun _ => (absOf rest).cls a) := by
    intro a
    unfold NState.reverseReplaced
    rw [alook_map_key d.replaced (fun a _ =>
      if rest.length = 0 then 0 else newHistorical (lget s.hist (.classHash a)) (rest.length - 1)) a, hrv (.classHash a)]
    rfl
  have hndS : ((s.reverseStorage rest.length d).map (·.1)).Nodup := by
    unfold NState.reverseStorage
    rw [map_map_fst d.storage (fun a slots => slots.map (fun e =>
      (e.1, if rest.length = 0 then 0 else newHistorical (lget s.hist (.storage a e.1)) (rest.length - 1))))]
    exact hwf.storNodup
  have hndSS : ∀ p ∈ s.reverseStorage rest.length d, (p.2.map (·.1)).Nodup := by
    intro p hp
    unfold NState.reverseStorage at hp
    obtain ⟨q, hq, rfl⟩ := List.mem_map.mp hp
    simp only
    rw [map_map_fst q.2 (fun k _ =>
      if rest.length = 0 then 0 else newHistorical (lget s.hist (.storage q.1 k)) (rest.length - 1))]
    exact hwf.slotNodup q hq
  have hndN : ((s.reverseNonces rest.length d).map (·.1)).Nodup := by
    unfold NState.reverseNonces
    rw [map_map_fst d.nonces (fun a _ =>
      if rest.length = 0 then 0 else newHistorical (lget s.hist (.nonce a)) (rest.length - 1))]
    exact hwf.nonceNodup
  have hndR : ((s.reverseReplaced rest.length d).map (·.1)).Nodup := by
    unfold NState.reverseReplaced
    rw [map_map_fst d.replaced (fun a _ =>
      if rest.length = 0 then 0 else newHistorical (lget s.hist (.classHash a)) (rest.length - 1))]
    exact hwf.repNodup
  have hws := writeSlots_spec cfg s.trie s.leaves (s.reverseStorage rest.length d) hndS hndSS hinv.trieNZ
  have hdc := deleteContracts_get
    (sysCreateC (setNonceC (setClassC s.contracts (s.reverseReplaced rest.length d)) (s.reverseNonces rest.length d))
      rest.length ((s.reverseStorage rest.length d).map (·.1)),
     (writeSlots cfg (s.trie, s.leaves) (s.reverseStorage rest.length d)).1,
     (writeSlots cfg (s.trie, s.leaves) (s.reverseStorage rest.length d)).2) d.deployed
  -- the abstract state of the head in terms of the one before
  have habs : absOf (d :: rest) = (absOf rest).apply rest.length d := rfl
  subst hs'
  refine ⟨?_, hinv.depOnce.2, hinv.undep.2, ?_, ?_, ?_, ?_, ?_, ?_⟩
  · intro x hx; exact hinv.wf x (List.mem_cons_of_mem _ hx)
  · -- history entries of the block are gone
    intro key
    simp only
    rw [histDelAll_get _ _ _ hwf, hinv.hist key]
    simp only [histOf]
    rcases he : entryOf d key with _ | v
    · simp only
      split
      · exact hdel_below _ _ (histOf_below rest key)
      · rfl
    · have hdk : delKey d key = true := by
        cases key with
        | storage a k => simpa [delKey, entryOf] using (by rw [show d.storageAt a k = some v from he]; rfl : (d.storageAt a k).isSome = true)
        | nonce a => simp only [entryOf] at he; simp [delKey, he]
        | classHash a =>
          simp only [entryOf] at he
          rcases hd : alook d.deployed a with _ | c
          · simp only [hd] at he; simp [delKey, he]
          · simp [delKey, hd]
      simp only [hdk, if_true]
      exact hdel_append_last _ _ _ (histOf_below rest key)
  · -- contract records
    intro a ha
    simp only
    rw [purgeSys_ordinary _ _ _ a ha]
    have h1 := congrArg Prod.fst (hdc a)
    simp only at h1
    rw [h1]
    by_cases hmem : a ∈ d.deployed.map (·.1)
    · simp only [hmem, if_true]
      rw [hinv.depOnce.1 a hmem]; rfl
    · simp only [hmem, if_false]
      rw [sysCreateC_ordinary _ _ _ a ha, setNonceC_get _ _ hndN, setClassC_get _ _ hndR, hrn, hrr,
        hinv.contracts a ha, habs]
      have hdn : alook d.deployed a = none := (alook_eq_none_iff _ _).mpr hmem
      simp only [AbsSt.apply, hdn]
      rcases hold : (absOf rest).dep a with _ | h
      · rcases hr : alook d.replaced a with _ | c' <;> rcases hn : alook d.nonces a with _ | v <;> simp
      · rcases hr : alook d.replaced a with _ | c' <;> rcases hn : alook d.nonces a with _ | v <;> simp
  · -- tries
    intro a k
    simp only
    have h1 := congrArg (fun t => t.2.1) (hdc a)
    simp only at h1
    rw [h1]
    by_cases hmem : a ∈ d.deployed.map (·.1)
    · simp only [hmem, if_true]
      have := (hinv.undep.2.head a (deployed_not_system d hwf a hmem) (hinv.depOnce.1 a hmem)).1 k
      rw [this]; rfl
    · simp only [hmem, if_false]
      rw [(hws a).1 k, hrs a k, hinv.trie a k, habs]
      simp only [AbsSt.apply]
      rcases d.storageAt a k with _ | v <;> rfl
  · intro a
    simp only
    have h1 := congrArg (fun t => t.2.1) (hdc a)
    simp only at h1
    rw [h1]
    by_cases hmem : a ∈ d.deployed.map (·.1)
    · simp only [hmem, if_true]; intro p hp; cases hp
    · simp only [hmem, if_false]; exact (hws a).2.1
  · intro hfix a
    simp only
    have hp := purgeSys_get
      (deleteContracts
        (sysCreateC (setNonceC (setClassC s.contracts (s.reverseReplaced rest.length d)) (s.reverseNonces rest.length d))
          rest.length ((s.reverseStorage rest.length d).map (·.1)),
         (writeSlots cfg (s.trie, s.leaves) (s.reverseStorage rest.length d)).1,
         (writeSlots cfg (s.trie, s.leaves) (s.reverseStorage rest.length d)).2) d.deployed).2.1
      ((deleteContracts
        (sysCreateC (setNonceC (setClassC s.contracts (s.reverseReplaced rest.length d)) (s.reverseNonces rest.length d))
          rest.length ((s.reverseStorage rest.length d).map (·.1)),
         (writeSlots cfg (s.trie, s.leaves) (s.reverseStorage rest.length d)).1,
         (writeSlots cfg (s.trie, s.leaves) (s.reverseStorage rest.length d)).2) d.deployed).1,
       (deleteContracts
        (sysCreateC (setNonceC (setClassC s.contracts (s.reverseReplaced rest.length d)) (s.reverseNonces rest.length d))
          rest.length ((s.reverseStorage rest.length d).map (·.1)),
         (writeSlots cfg (s.trie, s.leaves) (s.reverseStorage rest.length d)).1,
         (writeSlots cfg (s.trie, s.leaves) (s.reverseStorage rest.length d)).2) d.deployed).2.2) d.touched a
    have e2 : ∀ (x : Bucket Addr Contract × Bucket Addr Leaves), lget x.2 a = (clGet x a).2 := fun _ => rfl
    rw [e2, hp]
    have h21 := congrArg (fun t => t.2.1) (hdc a)
    have h22 := congrArg (fun t => t.2.2) (hdc a)
    simp only at h21 h22
    split
    · next hhit =>
      have := hhit.2.2.2
      simp only [List.isEmpty_iff] at this
      simp [this]
    · simp only [clGet]
      rw [h21, h22]
      by_cases hmem : a ∈ d.deployed.map (·.1)
      · simp [hmem]
      · simp only [hmem, if_false]
        exact (hws a).2.2 hfix (hinv.leaves hfix a)
  · intro c
    simp only
    rw [undeclareFold_get, hinv.classes c, habs]
    simp only [AbsSt.apply]
    by_cases hx : (absOf rest).decl c = none
    · by_cases hc : c ∈ d.newClasses
      · have := newClasses_sub_revert d hwf c hc
        simp [hx, hc, this]
      · simp [hx, hc]
    · obtain ⟨n, hn⟩ := Option.ne_none_iff_exists'.mp hx
      have := decl_lt rest c n hn
      have hne : n ≠ rest.length := by omega
      simp [hn, hne]


/-! ### Reads -/

theorem ninv_deployedAt (cfg : Cfg) (ch : List Diff) (s : NState) (hinv : NInv cfg ch s) (a : Addr) (n : Nat)
    (ha : isSystem a = false) : s.deployedAt cfg a n = ((absAt ch n).dep a).isSome := by
  unfold NState.deployedAt
  rw [hinv.contracts a ha, dep_at_iff ch hinv.depOnce a n]
  rcases hd : (absOf ch).dep a with _ | h <;> simp [ha]

theorem ninv_histValue (cfg : Cfg) (ch : List Diff) (s : NState) (hinv : NInv cfg ch s) (key : HKey) (n : Nat) :
    newHistorical (lget s.hist key) n = keyVal (absAt ch n) key := by
  rw [hinv.hist key]; exact histOf_value ch hinv.wf key n

/-- historical reads of the new backend are the abstract state at the block -/
theorem ninv_histRead (cfg : Cfg) (ch : List Diff) (s : NState) (hinv : NInv cfg ch s) (n : Nat) (q : Query)
    (hq : q.ordinary) : NState.histRead cfg s n q = (absAt ch n).read q := by
  cases q with
  | classHash a =>
    simp only [NState.histRead, AbsSt.read, ninv_deployedAt cfg ch s hinv a n hq, ninv_histValue cfg ch s hinv]
    rfl
  | nonce a =>
    simp only [NState.histRead, AbsSt.read, ninv_deployedAt cfg ch s hinv a n hq, ninv_histValue cfg ch s hinv]
    rfl
  | storage a k =>
    simp only [NState.histRead, AbsSt.read, ninv_deployedAt cfg ch s hinv a n hq, ninv_histValue cfg ch s hinv]
    rfl
  | cls c =>
    simp only [NState.histRead, AbsSt.read, hinv.classes c, decl_at_iff ch c n]
    by_cases hx : (absOf ch).decl c = none
    · simp [hx]
    · obtain ⟨m, hm⟩ := Option.ne_none_iff_exists'.mp hx
      by_cases hle : m ≤ n
      · have : ¬ n < m := by omega
        simp [hm, hle, this]
      · have : n < m := by omega
        simp [hm, hle, this]

/-- head reads of the new backend are the abstract state after the last block (storage: the slot
value whether or not the contract exists — juno's `StateReader.ContractStorage` contract — and
only in the variant whose trie deletes leaves properly) -/
theorem ninv_headRead (cfg : Cfg) (ch : List Diff) (s : NState) (hinv : NInv cfg ch s) (q : Query) :
    (∀ a, q = .classHash a → isSystem a = false → s.headRead q = (absOf ch).read q) ∧
    (∀ a, q = .nonce a → isSystem a = false → s.headRead q = (absOf ch).read q) ∧
    (∀ a k, q = .storage a k → cfg.leafFix = true → s.headRead q = .ok ((absOf ch).stor a k)) ∧
    (∀ c, q = .cls c → s.headRead q = (absOf ch).read q) := by
  refine ⟨?_, ?_, ?_, ?_⟩
  · intro a e ha; subst e
    simp only [NState.headRead, AbsSt.read, hinv.contracts a ha]
    rcases (absOf ch).dep a with _ | h <;> simp
  · intro a e ha; subst e
    simp only [NState.headRead, AbsSt.read, hinv.contracts a ha]
    rcases (absOf ch).dep a with _ | h <;> simp
  · intro a k e hfix; subst e
    simp only [NState.headRead, hinv.leaves hfix a, hinv.trie a k]
  · intro c e; subst e
    simp only [NState.headRead, AbsSt.read, hinv.classes c]

/-- system contracts, any variant: a historical storage read never returns a wrong value -/
theorem ninv_histRead_system (cfg : Cfg) (ch : List Diff) (s : NState) (hinv : NInv cfg ch s) (n : Nat)
    (a : Addr) (k : Slot) :
    (NState.histRead cfg s n (.storage a k) = .notfound ∨
      NState.histRead cfg s n (.storage a k) = .ok ((absAt ch n).stor a k)) ∧
    (cfg.sysProbeFix = true → isSystem a = true →
      NState.histRead cfg s n (.storage a k) = .ok ((absAt ch n).stor a k)) := by
  have hv : newHistorical (lget s.hist (.storage a k)) n = (absAt ch n).stor a k :=
    ninv_histValue cfg ch s hinv (.storage a k) n
  constructor
  · simp only [NState.histRead, hv]
    by_cases hd : s.deployedAt cfg a n = true
    · right; simp [hd]
    · left; simp [hd]
  · intro hfix ha
    simp only [NState.histRead, hv, NState.deployedAt, hfix, ha, Bool.and_self, Bool.true_or, if_true]

end Juno.C03
