import JunoModel.C03.ProofsChain
/-!
C03 — helper lemmas. Part 6: the new backend. `NInv ch s` ties the concrete state to the chain;
it holds initially, `Update` extends it, `Revert` restores it; reads follow from it.
-/
namespace Juno.C03

structure NInv (cfg : Cfg) (ch : List Diff) (s : NState) : Prop where
  wf : ∀ d ∈ ch, d.WF
  depOnce : DepOnce ch
  undep : Hered UndepZero ch
  hist : ∀ key, lget s.hist key = histOf ch key
  contracts : ∀ a, isSystem a = false →
    bget s.contracts a =
      ((absOf ch).dep a).map (fun h => (⟨(absOf ch).nonce a, (absOf ch).cls a, h⟩ : Contract))
  trie : ∀ a k, tget (lget s.trie a) k = (absOf ch).stor a k
  trieNZ : ∀ a, NoZero (lget s.trie a)
  leaves : cfg.leafFix = true → ∀ a, lget s.leaves a = lget s.trie a
  classes : ∀ c, bget s.classes c = (absOf ch).decl c

theorem ninv_init (cfg : Cfg) : NInv cfg [] NState.empty where
  wf := by intro d hd; cases hd
  depOnce := trivial
  undep := undepZero_nil
  hist := by intro key; rfl
  contracts := by intro a _; rfl
  trie := by intro a k; rfl
  trieNZ := by intro a p hp; cases hp
  leaves := by intro _ a; rfl
  classes := by intro c; rfl

/-- the four guards of `State.Update`, as facts -/
structure NGuards (s : NState) (b : Nat) (d : Diff) : Prop where
  g1 : ∀ p ∈ d.deployed, bget s.contracts p.1 = none
  g2 : ∀ p ∈ d.replaced, (bget (deployC s.contracts b d.deployed) p.1).isSome = true
  g3 : ∀ p ∈ d.nonces, (bget (setClassC (deployC s.contracts b d.deployed) d.replaced) p.1).isSome = true
  g4 : ∀ p ∈ d.storage,
    (bget (setNonceC (setClassC (deployC s.contracts b d.deployed) d.replaced) d.nonces) p.1).isSome = true ∨
      isSystem p.1 = true

/-- the result of a successful `State.Update` -/
theorem update_ok (cfg : Cfg) (s s' : NState) (b : Nat) (d : Diff) (h : s.update cfg b d = .ok s') :
    NGuards s b d ∧
    s' =
      (let c4 := setNonceC (setClassC (deployC s.contracts b d.deployed) d.replaced) d.nonces
       let c5 := sysCreateC c4 b (d.storage.map (·.1))
       let tl := writeSlots cfg (s.trie, s.leaves) d.storage
       let cl := purgeSys tl.1 (c5, tl.2) d.touched
       { contracts := cl.1, trie := tl.1, leaves := cl.2,
         classes := declareFold s.classes b d.classHashes,
         hist := histPutAll s.hist b d }) := by
  unfold NState.update at h
  by_cases h1 : (d.deployed.any fun p => (bget s.contracts p.1).isSome) = true
  · simp [h1] at h
  · simp only [h1, Bool.false_eq_true, if_false] at h
    by_cases h2 : (d.replaced.any fun p => (bget (deployC s.contracts b d.deployed) p.1).isNone) = true
    · simp [h2] at h
    · simp only [h2, Bool.false_eq_true, if_false] at h
      by_cases h3 : (d.nonces.any fun p =>
          (bget (setClassC (deployC s.contracts b d.deployed) d.replaced) p.1).isNone) = true
      · simp [h3] at h
      · simp only [h3, Bool.false_eq_true, if_false] at h
        by_cases h4 : (d.storage.any fun p =>
            (bget (setNonceC (setClassC (deployC s.contracts b d.deployed) d.replaced) d.nonces) p.1).isNone &&
              !isSystem p.1) = true
        · simp [h4] at h
        · simp only [h4, Bool.false_eq_true, if_false] at h
          refine ⟨⟨?_, ?_, ?_, ?_⟩, ?_⟩
          · intro p hp
            have := fun hh => h1 (List.any_eq_true.mpr ⟨p, hp, hh⟩)
            cases hb : bget s.contracts p.1 with
            | none => rfl
            | some x => exact absurd (by simp [hb]) this
          · intro p hp
            have := fun hh => h2 (List.any_eq_true.mpr ⟨p, hp, hh⟩)
            cases hb : bget (deployC s.contracts b d.deployed) p.1 with
            | none => exact absurd (by simp [hb]) this
            | some x => rfl
          · intro p hp
            have := fun hh => h3 (List.any_eq_true.mpr ⟨p, hp, hh⟩)
            cases hb : bget (setClassC (deployC s.contracts b d.deployed) d.replaced) p.1 with
            | none => exact absurd (by simp [hb]) this
            | some x => rfl
          · intro p hp
            have := fun hh => h4 (List.any_eq_true.mpr ⟨p, hp, hh⟩)
            cases hb : bget (setNonceC (setClassC (deployC s.contracts b d.deployed) d.replaced) d.nonces) p.1 with
            | none =>
              right
              cases hs : isSystem p.1 with
              | true => rfl
              | false => exact absurd (by simp [hb, hs]) this
            | some x => left; rfl
          · cases h; rfl


theorem mem_keys_of_alook {β : Type} (l : List (Nat × β)) (a : Nat) (v : β) (h : alook l a = some v) :
    (a, v) ∈ l := mem_of_alook_eq_some l a v h

/-- contract records of ordinary contracts after `Update` -/
theorem update_contracts (cfg : Cfg) (ch : List Diff) (s : NState) (d : Diff) (hinv : NInv cfg ch s) (hwf : d.WF)
    (hg : NGuards s ch.length d) (a : Addr) (ha : isSystem a = false) :
    bget (setNonceC (setClassC (deployC s.contracts ch.length d.deployed) d.replaced) d.nonces) a =
      ((absOf (d :: ch)).dep a).map
        (fun h => (⟨(absOf (d :: ch)).nonce a, (absOf (d :: ch)).cls a, h⟩ : Contract)) := by
  rw [setNonceC_get _ _ hwf.nonceNodup, setClassC_get _ _ hwf.repNodup, deployC_get _ _ _ hwf.depNodup]
  rw [hinv.contracts a ha]
  change _ = (((absOf ch).apply ch.length d).dep a).map
    (fun h => (⟨((absOf ch).apply ch.length d).nonce a, ((absOf ch).apply ch.length d).cls a, h⟩ : Contract))
  simp only [AbsSt.apply]
  have hu := hinv.undep.head a ha
  rcases hdep : alook d.deployed a with _ | c
  · -- not deployed by this block
    rcases hold : (absOf ch).dep a with _ | h
    · rcases hr : alook d.replaced a with _ | c' <;> rcases hn : alook d.nonces a with _ | v <;> simp
    · rcases hr : alook d.replaced a with _ | c' <;> rcases hn : alook d.nonces a with _ | v <;> simp
  · -- deployed by this block: no record before, so nonce 0 before
    have hmem : a ∈ d.deployed.map (·.1) := (alook_isSome_iff _ _).mp (by simp [hdep])
    have hr : alook d.replaced a = none := (alook_eq_none_iff _ _).mpr (hwf.depRepDisj a hmem)
    have hnone : bget s.contracts a = none := hg.g1 (a, c) (mem_of_alook_eq_some _ _ _ hdep)
    rw [hinv.contracts a ha] at hnone
    have hd0 : (absOf ch).dep a = none := by
      rcases hx : (absOf ch).dep a with _ | h
      · rfl
      · simp [hx] at hnone
    have hn0 := (hu hd0).2
    rcases hn : alook d.nonces a with _ | v <;> simp [hr, hn0]

end Juno.C03
