import JunoModel.C03.ProofsNew
/-!
C03 — helper lemmas. Part 7: nodes and histories (any backend): the chain a history leaves, views by
number and by hash.
-/
namespace Juno.C03

/-- the blocks a history leaves on a node: `store` pushes, `revert` pops -/
def blocksOf : List Op → List (BlockId × Diff) → List (BlockId × Diff)
  | [], bs => bs
  | .store id d :: rest, bs => blocksOf rest ((id, d) :: bs)
  | .revert :: rest, bs => blocksOf rest bs.tail

/-- the chain of state diffs a history leaves (newest first) -/
def chainOf (ops : List Op) : List Diff := (blocksOf ops []).map (·.2)

/-- every stored diff is a well-formed state diff -/
def OpsWF (ops : List Op) : Prop := ∀ id d, Op.store id d ∈ ops → d.WF

theorem store_blocks {σ : Type} (be : Backend σ) (nd nd' : Node σ) (id : BlockId) (d : Diff)
    (h : nd.store be id d = .ok nd') :
    nd'.blocks = (id, d) :: nd.blocks ∧ be.update nd.st nd.blocks.length d = .ok nd'.st := by
  unfold Node.store at h
  split at h
  · cases h
  · next st hst =>
    split at h
    · cases h
    · cases h; exact ⟨rfl, hst⟩

theorem revert_blocks {σ : Type} (be : Backend σ) (nd nd' : Node σ) (h : nd.revert be = .ok nd') :
    ∃ id d, nd.blocks = (id, d) :: nd'.blocks ∧ be.revert nd.st nd'.blocks.length d = .ok nd'.st := by
  unfold Node.revert at h
  split at h
  · cases h
  · next id d rest hb =>
    split at h
    · cases h
    · split at h
      · cases h
      · next st hst =>
        split at h
        · cases h
        · cases h; exact ⟨id, d, hb, hst⟩

theorem run_blocks {σ : Type} (be : Backend σ) (ops : List Op) (nd nd' : Node σ) (h : run be nd ops = some nd') :
    nd'.blocks = blocksOf ops nd.blocks := by
  induction ops generalizing nd with
  | nil => simp [run] at h; subst h; rfl
  | cons op rest ih =>
    unfold run at h
    split at h
    · next n1 hstep =>
      rw [ih n1 h]
      cases op with
      | store id d =>
        have := (store_blocks be nd n1 id d hstep).1
        simp [blocksOf, this]
      | revert =>
        obtain ⟨id, d, hb, _⟩ := revert_blocks be nd n1 hstep
        simp [blocksOf, hb]
    · cases h

/-- an invariant of (chain, state) that `update` extends and `revert` restores holds after every
history that runs -/
theorem run_invariant {σ : Type} (be : Backend σ) (I : List Diff → σ → Prop)
    (hstore : ∀ ch s s' d, I ch s → d.WF → be.update s ch.length d = .ok s' → I (d :: ch) s')
    (hrevert : ∀ d rest s s', I (d :: rest) s → be.revert s rest.length d = .ok s' → I rest s')
    (ops : List Op) (nd nd' : Node σ) (hI : I nd.chain nd.st) (hwf : OpsWF ops)
    (h : run be nd ops = some nd') : I nd'.chain nd'.st := by
  induction ops generalizing nd with
  | nil => simp [run] at h; subst h; exact hI
  | cons op rest ih =>
    unfold run at h
    split at h
    · next n1 hstep =>
      apply ih n1 _ (fun id d hm => hwf id d (List.mem_cons_of_mem _ hm)) h
      cases op with
      | store id d =>
        obtain ⟨hb, hu⟩ := store_blocks be nd n1 id d hstep
        have hlen : nd.blocks.length = nd.chain.length := by simp [Node.chain]
        rw [hlen] at hu
        have := hstore nd.chain nd.st n1.st d hI (hwf id d List.mem_cons_self) hu
        simpa [Node.chain, hb] using this
      | revert =>
        obtain ⟨id, d, hb, hr⟩ := revert_blocks be nd n1 hstep
        have hlen : n1.blocks.length = n1.chain.length := by simp [Node.chain]
        rw [hlen] at hr
        have hI' : I (d :: n1.chain) nd.st := by simpa [Node.chain, hb] using hI
        exact hrevert d n1.chain nd.st n1.st hI' hr
    · cases h

/-! ### views -/

theorem numberOf_lt (bs : List (BlockId × Diff)) (h : BlockId) (k : Nat) (e : numberOf bs h = some k) :
    k < bs.length := by
  induction bs with
  | nil => simp [numberOf] at e
  | cons p rest ih =>
    obtain ⟨id, d⟩ := p
    by_cases hid : id = h
    · simp [numberOf, hid] at e; subst e; simp
    · simp [numberOf, hid] at e; have := ih e; simp; omega

theorem numberOf_none_iff (bs : List (BlockId × Diff)) (h : BlockId) :
    numberOf bs h = none ↔ h ∉ bs.map (·.1) := by
  induction bs with
  | nil => simp [numberOf]
  | cons p rest ih =>
    obtain ⟨id, d⟩ := p
    by_cases hid : id = h
    · subst hid; simp [numberOf]
    · have : ¬ h = id := fun e => hid e.symm
      simp [numberOf, hid, this, ih]

/-- the hash of block `k` resolves to `k` when block hashes are unique -/
theorem numberOf_getElem (bs : List (BlockId × Diff)) (hnd : (bs.map (·.1)).Nodup) (k : Nat) (hk : k < bs.length) :
    numberOf bs (bs[bs.length - 1 - k]'(by omega)).1 = some k := by
  induction bs with
  | nil => simp at hk
  | cons p rest ih =>
    obtain ⟨id, d⟩ := p
    simp only [List.map_cons, List.nodup_cons] at hnd
    by_cases hkr : k = rest.length
    · subst hkr
      simp [numberOf]
    · have hk' : k < rest.length := by simp at hk; omega
      have hidx : ((id, d) :: rest).length - 1 - k = (rest.length - 1 - k) + 1 := by simp; omega
      have : (((id, d) :: rest)[((id, d) :: rest).length - 1 - k]'(by simp; omega)).1 =
          (rest[rest.length - 1 - k]'(by omega)).1 := by
        simp only [hidx]
        rfl
      rw [this]
      have hne : id ≠ (rest[rest.length - 1 - k]'(by omega)).1 := by
        intro e
        apply hnd.1
        rw [e]
        exact List.mem_map.mpr ⟨_, List.getElem_mem _, rfl⟩
      simp only [numberOf, hne, if_false]
      exact ih hnd.2 hk'

/-! ### the hash index (`BlockHeaderNumbersByHash`) -/

theorem store_idx {σ : Type} (be : Backend σ) (nd nd' : Node σ) (id : BlockId) (d : Diff)
    (h : nd.store be id d = .ok nd') : nd'.hashIdx = bset nd.hashIdx id (some nd.blocks.length) := by
  unfold Node.store at h
  split at h
  · cases h
  · split at h
    · cases h
    · cases h; rfl

theorem revert_idx {σ : Type} (be : Backend σ) (nd nd' : Node σ) (h : nd.revert be = .ok nd') :
    ∃ id d, nd.blocks = (id, d) :: nd'.blocks ∧ nd'.hashIdx = bset nd.hashIdx id none := by
  unfold Node.revert at h
  split at h
  · cases h
  · next id d rest hb =>
    split at h
    · cases h
    · split at h
      · cases h
      · split at h
        · cases h
        · cases h; exact ⟨id, d, hb, rfl⟩

/-- block hashes are not reused: every stored block's hash differs from the hashes of the blocks
below it (collision-freeness of the block hash, an input assumption) -/
def OpsFresh : List Op → List (BlockId × Diff) → Prop
  | [], _ => True
  | .store id d :: rest, bs => id ∉ bs.map (·.1) ∧ OpsFresh rest ((id, d) :: bs)
  | .revert :: rest, bs => OpsFresh rest bs.tail

/-- the hash index agrees with the list of stored blocks, whose hashes are distinct -/
structure IdxInv {σ : Type} (nd : Node σ) : Prop where
  idx : ∀ h, bget nd.hashIdx h = numberOf nd.blocks h
  nodup : (nd.blocks.map (·.1)).Nodup

theorem idxInv_init {σ : Type} (be : Backend σ) : IdxInv (Node.init be) :=
  ⟨fun _ => rfl, List.nodup_nil⟩

theorem run_idxInv {σ : Type} (be : Backend σ) (ops : List Op) (nd nd' : Node σ) (hI : IdxInv nd)
    (hf : OpsFresh ops nd.blocks) (h : run be nd ops = some nd') : IdxInv nd' := by
  induction ops generalizing nd with
  | nil => simp [run] at h; subst h; exact hI
  | cons op rest ih =>
    unfold run at h
    split at h
    · next n1 hstep =>
      cases op with
      | store id d =>
        obtain ⟨hb, _⟩ := store_blocks be nd n1 id d hstep
        have hx := store_idx be nd n1 id d hstep
        obtain ⟨hfr, hf'⟩ := hf
        apply ih n1 _ (by rw [hb]; exact hf') h
        refine ⟨?_, ?_⟩
        · intro h'
          rw [hx, hb, bget_bset]
          by_cases e : h' = id
          · subst e; simp [numberOf]
          · have e' : ¬ id = h' := fun x => e x.symm
            simp [numberOf, e, e', hI.idx h']
        · rw [hb]; simp only [List.map_cons, List.nodup_cons]; exact ⟨hfr, hI.nodup⟩
      | revert =>
        obtain ⟨id, d, hb, hx⟩ := revert_idx be nd n1 hstep
        have hf' : OpsFresh rest n1.blocks := by
          have : OpsFresh rest nd.blocks.tail := hf
          simpa [hb] using this
        apply ih n1 _ hf' h
        have hnd := hI.nodup
        rw [hb] at hnd
        simp only [List.map_cons, List.nodup_cons] at hnd
        refine ⟨?_, hnd.2⟩
        intro h'
        rw [hx, bget_bset]
        by_cases e : h' = id
        · subst e; simp [(numberOf_none_iff n1.blocks h').mpr hnd.1]
        · have e' : ¬ id = h' := fun x => e x.symm
          have := hI.idx h'
          rw [hb] at this
          simpa [numberOf, e, e'] using this
    · cases h

theorem idAt_lt {σ : Type} (nd : Node σ) (k : Nat) (hk : k < nd.blocks.length) :
    nd.idAt k = some (nd.blocks[nd.blocks.length - 1 - k]'(by omega)).1 := by
  unfold Node.idAt
  rw [List.getElem?_eq_getElem (by omega)]
  rfl

/-- a retained block number has a view -/
theorem resolve_num {σ : Type} (be : Backend σ) (nd : Node σ) (hI : IdxInv nd) (k : Nat)
    (hk : k < nd.blocks.length) : nd.resolve be (.num k) = some (some k) := by
  simp only [Node.resolve, hk, if_true, idAt_lt nd k hk, hI.idx,
    numberOf_getElem nd.blocks hI.nodup k hk, Option.isSome_some]

/-- a view by hash is the view by the number the hash resolves to; an unknown hash has no view -/
theorem resolve_hash {σ : Type} (be : Backend σ) (nd : Node σ) (hI : IdxInv nd) (h : BlockId) :
    nd.resolve be (.hash h) = (numberOf nd.blocks h).map some := by
  simp only [Node.resolve, hI.idx]
  by_cases e : numberOf nd.blocks h = none
  · simp [e]
  · obtain ⟨k, hk⟩ := Option.ne_none_iff_exists'.mp e
    have := numberOf_lt nd.blocks h k hk
    simp [hk, this]

end Juno.C03

namespace Juno.C03

/-! ### attempted operations: what juno discards has no effect -/

/-- run a history of ATTEMPTED operations: an operation that fails (a guard of `Update`/`Revert`
fires, the metadata step fails, there is nothing to revert) leaves the node as it was — the batch
is dropped. `Simulate` and a commit that is lost are the same thing seen from the node: an `Update`
whose result is not kept. -/
def runL {σ : Type} (be : Backend σ) : Node σ → List Op → Node σ
  | n, [] => n
  | n, op :: rest =>
    match n.step be op with
    | .ok n' => runL be n' rest
    | .error _ => runL be n rest

theorem runL_of_run {σ : Type} (be : Backend σ) (ops : List Op) (nd nd' : Node σ) (h : run be nd ops = some nd') :
    runL be nd ops = nd' := by
  induction ops generalizing nd with
  | nil => simp [run] at h; simp [runL, h]
  | cons op rest ih =>
    unfold run at h
    unfold runL
    split at h
    · next n1 hstep => simp only [hstep]; exact ih n1 h
    · cases h

theorem runL_invariant {σ : Type} (be : Backend σ) (I : List Diff → σ → Prop)
    (hstore : ∀ ch s s' d, I ch s → d.WF → be.update s ch.length d = .ok s' → I (d :: ch) s')
    (hrevert : ∀ d rest s s', I (d :: rest) s → be.revert s rest.length d = .ok s' → I rest s')
    (ops : List Op) (nd : Node σ) (hI : I nd.chain nd.st) (hwf : OpsWF ops) :
    I (runL be nd ops).chain (runL be nd ops).st := by
  induction ops generalizing nd with
  | nil => exact hI
  | cons op rest ih =>
    have hwf' : OpsWF rest := fun id d hm => hwf id d (List.mem_cons_of_mem _ hm)
    unfold runL
    split
    · next n1 hstep =>
      apply ih n1 _ hwf'
      cases op with
      | store id d =>
        obtain ⟨hb, hu⟩ := store_blocks be nd n1 id d hstep
        have hlen : nd.blocks.length = nd.chain.length := by simp [Node.chain]
        rw [hlen] at hu
        have := hstore nd.chain nd.st n1.st d hI (hwf id d List.mem_cons_self) hu
        simpa [Node.chain, hb] using this
      | revert =>
        obtain ⟨id, d, hb, hr⟩ := revert_blocks be nd n1 hstep
        have hlen : n1.blocks.length = n1.chain.length := by simp [Node.chain]
        rw [hlen] at hr
        have hI' : I (d :: n1.chain) nd.st := by simpa [Node.chain, hb] using hI
        exact hrevert d n1.chain nd.st n1.st hI' hr
    · exact ih nd hI hwf'

/-- the abstract state at block `k` only depends on the blocks up to `k` -/
theorem absAt_of_common (ch1 ch2 : List Diff) (k : Nat)
    (h : ch2.drop (ch2.length - 1 - k) = ch1.drop (ch1.length - 1 - k)) : absAt ch2 k = absAt ch1 k := by
  unfold absAt; rw [h]

end Juno.C03
