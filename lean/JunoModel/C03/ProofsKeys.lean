import JunoModel.C03.ModelKeys
import JunoModel.C03.ProofsApi
import JunoModel.C03.ProofsNew
import JunoModel.C03.ProofsSys
/-!
C03 — helper lemmas. Part 15 (round 5): keys at the byte level. `UpperBound` is exact (the range
`[p, UpperBound p)` holds exactly the byte strings that start with `p`), hence a prefix `DeleteRange`
deletes exactly the keys with the prefix and a prefix-bounded iterator yields exactly them; on the
layouts of db/schema.go and trieutils `nodeKeyByPath`: purging a contract's storage nodes touches no
other contract, and the history readers on bytes compute the readers on the per-prefix lists (`Hist`).
-/
namespace Juno.C03

/-- every element is a byte -/
def Bytes (k : Key) : Prop := ∀ b ∈ k, b < 256

theorem Bytes.tail {x : Nat} {k : Key} (h : Bytes (x :: k)) : Bytes k :=
  fun b hb => h b (List.mem_cons_of_mem _ hb)

theorem Bytes.head {x : Nat} {k : Key} (h : Bytes (x :: k)) : x < 256 := h x (List.mem_cons_self ..)

theorem Bytes.append {a b : Key} (ha : Bytes a) (hb : Bytes b) : Bytes (a ++ b) := by
  intro x hx
  rcases List.mem_append.mp hx with h | h
  · exact ha x h
  · exact hb x h

theorem Bytes.cons {x : Nat} {k : Key} (hx : x < 256) (hk : Bytes k) : Bytes (x :: k) := by
  intro b hb
  rcases List.mem_cons.mp hb with h | h
  · subst h; exact hx
  · exact hk b h

/-! ### `UpperBound`: the loop and the recursion agree -/

theorem upperBound_snoc (p : Key) (x : Nat) :
    upperBound (p ++ [x]) = if x = 255 then upperBound p else some (p ++ [x + 1]) := by
  induction p with
  | nil => by_cases hx : x = 255 <;> simp [upperBound, hx]
  | cons y r ih =>
    simp only [List.cons_append, upperBound, ih]
    by_cases hx : x = 255
    · simp [hx]
    · simp [hx]

theorem ubScan_eq (q : Key) : ubScan q = upperBound q.reverse := by
  induction q with
  | nil => rfl
  | cons x r ih =>
    rw [List.reverse_cons, upperBound_snoc]
    simp only [ubScan]
    by_cases hx : x = 255
    · simp [hx, ih]
    · simp [hx]

theorem ubScan_reverse (p : Key) : ubScan p.reverse = upperBound p := by
  rw [ubScan_eq, List.reverse_reverse]

/-- the loop of db/dbutils `UpperBound` computes `upperBound` -/
theorem upperBoundLoop_eq (p : Key) : upperBoundLoop p = upperBound p := ubScan_reverse p

/-! ### `bytes.Compare` -/

theorem bytesLt_nil_right (k : Key) : bytesLt k [] = false := by cases k <;> rfl

theorem bytesLt_irrefl (k : Key) : bytesLt k k = false := by
  induction k with
  | nil => rfl
  | cons x r ih => simp [bytesLt, ih]

theorem hasPrefix_iff (p k : Key) : hasPrefix p k = true ↔ p <+: k := by
  induction p generalizing k with
  | nil => simp [hasPrefix]
  | cons x r ih =>
    cases k with
    | nil => simp [hasPrefix]
    | cons y t => simp [hasPrefix, List.cons_prefix_cons, ih]

/-! ### exactness of the bound -/

/-- a prefix without bound (every byte 0xff): everything at or above it starts with it -/
theorem ge_allff_iff (p k : Key) (hn : upperBound p = none) (hk : Bytes k) :
    bytesLt k p = false ↔ p <+: k := by
  induction p generalizing k with
  | nil => simp [bytesLt_nil_right]
  | cons x r ih =>
    have hx : x = 255 ∧ upperBound r = none := by
      simp only [upperBound] at hn
      cases hr : upperBound r with
      | some u => simp [hr] at hn
      | none =>
        simp only [hr] at hn
        by_cases h : x = 255
        · exact ⟨h, rfl⟩
        · simp [h] at hn
    cases k with
    | nil => simp [bytesLt]
    | cons y t =>
      have hy : y < 256 := hk.head
      simp only [bytesLt, List.cons_prefix_cons]
      by_cases h1 : y < x
      · simp [h1]; omega
      · have : ¬ x < y := by omega
        simp only [h1, this, if_false]
        rw [ih t hx.2 hk.tail]
        constructor
        · intro h; exact ⟨by omega, h⟩
        · intro h; exact h.2

/-- EXACTNESS: a byte string lies in `[p, UpperBound p)` iff it starts with `p` -/
theorem inPrefixRange_iff (p k : Key) (hk : Bytes k) : inPrefixRange p k = true ↔ p <+: k := by
  induction p generalizing k with
  | nil => simp [inPrefixRange, inRange, upperBound, bytesLt_nil_right]
  | cons x r ih =>
    cases k with
    | nil => simp [inPrefixRange, inRange, bytesLt]
    | cons y t =>
      have hy : y < 256 := hk.head
      have iht := ih t hk.tail
      simp only [inPrefixRange, inRange, upperBound, List.cons_prefix_cons] at iht ⊢
      cases hr : upperBound r with
      | some u =>
        simp only [hr] at iht ⊢
        simp only [bytesLt]
        by_cases h1 : y < x
        · simp [h1]; omega
        · by_cases h2 : x < y
          · simp [h1, h2]; omega
          · have : x = y := by omega
            subst this
            simpa [h1] using iht
      | none =>
        have hge := ge_allff_iff r t hr hk.tail
        by_cases hx : x = 255
        · subst hx
          simp only [if_true, Bool.and_true, bytesLt]
          by_cases h1 : y < 255
          · simp [h1]; omega
          · have : y = 255 := by omega
            subst this
            simp only [Nat.lt_irrefl, if_false, Bool.not_eq_true', true_and]
            exact hge
        · simp only [hx, if_false, bytesLt]
          by_cases h1 : y < x
          · simp [h1]; omega
          · by_cases h2 : x < y
            · have h3 : ¬ y < x + 1 := by omega
              simp only [h1, h2, h3, if_false, bytesLt_nil_right]
              constructor
              · intro h; split at h <;> simp at h
              · intro h; omega
            · have : x = y := by omega
              subst this
              have h3 : x < x + 1 := by omega
              simp only [Nat.lt_irrefl, if_false, h3, if_true, Bool.and_true, Bool.not_eq_true', true_and]
              exact hge

theorem inPrefixRange_eq_hasPrefix (p k : Key) (hk : Bytes k) : inPrefixRange p k = hasPrefix p k := by
  have h1 := inPrefixRange_iff p k hk
  have h2 := hasPrefix_iff p k
  cases ha : inPrefixRange p k <;> cases hb : hasPrefix p k <;> simp_all

/-- a prefix `DeleteRange` deletes exactly the keys with the prefix -/
theorem deleteRange_prefix (s : KV) (p : Key) (hs : ∀ e ∈ s, Bytes e.1) :
    s.deleteRange p (upperBound p) = s.filter (fun e => !hasPrefix p e.1) := by
  unfold KV.deleteRange
  apply List.filter_congr
  intro e he
  have := inPrefixRange_eq_hasPrefix p e.1 (hs e he)
  simp only [inPrefixRange] at this
  rw [this]

theorem kvInsert_mem (e x : Key × Val) (l : KV) : x ∈ kvInsert e l ↔ x = e ∨ x ∈ l := by
  induction l with
  | nil => simp [kvInsert]
  | cons y r ih =>
    simp only [kvInsert]
    split
    · simp only [List.mem_cons, ih]
      constructor
      · rintro (h | h | h)
        · exact Or.inr (Or.inl h)
        · exact Or.inl h
        · exact Or.inr (Or.inr h)
      · rintro (h | h | h)
        · exact Or.inr (Or.inl h)
        · exact Or.inl h
        · exact Or.inr (Or.inr h)
    · simp [List.mem_cons]

theorem kvSort_mem (x : Key × Val) (l : KV) : x ∈ kvSort l ↔ x ∈ l := by
  induction l with
  | nil => simp [kvSort]
  | cons y r ih =>
    have : kvSort (y :: r) = kvInsert y (kvSort r) := rfl
    rw [this, kvInsert_mem, ih, List.mem_cons]

/-- a prefix-bounded iterator yields exactly the entries whose key starts with the prefix -/
theorem iter_mem (s : KV) (p : Key) (hs : ∀ e ∈ s, Bytes e.1) (x : Key × Val) : x ∈ s.iter p ↔ x ∈ s ∧ p <+: x.1 := by
  unfold KV.iter
  rw [kvSort_mem, List.mem_filter]
  constructor
  · rintro ⟨hx, hin⟩; exact ⟨hx, (inPrefixRange_iff p x.1 (hs x hx)).mp hin⟩
  · rintro ⟨hx, hp⟩; exact ⟨hx, (inPrefixRange_iff p x.1 (hs x hx)).mpr hp⟩

/-! ### fixed-width big-endian numbers are injective -/

theorem beBytes_inj (w n m : Nat) (hn : n < 256 ^ w) (hm : m < 256 ^ w) (h : beBytes w n = beBytes w m) : n = m := by
  have h1 := beBytes_lt w n m hn hm
  have h2 := beBytes_lt w m n hm hn
  rw [h, bytesLt_irrefl] at h1
  rw [h, bytesLt_irrefl] at h2
  have a : ¬ n < m := by simpa using h1.symm
  have b : ¬ m < n := by simpa using h2.symm
  omega

theorem beBytes_bytes (w n : Nat) : Bytes (beBytes w n) := by
  induction w with
  | zero => intro b hb; cases hb
  | succ w ih =>
    intro b hb
    simp only [beBytes, List.mem_cons] at hb
    rcases hb with h | h
    · subst h; exact Nat.mod_lt _ (by decide)
    · exact ih b h

theorem feltBytes_length (x : Nat) : (feltBytes x).length = 32 := beBytes_length 32 x

theorem feltBytes_inj (a b : Nat) (ha : a < 2 ^ 256) (hb : b < 2 ^ 256) (h : feltBytes a = feltBytes b) : a = b :=
  beBytes_inj 32 a b (by simpa using ha) (by simpa using hb) h

/-- two byte strings of the same length: one is a prefix of an extension of the other iff equal -/
theorem prefix_append_of_length_eq (a b r : Key) (hl : a.length = b.length) : a <+: b ++ r ↔ a = b := by
  constructor
  · intro h
    have e := List.prefix_iff_eq_take.mp h
    rw [e, List.take_append_of_le_length (by omega), hl, List.take_length]
  · intro h; subst h; exact List.prefix_append _ _

/-! ### purging the storage nodes of one contract -/

theorem ownerPrefix_prefix_iff (bk : BucketIds) (a a' : Addr) (rest : Key) (ha : a < 2 ^ 256) (ha' : a' < 2 ^ 256) :
    ownerPrefix bk a <+: trieNodeKey bk a' rest ↔ a = a' := by
  simp only [trieNodeKey, ownerPrefix, List.cons_append, List.cons_prefix_cons, true_and]
  rw [prefix_append_of_length_eq _ _ _ (by simp [feltBytes_length])]
  exact ⟨fun h => feltBytes_inj a a' ha ha' h, fun h => by rw [h]⟩

theorem ownerPrefix_bytes (bk : BucketIds) (a : Addr) (hb : bk.trieStorage < 256) : Bytes (ownerPrefix bk a) :=
  Bytes.cons hb (beBytes_bytes 32 a)

/-- what the encoding of the storage-trie nodes needs: the bucket byte is a byte, owners are felts
(32 bytes), node keys are bytes -/
structure TriesWF (bk : BucketIds) (t : Bucket Addr (List (Key × Val))) : Prop where
  bucket : bk.trieStorage < 256
  owners : ∀ p ∈ t, p.1 < 2 ^ 256
  rests : ∀ p ∈ t, ∀ e ∈ p.2, Bytes e.1

theorem encodeTries_bytes (bk : BucketIds) (t : Bucket Addr (List (Key × Val))) (h : TriesWF bk t) :
    ∀ e ∈ encodeTries bk t, Bytes e.1 := by
  intro e he
  simp only [encodeTries, List.mem_flatMap, List.mem_map] at he
  obtain ⟨p, hp, x, hx, rfl⟩ := he
  exact Bytes.append (ownerPrefix_bytes bk p.1 h.bucket) (h.rests p hp x hx)

theorem filter_flatMap_owner {α β : Type} (t : List (Nat × α)) (f : Nat × α → List β) (q : β → Bool) (a : Nat)
    (hin : ∀ p ∈ t, p.1 = a → ∀ x ∈ f p, q x = false) (hout : ∀ p ∈ t, p.1 ≠ a → ∀ x ∈ f p, q x = true) :
    (t.flatMap f).filter q = (t.filter (fun p => !decide (p.1 = a))).flatMap f := by
  induction t with
  | nil => rfl
  | cons p r ih =>
    have ih' := ih (fun p' hp' => hin p' (List.mem_cons_of_mem _ hp')) (fun p' hp' => hout p' (List.mem_cons_of_mem _ hp'))
    simp only [List.flatMap_cons, List.filter_append, ih', List.filter_cons]
    by_cases hp : p.1 = a
    · have : (f p).filter q = [] := List.filter_eq_nil_iff.mpr (fun x hx => by simp [hin p (List.mem_cons_self ..) hp x hx])
      simp [hp, this]
    · have : (f p).filter q = f p := List.filter_eq_self.mpr (fun x hx => hout p (List.mem_cons_self ..) hp x hx)
      simp [hp, this]

/-- PURGE OF ONE CONTRACT: the prefix range delete of `DeleteStorageNodesByPath` removes exactly the
storage-trie nodes of that contract — the nodes of every other contract stay, whatever bytes the
address ends in. -/
theorem purge_owner_exact (bk : BucketIds) (t : Bucket Addr (List (Key × Val))) (a : Addr) (ha : a < 2 ^ 256)
    (h : TriesWF bk t) :
    (encodeTries bk t).deleteRange (ownerPrefix bk a) (upperBound (ownerPrefix bk a)) =
      encodeTries bk (t.filter (fun p => !decide (p.1 = a))) := by
  rw [deleteRange_prefix _ _ (encodeTries_bytes bk t h)]
  unfold encodeTries
  apply filter_flatMap_owner
  · intro p hp hpa x hx
    obtain ⟨e, _, rfl⟩ := List.mem_map.mp hx
    have : hasPrefix (ownerPrefix bk a) (trieNodeKey bk p.1 e.1) = true :=
      (hasPrefix_iff _ _).mpr ((ownerPrefix_prefix_iff bk a p.1 e.1 ha (h.owners p hp)).mpr hpa.symm)
    simp [this]
  · intro p hp hpa x hx
    obtain ⟨e, _, rfl⟩ := List.mem_map.mp hx
    have : hasPrefix (ownerPrefix bk a) (trieNodeKey bk p.1 e.1) = false := by
      cases hh : hasPrefix (ownerPrefix bk a) (trieNodeKey bk p.1 e.1) with
      | false => rfl
      | true =>
        exact absurd ((ownerPrefix_prefix_iff bk a p.1 e.1 ha (h.owners p hp)).mp ((hasPrefix_iff _ _).mp hh)).symm hpa
    simp [this]

theorem encodeTries_lset_nil (bk : BucketIds) (t : Bucket Addr (List (Key × Val))) (a : Addr) :
    encodeTries bk (lset t a []) = encodeTries bk (t.filter (fun p => !decide (p.1 = a))) := by
  simp [encodeTries, lset, bset]

theorem leafRest_bytes (k : Slot) : Bytes (leafRest k) :=
  Bytes.cons (by decide) (Bytes.append (beBytes_bytes 32 k) (Bytes.cons (by decide) (fun _ h => by cases h)))

/-- the leaf nodes of the model (`NState.leaves`), owners being felts, encode to a well-formed store -/
theorem leaves_triesWF (bk : BucketIds) (lv : Bucket Addr Leaves) (hb : bk.trieStorage < 256)
    (ho : ∀ p ∈ lv, p.1 < 2 ^ 256) :
    TriesWF bk (lv.map (fun p => (p.1, p.2.map (fun e => (leafRest e.1, e.2))))) := by
  refine ⟨hb, ?_, ?_⟩
  · intro p hp
    obtain ⟨q, hq, rfl⟩ := List.mem_map.mp hp
    exact ho q hq
  · intro p hp e he
    obtain ⟨q, _, rfl⟩ := List.mem_map.mp hp
    obtain ⟨x, _, rfl⟩ := List.mem_map.mp he
    exact leafRest_bytes x.1

theorem encodeLeaves_lset_nil (bk : BucketIds) (lv : Bucket Addr Leaves) (a : Addr) :
    encodeLeaves bk (lset lv a []) = encodeLeaves bk (lv.filter (fun p => !decide (p.1 = a))) := by
  simp [encodeLeaves, encodeTries, lset, bset]

/-- what `deleteContracts` / `purgeStep` do to the leaves of the model (`lset leaves a []`) IS the
range delete on the encoded store -/
theorem leaves_purge_is_range_delete (bk : BucketIds) (lv : Bucket Addr Leaves) (a : Addr) (ha : a < 2 ^ 256)
    (hb : bk.trieStorage < 256) (ho : ∀ p ∈ lv, p.1 < 2 ^ 256) :
    (encodeLeaves bk lv).deleteRange (ownerPrefix bk a) (upperBound (ownerPrefix bk a)) =
      encodeLeaves bk (lset lv a []) := by
  rw [encodeLeaves_lset_nil]
  unfold encodeLeaves
  rw [purge_owner_exact bk _ a ha (leaves_triesWF bk lv hb ho)]
  simp [List.filter_map, Function.comp_def]

/-! ### the history buckets as bytes -/

theorem bytesLt_asymm (a b : Key) (h : bytesLt a b = true) : bytesLt b a = false := by
  induction a generalizing b with
  | nil => cases b <;> simp_all [bytesLt]
  | cons x r ih =>
    cases b with
    | nil => simp [bytesLt] at h
    | cons y t =>
      simp only [bytesLt] at h ⊢
      by_cases h1 : x < y
      · have : ¬ y < x := by omega
        simp [this, h1]
      · by_cases h2 : y < x
        · simp [h1, h2] at h
        · simp only [h1, h2, if_false] at h ⊢
          exact ih t h

theorem bytesLt_append_cons (v : Key) (x : Nat) (r : Key) : bytesLt v (v ++ x :: r) = true := by
  induction v with
  | nil => rfl
  | cons y t ih => simp [bytesLt, ih]

/-- LEASTNESS: `UpperBound p` is above every byte string that starts with `p`, and no smaller byte string is -/
theorem upperBound_least (p u : Key) (hp : Bytes p) (hu : upperBound p = some u) :
    (∀ k, Bytes k → p <+: k → bytesLt k u = true) ∧
    (∀ v, Bytes v → (∀ k, Bytes k → p <+: k → bytesLt k v = true) → bytesLt v u = false) := by
  constructor
  · intro k hk hpk
    have := (inPrefixRange_iff p k hk).mpr hpk
    simp only [inPrefixRange, inRange, hu, Bool.and_eq_true] at this
    exact this.2
  · intro v hv hall
    cases hlt : bytesLt v u with
    | false => rfl
    | true =>
      exfalso
      by_cases hvp : bytesLt v p = true
      · -- `p` itself starts with `p`: it would have to be below `v`
        have h1 := hall p hp (List.prefix_refl p)
        have h2 := bytesLt_asymm _ _ hvp
        rw [h1] at h2
        cases h2
      · have hin : inPrefixRange p v = true := by
          simp only [inPrefixRange, inRange, hu, Bool.and_eq_true, Bool.not_eq_true']
          exact ⟨by simpa using hvp, hlt⟩
        have hpv := (inPrefixRange_iff p v hv).mp hin
        have hk : Bytes (v ++ [0]) := Bytes.append hv (Bytes.cons (by decide) (fun _ h => (nomatch h)))
        have h1 := hall (v ++ [0]) hk (List.IsPrefix.trans hpv (List.prefix_append v [0]))
        have h2 := bytesLt_asymm _ _ (bytesLt_append_cons v 0 [])
        rw [h1] at h2
        cases h2

/-- `sort.Strings` leaves a list that is already ascending as it is -/
theorem kvSort_sorted (l : KV) (h : l.Pairwise (fun x y => bytesLt x.1 y.1 = true)) : kvSort l = l := by
  induction l with
  | nil => rfl
  | cons x r ih =>
    rw [List.pairwise_cons] at h
    simp only [kvSort, List.foldr_cons]
    have : List.foldr kvInsert [] r = r := ih h.2
    rw [this]
    cases r with
    | nil => rfl
    | cons y t =>
      have hxy := h.1 y (List.mem_cons_self ..)
      simp [kvInsert, bytesLt_asymm _ _ hxy]

theorem histKey_lt (P : Key) (b b' : Nat) (hb : b < 2 ^ 64) (hb' : b' < 2 ^ 64) :
    bytesLt (histKey P b) (histKey P b') = decide (b < b') := by
  unfold histKey
  rw [bytesLt_append_left]
  exact beBytes_lt 8 b b' (by simpa using hb) (by simpa using hb')

theorem beVal_fold (w n acc : Nat) :
    (beBytes w n).foldl (fun a b => a * 256 + b) acc = acc * 256 ^ w + n % 256 ^ w := by
  induction w generalizing acc with
  | zero => simp [beBytes, Nat.mod_one]
  | succ w ih =>
    simp only [beBytes, List.foldl_cons, ih]
    rw [Nat.mod_pow_succ (b := 256) (k := w), Nat.pow_succ]
    rw [Nat.add_mul, Nat.mul_assoc, Nat.mul_comm 256 (256 ^ w), Nat.add_assoc,
      Nat.add_comm (n / 256 ^ w % 256 * 256 ^ w), Nat.mul_comm (n / 256 ^ w % 256)]

theorem beVal_beBytes (w n : Nat) (h : n < 256 ^ w) : beVal (beBytes w n) = n := by
  simp [beVal, beVal_fold, Nat.mod_eq_of_lt h]

theorem histKey_block (P : Key) (b : Nat) (hb : b < 2 ^ 64) : beVal (((histKey P b).drop P.length).take 8) = b := by
  have : ((histKey P b).drop P.length).take 8 = beBytes 8 b := by
    simp [histKey, List.take_of_length_le, beBytes_length]
  rw [this]
  exact beVal_beBytes 8 b (by simpa using hb)

/-- the numbers in a history key are felts -/
def HKey.Felts : HKey → Prop
  | .storage a k => a < 2 ^ 256 ∧ k < 2 ^ 256
  | .nonce a => a < 2 ^ 256
  | .classHash a => a < 2 ^ 256

/-- the three history buckets have three different bucket bytes -/
structure BucketIds.HistOK (bk : BucketIds) : Prop where
  s : bk.storageHist < 256
  n : bk.nonceHist < 256
  c : bk.classHashHist < 256
  sn : bk.storageHist ≠ bk.nonceHist
  sc : bk.storageHist ≠ bk.classHashHist
  nc : bk.nonceHist ≠ bk.classHashHist

theorem hkeyBytes_bytes (bk : BucketIds) (hb : bk.HistOK) (key : HKey) : Bytes (hkeyBytes bk key) := by
  cases key with
  | storage a k => exact Bytes.cons hb.s (Bytes.append (beBytes_bytes 32 a) (beBytes_bytes 32 k))
  | nonce a => exact Bytes.cons hb.n (beBytes_bytes 32 a)
  | classHash a => exact Bytes.cons hb.c (beBytes_bytes 32 a)

theorem histKey_bytes (bk : BucketIds) (hb : bk.HistOK) (key : HKey) (b : Nat) : Bytes (histKey (hkeyBytes bk key) b) :=
  Bytes.append (hkeyBytes_bytes bk hb key) (beBytes_bytes 8 b)

/-- the key prefixes of different (contract[, slot]) are never prefixes of each other's entries:
fixed-width fields, one bucket byte per kind -/
theorem hkeyBytes_prefix_iff (bk : BucketIds) (hb : bk.HistOK) (key key' : HKey) (hk : key.Felts) (hk' : key'.Felts) (b : Nat) :
    hkeyBytes bk key <+: histKey (hkeyBytes bk key') b ↔ key = key' := by
  have l32 : ∀ x, (feltBytes x).length = 32 := feltBytes_length
  cases key with
  | storage a k =>
    cases key' with
    | storage a' k' =>
      simp only [hkeyBytes, histKey, List.cons_append, List.cons_prefix_cons, true_and, HKey.storage.injEq]
      rw [prefix_append_of_length_eq _ _ _ (by simp [l32])]
      constructor
      · intro h
        have := List.append_inj h (by simp [l32])
        exact ⟨feltBytes_inj a a' hk.1 hk'.1 this.1, feltBytes_inj k k' hk.2 hk'.2 this.2⟩
      · rintro ⟨rfl, rfl⟩; rfl
    | nonce a' =>
      simp only [hkeyBytes, histKey, List.cons_append, List.cons_prefix_cons, reduceCtorEq, iff_false, not_and]
      intro h; exact absurd h hb.sn
    | classHash a' =>
      simp only [hkeyBytes, histKey, List.cons_append, List.cons_prefix_cons, reduceCtorEq, iff_false, not_and]
      intro h; exact absurd h hb.sc
  | nonce a =>
    cases key' with
    | storage a' k' =>
      simp only [hkeyBytes, histKey, List.cons_append, List.cons_prefix_cons, reduceCtorEq, iff_false, not_and]
      intro h; exact absurd h.symm hb.sn
    | nonce a' =>
      simp only [hkeyBytes, histKey, List.cons_append, List.cons_prefix_cons, true_and, HKey.nonce.injEq]
      rw [prefix_append_of_length_eq _ _ _ (by simp [l32])]
      exact ⟨fun h => feltBytes_inj a a' hk hk' h, fun h => by rw [h]⟩
    | classHash a' =>
      simp only [hkeyBytes, histKey, List.cons_append, List.cons_prefix_cons, reduceCtorEq, iff_false, not_and]
      intro h; exact absurd h hb.nc
  | classHash a =>
    cases key' with
    | storage a' k' =>
      simp only [hkeyBytes, histKey, List.cons_append, List.cons_prefix_cons, reduceCtorEq, iff_false, not_and]
      intro h; exact absurd h.symm hb.sc
    | nonce a' =>
      simp only [hkeyBytes, histKey, List.cons_append, List.cons_prefix_cons, reduceCtorEq, iff_false, not_and]
      intro h; exact absurd h.symm hb.nc
    | classHash a' =>
      simp only [hkeyBytes, histKey, List.cons_append, List.cons_prefix_cons, true_and, HKey.classHash.injEq]
      rw [prefix_append_of_length_eq _ _ _ (by simp [l32])]
      exact ⟨fun h => feltBytes_inj a a' hk hk' h, fun h => by rw [h]⟩

/-- a history bucket whose encoding is faithful: keys once, numbers in range, entries of a key in
ascending block order (what `hput` / `hdel` maintain: `histBucketWF_put`, `histBucketWF_del`) -/
structure HistBucketWF (h : Bucket HKey Hist) : Prop where
  nodup : (h.map (·.1)).Nodup
  felts : ∀ p ∈ h, p.1.Felts
  blocks : ∀ p ∈ h, ∀ e ∈ p.2, e.1 < 2 ^ 64
  sorted : ∀ p ∈ h, p.2.Pairwise (fun x y => x.1 < y.1)

/-- the encoded entries of one key -/
def encEntries (bk : BucketIds) (key : HKey) (es : Hist) : KV :=
  es.map (fun e => (histKey (hkeyBytes bk key) e.1, e.2))

theorem encodeHist_cons (bk : BucketIds) (p : HKey × Hist) (r : Bucket HKey Hist) :
    encodeHist bk (p :: r) = encEntries bk p.1 p.2 ++ encodeHist bk r := by
  simp [encodeHist, encEntries]

theorem filter_encEntries (bk : BucketIds) (hb : bk.HistOK) (key key' : HKey) (hk : key.Felts) (hk' : key'.Felts) (es : Hist) :
    (encEntries bk key' es).filter (fun e => inPrefixRange (hkeyBytes bk key) e.1) =
      if key = key' then encEntries bk key' es else [] := by
  by_cases h : key = key'
  · subst h
    simp only [if_true]
    apply List.filter_eq_self.mpr
    intro e he
    obtain ⟨x, _, rfl⟩ := List.mem_map.mp he
    exact (inPrefixRange_iff _ _ (histKey_bytes bk hb key x.1)).mpr ((hkeyBytes_prefix_iff bk hb key key hk hk x.1).mpr rfl)
  · simp only [h, if_false]
    apply List.filter_eq_nil_iff.mpr
    intro e he
    obtain ⟨x, _, rfl⟩ := List.mem_map.mp he
    intro hin
    exact h ((hkeyBytes_prefix_iff bk hb key key' hk hk' x.1).mp ((inPrefixRange_iff _ _ (histKey_bytes bk hb key' x.1)).mp hin))

theorem filter_encodeHist_absent (bk : BucketIds) (hb : bk.HistOK) (key : HKey) (hk : key.Felts) (h : Bucket HKey Hist)
    (hf : ∀ p ∈ h, p.1.Felts) (habs : key ∉ h.map (·.1)) :
    (encodeHist bk h).filter (fun e => inPrefixRange (hkeyBytes bk key) e.1) = [] := by
  induction h with
  | nil => rfl
  | cons p r ih =>
    rw [encodeHist_cons, List.filter_append, filter_encEntries bk hb key p.1 hk (hf p (List.mem_cons_self ..))]
    have hne : key ≠ p.1 := fun e => habs (by simp [e])
    simp only [hne, if_false, List.nil_append]
    exact ih (fun q hq => hf q (List.mem_cons_of_mem _ hq)) (fun hm => habs (by simp only [List.map_cons, List.mem_cons]; exact Or.inr hm))

/-- what a prefix-bounded scan of the encoded bucket finds: the entries of that key, nothing else -/
theorem filter_encodeHist (bk : BucketIds) (hb : bk.HistOK) (key : HKey) (hk : key.Felts) (h : Bucket HKey Hist)
    (hwf : HistBucketWF h) :
    (encodeHist bk h).filter (fun e => inPrefixRange (hkeyBytes bk key) e.1) = encEntries bk key (lget h key) := by
  induction h with
  | nil => rfl
  | cons p r ih =>
    have hwr : HistBucketWF r :=
      ⟨(List.nodup_cons.mp hwf.nodup).2, fun q hq => hwf.felts q (List.mem_cons_of_mem _ hq),
        fun q hq => hwf.blocks q (List.mem_cons_of_mem _ hq), fun q hq => hwf.sorted q (List.mem_cons_of_mem _ hq)⟩
    rw [encodeHist_cons, List.filter_append, filter_encEntries bk hb key p.1 hk (hwf.felts p (List.mem_cons_self ..))]
    by_cases he : key = p.1
    · subst he
      have habs : p.1 ∉ r.map (·.1) := (List.nodup_cons.mp hwf.nodup).1
      rw [filter_encodeHist_absent bk hb p.1 hk r hwr.felts habs]
      simp [lget, bget]
    · have : ¬ p.1 = key := fun e => he e.symm
      simp only [he, if_false, List.nil_append, ih hwr]
      simp [lget, bget, this]

theorem encEntries_sorted (bk : BucketIds) (key : HKey) (es : Hist) (hbl : ∀ e ∈ es, e.1 < 2 ^ 64)
    (hs : es.Pairwise (fun x y => x.1 < y.1)) :
    (encEntries bk key es).Pairwise (fun x y => bytesLt x.1 y.1 = true) := by
  unfold encEntries
  rw [List.pairwise_map]
  refine List.Pairwise.imp_of_mem ?_ hs
  intro x y hx hy hxy
  simp [histKey_lt _ _ _ (hbl x hx) (hbl y hy), hxy]

/-- THE ITERATOR: `NewIterator(prefix of key, true)` over the encoded bucket yields exactly the entries
of that key, in the order of the per-prefix list -/
theorem iter_encodeHist (bk : BucketIds) (hb : bk.HistOK) (key : HKey) (hk : key.Felts) (h : Bucket HKey Hist)
    (hwf : HistBucketWF h) :
    (encodeHist bk h).iter (hkeyBytes bk key) = encEntries bk key (lget h key) := by
  unfold KV.iter
  rw [filter_encodeHist bk hb key hk h hwf]
  apply kvSort_sorted
  by_cases hm : ∃ p ∈ h, p.1 = key
  · obtain ⟨p, hp, rfl⟩ := hm
    have hl : lget h p.1 = p.2 := by
      have : bget h p.1 = some p.2 := by
        clear hk
        induction h with
        | nil => cases hp
        | cons q r ih =>
          have hwr : HistBucketWF r :=
            ⟨(List.nodup_cons.mp hwf.nodup).2, fun q hq => hwf.felts q (List.mem_cons_of_mem _ hq),
              fun q hq => hwf.blocks q (List.mem_cons_of_mem _ hq), fun q hq => hwf.sorted q (List.mem_cons_of_mem _ hq)⟩
          rcases List.mem_cons.mp hp with e | e
          · subst e; simp [bget]
          · have hne : q.1 ≠ p.1 := by
              intro heq
              exact (List.nodup_cons.mp hwf.nodup).1 (List.mem_map.mpr ⟨p, e, heq.symm⟩)
            simp only [bget, hne, if_false]
            exact ih hwr e
      simp [lget, this]
    rw [hl]
    exact encEntries_sorted bk p.1 p.2 (hwf.blocks p hp) (hwf.sorted p hp)
  · have : lget h key = [] := by
      have : bget h key = none := by
        induction h with
        | nil => rfl
        | cons q r ih =>
          have hwr : HistBucketWF r :=
            ⟨(List.nodup_cons.mp hwf.nodup).2, fun q hq => hwf.felts q (List.mem_cons_of_mem _ hq),
              fun q hq => hwf.blocks q (List.mem_cons_of_mem _ hq), fun q hq => hwf.sorted q (List.mem_cons_of_mem _ hq)⟩
          have hne : q.1 ≠ key := fun e => hm ⟨q, List.mem_cons_self .., e⟩
          simp only [bget, hne, if_false]
          exact ih hwr (fun ⟨p, hp, e⟩ => hm ⟨p, List.mem_cons_of_mem _ hp, e⟩)
      simp [lget, this]
    rw [this]
    exact List.Pairwise.nil

/-! ### the history readers on bytes are the readers on the per-prefix lists -/

theorem lget_cases (h : Bucket HKey Hist) (key : HKey) : lget h key = [] ∨ ∃ p ∈ h, p.1 = key ∧ lget h key = p.2 := by
  induction h with
  | nil => left; rfl
  | cons q r ih =>
    by_cases hq : q.1 = key
    · right; exact ⟨q, List.mem_cons_self .., hq, by simp [lget, bget, hq]⟩
    · have : lget (q :: r) key = lget r key := by simp [lget, bget, hq]
      rw [this]
      rcases ih with e | ⟨p, hp, hk, e⟩
      · left; exact e
      · right; exact ⟨p, List.mem_cons_of_mem _ hp, hk, e⟩

theorem lget_blocks (h : Bucket HKey Hist) (hwf : HistBucketWF h) (key : HKey) : ∀ e ∈ lget h key, e.1 < 2 ^ 64 := by
  rcases lget_cases h key with e | ⟨p, hp, _, e⟩
  · rw [e]; intro x hx; cases hx
  · rw [e]; exact hwf.blocks p hp

theorem takeWhile_enc (bk : BucketIds) (key : HKey) (es : Hist) (n : Nat) (hn : n < 2 ^ 64) (hbl : ∀ e ∈ es, e.1 < 2 ^ 64) :
    (encEntries bk key es).takeWhile (fun e => bytesLt e.1 (histKey (hkeyBytes bk key) n)) =
      encEntries bk key (es.takeWhile (fun e => e.1 < n)) := by
  induction es with
  | nil => rfl
  | cons x r ih =>
    have hx := hbl x (List.mem_cons_self ..)
    have ih' := ih (fun e he => hbl e (List.mem_cons_of_mem _ he))
    simp only [encEntries, List.map_cons, List.takeWhile_cons, histKey_lt _ _ _ hx hn] at ih' ⊢
    by_cases h : x.1 < n
    · simp [h, ih']
    · simp [h]

theorem dropWhile_enc (bk : BucketIds) (key : HKey) (es : Hist) (n : Nat) (hn : n < 2 ^ 64) (hbl : ∀ e ∈ es, e.1 < 2 ^ 64) :
    (encEntries bk key es).dropWhile (fun e => bytesLt e.1 (histKey (hkeyBytes bk key) n)) =
      encEntries bk key (es.dropWhile (fun e => e.1 < n)) := by
  induction es with
  | nil => rfl
  | cons x r ih =>
    have hx := hbl x (List.mem_cons_self ..)
    have ih' := ih (fun e he => hbl e (List.mem_cons_of_mem _ he))
    simp only [encEntries, List.map_cons, List.dropWhile_cons, histKey_lt _ _ _ hx hn] at ih' ⊢
    by_cases h : x.1 < n
    · simp [h, ih']
    · simp [h]

theorem getLast_enc_val (bk : BucketIds) (key : HKey) (es : Hist) :
    (encEntries bk key es).getLast?.map (·.2) = es.getLast?.map (·.2) := by
  simp [encEntries, List.getLast?_map, Option.map_map, Function.comp_def]

theorem getLast_enc_block (bk : BucketIds) (key : HKey) (es : Hist) (hbl : ∀ e ∈ es, e.1 < 2 ^ 64) :
    (encEntries bk key es).getLast?.map (fun e => beVal ((e.1.drop (hkeyBytes bk key).length).take 8)) =
      es.getLast?.map (·.1) := by
  simp only [encEntries, List.getLast?_map, Option.map_map, Function.comp_def]
  cases hl : es.getLast? with
  | none => rfl
  | some x =>
    have hx : x ∈ es := List.mem_of_getLast? hl
    simp [histKey_block _ _ (hbl x hx)]

/-- `valueAt` on the bytes a bounded iterator yields = `newValueAt` on the per-prefix list -/
theorem valueAtBytes_eq (bk : BucketIds) (hb : bk.HistOK) (key : HKey) (hk : key.Felts) (h : Bucket HKey Hist)
    (hwf : HistBucketWF h) (n : Nat) (hn : n < 2 ^ 64) :
    valueAtBytes (encodeHist bk h) (hkeyBytes bk key) n = newValueAt (lget h key) n := by
  have hbl := lget_blocks h hwf key
  unfold valueAtBytes newValueAt prevOf
  simp only [iter_encodeHist bk hb key hk h hwf, takeWhile_enc bk key _ n hn hbl, dropWhile_enc bk key _ n hn hbl,
    getLast_enc_val]
  cases hd : (lget h key).dropWhile (fun e => decide (e.1 < n)) with
  | nil => rfl
  | cons x r =>
    have hx : x ∈ lget h key := (List.dropWhile_sublist _).subset (by rw [hd]; exact List.mem_cons_self ..)
    simp only [encEntries, List.map_cons, histKey_block _ _ (hbl x hx)]

/-- `lastUpdatedBlockNumber` on bytes = `lastUpdatedOf` on the per-prefix list -/
theorem lastUpdatedBytes_eq (bk : BucketIds) (hb : bk.HistOK) (key : HKey) (hk : key.Felts) (h : Bucket HKey Hist)
    (hwf : HistBucketWF h) (n : Nat) (hn : n < 2 ^ 64) :
    lastUpdatedBytes (encodeHist bk h) (hkeyBytes bk key) n = lastUpdatedOf (lget h key) n := by
  have hbl := lget_blocks h hwf key
  have hbl' : ∀ e ∈ (lget h key).takeWhile (fun e => decide (e.1 < n)), e.1 < 2 ^ 64 :=
    fun e he => hbl e ((List.takeWhile_sublist _).subset he)
  unfold lastUpdatedBytes lastUpdatedOf
  simp only [iter_encodeHist bk hb key hk h hwf, takeWhile_enc bk key _ n hn hbl, dropWhile_enc bk key _ n hn hbl,
    getLast_enc_block bk key _ hbl']
  cases hd : (lget h key).dropWhile (fun e => decide (e.1 < n)) with
  | nil => rfl
  | cons x r =>
    have hx : x ∈ lget h key := (List.dropWhile_sublist _).subset (by rw [hd]; exact List.mem_cons_self ..)
    simp only [encEntries, List.map_cons, histKey_block _ _ (hbl x hx)]

/-! ### `HistBucketWF` is an invariant of the new backend -/

theorem hput_mem (es : Hist) (b v : Nat) : ∀ e ∈ hput es b v, e ∈ es ∨ e = (b, v) := by
  induction es with
  | nil => intro e he; simp [hput] at he; exact Or.inr he
  | cons x r ih =>
    intro e he
    simp only [hput] at he
    split at he
    · rcases List.mem_cons.mp he with h | h
      · exact Or.inr h
      · exact Or.inl h
    · split at he
      · rcases List.mem_cons.mp he with h | h
        · exact Or.inr h
        · exact Or.inl (List.mem_cons_of_mem _ h)
      · rcases List.mem_cons.mp he with h | h
        · exact Or.inl (by rw [h]; exact List.mem_cons_self ..)
        · rcases ih e h with h' | h'
          · exact Or.inl (List.mem_cons_of_mem _ h')
          · exact Or.inr h'

theorem hput_sorted (es : Hist) (b v : Nat) (hs : es.Pairwise (fun x y => x.1 < y.1)) :
    (hput es b v).Pairwise (fun x y => x.1 < y.1) := by
  induction es with
  | nil => simp [hput]
  | cons x r ih =>
    rw [List.pairwise_cons] at hs
    simp only [hput]
    split
    · next hlt =>
      rw [List.pairwise_cons]
      refine ⟨?_, List.pairwise_cons.mpr hs⟩
      intro y hy
      rcases List.mem_cons.mp hy with h | h
      · subst h; exact hlt
      · exact Nat.lt_trans hlt (hs.1 y h)
    · split
      · next _ heq =>
        rw [List.pairwise_cons]
        exact ⟨fun y hy => by have := hs.1 y hy; simp only at this ⊢; omega, hs.2⟩
      · next h1 h2 =>
        rw [List.pairwise_cons]
        refine ⟨?_, ih hs.2⟩
        intro y hy
        rcases hput_mem r b v y hy with h | h
        · exact hs.1 y h
        · subst h; simp only; omega

theorem histBucketWF_lset (h : Bucket HKey Hist) (hwf : HistBucketWF h) (key : HKey) (es : Hist) (hk : key.Felts)
    (hbl : ∀ e ∈ es, e.1 < 2 ^ 64) (hs : es.Pairwise (fun x y => x.1 < y.1)) : HistBucketWF (lset h key es) := by
  have hsub : (h.filter (fun p => !decide (p.1 = key))).Sublist h := List.filter_sublist
  have hmem : ∀ p ∈ h.filter (fun p => !decide (p.1 = key)), p ∈ h := fun p hp => hsub.subset hp
  simp only [lset, bset]
  refine ⟨?_, ?_, ?_, ?_⟩
  · simp only [List.map_cons, List.nodup_cons]
    refine ⟨?_, (hwf.nodup.sublist (hsub.map _))⟩
    intro hm
    obtain ⟨p, hp, he⟩ := List.mem_map.mp hm
    have := (List.mem_filter.mp hp).2
    simp [he] at this
  · intro p hp
    rcases List.mem_cons.mp hp with e | e
    · subst e; exact hk
    · exact hwf.felts p (hmem p e)
  · intro p hp
    rcases List.mem_cons.mp hp with e | e
    · subst e; exact hbl
    · exact hwf.blocks p (hmem p e)
  · intro p hp
    rcases List.mem_cons.mp hp with e | e
    · subst e; exact hs
    · exact hwf.sorted p (hmem p e)

theorem lget_sorted (h : Bucket HKey Hist) (hwf : HistBucketWF h) (key : HKey) :
    (lget h key).Pairwise (fun x y => x.1 < y.1) := by
  rcases lget_cases h key with e | ⟨p, hp, _, e⟩
  · rw [e]; exact List.Pairwise.nil
  · rw [e]; exact hwf.sorted p hp

theorem histBucketWF_put (h : Bucket HKey Hist) (hwf : HistBucketWF h) (key : HKey) (b v : Nat) (hk : key.Felts)
    (hb : b < 2 ^ 64) : HistBucketWF (histPut h key b v) := by
  unfold histPut
  apply histBucketWF_lset h hwf key _ hk
  · intro e he
    rcases hput_mem _ b v e he with h' | h'
    · exact lget_blocks h hwf key e h'
    · subst h'; exact hb
  · exact hput_sorted _ b v (lget_sorted h hwf key)

theorem histBucketWF_del (h : Bucket HKey Hist) (hwf : HistBucketWF h) (key : HKey) (b : Nat) (hk : key.Felts) :
    HistBucketWF (histDel h key b) := by
  unfold histDel hdel
  apply histBucketWF_lset h hwf key _ hk
  · intro e he
    exact lget_blocks h hwf key e (List.mem_filter.mp he).1
  · exact (lget_sorted h hwf key).filter _

theorem foldl_inv {α β : Type} (P : β → Prop) (f : β → α → β) (l : List α) (init : β)
    (hstep : ∀ acc a, a ∈ l → P acc → P (f acc a)) (h0 : P init) : P (l.foldl f init) := by
  induction l generalizing init with
  | nil => exact h0
  | cons a r ih =>
    exact ih (f init a) (fun acc x hx hp => hstep acc x (List.mem_cons_of_mem _ hx) hp)
      (hstep init a (List.mem_cons_self ..) h0)

/-- every address and slot a diff mentions is a felt (32 bytes) -/
structure Diff.Felts (d : Diff) : Prop where
  storage : ∀ p ∈ d.storage, p.1 < 2 ^ 256 ∧ ∀ e ∈ p.2, e.1 < 2 ^ 256
  nonces : ∀ p ∈ d.nonces, p.1 < 2 ^ 256
  deployed : ∀ p ∈ d.deployed, p.1 < 2 ^ 256
  replaced : ∀ p ∈ d.replaced, p.1 < 2 ^ 256

theorem histPutAll_wf (fix : Bool) (h : Bucket HKey Hist) (hwf : HistBucketWF h) (b : Nat) (hb : b < 2 ^ 64) (d : Diff)
    (hd : d.Felts) : HistBucketWF (histPutAll fix h b d) := by
  unfold histPutAll
  have h1 : HistBucketWF (d.storage.foldl (fun h p => p.2.foldl (fun h e => histPut h (.storage p.1 e.1) b e.2) h) h) := by
    apply foldl_inv HistBucketWF _ _ _ _ hwf
    intro acc p hp hacc
    apply foldl_inv HistBucketWF _ _ _ _ hacc
    intro acc' e he hacc'
    exact histBucketWF_put _ hacc' _ b e.2 ⟨(hd.storage p hp).1, (hd.storage p hp).2 e he⟩ hb
  have h2 := foldl_inv HistBucketWF (fun h p => histPut h (.nonce p.1) b p.2) d.nonces _
    (fun acc p hp hacc => histBucketWF_put _ hacc (.nonce p.1) b p.2 (hd.nonces p hp) hb) h1
  have hdep : ∀ h0, HistBucketWF h0 → HistBucketWF (d.deployed.foldl (fun h p => histPut h (.classHash p.1) b p.2) h0) :=
    fun h0 hh => foldl_inv HistBucketWF _ _ _ (fun acc p hp hacc => histBucketWF_put _ hacc (.classHash p.1) b p.2 (hd.deployed p hp) hb) hh
  have hrep : ∀ h0, HistBucketWF h0 → HistBucketWF (d.replaced.foldl (fun h p => histPut h (.classHash p.1) b p.2) h0) :=
    fun h0 hh => foldl_inv HistBucketWF _ _ _ (fun acc p hp hacc => histBucketWF_put _ hacc (.classHash p.1) b p.2 (hd.replaced p hp) hb) hh
  cases fix
  · exact hdep _ (hrep _ h2)
  · exact hrep _ (hdep _ h2)

theorem histDelAll_wf (h : Bucket HKey Hist) (hwf : HistBucketWF h) (b : Nat) (d : Diff) (hd : d.Felts) :
    HistBucketWF (histDelAll h b d) := by
  unfold histDelAll
  have h1 : HistBucketWF (d.storage.foldl (fun h p => p.2.foldl (fun h e => histDel h (.storage p.1 e.1) b) h) h) := by
    apply foldl_inv HistBucketWF _ _ _ _ hwf
    intro acc p hp hacc
    apply foldl_inv HistBucketWF _ _ _ _ hacc
    intro acc' e he hacc'
    exact histBucketWF_del _ hacc' _ b ⟨(hd.storage p hp).1, (hd.storage p hp).2 e he⟩
  have h2 := foldl_inv HistBucketWF (fun h p => histDel h (.nonce p.1) b) d.nonces _
    (fun acc p hp hacc => histBucketWF_del _ hacc (.nonce p.1) b (hd.nonces p hp)) h1
  have h3 := foldl_inv HistBucketWF (fun h p => histDel h (.classHash p.1) b) d.replaced _
    (fun acc p hp hacc => histBucketWF_del _ hacc (.classHash p.1) b (hd.replaced p hp)) h2
  exact foldl_inv HistBucketWF (fun h p => histDel (histDel h (.nonce p.1) b) (.classHash p.1) b) d.deployed _
    (fun acc p hp hacc => histBucketWF_del _ (histBucketWF_del _ hacc (.nonce p.1) b (hd.deployed p hp)) (.classHash p.1) b (hd.deployed p hp)) h3

/-! ### the owners of the leaf nodes are felts -/

def OwnersOK (lv : Bucket Addr Leaves) : Prop := ∀ p ∈ lv, p.1 < 2 ^ 256

theorem ownersOK_lset (lv : Bucket Addr Leaves) (h : OwnersOK lv) (a : Addr) (ha : a < 2 ^ 256) (v : Leaves) :
    OwnersOK (lset lv a v) := by
  intro p hp
  simp only [lset, bset] at hp
  rcases List.mem_cons.mp hp with e | e
  · subst e; exact ha
  · exact h p (List.mem_filter.mp e).1

theorem isSystem_felt (a : Addr) (h : isSystem a = true) : a < 2 ^ 256 := by
  simp only [isSystem, Bool.or_eq_true, beq_iff_eq] at h
  rcases h with h | h <;> subst h <;> decide

theorem writeSlots_owners (cfg : Cfg) (tl : Bucket Addr Leaves × Bucket Addr Leaves) (l : List (Addr × List (Slot × Val)))
    (h : OwnersOK tl.2) (hl : ∀ p ∈ l, p.1 < 2 ^ 256) : OwnersOK (writeSlots cfg tl l).2 := by
  unfold writeSlots
  apply foldl_inv (fun tl : Bucket Addr Leaves × Bucket Addr Leaves => OwnersOK tl.2) _ _ _ _ h
  intro acc p hp hacc
  exact ownersOK_lset _ hacc _ (hl p hp) _

theorem purgeSys_owners (trie : Bucket Addr Leaves) (cl : Bucket Addr Contract × Bucket Addr Leaves) (touched : List Addr)
    (h : OwnersOK cl.2) : OwnersOK (purgeSys trie cl touched).2 := by
  unfold purgeSys
  apply foldl_inv (fun cl : Bucket Addr Contract × Bucket Addr Leaves => OwnersOK cl.2) _ _ _ _ h
  intro acc a _ hacc
  unfold purgeStep
  split
  · next hc =>
    simp only [Bool.and_eq_true] at hc
    exact ownersOK_lset _ hacc _ (isSystem_felt a hc.1.1) _
  · exact hacc

theorem deleteContracts_owners (x : Bucket Addr Contract × Bucket Addr Leaves × Bucket Addr Leaves) (l : List (Addr × CHash))
    (h : OwnersOK x.2.2) (hl : ∀ p ∈ l, p.1 < 2 ^ 256) : OwnersOK (deleteContracts x l).2.2 := by
  unfold deleteContracts
  apply foldl_inv (fun x : Bucket Addr Contract × Bucket Addr Leaves × Bucket Addr Leaves => OwnersOK x.2.2) _ _ _ _ h
  intro acc p hp hacc
  exact ownersOK_lset _ hacc _ (hl p hp) _

/-- REVERT'S PURGE ON BYTES: what `deleteContracts` does to the leaf nodes of the model is, on the
encoded store, one `DeleteStorageNodesByPath` range delete per deployed contract -/
theorem deleteContracts_is_range_deletes (bk : BucketIds) (hb : bk.trieStorage < 256)
    (x : Bucket Addr Contract × Bucket Addr Leaves × Bucket Addr Leaves) (l : List (Addr × CHash))
    (h : OwnersOK x.2.2) (hl : ∀ p ∈ l, p.1 < 2 ^ 256) :
    encodeLeaves bk (deleteContracts x l).2.2 = purgeOwners bk (encodeLeaves bk x.2.2) (l.map (·.1)) := by
  unfold deleteContracts purgeOwners
  induction l generalizing x with
  | nil => rfl
  | cons p r ih =>
    simp only [List.foldl_cons, List.map_cons]
    have hp := hl p (List.mem_cons_self ..)
    rw [ih _ (ownersOK_lset _ h _ hp _) (fun q hq => hl q (List.mem_cons_of_mem _ hq))]
    simp only
    rw [leaves_purge_is_range_delete bk x.2.2 p.1 hp hb h]

/-- the invariant carried along a history: the history bucket is faithfully encodable, the owners of
the leaf nodes are felts, the chain is short enough for a uint64 block number, every diff on the chain
mentions felts only -/
def KeysInv (ch : List Diff) (s : NState) : Prop :=
  HistBucketWF s.hist ∧ ch.length ≤ 2 ^ 64 ∧ (∀ d ∈ ch, d.Felts) ∧ OwnersOK s.leaves

theorem histBucketWF_nil : HistBucketWF [] :=
  ⟨List.nodup_nil, fun _ h => (nomatch h), fun _ h => (nomatch h), fun _ h => (nomatch h)⟩

theorem keysInv_init : KeysInv [] NState.empty :=
  ⟨histBucketWF_nil, Nat.zero_le _, fun _ h => (nomatch h), fun _ h => (nomatch h)⟩

theorem keysInv_store (cfg : Cfg) (ch : List Diff) (s s' : NState) (d : Diff) (hI : KeysInv ch s)
    (hP : d.Felts ∧ ch.length < 2 ^ 64) (hu : (newBackend cfg).update s ch.length d = .ok s') : KeysInv (d :: ch) s' := by
  have hs' := (update_ok cfg s s' ch.length d hu).2
  refine ⟨?_, by simp only [List.length_cons]; omega, ?_, ?_⟩
  · rw [hs']
    exact histPutAll_wf _ _ hI.1 _ hP.2 d hP.1
  · intro d' hd'
    rcases List.mem_cons.mp hd' with e | e
    · subst e; exact hP.1
    · exact hI.2.2.1 d' e
  · rw [hs']
    exact purgeSys_owners _ _ _ (writeSlots_owners cfg _ _ hI.2.2.2 (fun p hp => (hP.1.storage p hp).1))

theorem keysInv_revert (cfg : Cfg) (d : Diff) (rest : List Diff) (s s' : NState) (hI : KeysInv (d :: rest) s)
    (hr : (newBackend cfg).revert s rest.length d = .ok s') : KeysInv rest s' := by
  have hs' := revert_ok cfg s s' rest.length d hr
  have hd := hI.2.2.1 d (List.mem_cons_self ..)
  refine ⟨?_, by have := hI.2.1; simp only [List.length_cons] at this; omega,
    fun d' hd' => hI.2.2.1 d' (List.mem_cons_of_mem _ hd'), ?_⟩
  · rw [hs']
    exact histDelAll_wf _ hI.1 _ d hd
  · rw [hs']
    apply purgeSys_owners
    apply deleteContracts_owners _ _ _ hd.deployed
    apply writeSlots_owners cfg _ _ hI.2.2.2
    intro p hp
    simp only [NState.reverseStorage, List.mem_map] at hp
    obtain ⟨q, hq, rfl⟩ := hp
    exact (hd.storage q hq).1

/-! ### the same invariant for the legacy backend's log buckets (Deprecated*History) -/

theorem logSetStep_wf (K : Addr → HKey) (log : Bool) (b : Nat) (hb : b < 2 ^ 64) (x : Bucket Addr Nat × Bucket HKey Hist)
    (p : Addr × Nat) (hk : (K p.1).Felts) (h : HistBucketWF x.2) : HistBucketWF (logSetStep K log b x p).2 := by
  unfold logSetStep
  split
  · cases log
    · exact h
    · exact histBucketWF_put _ h _ b _ hk hb
  · exact h

theorem replaceAll_logs_wf (s : LState) (log : Bool) (b : Nat) (hb : b < 2 ^ 64) (l : List (Addr × CHash))
    (hl : ∀ p ∈ l, p.1 < 2 ^ 256) (h : HistBucketWF s.logs) : HistBucketWF (s.replaceAll log b l).logs := by
  unfold LState.replaceAll
  exact foldl_inv (fun x : Bucket Addr Nat × Bucket HKey Hist => HistBucketWF x.2) _ _ _
    (fun acc p hp hacc => logSetStep_wf HKey.classHash log b hb acc p (hl p hp) hacc) h

theorem nonceAll_logs_wf (s : LState) (log : Bool) (b : Nat) (hb : b < 2 ^ 64) (l : List (Addr × Val))
    (hl : ∀ p ∈ l, p.1 < 2 ^ 256) (h : HistBucketWF s.logs) : HistBucketWF (s.nonceAll log b l).logs := by
  unfold LState.nonceAll
  exact foldl_inv (fun x : Bucket Addr Nat × Bucket HKey Hist => HistBucketWF x.2) _ _ _
    (fun acc p hp hacc => logSetStep_wf HKey.nonce log b hb acc p (hl p hp) hacc) h

theorem legacySlots_logs_wf (log : Bool) (b : Nat) (hb : b < 2 ^ 64) (a : Addr) (ha : a < 2 ^ 256) (t : Leaves)
    (lg : Bucket HKey Hist) (slots : List (Slot × Val)) (hs : ∀ e ∈ slots, e.1 < 2 ^ 256) (h : HistBucketWF lg) :
    HistBucketWF (legacySlots log b a t lg slots).2 := by
  unfold legacySlots
  apply foldl_inv (fun acc : Leaves × Bucket HKey Hist => HistBucketWF acc.2) _ _ _ _ h
  intro acc e he hacc
  simp only
  split
  · exact histBucketWF_put _ hacc _ b _ ⟨ha, hs e he⟩ hb
  · exact hacc

theorem storageAll_logs_wf (s : LState) (log : Bool) (b : Nat) (hb : b < 2 ^ 64) (l : List (Addr × List (Slot × Val)))
    (hl : ∀ p ∈ l, p.1 < 2 ^ 256 ∧ ∀ e ∈ p.2, e.1 < 2 ^ 256) (h : HistBucketWF s.logs) :
    HistBucketWF (s.storageAll log b l).logs := by
  unfold LState.storageAll
  apply foldl_inv (fun x : Bucket Addr Leaves × Bucket HKey Hist => HistBucketWF x.2) _ _ _ _ h
  intro acc p hp hacc
  unfold storageStep
  exact legacySlots_logs_wf log b hb p.1 (hl p hp).1 _ _ p.2 (hl p hp).2 hacc

theorem deploySystem_logs (s : LState) (b : Nat) (addrs : List Addr) : (s.deploySystem b addrs).logs = s.logs := rfl

theorem afterContracts_logs_wf (s : LState) (log : Bool) (b : Nat) (hb : b < 2 ^ 64)
    (replaced : List (Addr × CHash)) (nonces : List (Addr × Val)) (storage : List (Addr × List (Slot × Val)))
    (hr : ∀ p ∈ replaced, p.1 < 2 ^ 256) (hn : ∀ p ∈ nonces, p.1 < 2 ^ 256)
    (hs : ∀ p ∈ storage, p.1 < 2 ^ 256 ∧ ∀ e ∈ p.2, e.1 < 2 ^ 256) (h : HistBucketWF s.logs) :
    HistBucketWF (s.afterContracts log b replaced nonces storage).logs := by
  unfold LState.afterContracts
  apply storageAll_logs_wf _ log b hb storage hs
  rw [deploySystem_logs]
  exact nonceAll_logs_wf _ log b hb nonces hn (replaceAll_logs_wf s log b hb replaced hr h)

theorem purgeSystem_logs (s : LState) : s.purgeSystem.logs = s.logs := by
  unfold LState.purgeSystem
  apply foldl_inv (fun x : LState => x.logs = s.logs) _ _ _ _ rfl
  intro acc a _ hacc
  split
  · simpa [LState.purge] using hacc
  · exact hacc

theorem logsDelAll_wf (h : Bucket HKey Hist) (hwf : HistBucketWF h) (b : Nat) (d : Diff) (hd : d.Felts) :
    HistBucketWF (logsDelAll h b d) := by
  unfold logsDelAll
  have h1 : HistBucketWF (d.storage.foldl (fun h p => p.2.foldl (fun h e => histDel h (.storage p.1 e.1) b) h) h) := by
    apply foldl_inv HistBucketWF _ _ _ _ hwf
    intro acc p hp hacc
    apply foldl_inv HistBucketWF _ _ _ _ hacc
    intro acc' e he hacc'
    exact histBucketWF_del _ hacc' _ b ⟨(hd.storage p hp).1, (hd.storage p hp).2 e he⟩
  have h2 := foldl_inv HistBucketWF (fun h p => histDel h (.nonce p.1) b) d.nonces _
    (fun acc p hp hacc => histBucketWF_del _ hacc (.nonce p.1) b (hd.nonces p hp)) h1
  exact foldl_inv HistBucketWF (fun h p => histDel h (.classHash p.1) b) d.replaced _
    (fun acc p hp hacc => histBucketWF_del _ hacc (.classHash p.1) b (hd.replaced p hp)) h2

def KeysInvL (ch : List Diff) (s : LState) : Prop :=
  HistBucketWF s.logs ∧ ch.length ≤ 2 ^ 64 ∧ ∀ d ∈ ch, d.Felts

theorem keysInvL_init : KeysInvL [] LState.empty := ⟨histBucketWF_nil, Nat.zero_le _, fun _ h => (nomatch h)⟩

theorem keysInvL_store (ch : List Diff) (s s' : LState) (d : Diff) (hI : KeysInvL ch s)
    (hP : d.Felts ∧ ch.length < 2 ^ 64) (hu : legacyBackend.update s ch.length d = .ok s') : KeysInvL (d :: ch) s' := by
  have hs' := (legacy_update_ok s s' ch.length d hu).2
  refine ⟨?_, by simp only [List.length_cons]; omega, ?_⟩
  · rw [hs']
    exact afterContracts_logs_wf _ true _ hP.2 _ _ _ hP.1.replaced hP.1.nonces hP.1.storage hI.1
  · intro d' hd'
    rcases List.mem_cons.mp hd' with e | e
    · subst e; exact hP.1
    · exact hI.2.2 d' e

theorem keysInvL_revert (d : Diff) (rest : List Diff) (s s' : LState) (hI : KeysInvL (d :: rest) s)
    (hr : legacyBackend.revert s rest.length d = .ok s') : KeysInvL rest s' := by
  have hs' := (legacy_revert_ok true s s' rest.length d hr).2.2
  have hd := hI.2.2 d (List.mem_cons_self ..)
  have hlen : rest.length < 2 ^ 64 := by have := hI.2.1; simp only [List.length_cons] at this; omega
  refine ⟨?_, by omega, fun d' hd' => hI.2.2 d' (List.mem_cons_of_mem _ hd')⟩
  rw [hs', purgeSystem_logs]
  show HistBucketWF (LState.afterContracts _ false rest.length _ _ _).logs
  apply afterContracts_logs_wf _ false _ hlen
  · intro p hp
    obtain ⟨q, hq, rfl⟩ := List.mem_map.mp hp
    exact hd.replaced q hq
  · intro p hp
    obtain ⟨q, hq, rfl⟩ := List.mem_map.mp hp
    exact hd.nonces q hq
  · intro p hp
    simp only [LState.reverseStorage, List.mem_map] at hp
    obtain ⟨q, hq, rfl⟩ := hp
    refine ⟨(hd.storage q hq).1, ?_⟩
    intro e he
    obtain ⟨x, hx, rfl⟩ := List.mem_map.mp he
    exact (hd.storage q hq).2 x hx
  · exact logsDelAll_wf _ hI.1 _ d hd

end Juno.C03
