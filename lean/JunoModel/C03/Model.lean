/-
C03 — model of juno's state history: how the two state backends record changes at `Update`,
forget them at `Revert`, and answer head and historical reads.
Core Lean only: this file is linked into the driver executable `c03drv`.

Transcribed code (pinned commit, see notes/C03.md):
* new backend   core/state/state.go (Update, Revert, commit's system-contract purge, writeHistory,
                deleteHistory), state_reader.go (valueAt, getHistoricalValue, GetReverseStateDiff, head
                reads), history.go (stateHistory: checkDeployed, Class), accessors.go
* legacy        core/deprecatedstate/state.go (Update, updateContracts, Revert, GetReverseStateDiff,
                performStateDeletions, purgeContract, purgesystemContracts, valueAt),
                contract.go (UpdateStorage + trie.Put's "old value" contract), history.go
* both          blockchain/statebackend (Store / RevertHead / HeadState / StateAtBlockNumber /
                StateAtBlockHash, casm_metadata.go), core/class.go (ClassCasmHashMetadata)

What is abstracted:
* a key/value bucket is a function from its key to an optional value; a history bucket is, per
  key prefix, the list of its (block, value) entries in ascending block order (`Hist`) — the
  order a prefix iterator of the ordered store yields them (keys are prefix ++ big-endian uint64);
  `Seek` is `dropWhile (· < n)`, `Prev` from the seek position is the last element of the
  `takeWhile (· < n)` part;
* a storage trie is the finite map of its non-zero leaves (`Leaves`); roots and commitments are
  not modelled (C01/C02), except "storage root is zero" = "no leaves";
* class definitions are abstracted to their hash; a declared class is its declaration height.
Chains are lists with the NEWEST block first (block number of the head = length - 1).
-/
namespace Juno.C03

abbrev Addr := Nat
abbrev Slot := Nat
abbrev Val := Nat
abbrev CHash := Nat
abbrev BlockId := Nat

/-- `state.IsSystemContract`: 0x1 and 0x2. -/
def isSystem (a : Addr) : Bool := a == 1 || a == 2

/-- A Go map written as association list: lookup = first match (keys are unique in a map). -/
def alook {β : Type} : List (Nat × β) → Nat → Option β
  | [], _ => none
  | (k', v) :: r, k => if k' = k then some v else alook r k

/-- A key/value bucket: finite map as association list (first match wins; `bset` keeps keys
unique). Data, not closures, so that the compiled driver does no repeated work. -/
abbrev Bucket (κ β : Type) := List (κ × β)

def bget {κ β : Type} [DecidableEq κ] : Bucket κ β → κ → Option β
  | [], _ => none
  | (k', v) :: r, k => if k' = k then some v else bget r k

/-- `Put` (`some`) / `Delete` (`none`) -/
def bset {κ β : Type} [DecidableEq κ] (m : Bucket κ β) (k : κ) (v : Option β) : Bucket κ β :=
  match v with
  | some x => (k, x) :: m.filter (fun p => !decide (p.1 = k))
  | none => m.filter (fun p => !decide (p.1 = k))

/-- buckets whose absent entries read as the empty list (tries without leaves, history prefixes
without entries) -/
def lget {κ β : Type} [DecidableEq κ] (m : Bucket κ (List β)) (k : κ) : List β := (bget m k).getD []
def lset {κ β : Type} [DecidableEq κ] (m : Bucket κ (List β)) (k : κ) (v : List β) : Bucket κ (List β) :=
  bset m k (some v)

/-! ## State diffs -/

/-- entry of `StateDiff.DeclaredV1Classes`: Sierra class hash ↦ compiled class hash, plus the
blake2s hash of the definition that juno precomputes when the protocol is < 0.14.1 -/
structure SierraDecl where
  hash : CHash
  casm : Val
  casmV2 : Val
  deriving DecidableEq, Repr

/-- `core.StateDiff` + what else `Update` is given for a block. -/
structure Diff where
  /-- `StorageDiffs : map addr (map slot value)` -/
  storage : List (Addr × List (Slot × Val))
  nonces : List (Addr × Val)
  deployed : List (Addr × CHash)
  replaced : List (Addr × CHash)
  /-- `DeclaredV0Classes` (definitions in `newClasses`) -/
  declared0 : List CHash
  declared1 : List SierraDecl
  migrated : List (CHash × Val)
  /-- header.ProtocolVersion ≥ 0.14.1 -/
  v2 : Bool
  /-- keys of `newClasses` that are in neither declared list: sync supplies the definition of a
  deployed contract's class when the state does not know it -/
  extraClasses : List CHash := []
  deriving Repr

def Diff.empty : Diff := ⟨[], [], [], [], [], [], [], false, []⟩

/-- the declared lists `DeclaredV0Classes ++ keys DeclaredV1Classes` (what `Revert` walks first) -/
def Diff.classHashes (d : Diff) : List CHash := d.declared0 ++ d.declared1.map (·.hash)

/-- keys of `newClasses`: every definition `Update` is given gets registered -/
def Diff.newClasses (d : Diff) : List CHash := d.classHashes ++ d.extraClasses

/-- the classes `Revert` looks at: the declared ones and the classes of the deployed contracts
(fix 64c1acb) -/
def Diff.revertClasses (d : Diff) : List CHash := d.classHashes ++ d.deployed.map (·.2)

def Diff.storageAt (d : Diff) (a : Addr) (k : Slot) : Option Val :=
  (alook d.storage a).bind (fun slots => alook slots k)

/-- every address that gets a state object during `Update` -/
def Diff.touched (d : Diff) : List Addr :=
  d.deployed.map (·.1) ++ d.replaced.map (·.1) ++ d.nonces.map (·.1) ++ d.storage.map (·.1)

/-- keys of an association list are pairwise distinct -/
def nodupKeys {β : Type} : List (Nat × β) → Bool
  | [] => true
  | p :: r => !(r.any (fun q => q.1 == p.1)) && nodupKeys r

/-- executable form of the well-formedness the theorems assume (`Diff.WF` in the proofs): sections
are maps, no contract both deployed and replaced, system contracts only receive storage writes,
extra class definitions are those of deployed contracts -/
def Diff.wfb (d : Diff) : Bool :=
  nodupKeys d.storage && d.storage.all (fun p => nodupKeys p.2) && nodupKeys d.nonces &&
  nodupKeys d.deployed && nodupKeys d.replaced &&
  d.deployed.all (fun p => !(d.replaced.any (fun q => q.1 == p.1))) &&
  d.deployed.all (fun p => !isSystem p.1) && d.replaced.all (fun p => !isSystem p.1) &&
  d.nonces.all (fun p => !isSystem p.1) &&
  d.extraClasses.all (fun c => d.deployed.any (fun p => p.2 == c)) &&
  nodupKeys (d.classHashes.map (fun c => (c, ())))

/-! ## The definition in the property: the abstract state is the fold of the diffs -/

structure AbsSt where
  stor : Addr → Slot → Val
  nonce : Addr → Val
  cls : Addr → CHash
  /-- block of the `DeployedContracts` entry -/
  dep : Addr → Option Nat
  /-- block of the declaration -/
  decl : CHash → Option Nat
  /-- compiled class hash in force -/
  casm : CHash → Option Val

def AbsSt.empty : AbsSt := ⟨fun _ _ => 0, fun _ => 0, fun _ => 0, fun _ => none, fun _ => none, fun _ => none⟩

/-- apply the diff of block `b` -/
def AbsSt.apply (s : AbsSt) (b : Nat) (d : Diff) : AbsSt where
  stor a k := (d.storageAt a k).getD (s.stor a k)
  nonce a := (alook d.nonces a).getD (s.nonce a)
  cls a :=
    match alook d.replaced a with
    | some c => c
    | none => (alook d.deployed a).getD (s.cls a)
  dep a :=
    match alook d.deployed a with
    | some _ => some b
    | none => s.dep a
  decl c :=
    match s.decl c with
    | some n => some n
    | none => if c ∈ d.newClasses then some b else none
  casm c :=
    match alook d.migrated c with
    | some v => some v
    | none =>
      match d.declared1.find? (fun x => x.hash == c) with
      | some x => some x.casm
      | none => s.casm c

/-- abstract state after a chain (newest block first) -/
def absOf : List Diff → AbsSt
  | [] => AbsSt.empty
  | d :: rest => (absOf rest).apply rest.length d

/-- abstract state after block `n` of the chain (`n < length`) -/
def absAt (ch : List Diff) (n : Nat) : AbsSt := absOf (ch.drop (ch.length - 1 - n))

/-- answer of a read -/
inductive Res
  | ok (v : Val)
  | notfound
  deriving DecidableEq, Repr

/-- what is read -/
inductive Query
  | classHash (a : Addr)
  | nonce (a : Addr)
  | storage (a : Addr) (k : Slot)
  /-- `Class(hash)`: the answer is the declaration height -/
  | cls (c : CHash)
  deriving DecidableEq, Repr

/-- The property's answer for contracts that enter the state through `DeployedContracts` and for
classes: the value, or not-found when the contract / class does not exist yet. -/
def AbsSt.read (s : AbsSt) : Query → Res
  | .classHash a => if (s.dep a).isSome then .ok (s.cls a) else .notfound
  | .nonce a => if (s.dep a).isSome then .ok (s.nonce a) else .notfound
  | .storage a k => if (s.dep a).isSome then .ok (s.stor a k) else .notfound
  | .cls c => match s.decl c with | some n => .ok n | none => .notfound

/-! ## Storage tries as finite maps of non-zero leaves -/

abbrev Leaves := List (Slot × Val)

def tget (t : Leaves) (k : Slot) : Val := (alook t k).getD 0
def tdel (t : Leaves) (k : Slot) : Leaves := t.filter (fun p => p.1 != k)
/-- `trie.Update(k, v)`: a zero value deletes -/
def tput (t : Leaves) (k : Slot) (v : Val) : Leaves := if v = 0 then tdel t k else (k, v) :: tdel t k

/-! ## History buckets -/

/-- entries of one key prefix in iteration order (ascending block number) -/
abbrev Hist := List (Nat × Val)

/-- `Put(prefix ++ be64 b, v)` seen through the prefix: insert in order, replace an equal key -/
def hput : Hist → Nat → Val → Hist
  | [], b, v => [(b, v)]
  | (b', v') :: r, b, v =>
    if b < b' then (b, v) :: (b', v') :: r
    else if b = b' then (b, v) :: r
    else (b', v') :: hput r b v

/-- `Delete(prefix ++ be64 b)` -/
def hdel (h : Hist) (b : Nat) : Hist := h.filter (fun e => e.1 != b)

/-- the three history buckets (new: ContractStorageHistory / ContractNonceHistory /
ContractClassHashHistory; legacy: the Deprecated* ones) -/
inductive HKey
  | storage (a : Addr) (k : Slot)
  | nonce (a : Addr)
  | classHash (a : Addr)
  deriving DecidableEq, Repr

/-- `Prev()` from the seek position: the entry before it -/
def prevOf (before : Hist) : Option Val := before.getLast?.map (·.2)

/-- core/state/state_reader.go `valueAt`: `Seek(prefix ++ be64 n)`; if the seek fails or lands on
another block, `Prev()`; no entry → `ErrNoHistoryValue` (`none`). -/
def newValueAt (h : Hist) (n : Nat) : Option Val :=
  let before := h.takeWhile (fun e => e.1 < n)
  match h.dropWhile (fun e => e.1 < n) with
  | (b, v) :: _ => if b = n then some v else prevOf before
  | [] => prevOf before

/-- `getHistoricalValue`: `ErrNoHistoryValue` reads as zero -/
def newHistorical (h : Hist) (n : Nat) : Val := (newValueAt h n).getD 0

/-- the `for it.Seek(..); it.Valid(); it.Next()` loop of core/deprecatedstate/state.go `valueAt`,
started at the seek position -/
def legacyScan : Hist → Nat → Option Val
  | [], _ => none
  | (b, v) :: r, n => if b < n then none else if b = n then legacyScan r n else some v

/-- legacy `valueAt`: the first log strictly above `n` holds the value at `n`;
`none` = `ErrCheckHeadState` -/
def legacyValueAt (h : Hist) (n : Nat) : Option Val :=
  legacyScan (h.dropWhile (fun e => e.1 < n)) n

/-! ## Which variant of the code is modelled -/

/-- `false` = the code as found at the pinned commit, `true` = with the proposed repair. -/
structure Cfg where
  /-- core/trie2 `Trie.delete`, case ValueNode, records the full path of the deleted leaf
  (as found: the remaining, empty, path — the leaf node stays on disk when it is deleted while its
  sibling leaf `k xor 1` exists). -/
  leafFix : Bool
  /-- core/state `stateHistory.checkDeployed` does not probe the deployment height of the system
  contracts 0x1/0x2 (as found: it does, and `commit` deletes their record — with the height —
  whenever their storage becomes empty, also during `Update`). -/
  sysProbeFix : Bool
  /-- core/state `writeHistory` writes the class hash of deployed contracts before the one of
  replaced classes, as `Update` applies them (as found: the other way round, so that for an address
  both deployed and replaced by one diff the history holds the deployed class and the head the
  replaced one). -/
  histOrderFix : Bool
  /-- blockchain/statebackend `storeCasmHashMetadata` stores the compiled class hash a migration
  carries (as found: `Migrate` only sets the height and keeps the hash juno precomputed). -/
  migValFix : Bool := false
  /-- core/deprecatedstate `removeDeclaredClasses` looks at a class hash that the declared sections
  list twice only once (7460746; as found the second look-up fails and the head cannot be
  reverted). Legacy backend only. -/
  dupDeclFix : Bool := false
  deriving DecidableEq, Repr

def Cfg.asFound : Cfg := ⟨false, false, false, false, false⟩
def Cfg.repaired : Cfg := ⟨true, true, true, true, true⟩
/-- the tree: b4efaf4 (`leafFix`), 904a370 (`histOrderFix`) and 7460746 (`dupDeclFix`) are applied,
the system-contract probe change and the migration change are only proposed -/
def Cfg.current : Cfg := ⟨true, false, true, false, true⟩

inductive Err
  | alreadyDeployed | notFound | notDeployed | classMissing | checkHeadState
  | metaMissing | cannotMigrate | cannotUnmigrate | emptyChain
  deriving DecidableEq, Repr

/-! ## New backend (core/state) -/

/-- `stateContract` without the storage root -/
structure Contract where
  nonce : Val
  classHash : CHash
  deployedHeight : Nat
  deriving DecidableEq, Repr

structure NState where
  /-- bucket `Contract` -/
  contracts : Bucket Addr Contract
  /-- logical content of each contract's storage trie -/
  trie : Bucket Addr Leaves
  /-- leaf nodes of bucket `ContractTrieStorage` on disk: what the head reader fetches by path -/
  leaves : Bucket Addr Leaves
  /-- bucket `Class`: `DeclaredClassDefinition.At` -/
  classes : Bucket CHash Nat
  hist : Bucket HKey Hist

def NState.empty : NState := ⟨[], [], [], [], []⟩

/-- the other leaf under the same last-level binary node -/
def sib (k : Slot) : Slot := if k % 2 = 0 then k + 1 else k - 1

/-- `stateObject.commit`: keys in DESCENDING order, `tr.Update(key, val)` each; second component:
the leaf nodes on disk after the node set is flushed. -/
def insertDesc (e : Slot × Val) : List (Slot × Val) → List (Slot × Val)
  | [] => [e]
  | x :: r => if x.1 ≤ e.1 then e :: x :: r else x :: insertDesc e r

/-- `slices.SortFunc(keys, b.Cmp(a))`: descending keys -/
def sortDesc (l : List (Slot × Val)) : List (Slot × Val) := l.foldr insertDesc []

def applySlots (cfg : Cfg) (t lv : Leaves) (slots : List (Slot × Val)) : Leaves × Leaves :=
  (sortDesc slots).foldl
    (fun (acc : Leaves × Leaves) (e : Slot × Val) =>
      let present := (alook acc.1 e.1).isSome
      let lv' :=
        if e.2 = 0 then
          if present then
            if !cfg.leafFix && (alook acc.1 (sib e.1)).isSome then acc.2 else tdel acc.2 e.1
          else acc.2
        else tput acc.2 e.1 e.2
      (tput acc.1 e.1 e.2, lv'))
    (t, lv)

/-- classes of `newClasses` not yet on disk get `At = b` -/
def declareStep (b : Nat) (m : Bucket CHash Nat) (c : CHash) : Bucket CHash Nat :=
  match bget m c with
  | some _ => m
  | none => bset m c (some b)

def declareFold (classes : Bucket CHash Nat) (b : Nat) (cs : List CHash) : Bucket CHash Nat :=
  cs.foldl (declareStep b) classes

/-- register deployed contracts: `newContractDeployed(classHash, b)` -/
def deployC (c : Bucket Addr Contract) (b : Nat) (l : List (Addr × CHash)) : Bucket Addr Contract :=
  l.foldl (fun c p => bset c p.1 (some ⟨0, p.2, b⟩)) c

/-- `updateContractClasses` -/
def setClassStep (c : Bucket Addr Contract) (p : Addr × CHash) : Bucket Addr Contract :=
  match bget c p.1 with
  | some x => bset c p.1 (some { x with classHash := p.2 })
  | none => c

def setClassC (c : Bucket Addr Contract) (l : List (Addr × CHash)) : Bucket Addr Contract :=
  l.foldl setClassStep c

/-- `updateContractNonces` -/
def setNonceStep (c : Bucket Addr Contract) (p : Addr × Val) : Bucket Addr Contract :=
  match bget c p.1 with
  | some x => bset c p.1 (some { x with nonce := p.2 })
  | none => c

def setNonceC (c : Bucket Addr Contract) (l : List (Addr × Val)) : Bucket Addr Contract :=
  l.foldl setNonceStep c

/-- `updateContractStorage`: a system contract without record gets one (class hash 0, deployed
at `b`) -/
def sysCreateStep (b : Nat) (c : Bucket Addr Contract) (a : Addr) : Bucket Addr Contract :=
  match bget c a with
  | some _ => c
  | none => if isSystem a then bset c a (some ⟨0, 0, b⟩) else c

def sysCreateC (c : Bucket Addr Contract) (b : Nat) (addrs : List Addr) : Bucket Addr Contract :=
  addrs.foldl (sysCreateStep b) c

/-- the storage part of `commit`: every state object's dirty storage goes into its trie; result =
(tries, leaf nodes on disk) -/
def writeSlots (cfg : Cfg) (tl : Bucket Addr Leaves × Bucket Addr Leaves) (l : List (Addr × List (Slot × Val))) :
    Bucket Addr Leaves × Bucket Addr Leaves :=
  l.foldl (fun tl p =>
    let r := applySlots cfg (lget tl.1 p.1) (lget tl.2 p.1) p.2
    (lset tl.1 p.1 r.1, lset tl.2 p.1 r.2)) tl

/-- `commit`: a system contract among the state objects whose storage root is zero is set to the
zero leaf and marked for deletion; `flush` deletes its record and its storage nodes. This runs in
`Update` as well as in `Revert`. Result = (contract records, leaf nodes on disk). -/
def purgeStep (trie : Bucket Addr Leaves) (cl : Bucket Addr Contract × Bucket Addr Leaves) (a : Addr) :
    Bucket Addr Contract × Bucket Addr Leaves :=
  if isSystem a && (bget cl.1 a).isSome && (lget trie a).isEmpty then (bset cl.1 a none, lset cl.2 a [])
  else cl

def purgeSys (trie : Bucket Addr Leaves) (cl : Bucket Addr Contract × Bucket Addr Leaves) (touched : List Addr) :
    Bucket Addr Contract × Bucket Addr Leaves :=
  touched.foldl (purgeStep trie) cl

/-- one history `Put` -/
def histPut (h : Bucket HKey Hist) (key : HKey) (b : Nat) (v : Val) : Bucket HKey Hist :=
  lset h key (hput (lget h key) b v)

/-- one history `Delete` -/
def histDel (h : Bucket HKey Hist) (key : HKey) (b : Nat) : Bucket HKey Hist :=
  lset h key (hdel (lget h key) b)

/-- `writeHistory`: the value AFTER the change, at the block of the change. As found the class
hashes of replaced classes are written before those of deployed contracts (`orderFix = false`),
the opposite of the order in which `Update` applies them. -/
def histPutAll (orderFix : Bool) (h : Bucket HKey Hist) (b : Nat) (d : Diff) : Bucket HKey Hist :=
  let h := d.storage.foldl (fun h p => p.2.foldl (fun h e => histPut h (.storage p.1 e.1) b e.2) h) h
  let h := d.nonces.foldl (fun h p => histPut h (.nonce p.1) b p.2) h
  if orderFix then
    let h := d.deployed.foldl (fun h p => histPut h (.classHash p.1) b p.2) h
    d.replaced.foldl (fun h p => histPut h (.classHash p.1) b p.2) h
  else
    let h := d.replaced.foldl (fun h p => histPut h (.classHash p.1) b p.2) h
    d.deployed.foldl (fun h p => histPut h (.classHash p.1) b p.2) h

/-- `State.Update` (root checks left out). Guards are evaluated where the code evaluates them:
`HasContract` on the disk state before the block, `getStateObject` on the state objects so far. -/
def NState.update (cfg : Cfg) (s : NState) (b : Nat) (d : Diff) : Except Err NState :=
  if d.deployed.any (fun p => (bget s.contracts p.1).isSome) then .error .alreadyDeployed else
  let c2 := deployC s.contracts b d.deployed
  if d.replaced.any (fun p => (bget c2 p.1).isNone) then .error .notFound else
  let c3 := setClassC c2 d.replaced
  if d.nonces.any (fun p => (bget c3 p.1).isNone) then .error .notFound else
  let c4 := setNonceC c3 d.nonces
  if d.storage.any (fun p => (bget c4 p.1).isNone && !isSystem p.1) then .error .notFound else
  let c5 := sysCreateC c4 b (d.storage.map (·.1))
  let tl := writeSlots cfg (s.trie, s.leaves) d.storage
  let cl := purgeSys tl.1 (c5, tl.2) d.touched
  .ok { contracts := cl.1, trie := tl.1, leaves := cl.2,
        classes := declareFold s.classes b d.newClasses,
        hist := histPutAll cfg.histOrderFix s.hist b d }

/-- `GetReverseStateDiff`: the values at block `b - 1` read from the history buckets (no
deployment check on this path) -/
def NState.reverseStorage (s : NState) (b : Nat) (d : Diff) : List (Addr × List (Slot × Val)) :=
  d.storage.map (fun p => (p.1, p.2.map (fun e =>
    (e.1, if b = 0 then 0 else newHistorical (lget s.hist (.storage p.1 e.1)) (b - 1)))))

def NState.reverseNonces (s : NState) (b : Nat) (d : Diff) : List (Addr × Val) :=
  d.nonces.map (fun p => (p.1, if b = 0 then 0 else newHistorical (lget s.hist (.nonce p.1)) (b - 1)))

def NState.reverseReplaced (s : NState) (b : Nat) (d : Diff) : List (Addr × CHash) :=
  d.replaced.map (fun p => (p.1, if b = 0 then 0 else newHistorical (lget s.hist (.classHash p.1)) (b - 1)))

/-- classes declared by the reverted block (and at that block) are deleted -/
def undeclareFold (classes : Bucket CHash Nat) (b : Nat) (cs : List CHash) : Bucket CHash Nat :=
  cs.foldl (fun m c => if bget m c = some b then bset m c none else m) classes

/-- legacy `removeDeclaredClasses`, one class: the class must be there; it is deleted if it was
declared at the reverted block -/
def undeclareStepM (b : Nat) (m : Bucket CHash Nat) (c : CHash) : Except Err (Bucket CHash Nat) :=
  match bget m c with
  | none => .error .classMissing
  | some at_ => .ok (if at_ = b then bset m c none else m)

/-- `stateObjects[addr] = nil` for the block's deployed contracts; `flush`: `DeleteContract` +
`DeleteStorageNodesByPath`. Result = (records, tries, leaves). -/
def deleteContracts (x : Bucket Addr Contract × Bucket Addr Leaves × Bucket Addr Leaves) (l : List (Addr × CHash)) :
    Bucket Addr Contract × Bucket Addr Leaves × Bucket Addr Leaves :=
  l.foldl (fun x p => (bset x.1 p.1 none, lset x.2.1 p.1 [], lset x.2.2 p.1 [])) x

/-- `deleteHistory` -/
def histDelAll (h : Bucket HKey Hist) (b : Nat) (d : Diff) : Bucket HKey Hist :=
  let h := d.storage.foldl (fun h p => p.2.foldl (fun h e => histDel h (.storage p.1 e.1) b) h) h
  let h := d.nonces.foldl (fun h p => histDel h (.nonce p.1) b) h
  let h := d.replaced.foldl (fun h p => histDel h (.classHash p.1) b) h
  d.deployed.foldl (fun h p => histDel (histDel h (.nonce p.1) b) (.classHash p.1) b) h

/-- `State.Revert` of block `b` whose diff was `d` -/
def NState.revert (cfg : Cfg) (s : NState) (b : Nat) (d : Diff) : Except Err NState :=
  let rs := s.reverseStorage b d
  let rn := s.reverseNonces b d
  let rr := s.reverseReplaced b d
  if d.classHashes.any (fun c => (bget s.classes c).isNone) then .error .classMissing else
  if rr.any (fun p => (bget s.contracts p.1).isNone) then .error .notFound else
  let c2 := setClassC s.contracts rr
  if rn.any (fun p => (bget c2 p.1).isNone) then .error .notFound else
  let c3 := setNonceC c2 rn
  if rs.any (fun p => (bget c3 p.1).isNone && !isSystem p.1) then .error .notFound else
  let c4 := sysCreateC c3 b (rs.map (·.1))
  let tl := writeSlots cfg (s.trie, s.leaves) rs
  let x := deleteContracts (c4, tl.1, tl.2) d.deployed
  let cl := purgeSys x.2.1 (x.1, x.2.2) d.touched
  .ok { contracts := cl.1, trie := x.2.1, leaves := cl.2,
        classes := undeclareFold s.classes b d.revertClasses,
        hist := histDelAll s.hist b d }

/-- `StateReader` at the head -/
def NState.headRead (s : NState) : Query → Res
  | .classHash a => match bget s.contracts a with | some c => .ok c.classHash | none => .notfound
  | .nonce a => match bget s.contracts a with | some c => .ok c.nonce | none => .notfound
  | .storage a k => .ok (tget (lget s.leaves a) k)
  | .cls c => match bget s.classes c with | some n => .ok n | none => .notfound

/-- `checkDeployed` / `ContractDeployedAt` -/
def NState.deployedAt (cfg : Cfg) (s : NState) (a : Addr) (n : Nat) : Bool :=
  (cfg.sysProbeFix && isSystem a) ||
  match bget s.contracts a with
  | some c => decide (c.deployedHeight ≤ n)
  | none => false

/-- `stateHistory` at block `n` -/
def NState.histRead (cfg : Cfg) (s : NState) (n : Nat) : Query → Res
  | .classHash a => if s.deployedAt cfg a n then .ok (newHistorical (lget s.hist (.classHash a)) n) else .notfound
  | .nonce a => if s.deployedAt cfg a n then .ok (newHistorical (lget s.hist (.nonce a)) n) else .notfound
  | .storage a k => if s.deployedAt cfg a n then .ok (newHistorical (lget s.hist (.storage a k)) n) else .notfound
  | .cls c =>
    match bget s.classes c with
    | some at_ => if n < at_ then .notfound else .ok at_
    | none => .notfound

/-! ## Legacy backend (core/deprecatedstate) -/

structure LState where
  /-- bucket `ContractClassHash`; presence = `deployed()` -/
  classHash : Bucket Addr CHash
  /-- bucket `ContractNonce` -/
  nonce : Bucket Addr Val
  trie : Bucket Addr Leaves
  /-- bucket `ContractDeploymentHeight` -/
  deployHeight : Bucket Addr Nat
  classes : Bucket CHash Nat
  /-- the Deprecated*History buckets: OLD value, at the block of the change -/
  logs : Bucket HKey Hist

def LState.empty : LState := ⟨[], [], [], [], [], []⟩

/-- `putNewContract` for each entry: class hash, nonce 0, deployment height `b` -/
def LState.deploy (s : LState) (b : Nat) (l : List (Addr × CHash)) : LState :=
  { s with classHash := l.foldl (fun m p => bset m p.1 (some p.2)) s.classHash,
           nonce := l.foldl (fun m p => bset m p.1 (some 0)) s.nonce,
           deployHeight := l.foldl (fun m p => bset m p.1 (some b)) s.deployHeight }

/-- one `replaceContract` / `updateContractNonce`: set the value and (when `log`) write the OLD
value to the history bucket at block `b`; fails silently here — the guard is in `updateContracts` -/
def logSetStep (K : Addr → HKey) (log : Bool) (b : Nat) (x : Bucket Addr Nat × Bucket HKey Hist) (p : Addr × Nat) :
    Bucket Addr Nat × Bucket HKey Hist :=
  match bget x.1 p.1 with
  | some old => (bset x.1 p.1 (some p.2), if log then histPut x.2 (K p.1) b old else x.2)
  | none => x

/-- `replaceContract` for every entry (+ log of the old class hash when `log`) -/
def LState.replaceAll (s : LState) (log : Bool) (b : Nat) (l : List (Addr × CHash)) : LState :=
  let r := l.foldl (logSetStep HKey.classHash log b) (s.classHash, s.logs)
  { s with classHash := r.1, logs := r.2 }

/-- `updateContractNonce` for every entry (+ log of the old nonce when `log`) -/
def LState.nonceAll (s : LState) (log : Bool) (b : Nat) (l : List (Addr × Val)) : LState :=
  let r := l.foldl (logSetStep HKey.nonce log b) (s.nonce, s.logs)
  { s with nonce := r.1, logs := r.2 }

/-- "make sure all system contracts are deployed": `putNewContract(addr, 0, b)` for the system
contracts in the storage diffs that are not deployed -/
def LState.deploySystem (s : LState) (b : Nat) (addrs : List Addr) : LState :=
  s.deploy b ((addrs.filter (fun a => isSystem a && (bget s.classHash a).isNone)).map (fun a => (a, 0)))

/-- `UpdateStorage` of one contract: `trie.Put` returns the old value — `nil` exactly when zero is
written to an absent key — and `onValueChanged` logs it -/
def legacySlots (log : Bool) (b : Nat) (a : Addr) (t : Leaves) (lg : Bucket HKey Hist)
    (slots : List (Slot × Val)) : Leaves × Bucket HKey Hist :=
  slots.foldl (fun (acc : Leaves × Bucket HKey Hist) (e : Slot × Val) =>
    let old := alook acc.1 e.1
    let logged := log && (e.2 != 0 || old.isSome)
    (tput acc.1 e.1 e.2, if logged then histPut acc.2 (.storage a e.1) b (old.getD 0) else acc.2))
    (t, lg)

def storageStep (log : Bool) (b : Nat) (x : Bucket Addr Leaves × Bucket HKey Hist) (p : Addr × List (Slot × Val)) :
    Bucket Addr Leaves × Bucket HKey Hist :=
  let r := legacySlots log b p.1 (lget x.1 p.1) x.2 p.2
  (lset x.1 p.1 r.1, r.2)

def LState.storageAll (s : LState) (log : Bool) (b : Nat) (l : List (Addr × List (Slot × Val))) : LState :=
  let r := l.foldl (storageStep log b) (s.trie, s.logs)
  { s with trie := r.1, logs := r.2 }

/-- `updateContracts` with its guards -/
def LState.updateContracts (s : LState) (log : Bool) (b : Nat)
    (replaced : List (Addr × CHash)) (nonces : List (Addr × Val)) (storage : List (Addr × List (Slot × Val))) :
    Except Err LState :=
  if replaced.any (fun p => (bget s.classHash p.1).isNone) then .error .notDeployed else
  let s1 := s.replaceAll log b replaced
  if nonces.any (fun p => (bget s1.classHash p.1).isNone) then .error .notDeployed else
  let s2 := s1.nonceAll log b nonces
  let s3 := s2.deploySystem b (storage.map (·.1))
  if storage.any (fun p => (bget s3.classHash p.1).isNone) then .error .notDeployed else
  .ok (s3.storageAll log b storage)

/-- `State.Update` -/
def LState.update (s : LState) (b : Nat) (d : Diff) : Except Err LState :=
  let s1 := { s with classes := declareFold s.classes b d.newClasses }
  if d.deployed.any (fun p => (bget s1.classHash p.1).isSome) then .error .alreadyDeployed else
  let s2 := s1.deploy b d.deployed
  s2.updateContracts true b d.replaced d.nonces d.storage

/-- head `ContractStorage` -/
def LState.storageHead (s : LState) (a : Addr) (k : Slot) : Val := tget (lget s.trie a) k

/-- legacy `GetReverseStateDiff`: storage falls back to the head value on `ErrCheckHeadState`
(repair 05cf200), nonce and class hash do not -/
def LState.reverseStorage (s : LState) (b : Nat) (d : Diff) : List (Addr × List (Slot × Val)) :=
  d.storage.map (fun p => (p.1, p.2.map (fun e =>
    (e.1, if b = 0 then 0 else
      -- `ErrCheckHeadState` → the head value
      (legacyValueAt (lget s.logs (.storage p.1 e.1)) (b - 1)).getD (s.storageHead p.1 e.1)))))

/-- `purgeContract` -/
def LState.purge (s : LState) (a : Addr) : LState :=
  { s with deployHeight := bset s.deployHeight a none, nonce := bset s.nonce a none,
           classHash := bset s.classHash a none }

/-- `purgeContract` for each contract the reverted block deployed -/
def LState.purgeAll (s : LState) (l : List (Addr × CHash)) : LState :=
  { s with deployHeight := l.foldl (fun m p => bset m p.1 none) s.deployHeight,
           nonce := l.foldl (fun m p => bset m p.1 none) s.nonce,
           classHash := l.foldl (fun m p => bset m p.1 none) s.classHash }

def logsDelAll (h : Bucket HKey Hist) (b : Nat) (d : Diff) : Bucket HKey Hist :=
  let h := d.storage.foldl (fun h p => p.2.foldl (fun h e => histDel h (.storage p.1 e.1) b) h) h
  let h := d.nonces.foldl (fun h p => histDel h (.nonce p.1) b) h
  d.replaced.foldl (fun h p => histDel h (.classHash p.1) b) h

/-- `purgesystemContracts` -/
def LState.purgeSystem (s : LState) : LState :=
  [1, 2].foldl (fun s a => if (bget s.classHash a).isSome && (lget s.trie a).isEmpty then s.purge a else s) s

/-- the class hashes `removeDeclaredClasses` looks at, with 7460746: every hash once (`seen`) -/
def dedupFirst : List CHash → List CHash → List CHash
  | _, [] => []
  | seen, c :: r => if c ∈ seen then dedupFirst seen r else c :: dedupFirst (c :: seen) r

/-- `State.Revert` of block `b` whose diff was `d`. `dupFix` = 7460746: a class hash listed twice
in the declared sections is looked at once. -/
def LState.revert (dupFix : Bool) (s : LState) (b : Nat) (d : Diff) : Except Err LState :=
  -- `removeDeclaredClasses` reads and deletes class by class on the same transaction (the declared
  -- lists are a slice + map keys: before 7460746 a class listed twice is missing the second
  -- time); `removeDeployedContractClasses` then tolerates missing classes
  match (if dupFix then dedupFirst [] d.classHashes else d.classHashes).foldlM (undeclareStepM b) s.classes with
  | .error e => .error e
  | .ok cl =>
  let s1 := { s with classes := undeclareFold cl b (d.deployed.map Prod.snd) }
  let rs := s1.reverseStorage b d
  if b != 0 && d.nonces.any (fun p => (legacyValueAt (lget s1.logs (.nonce p.1)) (b - 1)).isNone) then .error .checkHeadState else
  let rn := d.nonces.map (fun p => (p.1, if b = 0 then 0 else (legacyValueAt (lget s1.logs (.nonce p.1)) (b - 1)).getD 0))
  if b != 0 && d.replaced.any (fun p => (legacyValueAt (lget s1.logs (.classHash p.1)) (b - 1)).isNone) then .error .checkHeadState else
  let rr := d.replaced.map (fun p => (p.1, if b = 0 then 0 else (legacyValueAt (lget s1.logs (.classHash p.1)) (b - 1)).getD 0))
  let s2 := { s1 with logs := logsDelAll s1.logs b d }
  match s2.updateContracts false b rr rn rs with
  | .error e => .error e
  | .ok s3 =>
    if d.deployed.any (fun p => (bget s3.classHash p.1).isNone) then .error .notDeployed else
    .ok (s3.purgeAll d.deployed).purgeSystem

def LState.headRead (s : LState) : Query → Res
  | .classHash a => match bget s.classHash a with | some c => .ok c | none => .notfound
  | .nonce a => match bget s.nonce a with | some v => .ok v | none => .notfound
  | .storage a k => .ok (s.storageHead a k)
  | .cls c => match bget s.classes c with | some n => .ok n | none => .notfound

/-- `ContractDeployedAt` -/
def LState.deployedAt (s : LState) (a : Addr) (n : Nat) : Bool :=
  match bget s.deployHeight a with
  | some h => decide (h ≤ n)
  | none => false

/-- core/deprecatedstate/history.go at block `n` -/
def LState.histRead (s : LState) (n : Nat) : Query → Res
  | .classHash a =>
    if s.deployedAt a n then
      match legacyValueAt (lget s.logs (.classHash a)) n with
      | some v => .ok v
      | none => s.headRead (.classHash a)
    else .notfound
  | .nonce a =>
    if s.deployedAt a n then
      match legacyValueAt (lget s.logs (.nonce a)) n with
      | some v => .ok v
      | none => s.headRead (.nonce a)
    else .notfound
  | .storage a k =>
    -- `ErrCheckHeadState` → the head value
    let v := (legacyValueAt (lget s.logs (.storage a k)) n).getD (s.storageHead a k)
    -- "a non-zero value proves a write at or before n": skip the deployment probe
    if v != 0 then .ok v
    else if s.deployedAt a n then .ok v else .notfound
  | .cls c =>
    match bget s.classes c with
    | some at_ => if n < at_ then .notfound else .ok at_
    | none => .notfound

/-- A legacy historical storage read TORN by a commit: the reader holds no snapshot, so the scan of
the history logs sees the database as `s₁` and the head read that follows sees it as `s₂` (a block
was committed in between, e.g. by sync while an RPC request is served). `rescan` = the repair of
proposed-fixes/C03-legacy-history-read-rescan-after-head.diff: scan the logs once more after the
head read. (The deployment probe that follows is not affected: heights never change.) -/
def LState.tornStorageValue (rescan : Bool) (s₁ s₂ : LState) (n : Nat) (a : Addr) (k : Slot) : Val :=
  (legacyValueAt (lget s₁.logs (.storage a k)) n).getD
    (if rescan then (legacyValueAt (lget s₂.logs (.storage a k)) n).getD (s₂.storageHead a k)
     else s₂.storageHead a k)

/-! ## CASM hash metadata (blockchain/statebackend/casm_metadata.go, core/class.go) -/

structure CasmMeta where
  declaredAt : Nat
  v2 : Val
  /-- 0 = not migrated -/
  migratedAt : Nat
  v1 : Option Val
  deriving DecidableEq, Repr

abbrev MetaMap := Bucket CHash CasmMeta

/-- `storeCasmHashMetadata` -/
def metaStore (m : MetaMap) (b : Nat) (d : Diff) : Except Err MetaMap :=
  if d.v2 then
    let m1 := d.declared1.foldl (fun m x => bset m x.hash (some ⟨b, x.casm, 0, none⟩)) m
    d.migrated.foldlM (fun m p =>
      match bget m p.1 with
      | none => .error .metaMissing
      | some mt =>
        if mt.v1.isNone || b ≤ mt.declaredAt || mt.migratedAt > 0 then .error .cannotMigrate
        else .ok (bset m p.1 (some { mt with migratedAt := b }))) m1
  else
    .ok (d.declared1.foldl (fun m x => bset m x.hash (some ⟨b, x.casmV2, 0, some x.casm⟩)) m)

/-- `storeCasmHashMetadata` with proposed-fixes/C03-casm-migration-stores-the-hash-of-the-diff.diff:
a migration also replaces the precomputed blake2s hash by the hash the diff carries -/
def metaStoreFixed (m : MetaMap) (b : Nat) (d : Diff) : Except Err MetaMap :=
  if d.v2 then
    let m1 := d.declared1.foldl (fun m x => bset m x.hash (some ⟨b, x.casm, 0, none⟩)) m
    d.migrated.foldlM (fun m p =>
      match bget m p.1 with
      | none => .error .metaMissing
      | some mt =>
        if mt.v1.isNone || b ≤ mt.declaredAt || mt.migratedAt > 0 then .error .cannotMigrate
        else .ok (bset m p.1 (some { mt with migratedAt := b, v2 := p.2 }))) m1
  else
    .ok (d.declared1.foldl (fun m x => bset m x.hash (some ⟨b, x.casmV2, 0, some x.casm⟩)) m)

def metaStoreOf (fix : Bool) (m : MetaMap) (b : Nat) (d : Diff) : Except Err MetaMap :=
  if fix then metaStoreFixed m b d else metaStore m b d

/-- the metadata reads made inside `State.Revert` (both backends) before anything is written -/
def metaRevertCheck (m : MetaMap) (d : Diff) : Bool :=
  d.migrated.all (fun p => match bget m p.1 with | some mt => mt.migratedAt > 0 | none => false)

/-- `revertCasmHashMetadata` -/
def metaRevert (m : MetaMap) (d : Diff) : Except Err MetaMap :=
  let m1 := d.declared1.foldl (fun m x => bset m x.hash none) m
  d.migrated.foldlM (fun m p =>
    match bget m p.1 with
    | none => .error .metaMissing
    | some mt =>
      if mt.migratedAt > 0 then .ok (bset m p.1 (some { mt with migratedAt := 0 })) else .error .cannotUnmigrate) m1

/-- `CasmHash()` -/
def CasmMeta.head (mt : CasmMeta) : Val :=
  match mt.v1 with
  | none => mt.v2
  | some v1 => if mt.migratedAt > 0 then mt.v2 else v1

/-- `CasmHashAt(n)` -/
def CasmMeta.at (mt : CasmMeta) (n : Nat) : Res :=
  if mt.declaredAt > n then .notfound
  else match mt.v1 with
    | none => .ok mt.v2
    | some v1 => if mt.migratedAt > 0 && mt.migratedAt ≤ n then .ok mt.v2 else .ok v1

/-! ## A node: state backend + stored blocks -/

structure Backend (σ : Type) where
  init : σ
  update : σ → Nat → Diff → Except Err σ
  revert : σ → Nat → Diff → Except Err σ
  headRead : σ → Query → Res
  histRead : σ → Nat → Query → Res
  /-- `StateAtBlockHash` reads the header of the number the hash resolves to (new backend: it needs
  the state root; the legacy backend opens the history reader on the number alone) -/
  hashViewNeedsHeader : Bool
  /-- block store variant (not the state's): a CASM migration stores the hash of the diff
  (`Cfg.migValFix`, proposed only) -/
  migFix : Bool

def newBackend (cfg : Cfg) : Backend NState :=
  ⟨NState.empty, NState.update cfg, NState.revert cfg, NState.headRead, NState.histRead cfg, true, cfg.migValFix⟩

/-- the legacy backend under a block store with / without the proposed migration change -/
def legacyBackendOf (migFix : Bool) (dupFix : Bool := true) : Backend LState :=
  ⟨LState.empty, LState.update, LState.revert dupFix, LState.headRead, LState.histRead, false, migFix⟩

/-- the legacy backend of the tree (7460746 applied, the migration change only proposed) -/
def legacyBackend : Backend LState := legacyBackendOf false true

structure Node (σ : Type) where
  st : σ
  /-- stored blocks, newest first: block hash and the state update read back by `RevertHead` -/
  blocks : List (BlockId × Diff)
  casmMeta : MetaMap
  /-- bucket `BlockHeaderNumbersByHash`: written by `writeBlockContent`, the entry of the head's
  hash deleted by `deleteBlockContent` -/
  hashIdx : Bucket BlockId Nat

def Node.init {σ : Type} (be : Backend σ) : Node σ := ⟨be.init, [], [], []⟩

def Node.chain {σ : Type} (n : Node σ) : List Diff := n.blocks.map (·.2)

/-- `Store` of the next block (block verification is not modelled: C02) -/
def Node.store {σ : Type} (be : Backend σ) (n : Node σ) (id : BlockId) (d : Diff) : Except Err (Node σ) :=
  match be.update n.st n.blocks.length d with
  | .error e => .error e
  | .ok st =>
    match metaStoreOf be.migFix n.casmMeta n.blocks.length d with
    | .error e => .error e
    | .ok m => .ok ⟨st, (id, d) :: n.blocks, m, bset n.hashIdx id (some n.blocks.length)⟩

/-- `RevertHead` -/
def Node.revert {σ : Type} (be : Backend σ) (n : Node σ) : Except Err (Node σ) :=
  match n.blocks with
  | [] => .error .emptyChain
  | (id, d) :: rest =>
    if !metaRevertCheck n.casmMeta d then .error .cannotUnmigrate else
    match be.revert n.st rest.length d with
    | .error e => .error e
    | .ok st =>
      match metaRevert n.casmMeta d with
      | .error e => .error e
      | .ok m => .ok ⟨st, rest, m, bset n.hashIdx id none⟩

inductive View
  | head
  | num (n : Nat)
  | hash (h : BlockId)
  deriving DecidableEq, Repr

/-- block number of a block hash according to the list of stored blocks (the specification of the
hash index; the node itself looks into `hashIdx`) -/
def numberOf : List (BlockId × Diff) → BlockId → Option Nat
  | [], _ => none
  | (id, _) :: rest, h => if id = h then some rest.length else numberOf rest h

/-- hash of block `k` (header by number) -/
def Node.idAt {σ : Type} (n : Node σ) (k : Nat) : Option BlockId :=
  (n.blocks[n.blocks.length - 1 - k]?).map (·.1)

/-- `HeadState` / `StateAtBlockNumber` / `StateAtBlockHash`: `none` = no such view;
`some none` = head reader, `some (some k)` = history reader at block `k`.
By number (no retention floor seeded, pruner/retention.go): the header of `k` must exist and its
hash must be in the hash index. By hash: the index gives the number; the new backend then needs the
header of that number, the legacy backend does not look. -/
def Node.resolve {σ : Type} (be : Backend σ) (n : Node σ) : View → Option (Option Nat)
  | .head => if n.blocks.isEmpty then none else some none
  | .num k =>
    if k < n.blocks.length then
      match n.idAt k with
      | some id => if (bget n.hashIdx id).isSome then some (some k) else none
      | none => none
    else none
  | .hash h =>
    match bget n.hashIdx h with
    | some k => if be.hashViewNeedsHeader && !decide (k < n.blocks.length) then none else some (some k)
    | none => none

def Node.read {σ : Type} (be : Backend σ) (n : Node σ) (v : View) (q : Query) : Option Res :=
  match n.resolve be v with
  | none => none
  | some none => some (be.headRead n.st q)
  | some (some k) => some (be.histRead n.st k q)

/-- `CompiledClassHash` on the same views -/
def Node.readCasm {σ : Type} (be : Backend σ) (n : Node σ) (v : View) (c : CHash) : Option Res :=
  match n.resolve be v with
  | none => none
  | some none => some (match bget n.casmMeta c with | some mt => .ok mt.head | none => .notfound)
  | some (some k) => some (match bget n.casmMeta c with | some mt => mt.at k | none => .notfound)

/-! ## Histories -/

inductive Op
  | store (id : BlockId) (d : Diff)
  | revert
  deriving Repr

def Node.step {σ : Type} (be : Backend σ) (n : Node σ) : Op → Except Err (Node σ)
  | .store id d => n.store be id d
  | .revert => n.revert be

/-- run a history; `none` when an operation fails (the real node rejects it) -/
def run {σ : Type} (be : Backend σ) : Node σ → List Op → Option (Node σ)
  | n, [] => some n
  | n, op :: rest =>
    match n.step be op with
    | .ok n' => run be n' rest
    | .error _ => none

end Juno.C03
