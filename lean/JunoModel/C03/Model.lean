/-
C03 — model of juno's state history: how the two state backends record changes at `Update`,
forget them at `Revert`, and answer head and historical reads.
Core Lean only: this file is linked into the driver executable `c03drv`.

Transcribed code (pinned commit, see notes/C03.md):
* new backend   core/state/state.go (Update, Revert, commit's system-contract purge, writeHistory,
                deleteHistory), state_reader.go (valueAt, getHistoricalValue, GetReverseStateDiff, head
                reads), history.go (stateHistory: checkDeployed, Class), accessors.go
* legacy        core/deprecatedstate/state.go (Update, updateContracts, Revert, GetReverseStateDiff,
                performStateDeletions, purgeContract, purgesystemContracts, valueAt),
                contract.go (UpdateStorage + trie.Put's "old value" contract), history.go
* both          blockchain/statebackend (Store / RevertHead / HeadState / StateAtBlockNumber /
                StateAtBlockHash, casm_metadata.go), core/class.go (ClassCasmHashMetadata)

What is abstracted:
* a key/value bucket is a function from its key to an optional value; a history bucket is, per
  key prefix, the list of its (block, value) entries in ascending block order (`Hist`) — the
  order a prefix iterator of the ordered store yields them (keys are prefix ++ big-endian uint64);
  `Seek` is `dropWhile (· < n)`, `Prev` from the seek position is the last element of the
  `takeWhile (· < n)` part;
* a storage trie is the finite map of its non-zero leaves (`Leaves`); roots and commitments are
  not modelled (C01/C02), except "storage root is zero" = "no leaves";
* class definitions are abstracted to their hash; a declared class is its declaration height.
Chains are lists with the NEWEST block first (block number of the head = length - 1).
-/
namespace Juno.C03

abbrev Addr := Nat
abbrev Slot := Nat
abbrev Val := Nat
abbrev CHash := Nat
abbrev BlockId := Nat

/-- `state.IsSystemContract`: 0x1 and 0x2. -/
def isSystem (a : Addr) : Bool := a == 1 || a == 2

/-- A Go map written as association list: lookup = first match (keys are unique in a map). -/
def alook {β : Type} : List (Nat × β) → Nat → Option β
  | [], _ => none
  | (k', v) :: r, k => if k' = k then some v else alook r k

/-- point update of a bucket -/
def upd {κ β : Type} [DecidableEq κ] (m : κ → β) (k : κ) (v : β) : κ → β :=
  fun x => if x = k then v else m x

/-! ## State diffs -/

/-- entry of `StateDiff.DeclaredV1Classes`: Sierra class hash ↦ compiled class hash, plus the
blake2s hash of the definition that juno precomputes when the protocol is < 0.14.1 -/
structure SierraDecl where
  hash : CHash
  casm : Val
  casmV2 : Val
  deriving DecidableEq, Repr

/-- `core.StateDiff` + what else `Update` is given for a block. -/
structure Diff where
  /-- `StorageDiffs : map addr (map slot value)` -/
  storage : List (Addr × List (Slot × Val))
  nonces : List (Addr × Val)
  deployed : List (Addr × CHash)
  replaced : List (Addr × CHash)
  /-- `DeclaredV0Classes` (definitions in `newClasses`) -/
  declared0 : List CHash
  declared1 : List SierraDecl
  migrated : List (CHash × Val)
  /-- header.ProtocolVersion ≥ 0.14.1 -/
  v2 : Bool
  deriving Repr

def Diff.empty : Diff := ⟨[], [], [], [], [], [], [], false⟩

/-- keys of `newClasses` -/
def Diff.classHashes (d : Diff) : List CHash := d.declared0 ++ d.declared1.map (·.hash)

def Diff.storageAt (d : Diff) (a : Addr) (k : Slot) : Option Val :=
  match alook d.storage a with
  | some slots => alook slots k
  | none => none

/-- every address that gets a state object during `Update` -/
def Diff.touched (d : Diff) : List Addr :=
  d.deployed.map (·.1) ++ d.replaced.map (·.1) ++ d.nonces.map (·.1) ++ d.storage.map (·.1)

/-! ## The definition in the property: the abstract state is the fold of the diffs -/

structure AbsSt where
  stor : Addr → Slot → Val
  nonce : Addr → Val
  cls : Addr → CHash
  /-- block of the `DeployedContracts` entry -/
  dep : Addr → Option Nat
  /-- block of the declaration -/
  decl : CHash → Option Nat
  /-- compiled class hash in force -/
  casm : CHash → Option Val

def AbsSt.empty : AbsSt := ⟨fun _ _ => 0, fun _ => 0, fun _ => 0, fun _ => none, fun _ => none, fun _ => none⟩

/-- apply the diff of block `b` -/
def AbsSt.apply (s : AbsSt) (b : Nat) (d : Diff) : AbsSt where
  stor a k := (d.storageAt a k).getD (s.stor a k)
  nonce a := (alook d.nonces a).getD (s.nonce a)
  cls a :=
    match alook d.replaced a with
    | some c => c
    | none => (alook d.deployed a).getD (s.cls a)
  dep a :=
    match alook d.deployed a with
    | some _ => some b
    | none => s.dep a
  decl c :=
    match s.decl c with
    | some n => some n
    | none => if c ∈ d.classHashes then some b else none
  casm c :=
    match alook d.migrated c with
    | some v => some v
    | none =>
      match d.declared1.find? (fun x => x.hash == c) with
      | some x => some x.casm
      | none => s.casm c

/-- abstract state after a chain (newest block first) -/
def absOf : List Diff → AbsSt
  | [] => AbsSt.empty
  | d :: rest => (absOf rest).apply rest.length d

/-- abstract state after block `n` of the chain (`n < length`) -/
def absAt (ch : List Diff) (n : Nat) : AbsSt := absOf (ch.drop (ch.length - 1 - n))

/-- answer of a read -/
inductive Res
  | ok (v : Val)
  | notfound
  deriving DecidableEq, Repr

/-- what is read -/
inductive Query
  | classHash (a : Addr)
  | nonce (a : Addr)
  | storage (a : Addr) (k : Slot)
  /-- `Class(hash)`: the answer is the declaration height -/
  | cls (c : CHash)
  deriving DecidableEq, Repr

/-- The property's answer for contracts that enter the state through `DeployedContracts` and for
classes: the value, or not-found when the contract / class does not exist yet. -/
def AbsSt.read (s : AbsSt) : Query → Res
  | .classHash a => if (s.dep a).isSome then .ok (s.cls a) else .notfound
  | .nonce a => if (s.dep a).isSome then .ok (s.nonce a) else .notfound
  | .storage a k => if (s.dep a).isSome then .ok (s.stor a k) else .notfound
  | .cls c => match s.decl c with | some n => .ok n | none => .notfound

/-! ## Storage tries as finite maps of non-zero leaves -/

abbrev Leaves := List (Slot × Val)

def tget (t : Leaves) (k : Slot) : Val := (alook t k).getD 0
def tdel (t : Leaves) (k : Slot) : Leaves := t.filter (fun p => p.1 != k)
/-- `trie.Update(k, v)`: a zero value deletes -/
def tput (t : Leaves) (k : Slot) (v : Val) : Leaves := if v = 0 then tdel t k else (k, v) :: tdel t k

/-! ## History buckets -/

/-- entries of one key prefix in iteration order (ascending block number) -/
abbrev Hist := List (Nat × Val)

/-- `Put(prefix ++ be64 b, v)` seen through the prefix: insert in order, replace an equal key -/
def hput : Hist → Nat → Val → Hist
  | [], b, v => [(b, v)]
  | (b', v') :: r, b, v =>
    if b < b' then (b, v) :: (b', v') :: r
    else if b = b' then (b, v) :: r
    else (b', v') :: hput r b v

/-- `Delete(prefix ++ be64 b)` -/
def hdel (h : Hist) (b : Nat) : Hist := h.filter (fun e => e.1 != b)

/-- the three history buckets (new: ContractStorageHistory / ContractNonceHistory /
ContractClassHashHistory; legacy: the Deprecated* ones) -/
inductive HKey
  | storage (a : Addr) (k : Slot)
  | nonce (a : Addr)
  | classHash (a : Addr)
  deriving DecidableEq, Repr

/-- `Prev()` from the seek position: the entry before it -/
def prevOf (before : Hist) : Option Val := before.getLast?.map (·.2)

/-- core/state/state_reader.go `valueAt`: `Seek(prefix ++ be64 n)`; if the seek fails or lands on
another block, `Prev()`; no entry → `ErrNoHistoryValue` (`none`). -/
def newValueAt (h : Hist) (n : Nat) : Option Val :=
  let before := h.takeWhile (fun e => e.1 < n)
  match h.dropWhile (fun e => e.1 < n) with
  | (b, v) :: _ => if b = n then some v else prevOf before
  | [] => prevOf before

/-- `getHistoricalValue`: `ErrNoHistoryValue` reads as zero -/
def newHistorical (h : Hist) (n : Nat) : Val := (newValueAt h n).getD 0

/-- the `for it.Seek(..); it.Valid(); it.Next()` loop of core/deprecatedstate/state.go `valueAt`,
started at the seek position -/
def legacyScan : Hist → Nat → Option Val
  | [], _ => none
  | (b, v) :: r, n => if b < n then none else if b = n then legacyScan r n else some v

/-- legacy `valueAt`: the first log strictly above `n` holds the value at `n`;
`none` = `ErrCheckHeadState` -/
def legacyValueAt (h : Hist) (n : Nat) : Option Val :=
  legacyScan (h.dropWhile (fun e => e.1 < n)) n

/-! ## Which variant of the code is modelled -/

/-- `false` = the code as found at the pinned commit, `true` = with the proposed repair. -/
structure Cfg where
  /-- core/trie2 `Trie.delete`, case ValueNode, records the full path of the deleted leaf
  (as found: the remaining, empty, path — the leaf node stays on disk when it is deleted while its
  sibling leaf `k xor 1` exists). -/
  leafFix : Bool
  deriving DecidableEq, Repr

def Cfg.asFound : Cfg := ⟨false⟩
def Cfg.repaired : Cfg := ⟨true⟩

inductive Err
  | alreadyDeployed | notFound | notDeployed | classMissing | checkHeadState
  | metaMissing | cannotMigrate | cannotUnmigrate | emptyChain
  deriving DecidableEq, Repr

/-! ## New backend (core/state) -/

/-- `stateContract` without the storage root -/
structure Contract where
  nonce : Val
  classHash : CHash
  deployedHeight : Nat
  deriving DecidableEq, Repr

structure NState where
  /-- bucket `Contract` -/
  contracts : Addr → Option Contract
  /-- logical content of each contract's storage trie -/
  trie : Addr → Leaves
  /-- leaf nodes of bucket `ContractTrieStorage` on disk: what the head reader fetches by path -/
  leaves : Addr → Leaves
  /-- bucket `Class`: `DeclaredClassDefinition.At` -/
  classes : CHash → Option Nat
  hist : HKey → Hist

def NState.empty : NState := ⟨fun _ => none, fun _ => [], fun _ => [], fun _ => none, fun _ => []⟩

/-- the other leaf under the same last-level binary node -/
def sib (k : Slot) : Slot := if k % 2 = 0 then k + 1 else k - 1

/-- `stateObject.commit`: keys in DESCENDING order, `tr.Update(key, val)` each; second component:
the leaf nodes on disk after the node set is flushed. -/
def applySlots (cfg : Cfg) (t lv : Leaves) (slots : List (Slot × Val)) : Leaves × Leaves :=
  (slots.mergeSort (fun x y => decide (y.1 ≤ x.1))).foldl
    (fun (acc : Leaves × Leaves) (e : Slot × Val) =>
      let present := (alook acc.1 e.1).isSome
      let lv' :=
        if e.2 = 0 then
          if present then
            if !cfg.leafFix && (alook acc.1 (sib e.1)).isSome then acc.2 else tdel acc.2 e.1
          else acc.2
        else tput acc.2 e.1 e.2
      (tput acc.1 e.1 e.2, lv'))
    (t, lv)

/-- classes of `newClasses` not yet on disk get `At = b` -/
def declareFold (classes : CHash → Option Nat) (b : Nat) (cs : List CHash) : CHash → Option Nat :=
  cs.foldl (fun m c => match m c with | some _ => m | none => upd m c (some b)) classes

def NState.deploy (s : NState) (b : Nat) (l : List (Addr × CHash)) : NState :=
  l.foldl (fun s p => { s with contracts := upd s.contracts p.1 (some ⟨0, p.2, b⟩) }) s

def NState.setClass (s : NState) (l : List (Addr × CHash)) : NState :=
  l.foldl (fun s p =>
    match s.contracts p.1 with
    | some c => { s with contracts := upd s.contracts p.1 (some { c with classHash := p.2 }) }
    | none => s) s

def NState.setNonce (s : NState) (l : List (Addr × Val)) : NState :=
  l.foldl (fun s p =>
    match s.contracts p.1 with
    | some c => { s with contracts := upd s.contracts p.1 (some { c with nonce := p.2 }) }
    | none => s) s

/-- `updateContractStorage` + the storage part of `commit`: a system contract without record gets
one (class hash 0, deployed at `b`) -/
def NState.writeStorage (cfg : Cfg) (s : NState) (b : Nat) (l : List (Addr × List (Slot × Val))) : NState :=
  l.foldl (fun s p =>
    let contracts :=
      match s.contracts p.1 with
      | some _ => s.contracts
      | none => if isSystem p.1 then upd s.contracts p.1 (some ⟨0, 0, b⟩) else s.contracts
    let r := applySlots cfg (s.trie p.1) (s.leaves p.1) p.2
    { s with contracts := contracts, trie := upd s.trie p.1 r.1, leaves := upd s.leaves p.1 r.2 }) s

/-- `commit`: a system contract among the state objects whose storage root is zero is set to the
zero leaf and marked for deletion; `flush` deletes its record and its storage nodes. This runs in
`Update` as well as in `Revert`. -/
def NState.purgeSystem (s : NState) (touched : List Addr) : NState :=
  touched.foldl (fun s a =>
    if isSystem a && (s.contracts a).isSome && (s.trie a).isEmpty then
      { s with contracts := upd s.contracts a none, leaves := upd s.leaves a [] }
    else s) s

def histPutAll (h : HKey → Hist) (b : Nat) (d : Diff) : HKey → Hist :=
  let h := d.storage.foldl (fun h p =>
    p.2.foldl (fun h e => upd h (.storage p.1 e.1) (hput (h (.storage p.1 e.1)) b e.2)) h) h
  let h := d.nonces.foldl (fun h p => upd h (.nonce p.1) (hput (h (.nonce p.1)) b p.2)) h
  let h := d.replaced.foldl (fun h p => upd h (.classHash p.1) (hput (h (.classHash p.1)) b p.2)) h
  d.deployed.foldl (fun h p => upd h (.classHash p.1) (hput (h (.classHash p.1)) b p.2)) h

/-- `writeHistory`: the value AFTER the change, at the block of the change -/
def NState.writeHistory (s : NState) (b : Nat) (d : Diff) : NState := { s with hist := histPutAll s.hist b d }

/-- `State.Update` (root checks left out). Guards are evaluated where the code evaluates them:
`HasContract` on the disk state before the block, `getStateObject` on the state objects so far. -/
def NState.update (cfg : Cfg) (s : NState) (b : Nat) (d : Diff) : Except Err NState :=
  let s1 := { s with classes := declareFold s.classes b d.classHashes }
  if d.deployed.any (fun p => (s.contracts p.1).isSome) then .error .alreadyDeployed else
  let s2 := s1.deploy b d.deployed
  if d.replaced.any (fun p => (s2.contracts p.1).isNone) then .error .notFound else
  let s3 := s2.setClass d.replaced
  if d.nonces.any (fun p => (s3.contracts p.1).isNone) then .error .notFound else
  let s4 := s3.setNonce d.nonces
  if d.storage.any (fun p => (s4.contracts p.1).isNone && !isSystem p.1) then .error .notFound else
  let s5 := s4.writeStorage cfg b d.storage
  let s6 := s5.purgeSystem d.touched
  .ok (s6.writeHistory b d)

/-- `GetReverseStateDiff`: the values at block `b - 1` read from the history buckets (no
deployment check on this path) -/
def NState.reverseStorage (s : NState) (b : Nat) (d : Diff) : List (Addr × List (Slot × Val)) :=
  d.storage.map (fun p => (p.1, p.2.map (fun e =>
    (e.1, if b = 0 then 0 else newHistorical (s.hist (.storage p.1 e.1)) (b - 1)))))

def NState.reverseNonces (s : NState) (b : Nat) (d : Diff) : List (Addr × Val) :=
  d.nonces.map (fun p => (p.1, if b = 0 then 0 else newHistorical (s.hist (.nonce p.1)) (b - 1)))

def NState.reverseReplaced (s : NState) (b : Nat) (d : Diff) : List (Addr × CHash) :=
  d.replaced.map (fun p => (p.1, if b = 0 then 0 else newHistorical (s.hist (.classHash p.1)) (b - 1)))

/-- classes declared by the reverted block (and at that block) are deleted -/
def undeclareFold (classes : CHash → Option Nat) (b : Nat) (cs : List CHash) : CHash → Option Nat :=
  cs.foldl (fun m c => if m c = some b then upd m c none else m) classes

/-- `stateObjects[addr] = nil` for the block's deployed contracts; `flush`: `DeleteContract` +
`DeleteStorageNodesByPath` -/
def NState.deleteContracts (s : NState) (l : List (Addr × CHash)) : NState :=
  l.foldl (fun s p => { s with contracts := upd s.contracts p.1 none, trie := upd s.trie p.1 [],
                               leaves := upd s.leaves p.1 [] }) s

def histDelAll (h : HKey → Hist) (b : Nat) (d : Diff) : HKey → Hist :=
  let h := d.storage.foldl (fun h p =>
    p.2.foldl (fun h e => upd h (.storage p.1 e.1) (hdel (h (.storage p.1 e.1)) b)) h) h
  let h := d.nonces.foldl (fun h p => upd h (.nonce p.1) (hdel (h (.nonce p.1)) b)) h
  let h := d.replaced.foldl (fun h p => upd h (.classHash p.1) (hdel (h (.classHash p.1)) b)) h
  d.deployed.foldl (fun h p =>
    let h := upd h (.nonce p.1) (hdel (h (.nonce p.1)) b)
    upd h (.classHash p.1) (hdel (h (.classHash p.1)) b)) h

def NState.deleteHistory (s : NState) (b : Nat) (d : Diff) : NState := { s with hist := histDelAll s.hist b d }

/-- `State.Revert` of block `b` whose diff was `d` -/
def NState.revert (cfg : Cfg) (s : NState) (b : Nat) (d : Diff) : Except Err NState :=
  let rs := s.reverseStorage b d
  let rn := s.reverseNonces b d
  let rr := s.reverseReplaced b d
  if d.classHashes.any (fun c => (s.classes c).isNone) then .error .classMissing else
  let s1 := { s with classes := undeclareFold s.classes b d.classHashes }
  if rr.any (fun p => (s1.contracts p.1).isNone) then .error .notFound else
  let s2 := s1.setClass rr
  if rn.any (fun p => (s2.contracts p.1).isNone) then .error .notFound else
  let s3 := s2.setNonce rn
  if rs.any (fun p => (s3.contracts p.1).isNone && !isSystem p.1) then .error .notFound else
  let s4 := s3.writeStorage cfg b rs
  let s5 := s4.deleteContracts d.deployed
  let s6 := s5.purgeSystem d.touched
  .ok (s6.deleteHistory b d)

/-- `StateReader` at the head -/
def NState.headRead (s : NState) : Query → Res
  | .classHash a => match s.contracts a with | some c => .ok c.classHash | none => .notfound
  | .nonce a => match s.contracts a with | some c => .ok c.nonce | none => .notfound
  | .storage a k => .ok (tget (s.leaves a) k)
  | .cls c => match s.classes c with | some n => .ok n | none => .notfound

/-- `ContractDeployedAt` -/
def NState.deployedAt (s : NState) (a : Addr) (n : Nat) : Bool :=
  match s.contracts a with
  | some c => decide (c.deployedHeight ≤ n)
  | none => false

/-- `stateHistory` at block `n` -/
def NState.histRead (s : NState) (n : Nat) : Query → Res
  | .classHash a => if s.deployedAt a n then .ok (newHistorical (s.hist (.classHash a)) n) else .notfound
  | .nonce a => if s.deployedAt a n then .ok (newHistorical (s.hist (.nonce a)) n) else .notfound
  | .storage a k => if s.deployedAt a n then .ok (newHistorical (s.hist (.storage a k)) n) else .notfound
  | .cls c =>
    match s.classes c with
    | some at_ => if n < at_ then .notfound else .ok at_
    | none => .notfound

/-! ## Legacy backend (core/deprecatedstate) -/

structure LState where
  /-- bucket `ContractClassHash`; presence = `deployed()` -/
  classHash : Addr → Option CHash
  /-- bucket `ContractNonce` -/
  nonce : Addr → Option Val
  trie : Addr → Leaves
  /-- bucket `ContractDeploymentHeight` -/
  deployHeight : Addr → Option Nat
  classes : CHash → Option Nat
  /-- the Deprecated*History buckets: OLD value, at the block of the change -/
  logs : HKey → Hist

def LState.empty : LState := ⟨fun _ => none, fun _ => none, fun _ => [], fun _ => none, fun _ => none, fun _ => []⟩

/-- `putNewContract` -/
def LState.putNew (s : LState) (b : Nat) (a : Addr) (c : CHash) : LState :=
  { s with classHash := upd s.classHash a (some c), nonce := upd s.nonce a (some 0),
           deployHeight := upd s.deployHeight a (some b) }

def LState.deploy (s : LState) (b : Nat) (l : List (Addr × CHash)) : LState :=
  l.foldl (fun s p => s.putNew b p.1 p.2) s

/-- `replaceContract` (+ log of the old class hash when `log`) -/
def LState.replaceAll (s : LState) (log : Bool) (b : Nat) (l : List (Addr × CHash)) : LState :=
  l.foldl (fun s p =>
    match s.classHash p.1 with
    | some old =>
      { s with classHash := upd s.classHash p.1 (some p.2),
               logs := if log then upd s.logs (.classHash p.1) (hput (s.logs (.classHash p.1)) b old) else s.logs }
    | none => s) s

/-- `updateContractNonce` (+ log of the old nonce when `log`) -/
def LState.nonceAll (s : LState) (log : Bool) (b : Nat) (l : List (Addr × Val)) : LState :=
  l.foldl (fun s p =>
    match s.nonce p.1 with
    | some old =>
      { s with nonce := upd s.nonce p.1 (some p.2),
               logs := if log then upd s.logs (.nonce p.1) (hput (s.logs (.nonce p.1)) b old) else s.logs }
    | none => s) s

/-- "make sure all system contracts are deployed" -/
def LState.deploySystem (s : LState) (b : Nat) (addrs : List Addr) : LState :=
  addrs.foldl (fun s a => if isSystem a && (s.classHash a).isNone then s.putNew b a 0 else s) s

/-- `UpdateStorage` of one contract: `trie.Put` returns the old value — `nil` exactly when zero is
written to an absent key — and `onValueChanged` logs it -/
def legacySlots (log : Bool) (b : Nat) (a : Addr) (t : Leaves) (lg : HKey → Hist) (slots : List (Slot × Val)) :
    Leaves × (HKey → Hist) :=
  slots.foldl (fun (acc : Leaves × (HKey → Hist)) (e : Slot × Val) =>
    let old := alook acc.1 e.1
    let logged := log && (e.2 != 0 || old.isSome)
    (tput acc.1 e.1 e.2,
     if logged then upd acc.2 (.storage a e.1) (hput (acc.2 (.storage a e.1)) b (old.getD 0)) else acc.2))
    (t, lg)

def LState.storageAll (s : LState) (log : Bool) (b : Nat) (l : List (Addr × List (Slot × Val))) : LState :=
  l.foldl (fun s p =>
    let r := legacySlots log b p.1 (s.trie p.1) s.logs p.2
    { s with trie := upd s.trie p.1 r.1, logs := r.2 }) s

/-- `updateContracts` with its guards -/
def LState.updateContracts (s : LState) (log : Bool) (b : Nat)
    (replaced : List (Addr × CHash)) (nonces : List (Addr × Val)) (storage : List (Addr × List (Slot × Val))) :
    Except Err LState :=
  if replaced.any (fun p => (s.classHash p.1).isNone) then .error .notDeployed else
  let s1 := s.replaceAll log b replaced
  if nonces.any (fun p => (s1.classHash p.1).isNone) then .error .notDeployed else
  let s2 := s1.nonceAll log b nonces
  let s3 := s2.deploySystem b (storage.map (·.1))
  if storage.any (fun p => (s3.classHash p.1).isNone) then .error .notDeployed else
  .ok (s3.storageAll log b storage)

/-- `State.Update` -/
def LState.update (s : LState) (b : Nat) (d : Diff) : Except Err LState :=
  let s1 := { s with classes := declareFold s.classes b d.classHashes }
  if d.deployed.any (fun p => (s1.classHash p.1).isSome) then .error .alreadyDeployed else
  let s2 := s1.deploy b d.deployed
  s2.updateContracts true b d.replaced d.nonces d.storage

/-- head `ContractStorage` -/
def LState.storageHead (s : LState) (a : Addr) (k : Slot) : Val := tget (s.trie a) k

/-- legacy `GetReverseStateDiff`: storage falls back to the head value on `ErrCheckHeadState`
(repair 05cf200), nonce and class hash do not -/
def LState.reverseStorage (s : LState) (b : Nat) (d : Diff) : List (Addr × List (Slot × Val)) :=
  d.storage.map (fun p => (p.1, p.2.map (fun e =>
    (e.1, if b = 0 then 0 else
      match legacyValueAt (s.logs (.storage p.1 e.1)) (b - 1) with
      | some v => v
      | none => s.storageHead p.1 e.1))))

def LState.purge (s : LState) (a : Addr) : LState :=
  { s with deployHeight := upd s.deployHeight a none, nonce := upd s.nonce a none,
           classHash := upd s.classHash a none }

def logsDelAll (h : HKey → Hist) (b : Nat) (d : Diff) : HKey → Hist :=
  let h := d.storage.foldl (fun h p =>
    p.2.foldl (fun h e => upd h (.storage p.1 e.1) (hdel (h (.storage p.1 e.1)) b)) h) h
  let h := d.nonces.foldl (fun h p => upd h (.nonce p.1) (hdel (h (.nonce p.1)) b)) h
  d.replaced.foldl (fun h p => upd h (.classHash p.1) (hdel (h (.classHash p.1)) b)) h

/-- `State.Revert` of block `b` whose diff was `d` -/
def LState.revert (s : LState) (b : Nat) (d : Diff) : Except Err LState :=
  if d.classHashes.any (fun c => (s.classes c).isNone) then .error .classMissing else
  let s1 := { s with classes := undeclareFold s.classes b d.classHashes }
  let rs := s1.reverseStorage b d
  if b != 0 && d.nonces.any (fun p => (legacyValueAt (s1.logs (.nonce p.1)) (b - 1)).isNone) then .error .checkHeadState else
  let rn := d.nonces.map (fun p => (p.1, if b = 0 then 0 else (legacyValueAt (s1.logs (.nonce p.1)) (b - 1)).getD 0))
  if b != 0 && d.replaced.any (fun p => (legacyValueAt (s1.logs (.classHash p.1)) (b - 1)).isNone) then .error .checkHeadState else
  let rr := d.replaced.map (fun p => (p.1, if b = 0 then 0 else (legacyValueAt (s1.logs (.classHash p.1)) (b - 1)).getD 0))
  let s2 := { s1 with logs := logsDelAll s1.logs b d }
  match s2.updateContracts false b rr rn rs with
  | .error e => .error e
  | .ok s3 =>
    if d.deployed.any (fun p => (s3.classHash p.1).isNone) then .error .notDeployed else
    let s4 := d.deployed.foldl (fun s p => s.purge p.1) s3
    -- purgesystemContracts
    .ok ([1, 2].foldl (fun s a => if (s.classHash a).isSome && (s.trie a).isEmpty then s.purge a else s) s4)

def LState.headRead (s : LState) : Query → Res
  | .classHash a => match s.classHash a with | some c => .ok c | none => .notfound
  | .nonce a => match s.nonce a with | some v => .ok v | none => .notfound
  | .storage a k => .ok (s.storageHead a k)
  | .cls c => match s.classes c with | some n => .ok n | none => .notfound

/-- `ContractDeployedAt` -/
def LState.deployedAt (s : LState) (a : Addr) (n : Nat) : Bool :=
  match s.deployHeight a with
  | some h => decide (h ≤ n)
  | none => false

/-- core/deprecatedstate/history.go at block `n` -/
def LState.histRead (s : LState) (n : Nat) : Query → Res
  | .classHash a =>
    if s.deployedAt a n then
      match legacyValueAt (s.logs (.classHash a)) n with
      | some v => .ok v
      | none => s.headRead (.classHash a)
    else .notfound
  | .nonce a =>
    if s.deployedAt a n then
      match legacyValueAt (s.logs (.nonce a)) n with
      | some v => .ok v
      | none => s.headRead (.nonce a)
    else .notfound
  | .storage a k =>
    let v := match legacyValueAt (s.logs (.storage a k)) n with
      | some v => v
      | none => s.storageHead a k
    -- "a non-zero value proves a write at or before n": skip the deployment probe
    if v != 0 then .ok v
    else if s.deployedAt a n then .ok v else .notfound
  | .cls c =>
    match s.classes c with
    | some at_ => if n < at_ then .notfound else .ok at_
    | none => .notfound

/-! ## CASM hash metadata (blockchain/statebackend/casm_metadata.go, core/class.go) -/

structure CasmMeta where
  declaredAt : Nat
  v2 : Val
  /-- 0 = not migrated -/
  migratedAt : Nat
  v1 : Option Val
  deriving DecidableEq, Repr

abbrev MetaMap := CHash → Option CasmMeta

/-- `storeCasmHashMetadata` -/
def metaStore (m : MetaMap) (b : Nat) (d : Diff) : Except Err MetaMap :=
  if d.v2 then
    let m1 := d.declared1.foldl (fun m x => upd m x.hash (some ⟨b, x.casm, 0, none⟩)) m
    d.migrated.foldlM (fun m p =>
      match m p.1 with
      | none => .error .metaMissing
      | some mt =>
        if mt.v1.isNone || b ≤ mt.declaredAt || mt.migratedAt > 0 then .error .cannotMigrate
        else .ok (upd m p.1 (some { mt with migratedAt := b }))) m1
  else
    .ok (d.declared1.foldl (fun m x => upd m x.hash (some ⟨b, x.casmV2, 0, some x.casm⟩)) m)

/-- the metadata reads made inside `State.Revert` (both backends) before anything is written -/
def metaRevertCheck (m : MetaMap) (d : Diff) : Bool :=
  d.migrated.all (fun p => match m p.1 with | some mt => mt.migratedAt > 0 | none => false)

/-- `revertCasmHashMetadata` -/
def metaRevert (m : MetaMap) (d : Diff) : Except Err MetaMap :=
  let m1 := d.declared1.foldl (fun m x => upd m x.hash none) m
  d.migrated.foldlM (fun m p =>
    match m p.1 with
    | none => .error .metaMissing
    | some mt => if mt.migratedAt > 0 then .ok (upd m p.1 (some { mt with migratedAt := 0 })) else .error .cannotUnmigrate) m1

/-- `CasmHash()` -/
def CasmMeta.head (mt : CasmMeta) : Val :=
  match mt.v1 with
  | none => mt.v2
  | some v1 => if mt.migratedAt > 0 then mt.v2 else v1

/-- `CasmHashAt(n)` -/
def CasmMeta.at (mt : CasmMeta) (n : Nat) : Res :=
  if mt.declaredAt > n then .notfound
  else match mt.v1 with
    | none => .ok mt.v2
    | some v1 => if mt.migratedAt > 0 && mt.migratedAt ≤ n then .ok mt.v2 else .ok v1

/-! ## A node: state backend + stored blocks -/

structure Backend (σ : Type) where
  init : σ
  update : σ → Nat → Diff → Except Err σ
  revert : σ → Nat → Diff → Except Err σ
  headRead : σ → Query → Res
  histRead : σ → Nat → Query → Res

def newBackend (cfg : Cfg) : Backend NState :=
  ⟨NState.empty, NState.update cfg, NState.revert cfg, NState.headRead, NState.histRead⟩

def legacyBackend : Backend LState :=
  ⟨LState.empty, LState.update, LState.revert, LState.headRead, LState.histRead⟩

structure Node (σ : Type) where
  st : σ
  /-- stored blocks, newest first: block hash and the state update read back by `RevertHead` -/
  blocks : List (BlockId × Diff)
  casmMeta : MetaMap

def Node.init {σ : Type} (be : Backend σ) : Node σ := ⟨be.init, [], fun _ => none⟩

def Node.chain {σ : Type} (n : Node σ) : List Diff := n.blocks.map (·.2)

/-- `Store` of the next block (block verification is not modelled: C02) -/
def Node.store {σ : Type} (be : Backend σ) (n : Node σ) (id : BlockId) (d : Diff) : Except Err (Node σ) :=
  match be.update n.st n.blocks.length d with
  | .error e => .error e
  | .ok st =>
    match metaStore n.casmMeta n.blocks.length d with
    | .error e => .error e
    | .ok m => .ok ⟨st, (id, d) :: n.blocks, m⟩

/-- `RevertHead` -/
def Node.revert {σ : Type} (be : Backend σ) (n : Node σ) : Except Err (Node σ) :=
  match n.blocks with
  | [] => .error .emptyChain
  | (_, d) :: rest =>
    if !metaRevertCheck n.casmMeta d then .error .cannotUnmigrate else
    match be.revert n.st rest.length d with
    | .error e => .error e
    | .ok st =>
      match metaRevert n.casmMeta d with
      | .error e => .error e
      | .ok m => .ok ⟨st, rest, m⟩

inductive View
  | head
  | num (n : Nat)
  | hash (h : BlockId)
  deriving DecidableEq, Repr

/-- block number of a stored block hash (`BlockHeaderNumbersByHash`) -/
def numberOf : List (BlockId × Diff) → BlockId → Option Nat
  | [], _ => none
  | (id, _) :: rest, h => if id = h then some rest.length else numberOf rest h

/-- `HeadState` / `StateAtBlockNumber` / `StateAtBlockHash`: `none` = no such view;
`some none` = head reader, `some (some k)` = history reader at block `k` -/
def Node.resolve {σ : Type} (n : Node σ) : View → Option (Option Nat)
  | .head => if n.blocks.isEmpty then none else some none
  | .num k => if k < n.blocks.length then some (some k) else none
  | .hash h => (numberOf n.blocks h).map some

def Node.read {σ : Type} (be : Backend σ) (n : Node σ) (v : View) (q : Query) : Option Res :=
  match n.resolve v with
  | none => none
  | some none => some (be.headRead n.st q)
  | some (some k) => some (be.histRead n.st k q)

/-- `CompiledClassHash` on the same views -/
def Node.readCasm {σ : Type} (n : Node σ) (v : View) (c : CHash) : Option Res :=
  match n.resolve v with
  | none => none
  | some none => some (match n.casmMeta c with | some mt => .ok mt.head | none => .notfound)
  | some (some k) => some (match n.casmMeta c with | some mt => mt.at k | none => .notfound)

/-! ## Histories -/

inductive Op
  | store (id : BlockId) (d : Diff)
  | revert
  deriving Repr

def Node.step {σ : Type} (be : Backend σ) (n : Node σ) : Op → Except Err (Node σ)
  | .store id d => n.store be id d
  | .revert => n.revert be

/-- run a history; `none` when an operation fails (the real node rejects it) -/
def run {σ : Type} (be : Backend σ) : Node σ → List Op → Option (Node σ)
  | n, [] => some n
  | n, op :: rest =>
    match n.step be op with
    | .ok n' => run be n' rest
    | .error _ => none

end Juno.C03
