import JunoModel.C08.Model
/-!
C08 — helper lemmas for the property theorems in `Props.lean`.
-/
namespace Juno.C08

/-! ### finality -/

theorem isL1Verified_iff (n : Nat) (l1 : Option Nat) :
    isL1Verified n l1 = true ↔ ∃ l, l1 = some l ∧ n ≤ l := by
  cases l1 <;> simp [isL1Verified]

theorem finality_l1_iff (n : Nat) (l1 : Option Nat) :
    finality n l1 = .l1 ↔ ∃ l, l1 = some l ∧ n ≤ l := by
  unfold finality
  split <;> rename_i h
  · simpa using (isL1Verified_iff n l1).mp h
  · constructor
    · intro h'; cases h'
    · intro h'; exact absurd ((isL1Verified_iff n l1).mpr h') h

/-! ### resolution -/

theorem length_pos_of_not_isEmpty {α : Type} {l : List α} (h : ¬ l.isEmpty = true) : 0 < l.length := by
  cases l <;> simp_all

theorem resolve_lt {nd : Node} {id : BlockId} {n : Nat} (h : resolve nd id = some n) :
    n < nd.chain.length := by
  cases id with
  | number k =>
    simp only [resolve] at h
    split at h
    · cases h; assumption
    · cases h
  | hash x =>
    simp only [resolve] at h
    have := List.findIdx?_eq_some_iff_getElem.mp h
    exact this.1
  | latest =>
    simp only [resolve] at h
    split at h
    · cases h
    · cases h
      rename_i hne
      have := length_pos_of_not_isEmpty hne
      omega
  | l1Accepted =>
    simp only [resolve] at h
    split at h
    · split at h
      · cases h
      · cases h
        rename_i hne
        have := length_pos_of_not_isEmpty hne
        omega
    · cases h
  | pre => simp [resolve] at h

/-- The block an identifier denotes. -/
def resolvedBlock (nd : Node) (id : BlockId) : Option Block :=
  (resolve nd id).bind (fun n => nd.chain[n]?)

theorem resolvedBlock_isSome_iff (nd : Node) (id : BlockId) :
    (resolvedBlock nd id).isSome ↔ (resolve nd id).isSome := by
  unfold resolvedBlock
  cases h : resolve nd id with
  | none => simp
  | some n =>
    have := resolve_lt h
    simp [this]

theorem resolvedBlock_none_iff (nd : Node) (id : BlockId) :
    resolvedBlock nd id = none ↔ resolve nd id = none := by
  have := resolvedBlock_isSome_iff nd id
  cases h1 : resolvedBlock nd id <;> cases h2 : resolve nd id <;> simp_all

theorem l1AcceptedNumber_eq (nd : Node) : l1AcceptedNumber nd = resolve nd .l1Accepted := by
  unfold l1AcceptedNumber resolve height
  cases nd.l1 <;> by_cases h : nd.chain.isEmpty <;> simp [h]

/-- `blockHeaderByID` / `blockByID` return exactly the block the identifier denotes, and
BLOCK_NOT_FOUND exactly when it denotes none. -/
theorem blockById_eq (ver : Ver) (nd : Node) (id : BlockId) (hv : ¬ (ver = .v8 ∧ id = .l1Accepted)) :
    blockById ver nd id =
      match resolvedBlock nd id with
      | some b => .ok b
      | none => .error .blockNotFound := by
  cases id with
  | number n =>
    simp only [blockById, resolvedBlock, resolve, blockByNumber]
    by_cases h : n < nd.chain.length
    · simp [h]
    · simp [h]
  | hash x =>
    simp only [blockById, resolvedBlock, resolve, blockByHash, numberByHash]
    rfl
  | latest =>
    simp only [blockById, resolvedBlock, resolve, headBlock, height]
    by_cases h : nd.chain.isEmpty
    · simp [h]
    · simp only [h]; rfl
  | l1Accepted =>
    have hv' : ver ≠ .v8 := fun h => hv ⟨h, rfl⟩
    cases ver with
    | v8 => exact absurd rfl hv'
    | v9 => simp only [blockById, resolvedBlock, l1AcceptedNumber_eq]; rfl
    | v10 => simp only [blockById, resolvedBlock, l1AcceptedNumber_eq]; rfl
  | pre => simp [blockById, resolvedBlock, resolve]

theorem resolvedBlock_at {nd : Node} {id : BlockId} {b : Block} (wf : WellFormed nd)
    (h : resolvedBlock nd id = some b) :
    resolve nd id = some b.number ∧ nd.chain[b.number]? = some b := by
  unfold resolvedBlock at h
  cases hr : resolve nd id with
  | none => simp [hr] at h
  | some n =>
    simp [hr] at h
    have := wf n b h
    subst this
    exact ⟨rfl, h⟩

/-! ### the block methods -/

theorem blockWithTxHashes_eq {ver : Ver} {nd : Node} {id : BlockId} (wf : WellFormed nd)
    (hv : ¬ (ver = .v8 ∧ id = .l1Accepted)) :
    blockWithTxHashes ver nd id =
      match resolvedBlock nd id with
      | some b => .blockHashes (hdrOf nd b) (b.txs.map (·.hash))
      | none => .err .blockNotFound := by
  unfold blockWithTxHashes
  rw [blockById_eq ver nd id hv]
  cases h : resolvedBlock nd id with
  | none => rfl
  | some b =>
    have := (resolvedBlock_at wf h).2
    simp [txHashesByNumber, blockByNumber, this]

theorem blockWithTxs_eq {ver : Ver} {nd : Node} {id : BlockId} (wf : WellFormed nd)
    (hv : ¬ (ver = .v8 ∧ id = .l1Accepted)) :
    blockWithTxs ver nd id =
      match resolvedBlock nd id with
      | some b => .blockTxs (hdrOf nd b) b.txs
      | none => .err .blockNotFound := by
  unfold blockWithTxs
  rw [blockById_eq ver nd id hv]
  cases h : resolvedBlock nd id with
  | none => rfl
  | some b =>
    have := (resolvedBlock_at wf h).2
    simp [txsByNumber, blockByNumber, this]

theorem blockWithReceipts_eq {ver : Ver} {nd : Node} {id : BlockId}
    (hv : ¬ (ver = .v8 ∧ id = .l1Accepted)) :
    blockWithReceipts ver nd id =
      match resolvedBlock nd id with
      | some b => .blockReceipts (hdrOf nd b) (b.txs.map (fun t => (t, finality b.number nd.l1)))
      | none => .err .blockNotFound := by
  unfold blockWithReceipts
  rw [blockById_eq ver nd id hv]
  cases h : resolvedBlock nd id <;> rfl

theorem stateUpdate_eq_blockById (ver : Ver) (nd : Node) (id : BlockId) (f : List Nat) :
    stateUpdate ver nd id f =
      match blockById ver nd id with
      | .error e => .err e
      | .ok b => .update b.hash b.root b.oldRoot (filterDiff ver f b.diff) := by
  cases id <;> cases ver <;> rfl

theorem stateUpdate_eq {ver : Ver} {nd : Node} {id : BlockId} (f : List Nat)
    (hv : ¬ (ver = .v8 ∧ id = .l1Accepted)) :
    stateUpdate ver nd id f =
      match resolvedBlock nd id with
      | some b => .update b.hash b.root b.oldRoot (filterDiff ver f b.diff)
      | none => .err .blockNotFound := by
  rw [stateUpdate_eq_blockById, blockById_eq ver nd id hv]
  cases h : resolvedBlock nd id <;> rfl

theorem resolvedBlock_number (nd : Node) (n : Nat) :
    resolvedBlock nd (.number n) = nd.chain[n]? := by
  simp only [resolvedBlock, resolve]
  by_cases h : n < nd.chain.length <;> simp [h]

theorem blockTransactionCount_eq {ver : Ver} {nd : Node} {id : BlockId}
    (hv : ¬ (ver = .v8 ∧ id = .l1Accepted)) :
    blockTransactionCount ver nd id =
      match resolvedBlock nd id with
      | some b => .num b.txs.length
      | none => .err .blockNotFound := by
  cases ver with
  | v8 =>
    simp only [blockTransactionCount]
    rw [blockById_eq .v8 nd id hv]
    cases h : resolvedBlock nd id <;> rfl
  | v9 =>
    cases id with
    | number n =>
      simp only [blockTransactionCount, txCountByNumber, blockByNumber, resolvedBlock_number]
      cases nd.chain[n]? <;> rfl
    | hash x =>
      simp only [blockTransactionCount, txCountByNumber, blockByNumber, numberByHash, resolvedBlock, resolve]
      cases List.findIdx? (fun b => b.hash == x) nd.chain with
      | none => rfl
      | some n => simp only [Option.bind]; cases nd.chain[n]? <;> rfl
    | latest =>
      simp only [blockTransactionCount, txCountByNumber, blockByNumber, height, resolvedBlock, resolve]
      by_cases h : nd.chain.isEmpty
      · simp [h]
      · simp only [if_neg h, Option.bind]; cases nd.chain[nd.chain.length - 1]? <;> rfl
    | l1Accepted =>
      simp only [blockTransactionCount, txCountByNumber, blockByNumber, l1AcceptedNumber_eq, resolvedBlock]
      cases resolve nd .l1Accepted with
      | none => rfl
      | some n => simp only [Option.bind]; cases nd.chain[n]? <;> rfl
    | pre => rfl
  | v10 =>
    cases id with
    | number n =>
      simp only [blockTransactionCount, txCountByNumber, blockByNumber, resolvedBlock_number]
      cases nd.chain[n]? <;> rfl
    | hash x =>
      simp only [blockTransactionCount, txCountByNumber, blockByNumber, numberByHash, resolvedBlock, resolve]
      cases List.findIdx? (fun b => b.hash == x) nd.chain with
      | none => rfl
      | some n => simp only [Option.bind]; cases nd.chain[n]? <;> rfl
    | latest =>
      simp only [blockTransactionCount, txCountByNumber, blockByNumber, height, resolvedBlock, resolve]
      by_cases h : nd.chain.isEmpty
      · simp [h]
      · simp only [if_neg h, Option.bind]; cases nd.chain[nd.chain.length - 1]? <;> rfl
    | l1Accepted =>
      simp only [blockTransactionCount, txCountByNumber, blockByNumber, l1AcceptedNumber_eq, resolvedBlock]
      cases resolve nd .l1Accepted with
      | none => rfl
      | some n => simp only [Option.bind]; cases nd.chain[n]? <;> rfl
    | pre => rfl

def BlockId.isNumber : BlockId → Bool
  | .number _ => true
  | _ => false

/-- `TransactionByBlockIDAndIndex`, exactly: the transaction at that index of the denoted block,
INVALID_TXN_INDEX past its end, BLOCK_NOT_FOUND when nothing is denoted — except that a
`block_number` above the height is answered with INVALID_TXN_INDEX. -/
theorem transactionByBlockIdAndIndex_eq {ver : Ver} {nd : Node} {id : BlockId} (i : Nat)
    (wf : WellFormed nd) (hv : ¬ (ver = .v8 ∧ id = .l1Accepted)) :
    transactionByBlockIdAndIndex ver nd id i =
      match resolvedBlock nd id with
      | some b => (match b.txs[i]? with | some t => .tx t | none => .err .invalidTxIndex)
      | none => if id.isNumber then .err .invalidTxIndex else .err .blockNotFound := by
  cases id with
  | number n =>
    simp only [transactionByBlockIdAndIndex, txByNumberAndIndex, blockByNumber, resolvedBlock_number,
      BlockId.isNumber]
    cases nd.chain[n]? with
    | none => rfl
    | some b => simp only [Option.bind]; cases b.txs[i]? <;> rfl
  | hash x =>
    simp only [transactionByBlockIdAndIndex, txByNumberAndIndex, blockByNumber, numberByHash,
      resolvedBlock, resolve, BlockId.isNumber]
    cases hf : List.findIdx? (fun b => b.hash == x) nd.chain with
    | none => rfl
    | some n =>
      have hlt : n < nd.chain.length := (List.findIdx?_eq_some_iff_getElem.mp hf).1
      have : nd.chain[n]? = some nd.chain[n] := by simp [hlt]
      simp only [Option.bind, this]
      cases (nd.chain[n]).txs[i]? <;> rfl
  | latest =>
    have e : headBlock nd = resolvedBlock nd .latest := by
      simp only [headBlock, height, resolvedBlock, resolve, blockByNumber]
      by_cases h : nd.chain.isEmpty
      · simp [h]
      · simp only [h]; rfl
    simp only [transactionByBlockIdAndIndex, e, BlockId.isNumber]
    cases h : resolvedBlock nd .latest with
    | none => rfl
    | some b =>
      have := (resolvedBlock_at wf h).2
      simp only [txByNumberAndIndex, blockByNumber, this, Option.bind]
      cases b.txs[i]? <;> rfl
  | l1Accepted =>
    have hv' : ver ≠ .v8 := fun h => hv ⟨h, rfl⟩
    have key : (match l1AcceptedNumber nd with
        | some n => (match txByNumberAndIndex nd n i with | some t => Ans.tx t | none => .err .invalidTxIndex)
        | none => .err .blockNotFound) =
      match resolvedBlock nd .l1Accepted with
      | some b => (match b.txs[i]? with | some t => .tx t | none => .err .invalidTxIndex)
      | none => if BlockId.isNumber .l1Accepted then .err .invalidTxIndex else .err .blockNotFound := by
      simp only [l1AcceptedNumber_eq, resolvedBlock, txByNumberAndIndex, blockByNumber, BlockId.isNumber]
      cases hr : resolve nd .l1Accepted with
      | none => rfl
      | some n =>
        have hlt := resolve_lt hr
        simp only [Option.bind]
        have : nd.chain[n]? = some nd.chain[n] := by simp [hlt]
        rw [this]
    cases ver with
    | v8 => exact absurd rfl hv'
    | v9 =>
      rw [← key]
      simp only [transactionByBlockIdAndIndex]
      cases l1AcceptedNumber nd <;> rfl
    | v10 =>
      rw [← key]
      simp only [transactionByBlockIdAndIndex]
      cases l1AcceptedNumber nd <;> rfl
  | pre => rfl

/-! ### transactions by hash -/

theorem findTx_none_iff (bs : List Block) (h : Nat) :
    findTx bs h = none ↔ ∀ b ∈ bs, ∀ t ∈ b.txs, t.hash ≠ h := by
  unfold findTx
  rw [List.findSome?_eq_none_iff]
  constructor
  · intro H b hb t ht
    have := H b hb
    simp only [Option.map_eq_none_iff, List.findIdx?_eq_none_iff] at this
    have := this t ht
    simpa using this
  · intro H b hb
    simp only [Option.map_eq_none_iff, List.findIdx?_eq_none_iff]
    intro t ht
    simpa using H b hb t ht

theorem findTx_some {bs : List Block} {h n i : Nat} (hf : findTx bs h = some (n, i)) :
    ∃ b ∈ bs, b.number = n ∧ ∃ t, b.txs[i]? = some t ∧ t.hash = h := by
  unfold findTx at hf
  obtain ⟨b, hb, hfb⟩ := List.exists_of_findSome?_eq_some hf
  refine ⟨b, hb, ?_⟩
  simp only [Option.map_eq_some_iff] at hfb
  obtain ⟨j, hj, hji⟩ := hfb
  simp only [Prod.mk.injEq] at hji
  obtain ⟨hn, hi⟩ := hji
  subst hi
  have := List.findIdx?_eq_some_iff_getElem.mp hj
  obtain ⟨hlt, hp, _⟩ := this
  refine ⟨hn, b.txs[j], by simp [hlt], ?_⟩
  simpa using hp

/-- Under well-formedness the (number, index) stored for a transaction hash leads back to a
transaction of the chain carrying that hash. -/
theorem txLookup {nd : Node} {h n i : Nat} (wf : WellFormed nd)
    (hf : numberAndIndexByTxHash nd h = some (n, i)) :
    ∃ b t, nd.chain[n]? = some b ∧ b.txs[i]? = some t ∧ t.hash = h := by
  obtain ⟨b, hb, hn, t, ht, hh⟩ := findTx_some hf
  obtain ⟨j, hj⟩ := List.getElem?_of_mem hb
  have := wf j b hj
  refine ⟨b, t, ?_, ht, hh⟩
  rw [← hn, this]; exact hj

theorem transactionByHash_sound {nd : Node} {h : Nat} {t : Tx} (wf : WellFormed nd)
    (ha : transactionByHash nd h = .tx t) : t.hash = h ∧ ∃ b ∈ nd.chain, t ∈ b.txs := by
  unfold transactionByHash txByHash at ha
  cases hf : numberAndIndexByTxHash nd h with
  | none => simp [hf] at ha
  | some p =>
    obtain ⟨n, i⟩ := p
    obtain ⟨b, t', hb, ht, hh⟩ := txLookup wf hf
    simp [hf, txByNumberAndIndex, blockByNumber, hb, ht] at ha
    subst ha
    exact ⟨hh, b, List.mem_of_getElem? hb, List.mem_of_getElem? ht⟩

theorem transactionByHash_notFound_iff {nd : Node} {h : Nat} (wf : WellFormed nd) :
    transactionByHash nd h = .err .txnHashNotFound ↔ ∀ b ∈ nd.chain, ∀ t ∈ b.txs, t.hash ≠ h := by
  rw [← findTx_none_iff]
  unfold transactionByHash txByHash
  cases hf : numberAndIndexByTxHash nd h with
  | none => simpa [numberAndIndexByTxHash] using hf
  | some p =>
    obtain ⟨n, i⟩ := p
    obtain ⟨b, t', hb, ht, hh⟩ := txLookup wf hf
    have hf' : findTx nd.chain h = some (n, i) := hf
    simp [txByNumberAndIndex, blockByNumber, hb, ht, hf']

theorem transactionReceipt_sound {nd : Node} {h n bh : Nat} {t : Tx} {f : Fin} (wf : WellFormed nd)
    (ha : transactionReceipt nd h = .receipt t f n bh) :
    t.hash = h ∧ f = finality n nd.l1 ∧ ∃ b, nd.chain[n]? = some b ∧ t ∈ b.txs ∧ bh = b.hash := by
  unfold transactionReceipt at ha
  cases hf : numberAndIndexByTxHash nd h with
  | none => simp [hf] at ha
  | some p =>
    obtain ⟨n', i⟩ := p
    obtain ⟨b, t', hb, ht, hh⟩ := txLookup wf hf
    simp [hf, txAndBlockHash, blockByNumber, hb, ht] at ha
    obtain ⟨h1, h2, h3, h4⟩ := ha
    subst h1 h3 h4
    exact ⟨hh, h2.symm, b, hb, List.mem_of_getElem? ht, rfl⟩

theorem transactionReceipt_notFound_iff {nd : Node} {h : Nat} (wf : WellFormed nd) :
    transactionReceipt nd h = .err .txnHashNotFound ↔ ∀ b ∈ nd.chain, ∀ t ∈ b.txs, t.hash ≠ h := by
  rw [← findTx_none_iff]
  unfold transactionReceipt
  cases hf : numberAndIndexByTxHash nd h with
  | none => simpa [numberAndIndexByTxHash] using hf
  | some p =>
    obtain ⟨n, i⟩ := p
    obtain ⟨b, t', hb, ht, hh⟩ := txLookup wf hf
    have hf' : findTx nd.chain h = some (n, i) := hf
    simp [txAndBlockHash, blockByNumber, hb, ht, hf']

theorem transactionStatus_sound {nd : Node} {h : Nat} {f : Fin} {r : Bool} (wf : WellFormed nd)
    (ha : transactionStatus nd h = .status f r) :
    ∃ n b t, nd.chain[n]? = some b ∧ t ∈ b.txs ∧ t.hash = h ∧ f = finality n nd.l1 ∧ r = t.reverted := by
  unfold transactionStatus at ha
  cases hf : numberAndIndexByTxHash nd h with
  | none => simp [hf] at ha
  | some p =>
    obtain ⟨n, i⟩ := p
    obtain ⟨b, t, hb, ht, hh⟩ := txLookup wf hf
    simp [hf, txByNumberAndIndex, blockByNumber, hb, ht] at ha
    exact ⟨n, b, t, hb, List.mem_of_getElem? ht, hh, ha.1.symm, ha.2.symm⟩

theorem transactionStatus_notFound_iff {nd : Node} {h : Nat} (wf : WellFormed nd) :
    transactionStatus nd h = .err .txnHashNotFound ↔ ∀ b ∈ nd.chain, ∀ t ∈ b.txs, t.hash ≠ h := by
  rw [← findTx_none_iff]
  unfold transactionStatus
  cases hf : numberAndIndexByTxHash nd h with
  | none => simpa [numberAndIndexByTxHash] using hf
  | some p =>
    obtain ⟨n, i⟩ := p
    obtain ⟨b, t', hb, ht, hh⟩ := txLookup wf hf
    have hf' : findTx nd.chain h = some (n, i) := hf
    simp [txByNumberAndIndex, blockByNumber, hb, ht, hf']

/-! ### reverts -/

/-- All block hashes of the chain are distinct (ideal hash: distinct blocks, distinct hashes). -/
def HashesDistinct (nd : Node) : Prop := (nd.chain.map (·.hash)).Nodup

/-- All transaction hashes of the chain are distinct. -/
def TxHashesDistinct (nd : Node) : Prop := (nd.chain.flatMap (fun b => b.txs.map (·.hash))).Nodup

theorem revert_append (nd : Node) (bs : List Block) (b : Block) (h : nd.chain = bs ++ [b]) :
    revert nd = some { nd with chain := bs } := by
  unfold revert
  simp [h]

theorem reverted_hash_resolves_to_nothing (nd : Node) (bs : List Block) (b : Block)
    (h : nd.chain = bs ++ [b]) (hd : HashesDistinct nd) :
    resolve { nd with chain := bs } (.hash b.hash) = none := by
  simp only [resolve]
  rw [List.findIdx?_eq_none_iff]
  intro x hx
  unfold HashesDistinct at hd
  rw [h, List.map_append, List.nodup_append] at hd
  have := hd.2.2 x.hash (List.mem_map_of_mem hx) b.hash (by simp)
  simpa using this

theorem reverted_tx_not_found (nd : Node) (bs : List Block) (b : Block) (t : Tx)
    (h : nd.chain = bs ++ [b]) (hd : TxHashesDistinct nd) (ht : t ∈ b.txs) :
    findTx bs t.hash = none := by
  rw [findTx_none_iff]
  intro x hx u hu
  unfold TxHashesDistinct at hd
  rw [h, List.flatMap_append, List.nodup_append] at hd
  have h1 : u.hash ∈ bs.flatMap (fun b => b.txs.map (·.hash)) :=
    List.mem_flatMap.mpr ⟨x, hx, List.mem_map_of_mem hu⟩
  have h2 : t.hash ∈ [b].flatMap (fun b => b.txs.map (·.hash)) := by
    simp only [List.flatMap_cons, List.flatMap_nil, List.append_nil]
    exact List.mem_map_of_mem ht
  exact hd.2.2 u.hash h1 t.hash h2

/-! ### every reachable node is well formed and linked -/

theorem wellFormed_empty : WellFormed ({} : Node) := by
  intro i b h; simp at h

theorem linked_empty : Linked ({} : Node) := by
  intro i b h; simp at h

theorem getLast?_eq (l : List Block) : l.getLast? = l[l.length - 1]? := by
  rw [List.getLast?_eq_getElem?]

theorem store_wellFormed {nd nd' : Node} {b : Block} (wf : WellFormed nd) (hs : store nd b = some nd') :
    WellFormed nd' := by
  unfold store at hs
  split at hs
  · rename_i hsucc
    cases hs
    intro i x hx
    simp only at hx
    by_cases hi : i < nd.chain.length
    · rw [List.getElem?_append_left hi] at hx
      exact wf i x hx
    · rw [List.getElem?_append_right (by omega)] at hx
      have hi0 : i - nd.chain.length = 0 := by
        cases hlen : i - nd.chain.length with
        | zero => rfl
        | succ k => rw [hlen] at hx; simp at hx
      rw [hi0] at hx
      simp at hx
      subst hx
      have hil : i = nd.chain.length := by omega
      unfold succeeds headNumberAndHash at hsucc
      rw [getLast?_eq] at hsucc
      cases hl : nd.chain[nd.chain.length - 1]? with
      | none =>
        simp [hl] at hsucc
        have : nd.chain.length = 0 := by
          rcases Nat.eq_zero_or_pos nd.chain.length with h0 | hp
          · exact h0
          · have : nd.chain.length - 1 < nd.chain.length := by omega
            simp [List.getElem?_eq_none_iff] at hl
            omega
        omega
      | some last =>
        simp [hl] at hsucc
        have := wf _ last hl
        have hp : 0 < nd.chain.length := by
          rcases Nat.eq_zero_or_pos nd.chain.length with h0 | hp
          · simp [h0] at hl
          · exact hp
        omega
  · cases hs

theorem revert_wellFormed {nd nd' : Node} (wf : WellFormed nd) (hr : revert nd = some nd') :
    WellFormed nd' := by
  unfold revert at hr
  split at hr
  · cases hr
  · cases hr
    intro i x hx
    simp only at hx
    rw [List.getElem?_dropLast] at hx
    split at hx
    · exact wf i x hx
    · cases hx

theorem applyOp_wellFormed {nd : Node} (op : Op) (wf : WellFormed nd) : WellFormed (applyOp nd op) := by
  cases op with
  | store b =>
    simp only [applyOp]
    cases h : store nd b with
    | none => exact wf
    | some nd' => exact store_wellFormed wf h
  | revert =>
    simp only [applyOp]
    cases h : revert nd with
    | none => exact wf
    | some nd' => exact revert_wellFormed wf h
  | setL1 l => exact wf

theorem foldl_wellFormed (ops : List Op) (nd : Node) (wf : WellFormed nd) :
    WellFormed (ops.foldl applyOp nd) := by
  induction ops generalizing nd with
  | nil => exact wf
  | cons op ops ih => exact ih _ (applyOp_wellFormed op wf)

theorem run_wellFormed (ops : List Op) : WellFormed (run ops) :=
  foldl_wellFormed ops _ wellFormed_empty

theorem store_linked {nd nd' : Node} {b : Block} (lk : Linked nd) (hs : store nd b = some nd') :
    Linked nd' := by
  unfold store at hs
  split at hs
  · rename_i hsucc
    cases hs
    intro i x hx
    simp only at hx ⊢
    by_cases hi : i < nd.chain.length
    · rw [List.getElem?_append_left hi] at hx
      have := lk i x hx
      cases i with
      | zero => exact this
      | succ j =>
        have hj : j < nd.chain.length := by omega
        simp only [List.getElem?_append_left hj]
        exact this
    · rw [List.getElem?_append_right (by omega)] at hx
      have hi0 : i - nd.chain.length = 0 := by
        cases hlen : i - nd.chain.length with
        | zero => rfl
        | succ k => rw [hlen] at hx; simp at hx
      rw [hi0] at hx
      simp at hx
      subst hx
      have hil : i = nd.chain.length := by omega
      unfold succeeds headNumberAndHash at hsucc
      rw [getLast?_eq] at hsucc
      cases i with
      | zero =>
        have h0 : nd.chain.length = 0 := by omega
        have : nd.chain[nd.chain.length - 1]? = none := by simp [h0]
        simp [this] at hsucc
        exact hsucc.2
      | succ j =>
        have hj : j < nd.chain.length := by omega
        have hjl : nd.chain.length - 1 = j := by omega
        simp only [List.getElem?_append_left hj]
        rw [hjl] at hsucc
        cases hl : nd.chain[j]? with
        | none => simp at hl; omega
        | some last =>
          simp [hl] at hsucc
          simp [hsucc.2]
  · cases hs

theorem revert_linked {nd nd' : Node} (lk : Linked nd) (hr : revert nd = some nd') : Linked nd' := by
  unfold revert at hr
  split at hr
  · cases hr
  · cases hr
    intro i x hx
    simp only at hx ⊢
    rw [List.getElem?_dropLast] at hx
    split at hx
    · rename_i hlt
      have := lk i x hx
      cases i with
      | zero => exact this
      | succ j =>
        have hj : j < nd.chain.length - 1 := by omega
        simp only [List.getElem?_dropLast, hj, if_true]
        exact this
    · cases hx

theorem applyOp_linked {nd : Node} (op : Op) (lk : Linked nd) : Linked (applyOp nd op) := by
  cases op with
  | store b =>
    simp only [applyOp]
    cases h : store nd b with
    | none => exact lk
    | some nd' => exact store_linked lk h
  | revert =>
    simp only [applyOp]
    cases h : revert nd with
    | none => exact lk
    | some nd' => exact revert_linked lk h
  | setL1 l => exact lk

theorem foldl_linked (ops : List Op) (nd : Node) (lk : Linked nd) : Linked (ops.foldl applyOp nd) := by
  induction ops generalizing nd with
  | nil => exact lk
  | cons op ops ih => exact ih _ (applyOp_linked op lk)

theorem run_linked (ops : List Op) : Linked (run ops) := foldl_linked ops _ linked_empty

/-! ### state readers -/

/-- The state an identifier denotes: the fold of the diffs of blocks `0 … n`. -/
def stateBlocks (nd : Node) (n : Nat) : List Block := nd.chain.take (n + 1)

theorem stateById_eq (be : Backend) (ver : Ver) (nd : Node) (id : BlockId)
    (hv : ¬ (ver = .v8 ∧ id = .l1Accepted)) (hp : ¬ (ver = .v8 ∧ id = .pre)) (hz : id ≠ .hash 0) :
    stateById be ver nd id =
      match resolve nd id with
      | some n => .ok ⟨stateBlocks nd n, if id = .latest then .head else .history⟩
      | none => .error .blockNotFound := by
  cases id with
  | number n =>
    simp only [stateById, stateAtNumber, resolve, stateBlocks]
    by_cases h : n < nd.chain.length <;> simp [h]
  | hash x =>
    have hx : x ≠ 0 := fun h => hz (by rw [h])
    simp only [stateById, resolve, numberByHash, stateBlocks]
    have : (x == 0) = false := by simpa using hx
    simp only [this]
    cases hf : List.findIdx? (fun b => b.hash == x) nd.chain with
    | none => simp
    | some n =>
      have hlt : n < nd.chain.length := (List.findIdx?_eq_some_iff_getElem.mp hf).1
      simp [stateAtNumber, hlt]
  | latest =>
    simp only [stateById, resolve, stateBlocks]
    by_cases h : nd.chain.isEmpty
    · simp [h]
    · have hpos := length_pos_of_not_isEmpty h
      have : nd.chain.length - 1 + 1 = nd.chain.length := by omega
      simp [h, this]
  | l1Accepted =>
    have hv' : ver ≠ .v8 := fun h => hv ⟨h, rfl⟩
    have key : (match l1AcceptedNumber nd with
          | none => Except.error Err.blockNotFound
          | some n => stateAtNumber nd n) =
        match resolve nd .l1Accepted with
        | some n => .ok ⟨stateBlocks nd n, if BlockId.l1Accepted = .latest then .head else .history⟩
        | none => .error .blockNotFound := by
      rw [l1AcceptedNumber_eq]
      cases hr : resolve nd .l1Accepted with
      | none => rfl
      | some n =>
        have := resolve_lt hr
        simp [stateAtNumber, this, stateBlocks]
    cases ver with
    | v8 => exact absurd rfl hv'
    | v9 => simp only [stateById]; exact key
    | v10 => simp only [stateById]; exact key
  | pre =>
    cases ver with
    | v8 => exact absurd ⟨rfl, rfl⟩ hp
    | v9 => simp [stateById, resolve]
    | v10 => simp [stateById, resolve]

theorem findSome?_reverse_snoc {α β : Type} (f : α → Option β) (bs : List α) (b : α) :
    (bs ++ [b]).reverse.findSome? f = match f b with | some v => some v | none => bs.reverse.findSome? f := by
  simp only [List.reverse_append, List.reverse_cons, List.reverse_nil, List.nil_append, List.singleton_append,
    List.findSome?_cons]
  cases f b <;> rfl

theorem storageIn_snoc (bs : List Block) (b : Block) (a k : Nat) :
    storageIn (bs ++ [b]) a k =
      match lookup3 b.diff.storage a k with | some v => v | none => storageIn bs a k := by
  unfold storageIn
  rw [findSome?_reverse_snoc]
  cases lookup3 b.diff.storage a k <;> rfl

theorem nonceIn_snoc (bs : List Block) (b : Block) (a : Nat) :
    nonceIn (bs ++ [b]) a = match lookup2 b.diff.nonces a with | some v => v | none => nonceIn bs a := by
  unfold nonceIn
  rw [findSome?_reverse_snoc]
  cases lookup2 b.diff.nonces a <;> rfl

theorem classHashIn_snoc (bs : List Block) (b : Block) (a : Nat) :
    classHashIn (bs ++ [b]) a = match classInDiff b.diff a with | some v => v | none => classHashIn bs a := by
  unfold classHashIn
  rw [findSome?_reverse_snoc]
  cases classInDiff b.diff a <;> rfl

theorem deployedIn_snoc (bs : List Block) (b : Block) (a : Nat) :
    deployedIn (bs ++ [b]) a = (deployedIn bs a || deploysInDiff b.diff a) := by
  simp [deployedIn]

theorem declaredIn_snoc (bs : List Block) (b : Block) (c : Nat) :
    declaredIn (bs ++ [b]) c = (declaredIn bs c || b.diff.declared.contains c) := by
  simp [declaredIn]

theorem stateBlocks_succ (nd : Node) (n : Nat) (b : Block) (h : nd.chain[n + 1]? = some b) :
    stateBlocks nd (n + 1) = stateBlocks nd n ++ [b] := by
  unfold stateBlocks
  have hlt : n + 1 < nd.chain.length := by
    rcases Nat.lt_or_ge (n + 1) nd.chain.length with h1 | h1
    · exact h1
    · have : nd.chain[n + 1]? = none := by simp; omega
      rw [this] at h; cases h
  rw [List.take_add_one (i := n + 1)]
  simp [h]

/-- The three versions of `StorageAt` coincide, and equal "value if the contract exists,
CONTRACT_NOT_FOUND otherwise", whenever the reader is not the hash-0x0 one and non-zero storage
only lives in contracts (deployed, or system contracts touched by a diff). -/
theorem storageAt_eq (be : Backend) (ver : Ver) (nd : Node) (id : BlockId) (a k : Nat)
    (hv : ¬ (ver = .v8 ∧ id = .l1Accepted)) (hp : ¬ (ver = .v8 ∧ id = .pre)) (hz : id ≠ .hash 0)
    (hdep : ∀ n, resolve nd id = some n →
      storageIn (stateBlocks nd n) a k ≠ 0 → deployedIn (stateBlocks nd n) a = true) :
    storageAt be ver nd id a k =
      match resolve nd id with
      | none => .err .blockNotFound
      | some n =>
        if deployedIn (stateBlocks nd n) a then .num (storageIn (stateBlocks nd n) a k)
        else .err .contractNotFound := by
  unfold storageAt
  rw [stateById_eq be ver nd id hv hp hz]
  cases hr : resolve nd id with
  | none => rfl
  | some n =>
    have hd := hdep n hr
    simp only []
    by_cases hdp : deployedIn (stateBlocks nd n) a = true
    · by_cases hv0 : storageIn (stateBlocks nd n) a k = 0
      · cases ver <;> by_cases hl : id = .latest <;> simp [hdp, hv0, hl]
      · cases ver <;> by_cases hl : id = .latest <;> simp [hdp, hv0, hl]
    · have hv0 : storageIn (stateBlocks nd n) a k = 0 := by
        by_cases h0 : storageIn (stateBlocks nd n) a k = 0
        · exact h0
        · exact absurd (hd h0) hdp
      cases ver <;> by_cases hl : id = .latest <;> simp [hdp, hv0, hl]

end Juno.C08
