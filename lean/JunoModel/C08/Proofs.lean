import JunoModel.C08.Model
/-!
C08 — helper lemmas for the property theorems in `Props.lean`.
-/
namespace Juno.C08

/-! ### finality -/

theorem isL1Verified_iff (n : Nat) (l1 : Option Nat) :
    isL1Verified n l1 = true ↔ ∃ l, l1 = some l ∧ n ≤ l := by
  cases l1 <;> simp [isL1Verified]

theorem finality_l1_iff (n : Nat) (l1 : Option Nat) :
    finality n l1 = .l1 ↔ ∃ l, l1 = some l ∧ n ≤ l := by
  unfold finality
  split <;> rename_i h
  · simpa using (isL1Verified_iff n l1).mp h
  · constructor
    · intro h'; cases h'
    · intro h'; exact absurd ((isL1Verified_iff n l1).mpr h') h

/-! ### resolution -/

theorem length_pos_of_not_isEmpty {α : Type} {l : List α} (h : ¬ l.isEmpty = true) : 0 < l.length := by
  cases l <;> simp_all

theorem resolve_lt {nd : Node} {id : BlockId} {n : Nat} (h : resolve nd id = some n) :
    n < nd.chain.length := by
  cases id with
  | number k =>
    simp only [resolve] at h
    split at h
    · cases h; assumption
    · cases h
  | hash x =>
    simp only [resolve] at h
    have := List.findIdx?_eq_some_iff_getElem.mp h
    exact this.1
  | latest =>
    simp only [resolve] at h
    split at h
    · cases h
    · cases h
      rename_i hne
      have := length_pos_of_not_isEmpty hne
      omega
  | l1Accepted =>
    simp only [resolve] at h
    split at h
    · split at h
      · cases h
      · cases h
        rename_i hne
        have := length_pos_of_not_isEmpty hne
        omega
    · cases h
  | pre => simp [resolve] at h

/-- The block an identifier denotes. -/
def resolvedBlock (nd : Node) (id : BlockId) : Option Block :=
  (resolve nd id).bind (fun n => nd.chain[n]?)

theorem resolvedBlock_isSome_iff (nd : Node) (id : BlockId) :
    (resolvedBlock nd id).isSome ↔ (resolve nd id).isSome := by
  unfold resolvedBlock
  cases h : resolve nd id with
  | none => simp
  | some n =>
    have := resolve_lt h
    simp [this]

theorem resolvedBlock_none_iff (nd : Node) (id : BlockId) :
    resolvedBlock nd id = none ↔ resolve nd id = none := by
  have := resolvedBlock_isSome_iff nd id
  cases h1 : resolvedBlock nd id <;> cases h2 : resolve nd id <;> simp_all

theorem l1AcceptedNumber_eq (nd : Node) : l1AcceptedNumber nd = resolve nd .l1Accepted := by
  unfold l1AcceptedNumber resolve height
  cases nd.l1 <;> by_cases h : nd.chain.isEmpty <;> simp [h]

/-- The index buckets say what a search in the chain says (proved for all fresh histories below:
`run_bucketsOk`). -/
def BucketsOk (nd : Node) : Prop :=
  (∀ h, numberByHash nd h = nd.chain.findIdx? (fun b => b.hash == h)) ∧
  (∀ h, numberAndIndexByTxHash nd h = findTx nd.chain h)

/-- `blockHeaderByID` / `blockByID` return exactly the block the identifier denotes, and
BLOCK_NOT_FOUND exactly when it denotes none. -/
theorem blockById_eq (ver : Ver) (nd : Node) (id : BlockId) (ok : BucketsOk nd) (hv : ¬ (ver = .v8 ∧ id = .l1Accepted)) :
    blockById ver nd id =
      match resolvedBlock nd id with
      | some b => .ok b
      | none => .error .blockNotFound := by
  cases id with
  | number n =>
    simp only [blockById, resolvedBlock, resolve, blockByNumber]
    by_cases h : n < nd.chain.length
    · simp [h]
    · simp [h]
  | hash x =>
    simp only [blockById, resolvedBlock, resolve, blockByHash, ok.1]
    rfl
  | latest =>
    simp only [blockById, resolvedBlock, resolve, headBlock, height]
    by_cases h : nd.chain.isEmpty
    · simp [h]
    · simp only [h]; rfl
  | l1Accepted =>
    have hv' : ver ≠ .v8 := fun h => hv ⟨h, rfl⟩
    cases ver with
    | v8 => exact absurd rfl hv'
    | v9 => simp only [blockById, resolvedBlock, l1AcceptedNumber_eq]; rfl
    | v10 => simp only [blockById, resolvedBlock, l1AcceptedNumber_eq]; rfl
  | pre => simp [blockById, resolvedBlock, resolve]

theorem resolvedBlock_at {nd : Node} {id : BlockId} {b : Block} (wf : WellFormed nd)
    (h : resolvedBlock nd id = some b) :
    resolve nd id = some b.number ∧ nd.chain[b.number]? = some b := by
  unfold resolvedBlock at h
  cases hr : resolve nd id with
  | none => simp [hr] at h
  | some n =>
    simp [hr] at h
    have := wf n b h
    subst this
    exact ⟨rfl, h⟩

/-! ### the block methods -/

theorem blockWithTxHashes_eq {ver : Ver} {nd : Node} {id : BlockId} (ok : BucketsOk nd) (wf : WellFormed nd)
    (hv : ¬ (ver = .v8 ∧ id = .l1Accepted)) :
    blockWithTxHashesStored ver nd id =
      match resolvedBlock nd id with
      | some b => .blockHashes (hdrOf nd b) (b.txs.map (·.hash))
      | none => .err .blockNotFound := by
  unfold blockWithTxHashesStored
  rw [blockById_eq ver nd id ok hv]
  cases h : resolvedBlock nd id with
  | none => rfl
  | some b =>
    have := (resolvedBlock_at wf h).2
    simp [txHashesByNumber, blockByNumber, this]

theorem blockWithTxs_eq {ver : Ver} {nd : Node} {id : BlockId} (ok : BucketsOk nd) (wf : WellFormed nd)
    (hv : ¬ (ver = .v8 ∧ id = .l1Accepted)) :
    blockWithTxsStored ver nd id =
      match resolvedBlock nd id with
      | some b => .blockTxs (hdrOf nd b) b.txs
      | none => .err .blockNotFound := by
  unfold blockWithTxsStored
  rw [blockById_eq ver nd id ok hv]
  cases h : resolvedBlock nd id with
  | none => rfl
  | some b =>
    have := (resolvedBlock_at wf h).2
    simp [txsByNumber, blockByNumber, this]

theorem blockWithReceipts_eq {ver : Ver} {nd : Node} {id : BlockId}(ok : BucketsOk nd) 
    (hv : ¬ (ver = .v8 ∧ id = .l1Accepted)) :
    blockWithReceiptsStored ver nd id =
      match resolvedBlock nd id with
      | some b => .blockReceipts (hdrOf nd b) (b.txs.map (fun t => (t, finality b.number (statusL1 nd))))
      | none => .err .blockNotFound := by
  unfold blockWithReceiptsStored
  rw [blockById_eq ver nd id ok hv]
  cases h : resolvedBlock nd id <;> rfl

theorem stateUpdate_eq_blockById (ver : Ver) (nd : Node) (id : BlockId) (f : List Nat) :
    stateUpdateStored ver nd id f =
      match blockById ver nd id with
      | .error e => .err e
      | .ok b => .update b.hash b.root b.oldRoot (filterDiff ver f b.diff) := by
  cases id <;> cases ver <;> rfl

theorem stateUpdate_eq {ver : Ver} {nd : Node} {id : BlockId} (ok : BucketsOk nd) (f : List Nat)
    (hv : ¬ (ver = .v8 ∧ id = .l1Accepted)) :
    stateUpdateStored ver nd id f =
      match resolvedBlock nd id with
      | some b => .update b.hash b.root b.oldRoot (filterDiff ver f b.diff)
      | none => .err .blockNotFound := by
  rw [stateUpdate_eq_blockById, blockById_eq ver nd id ok hv]
  cases h : resolvedBlock nd id <;> rfl

theorem resolvedBlock_number (nd : Node) (n : Nat) :
    resolvedBlock nd (.number n) = nd.chain[n]? := by
  simp only [resolvedBlock, resolve]
  by_cases h : n < nd.chain.length <;> simp [h]

theorem blockTransactionCount_eq {ver : Ver} {nd : Node} {id : BlockId}(ok : BucketsOk nd) 
    (hv : ¬ (ver = .v8 ∧ id = .l1Accepted)) :
    blockTransactionCountStored ver nd id =
      match resolvedBlock nd id with
      | some b => .num b.txs.length
      | none => .err .blockNotFound := by
  cases ver with
  | v8 =>
    simp only [blockTransactionCountStored]
    rw [blockById_eq .v8 nd id ok hv]
    cases h : resolvedBlock nd id <;> rfl
  | v9 =>
    cases id with
    | number n =>
      simp only [blockTransactionCountStored, txCountByNumber, blockByNumber, resolvedBlock_number]
      cases nd.chain[n]? <;> rfl
    | hash x =>
      simp only [blockTransactionCountStored, txCountByNumber, blockByNumber, ok.1, resolvedBlock, resolve]
      cases List.findIdx? (fun b => b.hash == x) nd.chain with
      | none => rfl
      | some n => simp only [Option.bind]; cases nd.chain[n]? <;> rfl
    | latest =>
      simp only [blockTransactionCountStored, txCountByNumber, blockByNumber, height, resolvedBlock, resolve]
      by_cases h : nd.chain.isEmpty
      · simp [h]
      · simp only [if_neg h, Option.bind]; cases nd.chain[nd.chain.length - 1]? <;> rfl
    | l1Accepted =>
      simp only [blockTransactionCountStored, txCountByNumber, blockByNumber, l1AcceptedNumber_eq, resolvedBlock]
      cases resolve nd .l1Accepted with
      | none => rfl
      | some n => simp only [Option.bind]; cases nd.chain[n]? <;> rfl
    | pre => rfl
  | v10 =>
    cases id with
    | number n =>
      simp only [blockTransactionCountStored, txCountByNumber, blockByNumber, resolvedBlock_number]
      cases nd.chain[n]? <;> rfl
    | hash x =>
      simp only [blockTransactionCountStored, txCountByNumber, blockByNumber, ok.1, resolvedBlock, resolve]
      cases List.findIdx? (fun b => b.hash == x) nd.chain with
      | none => rfl
      | some n => simp only [Option.bind]; cases nd.chain[n]? <;> rfl
    | latest =>
      simp only [blockTransactionCountStored, txCountByNumber, blockByNumber, height, resolvedBlock, resolve]
      by_cases h : nd.chain.isEmpty
      · simp [h]
      · simp only [if_neg h, Option.bind]; cases nd.chain[nd.chain.length - 1]? <;> rfl
    | l1Accepted =>
      simp only [blockTransactionCountStored, txCountByNumber, blockByNumber, l1AcceptedNumber_eq, resolvedBlock]
      cases resolve nd .l1Accepted with
      | none => rfl
      | some n => simp only [Option.bind]; cases nd.chain[n]? <;> rfl
    | pre => rfl

def BlockId.isNumber : BlockId → Bool
  | .number _ => true
  | _ => false

/-- `TransactionByBlockIDAndIndex`, exactly: the transaction at that index of the denoted block,
INVALID_TXN_INDEX past its end, BLOCK_NOT_FOUND when nothing is denoted — except that a
`block_number` above the height is answered with INVALID_TXN_INDEX. -/
theorem transactionByBlockIdAndIndex_eq {ver : Ver} {nd : Node} {id : BlockId} (ok : BucketsOk nd) (i : Nat)
    (wf : WellFormed nd) (hv : ¬ (ver = .v8 ∧ id = .l1Accepted)) :
    transactionByBlockIdAndIndexStored ver nd id i =
      match resolvedBlock nd id with
      | some b => (match b.txs[i]? with | some t => .tx t | none => .err .invalidTxIndex)
      | none => if id.isNumber then .err .invalidTxIndex else .err .blockNotFound := by
  cases id with
  | number n =>
    simp only [transactionByBlockIdAndIndexStored, txByNumberAndIndex, blockByNumber, resolvedBlock_number,
      BlockId.isNumber]
    cases nd.chain[n]? with
    | none => rfl
    | some b => simp only [Option.bind]; cases b.txs[i]? <;> rfl
  | hash x =>
    simp only [transactionByBlockIdAndIndexStored, txByNumberAndIndex, blockByNumber, ok.1,
      resolvedBlock, resolve, BlockId.isNumber]
    cases hf : List.findIdx? (fun b => b.hash == x) nd.chain with
    | none => rfl
    | some n =>
      have hlt : n < nd.chain.length := (List.findIdx?_eq_some_iff_getElem.mp hf).1
      have : nd.chain[n]? = some nd.chain[n] := by simp [hlt]
      simp only [Option.bind, this]
      cases (nd.chain[n]).txs[i]? <;> rfl
  | latest =>
    have e : headBlock nd = resolvedBlock nd .latest := by
      simp only [headBlock, height, resolvedBlock, resolve, blockByNumber]
      by_cases h : nd.chain.isEmpty
      · simp [h]
      · simp only [h]; rfl
    simp only [transactionByBlockIdAndIndexStored, e, BlockId.isNumber]
    cases h : resolvedBlock nd .latest with
    | none => rfl
    | some b =>
      have := (resolvedBlock_at wf h).2
      simp only [txByNumberAndIndex, blockByNumber, this, Option.bind]
      cases b.txs[i]? <;> rfl
  | l1Accepted =>
    have hv' : ver ≠ .v8 := fun h => hv ⟨h, rfl⟩
    have key : (match l1AcceptedNumber nd with
        | some n => (match txByNumberAndIndex nd n i with | some t => Ans.tx t | none => .err .invalidTxIndex)
        | none => .err .blockNotFound) =
      match resolvedBlock nd .l1Accepted with
      | some b => (match b.txs[i]? with | some t => .tx t | none => .err .invalidTxIndex)
      | none => if BlockId.isNumber .l1Accepted then .err .invalidTxIndex else .err .blockNotFound := by
      simp only [l1AcceptedNumber_eq, resolvedBlock, txByNumberAndIndex, blockByNumber, BlockId.isNumber]
      cases hr : resolve nd .l1Accepted with
      | none => rfl
      | some n =>
        have hlt := resolve_lt hr
        simp only [Option.bind]
        have : nd.chain[n]? = some nd.chain[n] := by simp [hlt]
        rw [this]
    cases ver with
    | v8 => exact absurd rfl hv'
    | v9 =>
      rw [← key]
      simp only [transactionByBlockIdAndIndexStored]
      cases l1AcceptedNumber nd <;> rfl
    | v10 =>
      rw [← key]
      simp only [transactionByBlockIdAndIndexStored]
      cases l1AcceptedNumber nd <;> rfl
  | pre => rfl

/-! ### transactions by hash -/

theorem findTx_none_iff (bs : List Block) (h : Nat) :
    findTx bs h = none ↔ ∀ b ∈ bs, ∀ t ∈ b.txs, t.hash ≠ h := by
  unfold findTx
  rw [List.findSome?_eq_none_iff]
  constructor
  · intro H b hb t ht
    have := H b hb
    simp only [Option.map_eq_none_iff, List.findIdx?_eq_none_iff] at this
    have := this t ht
    simpa using this
  · intro H b hb
    simp only [Option.map_eq_none_iff, List.findIdx?_eq_none_iff]
    intro t ht
    simpa using H b hb t ht

theorem findTx_some {bs : List Block} {h n i : Nat} (hf : findTx bs h = some (n, i)) :
    ∃ b ∈ bs, b.number = n ∧ ∃ t, b.txs[i]? = some t ∧ t.hash = h := by
  unfold findTx at hf
  obtain ⟨b, hb, hfb⟩ := List.exists_of_findSome?_eq_some hf
  refine ⟨b, hb, ?_⟩
  simp only [Option.map_eq_some_iff] at hfb
  obtain ⟨j, hj, hji⟩ := hfb
  simp only [Prod.mk.injEq] at hji
  obtain ⟨hn, hi⟩ := hji
  subst hi
  have := List.findIdx?_eq_some_iff_getElem.mp hj
  obtain ⟨hlt, hp, _⟩ := this
  refine ⟨hn, b.txs[j], by simp [hlt], ?_⟩
  simpa using hp

/-- Under well-formedness the (number, index) stored for a transaction hash leads back to a
transaction of the chain carrying that hash. -/
theorem txLookup {nd : Node} {h n i : Nat} (ok : BucketsOk nd) (wf : WellFormed nd)
    (hf : numberAndIndexByTxHash nd h = some (n, i)) :
    ∃ b t, nd.chain[n]? = some b ∧ b.txs[i]? = some t ∧ t.hash = h := by
  rw [ok.2 h] at hf
  obtain ⟨b, hb, hn, t, ht, hh⟩ := findTx_some hf
  obtain ⟨j, hj⟩ := List.getElem?_of_mem hb
  have := wf j b hj
  refine ⟨b, t, ?_, ht, hh⟩
  rw [← hn, this]; exact hj

theorem transactionByHash_sound {nd : Node} {h : Nat} {t : Tx} (ok : BucketsOk nd) (wf : WellFormed nd)
    (ha : transactionByHash nd h = .tx t) : t.hash = h ∧ ∃ b ∈ nd.chain, t ∈ b.txs := by
  unfold transactionByHash txByHash at ha
  cases hf : numberAndIndexByTxHash nd h with
  | none => simp [hf] at ha
  | some p =>
    obtain ⟨n, i⟩ := p
    obtain ⟨b, t', hb, ht, hh⟩ := txLookup ok wf hf
    simp [hf, txByNumberAndIndex, blockByNumber, hb, ht] at ha
    subst ha
    exact ⟨hh, b, List.mem_of_getElem? hb, List.mem_of_getElem? ht⟩

theorem transactionByHash_notFound_iff {nd : Node} {h : Nat} (ok : BucketsOk nd) (wf : WellFormed nd) :
    transactionByHash nd h = .err .txnHashNotFound ↔ ∀ b ∈ nd.chain, ∀ t ∈ b.txs, t.hash ≠ h := by
  rw [← findTx_none_iff]
  unfold transactionByHash txByHash
  cases hf : numberAndIndexByTxHash nd h with
  | none => rw [ok.2 h] at hf; simpa using hf
  | some p =>
    obtain ⟨n, i⟩ := p
    obtain ⟨b, t', hb, ht, hh⟩ := txLookup ok wf hf
    have hf' : findTx nd.chain h = some (n, i) := by rw [← ok.2 h]; exact hf
    simp [txByNumberAndIndex, blockByNumber, hb, ht, hf']

theorem transactionReceipt_sound {nd : Node} {h n bh : Nat} {t : Tx} {f : Fin} (ok : BucketsOk nd) (wf : WellFormed nd)
    (ha : transactionReceipt nd h = .receipt t f n bh) :
    t.hash = h ∧ f = finality n (statusL1 nd) ∧ ∃ b, nd.chain[n]? = some b ∧ t ∈ b.txs ∧ bh = b.hash := by
  unfold transactionReceipt at ha
  cases hf : numberAndIndexByTxHash nd h with
  | none => simp [hf] at ha
  | some p =>
    obtain ⟨n', i⟩ := p
    obtain ⟨b, t', hb, ht, hh⟩ := txLookup ok wf hf
    simp [hf, txAndBlockHash, blockByNumber, hb, ht] at ha
    obtain ⟨h1, h2, h3, h4⟩ := ha
    subst h1 h3 h4
    exact ⟨hh, h2.symm, b, hb, List.mem_of_getElem? ht, rfl⟩

theorem transactionReceipt_notFound_iff {nd : Node} {h : Nat} (ok : BucketsOk nd) (wf : WellFormed nd) :
    transactionReceipt nd h = .err .txnHashNotFound ↔ ∀ b ∈ nd.chain, ∀ t ∈ b.txs, t.hash ≠ h := by
  rw [← findTx_none_iff]
  unfold transactionReceipt
  cases hf : numberAndIndexByTxHash nd h with
  | none => rw [ok.2 h] at hf; simpa using hf
  | some p =>
    obtain ⟨n, i⟩ := p
    obtain ⟨b, t', hb, ht, hh⟩ := txLookup ok wf hf
    have hf' : findTx nd.chain h = some (n, i) := by rw [← ok.2 h]; exact hf
    simp [txAndBlockHash, blockByNumber, hb, ht, hf']

theorem transactionStatus_sound {nd : Node} {h : Nat} {f : Fin} {r : Bool} (ok : BucketsOk nd) (wf : WellFormed nd)
    (ha : transactionStatus nd h = .status f r) :
    ∃ n b t, nd.chain[n]? = some b ∧ t ∈ b.txs ∧ t.hash = h ∧ f = finality n (statusL1 nd) ∧ r = t.reverted := by
  unfold transactionStatus at ha
  cases hf : numberAndIndexByTxHash nd h with
  | none => simp [hf] at ha
  | some p =>
    obtain ⟨n, i⟩ := p
    obtain ⟨b, t, hb, ht, hh⟩ := txLookup ok wf hf
    simp [hf, txByNumberAndIndex, blockByNumber, hb, ht] at ha
    exact ⟨n, b, t, hb, List.mem_of_getElem? ht, hh, ha.1.symm, ha.2.symm⟩

theorem transactionStatus_notFound_iff {nd : Node} {h : Nat} (ok : BucketsOk nd) (wf : WellFormed nd) :
    transactionStatus nd h = .err .txnHashNotFound ↔ ∀ b ∈ nd.chain, ∀ t ∈ b.txs, t.hash ≠ h := by
  rw [← findTx_none_iff]
  unfold transactionStatus
  cases hf : numberAndIndexByTxHash nd h with
  | none => rw [ok.2 h] at hf; simpa using hf
  | some p =>
    obtain ⟨n, i⟩ := p
    obtain ⟨b, t', hb, ht, hh⟩ := txLookup ok wf hf
    have hf' : findTx nd.chain h = some (n, i) := by rw [← ok.2 h]; exact hf
    simp [txByNumberAndIndex, blockByNumber, hb, ht, hf']

theorem store_chain {nd nd' : Node} {b : Block} (hs : store nd b = some nd') :
    nd'.chain = nd.chain ++ [b] ∧ nd'.numByHash = (b.hash, b.number) :: nd.numByHash ∧
      nd'.txLoc = txEntries b.number 0 b.txs ++ nd.txLoc ∧ nd'.l1 = nd.l1 ∧ nd'.l1Zero = nd.l1Zero := by
  unfold store at hs
  split at hs
  · cases hs; exact ⟨rfl, rfl, rfl, rfl, rfl⟩
  · cases hs

theorem revert_chain {nd nd' : Node} (hr : revert nd = some nd') :
    ∃ b, nd.chain = nd'.chain ++ [b] ∧ nd'.chain = nd.chain.dropLast ∧
      nd'.numByHash = nd.numByHash.filter (fun e => e.1 != b.hash) ∧
      nd'.txLoc = nd.txLoc.filter (fun e => !(b.txs.any (fun t => t.hash == e.1))) ∧
      nd'.l1 = nd.l1 ∧ nd'.l1Zero = nd.l1Zero := by
  unfold revert at hr
  split at hr
  · cases hr
  · rename_i b hb
    cases hr
    obtain ⟨ys, hys⟩ := List.getLast?_eq_some_iff.mp hb
    refine ⟨b, ?_, rfl, rfl, rfl, rfl, rfl⟩
    simp only [hys, List.dropLast_concat]

theorem revert_isSome_iff (nd : Node) : (revert nd).isSome ↔ nd.chain ≠ [] := by
  unfold revert
  cases h : nd.chain.getLast? with
  | none => simp [List.getLast?_eq_none_iff.mp h]
  | some b =>
    obtain ⟨ys, hys⟩ := List.getLast?_eq_some_iff.mp h
    simp [hys]

theorem store_cond {nd nd' : Node} {b : Block} (hs : store nd b = some nd') :
    succeeds nd b = true ∧ storageOk nd b = true := by
  unfold store at hs
  split at hs
  · rename_i h; simpa [Bool.and_eq_true] using h
  · cases hs

/-! ### every reachable node is well formed and linked -/

theorem wellFormed_empty : WellFormed ({} : Node) := by
  intro i b h; simp at h

theorem linked_empty : Linked ({} : Node) := by
  intro i b h; simp at h

theorem getLast?_eq (l : List Block) : l.getLast? = l[l.length - 1]? := by
  rw [List.getLast?_eq_getElem?]

theorem store_wellFormed {nd nd' : Node} {b : Block} (wf : WellFormed nd) (hs : store nd b = some nd') :
    WellFormed nd' := by
  unfold store at hs
  split at hs
  · rename_i hsucc0
    have hsucc : succeeds nd b = true := by
      simp only [Bool.and_eq_true] at hsucc0; exact hsucc0.1
    cases hs
    intro i x hx
    simp only at hx
    by_cases hi : i < nd.chain.length
    · rw [List.getElem?_append_left hi] at hx
      exact wf i x hx
    · rw [List.getElem?_append_right (by omega)] at hx
      have hi0 : i - nd.chain.length = 0 := by
        cases hlen : i - nd.chain.length with
        | zero => rfl
        | succ k => rw [hlen] at hx; simp at hx
      rw [hi0] at hx
      simp at hx
      subst hx
      have hil : i = nd.chain.length := by omega
      unfold succeeds headNumberAndHash at hsucc
      rw [getLast?_eq] at hsucc
      cases hl : nd.chain[nd.chain.length - 1]? with
      | none =>
        simp [hl] at hsucc
        have : nd.chain.length = 0 := by
          rcases Nat.eq_zero_or_pos nd.chain.length with h0 | hp
          · exact h0
          · have : nd.chain.length - 1 < nd.chain.length := by omega
            simp [List.getElem?_eq_none_iff] at hl
            omega
        omega
      | some last =>
        simp [hl] at hsucc
        have := wf _ last hl
        have hp : 0 < nd.chain.length := by
          rcases Nat.eq_zero_or_pos nd.chain.length with h0 | hp
          · simp [h0] at hl
          · exact hp
        omega
  · cases hs

theorem revert_wellFormed {nd nd' : Node} (wf : WellFormed nd) (hr : revert nd = some nd') :
    WellFormed nd' := by
  unfold revert at hr
  split at hr
  · cases hr
  · cases hr
    intro i x hx
    simp only at hx
    rw [List.getElem?_dropLast] at hx
    split at hx
    · exact wf i x hx
    · cases hx

theorem applyOp_wellFormed {nd : Node} (op : Op) (wf : WellFormed nd) : WellFormed (applyOp nd op) := by
  cases op with
  | store b =>
    simp only [applyOp]
    cases h : store nd b with
    | none => exact wf
    | some nd' => exact store_wellFormed wf h
  | revert =>
    simp only [applyOp]
    cases h : revert nd with
    | none => exact wf
    | some nd' => exact revert_wellFormed wf h
  | setL1 l => exact wf
  | setL1Zero => exact wf

theorem foldl_wellFormed (ops : List Op) (nd : Node) (wf : WellFormed nd) :
    WellFormed (ops.foldl applyOp nd) := by
  induction ops generalizing nd with
  | nil => exact wf
  | cons op ops ih => exact ih _ (applyOp_wellFormed op wf)

theorem run_wellFormed (ops : List Op) : WellFormed (run ops) :=
  foldl_wellFormed ops _ wellFormed_empty

theorem store_linked {nd nd' : Node} {b : Block} (lk : Linked nd) (hs : store nd b = some nd') :
    Linked nd' := by
  unfold store at hs
  split at hs
  · rename_i hsucc0
    have hsucc : succeeds nd b = true := by
      simp only [Bool.and_eq_true] at hsucc0; exact hsucc0.1
    cases hs
    intro i x hx
    simp only at hx ⊢
    by_cases hi : i < nd.chain.length
    · rw [List.getElem?_append_left hi] at hx
      have := lk i x hx
      cases i with
      | zero => exact this
      | succ j =>
        have hj : j < nd.chain.length := by omega
        simp only [List.getElem?_append_left hj]
        exact this
    · rw [List.getElem?_append_right (by omega)] at hx
      have hi0 : i - nd.chain.length = 0 := by
        cases hlen : i - nd.chain.length with
        | zero => rfl
        | succ k => rw [hlen] at hx; simp at hx
      rw [hi0] at hx
      simp at hx
      subst hx
      have hil : i = nd.chain.length := by omega
      unfold succeeds headNumberAndHash at hsucc
      rw [getLast?_eq] at hsucc
      cases i with
      | zero =>
        have h0 : nd.chain.length = 0 := by omega
        have : nd.chain[nd.chain.length - 1]? = none := by simp [h0]
        simp [this] at hsucc
        exact hsucc.2
      | succ j =>
        have hj : j < nd.chain.length := by omega
        have hjl : nd.chain.length - 1 = j := by omega
        simp only [List.getElem?_append_left hj]
        rw [hjl] at hsucc
        cases hl : nd.chain[j]? with
        | none => simp at hl; omega
        | some last =>
          simp [hl] at hsucc
          simp [hsucc.2]
  · cases hs

theorem revert_linked {nd nd' : Node} (lk : Linked nd) (hr : revert nd = some nd') : Linked nd' := by
  unfold revert at hr
  split at hr
  · cases hr
  · cases hr
    intro i x hx
    simp only at hx ⊢
    rw [List.getElem?_dropLast] at hx
    split at hx
    · rename_i hlt
      have := lk i x hx
      cases i with
      | zero => exact this
      | succ j =>
        have hj : j < nd.chain.length - 1 := by omega
        simp only [List.getElem?_dropLast, hj, if_true]
        exact this
    · cases hx

theorem applyOp_linked {nd : Node} (op : Op) (lk : Linked nd) : Linked (applyOp nd op) := by
  cases op with
  | store b =>
    simp only [applyOp]
    cases h : store nd b with
    | none => exact lk
    | some nd' => exact store_linked lk h
  | revert =>
    simp only [applyOp]
    cases h : revert nd with
    | none => exact lk
    | some nd' => exact revert_linked lk h
  | setL1 l => exact lk
  | setL1Zero => exact lk

theorem foldl_linked (ops : List Op) (nd : Node) (lk : Linked nd) : Linked (ops.foldl applyOp nd) := by
  induction ops generalizing nd with
  | nil => exact lk
  | cons op ops ih => exact ih _ (applyOp_linked op lk)

theorem run_linked (ops : List Op) : Linked (run ops) := foldl_linked ops _ linked_empty

theorem number_of_stored {nd nd' : Node} {b : Block} (wf : WellFormed nd) (hs : store nd b = some nd') :
    b.number = nd.chain.length := by
  have hc := (store_chain hs).1
  have : nd'.chain[nd.chain.length]? = some b := by rw [hc]; simp
  exact (store_wellFormed wf hs) nd.chain.length b this

/-! ### reverts and the index buckets -/

/-- All block hashes of the chain are distinct. -/
def HashesDistinct (nd : Node) : Prop := (nd.chain.map (·.hash)).Nodup

/-- All transaction hashes of the chain are distinct. -/
def TxHashesDistinct (nd : Node) : Prop := (nd.chain.flatMap (fun b => b.txs.map (·.hash))).Nodup

/-- The block offered to `store` is new to the node: its hash and its transaction hashes occur
nowhere on the current chain and its own transaction hashes are pairwise distinct. (Ideal hash:
a block / transaction that differs from the stored ones has a different hash. A block that was
reverted may be offered again: it is new to the chain at that point.) -/
def FreshBlock (nd : Node) (b : Block) : Prop :=
  (∀ x ∈ nd.chain, x.hash ≠ b.hash) ∧ (b.txs.map (·.hash)).Nodup ∧
    (∀ x ∈ nd.chain, ∀ u ∈ x.txs, ∀ t ∈ b.txs, u.hash ≠ t.hash)

/-- Every block a history stores is fresh at the moment it is stored. -/
def FreshFrom : Node → List Op → Prop
  | _, [] => True
  | nd, op :: ops =>
    (match op with
     | .store b => (store nd b).isSome → FreshBlock nd b
     | _ => True) ∧ FreshFrom (applyOp nd op) ops

/-- What the buckets must satisfy, together with what keeps it true. -/
def Inv (nd : Node) : Prop := BucketsOk nd ∧ HashesDistinct nd ∧ TxHashesDistinct nd

theorem inv_empty : Inv ({} : Node) := by
  refine ⟨⟨fun h => rfl, fun h => rfl⟩, ?_, ?_⟩ <;> simp [HashesDistinct, TxHashesDistinct]

theorem find_txEntries (n h : Nat) : ∀ (ts : List Tx) (i0 : Nat),
    ((txEntries n i0 ts).find? (fun e => e.1 == h)).map (·.2) =
      (ts.findIdx? (fun t => t.hash == h)).map (fun i => (n, i0 + i)) := by
  intro ts
  induction ts with
  | nil => intro i0; rfl
  | cons t ts ih =>
    intro i0
    simp only [txEntries, List.find?_cons, List.findIdx?_cons]
    by_cases ht : (t.hash == h) = true
    · simp [ht]
    · have hf : (t.hash == h) = false := by simpa using ht
      simp only [hf]
      rw [ih (i0 + 1)]
      cases List.findIdx? (fun t => t.hash == h) ts with
      | none => simp
      | some i => simp; omega

theorem findTx_singleton (b : Block) (h : Nat) :
    findTx [b] h = (b.txs.findIdx? (fun t => t.hash == h)).map (fun i => (b.number, i)) := by
  simp [findTx, List.findSome?_cons]
  cases (List.findIdx? (fun t => t.hash == h) b.txs) <;> simp

theorem store_inv {nd nd' : Node} {b : Block} (inv : Inv nd) (wf : WellFormed nd) (fr : FreshBlock nd b)
    (hs : store nd b = some nd') : Inv nd' := by
  obtain ⟨⟨ok1, ok2⟩, hd, td⟩ := inv
  obtain ⟨fh, fn, ft⟩ := fr
  obtain ⟨hc, hm, ht, _, _⟩ := store_chain hs
  have hnum := number_of_stored wf hs
  refine ⟨⟨?_, ?_⟩, ?_, ?_⟩
  · intro h
    simp only [numberByHash, hm, hc, List.find?_cons, List.findIdx?_append]
    by_cases hb : (b.hash == h) = true
    · have hnone : List.findIdx? (fun x => x.hash == h) nd.chain = none := by
        rw [List.findIdx?_eq_none_iff]
        intro x hx
        have := fh x hx
        have hbh : b.hash = h := by simpa using hb
        simpa [← hbh] using this
      simp [hb, hnone, hnum]
    · have hf : (b.hash == h) = false := by simpa using hb
      have := ok1 h
      simp only [numberByHash] at this
      simp [hf, this]
  · intro h
    simp only [numberAndIndexByTxHash, ht, hc, List.find?_append, findTx, List.findSome?_append]
    have e1 := find_txEntries b.number h b.txs 0
    have e2 := ok2 h
    simp only [numberAndIndexByTxHash, findTx] at e2
    have e3 := findTx_singleton b h
    simp only [findTx] at e3
    cases hin : List.findIdx? (fun t => t.hash == h) b.txs with
    | none =>
      have hnone : List.find? (fun e => e.1 == h) (txEntries b.number 0 b.txs) = none := by
        cases hx : List.find? (fun e => e.1 == h) (txEntries b.number 0 b.txs) with
        | none => rfl
        | some e => rw [hx, hin] at e1; simp at e1
      rw [hin] at e3
      simp only [Option.map_none] at e3
      simp [hnone, e3, ← e2, Option.map_or]
    | some i =>
      -- the hash is one of the new block's: by freshness it is not on the old chain
      have hold : List.findSome? (fun b => Option.map (fun i => (b.number, i)) (List.findIdx? (fun t => t.hash == h) b.txs)) nd.chain = none := by
        have := (findTx_none_iff nd.chain h).mpr (by
          intro x hx u hu
          obtain ⟨hlt, hp, _⟩ := List.findIdx?_eq_some_iff_getElem.mp hin
          have hth : (b.txs[i]).hash = h := by simpa using hp
          have := ft x hx u hu (b.txs[i]) (List.getElem_mem hlt)
          rw [hth] at this
          exact this)
        simpa [findTx] using this
      rw [hin] at e1 e3
      cases hx : List.find? (fun e => e.1 == h) (txEntries b.number 0 b.txs) with
      | none => rw [hx] at e1; simp at e1
      | some e =>
        rw [hx] at e1
        simp only [Option.map_some] at e1 e3
        simp [hold, e3, e1, Option.map_or]
  · unfold HashesDistinct at *
    rw [hc, List.map_append, List.nodup_append]
    refine ⟨hd, by simp, ?_⟩
    intro a ha c hcm
    simp at hcm
    subst hcm
    obtain ⟨x, hx, hxa⟩ := List.mem_map.mp ha
    rw [← hxa]
    exact fh x hx
  · unfold TxHashesDistinct at *
    rw [hc, List.flatMap_append, List.nodup_append]
    refine ⟨td, by simpa using fn, ?_⟩
    intro a ha c hcm
    simp only [List.flatMap_cons, List.flatMap_nil, List.append_nil] at hcm
    obtain ⟨x, hx, hxa⟩ := List.mem_flatMap.mp ha
    obtain ⟨u, hu, hua⟩ := List.mem_map.mp hxa
    obtain ⟨t, ht', hta⟩ := List.mem_map.mp hcm
    rw [← hua, ← hta]
    exact ft x hx u hu t ht'

theorem revert_inv {nd nd' : Node} (inv : Inv nd) (hr : revert nd = some nd') : Inv nd' := by
  obtain ⟨⟨ok1, ok2⟩, hd, td⟩ := inv
  obtain ⟨b, hcb, hdl, hm, ht, _, _⟩ := revert_chain hr
  unfold HashesDistinct at hd
  unfold TxHashesDistinct at td
  rw [hcb, List.map_append, List.nodup_append] at hd
  rw [hcb, List.flatMap_append, List.nodup_append] at td
  refine ⟨⟨?_, ?_⟩, hd.1, td.1⟩
  · intro h
    have e := ok1 h
    simp only [numberByHash] at e ⊢
    rw [hm, List.find?_filter]
    rw [hcb, List.findIdx?_append] at e
    by_cases hb : b.hash = h
    · -- the deleted key: gone from the bucket, and (hashes being distinct) from the chain
      have h1 : List.find? (fun a => decide ((a.1 != b.hash) = true ∧ (a.1 == h) = true)) nd.numByHash = none := by
        rw [List.find?_eq_none]
        intro x _ hx
        simp only [decide_eq_true_eq] at hx
        obtain ⟨h1, h2⟩ := hx
        have : x.1 = h := by simpa using h2
        rw [this, ← hb] at h1
        simp at h1
      have h2 : List.findIdx? (fun x => x.hash == h) nd'.chain = none := by
        rw [List.findIdx?_eq_none_iff]
        intro x hx
        have := hd.2.2 x.hash (List.mem_map_of_mem hx) b.hash (by simp)
        rw [hb] at this
        simpa using this
      rw [h1, h2]; rfl
    · have hf : (b.hash == h) = false := by simpa using hb
      have h1 : List.find? (fun a => decide ((a.1 != b.hash) = true ∧ (a.1 == h) = true)) nd.numByHash =
          List.find? (fun a => a.1 == h) nd.numByHash := by
        congr 1
        funext a
        by_cases ha : (a.1 == h) = true
        · have : a.1 = h := by simpa using ha
          have hne : a.1 ≠ b.hash := by rw [this]; exact fun x => hb x.symm
          simp [ha, hne]
        · simp [ha]
      rw [h1, e]
      simp [List.findIdx?_cons, hf]
  · intro h
    have e := ok2 h
    simp only [numberAndIndexByTxHash] at e ⊢
    rw [ht, List.find?_filter]
    rw [hcb] at e
    simp only [findTx, List.findSome?_append] at e ⊢
    have e3 := findTx_singleton b h
    simp only [findTx] at e3
    by_cases hin : ∃ t ∈ b.txs, t.hash = h
    · obtain ⟨t, htm, hth⟩ := hin
      have h1 : List.find? (fun a => decide ((!b.txs.any fun t => t.hash == a.1) = true ∧ (a.1 == h) = true)) nd.txLoc = none := by
        rw [List.find?_eq_none]
        intro x _ hx
        simp only [decide_eq_true_eq] at hx
        obtain ⟨h1, h2⟩ := hx
        have hxh : x.1 = h := by simpa using h2
        have : (b.txs.any fun t => t.hash == x.1) = true := by
          rw [List.any_eq_true]; exact ⟨t, htm, by simp [hxh, hth]⟩
        simp [this] at h1
      have h2 : List.findSome? (fun b => Option.map (fun i => (b.number, i)) (List.findIdx? (fun t => t.hash == h) b.txs)) nd'.chain = none := by
        have := (findTx_none_iff nd'.chain h).mpr (by
          intro x hx u hu
          have h1' : u.hash ∈ nd'.chain.flatMap (fun b => b.txs.map (·.hash)) :=
            List.mem_flatMap.mpr ⟨x, hx, List.mem_map_of_mem hu⟩
          have h2' : t.hash ∈ [b].flatMap (fun b => b.txs.map (·.hash)) := by
            simp only [List.flatMap_cons, List.flatMap_nil, List.append_nil]
            exact List.mem_map_of_mem htm
          have := td.2.2 u.hash h1' t.hash h2'
          rw [hth] at this
          exact this)
        simpa [findTx] using this
      rw [h1, h2]; rfl
    · have hnot : ∀ t ∈ b.txs, t.hash ≠ h := fun t ht' hh => hin ⟨t, ht', hh⟩
      have hidx : List.findIdx? (fun t => t.hash == h) b.txs = none := by
        rw [List.findIdx?_eq_none_iff]; intro t ht'; simpa using hnot t ht'
      have h1 : List.find? (fun a => decide ((!b.txs.any fun t => t.hash == a.1) = true ∧ (a.1 == h) = true)) nd.txLoc =
          List.find? (fun a => a.1 == h) nd.txLoc := by
        congr 1
        funext a
        by_cases ha : (a.1 == h) = true
        · have hah : a.1 = h := by simpa using ha
          have : (b.txs.any fun t => t.hash == a.1) = false := by
            rw [List.any_eq_false]; intro t ht'; rw [hah]; simpa using hnot t ht'
          simp [ha, this]
        · simp [ha]
      rw [hidx] at e3
      rw [h1, e]
      simp [e3]

theorem applyOp_inv {nd : Node} (op : Op) (inv : Inv nd) (wf : WellFormed nd)
    (fr : match op with | .store b => (store nd b).isSome → FreshBlock nd b | _ => True) :
    Inv (applyOp nd op) := by
  cases op with
  | store b =>
    simp only [applyOp]
    cases h : store nd b with
    | none => exact inv
    | some nd' => exact store_inv inv wf (fr (by simp [h])) h
  | revert =>
    simp only [applyOp]
    cases h : revert nd with
    | none => exact inv
    | some nd' => exact revert_inv inv h
  | setL1 l => exact ⟨⟨inv.1.1, inv.1.2⟩, inv.2.1, inv.2.2⟩
  | setL1Zero => exact ⟨⟨inv.1.1, inv.1.2⟩, inv.2.1, inv.2.2⟩

theorem foldl_inv (ops : List Op) (nd : Node) (inv : Inv nd) (wf : WellFormed nd) (fr : FreshFrom nd ops) :
    Inv (ops.foldl applyOp nd) := by
  induction ops generalizing nd with
  | nil => exact inv
  | cons op ops ih =>
    obtain ⟨f1, f2⟩ := fr
    exact ih _ (applyOp_inv op inv wf f1) (applyOp_wellFormed op wf) f2

/-- For every history whose stored blocks are fresh when stored, the index buckets of the
resulting node agree with a search in its chain, and its hashes are distinct. -/
theorem run_inv (ops : List Op) (fr : FreshFrom {} ops) : Inv (run ops) :=
  foldl_inv ops _ inv_empty wellFormed_empty fr

/-! ### state readers -/

/-- The state an identifier denotes: the fold of the diffs of blocks `0 … n`. -/
def stateBlocks (nd : Node) (n : Nat) : List Block := nd.chain.take (n + 1)

theorem stateById_eq (be : Backend) (ver : Ver) (nd : Node) (id : BlockId)(ok : BucketsOk nd) 
    (hv : ¬ (ver = .v8 ∧ id = .l1Accepted)) (hp : ¬ (ver = .v8 ∧ id = .pre)) (hz : id ≠ .hash 0) :
    stateById be ver nd id =
      match resolve nd id with
      | some n => .ok ⟨stateBlocks nd n, if id = .latest then .head else .history⟩
      | none => .error .blockNotFound := by
  cases id with
  | number n =>
    simp only [stateById, stateAtNumber, resolve, stateBlocks]
    by_cases h : n < nd.chain.length <;> simp [h]
  | hash x =>
    have hx : x ≠ 0 := fun h => hz (by rw [h])
    simp only [stateById, resolve, ok.1, stateBlocks]
    have : (x == 0) = false := by simpa using hx
    simp only [this]
    cases hf : List.findIdx? (fun b => b.hash == x) nd.chain with
    | none => simp
    | some n =>
      have hlt : n < nd.chain.length := (List.findIdx?_eq_some_iff_getElem.mp hf).1
      simp [stateAtNumber, hlt]
  | latest =>
    simp only [stateById, resolve, stateBlocks]
    by_cases h : nd.chain.isEmpty
    · simp [h]
    · have hpos := length_pos_of_not_isEmpty h
      have : nd.chain.length - 1 + 1 = nd.chain.length := by omega
      simp [h, this]
  | l1Accepted =>
    have hv' : ver ≠ .v8 := fun h => hv ⟨h, rfl⟩
    have key : (match l1AcceptedNumber nd with
          | none => Except.error Err.blockNotFound
          | some n => stateAtNumber nd n) =
        match resolve nd .l1Accepted with
        | some n => .ok ⟨stateBlocks nd n, if BlockId.l1Accepted = .latest then .head else .history⟩
        | none => .error .blockNotFound := by
      rw [l1AcceptedNumber_eq]
      cases hr : resolve nd .l1Accepted with
      | none => rfl
      | some n =>
        have := resolve_lt hr
        simp [stateAtNumber, this, stateBlocks]
    cases ver with
    | v8 => exact absurd rfl hv'
    | v9 => simp only [stateById]; exact key
    | v10 => simp only [stateById]; exact key
  | pre =>
    cases ver with
    | v8 => exact absurd ⟨rfl, rfl⟩ hp
    | v9 => simp [stateById, resolve]
    | v10 => simp [stateById, resolve]

theorem findSome?_reverse_snoc {α β : Type} (f : α → Option β) (bs : List α) (b : α) :
    (bs ++ [b]).reverse.findSome? f = match f b with | some v => some v | none => bs.reverse.findSome? f := by
  simp only [List.reverse_append, List.reverse_cons, List.reverse_nil, List.nil_append, List.singleton_append,
    List.findSome?_cons]
  cases f b <;> rfl

theorem storageIn_snoc (bs : List Block) (b : Block) (a k : Nat) :
    storageIn (bs ++ [b]) a k =
      match lookup3 b.diff.storage a k with | some v => v | none => storageIn bs a k := by
  unfold storageIn
  rw [findSome?_reverse_snoc]
  cases lookup3 b.diff.storage a k <;> rfl

theorem nonceIn_snoc (bs : List Block) (b : Block) (a : Nat) :
    nonceIn (bs ++ [b]) a = match lookup2 b.diff.nonces a with | some v => v | none => nonceIn bs a := by
  unfold nonceIn
  rw [findSome?_reverse_snoc]
  cases lookup2 b.diff.nonces a <;> rfl

theorem classHashIn_snoc (bs : List Block) (b : Block) (a : Nat) :
    classHashIn (bs ++ [b]) a = match classInDiff b.diff a with | some v => v | none => classHashIn bs a := by
  unfold classHashIn
  rw [findSome?_reverse_snoc]
  cases classInDiff b.diff a <;> rfl

theorem deployedIn_snoc (bs : List Block) (b : Block) (a : Nat) :
    deployedIn (bs ++ [b]) a = (deployedIn bs a || deploysInDiff b.diff a) := by
  simp [deployedIn]

theorem declaredIn_snoc (bs : List Block) (b : Block) (c : Nat) :
    declaredIn (bs ++ [b]) c = (declaredIn bs c || b.diff.declared.contains c) := by
  simp [declaredIn]

theorem stateBlocks_succ (nd : Node) (n : Nat) (b : Block) (h : nd.chain[n + 1]? = some b) :
    stateBlocks nd (n + 1) = stateBlocks nd n ++ [b] := by
  unfold stateBlocks
  have hlt : n + 1 < nd.chain.length := by
    rcases Nat.lt_or_ge (n + 1) nd.chain.length with h1 | h1
    · exact h1
    · have : nd.chain[n + 1]? = none := by simp; omega
      rw [this] at h; cases h
  rw [List.take_add_one (i := n + 1)]
  simp [h]

/-- The three versions of `StorageAt` coincide, and equal "value if the contract exists,
CONTRACT_NOT_FOUND otherwise", whenever the reader is not the hash-0x0 one and non-zero storage
only lives in contracts (deployed, or system contracts touched by a diff). -/
theorem storageAt_eq (be : Backend) (ver : Ver) (nd : Node) (id : BlockId) (a k : Nat)(ok : BucketsOk nd) 
    (hv : ¬ (ver = .v8 ∧ id = .l1Accepted)) (hp : ¬ (ver = .v8 ∧ id = .pre)) (hz : id ≠ .hash 0)
    (hdep : ∀ n, resolve nd id = some n →
      storageIn (stateBlocks nd n) a k ≠ 0 → deployedIn (stateBlocks nd n) a = true) :
    storageAt be ver nd id a k =
      match resolve nd id with
      | none => .err .blockNotFound
      | some n =>
        if deployedIn (stateBlocks nd n) a then .num (storageIn (stateBlocks nd n) a k)
        else .err .contractNotFound := by
  unfold storageAt
  rw [stateById_eq be ver nd id ok hv hp hz]
  cases hr : resolve nd id with
  | none => rfl
  | some n =>
    have hd := hdep n hr
    simp only []
    by_cases hdp : deployedIn (stateBlocks nd n) a = true
    · by_cases hv0 : storageIn (stateBlocks nd n) a k = 0
      · cases ver <;> by_cases hl : id = .latest <;> simp [hdp, hv0, hl]
      · cases ver <;> by_cases hl : id = .latest <;> simp [hdp, hv0, hl]
    · have hv0 : storageIn (stateBlocks nd n) a k = 0 := by
        by_cases h0 : storageIn (stateBlocks nd n) a k = 0
        · exact h0
        · exact absurd (hd h0) hdp
      cases ver <;> by_cases hl : id = .latest <;> simp [hdp, hv0, hl]

/-! ### storage only lives in contracts: an invariant of every reachable node -/

/-- Every stored block's storage diff addresses contracts that exist by then. -/
def StorageInv (nd : Node) : Prop :=
  ∀ (i : Nat) (b : Block), nd.chain[i]? = some b →
    ∀ e ∈ b.diff.storage, isSystemContract e.1 = true ∨ deployedIn (nd.chain.take (i + 1)) e.1 = true

theorem storageInv_empty : StorageInv ({} : Node) := by
  intro i b h; simp at h

theorem store_storageInv {nd nd' : Node} {b : Block} (inv : StorageInv nd) (hs : store nd b = some nd') :
    StorageInv nd' := by
  unfold store at hs
  split at hs
  · rename_i hsucc0
    have hok : storageOk nd b = true := by
      simp only [Bool.and_eq_true] at hsucc0; exact hsucc0.2
    cases hs
    intro i x hx e he
    simp only at hx ⊢
    by_cases hi : i < nd.chain.length
    · rw [List.getElem?_append_left hi] at hx
      have := inv i x hx e he
      rw [List.take_append_of_le_length (by omega)]
      exact this
    · rw [List.getElem?_append_right (by omega)] at hx
      have hi0 : i - nd.chain.length = 0 := by
        cases hlen : i - nd.chain.length with
        | zero => rfl
        | succ k => rw [hlen] at hx; simp at hx
      rw [hi0] at hx
      simp at hx
      subst hx
      have hil : i = nd.chain.length := by omega
      have htake : ∀ y : Block, (nd.chain ++ [y]).take (i + 1) = nd.chain ++ [y] := by
        intro y; apply List.take_of_length_le; simp; omega
      rw [htake]
      unfold storageOk at hok
      simp only [Bool.and_eq_true] at hok
      have hok := hok.1.1
      rw [List.all_eq_true] at hok
      have := hok e he
      simpa [Bool.or_eq_true] using this
  · cases hs

theorem revert_storageInv {nd nd' : Node} (inv : StorageInv nd) (hr : revert nd = some nd') :
    StorageInv nd' := by
  unfold revert at hr
  split at hr
  · cases hr
  · cases hr
    intro i x hx e he
    simp only at hx ⊢
    rw [List.getElem?_dropLast] at hx
    split at hx
    · rename_i hlt
      have := inv i x hx e he
      rw [List.dropLast_eq_take, List.take_take]
      have : min (i + 1) (nd.chain.length - 1) = i + 1 := by omega
      rw [this]
      assumption
    · cases hx

theorem applyOp_storageInv {nd : Node} (op : Op) (inv : StorageInv nd) : StorageInv (applyOp nd op) := by
  cases op with
  | store b =>
    simp only [applyOp]
    cases h : store nd b with
    | none => exact inv
    | some nd' => exact store_storageInv inv h
  | revert =>
    simp only [applyOp]
    cases h : revert nd with
    | none => exact inv
    | some nd' => exact revert_storageInv inv h
  | setL1 l => exact inv
  | setL1Zero => exact inv

theorem foldl_storageInv (ops : List Op) (nd : Node) (inv : StorageInv nd) :
    StorageInv (ops.foldl applyOp nd) := by
  induction ops generalizing nd with
  | nil => exact inv
  | cons op ops ih => exact ih _ (applyOp_storageInv op inv)

theorem run_storageInv (ops : List Op) : StorageInv (run ops) := foldl_storageInv ops _ storageInv_empty

theorem storageIn_ne_zero {bs : List Block} {a k : Nat} (h : storageIn bs a k ≠ 0) :
    ∃ b ∈ bs, ∃ e ∈ b.diff.storage, e.1 = a := by
  unfold storageIn at h
  cases hf : bs.reverse.findSome? (fun b => lookup3 b.diff.storage a k) with
  | none => simp [hf] at h
  | some v =>
    obtain ⟨b, hb, hl⟩ := List.exists_of_findSome?_eq_some hf
    refine ⟨b, by simpa using hb, ?_⟩
    unfold lookup3 at hl
    simp only [Option.map_eq_some_iff] at hl
    obtain ⟨e, he, _⟩ := hl
    have hm := List.mem_of_find?_eq_some he
    have hp := List.find?_some he
    simp only [Bool.and_eq_true, beq_iff_eq] at hp
    exact ⟨e, hm, hp.1⟩

theorem mem_take_mono {α : Type} {l : List α} {x : α} {m m' : Nat} (h : x ∈ l.take m) (hm : m ≤ m') :
    x ∈ l.take m' := by
  have : l.take m = (l.take m').take m := by
    rw [List.take_take]; congr; omega
  rw [this] at h
  exact List.mem_of_mem_take h

/-- On a node satisfying the invariant, a non-zero slot value at block `n` implies the contract
exists at block `n` — the side condition of `storageAt_eq`. -/
theorem storage_in_contracts {nd : Node} (inv : StorageInv nd) (n a k : Nat)
    (h : storageIn (stateBlocks nd n) a k ≠ 0) : deployedIn (stateBlocks nd n) a = true := by
  obtain ⟨b, hb, e, he, hea⟩ := storageIn_ne_zero h
  unfold stateBlocks at hb ⊢
  obtain ⟨j, hj⟩ := List.getElem?_of_mem hb
  have hjn : j < n + 1 := by
    have := (List.getElem?_eq_some_iff.mp hj).1
    simp at this; omega
  have hjc : nd.chain[j]? = some b := by
    rw [List.getElem?_take] at hj
    simpa [hjn] using hj
  rcases inv j b hjc e he with hsys | hdep
  · unfold deployedIn
    rw [List.any_eq_true]
    refine ⟨b, hb, ?_⟩
    unfold deploysInDiff
    rw [← hea]
    simp only [Bool.or_eq_true, Bool.and_eq_true]
    right
    refine ⟨hsys, ?_⟩
    rw [List.any_eq_true]
    exact ⟨e, he, by simp⟩
  · rw [hea] at hdep
    unfold deployedIn at hdep ⊢
    rw [List.any_eq_true] at hdep ⊢
    obtain ⟨x, hx, hxd⟩ := hdep
    exact ⟨x, mem_take_mono hx (by omega), hxd⟩

/-! ### completeness of the by-hash lookups when transaction hashes are distinct -/

theorem nodup_getElem?_inj {α : Type} : ∀ (l : List α) (i j : Nat) (x : α), l.Nodup →
    l[i]? = some x → l[j]? = some x → i = j := by
  intro l
  induction l with
  | nil => intro i j x _ h; simp at h
  | cons a as ih =>
    intro i j x hn hi hj
    rw [List.nodup_cons] at hn
    cases i with
    | zero =>
      cases j with
      | zero => rfl
      | succ j' =>
        simp at hi hj
        subst hi
        exact absurd (List.mem_of_getElem? hj) hn.1
    | succ i' =>
      cases j with
      | zero =>
        simp at hi hj
        subst hj
        exact absurd (List.mem_of_getElem? hi) hn.1
      | succ j' =>
        simp at hi hj
        rw [ih i' j' x hn.2 hi hj]

theorem nodup_flatMap_each {α β : Type} (f : α → List β) : ∀ (l : List α), (l.flatMap f).Nodup →
    ∀ a ∈ l, (f a).Nodup := by
  intro l
  induction l with
  | nil => intro _ a ha; cases ha
  | cons x xs ih =>
    intro hn a ha
    rw [List.flatMap_cons, List.nodup_append] at hn
    rcases List.mem_cons.mp ha with h | h
    · rw [h]; exact hn.1
    · exact ih hn.2.1 a h

theorem nodup_flatMap_index {α β : Type} (f : α → List β) : ∀ (l : List α), (l.flatMap f).Nodup →
    ∀ (n n' : Nat) (a a' : α) (x : β), l[n]? = some a → l[n']? = some a' → x ∈ f a → x ∈ f a' → n = n' := by
  intro l
  induction l with
  | nil => intro _ n n' a a' x h; simp at h
  | cons y ys ih =>
    intro hn n n' a a' x h h' hx hx'
    rw [List.flatMap_cons, List.nodup_append] at hn
    cases n with
    | zero =>
      cases n' with
      | zero => rfl
      | succ m' =>
        simp at h h'
        subst h
        have : x ∈ ys.flatMap f := List.mem_flatMap.mpr ⟨a', List.mem_of_getElem? h', hx'⟩
        exact absurd rfl (hn.2.2 x hx x this)
    | succ m =>
      cases n' with
      | zero =>
        simp at h h'
        subst h'
        have : x ∈ ys.flatMap f := List.mem_flatMap.mpr ⟨a, List.mem_of_getElem? h, hx⟩
        exact absurd rfl (hn.2.2 x hx' x this)
      | succ m' =>
        simp at h h'
        rw [ih hn.2.1 m m' a a' x h h' hx hx']

/-- With distinct transaction hashes the hash index leads to exactly the position of the
transaction. -/
theorem findTx_complete {nd : Node} {n i : Nat} {b : Block} {t : Tx} (ok : BucketsOk nd) (wf : WellFormed nd)
    (hd : TxHashesDistinct nd) (hb : nd.chain[n]? = some b) (ht : b.txs[i]? = some t) :
    numberAndIndexByTxHash nd t.hash = some (n, i) := by
  rw [ok.2 t.hash]
  cases hf : findTx nd.chain t.hash with
  | none =>
    rw [findTx_none_iff] at hf
    exact absurd rfl (hf b (List.mem_of_getElem? hb) t (List.mem_of_getElem? ht))
  | some p =>
    obtain ⟨n', i'⟩ := p
    obtain ⟨b', hb', hn', t', ht', hh⟩ := findTx_some hf
    obtain ⟨j, hj⟩ := List.getElem?_of_mem hb'
    have hjn : b'.number = j := wf j b' hj
    have hx : t.hash ∈ b.txs.map (·.hash) := List.mem_map_of_mem (List.mem_of_getElem? ht)
    have hx' : t.hash ∈ b'.txs.map (·.hash) := by
      rw [← hh]; exact List.mem_map_of_mem (List.mem_of_getElem? ht')
    have hnj : n = j := nodup_flatMap_index _ _ hd n j b b' t.hash hb hj hx hx'
    subst hnj
    have hbb : b = b' := by rw [hb] at hj; exact Option.some.inj hj
    subst hbb
    have hnd := nodup_flatMap_each _ _ hd b (List.mem_of_getElem? hb)
    have h1 : (b.txs.map (·.hash))[i]? = some t.hash := by simp [ht]
    have h2 : (b.txs.map (·.hash))[i']? = some t.hash := by simp [ht', hh]
    have hii := nodup_getElem?_inj _ i i' t.hash hnd h1 h2
    subst hii
    rw [← hn', hjn]

theorem by_hash_complete {nd : Node} {n i : Nat} {b : Block} {t : Tx} (ok : BucketsOk nd) (wf : WellFormed nd)
    (hd : TxHashesDistinct nd) (hb : nd.chain[n]? = some b) (ht : b.txs[i]? = some t) :
    transactionByHash nd t.hash = .tx t ∧
      transactionReceipt nd t.hash = .receipt t (finality n (statusL1 nd)) n b.hash ∧
      transactionStatus nd t.hash = .status (finality n (statusL1 nd)) t.reverted := by
  have hf := findTx_complete ok wf hd hb ht
  simp [transactionByHash, txByHash, transactionReceipt, transactionStatus, hf, txByNumberAndIndex,
    txAndBlockHash, blockByNumber, hb, ht]

/-! ### an independent specification of "the state after a list of blocks": the left fold of the
state diffs over total maps (what the property text calls the state as of a block) -/

structure AState where
  storage : Nat → Nat → Nat
  nonce : Nat → Nat
  classHash : Nat → Nat
  contract : Nat → Bool      -- the address is a contract of the state
  declared : Nat → Bool

def AState.empty : AState :=
  { storage := fun _ _ => 0, nonce := fun _ => 0, classHash := fun _ => 0, contract := fun _ => false,
    declared := fun _ => false }

/-- Apply one state diff: every written slot / nonce / class hash takes the written value,
everything else keeps its value; deployed contracts (and system contracts whose storage is
written) become contracts; declared classes become declared. -/
def AState.apply (s : AState) (d : Diff) : AState :=
  { storage := fun a k => match lookup3 d.storage a k with | some v => v | none => s.storage a k
    nonce := fun a => match lookup2 d.nonces a with | some v => v | none => s.nonce a
    classHash := fun a => match classInDiff d a with | some v => v | none => s.classHash a
    contract := fun a => s.contract a || deploysInDiff d a
    declared := fun c => s.declared c || d.declared.contains c }

def stateAfter (bs : List Block) : AState := bs.foldl (fun s b => s.apply b.diff) AState.empty

theorem stateAfter_snoc (bs : List Block) (b : Block) :
    stateAfter (bs ++ [b]) = (stateAfter bs).apply b.diff := by
  simp [stateAfter, List.foldl_append]

theorem readers_eq_fold_rev (rs : List Block) :
    (∀ a k, storageIn rs.reverse a k = (stateAfter rs.reverse).storage a k) ∧
    (∀ a, nonceIn rs.reverse a = (stateAfter rs.reverse).nonce a) ∧
    (∀ a, classHashIn rs.reverse a = (stateAfter rs.reverse).classHash a) ∧
    (∀ a, deployedIn rs.reverse a = (stateAfter rs.reverse).contract a) ∧
    (∀ c, declaredIn rs.reverse c = (stateAfter rs.reverse).declared c) := by
  induction rs with
  | nil => exact ⟨fun _ _ => rfl, fun _ => rfl, fun _ => rfl, fun _ => rfl, fun _ => rfl⟩
  | cons b rs ih =>
    obtain ⟨h1, h2, h3, h4, h5⟩ := ih
    rw [List.reverse_cons, stateAfter_snoc]
    refine ⟨?_, ?_, ?_, ?_, ?_⟩
    · intro a k; rw [storageIn_snoc]; simp only [AState.apply]; cases lookup3 b.diff.storage a k <;> simp [h1]
    · intro a; rw [nonceIn_snoc]; simp only [AState.apply]; cases lookup2 b.diff.nonces a <;> simp [h2]
    · intro a; rw [classHashIn_snoc]; simp only [AState.apply]; cases classInDiff b.diff a <;> simp [h3]
    · intro a; rw [deployedIn_snoc]; simp only [AState.apply, h4]
    · intro c; rw [declaredIn_snoc]; simp only [AState.apply, h5]

/-- The newest-first searches of the model's readers compute exactly the fold. -/
theorem readers_eq_fold (bs : List Block) :
    (∀ a k, storageIn bs a k = (stateAfter bs).storage a k) ∧
    (∀ a, nonceIn bs a = (stateAfter bs).nonce a) ∧
    (∀ a, classHashIn bs a = (stateAfter bs).classHash a) ∧
    (∀ a, deployedIn bs a = (stateAfter bs).contract a) ∧
    (∀ c, declaredIn bs c = (stateAfter bs).declared c) := by
  have := readers_eq_fold_rev bs.reverse
  simpa using this

/-! ### v8 `pending` and the wire layer -/

theorem headBlock_eq (nd : Node) : headBlock nd = resolvedBlock nd .latest := by
  simp only [headBlock, height, resolvedBlock, resolve]
  by_cases h : nd.chain.isEmpty
  · simp [h]
  · simp only [if_neg h]; rfl

/-- `Handler.Pending` never fails on a non-empty well-formed chain: it is the empty block on top
of the head, whose diff records the hash of block `n - 10` once `n ≥ 10`; on the empty chain it
fails. -/
theorem pendingOf_eq {nd : Node} (wf : WellFormed nd) :
    pendingOf nd =
      match resolvedBlock nd .latest with
      | none => none
      | some h =>
        some ⟨h.hash, h.root,
          if h.number + 1 < blockHashLag then {}
          else { storage := [(1, h.number + 1 - blockHashLag,
                  match nd.chain[h.number + 1 - blockHashLag]? with | some b => b.hash | none => 0)] }⟩ := by
  unfold pendingOf
  rw [headBlock_eq]
  cases hh : resolvedBlock nd .latest with
  | none => rfl
  | some h =>
    obtain ⟨hr, hc⟩ := resolvedBlock_at wf hh
    have hlt := resolve_lt hr
    simp only []
    by_cases hl : h.number + 1 < blockHashLag
    · simp [hl]
    · have : h.number + 1 - blockHashLag < nd.chain.length := by unfold blockHashLag at *; omega
      have hs : nd.chain[h.number + 1 - blockHashLag]? = some nd.chain[h.number + 1 - blockHashLag] := by
        simp [this]
      simp [hl, blockByNumber, hs]

theorem handlers_eq_stored {ver : Ver} {id : BlockId} (nd : Node) (i : Nat) (f : List Nat)
    (hp : isV8Pending ver id = false) :
    blockWithTxHashes ver nd id = blockWithTxHashesStored ver nd id ∧
    blockWithTxs ver nd id = blockWithTxsStored ver nd id ∧
    blockWithReceipts ver nd id = blockWithReceiptsStored ver nd id ∧
    blockTransactionCount ver nd id = blockTransactionCountStored ver nd id ∧
    transactionByBlockIdAndIndex ver nd id i = transactionByBlockIdAndIndexStored ver nd id i ∧
    stateUpdate ver nd id f = stateUpdateStored ver nd id f := by
  simp [blockWithTxHashes, blockWithTxs, blockWithReceipts, blockTransactionCount,
    transactionByBlockIdAndIndex, stateUpdate, hp]

theorem isV8Pending_false_iff (ver : Ver) (id : BlockId) :
    isV8Pending ver id = false ↔ ¬ (ver = .v8 ∧ id = .pre) := by
  cases ver <;> cases id <;> simp [isV8Pending]

theorem decodeId_v8_never_l1 (cfg : Cfg) (raw : RawId) (id : BlockId) (h : decodeId cfg .v8 raw = .ok id) :
    id ≠ .l1Accepted := by
  cases raw with
  | null => simp [decodeId] at h
  | tag s =>
    simp only [decodeId] at h
    split at h
    · cases h; simp
    · split at h
      · cases h; simp
      · cases h
  | obj hh nn =>
    cases hh <;> cases nn <;> simp [decodeId] at h <;> subst h <;> simp
  | objNullNumber =>
    simp only [decodeId] at h
    split at h
    · cases h; simp
    · cases h
  | other => simp [decodeId] at h

/-- A decoding failure is always "invalid params". -/
theorem decodeId_error (cfg : Cfg) (ver : Ver) (raw : RawId) (h : ∀ id, decodeId cfg ver raw ≠ .ok id) :
    decodeId cfg ver raw = .error .invalidParams := by
  cases hd : decodeId cfg ver raw with
  | ok id => exact absurd hd (h id)
  | error e =>
    cases raw with
    | null => simp [decodeId] at hd; rw [hd]
    | tag s =>
      simp only [decodeId] at hd
      split at hd
      · cases hd
      · cases ver <;> simp only at hd <;> (repeat' split at hd) <;> cases hd <;> rfl
    | obj hh nn => cases hh <;> cases nn <;> simp [decodeId] at hd <;> rw [hd]
    | objNullNumber =>
      simp only [decodeId] at hd
      split at hd
      · cases hd
      · cases hd; rfl
    | other => simp [decodeId] at hd; rw [hd]

/-- Dispatch: a decodable, non-null id is handed to the handler of the method; a v8 id is never
`l1_accepted`. -/
theorem serve_dispatch (cfg : Cfg) (be : Backend) (ver : Ver) (nd : Node) (raw : RawId) (id : BlockId)
    (hn : raw ≠ .null) (h : decodeId cfg ver raw = .ok id) (f : List Nat) (i : Nat) (a k c : Nat) :
    ¬ (ver = .v8 ∧ id = .l1Accepted) ∧
    serve cfg be ver nd (.blockWithTxHashes raw) = blockWithTxHashes ver nd id ∧
    serve cfg be ver nd (.blockWithTxs raw) = blockWithTxs ver nd id ∧
    serve cfg be ver nd (.blockWithReceipts raw) = blockWithReceipts ver nd id ∧
    serve cfg be ver nd (.blockTransactionCount raw) = blockTransactionCount ver nd id ∧
    serve cfg be ver nd (.stateUpdate raw f) = stateUpdate ver nd id f ∧
    serve cfg be ver nd (.transactionByBlockIdAndIndex raw (Int.ofNat i)) = transactionByBlockIdAndIndex ver nd id i ∧
    serve cfg be ver nd (.storageAt a k raw) = storageAt be ver nd id a k ∧
    serve cfg be ver nd (.nonce raw a) = nonce be ver nd id a ∧
    serve cfg be ver nd (.classHashAt raw a) = classHashAt be ver nd id a ∧
    serve cfg be ver nd (.classByHash raw c) = classByHash be ver nd id c ∧
    serve cfg be ver nd (.classAt raw a) = classAt be ver nd id a := by
  refine ⟨?_, ?_⟩
  · rintro ⟨hv, hi⟩
    subst hv
    exact decodeId_v8_never_l1 cfg raw id h hi
  · have hneg : ¬ ((i : Int) < 0) := by omega
    have hw : ∀ p k', withId cfg ver p raw k' = k' id := by
      intro p k'
      cases raw <;> simp_all [withId]
    have hnb : (raw == RawId.null) = false := by simpa using hn
    simp [serve, hw, hneg, hnb]

end Juno.C08
