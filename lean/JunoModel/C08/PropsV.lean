import JunoModel.C08.ProofsV
import JunoModel.C08.PropsEnv
/-!
C08 — "All served API versions agree wherever their specifications coincide", as a statement
about THREE transcriptions (`ModelV.lean`: one per Go package, each written the way that package is
written) instead of one version-parameterised definition. The correspondence run answers every
request of version X with the transcription of package X, so each package is tied to its own
transcription; here the transcriptions are related to each other and to the summary of `Model.lean`
about which the property theorems of `Props.lean` / `PropsEnv.lean` are stated.
-/
namespace Juno.C08.Props
open Juno.C08

/-- Every request, every node, every version, both backends, both variants of the code: the
transcription of the version's own package answers exactly as the summary model. Hence every
theorem of `Props.lean` (stated about `serve` and the handlers of `Model.lean`) is a theorem about
each of the three transcriptions. -/
theorem each_package_refines_the_summary (cfg : Cfg) (be : Backend) (ver : Ver) (nd : Node) (r : Request)
    (fl : RawFlags) (env : Env) (h : Nat) :
    serveV cfg be ver nd r = serve cfg be ver nd r ∧
    serveFlaggedV cfg be ver nd r fl = serveFlagged cfg be ver nd r fl ∧
    transactionStatusV ver env nd h = transactionStatusEnv ver env nd h :=
  ⟨serveV_eq_serve cfg be ver nd r, serveFlaggedV_eq cfg be ver nd r fl, transactionStatusV_eq ver env nd h⟩

/-- rpc/v9 and rpc/v10 — two copies of nearly the same text — answer alike on every identifier,
for every method of the property except getStorageAt (differently written, see below); the by-hash
methods included, and getTransactionStatus under any feeder environment. -/
theorem packages_v9_v10_agree (nd : Node) (id : BlockId) (i : Int) (a c h : Nat) (be : Backend) (env : Env) :
    V9.blockWithTxHashes nd id = V10.blockWithTxHashes nd id ∧
    V9.blockWithTxs nd id = V10.blockWithTxs nd id ∧
    V9.blockWithReceipts nd id = V10.blockWithReceipts nd id ∧
    V9.blockTransactionCount nd id = V10.blockTransactionCount nd id ∧
    V9.stateUpdate nd id = V10.stateUpdate nd id [] ∧
    V9.transactionByBlockIDAndIndex nd id i = V10.transactionByBlockIDAndIndex nd id i ∧
    V9.transactionByHash nd h = V10.transactionByHash nd h ∧
    V9.transactionReceiptByHash nd h = V10.transactionReceiptByHash nd h ∧
    V9.transactionStatus env nd h = V10.transactionStatus env nd h ∧
    V9.nonce be nd id a = V10.nonce be nd id a ∧
    V9.classHashAt be nd id a = V10.classHashAt be nd id a ∧
    V9.classByHash be nd id c = V10.classByHash be nd id c ∧
    V9.classAt be nd id a = V10.classAt be nd id a := by
  obtain ⟨e1, e2, e3, e4, e5, e6, e7, e8, e9, e10⟩ := versions_agree_v9_v10 nd id i.toNat a c be
  have b := v910_byHash_eq nd h
  have s := v910_status_eq env nd h
  have sm := stateMethods_eq be nd id a c
  have ca := classAt_eq be nd id a
  refine ⟨?_, ?_, ?_, ?_, ?_, ?_, ?_, ?_, ?_, ?_, ?_, ?_, ?_⟩
  · rw [(v910_blockWithTxHashes_eq nd id).1, (v910_blockWithTxHashes_eq nd id).2, e1]
  · rw [(v910_blockWithTxs_eq nd id).1, (v910_blockWithTxs_eq nd id).2, e2]
  · rw [(v910_blockWithReceipts_eq nd id).1, (v910_blockWithReceipts_eq nd id).2, e3]
  · rw [(v910_blockTransactionCount_eq nd id).1, (v910_blockTransactionCount_eq nd id).2, e4]
  · rw [(v910_stateUpdate_eq nd id []).1, (v910_stateUpdate_eq nd id []).2, e5]
  · rw [(v910_txByIdx_eq nd id i).1, (v910_txByIdx_eq nd id i).2, e6]
  · rw [b.1, b.2.1]
  · rw [b.2.2.1, b.2.2.2.1]
  · rw [s.1, s.2]; rfl
  · rw [sm.1.1, sm.1.2.1, e7]
  · rw [sm.2.1.1, sm.2.1.2.1, e8]
  · rw [sm.2.2.1, sm.2.2.2.1, e9]
  · rw [ca.1, ca.2.1, e10]

/-- rpc/v8 — written differently: the transactions through `blockTxnsByNumber`, the count from the
header, the status from the receipt — answers as rpc/v9 on every identifier both have (everything
but `l1_accepted` and the pending / pre_confirmed tag), for every method of the property; the
transaction count needs the index buckets to agree with the chain. getTransactionStatus agrees for
transactions of the chain whatever the feeder says, and for the others whenever the gateway's
answer is one both versions can express. -/
theorem packages_v8_v9_agree (nd : Node) (id : BlockId) (i : Int) (a c h : Nat) (be : Backend) (env : Env)
    (ok : BucketsOk nd) (h8 : id ≠ .l1Accepted ∧ id ≠ .pre) :
    V8.blockWithTxHashes nd id = V9.blockWithTxHashes nd id ∧
    V8.blockWithTxs nd id = V9.blockWithTxs nd id ∧
    V8.blockWithReceipts nd id = V9.blockWithReceipts nd id ∧
    V8.blockTransactionCount nd id = V9.blockTransactionCount nd id ∧
    V8.stateUpdate nd id = V9.stateUpdate nd id ∧
    V8.transactionByBlockIDAndIndex nd id i = V9.transactionByBlockIDAndIndex nd id i ∧
    V8.transactionByHash nd h = V9.transactionByHash nd h ∧
    V8.transactionReceiptByHash nd h = V9.transactionReceiptByHash nd h ∧
    ((∃ f r, Juno.C08.transactionStatus nd h = .status f r) → V8.transactionStatus env nd h = V9.transactionStatus env nd h) ∧
    ((∀ fin exec, env.feeder = .says fin exec → fin ≠ .preConfirmed ∧ fin ≠ .candidate ∧ exec ≠ .rejected) →
      V8.transactionStatus env nd h = V9.transactionStatus env nd h) ∧
    V8.storageAt be nd id a c = V9.storageAt be nd id a c ∧
    V8.nonce be nd id a = V9.nonce be nd id a ∧
    V8.classHashAt be nd id a = V9.classHashAt be nd id a ∧
    V8.classByHash be nd id c = V9.classByHash be nd id c ∧
    V8.classAt be nd id a = V9.classAt be nd id a := by
  obtain ⟨e1, e2, e3, e4, e5, e6, e7, e8, e9, e10⟩ := versions_agree_v8_v9 nd id i.toNat a c [] be ok h8
  have b8 := v8_blockMethods_eq nd id
  have by9 := v910_byHash_eq nd h
  have by8 := v8_byHash_eq nd h
  have sm := stateMethods_eq be nd id a c
  have ca := classAt_eq be nd id a
  have st : V8.storageAt be nd id a c = V9.storageAt be nd id a c := by
    rw [(v9_storageAt_eq be nd id a c).1, (v9_storageAt_eq be nd id a c).2]
    cases id <;> first | exact absurd rfl h8.1 | exact absurd rfl h8.2 | simp [storageAt, stateById]
  refine ⟨?_, ?_, ?_, ?_, ?_, ?_, ?_, ?_, ?_, ?_, st, ?_, ?_, ?_, ?_⟩
  · rw [b8.1, (v910_blockWithTxHashes_eq nd id).2, e1]
  · rw [b8.2.1, (v910_blockWithTxs_eq nd id).2, e2]
  · rw [b8.2.2.1, (v910_blockWithReceipts_eq nd id).2, e3]
  · rw [b8.2.2.2, (v910_blockTransactionCount_eq nd id).2, e4]
  · rw [v8_stateUpdate_eq nd id [], (v910_stateUpdate_eq nd id []).2, e5]
  · rw [v8_txByIdx_eq nd id i, (v910_txByIdx_eq nd id i).2, e6]
  · rw [by8.1, by9.2.1]
  · rw [by8.2, by9.2.2.2.1]
  · rintro ⟨f, r, hl⟩
    rw [v8_status_eq, (v910_status_eq env nd h).1, status_local_answer_wins .v8 env nd h f r hl,
      status_local_answer_wins .v9 env nd h f r hl]
  · intro hf
    rw [v8_status_eq, (v910_status_eq env nd h).1]
    simp only [transactionStatusEnv]
    rcases status_shape nd h with hl | ⟨f, r, hl⟩
    · simp only [hl]
      cases hfe : env.feeder with
      | absent => rfl
      | fails => rfl
      | says fin exec =>
        obtain ⟨h1, h2, h3⟩ := hf fin exec hfe
        simp only
        have : ∀ fin', fin' ≠ FFin.preConfirmed → fin' ≠ FFin.candidate →
            adaptStatus .v8 fin' exec = adaptStatus .v9 fin' exec :=
          fun fin' a b => (relay_versions_agree env nd h).2 fin' exec a b h3
        rw [this]
        · split <;> simp_all
        · split <;> simp_all
    · simp only [hl]
  · rw [sm.1.2.2, sm.1.2.1, e7]
  · rw [sm.2.1.2.2, sm.2.1.2.1, e8]
  · rw [sm.2.2.2.2, sm.2.2.2.1, e9]
  · rw [ca.2.2, ca.2.1, e10]

/-- getStorageAt — rpc/v8 and rpc/v9 probe the class hash first and then read the slot, rpc/v10
reads the slot first and probes only for a zero at `latest` — agrees between the three packages on
every node reachable by a fresh history, for every identifier the versions share except
{block_hash: 0x0} (where v10 returns the raw slot of whatever state the backend hands out). -/
theorem packages_agree_on_storage (be : Backend) (ops : List Op) (fr : FreshFrom {} ops) (id : BlockId) (a k : Nat)
    (hz : id ≠ .hash 0) :
    V9.storageAt be (run ops) id a k = V10.storageAt be (run ops) id a k false ∧
    (id ≠ .l1Accepted → id ≠ .pre → V8.storageAt be (run ops) id a k = V10.storageAt be (run ops) id a k false) := by
  have e9 := storage_reachable be .v9 ops fr id a k (fun h => by cases h.1) (fun h => by cases h.1) hz
  have e10 := storage_reachable be .v10 ops fr id a k (fun h => by cases h.1) (fun h => by cases h.1) hz
  simp only at e9 e10
  refine ⟨?_, fun h1 h2 => ?_⟩
  · rw [(v9_storageAt_eq be _ id a k).1, (v10_storageAt_eq be _ id a k).1, e9, e10]
  · have e8 := storage_reachable be .v8 ops fr id a k (fun h => h1 h.2) (fun h => h2 h.2) hz
    simp only at e8
    rw [(v9_storageAt_eq be _ id a k).2, (v10_storageAt_eq be _ id a k).1, e8, e10]

/-- The identifier decoders of the three packages: v9 and v10 decode alike; v8 decodes as they do
except for the tags (`pending` instead of `pre_confirmed`, no `l1_accepted`). -/
theorem decoders_agree (cfg : Cfg) (raw : RawId) :
    V9.unmarshalBlockID cfg raw = V10.unmarshalBlockID cfg raw ∧
    ((∀ s, raw ≠ .tag s) → V8.unmarshalBlockID cfg raw = V9.unmarshalBlockID cfg raw) ∧
    V8.unmarshalBlockID cfg (.tag "latest") = V9.unmarshalBlockID cfg (.tag "latest") := by
  refine ⟨by cases raw <;> rfl, fun h => ?_, rfl⟩
  cases raw with
  | tag s => exact absurd rfl (h s)
  | null => rfl
  | obj a b => cases a <;> cases b <;> rfl
  | objNullNumber => rfl
  | other => rfl

/-! ## End to end over every reachable node, through the per-package transcriptions -/

/-- Every read method that takes a block identifier, on every node reachable by a fresh history,
from the wire form of the request to the answer, as answered by the transcription of the
version's own package (`serveV`): the transaction at an index of the denoted block; nonce, class
hash, class, class-at and storage of the state after the denoted block (`stateAfter`: the fold of
the state diffs); BLOCK_NOT_FOUND when the identifier denotes nothing — except the two known
deviations, which are excluded by name: a block NUMBER above the height in
getTransactionByBlockIdAndIndex (`hnum`) and {block_hash: 0x0} in the state methods (`hz`); and
v8's `pending` (see `v8_pending_answers`, `v8_pending_state_is_head_state`). The block methods
are `serve_block_methods_reachable`; together with `each_package_refines_the_summary` that theorem
speaks about `serveV` too. -/
theorem serve_index_and_state_methods_reachable (cfg : Cfg) (be : Backend) (ver : Ver) (ops : List Op)
    (fr : FreshFrom {} ops) (raw : RawId) (id : BlockId) (hn : raw ≠ .null) (h : decodeId cfg ver raw = .ok id)
    (hp : ¬ (ver = .v8 ∧ id = .pre)) (i a k c : Nat) :
    let nd := run ops
    (serveV cfg be ver nd (.transactionByBlockIdAndIndex raw (Int.ofNat i)) =
      match resolvedBlock nd id with
      | some b => (match b.txs[i]? with | some t => .tx t | none => .err .invalidTxIndex)
      | none => if id.isNumber then .err .invalidTxIndex else .err .blockNotFound) ∧
    (id ≠ .hash 0 →
      match resolve nd id with
      | none =>
        serveV cfg be ver nd (.nonce raw a) = .err .blockNotFound ∧
        serveV cfg be ver nd (.classHashAt raw a) = .err .blockNotFound ∧
        serveV cfg be ver nd (.classByHash raw c) = .err .blockNotFound ∧
        serveV cfg be ver nd (.classAt raw a) = .err .blockNotFound ∧
        serveV cfg be ver nd (.storageAt a k raw) = .err .blockNotFound
      | some n =>
        let S := stateAfter (stateBlocks nd n)
        serveV cfg be ver nd (.nonce raw a) =
          (if isSystemContract a then .err .contractNotFound
           else if S.contract a then .num (S.nonce a) else .err .contractNotFound) ∧
        serveV cfg be ver nd (.classHashAt raw a) =
          (if isSystemContract a then .err .contractNotFound
           else if S.contract a then .num (S.classHash a) else .err .contractNotFound) ∧
        serveV cfg be ver nd (.classByHash raw c) = (if S.declared c then .num c else .err .classHashNotFound) ∧
        serveV cfg be ver nd (.classAt raw a) =
          (if isSystemContract a then .err .contractNotFound
           else if S.contract a then
             (if S.declared (S.classHash a) then .num (S.classHash a) else .err .contractNotFound)
           else .err .contractNotFound) ∧
        serveV cfg be ver nd (.storageAt a k raw) =
          (if S.contract a then .num (S.storage a k) else .err .contractNotFound)) := by
  intro nd
  obtain ⟨hv, _, _, _, _, _, e6, e7, e8, e9, e10, e11⟩ := serve_dispatch cfg be ver nd raw id hn h [] i a k c
  have ok := (run_inv ops fr).1
  have wf := run_wellFormed ops
  have hpend : isV8Pending ver id = false := (isV8Pending_false_iff ver id).mpr hp
  refine ⟨?_, fun hz => ?_⟩
  · rw [serveV_eq_serve, e6]
    exact txByIdx_exact ver nd id i ok wf hv hpend
  · have sm := state_methods_partial be ver nd id a c ok hv hp hz
    have st := storage_reachable be ver ops fr id a k hv hp hz
    simp only at st
    simp only [serveV_eq_serve, e7, e8, e9, e10, e11]
    cases hr : resolve nd id with
    | none =>
      rw [hr] at sm
      have st' : storageAt be ver nd id a k = .err .blockNotFound := by
        have := st; rw [show resolve (run ops) id = none from hr] at this; exact this
      exact ⟨sm.1, sm.2.1, sm.2.2.1, sm.2.2.2, st'⟩
    | some n =>
      rw [hr] at sm
      have st' := st
      rw [show resolve (run ops) id = some n from hr] at st'
      exact ⟨sm.1, sm.2.1, sm.2.2.1, sm.2.2.2, st'⟩

/-- By hash, through the per-package transcriptions, on every reachable node: found with the
right block, number, finality and execution result iff on the chain (`by_hash_complete`),
TXN_HASH_NOT_FOUND otherwise — in all three packages. -/
theorem serve_by_hash_reachable (cfg : Cfg) (be : Backend) (ver : Ver) (ops : List Op) (fr : FreshFrom {} ops) (h : Nat) :
    let nd := run ops
    ((∀ b ∈ nd.chain, ∀ t ∈ b.txs, t.hash ≠ h) →
      serveV cfg be ver nd (.transactionByHash h) = .err .txnHashNotFound ∧
      serveV cfg be ver nd (.transactionReceipt h) = .err .txnHashNotFound ∧
      serveV cfg be ver nd (.transactionStatus h) = .err .txnHashNotFound) ∧
    (∀ (n i : Nat) (b : Block) (t : Tx), nd.chain[n]? = some b → b.txs[i]? = some t → t.hash = h →
      serveV cfg be ver nd (.transactionByHash h) = .tx t ∧
      serveV cfg be ver nd (.transactionReceipt h) = .receipt t (finality n (statusL1 nd)) n b.hash ∧
      serveV cfg be ver nd (.transactionStatus h) = .status (finality n (statusL1 nd)) t.reverted) := by
  intro nd
  have ok := (run_inv ops fr).1
  have wf := run_wellFormed ops
  simp only [serveV_eq_serve, serve]
  refine ⟨fun hn => ?_, fun n i b t hb ht hh => ?_⟩
  · exact ⟨(transactionByHash_notFound_iff ok wf).mpr hn, (transactionReceipt_notFound_iff ok wf).mpr hn,
      (transactionStatus_notFound_iff ok wf).mpr hn⟩
  · subst hh
    exact by_hash_complete ops fr n i b t hb ht

/-- `revert_forgets_the_block` lifted from one step to histories: after ANY fresh history that ends
in a RevertHead, the block that was the head and every transaction of it are unknown to every
by-hash read method of all three packages, and the buckets agree with the shorter chain. -/
theorem reverted_block_is_forgotten_reachable (cfg : Cfg) (be : Backend) (ver : Ver) (ops : List Op) (fr : FreshFrom {} ops)
    (bs : List Block) (b : Block) (t : Tx) (hc : (run ops).chain = bs ++ [b]) (ht : t ∈ b.txs) :
    let nd' := run (ops ++ [.revert])
    nd'.chain = bs ∧ BucketsOk nd' ∧
      serveV cfg be ver nd' (.blockWithTxHashes (.obj (some b.hash) none)) = .err .blockNotFound ∧
      serveV cfg be ver nd' (.transactionByHash t.hash) = .err .txnHashNotFound ∧
      serveV cfg be ver nd' (.transactionReceipt t.hash) = .err .txnHashNotFound ∧
      serveV cfg be ver nd' (.transactionStatus t.hash) = .err .txnHashNotFound := by
  intro nd'
  have hne : (run ops).chain ≠ [] := by rw [hc]; simp
  obtain ⟨nd1, hr⟩ := Option.isSome_iff_exists.mp ((revert_isSome_iff (run ops)).mpr hne)
  have hrun : nd' = nd1 := by
    show run (ops ++ [.revert]) = nd1
    simp only [run, List.foldl_append, List.foldl_cons, List.foldl_nil, applyOp]
    have hr' : revert (List.foldl applyOp {} ops) = some nd1 := hr
    rw [hr']; rfl
  obtain ⟨h1, h2, _, _, h5, h6, h7, h8⟩ :=
    revert_forgets_the_block ver (run ops) nd1 bs b t (run_inv ops fr) (run_wellFormed ops) hc hr ht
  rw [hrun]
  refine ⟨h1, h2.1, ?_, ?_, ?_, ?_⟩
  · rw [serveV_eq_serve]
    have hd : decodeId cfg ver (.obj (some b.hash) none) = .ok (.hash b.hash) := by cases ver <;> rfl
    rw [(serve_dispatch cfg be ver nd1 _ _ (by simp) hd [] 0 0 0 0).2.1]
    exact h5
  · rw [serveV_eq_serve]; exact h6
  · rw [serveV_eq_serve]; exact h7
  · rw [serveV_eq_serve]; exact h8

/-! ## Non-vacuity -/

example : V8.blockWithTxHashes (run exampleOps) (.hash 0xa1) = V10.blockWithTxHashes (run exampleOps) (.hash 0xa1) ∧
    V8.blockWithTxHashes (run exampleOps) .pre = .pendingBlock 0xa1 ∧
    V10.blockWithTxHashes (run exampleOps) .pre = .err .blockNotFound ∧
    V8.blockTransactionCount (run exampleOps) (.number 0) = .num 2 ∧
    V9.blockTransactionCount (run exampleOps) (.number 0) = .num 2 := by decide
example : V8.transactionStatus { feeder := .says .candidate .none } (run exampleOps) 0xf3 =
      V9.transactionStatus { feeder := .says .candidate .none } (run exampleOps) 0xf3 ∧
    V8.transactionStatus { feeder := .says .candidate .none } (run exampleOps) 0xdead ≠
      V9.transactionStatus { feeder := .says .candidate .none } (run exampleOps) 0xdead := by decide
example : (run (exampleOps ++ [.revert])).chain.length = 1 ∧
    serveV {} .new .v8 (run (exampleOps ++ [.revert])) (.transactionStatus 0xf3) = .err .txnHashNotFound := by decide
example : V9.storageAt .new (run exampleOps) (.hash 0) 0x999 7 ≠ V10.storageAt .new (run exampleOps) (.hash 0) 0x999 7 false := by decide

end Juno.C08.Props
