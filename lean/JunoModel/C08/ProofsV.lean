import JunoModel.C08.ModelV
import JunoModel.C08.Proofs
/-!
C08 — the three per-package transcriptions of `ModelV.lean` agree with the `Ver`-parameterised
summary of `Model.lean` (helper lemmas; the statements that matter are collected in `PropsV.lean`).
No hypothesis on the node is needed: the agreement is function by function, for every node.
-/
namespace Juno.C08

/-- Close a goal whose two sides are the same case analysis written with different (auxiliary)
matchers: split every `match` / `if` and finish each branch. -/
macro "mrfl" : tactic =>
  `(tactic| first | rfl | ((repeat' split) <;> first | rfl | simp_all))

macro "msimp" : tactic =>
  `(tactic| first | mrfl | ((try simp) <;> mrfl))

theorem blockStatus_eq (nd : Node) (n : Nat) :
    V8.blockStatus nd n = finality n (statusL1 nd) ∧ V9.blockStatus nd n = finality n (statusL1 nd) ∧
      V10.blockStatus nd n = finality n (statusL1 nd) := by
  simp only [V8.blockStatus, V9.blockStatus, V10.blockStatus, finality, isL1Verified]
  cases statusL1 nd with
  | none => simp
  | some l => by_cases h : n ≤ l <;> simp [h]

theorem header_eq (nd : Node) (b : Block) :
    V8.header nd b = hdrOf nd b ∧ V9.header nd b = hdrOf nd b ∧ V10.header nd b = hdrOf nd b := by
  simp [V8.header, V9.header, V10.header, hdrOf, blockStatus_eq]

theorem l1Accepted_eq (nd : Node) :
    V9.l1AcceptedBlockNumber nd = l1AcceptedNumber nd ∧ V10.l1AcceptedBlockNumber nd = l1AcceptedNumber nd := by
  simp only [V9.l1AcceptedBlockNumber, V10.l1AcceptedBlockNumber, l1AcceptedNumber]
  cases nd.l1 <;> cases height nd <;> simp

theorem unmarshal_eq (cfg : Cfg) (ver : Ver) (raw : RawId) : unmarshalBlockIDV cfg ver raw = decodeId cfg ver raw := by
  cases ver <;> cases raw with
  | null => rfl
  | tag s =>
    simp only [unmarshalBlockIDV, V8.unmarshalBlockID, V9.unmarshalBlockID, V10.unmarshalBlockID, decodeId]
  | obj h n => cases h <;> cases n <;> rfl
  | objNullNumber => rfl
  | other => rfl

theorem withIdV_eq (cfg : Cfg) (ver : Ver) (p : Bool) (raw : RawId) (k : BlockId → Ans) :
    withIdV cfg ver p raw k = withId cfg ver p raw k := by
  cases raw <;> simp only [withIdV, withId, unmarshal_eq] <;> mrfl

/-- Congruence for `withId`: the continuation only matters on ids the version's decoder can
produce (v8 never produces `l1_accepted`). -/
theorem withId_congr (cfg : Cfg) (ver : Ver) (p : Bool) (raw : RawId) (k k' : BlockId → Ans)
    (h : ∀ id, decodeId cfg ver raw = .ok id → k id = k' id) :
    withId cfg ver p raw k = withId cfg ver p raw k' := by
  cases raw with
  | null => rfl
  | tag s =>
    simp only [withId]
    cases hd : decodeId cfg ver (.tag s) with
    | error e => rfl
    | ok id => exact h id hd
  | obj a b =>
    simp only [withId]
    cases hd : decodeId cfg ver (.obj a b) with
    | error e => rfl
    | ok id => exact h id hd
  | objNullNumber =>
    simp only [withId]
    cases hd : decodeId cfg ver .objNullNumber with
    | error e => rfl
    | ok id => exact h id hd
  | other =>
    simp only [withId]
    cases hd : decodeId cfg ver .other with
    | error e => rfl
    | ok id => exact h id hd

/-! ### v9 / v10 -/

theorem v10_blockByID_eq (nd : Node) (id : BlockId) :
    V10.blockByID nd id = blockById .v10 nd id ∧ V10.blockHeaderByID nd id = blockById .v10 nd id ∧
    V9.blockByID nd id = blockById .v9 nd id ∧ V9.blockHeaderByID nd id = blockById .v9 nd id := by
  cases id <;>
    simp only [V10.blockByID, V10.blockHeaderByID, V9.blockByID, V9.blockHeaderByID, blockById, l1Accepted_eq] <;>
    (try cases l1AcceptedNumber nd) <;> (refine ⟨?_, ?_, ?_, ?_⟩ <;> mrfl)

theorem stateByBlockID_eq (be : Backend) (nd : Node) (id : BlockId) :
    V10.stateByBlockID be nd id = stateById be .v10 nd id ∧ V9.stateByBlockID be nd id = stateById be .v9 nd id ∧
    V8.stateByBlockID be nd id = stateById be .v8 nd id := by
  cases id <;>
    simp only [V10.stateByBlockID, V9.stateByBlockID, V8.stateByBlockID, stateById, headState, stateAtBlockHash,
      stateAtBlockNumber, l1Accepted_eq] <;> (refine ⟨?_, ?_, ?_⟩ <;> mrfl)

theorem v910_blockWithTxHashes_eq (nd : Node) (id : BlockId) :
    V10.blockWithTxHashes nd id = blockWithTxHashes .v10 nd id ∧ V9.blockWithTxHashes nd id = blockWithTxHashes .v9 nd id := by
  have h10 : isV8Pending .v10 id = false := by cases id <;> rfl
  have h9 : isV8Pending .v9 id = false := by cases id <;> rfl
  simp only [V10.blockWithTxHashes, V9.blockWithTxHashes, blockWithTxHashes, h10, h9, blockWithTxHashesStored,
    v10_blockByID_eq, header_eq]
  cases id <;> simp only [blockById, beq_self_eq_true, if_true] <;> (refine ⟨?_, ?_⟩ <;> mrfl)

theorem v910_blockWithTxs_eq (nd : Node) (id : BlockId) :
    V10.blockWithTxs nd id = blockWithTxs .v10 nd id ∧ V9.blockWithTxs nd id = blockWithTxs .v9 nd id := by
  have h10 : isV8Pending .v10 id = false := by cases id <;> rfl
  have h9 : isV8Pending .v9 id = false := by cases id <;> rfl
  simp only [V10.blockWithTxs, V9.blockWithTxs, blockWithTxs, h10, h9, blockWithTxsStored, v10_blockByID_eq, header_eq]
  cases id <;> simp only [blockById, beq_self_eq_true, if_true] <;> (refine ⟨?_, ?_⟩ <;> mrfl)

theorem v910_blockWithReceipts_eq (nd : Node) (id : BlockId) :
    V10.blockWithReceipts nd id = blockWithReceipts .v10 nd id ∧ V9.blockWithReceipts nd id = blockWithReceipts .v9 nd id := by
  have h10 : isV8Pending .v10 id = false := by cases id <;> rfl
  have h9 : isV8Pending .v9 id = false := by cases id <;> rfl
  simp only [V10.blockWithReceipts, V9.blockWithReceipts, blockWithReceipts, h10, h9, blockWithReceiptsStored,
    v10_blockByID_eq, header_eq, blockStatus_eq]
  constructor <;> mrfl

theorem v910_blockTransactionCount_eq (nd : Node) (id : BlockId) :
    V10.blockTransactionCount nd id = blockTransactionCount .v10 nd id ∧
    V9.blockTransactionCount nd id = blockTransactionCount .v9 nd id := by
  have h10 : isV8Pending .v10 id = false := by cases id <;> rfl
  have h9 : isV8Pending .v9 id = false := by cases id <;> rfl
  simp only [V10.blockTransactionCount, V9.blockTransactionCount, blockTransactionCount, h10, h9,
    blockTransactionCountStored, l1Accepted_eq]
  cases id with
  | number n => simp only [Bool.false_eq_true, if_false]; cases txCountByNumber nd n <;> (first | (simp; done) | msimp)
  | hash x =>
    simp only [Bool.false_eq_true, if_false]
    cases numberByHash nd x with
    | none => first | (simp; done) | msimp
    | some n => simp only; cases txCountByNumber nd n <;> (first | (simp; done) | msimp)
  | latest =>
    simp only [Bool.false_eq_true, if_false]
    cases height nd with
    | none => first | (simp; done) | msimp
    | some n => simp only; cases txCountByNumber nd n <;> (first | (simp; done) | msimp)
  | l1Accepted =>
    simp only [Bool.false_eq_true, if_false]
    cases l1AcceptedNumber nd with
    | none => first | (simp; done) | msimp
    | some n => simp only; cases txCountByNumber nd n <;> (first | (simp; done) | msimp)
  | pre => first | (simp; done) | msimp

theorem v910_txByIdx_eq (nd : Node) (id : BlockId) (i : Int) :
    V10.transactionByBlockIDAndIndex nd id i =
      (if i < 0 then .err .invalidTxIndex else transactionByBlockIdAndIndex .v10 nd id i.toNat) ∧
    V9.transactionByBlockIDAndIndex nd id i =
      (if i < 0 then .err .invalidTxIndex else transactionByBlockIdAndIndex .v9 nd id i.toNat) := by
  have h10 : isV8Pending .v10 id = false := by cases id <;> rfl
  have h9 : isV8Pending .v9 id = false := by cases id <;> rfl
  simp only [V10.transactionByBlockIDAndIndex, V9.transactionByBlockIDAndIndex, transactionByBlockIdAndIndex, h10, h9,
    transactionByBlockIdAndIndexStored, l1Accepted_eq]
  by_cases hi : i < 0
  · first | (simp [hi]; done) | msimp
  · simp only [hi, if_false, Bool.false_eq_true]
    cases id with
    | number n => first | (simp; done) | msimp
    | hash x => cases numberByHash nd x <;> (first | (simp; done) | msimp)
    | latest => cases headBlock nd <;> (first | (simp; done) | msimp)
    | l1Accepted => cases l1AcceptedNumber nd <;> (first | (simp; done) | msimp)
    | pre => first | (simp; done) | msimp

theorem v910_byHash_eq (nd : Node) (h : Nat) :
    V10.transactionByHash nd h = transactionByHash nd h ∧ V9.transactionByHash nd h = transactionByHash nd h ∧
    V10.transactionReceiptByHash nd h = transactionReceipt nd h ∧ V9.transactionReceiptByHash nd h = transactionReceipt nd h ∧
    V10.transactionStatusFromStore nd h = Juno.C08.transactionStatus nd h ∧
    V9.transactionStatusFromStore nd h = Juno.C08.transactionStatus nd h := by
  simp only [V10.transactionByHash, V9.transactionByHash, transactionByHash, V10.transactionReceiptByHash,
    V9.transactionReceiptByHash, transactionReceipt, V10.transactionStatusFromStore, V9.transactionStatusFromStore,
    Juno.C08.transactionStatus, blockStatus_eq]
  refine ⟨?_, ?_, ?_, ?_, ?_, ?_⟩ <;> mrfl

theorem filterDiff_v10 (filter : List Nat) (d : Diff) :
    ({ d with deployed := d.deployed.filter (fun e => filter.isEmpty || filter.contains e.1),
              replaced := d.replaced.filter (fun e => filter.isEmpty || filter.contains e.1),
              nonces := d.nonces.filter (fun e => filter.isEmpty || filter.contains e.1),
              storage := d.storage.filter (fun e => filter.isEmpty || filter.contains e.1) } : Diff) =
      filterDiff .v10 filter d := by
  simp only [filterDiff]
  by_cases h : filter.isEmpty = true
  · have : filter = [] := by simpa using h
    subst this
    cases d
    simp
  · simp [h]

theorem v910_stateUpdate_eq (nd : Node) (id : BlockId) (f : List Nat) :
    V10.stateUpdate nd id f = stateUpdate .v10 nd id f ∧ V9.stateUpdate nd id = stateUpdate .v9 nd id f := by
  have h10 : isV8Pending .v10 id = false := by cases id <;> rfl
  have h9 : isV8Pending .v9 id = false := by cases id <;> rfl
  have f9 : ∀ d, filterDiff .v9 f d = d := fun _ => rfl
  simp only [V10.stateUpdate, V9.stateUpdate, stateUpdate, h10, h9, stateUpdateStored, l1Accepted_eq,
    stateUpdateByNumber, stateUpdateByHash, filterDiff_v10, f9, Bool.false_eq_true, if_false]
  cases id with
  | number n => dsimp only; cases blockByNumber nd n <;> exact ⟨rfl, rfl⟩
  | hash x => dsimp only; cases blockByHash nd x <;> exact ⟨rfl, rfl⟩
  | latest =>
    dsimp only
    cases hh : height nd with
    | none => exact ⟨rfl, rfl⟩
    | some n => simp only [Option.bind_some]; cases blockByNumber nd n <;> exact ⟨rfl, rfl⟩
  | l1Accepted =>
    dsimp only
    cases hh : l1AcceptedNumber nd with
    | none => exact ⟨rfl, rfl⟩
    | some n => simp only [Option.bind_some]; cases blockByNumber nd n <;> exact ⟨rfl, rfl⟩
  | pre => exact ⟨rfl, rfl⟩

theorem v10_storageAt_eq (be : Backend) (nd : Node) (id : BlockId) (a k : Nat) :
    V10.storageAt be nd id a k false = storageAt be .v10 nd id a k ∧
    V10.storageAt be nd id a k true = storageAtWithLastUpdate be nd id a k := by
  simp only [V10.storageAt, storageAtWithLastUpdate, storageAt, stateByBlockID_eq]
  cases hs : stateById be .v10 nd id with
  | error e => first | (simp; done) | msimp
  | ok st =>
    simp only
    cases hk : st.kind with
    | history =>
      by_cases hv : storageIn st.blocks a k = 0
      · have hl : id ≠ .latest := by
          intro he
          subst he
          simp only [stateById] at hs
          split at hs
          · cases hs
          · cases hs; cases hk
        by_cases hd : deployedIn st.blocks a = true <;> (first | (simp [hv, hd, hl]; done) | msimp)
      · have hl : id ≠ .latest := by
          intro he
          subst he
          simp only [stateById] at hs
          split at hs
          · cases hs
          · cases hs; cases hk
        simp [hv, hl]
    | head =>
      by_cases hv : storageIn st.blocks a k = 0
      · by_cases hl : id = .latest
        · by_cases hd : deployedIn st.blocks a = true <;> (first | (simp [hv, hd, hl]; done) | msimp)
        · first | (simp [hv, hl]; done) | msimp
      · first | (simp [hv]; done) | msimp

theorem v9_storageAt_eq (be : Backend) (nd : Node) (id : BlockId) (a k : Nat) :
    V9.storageAt be nd id a k = storageAt be .v9 nd id a k ∧ V8.storageAt be nd id a k = storageAt be .v8 nd id a k := by
  simp only [V9.storageAt, V8.storageAt, storageAt, stateByBlockID_eq]
  constructor
  · cases stateById be .v9 nd id <;> rfl
  · cases stateById be .v8 nd id <;> rfl

theorem stateMethods_eq (be : Backend) (nd : Node) (id : BlockId) (a c : Nat) :
    (V10.nonce be nd id a = nonce be .v10 nd id a ∧ V9.nonce be nd id a = nonce be .v9 nd id a ∧ V8.nonce be nd id a = nonce be .v8 nd id a) ∧
    (V10.classHashAt be nd id a = classHashAt be .v10 nd id a ∧ V9.classHashAt be nd id a = classHashAt be .v9 nd id a ∧
      V8.classHashAt be nd id a = classHashAt be .v8 nd id a) ∧
    (V10.classByHash be nd id c = classByHash be .v10 nd id c ∧ V9.classByHash be nd id c = classByHash be .v9 nd id c ∧
      V8.classByHash be nd id c = classByHash be .v8 nd id c) := by
  simp only [V10.nonce, V9.nonce, V8.nonce, nonce, V10.classHashAt, V9.classHashAt, V8.classHashAt, classHashAt,
    V10.classByHash, V9.classByHash, V8.classByHash, classByHash, stateByBlockID_eq, readNonce, readClassHash, readClass]
  refine ⟨⟨?_, ?_, ?_⟩, ⟨?_, ?_, ?_⟩, ⟨?_, ?_, ?_⟩⟩ <;> mrfl

theorem classAt_eq (be : Backend) (nd : Node) (id : BlockId) (a : Nat) :
    V10.classAt be nd id a = classAt be .v10 nd id a ∧ V9.classAt be nd id a = classAt be .v9 nd id a ∧
      V8.classAt be nd id a = classAt be .v8 nd id a := by
  have hc : ∀ c, (V10.classByHash be nd id c = classByHash be .v10 nd id c ∧ V9.classByHash be nd id c = classByHash be .v9 nd id c ∧
      V8.classByHash be nd id c = classByHash be .v8 nd id c) := fun c => (stateMethods_eq be nd id a c).2.2
  have hh := (stateMethods_eq be nd id a 0).2.1
  have f10 : V10.classByHash be nd id = classByHash be .v10 nd id := funext fun c => (hc c).1
  have f9 : V9.classByHash be nd id = classByHash be .v9 nd id := funext fun c => (hc c).2.1
  have f8 : V8.classByHash be nd id = classByHash be .v8 nd id := funext fun c => (hc c).2.2
  simp only [V10.classAt, V9.classAt, V8.classAt, classAt, classAtOf, hh.1, hh.2.1, hh.2.2, f10, f9, f8]
  refine ⟨?_, ?_, ?_⟩ <;> (split <;> first | rfl | (split <;> simp_all))

/-! ### v8 -/

theorem v8_pending_eq (nd : Node) :
    V8.pending nd =
      match headBlock nd with
      | none => none
      | some h => (pendingOf nd).map (fun p => V8.Hd.pending p (h.number + 1)) := by
  simp only [V8.pending, pendingOf]
  cases headBlock nd with
  | none => rfl
  | some h =>
    simp only
    split
    · rfl
    · cases blockByNumber nd (h.number + 1 - blockHashLag) <;> rfl

theorem pendingOf_none_iff (nd : Node) : pendingOf nd = none → V8.pending nd = none := by
  intro h
  rw [v8_pending_eq]
  cases headBlock nd <;> (first | (simp [h]; done) | msimp)

theorem v8_pending_some (nd : Node) (p : Pending) (h : pendingOf nd = some p) :
    ∃ n, V8.pending nd = some (.pending p n) := by
  rw [v8_pending_eq]
  cases hh : headBlock nd with
  | none => simp [pendingOf, hh] at h
  | some b => exact ⟨b.number + 1, by simp [h]⟩

theorem v8_blockHeaderByID_stored (nd : Node) (id : BlockId) (hp : id ≠ .pre) :
    V8.blockHeaderByID nd id = (blockById .v8 nd id).map V8.Hd.stored ∧
    V8.blockByID nd id = (blockById .v8 nd id).map V8.Hd.stored := by
  cases id with
  | pre => exact absurd rfl hp
  | number n => simp only [V8.blockHeaderByID, V8.blockByID, blockById]; cases blockByNumber nd n <;> exact ⟨rfl, rfl⟩
  | hash x => simp only [V8.blockHeaderByID, V8.blockByID, blockById]; cases blockByHash nd x <;> exact ⟨rfl, rfl⟩
  | latest => simp only [V8.blockHeaderByID, V8.blockByID, blockById]; cases headBlock nd <;> exact ⟨rfl, rfl⟩
  | l1Accepted => exact ⟨rfl, rfl⟩

theorem v8_blockMethods_eq (nd : Node) (id : BlockId) :
    V8.blockWithTxHashes nd id = blockWithTxHashes .v8 nd id ∧ V8.blockWithTxs nd id = blockWithTxs .v8 nd id ∧
    V8.blockWithReceipts nd id = blockWithReceipts .v8 nd id ∧ V8.blockTransactionCount nd id = blockTransactionCount .v8 nd id := by
  by_cases hp : id = .pre
  · subst hp
    have hv : isV8Pending .v8 .pre = true := rfl
    simp only [V8.blockWithTxHashes, V8.blockWithTxs, V8.blockWithReceipts, V8.blockTransactionCount, blockWithTxHashes,
      blockWithTxs, blockWithReceipts, blockTransactionCount, hv, V8.blockHeaderByID, V8.blockByID, V8.blockTxnsByNumber,
      if_true, beq_self_eq_true]
    cases hq : pendingOf nd with
    | none => first | (simp [pendingOf_none_iff nd hq]; done) | msimp
    | some p =>
      obtain ⟨n, hn⟩ := v8_pending_some nd p hq
      simp [hn]
  · have hv : isV8Pending .v8 id = false := by cases id <;> first | rfl | exact absurd rfl hp
    have hb : (id == BlockId.pre) = false := by cases id <;> first | rfl | exact absurd rfl hp
    simp only [V8.blockWithTxHashes, V8.blockWithTxs, V8.blockWithReceipts, V8.blockTransactionCount, blockWithTxHashes,
      blockWithTxs, blockWithReceipts, blockTransactionCount, hv, v8_blockHeaderByID_stored nd id hp, hb,
      blockWithTxHashesStored, blockWithTxsStored, blockWithReceiptsStored, blockTransactionCountStored,
      Bool.false_eq_true, if_false]
    cases blockById .v8 nd id with
    | error e => first | (simp [Except.map]; done) | msimp
    | ok b =>
      simp only [Except.map, V8.Hd.number, V8.blockTxnsByNumber, txsByNumber, txHashesByNumber, header_eq, blockStatus_eq]
      cases blockByNumber nd b.number <;> (first | (simp; done) | msimp)

theorem v8_txByIdx_eq (nd : Node) (id : BlockId) (i : Int) :
    V8.transactionByBlockIDAndIndex nd id i =
      (if i < 0 then .err .invalidTxIndex else transactionByBlockIdAndIndex .v8 nd id i.toNat) := by
  simp only [V8.transactionByBlockIDAndIndex, transactionByBlockIdAndIndex, transactionByBlockIdAndIndexStored]
  by_cases hi : i < 0
  · simp [hi]
  · simp only [hi, if_false]
    cases id with
    | number n =>
      have hv : isV8Pending .v8 (.number n) = false := rfl
      simp only [hv, Bool.false_eq_true, if_false]
      mrfl
    | hash x =>
      have hv : isV8Pending .v8 (.hash x) = false := rfl
      simp only [hv, Bool.false_eq_true, if_false]
      cases numberByHash nd x <;> mrfl
    | latest =>
      have hv : isV8Pending .v8 .latest = false := rfl
      simp only [hv, Bool.false_eq_true, if_false]
      cases headBlock nd <;> mrfl
    | l1Accepted =>
      have hv : isV8Pending .v8 .l1Accepted = false := rfl
      simp only [hv, Bool.false_eq_true, if_false]
    | pre =>
      have hv : isV8Pending .v8 .pre = true := rfl
      simp only [hv, if_true]
      cases hq : pendingOf nd with
      | none => simp [pendingOf_none_iff nd hq]
      | some p =>
        obtain ⟨n, hn⟩ := v8_pending_some nd p hq
        simp [hn]

theorem v8_stateUpdate_eq (nd : Node) (id : BlockId) (f : List Nat) :
    V8.stateUpdate nd id = stateUpdate .v8 nd id f := by
  have f8 : ∀ d, filterDiff .v8 f d = d := fun _ => rfl
  simp only [V8.stateUpdate, stateUpdate, stateUpdateStored, stateUpdateByNumber, stateUpdateByHash, f8]
  cases id with
  | number n =>
    have hv : isV8Pending .v8 (.number n) = false := rfl
    simp only [hv, Bool.false_eq_true, if_false]
    cases blockByNumber nd n <;> rfl
  | hash x =>
    have hv : isV8Pending .v8 (.hash x) = false := rfl
    simp only [hv, Bool.false_eq_true, if_false]
    cases blockByHash nd x <;> rfl
  | latest =>
    have hv : isV8Pending .v8 .latest = false := rfl
    simp only [hv, Bool.false_eq_true, if_false]
    cases hh : height nd with
    | none => rfl
    | some n => simp only [Option.bind_some]; cases blockByNumber nd n <;> rfl
  | l1Accepted =>
    have hv : isV8Pending .v8 .l1Accepted = false := rfl
    simp only [hv, Bool.false_eq_true, if_false]
  | pre =>
    have hv : isV8Pending .v8 .pre = true := rfl
    simp only [hv, if_true]
    cases hq : pendingOf nd with
    | none => simp [pendingOf_none_iff nd hq]
    | some p =>
      obtain ⟨n, hn⟩ := v8_pending_some nd p hq
      simp [hn]

theorem v8_byHash_eq (nd : Node) (h : Nat) :
    V8.transactionByHash nd h = transactionByHash nd h ∧ V8.transactionReceiptByHash nd h = transactionReceipt nd h := by
  simp only [V8.transactionByHash, transactionByHash, V8.transactionReceiptByHash, transactionReceipt, blockStatus_eq]
  exact ⟨by mrfl, by mrfl⟩

theorem status_shape (nd : Node) (h : Nat) :
    Juno.C08.transactionStatus nd h = .err .txnHashNotFound ∨ ∃ f r, Juno.C08.transactionStatus nd h = .status f r := by
  unfold Juno.C08.transactionStatus
  cases numberAndIndexByTxHash nd h with
  | none => exact .inl rfl
  | some p =>
    obtain ⟨n, i⟩ := p
    simp only
    cases txByNumberAndIndex nd n i with
    | none => exact .inl rfl
    | some t => exact .inr ⟨_, _, rfl⟩

/-- v8 derives the status from the receipt; v9 / v10 read the execution status by number and
index: the same answer, for every node. -/
theorem v8_status_eq (env : Env) (nd : Node) (h : Nat) :
    V8.transactionStatus env nd h = transactionStatusEnv .v8 env nd h := by
  simp only [V8.transactionStatus, transactionStatusEnv, (v8_byHash_eq nd h).2, transactionReceipt,
    Juno.C08.transactionStatus, txAndBlockHash, txByNumberAndIndex, adaptStatus]
  cases numberAndIndexByTxHash nd h with
  | none => rfl
  | some p =>
    obtain ⟨n, i⟩ := p
    simp only
    cases blockByNumber nd n with
    | none => rfl
    | some b =>
      simp only [Option.bind_some]
      cases b.txs[i]? <;> rfl

theorem v910_status_eq (env : Env) (nd : Node) (h : Nat) :
    V9.transactionStatus env nd h = transactionStatusEnv .v9 env nd h ∧
    V10.transactionStatus env nd h = transactionStatusEnv .v10 env nd h := by
  simp only [V9.transactionStatus, V10.transactionStatus, transactionStatusEnv, v910_byHash_eq, adaptStatus]
  rcases status_shape nd h with hl | ⟨f, r, hl⟩
  · simp only [hl]
    cases env.feeder with
    | absent => (first | exact ⟨rfl, rfl⟩ | simp)
    | fails => (first | exact ⟨rfl, rfl⟩ | simp)
    | says fin exec =>
      dsimp only
      cases adaptStatusV9 (if (fin == FFin.notReceived && env.submitted) = true then FFin.received else fin) exec with
      | none => (first | exact ⟨rfl, rfl⟩ | simp)
      | some p => (first | exact ⟨rfl, rfl⟩ | simp)
  · simp only [hl]
    (first | exact ⟨rfl, rfl⟩ | simp)

/-! ### The whole read path -/

theorem serveV_eq_serve (cfg : Cfg) (be : Backend) (ver : Ver) (nd : Node) (r : Request) :
    serveV cfg be ver nd r = serve cfg be ver nd r := by
  cases r with
  | blockNumber => rfl
  | blockHashAndNumber => rfl
  | transactionByHash h => cases ver <;> (first | (simp [serveV, serve, v910_byHash_eq, v8_byHash_eq]; done) | msimp)
  | transactionReceipt h => cases ver <;> (first | (simp [serveV, serve, v910_byHash_eq, v8_byHash_eq]; done) | msimp)
  | transactionStatus h =>
    cases ver
    · simp only [serveV, serve, v8_status_eq, transactionStatusEnv]
      rcases status_shape nd h with hl | ⟨f, r, hl⟩ <;> (first | (simp [hl]; done) | msimp)
    · first | (simp [serveV, serve, v910_byHash_eq]; done) | msimp
    · first | (simp [serveV, serve, v910_byHash_eq]; done) | msimp
  | blockWithTxHashes raw =>
    simp only [serveV, serve, withIdV_eq, handleV]
    cases ver <;> simp only [funext (fun id => (v8_blockMethods_eq nd id).1), funext (fun id => (v910_blockWithTxHashes_eq nd id).1),
      funext (fun id => (v910_blockWithTxHashes_eq nd id).2)]
  | blockWithTxs raw =>
    simp only [serveV, serve, withIdV_eq, handleV]
    cases ver <;> simp only [funext (fun id => (v8_blockMethods_eq nd id).2.1), funext (fun id => (v910_blockWithTxs_eq nd id).1),
      funext (fun id => (v910_blockWithTxs_eq nd id).2)]
  | blockWithReceipts raw =>
    simp only [serveV, serve, withIdV_eq, handleV]
    cases ver <;> simp only [funext (fun id => (v8_blockMethods_eq nd id).2.2.1), funext (fun id => (v910_blockWithReceipts_eq nd id).1),
      funext (fun id => (v910_blockWithReceipts_eq nd id).2)]
  | blockTransactionCount raw =>
    simp only [serveV, serve, withIdV_eq, handleV]
    cases ver <;> simp only [funext (fun id => (v8_blockMethods_eq nd id).2.2.2), funext (fun id => (v910_blockTransactionCount_eq nd id).1),
      funext (fun id => (v910_blockTransactionCount_eq nd id).2)]
  | stateUpdate raw f =>
    simp only [serveV, serve, withIdV_eq, handleV]
    cases ver <;> simp only [funext (fun id => v8_stateUpdate_eq nd id f), funext (fun id => (v910_stateUpdate_eq nd id f).1),
      funext (fun id => (v910_stateUpdate_eq nd id f).2)]
  | transactionByBlockIdAndIndex raw i =>
    simp only [serveV, serve, withIdV_eq, handleV]
    cases ver <;> simp only [funext (fun id => v8_txByIdx_eq nd id i), funext (fun id => (v910_txByIdx_eq nd id i).1),
      funext (fun id => (v910_txByIdx_eq nd id i).2)]
  | storageAt a k raw =>
    simp only [serveV, serve, withIdV_eq, handleV]
    cases ver <;> simp only [funext (fun id => (v9_storageAt_eq be nd id a k).1), funext (fun id => (v9_storageAt_eq be nd id a k).2),
      funext (fun id => (v10_storageAt_eq be nd id a k).1)]
  | storageAtWithLastUpdate a k raw =>
    cases ver <;> simp only [serveV, serve, withIdV_eq, handleV, funext (fun id => (v10_storageAt_eq be nd id a k).2)]
  | nonce raw a =>
    simp only [serveV, serve, withIdV_eq, handleV]
    cases ver <;> simp only [funext (fun id => (stateMethods_eq be nd id a 0).1.1), funext (fun id => (stateMethods_eq be nd id a 0).1.2.1),
      funext (fun id => (stateMethods_eq be nd id a 0).1.2.2)]
  | classHashAt raw a =>
    simp only [serveV, serve, withIdV_eq, handleV]
    cases ver <;> simp only [funext (fun id => (stateMethods_eq be nd id a 0).2.1.1), funext (fun id => (stateMethods_eq be nd id a 0).2.1.2.1),
      funext (fun id => (stateMethods_eq be nd id a 0).2.1.2.2)]
  | classByHash raw c =>
    simp only [serveV, serve, withIdV_eq, handleV]
    cases ver <;> simp only [funext (fun id => (stateMethods_eq be nd id 0 c).2.2.1), funext (fun id => (stateMethods_eq be nd id 0 c).2.2.2.1),
      funext (fun id => (stateMethods_eq be nd id 0 c).2.2.2.2)]
  | classAt raw a =>
    simp only [serveV, serve, withIdV_eq, handleV]
    cases ver <;> simp only [funext (fun id => (classAt_eq be nd id a).1), funext (fun id => (classAt_eq be nd id a).2.1),
      funext (fun id => (classAt_eq be nd id a).2.2)]

theorem serveFlaggedV_eq (cfg : Cfg) (be : Backend) (ver : Ver) (nd : Node) (r : Request) (fl : RawFlags) :
    serveFlaggedV cfg be ver nd r fl = serveFlagged cfg be ver nd r fl := by
  simp only [serveFlaggedV, serveFlagged, serveV_eq_serve]
  cases flagOf ver r with
  | none => rfl
  | some known =>
    dsimp only
    cases decodeFlags known fl with
    | error e => rfl
    | ok set => cases r <;> rfl

theorem transactionStatusV_eq (ver : Ver) (env : Env) (nd : Node) (h : Nat) :
    transactionStatusV ver env nd h = transactionStatusEnv ver env nd h := by
  cases ver <;> simp only [transactionStatusV, v8_status_eq, v910_status_eq]

end Juno.C08
